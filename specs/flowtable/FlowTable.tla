---------------------------- MODULE FlowTable ----------------------------
(* C04: the flow table of an OpenFlow 1.0 switch as a state machine.        *)
(*                                                                          *)
(* Abstract state: the set of installed entries.  An entry is identified    *)
(* by (match, priority); it carries its actions, timeouts, the              *)
(* SEND_FLOW_REM flag, a cookie, two clocks (age since installation, age    *)
(* since the last matching frame) and two counters.                         *)
(*                                                                          *)
(* One action per thing that can happen to the table, split by outcome so   *)
(* that TLC's per-action coverage shows which outcomes a model exercised:   *)
(*   FLOW_MOD  ADD, and MODIFY[_STRICT] that addresses nothing:             *)
(*               Insert, Replace, RefuseOverlap, RefuseFull, RejectEmerg    *)
(*             MODIFY[_STRICT] that addresses entries:  ModifyHit           *)
(*             DELETE[_STRICT]:  DeleteSome, DeleteNone                     *)
(*   Packet    a frame arrives on a port:  Hit (lookup winner is touched),  *)
(*             Miss (packet-in)                                             *)
(*   Tick      time passes                                                  *)
(*   Sweep     the periodic expiry pass (FlowTable.remove_expired_entries): *)
(*             SweepSome, SweepNone                                         *)
(*   Stats     flow / aggregate statistics request (reads only)             *)
(* Every action logs what an observer of the table and of the OpenFlow      *)
(* channel must see (`last`, appended to `hist` for export to the harness). *)
(*                                                                          *)
(* Matches.  A match is a record [ip, dd, sl, sv, nl, nv, ex]:              *)
(*   ip  in_port (0 = wildcarded)       dd  dl_dst symbol (0 = wildcarded)  *)
(*   nl/nv  nw_dst prefix: length and the value of its first nl bits        *)
(*          (nl = 0: wildcarded; a match with nl > 0 names dl_type = IPv4   *)
(*          on the wire, as the standard requires for nw_dst to count)      *)
(*   sl/sv  nw_src prefix, same encoding                                    *)
(*   ex  1 = no wildcard at all: every other header field is pinned to the  *)
(*          value it has in the reference frame (frames with ref = 1)       *)
(* Three dimensions are enough to have subsumption, disjointness and        *)
(* overlap WITHOUT subsumption (in_port=1 versus dl_dst=A), and real prefix *)
(* arithmetic on nw_dst; the second prefix field gives the same three       *)
(* relations between prefixes of DIFFERENT fields (src 20.1/16 + dst 10/8   *)
(* versus src 20/8 + dst 10.1/16).                                          *)
(*                                                                          *)
(* Spelling.  A match record is the MEANING of an ofp_match.  The wire form *)
(* has bits the standard tells the switch to ignore: address bits beyond a  *)
(* prefix length, the value of a wildcarded field, wildcard counts 33..63   *)
(* (= 32).  Every FLOW_MOD and statistics request carries `sp`, a bit set   *)
(* saying which of those don't-care bits are non-zero in the message        *)
(* (1: nw_dst bits beyond the prefix, 2: nw_src bits beyond the prefix,     *)
(* 4: values of wildcarded fields / counts above 32).  NOTHING below reads  *)
(* sp: two spellings of a match are the same match - they address, replace, *)
(* overlap and select exactly alike.  The harness concretises it, so the    *)
(* exported behaviours and the validated traces quantify over spellings.    *)
(*                                                                          *)
(* Clock model.  Real time is continuous, the model counts whole units.     *)
(* The harness realises Tick(d) as d units plus (Late) or minus (~Late) a   *)
(* tiny skew, so a model age e >= 1 stands for a real age strictly inside   *)
(* (e, e+1) resp. (e-1, e).  The instant "age = timeout exactly", where the *)
(* property leaves the outcome open, is therefore never produced, and the   *)
(* two skews pin the removal threshold from both sides: an entry must       *)
(* survive a sweep just before its timeout and must be removed by a sweep   *)
(* just after it.  Ages saturate at Cap (> every timeout): beyond it no     *)
(* decision depends on them, and the state space stays finite.              *)
EXTENDS Naturals, Sequences, FiniteSets, FiniteSetsExt, TLC, Json

CONSTANTS Mods,        \* alphabet of FLOW_MOD messages (see IsMod)
          Pkts,        \* alphabet of frames [ip, dd, ns, na, ref, len]
          Ticks,       \* clock advances, in whole units
          Queries,     \* statistics requests [m, outp, sp]
          MaxEntries,  \* capacity of the table (switch max_entries)
          MaxPk,       \* model bound: per-entry packet count
          Cap,         \* saturation value of the clocks
          Late,        \* BOOLEAN, direction of the clock skew (see above)
          AllowTies,   \* FALSE: frames whose lookup is a tie are not generated
          D            \* export depth

VARIABLES tbl,    \* set of installed entries
          last,   \* observation of the last action
          hist    \* all observations (export only; hidden by VIEW)
vars  == <<tbl, last, hist>>
view  == tbl            \* every property below reads tbl, tbl', last' only
Top   == 65537          \* effective priority of an exact-match entry

Commands == {"ADD", "MOD", "MODS", "DEL", "DELS"}
ActSyms  == {"none", "o3", "o4", "o34"}
OutPorts(a) == CASE a = "none" -> {} [] a = "o3" -> {3} [] a = "o4" -> {4}
                 [] a = "o34" -> {3, 4}
Lesser(a, b) == IF a < b THEN a ELSE b

----------------------------------------------------------------------------
(* Match algebra                                                            *)

FieldCovers(x, y) == x = 0 \/ x = y
\* prefixes (length, value of the first `length` bits); length 0 = wildcarded
\* (the guards keep 2^32 out of TLC's 32-bit integers)
PfxCovers(al, av, bl, bv) == al = 0 \/ (al <= bl /\ bv \div (2 ^ (bl - al)) = av)
PfxMeets(al, av, bl, bv)  == LET l == Lesser(al, bl) IN
                             l = 0 \/ av \div (2 ^ (al - l)) = bv \div (2 ^ (bl - l))
PfxHas(l, v, addr)        == l = 0 \/ addr \div (2 ^ (32 - l)) = v
NwCovers(a, b)  == PfxCovers(a.nl, a.nv, b.nl, b.nv)
SrcCovers(a, b) == PfxCovers(a.sl, a.sv, b.sl, b.sv)
\* a subsumes b: every frame b matches is matched by a, and a is at least as wide
Covers(a, b) == /\ FieldCovers(a.ip, b.ip)
                /\ FieldCovers(a.dd, b.dd)
                /\ NwCovers(a, b)
                /\ SrcCovers(a, b)
                /\ (a.ex = 1 => b.ex = 1)

FieldMeets(x, y) == x = 0 \/ y = 0 \/ x = y
NwMeets(a, b)  == PfxMeets(a.nl, a.nv, b.nl, b.nv)
SrcMeets(a, b) == PfxMeets(a.sl, a.sv, b.sl, b.sv)
\* a single frame may match both
Overlap(a, b) == /\ FieldMeets(a.ip, b.ip) /\ FieldMeets(a.dd, b.dd)
                 /\ NwMeets(a, b) /\ SrcMeets(a, b)

PktMatches(m, x) == /\ m.ip = 0 \/ m.ip = x.ip
                    /\ m.dd = 0 \/ m.dd = x.dd
                    /\ PfxHas(m.nl, m.nv, x.na)
                    /\ PfxHas(m.sl, m.sv, x.ns)
                    /\ m.ex = 1 => x.ref = 1

IsMatch(m) == /\ m.ip \in 0..2 /\ m.dd \in 0..2 /\ m.nl \in {0, 8, 16, 32}
              /\ m.nv \in Nat /\ (m.nl = 32 \/ m.nv < 2 ^ m.nl) /\ m.ex \in {0, 1}
              /\ m.sl \in {0, 8, 16, 32} /\ m.sv \in Nat /\ (m.sl = 32 \/ m.sv < 2 ^ m.sl)
Spellings == 0..7
IsMod(f) == /\ f.cmd \in Commands /\ IsMatch(f.m) /\ f.prio \in 0..65535
            /\ f.acts \in ActSyms /\ f.idle \in 0..(Cap - 1) /\ f.hard \in 0..(Cap - 1)
            /\ f.rem \in {0, 1} /\ f.chk \in {0, 1} /\ f.em \in {0, 1}
            /\ f.outp \in {0, 3, 4, 9} /\ f.cookie \in 1..3 /\ f.sp \in Spellings
IsPkt(x) == x.ip \in 1..2 /\ x.dd \in 1..2 /\ x.na \in Nat /\ x.ns \in Nat
            /\ x.ref \in {0, 1} /\ x.len \in Nat

ASSUME /\ \A f \in Mods : IsMod(f)
       /\ \A x \in Pkts : IsPkt(x)
       /\ \A q \in Queries : IsMatch(q.m) /\ q.outp \in {0, 3, 4, 9} /\ q.sp \in Spellings
       /\ Ticks \subseteq 1..Cap /\ MaxEntries \in Nat /\ MaxPk \in Nat
       /\ Late \in BOOLEAN /\ AllowTies \in BOOLEAN

----------------------------------------------------------------------------
(* Entries                                                                  *)

Key(e)     == <<e.m, e.prio>>
EffPrio(e) == IF e.m.ex = 1 THEN Top ELSE e.prio
NewEntry(f) == [m |-> f.m, prio |-> f.prio, acts |-> f.acts, idle |-> f.idle,
                hard |-> f.hard, rem |-> f.rem, cookie |-> f.cookie,
                age |-> 0, iage |-> 0, pkts |-> 0, bytes |-> 0]

\* what an observer sees of an entry (flow statistics + the two clocks)
Proj(e) == [m |-> e.m, p |-> e.prio, a |-> e.acts, i |-> e.idle, h |-> e.hard,
            r |-> e.rem, c |-> e.cookie, g |-> e.age, t |-> e.iage,
            n |-> e.pkts, b |-> e.bytes]
Table(T) == {Proj(e) : e \in T}

Past(elapsed, timeout) ==
  timeout > 0 /\ (IF Late THEN elapsed >= timeout ELSE elapsed > timeout)
IdleOut(e) == Past(e.iage, e.idle)
HardOut(e) == Past(e.age, e.hard)
Expired(e) == IdleOut(e) \/ HardOut(e)
\* both clocks may have run out by the time of the sweep: either reason is right
Why(e) == IF IdleOut(e) /\ HardOut(e) THEN "either"
          ELSE IF IdleOut(e) THEN "idle" ELSE "hard"

\* messages on the OpenFlow channel
Removed(e, why) == [t |-> "removed", m |-> e.m, p |-> e.prio, why |-> why,
                    n |-> e.pkts, b |-> e.bytes, i |-> e.idle, c |-> e.cookie]
Error(code)     == [t |-> "error", code |-> code]
PacketIn(x)     == [t |-> "packet_in", port |-> x.ip, total |-> x.len]

NoObs == [a |-> "Init", how |-> "init", args |-> [x |-> 0],
          exp |-> [tbl |-> {}, msgs |-> {}, out |-> {}]]

Init == tbl = {} /\ last = NoObs /\ hist = <<>>

\* `how` names the outcome (coverage accounting only, never compared)
Log(a, how, args, msgs, out) ==
  LET r == [a |-> a, how |-> how, args |-> args,
            exp |-> [tbl |-> Table(tbl'), msgs |-> msgs, out |-> out]] IN
  last' = r /\ hist' = Append(hist, r)

----------------------------------------------------------------------------
(* FLOW_MOD                                                                 *)

\* entries a command with match f.m addresses
Targets(f, strict) ==
  IF strict THEN {e \in tbl : e.m = f.m /\ e.prio = f.prio}
            ELSE {e \in tbl : Covers(f.m, e.m)}
Same(f)      == {e \in tbl : e.m = f.m /\ e.prio = f.prio}
Conflicts(f) == {e \in tbl : EffPrio(e) = EffPrio(NewEntry(f)) /\ Overlap(e.m, f.m)}

\* A new entry is installed by ADD, and by MODIFY[_STRICT] that addresses nothing
\* ("modify acts as add").  The five outcomes are mutually exclusive.
Installs(f) == \/ f.cmd = "ADD"
               \/ f.cmd \in {"MOD", "MODS"} /\ Targets(f, f.cmd = "MODS") = {}
Tag(f, s)   == IF f.cmd = "ADD" THEN s ELSE "modify_" \o s

\* Emergency entries are not supported by this switch: always refused, table
\* untouched (the standard fixes the error code only for non-zero timeouts).
RejectEmerg(f) ==
  /\ Installs(f) /\ f.em = 1
  /\ UNCHANGED tbl
  /\ Log("FlowMod", Tag(f, "emerg"), f,
         {Error(IF f.idle > 0 \/ f.hard > 0 THEN "emerg_timeout" ELSE "emerg")}, {})
\* CHECK_OVERLAP: refused when a single frame may match both the new entry and
\* an installed entry of the same priority (an identical entry included)
Refused(f) == f.chk = 1 /\ Conflicts(f) # {}
\* (tag only: does some conflicting entry contain / lie inside the new match?)
OverlapKind(f) == IF \E e \in Conflicts(f) : Covers(e.m, f.m) \/ Covers(f.m, e.m)
                  THEN "overlap_nested" ELSE "overlap_partial"
RefuseOverlap(f) ==
  /\ Installs(f) /\ f.em = 0 /\ Refused(f)
  /\ UNCHANGED tbl
  /\ Log("FlowMod", Tag(f, OverlapKind(f)), f, {Error("overlap")}, {})
RefuseFull(f) ==
  /\ Installs(f) /\ f.em = 0 /\ ~Refused(f)
  /\ Same(f) = {} /\ Cardinality(tbl) >= MaxEntries
  /\ UNCHANGED tbl
  /\ Log("FlowMod", Tag(f, "full"), f, {Error("full")}, {})
\* identical match and priority: the old entry goes silently, counters and
\* clocks start from zero
Replace(f) ==
  /\ Installs(f) /\ f.em = 0 /\ ~Refused(f)
  /\ Same(f) # {}
  /\ tbl' = (tbl \ Same(f)) \cup {NewEntry(f)}
  /\ Log("FlowMod", Tag(f, "replace"), f, {}, {})
Insert(f) ==
  /\ Installs(f) /\ f.em = 0 /\ ~Refused(f)
  /\ Same(f) = {} /\ Cardinality(tbl) < MaxEntries
  /\ tbl' = tbl \cup {NewEntry(f)}
  /\ Log("FlowMod", Tag(f, "insert"), f, {}, {})

\* MODIFY: actions of every addressed entry are replaced; nothing else moves
ModifyHit(f) ==
  /\ f.cmd \in {"MOD", "MODS"}
  /\ LET S == Targets(f, f.cmd = "MODS") IN
     /\ S # {}
     /\ tbl' = (tbl \ S) \cup {[e EXCEPT !.acts = f.acts] : e \in S}
     /\ Log("FlowMod", "modify", f, {}, {})

\* DELETE: addressed entries that (if out_port is given) output to that port
Doomed(f) == {e \in Targets(f, f.cmd = "DELS") : f.outp = 0 \/ f.outp \in OutPorts(e.acts)}
DeleteSome(f) ==
  /\ f.cmd \in {"DEL", "DELS"} /\ Doomed(f) # {}
  /\ tbl' = tbl \ Doomed(f)
  /\ Log("FlowMod", "delete", f,
         {Removed(e, "delete") : e \in {x \in Doomed(f) : x.rem = 1}}, {})
DeleteNone(f) ==
  /\ f.cmd \in {"DEL", "DELS"} /\ Doomed(f) = {}
  /\ UNCHANGED tbl
  /\ Log("FlowMod", "delete_none", f, {}, {})

FlowMod(f) == \/ RejectEmerg(f) \/ RefuseOverlap(f) \/ RefuseFull(f)
              \/ Replace(f) \/ Insert(f) \/ ModifyHit(f)
              \/ DeleteSome(f) \/ DeleteNone(f)

----------------------------------------------------------------------------
(* Traffic, time, expiry, statistics                                        *)

Matching(x) == {e \in tbl : PktMatches(e.m, x)}
Winners(x)  == {e \in Matching(x) : \A o \in Matching(x) : EffPrio(o) <= EffPrio(e)}

\* A frame: the matching entry of highest priority (any of them on a tie) counts
\* it and restarts its idle clock; the frame leaves as that entry's actions say.
Hit(x) ==
  /\ AllowTies \/ Cardinality(Winners(x)) = 1
  /\ \E w \in Winners(x) :
       /\ w.pkts < MaxPk
       /\ tbl' = (tbl \ {w}) \cup
                 {[w EXCEPT !.pkts = @ + 1, !.bytes = @ + x.len, !.iage = 0]}
       /\ Log("Packet", "hit", x, {}, OutPorts(w.acts))
Miss(x) ==
  /\ Matching(x) = {}
  /\ UNCHANGED tbl
  /\ Log("Packet", "miss", x, {PacketIn(x)}, {})

Sat(n) == Lesser(n, Cap)
Tick(d) ==
  /\ tbl' = {[e EXCEPT !.age = Sat(@ + d), !.iage = Sat(@ + d)] : e \in tbl}
  /\ Log("Tick", "tick", [d |-> d], {}, {})

Overdue == {e \in tbl : Expired(e)}
SweepSome ==
  /\ Overdue # {}
  /\ tbl' = tbl \ Overdue
  /\ Log("Sweep", "sweep", [x |-> 0],
         {Removed(e, Why(e)) : e \in {y \in Overdue : y.rem = 1}}, {})
SweepNone ==
  /\ Overdue = {}
  /\ UNCHANGED tbl
  /\ Log("Sweep", "sweep_none", [x |-> 0], {}, {})
Sweep == SweepSome \/ SweepNone

Selected(q) == {e \in tbl : Covers(q.m, e.m) /\ (q.outp = 0 \/ q.outp \in OutPorts(e.acts))}
SumOf(S, F(_)) == FoldSet(LAMBDA e, acc : acc + F(e), 0, S)
Pk(e) == e.pkts
By(e) == e.bytes
Stats(q) ==
  /\ UNCHANGED tbl
  /\ LET r == [a |-> "Stats", how |-> "stats", args |-> q,
               exp |-> [tbl |-> Table(tbl), msgs |-> {}, out |-> {},
                        flows |-> Table(Selected(q)),
                        agg |-> [n |-> SumOf(Selected(q), Pk), b |-> SumOf(Selected(q), By),
                                 f |-> Cardinality(Selected(q))]]] IN
     last' = r /\ hist' = Append(hist, r)

Next == \/ \E f \in Mods : FlowMod(f)
        \/ \E x \in Pkts : Hit(x) \/ Miss(x)
        \/ \E d \in Ticks : Tick(d)
        \/ Sweep
        \/ \E q \in Queries : Stats(q)

Spec == Init /\ [][Next]_vars

----------------------------------------------------------------------------
(* The property, over the real variables (last' is the observation of the   *)
(* step; it is a function of tbl, tbl' and the action, so VIEW = tbl loses  *)
(* nothing).                                                                *)

IsEntry(e) == /\ IsMatch(e.m) /\ e.prio \in 0..65535 /\ e.acts \in ActSyms
              /\ e.idle \in 0..(Cap - 1) /\ e.hard \in 0..(Cap - 1)
              /\ e.rem \in {0, 1} /\ e.cookie \in 1..3
              /\ e.age \in 0..Cap /\ e.iage \in 0..e.age
              /\ e.pkts \in 0..MaxPk /\ e.bytes \in Nat
              /\ (e.pkts = 0 <=> e.bytes = 0)
TypeOK    == \A e \in tbl : IsEntry(e)
UniqueKey == \A e1, e2 \in tbl : Key(e1) = Key(e2) => e1 = e2
Bounded   == Cardinality(tbl) <= MaxEntries

Keys(T)    == {Key(e) : e \in T}
Gone       == {e \in tbl : Key(e) \notin Keys(tbl')}
Notices    == {m \in last'.exp.msgs : m.t = "removed"}
IsDelete   == last'.a = "FlowMod" /\ last'.args.cmd \in {"DEL", "DELS"}
IsModify   == last'.a = "FlowMod" /\ last'.args.cmd \in {"MOD", "MODS"}

\* Entries leave only by DELETE, by a sweep once expired, or replaced by ADD.
NeverEarly ==
  [][/\ (last'.a = "Sweep" => \A e \in Gone : Expired(e))
     /\ (last'.a \in {"Packet", "Tick", "Stats"} => Gone = {})
     /\ (last'.a = "FlowMod" /\ ~IsDelete => Gone = {})]_vars
\* ... and the first sweep after the timeout takes them.
SweepComplete ==
  [][last'.a = "Sweep" =>
       /\ \A e \in tbl' : ~Expired(e) /\ e \in tbl
       /\ \A e \in tbl : ~Expired(e) => e \in tbl']_vars
\* Traffic refreshes the idle clock only, and only of the entry that counted it.
TrafficIdleOnly ==
  [][last'.a = "Packet" =>
       LET ch == tbl \ tbl' IN
       /\ Cardinality(tbl') = Cardinality(tbl)
       /\ Cardinality(ch) <= 1
       /\ \A e \in ch :
            /\ [e EXCEPT !.pkts = @ + 1, !.bytes = @ + last'.args.len, !.iage = 0] \in tbl'
            /\ PktMatches(e.m, last'.args)
            /\ \A o \in tbl : PktMatches(o.m, last'.args) => EffPrio(o) <= EffPrio(e)
       /\ (ch = {} <=> \A e \in tbl : ~PktMatches(e.m, last'.args))]_vars
\* Time moves both clocks of every entry and nothing else.
TimeOnlyAges ==
  [][last'.a = "Tick" =>
       /\ Cardinality(tbl') = Cardinality(tbl)
       /\ \A e \in tbl : \E e2 \in tbl' :
            /\ e2 = [e EXCEPT !.age = e2.age, !.iage = e2.iage]
            /\ e2.age >= e.age /\ e2.iage >= e.iage]_vars
\* Exactly one flow-removed per departing entry that asked for it, with the right
\* reason and its final counters; nothing else ever produces one.
NotifiedOnce ==
  [][IF IsDelete \/ last'.a = "Sweep"
     THEN /\ \A e \in Gone : e.rem = 1 =>
               Cardinality({m \in Notices : m.m = e.m /\ m.p = e.prio}) = 1
          /\ \A m \in Notices : \E e \in Gone :
               /\ e.rem = 1 /\ m.m = e.m /\ m.p = e.prio
               /\ m.n = e.pkts /\ m.b = e.bytes /\ m.i = e.idle /\ m.c = e.cookie
               /\ IF IsDelete THEN m.why = "delete"
                  ELSE /\ m.why \in {"idle", "either"} => IdleOut(e)
                       /\ m.why \in {"hard", "either"} => HardOut(e)
     ELSE Notices = {}]_vars
\* MODIFY that addresses entries changes their actions and nothing else.
ModifyKeepsRest ==
  [][IsModify /\ last'.how = "modify" =>
       /\ Cardinality(tbl') = Cardinality(tbl)
       /\ \A e \in tbl : \/ e \in tbl' /\ ~(e \in Targets(last'.args, last'.args.cmd = "MODS"))
                         \/ /\ [e EXCEPT !.acts = last'.args.acts] \in tbl'
                            /\ e \in Targets(last'.args, last'.args.cmd = "MODS")]_vars
\* Non-strict DELETE removes exactly what the given match subsumes (and the
\* out_port filter lets through); strict DELETE at most the identical entry.
DeleteExact ==
  [][IsDelete =>
       LET f == last'.args IN
       /\ tbl' \subseteq tbl
       /\ \A e \in tbl :
            (e \notin tbl') <=>
              /\ (IF f.cmd = "DEL" THEN Covers(f.m, e.m) ELSE e.m = f.m /\ e.prio = f.prio)
              /\ (f.outp = 0 \/ f.outp \in OutPorts(e.acts))]_vars
\* An installed entry starts from zero; everything else is untouched; an entry
\* installed under CHECK_OVERLAP shares no frame with an equal-priority entry.
InstallFresh ==
  [][last'.a = "FlowMod" /\ last'.how \in {"insert", "replace", "modify_insert"} =>
       LET f == last'.args IN
       /\ NewEntry(f) \in tbl'
       /\ \A e \in tbl : Key(e) # Key(NewEntry(f)) => e \in tbl'
       /\ \A e \in tbl' : e = NewEntry(f) \/ e \in tbl
       /\ last'.exp.msgs = {}
       /\ (f.chk = 1 => \A e \in tbl' \ {NewEntry(f)} :
              ~(EffPrio(e) = EffPrio(NewEntry(f)) /\ Overlap(e.m, f.m)))]_vars
RefusalsLeaveTable ==
  [][last'.a = "FlowMod" /\ last'.exp.msgs # {} /\ ~IsDelete =>
       tbl' = tbl /\ Cardinality(last'.exp.msgs) = 1]_vars

\* ---- export for the replay harness
Bound   == Len(hist) <= D
Export  == (Len(hist) = D) => PrintT(<<"H", ToJson(hist)>>)
ExportT == PrintT(<<"T", ToJson(hist')>>)
=============================================================================
