CONSTANTS
  Mods <- ModsPaths5
  Pkts <- PktsPaths5
  Ticks <- TicksAll
  Queries <- QueriesNone
  MaxEntries = 2
  MaxPk = 9
  Cap = 5
  Late = FALSE
  AllowTies = TRUE
  D = 5
INIT Init
NEXT Next
CONSTRAINT Bound
INVARIANT Export
CHECK_DEADLOCK FALSE
