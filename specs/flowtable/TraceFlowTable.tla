---- MODULE TraceFlowTable ----
(* Code -> spec: traces recorded from the real switch (seeded random driver) *)
(* must be behaviours of FlowTable.tla.  An event is accepted iff some       *)
(* outcome the spec allows for that action (lookup ties included) yields     *)
(* exactly the recorded observation; all invariants are evaluated at every   *)
(* matched step.                                                             *)
EXTENDS MCFlowTable, IOUtils, TLCExt, SequencesExt

Traces == JsonDeserialize(IOEnv.TRACE_FILE)
NT == Len(Traces)
VARIABLES tid, l
tvars == <<vars, tid, l>>

TrInit == Init /\ tid \in 1..NT /\ l = 1 /\ TLCSet(tid, 0)
Ev == Traces[tid][l]
IsEvent(e) == l <= Len(Traces[tid]) /\ Ev.a = e /\ l' = l + 1 /\ UNCHANGED tid

FmfCodes == {"full", "overlap", "eperm", "emerg_timeout", "bad_command", "unsupported"}
\* the two latitudes of the spec, applied to a recorded message given what the
\* spec expects: any FLOW_MOD_FAILED code for a refused emergency flow, either
\* reason for an entry whose both timeouts ran out
Norm(m, exp) ==
  IF m.t = "removed" /\ m.why \in {"idle", "hard"} /\ [m EXCEPT !.why = "either"] \in exp.msgs
  THEN [m EXCEPT !.why = "either"]
  ELSE IF m.t = "error" /\ m.code \in FmfCodes /\ Error("emerg") \in exp.msgs
  THEN Error("emerg")
  ELSE m
SameAs(exp) ==
  /\ Ev.wf
  /\ Len(Ev.obs.tbl) = Cardinality(exp.tbl) /\ ToSet(Ev.obs.tbl) = exp.tbl
  /\ Len(Ev.obs.msgs) = Cardinality(exp.msgs)
  /\ {Norm(Ev.obs.msgs[i], exp) : i \in 1..Len(Ev.obs.msgs)} = exp.msgs
  /\ Len(Ev.obs.out) = Cardinality(exp.out) /\ ToSet(Ev.obs.out) = exp.out

\* an outcome of the spec that the recorded observation does not equal is
\* printed (diagnosis of a rejected trace: what the spec expected instead)
Check(ok) == ok \/ (PrintT(<<"EXPECTED", tid, l, last'.how, ToJson(last'.exp)>>) /\ FALSE)

TrFlowMod == IsEvent("FlowMod") /\ FlowMod(Ev.args) /\ Check(SameAs(last'.exp))
TrPacket  == IsEvent("Packet") /\ (Hit(Ev.args) \/ Miss(Ev.args)) /\ Check(SameAs(last'.exp))
TrTick    == IsEvent("Tick") /\ Tick(Ev.args.d) /\ Check(SameAs(last'.exp))
TrSweep   == IsEvent("Sweep") /\ Sweep /\ Check(SameAs(last'.exp))
TrStats   == /\ IsEvent("Stats") /\ Stats(Ev.args)
             /\ Check(/\ SameAs(last'.exp)
                      /\ Len(Ev.obs.flows) = Cardinality(last'.exp.flows)
                      /\ ToSet(Ev.obs.flows) = last'.exp.flows
                      /\ Ev.obs.agg = last'.exp.agg)

TrNext == TrFlowMod \/ TrPacket \/ TrTick \/ TrSweep \/ TrStats
TrSpec == TrInit /\ [][TrNext]_tvars

Progress == TLCSet(tid, IF TLCGet(tid) < l - 1 THEN l - 1 ELSE TLCGet(tid))
Ok(t) == TLCGet(t) = Len(Traces[t]) \/ (PrintT(<<"REJECT", t, TLCGet(t)>>) /\ FALSE)
Accepted == /\ PrintT(<<"TRACES-CHECKED", NT>>)
            /\ Cardinality({t \in 1..NT : ~Ok(t)}) = 0
====
