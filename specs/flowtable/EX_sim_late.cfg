CONSTANTS
  Mods <- ModsSimS
  Pkts <- PktsSim
  Ticks <- TicksSim
  Queries <- QueriesSim
  MaxEntries = 3
  MaxPk = 100000
  Cap = 5
  Late = TRUE
  AllowTies = FALSE
  D = 60
INIT Init
NEXT Next
INVARIANT Export
CHECK_DEADLOCK FALSE
