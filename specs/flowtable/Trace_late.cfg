CONSTANTS
  Mods <- ModsSim
  Pkts <- PktsSim
  Ticks <- TicksAll
  Queries <- QueriesSim
  MaxEntries = 3
  MaxPk = 100000
  Cap = 5
  Late = TRUE
  AllowTies = TRUE
  D = 0
INIT TrInit
NEXT TrNext
CONSTRAINT Progress
POSTCONDITION Accepted
INVARIANT TypeOK
INVARIANT UniqueKey
INVARIANT Bounded
CHECK_DEADLOCK FALSE
