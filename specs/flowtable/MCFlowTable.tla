---- MODULE MCFlowTable ----
(* Constants for model checking / export of FlowTable.tla.                  *)
(* cfg files cannot hold records, so the alphabets are defined here and     *)
(* selected by `Const <- MCxxx` in the configs.                             *)
EXTENDS FlowTable

M(ip, dd, nl, nv) == [ip |-> ip, dd |-> dd, nl |-> nl, nv |-> nv, ex |-> 0]
ANY  == M(0, 0, 0, 0)
P1   == M(1, 0, 0, 0)          \* in_port = 1
P2   == M(2, 0, 0, 0)
DA   == M(0, 1, 0, 0)          \* dl_dst = A
DB   == M(0, 2, 0, 0)
P1A  == M(1, 1, 0, 0)
P2A  == M(2, 1, 0, 0)
N8   == M(0, 0, 8, 10)         \* nw_dst 10.0.0.0/8
N16  == M(0, 0, 16, 2561)      \* nw_dst 10.1.0.0/16
N16b == M(0, 0, 16, 2562)      \* nw_dst 10.2.0.0/16
P1N  == M(1, 0, 16, 2561)
H1   == 167837697              \* 10.1.0.1
H2   == 167903233              \* 10.2.0.1
H3   == 184549377              \* 11.0.0.1
A32  == M(1, 1, 32, H1)        \* the three fields of the reference frame, rest wildcarded
EX   == [ip |-> 1, dd |-> 1, nl |-> 32, nv |-> H1, ex |-> 1]   \* the exact match
MatchU == {ANY, P1, P2, DA, DB, P1A, P2A, N8, N16, N16b, P1N, A32, EX}

Pkt(ip, dd, na, ref, len) == [ip |-> ip, dd |-> dd, na |-> na, ref |-> ref, len |-> len]
X1A  == Pkt(1, 1, H1, 1, 60)   \* the reference frame
X1Ap == Pkt(1, 1, H1, 0, 62)   \* same three fields, another UDP port
X1B  == Pkt(1, 2, H2, 0, 100)
X2A  == Pkt(2, 1, H3, 0, 200)
X2B  == Pkt(2, 2, H1, 0, 1000)
PktU == {Pkt(ip, dd, na, ref, 64) : ip \in 1..2, dd \in 1..2, na \in {H1, H1 + 1, H2, H3},
                                    ref \in {0, 1}}

\* ---- sanity of the match algebra against frame semantics (checked once)
ASSUME \A a \in MatchU : IsMatch(a) /\ Covers(a, a) /\ Overlap(a, a)
ASSUME \A a, b \in MatchU : Covers(a, b) /\ Covers(b, a) => a = b
ASSUME \A a, b, c \in MatchU : Covers(a, b) /\ Covers(b, c) => Covers(a, c)
ASSUME \A a, b \in MatchU : Covers(a, b) => Overlap(a, b)
ASSUME \A a, b \in MatchU : Overlap(a, b) = Overlap(b, a)
ASSUME \A a, b \in MatchU :
         Covers(a, b) => \A x \in PktU : PktMatches(b, x) => PktMatches(a, x)
ASSUME \A a, b \in MatchU :
         Overlap(a, b) <=> \E x \in PktU : PktMatches(a, x) /\ PktMatches(b, x)
\* overlap without subsumption, subsumption, disjointness all occur
ASSUME Overlap(P1, DA) /\ ~Covers(P1, DA) /\ ~Covers(DA, P1)
ASSUME Covers(N8, N16) /\ ~Covers(N16, N8) /\ ~Overlap(N16, N16b) /\ ~Overlap(P1, P2)

TicksNone == {}
QueriesNone == {}
TicksAll  == {1, 2}

\* ---- FLOW_MOD templates
F(cmd, m, prio, acts, idle, hard, rem, chk, outp, cookie) ==
  [cmd |-> cmd, m |-> m, prio |-> prio, acts |-> acts, idle |-> idle, hard |-> hard,
   rem |-> rem, chk |-> chk, em |-> 0, outp |-> outp, cookie |-> cookie]
AddF(m, prio, acts, idle, hard, rem, chk) == F("ADD", m, prio, acts, idle, hard, rem, chk, 0, 1)
ModF(m, prio, acts)  == F("MOD", m, prio, acts, 0, 0, 1, 0, 0, 2)
ModsF(m, prio, acts) == F("MODS", m, prio, acts, 0, 0, 1, 0, 0, 3)
DelF(m, outp)        == F("DEL", m, 5, "none", 0, 0, 0, 0, outp, 1)
DelsF(m, prio, outp) == F("DELS", m, prio, "none", 0, 0, 0, 0, outp, 1)
Emerg(f) == [f EXCEPT !.em = 1]

\* -- alphabet "cmd": commands over overlapping matches, no time
ModsCmd ==
  {AddF(m, p, "o3", 0, 0, 1, 0) : m \in {P1, DA, P1A}, p \in {5, 7}}
  \cup {AddF(m, 5, "o4", 0, 0, 0, 1) : m \in {P1, DA, P1A}}
  \cup {AddF(ANY, 5, "o34", 0, 0, 1, 0)}
  \cup {ModF(m, 5, "o4") : m \in {P1, P1A, ANY}}
  \cup {ModsF(m, p, "o34") : m \in {P1, P1A}, p \in {5, 7}}
  \cup {F("MOD", DA, 7, "o4", 0, 0, 1, 1, 0, 2)}
  \cup {DelF(m, 0) : m \in {P1, DA, ANY}} \cup {DelF(ANY, 4), DelF(P1, 3)}
  \cup {DelsF(m, p, 0) : m \in {P1, P1A}, p \in {5, 7}} \cup {DelsF(P1A, 5, 4)}
  \cup {Emerg(AddF(P1, 5, "o3", 0, 0, 0, 0)), Emerg(AddF(P1, 5, "o3", 2, 0, 0, 0))}
PktsCmd    == {X1A, X2B}
QueriesCmd == {[m |-> ANY, outp |-> 0], [m |-> P1, outp |-> 3]}

\* -- alphabet "time": timeouts, traffic, sweeps
ModsTime ==
  {AddF(P1, 5, "o3", 2, 0, 1, 0), AddF(P1, 5, "o3", 0, 3, 1, 0), AddF(P1A, 7, "o4", 2, 3, 1, 0),
   AddF(P1A, 7, "o4", 3, 2, 0, 0), AddF(DA, 5, "o3", 1, 0, 1, 0),
   ModF(P1, 5, "o4"), DelF(P1A, 0)}
PktsTime    == {X1A, X1B}
QueriesTime == {[m |-> ANY, outp |-> 0]}

\* -- alphabet "nw": nw_dst prefixes and the exact match
ModsNw ==
  {AddF(m, 5, "o3", 0, 0, 1, 0) : m \in {N8, N16, N16b, P1N}}
  \cup {AddF(N16, 5, "o4", 0, 0, 0, 1), AddF(N8, 5, "o4", 0, 0, 0, 1), AddF(P1N, 5, "o4", 0, 0, 0, 1)}
  \cup {AddF(EX, 1, "o4", 0, 0, 1, 0), AddF(A32, 7, "o34", 0, 0, 1, 0), AddF(P1, 7, "o3", 0, 0, 1, 1)}
  \cup {ModF(m, 5, "o34") : m \in {N8, N16, A32}}
  \cup {ModsF(EX, 1, "o3"), ModsF(N16, 5, "none")}
  \cup {DelF(m, 0) : m \in {N8, N16, N16b, A32, P1}} \cup {DelsF(EX, 1, 0), DelsF(A32, 7, 0), DelF(N8, 4)}
PktsNw    == {X1A, X1Ap, X1B, X2B}
QueriesNw == {[m |-> N8, outp |-> 0], [m |-> ANY, outp |-> 4]}

\* -- reduced alphabets: their whole transition graphs are replayed in the quick tier
ModsCmdQ ==
  {AddF(P1, 5, "o3", 0, 0, 1, 0), AddF(DA, 5, "o4", 0, 0, 1, 1), AddF(P1A, 5, "o3", 0, 0, 0, 1),
   AddF(P1A, 7, "o34", 0, 0, 1, 0), AddF(P1, 5, "o4", 0, 0, 0, 1),
   ModF(P1, 5, "o4"), ModF(ANY, 5, "none"), ModsF(P1A, 5, "o34"), ModsF(P1, 7, "o3"),
   DelF(P1, 0), DelF(ANY, 4), DelsF(P1A, 5, 0), DelsF(P1, 7, 0), DelsF(DA, 5, 3),
   Emerg(AddF(P1, 5, "o3", 0, 0, 0, 0))}
QueriesCmdQ == {[m |-> P1, outp |-> 3]}
\* one entry, every shape of timeout pair; two entries, mixed reasons in one sweep
ModsTime1 ==
  {AddF(P1, 5, "o3", i, h, 1, 0) : <<i, h>> \in {<<1, 0>>, <<0, 2>>, <<2, 3>>, <<3, 2>>}}
  \cup {AddF(P1, 5, "o3", 2, 2, 0, 0), ModF(P1, 5, "o4"), DelF(P1, 0)}
PktsTime1 == {X1A, X2B}
ModsTime2 ==
  {AddF(P1, 5, "o3", 2, 0, 1, 0), AddF(P1A, 7, "o4", 2, 3, 1, 0), AddF(DA, 5, "o3", 0, 3, 1, 0)}
PktsTime2 == {X1A}
ModsNwQ ==
  {AddF(N8, 5, "o3", 0, 0, 1, 0), AddF(N16, 5, "o3", 0, 0, 1, 1), AddF(N16b, 5, "o4", 0, 0, 1, 1),
   AddF(EX, 1, "o4", 0, 0, 1, 0), AddF(A32, 7, "o34", 0, 0, 1, 0), AddF(P1N, 5, "o4", 0, 0, 0, 1),
   ModF(N8, 5, "o34"), ModsF(EX, 1, "o3"), DelF(N16, 0), DelF(A32, 0), DelsF(A32, 7, 0), DelF(N8, 4)}
PktsNwQ == {X1A, X1Ap, X1B}
QueriesNwQ == {[m |-> N8, outp |-> 0]}

\* -- small alphabet for all paths of depth 3
ModsPaths ==
  {AddF(P1, 5, "o3", 2, 0, 1, 0), AddF(DA, 5, "o4", 0, 3, 1, 1), AddF(P1A, 5, "o3", 0, 0, 0, 1),
   AddF(P1A, 7, "o4", 2, 3, 1, 0), AddF(P1, 5, "o4", 0, 0, 0, 0), AddF(ANY, 7, "o34", 0, 0, 1, 1),
   AddF(N16, 5, "o3", 0, 0, 1, 1), AddF(N8, 5, "o4", 0, 0, 1, 1), AddF(EX, 1, "o4", 0, 0, 1, 0),
   ModF(P1, 5, "o4"), ModF(P1A, 7, "o34"), ModF(ANY, 5, "none"),
   ModsF(P1, 5, "o34"), ModsF(P1A, 5, "o4"), F("MODS", DA, 5, "o3", 2, 0, 1, 1, 0, 3),
   DelF(P1, 0), DelF(DA, 0), DelF(ANY, 4), DelF(N8, 0),
   DelsF(P1, 5, 0), DelsF(P1A, 7, 0), DelsF(P1A, 5, 3),
   Emerg(AddF(P1, 5, "o3", 0, 0, 0, 0))}
PktsPaths    == {X1A, X1B, X2A}
\* (quick tier: a sub-alphabet, 21 operations)
ModsPathsQ ==
  {AddF(P1, 5, "o3", 2, 0, 1, 0), AddF(DA, 5, "o4", 0, 3, 1, 1), AddF(P1A, 5, "o3", 0, 0, 0, 1),
   AddF(P1A, 7, "o4", 2, 3, 1, 0), AddF(P1, 5, "o4", 0, 0, 0, 0), AddF(EX, 1, "o4", 0, 0, 1, 0),
   ModF(P1, 5, "o4"), ModsF(P1A, 5, "o4"), F("MODS", DA, 5, "o3", 2, 0, 1, 1, 0, 3),
   DelF(P1, 0), DelF(ANY, 4), DelsF(P1A, 7, 0), DelsF(P1A, 5, 3),
   Emerg(AddF(P1, 5, "o3", 0, 0, 0, 0))}
PktsPathsQ    == {X1A, X2A}
QueriesPathsQ == {[m |-> P1, outp |-> 0]}
QueriesPaths == {[m |-> P1, outp |-> 0], [m |-> ANY, outp |-> 3]}

\* -- eight operations, all paths of depth 5: the shortest histories in which
\* traffic, two clock advances and a sweep interleave
ModsPaths5 ==
  {AddF(P1, 5, "o3", 2, 3, 1, 0), AddF(P1A, 7, "o4", 1, 0, 1, 0), ModF(P1, 5, "o34"), DelF(P1, 0)}
PktsPaths5 == {X1A}

\* -- rich alphabet for long random behaviours
ModsSim ==
  ModsCmd \cup ModsTime \cup ModsNw \cup ModsPaths
  \cup {AddF(m, p, "o3", 2, 3, 1, 0) : m \in {P2, DB, P2A}, p \in {5, 7}}
  \cup {DelF(P2, 0), DelF(DB, 3), ModF(P2, 5, "none")}
\* (simulation picks successors uniformly: a leaner FLOW_MOD alphabet keeps
\* traffic, time and sweeps frequent enough in the random behaviours)
ModsSimS ==
  {AddF(P1, 5, "o3", 2, 0, 1, 0), AddF(P1, 5, "o4", 0, 3, 1, 1), AddF(DA, 5, "o4", 1, 3, 1, 1),
   AddF(P1A, 7, "o34", 2, 3, 1, 0), AddF(P1A, 5, "o3", 3, 2, 0, 0), AddF(ANY, 5, "o34", 0, 4, 1, 0),
   AddF(N8, 7, "o3", 3, 0, 1, 1), AddF(N16, 5, "o4", 0, 0, 1, 1), AddF(P2, 7, "o3", 1, 0, 1, 0),
   AddF(EX, 1, "o4", 2, 0, 1, 0), AddF(DB, 5, "none", 0, 2, 1, 1),
   ModF(P1, 5, "o4"), ModF(ANY, 5, "o3"), ModF(N8, 5, "o34"), ModsF(P1A, 7, "o3"), ModsF(DA, 7, "o4"),
   DelF(P1, 0), DelF(DA, 3), DelF(ANY, 4), DelF(N8, 0), DelsF(P1A, 7, 0), DelsF(EX, 1, 0), DelsF(P1, 5, 4),
   Emerg(AddF(P1, 5, "o3", 2, 0, 0, 0))}
TicksSim   == {1, 2, 3}
PktsSim    == {X1A, X1Ap, X1B, X2A, X2B}
QueriesSim == QueriesCmd \cup QueriesNw
====
