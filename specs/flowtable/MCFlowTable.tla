---- MODULE MCFlowTable ----
(* Constants for model checking / export of FlowTable.tla.                  *)
(* cfg files cannot hold records, so the alphabets are defined here and     *)
(* selected by `Const <- MCxxx` in the configs.                             *)
EXTENDS FlowTable

MS(ip, dd, sl, sv, nl, nv) == [ip |-> ip, dd |-> dd, sl |-> sl, sv |-> sv, nl |-> nl, nv |-> nv,
                               ex |-> 0]
M(ip, dd, nl, nv) == MS(ip, dd, 0, 0, nl, nv)
ANY  == M(0, 0, 0, 0)
P1   == M(1, 0, 0, 0)          \* in_port = 1
P2   == M(2, 0, 0, 0)
DA   == M(0, 1, 0, 0)          \* dl_dst = A
DB   == M(0, 2, 0, 0)
P1A  == M(1, 1, 0, 0)
P2A  == M(2, 1, 0, 0)
N8   == M(0, 0, 8, 10)         \* nw_dst 10.0.0.0/8
N16  == M(0, 0, 16, 2561)      \* nw_dst 10.1.0.0/16
N16b == M(0, 0, 16, 2562)      \* nw_dst 10.2.0.0/16
P1N  == M(1, 0, 16, 2561)
H1   == 167837697              \* 10.1.0.1
H2   == 167903233              \* 10.2.0.1
H3   == 184549377              \* 11.0.0.1
A32  == M(1, 1, 32, H1)        \* the three fields of the reference frame, rest wildcarded
SRC  == 335609865              \* 20.1.0.9 : nw_src of the reference frame
SRC2 == 335675401              \* 20.2.0.9
SRC3 == 352321545              \* 21.0.0.9
EX   == [ip |-> 1, dd |-> 1, sl |-> 32, sv |-> SRC, nl |-> 32, nv |-> H1, ex |-> 1]  \* the exact match
\* nw_src prefixes, alone and together with nw_dst prefixes
S8     == MS(0, 0, 8, 20, 0, 0)          \* nw_src 20.0.0.0/8
S16    == MS(0, 0, 16, 5121, 0, 0)       \* nw_src 20.1.0.0/16
S16b   == MS(0, 0, 16, 5122, 0, 0)       \* nw_src 20.2.0.0/16
S8N8   == MS(0, 0, 8, 20, 8, 10)
S16N8  == MS(0, 0, 16, 5121, 8, 10)      \* overlaps S8N16, neither contains the other
S8N16  == MS(0, 0, 8, 20, 16, 2561)
S16N16 == MS(0, 0, 16, 5121, 16, 2561)   \* inside both
S16bN16 == MS(0, 0, 16, 5122, 16, 2561)  \* differs from S16N16 in the source only
P1S16  == MS(1, 0, 16, 5121, 0, 0)
\* the longer prefix continues the shorter one with zero bits (20.0/16 in 20/8, 10.0/16 in 10/8):
\* its network ADDRESS equals that of the shorter prefix, only the length tells them apart
S16z     == MS(0, 0, 16, 5120, 0, 0)
S16zN16z == MS(0, 0, 16, 5120, 16, 2560)
S16zN8   == MS(0, 0, 16, 5120, 8, 10)     \* narrower than S8N8 in the source only
S8N16z   == MS(0, 0, 8, 20, 16, 2560)     \* ... in the destination only
S32N32 == MS(0, 0, 32, SRC, 32, H1)      \* two host addresses: no bit to ignore
MatchS == {S8, S16, S16b, S8N8, S16N8, S8N16, S16N16, S16bN16, P1S16, S32N32, S16z, S16zN16z, S16zN8, S8N16z}
MatchU == {ANY, P1, P2, DA, DB, P1A, P2A, N8, N16, N16b, P1N, A32, EX} \cup MatchS

PktS(ip, dd, ns, na, ref, len) == [ip |-> ip, dd |-> dd, ns |-> ns, na |-> na, ref |-> ref,
                                   len |-> len]
Pkt(ip, dd, na, ref, len) == PktS(ip, dd, SRC, na, ref, len)
X1A  == Pkt(1, 1, H1, 1, 60)   \* the reference frame
X1Ap == Pkt(1, 1, H1, 0, 62)   \* same three fields, another UDP port
X1B  == Pkt(1, 2, H2, 0, 100)
X2A  == Pkt(2, 1, H3, 0, 200)
X2B  == Pkt(2, 2, H1, 0, 1000)
Y2A  == PktS(1, 1, SRC2, H1, 0, 66)    \* the reference frame from 20.2.0.9
Y1B  == PktS(1, 2, SRC, H2, 0, 102)     \* 20.1.0.9 -> 10.2.0.1
Y3C  == PktS(2, 1, SRC3, H3, 0, 202)    \* 21.0.0.9 -> 11.0.0.1
PktU == {x \in {PktS(ip, dd, ns, na, ref, 64) : ip \in 1..2, dd \in 1..2, ns \in {SRC, SRC + 1, SRC2, SRC3, SRC - 65536},
                                               na \in {H1, H1 + 1, H2, H3, H1 - 65536}, ref \in {0, 1}} :
           x.ref = 1 => x.ns = SRC}

\* ---- sanity of the match algebra against frame semantics (checked once)
ASSUME \A a \in MatchU : IsMatch(a) /\ Covers(a, a) /\ Overlap(a, a)
ASSUME \A a, b \in MatchU : Covers(a, b) /\ Covers(b, a) => a = b
ASSUME \A a, b, c \in MatchU : Covers(a, b) /\ Covers(b, c) => Covers(a, c)
ASSUME \A a, b \in MatchU : Covers(a, b) => Overlap(a, b)
ASSUME \A a, b \in MatchU : Overlap(a, b) = Overlap(b, a)
ASSUME \A a, b \in MatchU :
         Covers(a, b) => \A x \in PktU : PktMatches(b, x) => PktMatches(a, x)
ASSUME \A a, b \in MatchU :
         Overlap(a, b) <=> \E x \in PktU : PktMatches(a, x) /\ PktMatches(b, x)
\* overlap without subsumption, subsumption, disjointness all occur
ASSUME Overlap(P1, DA) /\ ~Covers(P1, DA) /\ ~Covers(DA, P1)
ASSUME Covers(N8, N16) /\ ~Covers(N16, N8) /\ ~Overlap(N16, N16b) /\ ~Overlap(P1, P2)
\* ... and between prefixes of the two address fields
ASSUME /\ Overlap(S16N8, S8N16) /\ ~Covers(S16N8, S8N16) /\ ~Covers(S8N16, S16N8)
       /\ Covers(S8N8, S16N8) /\ Covers(S8N8, S8N16) /\ Covers(S16N8, S16N16) /\ Covers(S8N16, S16N16)
       /\ Overlap(S16, N16) /\ ~Covers(S16, N16) /\ ~Covers(N16, S16)
       /\ ~Overlap(S16N16, S16bN16) /\ ~Overlap(S16, S16b) /\ Covers(S16, EX) /\ Covers(S16N16, S32N32)
       /\ Covers(S8N8, S16zN16z) /\ ~Covers(S16zN16z, S8N8) /\ ~Overlap(S16zN16z, S16N16)
       /\ Covers(S8, S16z) /\ ~Covers(S16z, S8)
       /\ Covers(S8N8, S16zN8) /\ ~Covers(S16zN8, S8N8) /\ Covers(S8N8, S8N16z) /\ ~Covers(S8N16z, S8N8)
\* the reference frame (ref = 1) is the one the exact match names
ASSUME \A x \in PktU : PktMatches(EX, x) => x.ns = SRC /\ x.na = H1 /\ x.ip = 1 /\ x.dd = 1

TicksNone == {}
QueriesNone == {}
TicksAll  == {1, 2}

\* ---- FLOW_MOD templates
F(cmd, m, prio, acts, idle, hard, rem, chk, outp, cookie) ==
  [cmd |-> cmd, m |-> m, prio |-> prio, acts |-> acts, idle |-> idle, hard |-> hard,
   rem |-> rem, chk |-> chk, em |-> 0, outp |-> outp, cookie |-> cookie, sp |-> 0]
\* the same message spelled with non-zero don't-care bits (see FlowTable.tla, "Spelling")
Sp(f, s) == [f EXCEPT !.sp = s]
Q(m, outp, s) == [m |-> m, outp |-> outp, sp |-> s]
AddF(m, prio, acts, idle, hard, rem, chk) == F("ADD", m, prio, acts, idle, hard, rem, chk, 0, 1)
ModF(m, prio, acts)  == F("MOD", m, prio, acts, 0, 0, 1, 0, 0, 2)
ModsF(m, prio, acts) == F("MODS", m, prio, acts, 0, 0, 1, 0, 0, 3)
DelF(m, outp)        == F("DEL", m, 5, "none", 0, 0, 0, 0, outp, 1)
DelsF(m, prio, outp) == F("DELS", m, prio, "none", 0, 0, 0, 0, outp, 1)
Emerg(f) == [f EXCEPT !.em = 1]

\* -- alphabet "cmd": commands over overlapping matches, no time
ModsCmd ==
  {AddF(m, p, "o3", 0, 0, 1, 0) : m \in {P1, DA, P1A}, p \in {5, 7}}
  \cup {AddF(m, 5, "o4", 0, 0, 0, 1) : m \in {P1, DA, P1A}}
  \cup {AddF(ANY, 5, "o34", 0, 0, 1, 0)}
  \cup {ModF(m, 5, "o4") : m \in {P1, P1A, ANY}}
  \cup {ModsF(m, p, "o34") : m \in {P1, P1A}, p \in {5, 7}}
  \cup {F("MOD", DA, 7, "o4", 0, 0, 1, 1, 0, 2)}
  \cup {DelF(m, 0) : m \in {P1, DA, ANY}} \cup {DelF(ANY, 4), DelF(P1, 3)}
  \cup {DelsF(m, p, 0) : m \in {P1, P1A}, p \in {5, 7}} \cup {DelsF(P1A, 5, 4)}
  \cup {Emerg(AddF(P1, 5, "o3", 0, 0, 0, 0)), Emerg(AddF(P1, 5, "o3", 2, 0, 0, 0))}
PktsCmd    == {X1A, X2B}
QueriesCmd == {Q(ANY, 0, 0), Q(P1, 3, 0)}

\* -- alphabet "time": timeouts, traffic, sweeps
ModsTime ==
  {AddF(P1, 5, "o3", 2, 0, 1, 0), AddF(P1, 5, "o3", 0, 3, 1, 0), AddF(P1A, 7, "o4", 2, 3, 1, 0),
   AddF(P1A, 7, "o4", 3, 2, 0, 0), AddF(DA, 5, "o3", 1, 0, 1, 0),
   ModF(P1, 5, "o4"), DelF(P1A, 0)}
PktsTime    == {X1A, X1B}
QueriesTime == {Q(ANY, 0, 0)}

\* -- alphabet "nw": nw_dst prefixes and the exact match
ModsNw ==
  {AddF(m, 5, "o3", 0, 0, 1, 0) : m \in {N8, N16, N16b, P1N}}
  \cup {AddF(N16, 5, "o4", 0, 0, 0, 1), AddF(N8, 5, "o4", 0, 0, 0, 1), AddF(P1N, 5, "o4", 0, 0, 0, 1)}
  \cup {AddF(EX, 1, "o4", 0, 0, 1, 0), AddF(A32, 7, "o34", 0, 0, 1, 0), AddF(P1, 7, "o3", 0, 0, 1, 1)}
  \cup {ModF(m, 5, "o34") : m \in {N8, N16, A32}}
  \cup {ModsF(EX, 1, "o3"), ModsF(N16, 5, "none")}
  \cup {DelF(m, 0) : m \in {N8, N16, N16b, A32, P1}} \cup {DelsF(EX, 1, 0), DelsF(A32, 7, 0), DelF(N8, 4)}
PktsNw    == {X1A, X1Ap, X1B, X2B}
QueriesNw == {Q(N8, 0, 0), Q(ANY, 4, 0)}

\* -- reduced alphabets: their whole transition graphs are replayed in the quick tier
\* (some messages are spelled with junk in their wildcarded fields: same graph, other bytes)
ModsCmdQ ==
  {AddF(P1, 5, "o3", 0, 0, 1, 0), Sp(AddF(DA, 5, "o4", 0, 0, 1, 1), 4), AddF(P1A, 5, "o3", 0, 0, 0, 1),
   AddF(P1A, 7, "o34", 0, 0, 1, 0), Sp(AddF(P1, 5, "o4", 0, 0, 0, 1), 4),
   ModF(P1, 5, "o4"), Sp(ModF(ANY, 5, "none"), 4), Sp(ModsF(P1A, 5, "o34"), 4), ModsF(P1, 7, "o3"),
   Sp(DelF(P1, 0), 4), DelF(ANY, 4), Sp(DelsF(P1A, 5, 0), 4), DelsF(P1, 7, 0), DelsF(DA, 5, 3),
   Emerg(AddF(P1, 5, "o3", 0, 0, 0, 0))}
QueriesCmdQ == {Q(P1, 3, 4)}
\* one entry, every shape of timeout pair; two entries, mixed reasons in one sweep
ModsTime1 ==
  {AddF(P1, 5, "o3", i, h, 1, 0) : <<i, h>> \in {<<1, 0>>, <<0, 2>>, <<2, 3>>, <<3, 2>>}}
  \cup {AddF(P1, 5, "o3", 2, 2, 0, 0), ModF(P1, 5, "o4"), DelF(P1, 0)}
PktsTime1 == {X1A, X2B}
ModsTime2 ==
  {AddF(P1, 5, "o3", 2, 0, 1, 0), AddF(P1A, 7, "o4", 2, 3, 1, 0), AddF(DA, 5, "o3", 0, 3, 1, 0)}
PktsTime2 == {X1A}
ModsNwQ ==
  {Sp(AddF(N8, 5, "o3", 0, 0, 1, 0), 4), AddF(N16, 5, "o3", 0, 0, 1, 1), AddF(N16b, 5, "o4", 0, 0, 1, 1),
   AddF(EX, 1, "o4", 0, 0, 1, 0), Sp(AddF(A32, 7, "o34", 0, 0, 1, 0), 4), AddF(P1N, 5, "o4", 0, 0, 0, 1),
   Sp(ModF(N8, 5, "o34"), 4), ModsF(EX, 1, "o3"), Sp(DelF(N16, 0), 5), DelF(A32, 0), DelsF(A32, 7, 0),
   DelF(N8, 4)}
PktsNwQ == {X1A, X1Ap, X1B}
QueriesNwQ == {Q(N8, 0, 4)}

\* -- alphabet "sd": nw_src x nw_dst prefixes, every message in several spellings
ModsSd ==
  {Sp(AddF(m, 5, "o3", 0, 0, 1, 0), s) : m \in {S8N8, S16N8, S8N16, S16N16}, s \in {0, 3}}
  \cup {Sp(AddF(S16N16, 5, "o4", 0, 0, 1, 0), s) : s \in {1, 2, 7}}
  \cup {Sp(AddF(S16bN16, 5, "o3", 0, 0, 1, 1), 3), Sp(AddF(S8N16, 5, "o4", 0, 0, 0, 1), 2),
        Sp(AddF(N16, 5, "o4", 0, 0, 1, 1), 5), Sp(AddF(S16, 7, "o34", 0, 0, 1, 0), 6),
        Sp(AddF(S32N32, 5, "o4", 0, 0, 1, 1), 7), AddF(EX, 1, "o4", 0, 0, 1, 0)}
  \cup {Sp(ModF(S8N8, 5, "o34"), 3), ModF(S16N8, 5, "o4"), Sp(ModF(S16, 5, "none"), 6)}
  \cup {Sp(ModsF(S16N16, 5, "o34"), s) : s \in {0, 3}} \cup {Sp(ModsF(S8N16, 5, "o3"), 1)}
  \cup {Sp(DelF(S8N8, 0), 3), DelF(S16N8, 0), Sp(DelF(S8N16, 0), 7), Sp(DelF(S16, 0), 2),
        Sp(DelF(N16, 0), 1), Sp(DelF(S8N8, 4), 3), Sp(DelF(ANY, 3), 4), Sp(DelF(S16zN16z, 0), 3),
        Sp(ModF(S16z, 5, "o4"), 2), Sp(DelF(S16zN8, 0), 3), Sp(DelF(S8N16z, 4), 1)}
  \cup {Sp(DelsF(S16N16, 5, 0), s) : s \in {0, 3, 4}}
  \cup {Sp(DelsF(S8N16, 5, 3), 3), Sp(DelsF(S16, 7, 0), 2)}
PktsSd    == {X1A, Y2A, Y1B, Y3C}
QueriesSd == {Q(S8N8, 0, 3), Q(S16N8, 3, 2), Q(ANY, 0, 4), Q(S16N16, 0, 0), Q(S16zN16z, 0, 3), Q(S8N16z, 0, 1),
              Q(S16zN8, 0, 2)}
\* (reduced: its whole transition graph is replayed in the quick tier)
ModsSdQ ==
  {Sp(AddF(S16N16, 5, "o3", 0, 0, 1, 0), 3), AddF(S16N16, 5, "o4", 0, 0, 0, 0),
   Sp(AddF(S8N8, 5, "o34", 0, 0, 1, 0), 7), Sp(AddF(S16N8, 5, "o4", 0, 0, 1, 1), 2),
   Sp(AddF(S8N16, 5, "o3", 0, 0, 1, 1), 3), Sp(AddF(S16bN16, 5, "o3", 0, 0, 1, 1), 1),
   Sp(AddF(S16, 7, "o4", 0, 0, 1, 0), 6),
   Sp(ModF(S16N8, 5, "o34"), 3), Sp(ModsF(S16N16, 5, "none"), 3), ModsF(S8N16, 5, "o4"),
   Sp(DelF(S8N8, 0), 3), Sp(DelF(S8N16, 4), 5), Sp(DelF(S16, 0), 2),
   Sp(DelsF(S16N16, 5, 0), 3), DelsF(S8N8, 5, 0), Sp(DelsF(S16N8, 5, 3), 7),
   Sp(DelF(S16zN8, 0), 3)}
PktsSdQ    == {X1A, Y2A, Y1B}
QueriesSdQ == {Q(S8N8, 0, 3), Q(S16N16, 4, 6), Q(S8N16z, 0, 3)}

\* -- small alphabet for all paths of depth 3
ModsPaths ==
  {AddF(P1, 5, "o3", 2, 0, 1, 0), AddF(DA, 5, "o4", 0, 3, 1, 1), AddF(P1A, 5, "o3", 0, 0, 0, 1),
   AddF(P1A, 7, "o4", 2, 3, 1, 0), AddF(P1, 5, "o4", 0, 0, 0, 0), AddF(ANY, 7, "o34", 0, 0, 1, 1),
   AddF(N16, 5, "o3", 0, 0, 1, 1), AddF(N8, 5, "o4", 0, 0, 1, 1), AddF(EX, 1, "o4", 0, 0, 1, 0),
   ModF(P1, 5, "o4"), ModF(P1A, 7, "o34"), ModF(ANY, 5, "none"),
   ModsF(P1, 5, "o34"), ModsF(P1A, 5, "o4"), F("MODS", DA, 5, "o3", 2, 0, 1, 1, 0, 3),
   DelF(P1, 0), DelF(DA, 0), DelF(ANY, 4), DelF(N8, 0),
   DelsF(P1, 5, 0), DelsF(P1A, 7, 0), DelsF(P1A, 5, 3),
   Emerg(AddF(P1, 5, "o3", 0, 0, 0, 0))}
PktsPaths    == {X1A, X1B, X2A}
\* (quick tier: a sub-alphabet, 21 operations)
ModsPathsQ ==
  {AddF(P1, 5, "o3", 2, 0, 1, 0), AddF(DA, 5, "o4", 0, 3, 1, 1), AddF(P1A, 5, "o3", 0, 0, 0, 1),
   AddF(P1A, 7, "o4", 2, 3, 1, 0), AddF(P1, 5, "o4", 0, 0, 0, 0), AddF(EX, 1, "o4", 0, 0, 1, 0),
   ModF(P1, 5, "o4"), ModsF(P1A, 5, "o4"), F("MODS", DA, 5, "o3", 2, 0, 1, 1, 0, 3),
   DelF(P1, 0), DelF(ANY, 4), DelsF(P1A, 7, 0), DelsF(P1A, 5, 3),
   Emerg(AddF(P1, 5, "o3", 0, 0, 0, 0))}
PktsPathsQ    == {X1A, X2A}
QueriesPathsQ == {Q(P1, 0, 0)}
QueriesPaths == {Q(P1, 0, 0), Q(ANY, 3, 0)}

\* -- eight operations, all paths of depth 5: the shortest histories in which
\* traffic, two clock advances and a sweep interleave
ModsPaths5 ==
  {AddF(P1, 5, "o3", 2, 3, 1, 0), AddF(P1A, 7, "o4", 1, 0, 1, 0), ModF(P1, 5, "o34"), DelF(P1, 0)}
PktsPaths5 == {X1A}

\* -- rich alphabet for long random behaviours
ModsSim ==
  ModsCmd \cup ModsTime \cup ModsNw \cup ModsPaths \cup ModsSd
  \cup {AddF(m, p, "o3", 2, 3, 1, 0) : m \in {P2, DB, P2A}, p \in {5, 7}}
  \cup {DelF(P2, 0), DelF(DB, 3), ModF(P2, 5, "none")}
\* (simulation picks successors uniformly: a leaner FLOW_MOD alphabet keeps
\* traffic, time and sweeps frequent enough in the random behaviours)
ModsSimS ==
  {AddF(P1, 5, "o3", 2, 0, 1, 0), AddF(P1, 5, "o4", 0, 3, 1, 1), AddF(DA, 5, "o4", 1, 3, 1, 1),
   AddF(P1A, 7, "o34", 2, 3, 1, 0), AddF(P1A, 5, "o3", 3, 2, 0, 0), AddF(ANY, 5, "o34", 0, 4, 1, 0),
   AddF(N8, 7, "o3", 3, 0, 1, 1), AddF(N16, 5, "o4", 0, 0, 1, 1), AddF(P2, 7, "o3", 1, 0, 1, 0),
   AddF(EX, 1, "o4", 2, 0, 1, 0), AddF(DB, 5, "none", 0, 2, 1, 1),
   ModF(P1, 5, "o4"), ModF(ANY, 5, "o3"), ModF(N8, 5, "o34"), ModsF(P1A, 7, "o3"), ModsF(DA, 7, "o4"),
   DelF(P1, 0), DelF(DA, 3), DelF(ANY, 4), DelF(N8, 0), DelsF(P1A, 7, 0), DelsF(EX, 1, 0), DelsF(P1, 5, 4),
   Emerg(AddF(P1, 5, "o3", 2, 0, 0, 0)),
   Sp(AddF(S16N16, 7, "o3", 2, 0, 1, 0), 3), Sp(AddF(S8N8, 5, "o4", 3, 4, 1, 1), 7),
   Sp(AddF(S16N16, 7, "o4", 0, 3, 1, 0), 0), Sp(AddF(P1, 5, "o3", 2, 3, 1, 0), 4),
   Sp(ModF(S8N8, 5, "o34"), 3), Sp(DelsF(S16N16, 7, 0), 3), Sp(DelF(S8N16, 3), 2),
   Sp(DelF(N8, 0), 5), Sp(ModsF(P1A, 7, "o4"), 4)}
TicksSim   == {1, 2, 3}
PktsSim    == {X1A, X1Ap, X1B, X2A, X2B, Y2A, Y1B}
QueriesSim == QueriesCmd \cup QueriesNw \cup QueriesSd
====
