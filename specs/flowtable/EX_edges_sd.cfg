CONSTANTS
  Mods <- ModsSd
  Pkts <- PktsSd
  Ticks <- TicksNone
  Queries <- QueriesSd
  MaxEntries = 2
  MaxPk = 1
  Cap = 5
  Late = TRUE
  AllowTies = FALSE
  D = 3
INIT Init
NEXT Next
VIEW view
ACTION_CONSTRAINT ExportT
CHECK_DEADLOCK FALSE
