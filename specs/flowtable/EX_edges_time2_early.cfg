CONSTANTS
  Mods <- ModsTime2
  Pkts <- PktsTime2
  Ticks <- TicksAll
  Queries <- QueriesTime
  MaxEntries = 2
  MaxPk = 1
  Cap = 5
  Late = FALSE
  AllowTies = FALSE
  D = 3
INIT Init
NEXT Next
VIEW view
ACTION_CONSTRAINT ExportT
CHECK_DEADLOCK FALSE
