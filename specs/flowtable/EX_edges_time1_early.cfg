CONSTANTS
  Mods <- ModsTime1
  Pkts <- PktsTime1
  Ticks <- TicksAll
  Queries <- QueriesTime
  MaxEntries = 1
  MaxPk = 2
  Cap = 5
  Late = FALSE
  AllowTies = FALSE
  D = 3
INIT Init
NEXT Next
VIEW view
ACTION_CONSTRAINT ExportT
CHECK_DEADLOCK FALSE
