CONSTANTS
  Mods <- ModsPaths
  Pkts <- PktsPaths
  Ticks <- TicksAll
  Queries <- QueriesPaths
  MaxEntries = 2
  MaxPk = 9
  Cap = 5
  Late = TRUE
  AllowTies = TRUE
  D = 3
INIT Init
NEXT Next
CONSTRAINT Bound
INVARIANT Export
CHECK_DEADLOCK FALSE
