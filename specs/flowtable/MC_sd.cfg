CONSTANTS
  Mods <- ModsSd
  Pkts <- PktsSd
  Ticks <- TicksNone
  Queries <- QueriesSd
  MaxEntries = 2
  MaxPk = 1
  Cap = 5
  Late = TRUE
  AllowTies = TRUE
  D = 3
INIT Init
NEXT Next
VIEW view
INVARIANT TypeOK
INVARIANT UniqueKey
INVARIANT Bounded
PROPERTY NeverEarly
PROPERTY SweepComplete
PROPERTY TrafficIdleOnly
PROPERTY TimeOnlyAges
PROPERTY NotifiedOnce
PROPERTY ModifyKeepsRest
PROPERTY DeleteExact
PROPERTY InstallFresh
PROPERTY RefusalsLeaveTable
CHECK_DEADLOCK FALSE
