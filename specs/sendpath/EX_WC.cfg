CONSTANTS MaxMsgs = 3
  MsgLen = 3
  KeepHist = TRUE
  D = 0
  StartConnecting <- Yes
INIT Init
NEXT Next
VIEW viewE
ACTION_CONSTRAINT ExportT
CHECK_DEADLOCK FALSE
