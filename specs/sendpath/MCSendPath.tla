---- MODULE MCSendPath ----
EXTENDS SendPath
ConnsAB == {"A", "B"}
ConnsA == {"A"}
====
