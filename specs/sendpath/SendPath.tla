----------------------------- MODULE SendPath -----------------------------
(* C20, controller side: of_01.Connection.send + DeferredSender.             *)
(*                                                                           *)
(* Two threads.  The cooperative thread executes Connection.send in up to    *)
(* three steps separated by the points where the other thread can interleave:*)
(*   CoopCall   - send() is entered (dropped at once on a dead connection)   *)
(*   CoopFlag   - the unlocked read of deferredSender.sending                 *)
(*   CoopDirect - sock.send() on the connection's socket (outcome o)         *)
(*   CoopDefer  - deferredSender.send(): under the lock, slice and queue     *)
(* The DeferredSender thread executes its loop body in three steps:          *)
(*   DefSnap    - under the lock: snapshot the connections that have data    *)
(*   DefSelect  - select(): returns the writable subset W chosen by the env  *)
(*   DefFlush   - under the lock: write slices until short write / EAGAIN /  *)
(*                fatal error, per connection                                *)
(* Close       - the OpenFlow loop closes a connection that has failed.      *)
(* Bytes are small integers, unique per message, so "exactly the             *)
(* concatenation, in order" is a prefix relation on sequences.               *)
EXTENDS Naturals, Sequences, FiniteSets, TLC, Json, SequencesExt

CONSTANTS Conns,      \* connections
          MaxMsgs,    \* total number of send() calls
          MsgLen,     \* bytes per message
          PipeBuf,    \* slice size of the deferred sender
          KeepHist, D

VARIABLES queued,     \* [Conns -> bytes handed to send() while the connection was alive]
          accepted,   \* [Conns -> bytes the socket accepted]
          dq,         \* [Conns -> sequence of slices waiting in the deferred sender]
          sending,    \* DeferredSender.sending
          pinged,     \* the deferred sender's waker is readable
          dead,       \* [Conns -> BOOLEAN] connection.disconnected
          raised,     \* [Conns -> BOOLEAN] ConnectionDown has been raised
          reports,    \* [Conns -> number of ConnectionDown events]
          closed,     \* [Conns -> BOOLEAN]
          sockdead,   \* [Conns -> BOOLEAN] the socket had a fatal error / was shut down
          nsent,
          coop,       \* [st, c, data]
          dthr,       \* [st, cons, wl, rl]
          last, hist
svars == <<queued, accepted, dq, sending, pinged, dead, raised, reports, closed, sockdead, nsent, coop, dthr>>
vars == <<svars, last, hist>>
viewE == svars

Msg(n) == [i \in 1..MsgLen |-> 10 * n + i]
RECURSIVE Slices(_)
Slices(data) == IF Len(data) = 0 THEN <<>>
                ELSE IF Len(data) <= PipeBuf THEN <<data>>
                ELSE <<SubSeq(data, 1, PipeBuf)>> \o Slices(SubSeq(data, PipeBuf + 1, Len(data)))
Flat(ss) == FlattenSeq(ss)
Idle == [st |-> "idle", c |-> "-", data |-> <<>>]
Top == [st |-> "top", cons |-> {}, wl |-> {}, rl |-> FALSE]

Init ==
  /\ queued = [c \in Conns |-> <<>>] /\ accepted = [c \in Conns |-> <<>>]
  /\ dq = [c \in Conns |-> <<>>] /\ sending = FALSE /\ pinged = FALSE
  /\ dead = [c \in Conns |-> FALSE] /\ raised = [c \in Conns |-> FALSE]
  /\ reports = [c \in Conns |-> 0] /\ closed = [c \in Conns |-> FALSE]
  /\ sockdead = [c \in Conns |-> FALSE]
  /\ nsent = 0 /\ coop = Idle /\ dthr = Top
  /\ last = [a |-> "Init", args |-> [x |-> 0], alts |-> {}, exp |-> [x |-> 0]] /\ hist = <<>>

\* what the harness can observe after every step
Obs == [accepted |-> accepted', pending |-> [c \in Conns |-> Flat(dq'[c])], sending |-> sending',
        dead |-> dead', reports |-> reports', coop |-> coop'.st, dthr |-> dthr'.st]
LogA(a, args, alts) ==
  LET e == [a |-> a, args |-> args, alts |-> alts, exp |-> Obs] IN
  /\ last' = e /\ hist' = IF KeepHist THEN Append(hist, e) ELSE hist
Log(a, args) == LogA(a, args, {})

----------------------------------------------------------------------------
CoopCall(c) ==
  /\ coop.st = "idle" /\ nsent < MaxMsgs /\ ~closed[c]
  /\ nsent' = nsent + 1
  /\ IF dead[c]
     THEN /\ UNCHANGED <<queued, coop>>                    \* "if self.disconnected: return"
     ELSE /\ queued' = [queued EXCEPT ![c] = @ \o Msg(nsent + 1)]
          /\ coop' = [st |-> "flag", c |-> c, data |-> Msg(nsent + 1)]
  /\ UNCHANGED <<accepted, dq, sending, pinged, dead, raised, reports, closed, sockdead, dthr>>
  /\ Log("CoopCall", [c |-> c, n |-> nsent + 1])

CoopFlag ==
  /\ coop.st = "flag"
  /\ coop' = [coop EXCEPT !.st = IF sending THEN "defer" ELSE "direct"]
  /\ UNCHANGED <<queued, accepted, dq, sending, pinged, dead, raised, reports, closed, sockdead, nsent, dthr>>
  /\ Log("CoopFlag", [x |-> 0])

\* socket outcomes for a write of n bytes
Outs(n) == {[k |-> "full", n |-> n], [k |-> "eagain", n |-> 0], [k |-> "fatal", n |-> 0]}
           \cup {[k |-> "part", n |-> j] : j \in {1, n - 1} \cap 1..(n - 1)}

CoopDirect(o) ==
  /\ coop.st = "direct"
  /\ LET c == coop.c  data == coop.data IN
     /\ o \in (IF sockdead[c] THEN {[k |-> "fatal", n |-> 0]} ELSE Outs(Len(data)))
     /\ CASE o.k = "full" ->
               /\ accepted' = [accepted EXCEPT ![c] = @ \o data] /\ coop' = Idle
               /\ UNCHANGED <<dead, sockdead>>
          [] o.k = "part" ->
               /\ accepted' = [accepted EXCEPT ![c] = @ \o SubSeq(data, 1, o.n)]
               /\ coop' = [st |-> "defer", c |-> c, data |-> SubSeq(data, o.n + 1, Len(data))]
               /\ UNCHANGED <<dead, sockdead>>
          [] o.k = "eagain" ->
               /\ coop' = [coop EXCEPT !.st = "defer"] /\ UNCHANGED <<accepted, dead, sockdead>>
          [] o.k = "fatal" ->          \* disconnect(defer_event = True): the event waits for close()
               /\ dead' = [dead EXCEPT ![c] = TRUE] /\ sockdead' = [sockdead EXCEPT ![c] = TRUE]
               /\ coop' = Idle /\ UNCHANGED accepted
  /\ UNCHANGED <<queued, dq, sending, pinged, raised, reports, closed, nsent, dthr>>
  /\ Log("CoopDirect", [o |-> o])

CoopDefer ==          \* DeferredSender.send(con, data), whole locked block
  /\ coop.st = "defer"
  /\ dq' = [dq EXCEPT ![coop.c] = @ \o Slices(coop.data)]
  /\ sending' = TRUE /\ pinged' = TRUE /\ coop' = Idle
  /\ UNCHANGED <<queued, accepted, dead, raised, reports, closed, sockdead, nsent, dthr>>
  /\ Log("CoopDefer", [x |-> 0])

----------------------------------------------------------------------------
DefSnap ==
  /\ dthr.st = "top"
  /\ dthr' = [st |-> "select", cons |-> {c \in Conns : dq[c] # <<>>}, wl |-> {}, rl |-> FALSE]
  /\ UNCHANGED <<queued, accepted, dq, sending, pinged, dead, raised, reports, closed, sockdead, nsent, coop>>
  /\ Log("DefSnap", [x |-> 0])

DefSelect(W) ==       \* select([waker], cons, cons): blocks until the waker or a socket is ready
  /\ dthr.st = "select" /\ W \subseteq dthr.cons /\ (pinged \/ W # {})
  /\ dthr' = [dthr EXCEPT !.st = "flush", !.wl = W, !.rl = pinged]
  /\ UNCHANGED <<queued, accepted, dq, sending, pinged, dead, raised, reports, closed, sockdead, nsent, coop>>
  /\ Log("DefSelect", [w |-> W])

\* outcome of flushing one connection: slices 1..j-1 go out whole, slice j meets outcome k
FlushOuts(c) ==
  LET S == dq[c] IN
  IF S = <<>> THEN {[j |-> 0, k |-> "none", n |-> 0]}                   \* no entry any more
  ELSE IF sockdead[c] THEN {[j |-> 1, k |-> "fatal", n |-> 0]}
  ELSE {[j |-> Len(S) + 1, k |-> "all", n |-> 0]}
       \cup {[j |-> j, k |-> "eagain", n |-> 0] : j \in 1..Len(S)}
       \cup {[j |-> 1, k |-> "fatal", n |-> 0]}      \* (a fatal error after some bytes of the same flush would
                                                     \*  depend on how the sender slices its data into writes)
       \cup {[j |-> j, k |-> "part", n |-> 1] : j \in {i \in 1..Len(S) : Len(S[i]) > 1}}

DefFlush(outs) ==
  /\ dthr.st = "flush"
  /\ DOMAIN outs = dthr.wl
  /\ \A c \in dthr.wl : outs[c] \in FlushOuts(c)
  /\ LET Pre(c) == Flat(SubSeq(dq[c], 1, outs[c].j - 1))
         acc(c) == IF c \notin dthr.wl \/ outs[c].k = "none" THEN accepted[c]
                   ELSE IF outs[c].k = "part"
                        THEN accepted[c] \o Pre(c) \o SubSeq(dq[c][outs[c].j], 1, outs[c].n)
                        ELSE accepted[c] \o Pre(c)
         rest(c) == IF c \notin dthr.wl \/ outs[c].k = "none" THEN dq[c]
                    ELSE CASE outs[c].k = "all" -> <<>>
                           [] outs[c].k = "fatal" -> <<>>
                           [] outs[c].k = "eagain" -> SubSeq(dq[c], outs[c].j, Len(dq[c]))
                           [] outs[c].k = "part" ->
                                <<SubSeq(dq[c][outs[c].j], outs[c].n + 1, Len(dq[c][outs[c].j]))>>
                                \o SubSeq(dq[c], outs[c].j + 1, Len(dq[c]))
         fatal(c) == c \in dthr.wl /\ outs[c].k = "fatal"
         dq2 == [c \in Conns |-> rest(c)]
         drainedSome == \E c \in dthr.wl : outs[c].k = "all"
     IN
     /\ accepted' = [c \in Conns |-> acc(c)]
     /\ dq' = dq2
     /\ dead' = [c \in Conns |-> dead[c] \/ fatal(c)]
     /\ sockdead' = [c \in Conns |-> sockdead[c] \/ fatal(c)]
     \* con.disconnect() from the deferred thread raises ConnectionDown unless already raised
     /\ raised' = [c \in Conns |-> raised[c] \/ fatal(c)]
     /\ reports' = [c \in Conns |-> IF fatal(c) /\ ~raised[c] THEN reports[c] + 1 ELSE reports[c]]
     \* "sending" is reset when the last queue drains; whether it is also reset when the last
     \* entry disappears through an error is left open (either is safe)
     /\ sending' \in (IF \A c \in Conns : dq2[c] = <<>>
                      THEN (IF drainedSome /\ ~(\E c \in dthr.wl : fatal(c)) THEN {FALSE} ELSE {sending, FALSE})
                      ELSE {sending})
     /\ pinged' = (pinged /\ ~dthr.rl)
  /\ dthr' = Top
  /\ UNCHANGED <<queued, closed, nsent, coop>>
  /\ LogA("DefFlush", [outs |-> outs,      \* q: bytes each socket accepts in this flush (drives the scripted sockets)
                       q |-> [c \in dthr.wl |-> Len(accepted'[c]) - Len(accepted[c])]],
          IF (\A c \in Conns : dq'[c] = <<>>) /\ sending
             /\ (~(\E c \in dthr.wl : outs[c].k = "all") \/ (\E c \in dthr.wl : outs[c].k = "fatal"))
          THEN {"sending"} ELSE {})

Close(c) ==          \* the OpenFlow loop closes a failed connection (nothing pending for it)
  /\ dead[c] /\ ~closed[c] /\ dq[c] = <<>> /\ coop.st = "idle"     \* (runs on the cooperative thread)
  /\ closed' = [closed EXCEPT ![c] = TRUE]
  /\ raised' = [raised EXCEPT ![c] = TRUE]
  /\ reports' = [reports EXCEPT ![c] = IF raised[c] THEN @ ELSE @ + 1]
  /\ UNCHANGED <<queued, accepted, dq, sending, pinged, dead, sockdead, nsent, coop, dthr>>
  /\ Log("Close", [c |-> c])

DefFlushW(W) == \E outs \in [W -> UNION {FlushOuts(c) : c \in Conns}] : DefFlush(outs)
Next == \/ \E c \in Conns : CoopCall(c) \/ Close(c)
        \/ CoopFlag \/ CoopDefer \/ DefSnap
        \/ \E o \in Outs(MsgLen) \cup Outs(MsgLen - 1) \cup Outs(1) : CoopDirect(o)
        \/ \E W \in SUBSET Conns : DefSelect(W)
        \/ \E W \in SUBSET Conns : DefFlushW(W)
\* sequential export: the deferred thread moves only while the cooperative thread is between sends
NextSeq == \/ \E c \in Conns : CoopCall(c) \/ Close(c)
           \/ CoopFlag \/ CoopDefer
           \/ \E o \in Outs(MsgLen) \cup Outs(MsgLen - 1) \cup Outs(1) : CoopDirect(o)
           \/ (coop.st = "idle" /\ (DefSnap \/ (\E W \in SUBSET Conns : DefSelect(W))
                 \/ \E W \in SUBSET Conns : DefFlushW(W)))
Spec == Init /\ [][Next]_vars

----------------------------------------------------------------------------
(* The property *)
Inflight(c) == IF coop.c = c /\ coop.st \in {"flag", "direct", "defer"} THEN coop.data ELSE <<>>
\* the socket has accepted a prefix of what was queued: nothing duplicated or reordered
PrefixOK == \A c \in Conns : IsPrefix(accepted[c], queued[c])
\* nothing lost: on a live connection, accepted + waiting + in flight is exactly what was queued
Conserved == \A c \in Conns : ~dead[c] => queued[c] = (accepted[c] \o Flat(dq[c])) \o Inflight(c)
\* after a fatal error nothing further is accepted
DeadSilent == [][\A c \in Conns : sockdead[c] => accepted'[c] = accepted[c]]_vars
\* a failed connection is reported closed exactly once
ReportedOnce == \A c \in Conns : reports[c] <= 1 /\ (closed[c] => reports[c] = 1)
\* waiting data exists only while the sender knows it is sending
SendingCovers == (\E c \in Conns : dq[c] # <<>>) => sending
Quiescent == coop.st = "idle" /\ \A c \in Conns : dq[c] = <<>>
QuiescentComplete == Quiescent => \A c \in Conns : ~dead[c] => accepted[c] = queued[c]

Export == (Len(hist) = D) => PrintT(<<"H", ToJson(hist)>>)
ExportT == PrintT(<<"T", ToJson(hist')>>)
=============================================================================
