CONSTANTS Conns <- ConnsAB
  MaxMsgs = 2
  MsgLen = 3
  PipeBuf = 2
  KeepHist = TRUE
  D = 0
INIT Init
NEXT Next
VIEW viewE
ACTION_CONSTRAINT ExportT
CHECK_DEADLOCK FALSE
