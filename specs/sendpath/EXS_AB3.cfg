CONSTANTS Conns <- ConnsAB
  MaxMsgs = 3
  MsgLen = 3
  PipeBuf = 2
  KeepHist = TRUE
  D = 0
INIT Init
NEXT NextSeq
VIEW viewE
ACTION_CONSTRAINT ExportT
CHECK_DEADLOCK FALSE
