CONSTANTS Conns <- ConnsA
  MaxMsgs = 3
  MsgLen = 3
  PipeBuf = 2
  KeepHist = TRUE
  D = 0
INIT Init
NEXT Next
VIEW viewE
INVARIANT PrefixOK
INVARIANT Conserved
INVARIANT ReportedOnce
INVARIANT SendingCovers
INVARIANT QuiescentComplete
PROPERTY DeadSilent
CHECK_DEADLOCK FALSE
