CONSTANTS MaxMsgs = 3
  MsgLen = 3
  KeepHist = TRUE
  D = 0
  StartConnecting <- Yes
INIT Init
NEXT Next
VIEW viewE
INVARIANT PrefixOK
INVARIANT Conserved
INVARIANT ClosedOnce
PROPERTY DeadSilent
PROPERTY ShutCleanP
INVARIANT ShutCleanI
CHECK_DEADLOCK FALSE
