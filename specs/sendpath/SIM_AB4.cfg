CONSTANTS Conns <- ConnsAB
  MaxMsgs = 4
  MsgLen = 3
  PipeBuf = 2
  KeepHist = TRUE
  D = 30
INIT Init
NEXT Next
INVARIANT Export
CHECK_DEADLOCK FALSE
