CONSTANTS MaxMsgs = 6
  MsgLen = 3
  KeepHist = TRUE
  D = 12
INIT Init
NEXT Next
INVARIANT Export
CHECK_DEADLOCK FALSE
