------------------------------- MODULE Worker -------------------------------
(* C20, switch side: pox.lib.ioworker IOWorker.send / _do_send and           *)
(* RecocoIOWorker.send_fast / close.  Single cooperative thread.             *)
EXTENDS Naturals, Sequences, FiniteSets, TLC, Json, SequencesExt
CONSTANTS MaxMsgs, MsgLen, KeepHist, D
VARIABLES queued,     \* bytes handed to send()/send_fast() while the worker was open
          accepted,   \* bytes the socket accepted
          buf,        \* IOWorker.send_buf
          closed,     \* worker.closed
          closes,     \* number of close notifications
          shutp,      \* shutdown(send) was requested: flush, then shut the sending direction down
          shutwr,     \* number of SHUT_WR calls made on the socket (0 or 1 = done; after it the socket refuses data)
          connecting, \* worker._connecting: the connection is still being set up; the first time the loop finds the
                      \* socket writable the connect handler runs (and may queue data) before anything is written
          nsent, last, hist
svars == <<queued, accepted, buf, closed, closes, shutp, shutwr, connecting, nsent>>
vars == <<svars, last, hist>>
viewE == svars
Msg(n) == [i \in 1..MsgLen |-> 10 * n + i]
\* the harness's close handler tries to send one more byte (send_fast) when it is told about the
\* close: on a closed worker that byte is only buffered, never written, and nothing is notified again
Late == <<90>>
\* ... and its connect handler greets the peer with one byte (send) when the connection is established
Greet == <<80>>
Yes == TRUE
StartConnecting == FALSE      \* (the *_WC configs override this definition)
Init == /\ queued = <<>> /\ accepted = <<>> /\ buf = <<>> /\ closed = FALSE /\ closes = 0 /\ nsent = 0
        /\ shutp = FALSE /\ shutwr = 0 /\ connecting = StartConnecting
        /\ last = [a |-> "Init", args |-> [x |-> 0], exp |-> [x |-> 0]] /\ hist = <<>>
Log(a, args) ==
  LET e == [a |-> a, args |-> args,
            exp |-> [accepted |-> accepted', buf |-> buf', closed |-> closed', closes |-> closes',
                     shutwr |-> shutwr', connecting |-> connecting']] IN
  /\ last' = e /\ hist' = IF KeepHist THEN Append(hist, e) ELSE hist
OutsOpen(n) == {[k |-> "full", n |-> n], [k |-> "eagain", n |-> 0], [k |-> "fatal", n |-> 0]}
               \cup {[k |-> "part", n |-> j] : j \in {1, n - 1} \cap 1..(n - 1)}
\* a socket whose sending direction has been shut down accepts nothing more (EPIPE)
Outs(n) == IF shutwr > 0 THEN {[k |-> "fatal", n |-> 0]} ELSE OutsOpen(n)

\* send(): fire and forget, data is appended to the send buffer
Send ==
  /\ nsent < MaxMsgs /\ nsent' = nsent + 1
  /\ buf' = buf \o Msg(nsent + 1)
  /\ queued' = IF closed THEN queued ELSE queued \o Msg(nsent + 1)
  /\ UNCHANGED <<accepted, closed, closes, shutp, shutwr, connecting>>
  /\ Log("Send", [n |-> nsent + 1])

\* send_fast(): try the socket at once when nothing is buffered
SendFast(o) ==
  /\ nsent < MaxMsgs /\ nsent' = nsent + 1
  /\ LET data == Msg(nsent + 1) IN
     IF buf = <<>> /\ ~closed /\ ~connecting THEN
       /\ o \in Outs(MsgLen)
       /\ queued' = queued \o data
       /\ CASE o.k = "full" -> accepted' = accepted \o data /\ UNCHANGED <<buf, closed, closes>>
            [] o.k = "part" -> /\ accepted' = accepted \o SubSeq(data, 1, o.n)
                               /\ buf' = SubSeq(data, o.n + 1, Len(data)) /\ UNCHANGED <<closed, closes>>
            [] o.k = "eagain" -> buf' = data /\ UNCHANGED <<accepted, closed, closes>>
            [] o.k = "fatal" -> closed' = TRUE /\ closes' = closes + 1 /\ buf' = Late /\ UNCHANGED accepted
     ELSE
       /\ o = [k |-> "full", n |-> MsgLen]          \* (socket not touched)
       /\ buf' = buf \o data
       /\ queued' = IF closed THEN queued ELSE queued \o data
       /\ UNCHANGED <<accepted, closed, closes>>
  /\ UNCHANGED <<shutp, shutwr, connecting>>
  /\ Log("SendFast", [n |-> nsent + 1, o |-> o])

\* the I/O loop found the socket writable: _do_send
DoSend(o) ==
  /\ ~closed /\ (buf # <<>> \/ connecting)
  \* a worker that was still connecting is connected now: its connect handler runs first, and what it sends is
  \* queued behind what was queued before - all of it is then written in order
  /\ LET b == IF connecting THEN buf \o Greet ELSE buf IN
     /\ o \in Outs(Len(b))
     /\ connecting' = FALSE
     /\ queued' = IF connecting THEN queued \o Greet ELSE queued
     /\ CASE o.k = "full" -> /\ accepted' = accepted \o b /\ buf' = <<>> /\ UNCHANGED <<closed, closes>>
                             \* flush-then-shutdown: only once EVERYTHING queued has been accepted
                             /\ shutwr' = IF shutp THEN shutwr + 1 ELSE shutwr
          [] o.k = "part" -> /\ accepted' = accepted \o SubSeq(b, 1, o.n)
                             /\ buf' = SubSeq(b, o.n + 1, Len(b)) /\ UNCHANGED <<closed, closes, shutwr>>
          [] o.k = "eagain" -> buf' = b /\ UNCHANGED <<accepted, closed, closes, shutwr>>
          [] o.k = "fatal" -> closed' = TRUE /\ closes' = closes + 1 /\ buf' = b \o Late /\ UNCHANGED <<accepted, shutwr>>
  /\ UNCHANGED <<nsent, shutp>>
  /\ Log("DoSend", [o |-> o])

\* shutdown(): "flush what is queued, then shut the sending direction down" (the switch-side connection's close())
Shutdown ==
  /\ ~shutp /\ ~closed /\ shutp' = TRUE
  /\ UNCHANGED <<queued, accepted, buf, closed, closes, shutwr, connecting, nsent>>
  /\ Log("Shutdown", [x |-> 0])

CloseAgain ==     \* close() on a closed worker is a no-op
  /\ closed /\ UNCHANGED svars /\ Log("CloseAgain", [x |-> 0])

AllOuts == UNION {OutsOpen(n) : n \in 1..(MaxMsgs * MsgLen)}
Next == Send \/ (\E o \in AllOuts : SendFast(o)) \/ (\E o \in AllOuts : DoSend(o)) \/ CloseAgain \/ Shutdown
Spec == Init /\ [][Next]_vars

PrefixOK == IsPrefix(accepted, queued)
Conserved == ~closed => queued = accepted \o buf
DeadSilent == [][closed => accepted' = accepted]_vars
ClosedOnce == closes <= 1 /\ (closed <=> closes = 1)
\* the sending direction is shut down at most once, only on request, and never while queued bytes are still unwritten
ShutCleanI == shutwr <= 1 /\ (shutwr > 0 => shutp)
ShutCleanP == [][shutwr' # shutwr => (buf' = <<>> /\ accepted' = queued')]_vars
Export == (Len(hist) = D) => PrintT(<<"H", ToJson(hist)>>)
ExportT == PrintT(<<"T", ToJson(hist')>>)
=============================================================================
