CONSTANTS NK = 3
  KType <- T3o_queue
  KXid <- X3o_112
  KMax <- M3o
  KGen <- G3o
  MaxN = 1
  OtherKinds <- OthersA
  RawModes <- RawNone
  D = 0
INIT Init
NEXT Next
VIEW viewE
ACTION_CONSTRAINT ExportG
INVARIANT TypeOK
INVARIANT PendingPure
INVARIANT NeverMerged
PROPERTY NeverMergedA
PROPERTY ExactlyOnceAfterFinal
PROPERTY AllPartsInOrder
PROPERTY Isolation
PROPERTY FreeIsOwnOnly
CHECK_DEADLOCK FALSE
