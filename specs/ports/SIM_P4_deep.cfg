CONSTANTS NP = 4
  Names <- Names3
  Hws <- Hws3
  Sts <- St2
  ProbeNames <- PNames
  ProbeHws <- PHws
  InitSets <- Init4w
  MaxEarly = 3
  LisModes <- LisAll
  D = 34
INIT Init
NEXT Next
INVARIANT Export
CHECK_DEADLOCK FALSE
