CONSTANTS NP = 2
  Names <- Names2
  Hws <- Hws1
  Sts <- St1
  ProbeNames <- PNames
  ProbeHws <- PHws
  InitSets <- Init2h
  MaxEarly = 1
  LisModes <- LisNone
  D = 0
INIT Init
NEXT Next
CONSTRAINT NotesBound3
INVARIANT TypeOK
INVARIANT CurIsOrigPlusNotes
INVARIANT UntouchedAsReported
INVARIANT ObservedTruth
PROPERTY ObservedTruthA
PROPERTY OnlyNamedPort
PROPERTY FeaturesStartOver
PROPERTY OthersLeaveAlone
CHECK_DEADLOCK FALSE
