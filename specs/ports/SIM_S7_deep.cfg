CONSTANTS NK = 7
  KType <- T6
  KXid <- X6
  KMax <- M6
  KGen <- G6
  MaxN = 3
  OtherKinds <- OthersAll
  RawModes <- RawAll
  D = 80
INIT Init
NEXT Next
INVARIANT Export
CHECK_DEADLOCK FALSE
