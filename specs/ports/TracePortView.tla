---- MODULE TracePortView ----
(* Code -> spec: histories recorded from a real of_01.Connection (random     *)
(* driver props.C17:drive_ports) must be behaviours of PortView.tla: the     *)
(* logged answers of connection.ports / original_ports after every step have *)
(* to be what View(cur) / View(orig) allow; all invariants are evaluated at   *)
(* every matched step.                                                        *)
EXTENDS MCPortView, IOUtils, TLCExt, SequencesExt

Traces == JsonDeserialize(IOEnv.TRACE_FILE)
NT == Len(Traces)
VARIABLES tid, l
tvars == <<vars, tid, l>>

TrInit == Init /\ tid \in 1..NT /\ l = 1 /\ TLCSet(tid, 0)
Ev == Traces[tid][l]
IsEvent(e) == l <= Len(Traces[tid]) /\ Ev.a = e /\ l' = l + 1 /\ UNCHANGED tid

Rec(j) == [name |-> j.name, hw |-> j.hw, st |-> j.st]
PortMap(js) == [p \in Ports |-> Rec(js[p])]

\* a logged lookup result: p = 0 means "raised IndexError"
Found(f, S) == IF f.p = 0 THEN S = {} ELSE <<f.p, f.name, f.hw, f.st>> \in S
ViewIs(o, c) ==
  LET v == View(c) IN
  /\ Len(o.ports) = NP /\ \A p \in Ports : Rec(o.ports[p]) = c[p]
  /\ Len(o.nos) = v.n /\ ToSet(o.nos) = v.nos
  /\ o.n = v.n
  /\ Len(o.has) = Cardinality(v.has) /\ ToSet(o.has) = v.has
  /\ \A nm \in ProbeNames : Found(o.byname[nm], v.byname[nm])
  /\ \A hw \in ProbeHws : Found(o.byhw[hw], v.byhw[hw])
  /\ o.same        \* iteration / items / get / has_key / `in` told the same story as [] and keys()
ObsIs(o) == ViewIs(o.cur, cur') /\ ViewIs(o.orig, orig')

TrFeaturesHS == IsEvent("FeaturesHS") /\ FeaturesHS(PortMap(Ev.args.ports)) /\ Ev.wf
TrEarly == IsEvent("EarlyStatus") /\ EarlyStatus(Ev.args.r, Ev.args.p, Rec(Ev.args.rec)) /\ Ev.wf
TrBarrier == IsEvent("Barrier") /\ Barrier(Ev.args.lis) /\ Ev.wf /\ ObsIs(Ev.obs)
TrStatus == IsEvent("Status") /\ Status(Ev.args.r, Ev.args.p, Rec(Ev.args.rec), Ev.args.lis) /\ Ev.wf /\ ObsIs(Ev.obs)
TrFeatures == IsEvent("Features") /\ Features(PortMap(Ev.args.ports), Ev.args.lis) /\ Ev.wf /\ ObsIs(Ev.obs)

TrNext == TrFeaturesHS \/ TrEarly \/ TrBarrier \/ TrStatus \/ TrFeatures
TrSpec == TrInit /\ [][TrNext]_tvars

Progress == TLCSet(tid, IF TLCGet(tid) < l - 1 THEN l - 1 ELSE TLCGet(tid))
Ok(t) == TLCGet(t) = Len(Traces[t]) \/ (PrintT(<<"REJECT", t, TLCGet(t)>>) /\ FALSE)
Accepted == /\ PrintT(<<"TRACES-CHECKED", NT>>)
            /\ Cardinality({t \in 1..NT : ~Ok(t)}) = 0
====
