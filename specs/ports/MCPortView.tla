---- MODULE MCPortView ----
EXTENDS PortView
\* descriptions: R(name, hw, st)
R(n, h, s) == [name |-> n, hw |-> h, st |-> s]
LisNone == {"none"}
LisAll == {"none", "listen", "halt_nexus", "halt_con", "raise_nexus", "raise_con", "remove_nexus", "remove_con"}
Names1 == {"a"}
Names2 == {"a", "b"}
Names3 == {"a", "b", "c"}
Hws1 == {"A"}
Hws2 == {"A", "B"}
Hws3 == {"A", "B", "C"}
St1 == {0}
St2 == {0, 1}
PNames == {"a", "b", "c", "zz"}       \* "zz": a name no port ever has
PHws == {"A", "B", "C", "ZZ"}

\* features replies over 2 port numbers
Init2l == { <<None, None>>, <<R("a", "A", 0), R("a", "A", 1)>> }
Init2h == { <<None, None>>, <<R("a", "A", 0), R("b", "A", 0)>> }
\* over 3 port numbers: empty, plain, duplicates of name and of address, a gap
Init3 == { <<None, None, None>>,
           <<R("a", "A", 0), R("b", "B", 0), None>>,
           <<R("a", "A", 0), R("a", "B", 0), R("b", "A", 0)>>,
           <<None, R("b", "B", 0), R("b", "B", 0)>> }
Init3q == { <<None, None, None>>,
            <<R("a", "A", 0), R("b", "B", 0), None>>,
            <<R("a", "A", 0), R("a", "B", 0), R("b", "A", 0)>> }
Init3h == { <<R("a", "A", 0), R("b", "A", 1), None>>,
            <<R("a", "A", 1), R("a", "A", 0), R("b", "A", 0)>> }
Init2w == { <<None, None>>,
            <<R("a", "A", 0), R("c", "C", 1)>>,
            <<R("b", "B", 1), R("b", "B", 1)>> }
Init2s == { <<None, None>>,
            <<R("a", "A", 0), R("b", "B", 1)>>,
            <<R("a", "A", 1), R("a", "A", 0)>> }
\* over 4 port numbers
Init4h == { <<None, None, None, None>>,
            <<R("a", "A", 0), R("b", "A", 0), None, R("b", "A", 0)>>,
            <<R("a", "A", 0), R("a", "A", 0), R("b", "A", 0), R("a", "A", 0)>> }
Init4w == { <<None, None, None, None>>,
            <<R("a", "A", 0), R("b", "B", 0), R("c", "C", 0), None>>,
            <<R("a", "A", 0), R("a", "B", 1), R("b", "A", 0), R("c", "A", 1)>>,
            <<R("c", "C", 1), None, R("c", "C", 1), R("b", "B", 0)>> }
\* any features reply at all (simulation / trace validation)
InitAny == [Ports -> Slot]
NotesBound3 == Len(notes) <= 3
NotesBound4 == Len(notes) <= 4
====
