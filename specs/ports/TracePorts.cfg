CONSTANTS NP = 4
  Names <- Names3
  Hws <- Hws3
  Sts <- St2
  ProbeNames <- PNames
  ProbeHws <- PHws
  InitSets <- Init4w
  MaxEarly = 99
  LisModes <- LisAll
  D = 0
INIT TrInit
NEXT TrNext
CONSTRAINT Progress
POSTCONDITION Accepted
INVARIANT TypeOK
INVARIANT CurIsOrigPlusNotes
INVARIANT UntouchedAsReported
INVARIANT ObservedTruth
CHECK_DEADLOCK FALSE
