CONSTANTS NP = 2
  Names <- Names2
  Hws <- Hws2
  Sts <- St2
  ProbeNames <- PNames
  ProbeHws <- PHws
  InitSets <- Init2s
  MaxEarly = 2
  D = 0
INIT Init
NEXT Next
VIEW viewE
ACTION_CONSTRAINT ExportG
CHECK_DEADLOCK FALSE
