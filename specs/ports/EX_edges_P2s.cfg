CONSTANTS NP = 2
  Names <- Names2
  Hws <- Hws2
  Sts <- St2
  ProbeNames <- PNames
  ProbeHws <- PHws
  InitSets <- Init2s
  MaxEarly = 1
  LisModes <- LisNone
  D = 0
INIT Init
NEXT Next
VIEW viewE
ACTION_CONSTRAINT ExportG
INVARIANT TypeOK
INVARIANT CurIsOrigPlusNotes
INVARIANT UntouchedAsReported
INVARIANT ObservedTruth
PROPERTY ObservedTruthA
PROPERTY OnlyNamedPort
PROPERTY FeaturesStartOver
PROPERTY OthersLeaveAlone
CHECK_DEADLOCK FALSE
