---- MODULE MCStatsAgg ----
EXTENDS StatsAgg
RawNone == {"none"}
RawAll == {"none", "listen", "halt_nexus", "halt_con", "raise_nexus", "raise_con", "remove_nexus", "remove_con"}
M2_41 == <<4, 1>>
OthersOne == {"echo"}
OthersFew == {"echo", "pktin", "portstatus"}
OthersAll == {"echo", "pktin", "portstatus", "barrier", "flowrem", "error", "config"}
\* one request, reply in up to 6 parts
T1_flow == <<"flow">>
T1_table == <<"table">>
T1_port == <<"port">>
T1_queue == <<"queue">>
X1 == <<1>>
M1_6 == <<6>>
G1_1 == <<1>>
\* a splittable reply (up to 6 parts) and a single-part reply of another request
T2_flow_desc == <<"flow", "desc">>
T2_table_aggr == <<"table", "aggr">>
T2_port_desc == <<"port", "desc">>
T2_queue_aggr == <<"queue", "aggr">>
X2 == <<1, 2>>
X2same == <<1, 1>>
M2_61 == <<6, 1>>
G2_22 == <<2, 2>>
\* two requests of the same type (different xid) and one of another type with the first one's xid
T3_flow == <<"flow", "flow", "port">>
T3_table == <<"table", "table", "queue">>
T3_port == <<"port", "port", "flow">>
T3_queue == <<"queue", "queue", "table">>
X3 == <<1, 2, 1>>
M3_222 == <<2, 2, 2>>
M3_322 == <<3, 2, 2>>
M3_433 == <<4, 3, 3>>
G3_211 == <<2, 1, 1>>
G3_222 == <<2, 2, 2>>
\* everything at once (simulation / trace validation)
T6 == <<"flow", "flow", "table", "port", "queue", "desc", "aggr">>
X6 == <<1, 2, 1, 2, 1, 2, 1>>
M6 == <<8, 8, 8, 8, 8, 1, 1>>
G6 == <<99, 99, 99, 99, 99, 99, 99>>
====
