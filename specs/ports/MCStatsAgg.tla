---- MODULE MCStatsAgg ----
EXTENDS StatsAgg
RawNone == {"none"}
RawAll == {"none", "listen", "halt_nexus", "halt_con", "raise_nexus", "raise_con", "remove_nexus", "remove_con"}
M2_41 == <<4, 1>>
OthersOne == {"echo"}
OthersFew == {"echo", "pktin", "portstatus"}
OthersAll == {"echo", "pktin", "portstatus", "barrier", "flowrem", "error", "config"}
\* one request, reply in up to 6 parts
T1_flow == <<"flow">>
T1_table == <<"table">>
T1_port == <<"port">>
T1_queue == <<"queue">>
X1 == <<1>>
M1_6 == <<6>>
G1_1 == <<1>>
\* a splittable reply (up to 6 parts) and a single-part reply of another request
T2_flow_desc == <<"flow", "desc">>
T2_table_aggr == <<"table", "aggr">>
T2_port_desc == <<"port", "desc">>
T2_queue_aggr == <<"queue", "aggr">>
X2 == <<1, 2>>
X2same == <<1, 1>>
M2_61 == <<6, 1>>
G2_22 == <<2, 2>>
\* two requests of the same type (different xid) and one of another type with the first one's xid
T3_flow == <<"flow", "flow", "port">>
T3_table == <<"table", "table", "queue">>
T3_port == <<"port", "port", "flow">>
T3_queue == <<"queue", "queue", "table">>
X3 == <<1, 2, 1>>
M3_222 == <<2, 2, 2>>
M3_322 == <<3, 2, 2>>
M3_433 == <<4, 3, 3>>
G3_211 == <<2, 1, 1>>
G3_222 == <<2, 2, 2>>
\* a splittable reply and two replies of NOT multipart-capable types that are split all the same (MORE flag):
\* vendor / unknown-type statistics, desc / aggregate; one shares the splittable reply's xid, one does not
T3o_flow == <<"flow", "vendor", "desc">>
T3o_port == <<"port", "unk", "aggr">>
T3o_table == <<"table", "vendor", "aggr">>
T3o_queue == <<"queue", "unk", "desc">>
X3o_112 == <<1, 1, 2>>
X3o_121 == <<1, 2, 1>>
M3o == <<3, 3, 2>>
G3o == <<2, 1, 1>>
M3ow == <<4, 3, 2>>
G3ow == <<2, 2, 1>>
\* the same under every listener mode of the raw per-part event
T2o_flow == <<"flow", "vendor">>
T2o_port == <<"port", "aggr">>
T2o_table == <<"table", "unk">>
T2o_queue == <<"queue", "desc">>
M2o == <<3, 2>>
G2o == <<1, 1>>
\* the unrelated message kinds not already in OthersFew, in two halves (one per exhaustive S3o model)
OthersA == {"features", "vendormsg", "hello", "barrier"}
OthersB == {"echoreply", "flowrem", "error", "config"}
OthersMore == {"echo", "pktin", "portstatus", "barrier", "flowrem", "error", "config",
               "vendormsg", "echoreply", "hello", "features"}
\* everything at once (simulation / trace validation)
T9 == <<"flow", "flow", "table", "port", "queue", "desc", "aggr", "vendor", "unk">>
X9 == <<1, 2, 1, 2, 1, 2, 1, 1, 2>>
M9 == <<8, 8, 8, 8, 8, 2, 2, 3, 3>>
G9 == <<99, 99, 99, 99, 99, 99, 99, 99, 99>>
====
