---------------------------- MODULE PortView ----------------------------
(* C17 (first half): the controller's picture of a switch's ports.          *)
(*                                                                          *)
(* One OpenFlow connection.  The switch reports its ports in a features     *)
(* reply and afterwards sends port-status notifications (reason add /       *)
(* modify / delete, each carrying the number and the complete description   *)
(* of one port).  The controller offers two mappings:                       *)
(*   orig - the ports exactly as the last features reply listed them        *)
(*   cur  - orig with every later notification applied, in order            *)
(* Both are queried by port number, by name and by hardware address, and    *)
(* support length, iteration and membership.                                *)
(*                                                                          *)
(* Abstract state: orig and cur are functions  port number -> description   *)
(* or None.  A description is [name, hw, st] (st = link state flag, the     *)
(* field real notifications change most often).  Several ports may share a  *)
(* name or an address (bridges' local ports share a MAC with a physical     *)
(* port): a lookup by name/address may then answer with ANY port of the     *)
(* current view that has it - the expectation is the SET of right answers.  *)
(*                                                                          *)
(* Applying a notification is replacement of the entry with that number:    *)
(* add / modify install the carried description (whether or not the number  *)
(* was known), delete removes the number (no-op when unknown).              *)
(*                                                                          *)
(* Handshake: notifications that arrive between the features reply and the  *)
(* end of the handshake (barrier reply) count - the view that becomes       *)
(* visible with ConnectionUp has them applied.  While the handshake is      *)
(* still running nobody can see the connection, so the view is not observed *)
(* then (an implementation may apply early notifications at once or queue   *)
(* them).                                                                   *)
(*                                                                          *)
(* Environment.  Applications listen to PortStatus (and FeaturesReceived)   *)
(* on the nexus and/or on the connection and may halt the event, raise in   *)
(* their handler or unsubscribe.  The views do not depend on that: the      *)
(* `lis` argument of Status / Barrier / Features (none / listen /           *)
(* halt_nexus / halt_con / raise_nexus / raise_con / remove_nexus /         *)
(* remove_con = the listeners present during this one step) never appears   *)
(* in an expectation.                                                       *)
(*                                                                          *)
(* tch is a ghost: per port number, whether the last notification since the *)
(* features reply was none / an update / a delete.  No property depends on  *)
(* it; it is part of the VIEW of the export so that the transition cover    *)
(* distinguishes histories an implementation built from "original set +     *)
(* delta + masks" distinguishes (re-adding a deleted port, deleting a port  *)
(* that was never reported, overriding with an identical description).      *)
EXTENDS Naturals, Sequences, FiniteSets, TLC, Json

CONSTANTS NP,          \* port numbers are 1..NP (symbols; concretised by the adapter)
          Names,       \* names descriptions are built from
          Hws,         \* hardware addresses descriptions are built from
          Sts,         \* link-state flags descriptions are built from
          ProbeNames,  \* names looked up after every step (superset of Names)
          ProbeHws,    \* addresses looked up after every step (superset of Hws)
          InitSets,    \* port sets a features reply may report: SUBSET [Ports -> Slot]
          MaxEarly,    \* notifications modelled inside one handshake
          LisModes,    \* what other listeners of PortStatus / FeaturesReceived do, see below
          D            \* export depth

Ports == 1..NP
ProbeNos == 1..(NP + 1)           \* NP+1: a number no switch in the model ever reports
None == [name |-> "-", hw |-> "-", st |-> 0]
Recs == [name : Names, hw : Hws, st : Sts]
Slot == Recs \cup {None}

VARIABLES phase,    \* "pre" (no features reply yet) / "hs" (handshake running) / "up"
          orig,     \* [Ports -> Slot]  ports of the last features reply
          cur,      \* [Ports -> Slot]  orig + notifications
          tch,      \* ghost, see above
          early,    \* notifications received in this handshake
          notes,    \* ghost: the notifications since the last features reply
          last,     \* observation of the last action
          hist      \* all observations (export only; hidden by VIEW)
vars == <<phase, orig, cur, tch, early, notes, last, hist>>
view == <<phase, orig, cur, tch, early, last>>
viewE == <<phase, orig, cur, tch, early>>

Dom(c) == {p \in Ports : c[p] # None}
Tup(c, p) == <<p, c[p].name, c[p].hw, c[p].st>>

\* Everything the mapping API of one collection answers.
View(c) ==
  [ports  |-> c,                                  \* c[no] for every model number (None = IndexError)
   nos    |-> Dom(c),                             \* keys(): each present number once
   n      |-> Cardinality(Dom(c)),                \* len()
   has    |-> {p \in ProbeNos : p \in Dom(c)},    \* membership by number, incl. a foreign number
   byname |-> [nm \in ProbeNames |-> {Tup(c, p) : p \in {q \in Dom(c) : c[q].name = nm}}],
   byhw   |-> [hw \in ProbeHws   |-> {Tup(c, p) : p \in {q \in Dom(c) : c[q].hw = hw}}]]

Obs(c, o) == [cur |-> View(c), orig |-> View(o)]
NoView == [x |-> 0]

Apply(c, r, p, rec) ==
  IF r = "del" THEN [c EXCEPT ![p] = None] ELSE [c EXCEPT ![p] = rec]

Touch(t, r, p) == [t EXCEPT ![p] = IF r = "del" THEN "m" ELSE "o"]

\* description carried by a delete notification (only its number matters):
\* the port's last description when there is one
DefaultRec == CHOOSE r \in Recs : TRUE
DelDesc(p) == IF cur[p] # None THEN cur[p] ELSE DefaultRec

NoObs == [a |-> "Init", args |-> [x |-> 0], exp |-> NoView]

Init == /\ phase = "pre"
        /\ orig = [p \in Ports |-> None]
        /\ cur = [p \in Ports |-> None]
        /\ tch = [p \in Ports |-> "u"]
        /\ early = 0
        /\ notes = <<>>
        /\ last = NoObs
        /\ hist = <<>>

Log(a, args, exp) ==
  /\ last' = [a |-> a, args |-> args, exp |-> exp]
  /\ hist' = IF D = 0 THEN hist     \* D = 0: model checking / graph export, no history needed
             ELSE Append(hist, [a |-> a, args |-> args, exp |-> exp])

Reset(S) == /\ orig' = S /\ cur' = S
            /\ tch' = [p \in Ports |-> "u"]
            /\ notes' = <<>>

\* features reply during the handshake
FeaturesHS(S) ==
  /\ phase = "pre" /\ phase' = "hs"
  /\ Reset(S) /\ early' = 0
  /\ Log("FeaturesHS", [ports |-> S], NoView)

Notify(r, p, rec) ==
  /\ cur' = Apply(cur, r, p, rec)
  /\ tch' = Touch(tch, r, p)
  /\ notes' = Append(notes, [r |-> r, p |-> p, rec |-> rec])
  /\ UNCHANGED orig

\* port status before the handshake is over: counts, but nothing is observable yet
EarlyStatus(r, p, rec) ==
  /\ phase = "hs" /\ early < MaxEarly
  /\ Notify(r, p, rec)
  /\ early' = early + 1 /\ UNCHANGED phase
  /\ Log("EarlyStatus", [r |-> r, p |-> p, rec |-> rec], NoView)

\* barrier reply: handshake complete, the connection (and its views) become visible
Barrier(lis) ==
  /\ phase = "hs" /\ phase' = "up"
  /\ early' = 0
  /\ UNCHANGED <<orig, cur, tch, notes>>
  /\ Log("Barrier", [lis |-> lis], Obs(cur, orig))

\* port status on an established connection
Status(r, p, rec, lis) ==
  /\ phase = "up"
  /\ Notify(r, p, rec)
  /\ UNCHANGED <<phase, early>>
  /\ Log("Status", [r |-> r, p |-> p, rec |-> rec, lis |-> lis], Obs(Apply(cur, r, p, rec), orig))

\* a further features reply on an established connection (answer to an
\* application's features request): the picture starts over from it
Features(S, lis) ==
  /\ phase = "up"
  /\ Reset(S) /\ UNCHANGED <<phase, early>>
  /\ Log("Features", [ports |-> S, lis |-> lis], Obs(S, S))

\* named per kind so that TLC's coverage (vacuity guard) tells them apart
EarlySet(r, p, rec) == EarlyStatus(r, p, rec) /\ TRUE
EarlyDelete(p) == EarlyStatus("del", p, DelDesc(p)) /\ TRUE
StatusSet(r, p, rec, lis) == Status(r, p, rec, lis) /\ TRUE
StatusDelete(p, lis) == Status("del", p, DelDesc(p), lis) /\ TRUE

FeaturesHSAny == \E S \in InitSets : FeaturesHS(S)
EarlyUpd == \E r \in {"add", "mod"}, p \in Ports, rec \in Recs : EarlySet(r, p, rec)
EarlyDel == \E p \in Ports : EarlyDelete(p)
StatusUpd == \E r \in {"add", "mod"}, p \in Ports, rec \in Recs, lis \in LisModes : StatusSet(r, p, rec, lis)
StatusDel == \E p \in Ports, lis \in LisModes : StatusDelete(p, lis)
FeaturesAny == \E S \in InitSets, lis \in LisModes : Features(S, lis)
BarrierAny == \E lis \in LisModes : Barrier(lis)

Next == FeaturesHSAny \/ EarlyUpd \/ EarlyDel \/ BarrierAny \/ StatusUpd \/ StatusDel \/ FeaturesAny

Spec == Init /\ [][Next]_vars

----------------------------------------------------------------------------
(* The property, over the real variables.                                   *)

TypeOK == /\ phase \in {"pre", "hs", "up"}
          /\ orig \in [Ports -> Slot] /\ cur \in [Ports -> Slot]
          /\ tch \in [Ports -> {"u", "o", "m"}]
          /\ early \in 0..MaxEarly

RECURSIVE ApplyAll(_, _)
ApplyAll(c, ns) ==
  IF ns = <<>> THEN c
  ELSE ApplyAll(Apply(c, ns[1].r, ns[1].p, ns[1].rec), Tail(ns))

\* the current view is the reported ports with the notifications applied in order
CurIsOrigPlusNotes == cur = ApplyAll(orig, notes)

\* ports nobody mentioned since the features reply are as reported
UntouchedAsReported == \A p \in Ports : tch[p] = "u" => cur[p] = orig[p]

\* what an observer is told is the truth about cur and orig:
\* a lookup succeeds exactly for attributes the view has now, and answers
\* with a port of the view that has the attribute
ViewTruth(v, c) ==
  /\ v.ports = c
  /\ v.nos = {p \in Ports : c[p] # None} /\ v.n = Cardinality(v.nos)
  /\ v.has = v.nos
  /\ \A nm \in ProbeNames :
       /\ (v.byname[nm] = {}) <=> (\A p \in Ports : c[p] = None \/ c[p].name # nm)
       /\ \A t \in v.byname[nm] : c[t[1]] = [name |-> nm, hw |-> t[3], st |-> t[4]] /\ t[2] = nm
  /\ \A hw \in ProbeHws :
       /\ (v.byhw[hw] = {}) <=> (\A p \in Ports : c[p] = None \/ c[p].hw # hw)
       /\ \A t \in v.byhw[hw] : c[t[1]] = [name |-> t[2], hw |-> hw, st |-> t[4]] /\ t[3] = hw
ObservedTruth ==
  last.a \in {"Barrier", "Status", "Features"} =>
    ViewTruth(last.exp.cur, cur) /\ ViewTruth(last.exp.orig, orig)

\* the same as an action property: evaluated on EVERY transition, also those
\* into states already seen (model checking uses VIEW viewE, which hides last)
ObservedTruthA == [][ObservedTruth']_vars

\* a notification changes the entry of its own number and nothing else,
\* and never the originally reported ports
OnlyNamedPort ==
  [][last'.a \in {"Status", "EarlyStatus"} =>
       /\ orig' = orig
       /\ \A q \in Ports \ {last'.args.p} : cur'[q] = cur[q]
       /\ cur'[last'.args.p] = IF last'.args.r = "del" THEN None ELSE last'.args.rec]_vars

\* a features reply replaces both pictures
FeaturesStartOver ==
  [][last'.a \in {"Features", "FeaturesHS"} =>
       orig' = last'.args.ports /\ cur' = orig']_vars

\* nothing else touches the pictures
OthersLeaveAlone ==
  [][last'.a = "Barrier" => orig' = orig /\ cur' = cur]_vars

\* ---- export for the replay harness
Bound   == Len(hist) <= D
Export  == (Len(hist) = D) => PrintT(<<"H", ToJson(hist)>>)
ExportT == PrintT(<<"T", ToJson(hist')>>)
\* one line per transition of the state graph (harness/c17_tour.py builds walks from them)
ExportG == PrintT(<<"G", ToJson([s |-> viewE, t |-> viewE', st |-> last'])>>)
=============================================================================
