CONSTANTS NK = 3
  KType <- T3_table
  KXid <- X3
  KMax <- M3_322
  KGen <- G3_211
  MaxN = 1
  OtherKinds <- OthersAll
  D = 0
INIT Init
NEXT Next
VIEW viewE
ACTION_CONSTRAINT ExportG
CHECK_DEADLOCK FALSE
