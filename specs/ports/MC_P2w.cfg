CONSTANTS NP = 2
  Names <- Names3
  Hws <- Hws3
  Sts <- St2
  ProbeNames <- PNames
  ProbeHws <- PHws
  InitSets <- Init2w
  MaxEarly = 2
  LisModes <- LisNone
  D = 0
INIT Init
NEXT Next
VIEW viewE
INVARIANT TypeOK
INVARIANT CurIsOrigPlusNotes
INVARIANT UntouchedAsReported
INVARIANT ObservedTruth
PROPERTY ObservedTruthA
PROPERTY OnlyNamedPort
PROPERTY FeaturesStartOver
PROPERTY OthersLeaveAlone
CHECK_DEADLOCK FALSE
