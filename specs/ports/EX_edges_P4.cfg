CONSTANTS NP = 4
  Names <- Names2
  Hws <- Hws2
  Sts <- St1
  ProbeNames <- PNames
  ProbeHws <- PHws
  InitSets <- Init4
  MaxEarly = 1
  D = 0
INIT Init
NEXT Next
VIEW viewE
ACTION_CONSTRAINT ExportG
CHECK_DEADLOCK FALSE
