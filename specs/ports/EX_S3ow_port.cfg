CONSTANTS NK = 3
  KType <- T3o_port
  KXid <- X3o_121
  KMax <- M3ow
  KGen <- G3ow
  MaxN = 1
  OtherKinds <- OthersB
  RawModes <- RawNone
  D = 0
INIT Init
NEXT Next
VIEW viewE
ACTION_CONSTRAINT ExportG
INVARIANT TypeOK
INVARIANT PendingPure
INVARIANT NeverMerged
PROPERTY NeverMergedA
PROPERTY ExactlyOnceAfterFinal
PROPERTY AllPartsInOrder
PROPERTY Isolation
PROPERTY FreeIsOwnOnly
CHECK_DEADLOCK FALSE
