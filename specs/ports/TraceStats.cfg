CONSTANTS NK = 9
  KType <- T9
  KXid <- X9
  KMax <- M9
  KGen <- G9
  MaxN = 5
  OtherKinds <- OthersMore
  RawModes <- RawAll
  D = 0
INIT TrInit
NEXT TrNext
CONSTRAINT Progress
POSTCONDITION Accepted
INVARIANT TypeOK
INVARIANT PendingPure
INVARIANT NeverMerged
CHECK_DEADLOCK FALSE
