CONSTANTS NK = 7
  KType <- T6
  KXid <- X6
  KMax <- M6
  KGen <- G6
  MaxN = 5
  OtherKinds <- OthersAll
  RawModes <- RawAll
  D = 0
INIT TrInit
NEXT TrNext
CONSTRAINT Progress
POSTCONDITION Accepted
INVARIANT TypeOK
INVARIANT PendingPure
INVARIANT NeverMerged
CHECK_DEADLOCK FALSE
