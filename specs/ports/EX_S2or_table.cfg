CONSTANTS NK = 2
  KType <- T2o_table
  KXid <- X2
  KMax <- M2o
  KGen <- G2o
  MaxN = 1
  OtherKinds <- OthersOne
  RawModes <- RawAll
  D = 0
INIT Init
NEXT Next
VIEW viewE
ACTION_CONSTRAINT ExportG
INVARIANT TypeOK
INVARIANT PendingPure
INVARIANT NeverMerged
PROPERTY NeverMergedA
PROPERTY ExactlyOnceAfterFinal
PROPERTY AllPartsInOrder
PROPERTY Isolation
PROPERTY FreeIsOwnOnly
CHECK_DEADLOCK FALSE
