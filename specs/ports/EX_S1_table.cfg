CONSTANTS NK = 1
  KType <- T1_table
  KXid <- X1
  KMax <- M1_6
  KGen <- G1_1
  MaxN = 2
  OtherKinds <- OthersOne
  RawModes <- RawNone
  D = 0
INIT Init
NEXT Next
VIEW viewE
ACTION_CONSTRAINT ExportG
INVARIANT TypeOK
INVARIANT PendingPure
INVARIANT NeverMerged
PROPERTY NeverMergedA
PROPERTY ExactlyOnceAfterFinal
PROPERTY AllPartsInOrder
PROPERTY Isolation
PROPERTY FreeIsOwnOnly
CHECK_DEADLOCK FALSE
