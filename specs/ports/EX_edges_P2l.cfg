CONSTANTS NP = 2
  Names <- Names1
  Hws <- Hws1
  Sts <- St2
  ProbeNames <- PNames
  ProbeHws <- PHws
  InitSets <- Init2l
  MaxEarly = 1
  LisModes <- LisAll
  D = 0
INIT Init
NEXT Next
VIEW viewE
ACTION_CONSTRAINT ExportG
INVARIANT TypeOK
INVARIANT CurIsOrigPlusNotes
INVARIANT UntouchedAsReported
INVARIANT ObservedTruth
PROPERTY ObservedTruthA
PROPERTY OnlyNamedPort
PROPERTY FeaturesStartOver
PROPERTY OthersLeaveAlone
CHECK_DEADLOCK FALSE
