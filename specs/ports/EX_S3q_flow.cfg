CONSTANTS NK = 3
  KType <- T3_flow
  KXid <- X3
  KMax <- M3_222
  KGen <- G3_211
  MaxN = 1
  OtherKinds <- OthersFew
  RawModes <- RawNone
  D = 0
INIT Init
NEXT Next
VIEW viewE
ACTION_CONSTRAINT ExportG
INVARIANT TypeOK
INVARIANT PendingPure
INVARIANT NeverMerged
PROPERTY NeverMergedA
PROPERTY ExactlyOnceAfterFinal
PROPERTY AllPartsInOrder
PROPERTY Isolation
PROPERTY FreeIsOwnOnly
CHECK_DEADLOCK FALSE
