CONSTANTS NK = 3
  KType <- T3_flow
  KXid <- X3
  KMax <- M3_433
  KGen <- G3_222
  MaxN = 1
  OtherKinds <- OthersOne
  RawModes <- RawNone
  D = 0
INIT Init
NEXT Next
VIEW viewE
INVARIANT TypeOK
INVARIANT PendingPure
INVARIANT NeverMerged
PROPERTY NeverMergedA
PROPERTY ExactlyOnceAfterFinal
PROPERTY AllPartsInOrder
PROPERTY Isolation
PROPERTY FreeIsOwnOnly
CHECK_DEADLOCK FALSE
