CONSTANTS NP = 3
  Names <- Names2
  Hws <- Hws2
  Sts <- St2
  ProbeNames <- PNames
  ProbeHws <- PHws
  InitSets <- Init3s
  MaxEarly = 1
  D = 0
INIT Init
NEXT Next
VIEW viewE
ACTION_CONSTRAINT ExportG
CHECK_DEADLOCK FALSE
