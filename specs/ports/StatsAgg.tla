---------------------------- MODULE StatsAgg ----------------------------
(* C17 (second half): reassembly of multipart statistics replies.           *)
(*                                                                          *)
(* One established OpenFlow connection.  The controller has up to NK        *)
(* statistics requests outstanding; request k is identified on the wire by  *)
(* its transaction id KXid[k] and its statistics type KType[k] (two         *)
(* requests differ in at least one of the two).  The switch answers a       *)
(* request with one or more STATS_REPLY messages ("parts"): every part but  *)
(* the last carries the MORE flag; a part carries zero or more entries.     *)
(* flow / table / port / queue replies may be split; desc and aggregate     *)
(* replies are a single part with a single body.                            *)
(*                                                                          *)
(* What must happen: when - and only when - the final part of a reply has   *)
(* arrived, exactly one aggregated event (FlowStatsReceived, ...) is raised *)
(* for it, on the connection and on the nexus, carrying the entries of ALL  *)
(* parts of that reply in arrival order and nothing else.  Parts of another *)
(* request's reply and unrelated messages may arrive in between: they       *)
(* neither end up in this reply's event nor make it lose parts, and the     *)
(* other reply gets its own event.                                          *)
(*                                                                          *)
(* Environment.  Other components may listen to the raw per-part event       *)
(* (RawStatsReply) on the nexus and/or on the connection, and may halt it,  *)
(* raise an exception in their handler, or unsubscribe while a reply is     *)
(* being assembled.  None of that is any of the aggregation's business: the *)
(* expectation of Part does not depend on its `raw` argument.  raw is one   *)
(* of  none / listen (passive listeners on both) / halt_nexus / halt_con /  *)
(* raise_nexus / raise_con / remove_nexus / remove_con  and describes the   *)
(* listeners present while this one part is processed.                      *)
(*                                                                          *)
(* Replies of types that are NOT multipart-capable.  A switch may also send  *)
(* statistics replies the controller has no aggregated event for: vendor    *)
(* statistics (OFPST_VENDOR - which a vendor extension may well split with  *)
(* the MORE flag) and types the controller does not know at all ("unk");    *)
(* and nothing stops a switch from setting MORE on a desc / aggregate       *)
(* reply.  The property does not say what becomes of THOSE replies, but it  *)
(* does say that they are "a second request's reply" for every reply of a   *)
(* multipart-capable type that is being assembled at that moment: they must *)
(* neither end up in it nor make it lose parts.  So: a part of a vendor /   *)
(* unknown-type reply raises no aggregated event (there is none), a desc /  *)
(* aggregate reply that is split is "free" - the events for ITS OWN (type,  *)
(* xid) are not constrained in the steps concerned (exp.free lists that     *)
(* pair; an implementation may ignore the flag and fire at once, fire at    *)
(* the end with either body, or drop the reply) - and in all cases every    *)
(* other request's assembly is untouched (Isolation) and the other events   *)
(* are exactly as before.                                                   *)
(*                                                                          *)
(* Abstract state: pend[k] = the parts of request k's reply received so far *)
(* (each part = the sequence of its entries), gen[k] = how many replies for *)
(* key k have been completed (a transaction id may be used again once its   *)
(* reply is complete).  An entry is the triple <<k, gen, position>>; the    *)
(* adapter gives each a distinct concrete identity (cookie, counters, ...). *)
EXTENDS Naturals, Sequences, FiniteSets, TLC, Json

CONSTANTS NK,          \* requests (keys) are 1..NK
          KType,       \* <<statistics type of key 1, ...>>
          KXid,        \* <<transaction id symbol of key 1, ...>>
          KMax,        \* <<max number of parts modelled for one reply of key k>>
          MaxN,        \* entries per part: 0..MaxN
          KGen,        \* <<replies modelled for key k>>
          OtherKinds,  \* unrelated messages that may arrive in between
          RawModes,    \* what listeners of the RAW per-part event (RawStatsReply) do, see below
          D            \* export depth

Keys == 1..NK
Multi == {"flow", "table", "port", "queue"}
Single == {"desc", "aggr"}
Opaque == {"vendor", "unk"}     \* no aggregated event exists for these

ASSUME /\ \A k \in Keys : KType[k] \in Multi \cup Single \cup Opaque
       /\ \A j, k \in Keys : j # k => <<KType[j], KXid[j]>> # <<KType[k], KXid[k]>>

VARIABLES pend,     \* [Keys -> Seq(Seq(entry))]
          gen,      \* [Keys -> 0..KGen[k]]
          last,     \* observation of the last action
          hist      \* all observations (export only; hidden by VIEW)
vars == <<pend, gen, last, hist>>
view == <<pend, gen, last>>
viewE == <<pend, gen>>

RECURSIVE Flat(_)
Flat(ps) == IF ps = <<>> THEN <<>> ELSE ps[1] \o Flat(Tail(ps))

\* the n entries of the next part of request k's current reply
NewEntries(k, n) ==
  LET have == Len(Flat(pend[k])) IN [i \in 1..n |-> <<k, gen[k], have + i>>]

Event(k, entries) == [t |-> KType[k], x |-> KXid[k], e |-> entries]
\* con / nexus = the aggregated events that must be seen there (in order), not counting events
\* for a (type, xid) pair listed in free, which are not constrained in this step
Quiet == [con |-> <<>>, nexus |-> <<>>, free |-> <<>>]
Raised(ev) == [con |-> <<ev>>, nexus |-> <<ev>>, free |-> <<>>]
Free(k) == [con |-> <<>>, nexus |-> <<>>, free |-> <<[t |-> KType[k], x |-> KXid[k]]>>]

\* this part belongs to a reply of a not multipart-capable type that is split all the same
Odd(k, more) == KType[k] \notin Multi /\ (more \/ pend[k] # <<>>)
\* the final part of a reply for which the property promises the aggregated event
Completes(k, more) == ~more /\ KType[k] \notin Opaque /\ ~Odd(k, more)

NoObs == [a |-> "Init", args |-> [x |-> 0], exp |-> Quiet]

Init == /\ pend = [k \in Keys |-> <<>>]
        /\ gen = [k \in Keys |-> 0]
        /\ last = NoObs
        /\ hist = <<>>

Log(a, args, exp) ==
  /\ last' = [a |-> a, args |-> args, exp |-> exp]
  /\ hist' = IF D = 0 THEN hist     \* D = 0: model checking / graph export, no history needed
             ELSE Append(hist, [a |-> a, args |-> args, exp |-> exp])

\* one STATS_REPLY message of request k arrives
Part(k, more, n, raw) ==
  /\ gen[k] < KGen[k]
  /\ Len(pend[k]) < KMax[k]
  /\ KType[k] \in Single => n = 1
  \* a not multipart-capable type is split only where the model has room for the final part
  /\ (more /\ KType[k] \notin Multi) => Len(pend[k]) + 1 < KMax[k]
  /\ LET new == IF KType[k] \in Opaque THEN <<>> ELSE NewEntries(k, n)
         args == [k |-> k, t |-> KType[k], x |-> KXid[k], g |-> gen[k],
                  first |-> Len(Flat(pend[k])) + 1, n |-> n, more |-> more, raw |-> raw]
         quiet == IF Odd(k, more) /\ KType[k] \in Single THEN Free(k) ELSE Quiet
     IN IF more
        THEN /\ pend' = [pend EXCEPT ![k] = Append(@, new)]
             /\ UNCHANGED gen
             /\ Log("Part", args, quiet)
        ELSE /\ pend' = [pend EXCEPT ![k] = <<>>]
             /\ gen' = [gen EXCEPT ![k] = @ + 1]
             /\ Log("Part", args, IF Completes(k, more) THEN Raised(Event(k, Flat(pend[k]) \o new))
                                  ELSE quiet)

\* an unrelated message (echo, packet-in, port status, barrier reply, ...)
Other(kind) ==
  /\ UNCHANGED <<pend, gen>>
  /\ Log("Other", [kind |-> kind], Quiet)

\* (named for TLC's per-action coverage = the vacuity guard of the check)
PartMore(k, n, raw) == KType[k] \in Multi /\ Part(k, TRUE, n, raw)
PartFinal(k, n, raw) == Completes(k, FALSE) /\ Part(k, FALSE, n, raw)
OddMore(k, n, raw) == KType[k] \notin Multi /\ Part(k, TRUE, n, raw)
OddFinal(k, n, raw) == ~Completes(k, FALSE) /\ Part(k, FALSE, n, raw)
More == \E k \in Keys, n \in 0..MaxN, raw \in RawModes : PartMore(k, n, raw)
Final == \E k \in Keys, n \in 0..MaxN, raw \in RawModes : PartFinal(k, n, raw)
OddM == \E k \in Keys, n \in 0..MaxN, raw \in RawModes : OddMore(k, n, raw)
OddF == \E k \in Keys, n \in 0..MaxN, raw \in RawModes : OddFinal(k, n, raw)
Unrelated == \E kind \in OtherKinds : Other(kind)

Next == More \/ Final \/ OddM \/ OddF \/ Unrelated

Spec == Init /\ [][Next]_vars

----------------------------------------------------------------------------
(* The property, over the real variables.                                   *)

TypeOK == /\ gen \in [Keys -> Nat] /\ \A k \in Keys : gen[k] <= KGen[k]
          /\ \A k \in Keys : /\ Len(pend[k]) <= KMax[k]
                             /\ \A i \in 1..Len(pend[k]) : Len(pend[k][i]) <= MaxN

\* what is being assembled for k belongs to k's current reply only, in order, gap-free
PendingPure ==
  \A k \in Keys : LET f == Flat(pend[k]) IN
    \A i \in 1..Len(f) : f[i] = <<k, gen[k], i>>

\* an event never mixes requests or replies, and lists the entries in order from the first
EventPure(ev) ==
  \A i \in 1..Len(ev.e) : /\ ev.e[i][1] = ev.e[1][1] /\ ev.e[i][2] = ev.e[1][2] /\ ev.e[i][3] = i
                          /\ KType[ev.e[i][1]] = ev.t /\ KXid[ev.e[i][1]] = ev.x
NeverMerged == \A i \in 1..Len(last.exp.con) : EventPure(last.exp.con[i])

\* the same as an action property: evaluated on EVERY transition (VIEW viewE hides last)
NeverMergedA == [][NeverMerged']_vars

\* does the step just logged complete a reply the property promises an event for?  (p = pend before the step)
Fires(st, p) == /\ st.a = "Part"
                /\ ~st.args.more
                /\ \/ KType[st.args.k] \in Multi
                   \/ KType[st.args.k] \in Single /\ p[st.args.k] = <<>>

\* the event fires when and only when such a final part arrives, once, on connection and nexus alike;
\* in particular a part of a vendor / unknown-type / split desc or aggregate reply makes no OTHER event fire
ExactlyOnceAfterFinal ==
  [][/\ Len(last'.exp.con) = IF Fires(last', pend) THEN 1 ELSE 0
     /\ last'.exp.nexus = last'.exp.con]_vars

\* ... and carries every entry of every part of that reply, in arrival order
AllPartsInOrder ==
  [][/\ Fires(last', pend) =>
          LET k == last'.args.k
              ev == last'.exp.con[1] IN
          /\ ev.t = KType[k] /\ ev.x = KXid[k]
          /\ Len(ev.e) = Len(Flat(pend[k])) + last'.args.n
          /\ \A i \in 1..Len(ev.e) : ev.e[i] = <<k, gen[k], i>>
     /\ (last'.a = "Part" /\ ~last'.args.more) =>
          pend'[last'.args.k] = <<>> /\ gen'[last'.args.k] = gen[last'.args.k] + 1]_vars

\* the only events the spec leaves open are those of a split desc / aggregate reply, in the steps that
\* deliver its parts, and only for its own (type, xid)
FreeIsOwnOnly ==
  [][last'.exp.free # <<>> =>
       /\ last'.a = "Part"
       /\ KType[last'.args.k] \in Single
       /\ last'.args.more \/ pend[last'.args.k] # <<>>
       /\ last'.exp.free = <<[t |-> KType[last'.args.k], x |-> KXid[last'.args.k]]>>
       /\ last'.exp.con = <<>>]_vars

\* a part only ever affects the assembly of its own request; other messages affect none
Isolation ==
  [][/\ (last'.a = "Part" => \A j \in Keys \ {last'.args.k} : pend'[j] = pend[j] /\ gen'[j] = gen[j])
     /\ (last'.a = "Part" /\ last'.args.more =>
           /\ Len(pend'[last'.args.k]) = Len(pend[last'.args.k]) + 1
           /\ gen'[last'.args.k] = gen[last'.args.k])
     /\ (last'.a = "Other" => pend' = pend /\ gen' = gen)]_vars

\* ---- export for the replay harness
Bound   == Len(hist) <= D
Export  == (Len(hist) = D) => PrintT(<<"H", ToJson(hist)>>)
ExportT == PrintT(<<"T", ToJson(hist')>>)
\* one line per transition of the state graph (harness/c17_tour.py builds walks from them)
ExportG == PrintT(<<"G", ToJson([s |-> viewE, t |-> viewE', st |-> last'])>>)
=============================================================================
