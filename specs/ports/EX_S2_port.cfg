CONSTANTS NK = 2
  KType <- T2_port_desc
  KXid <- X2same
  KMax <- M2_61
  KGen <- G2_22
  MaxN = 1
  OtherKinds <- OthersOne
  RawModes <- RawNone
  D = 0
INIT Init
NEXT Next
VIEW viewE
ACTION_CONSTRAINT ExportG
INVARIANT TypeOK
INVARIANT PendingPure
INVARIANT NeverMerged
PROPERTY NeverMergedA
PROPERTY ExactlyOnceAfterFinal
PROPERTY AllPartsInOrder
PROPERTY Isolation
PROPERTY FreeIsOwnOnly
CHECK_DEADLOCK FALSE
