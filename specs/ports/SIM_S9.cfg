CONSTANTS NK = 9
  KType <- T9
  KXid <- X9
  KMax <- M9
  KGen <- G9
  MaxN = 3
  OtherKinds <- OthersMore
  RawModes <- RawAll
  D = 30
INIT Init
NEXT Next
INVARIANT Export
CHECK_DEADLOCK FALSE
