---- MODULE TraceStatsAgg ----
(* Code -> spec: message sequences fed to a real of_01.Connection by the      *)
(* random driver props.C17:drive_stats, with the *StatsReceived events seen   *)
(* on the connection and on the nexus after every message, must be            *)
(* behaviours of StatsAgg.tla.                                                *)
EXTENDS MCStatsAgg, IOUtils, TLCExt, SequencesExt

Traces == JsonDeserialize(IOEnv.TRACE_FILE)
NT == Len(Traces)
VARIABLES tid, l
tvars == <<vars, tid, l>>

TrInit == Init /\ tid \in 1..NT /\ l = 1 /\ TLCSet(tid, 0)
Ev == Traces[tid][l]
IsEvent(e) == l <= Len(Traces[tid]) /\ Ev.a = e /\ l' = l + 1 /\ UNCHANGED tid

\* logged events: [t, x, e] with e a list of [k, g, i]
Evs(js) == [i \in 1..Len(js) |-> [t |-> js[i].t, x |-> js[i].x,
                                  e |-> [j \in 1..Len(js[i].e) |-> <<js[i].e[j][1], js[i].e[j][2], js[i].e[j][3]>>]]]
Same(a, b) == Len(a) = Len(b) /\ \A i \in 1..Len(a) :
                /\ a[i].t = b[i].t /\ a[i].x = b[i].x /\ Len(a[i].e) = Len(b[i].e)
                /\ \A j \in 1..Len(a[i].e) : a[i].e[j] = b[i].e[j]
\* events for a (type, xid) the spec leaves open in this step (exp.free) are not compared
Constrained(evs, fr) ==
  LET F[i \in 0..Len(evs)] ==
        IF i = 0 THEN <<>>
        ELSE IF \E j \in 1..Len(fr) : fr[j].t = evs[i].t /\ fr[j].x = evs[i].x THEN F[i - 1]
             ELSE Append(F[i - 1], evs[i])
  IN F[Len(evs)]
ObsIs(o) == /\ Same(Constrained(Evs(o.con), last'.exp.free), last'.exp.con)
            /\ Same(Constrained(Evs(o.nexus), last'.exp.free), last'.exp.nexus)

TrPart == IsEvent("Part") /\ Part(Ev.args.k, Ev.args.more, Ev.args.n, Ev.args.raw) /\ Ev.wf /\ ObsIs(Ev.obs)
TrOther == IsEvent("Other") /\ Other(Ev.args.kind) /\ Ev.wf /\ ObsIs(Ev.obs)

TrNext == TrPart \/ TrOther
TrSpec == TrInit /\ [][TrNext]_tvars

Progress == TLCSet(tid, IF TLCGet(tid) < l - 1 THEN l - 1 ELSE TLCGet(tid))
Ok(t) == TLCGet(t) = Len(Traces[t]) \/ (PrintT(<<"REJECT", t, TLCGet(t)>>) /\ FALSE)
Accepted == /\ PrintT(<<"TRACES-CHECKED", NT>>)
            /\ Cardinality({t \in 1..NT : ~Ok(t)}) = 0
====
