CONSTANTS NK = 3
  KType <- T3_flow
  KXid <- X3
  KMax <- M3_433
  KGen <- G3_222
  MaxN = 1
  OtherKinds <- OthersOne
  D = 0
INIT Init
NEXT Next
VIEW viewE
ACTION_CONSTRAINT ExportG
CHECK_DEADLOCK FALSE
