CONSTANTS NP = 4
  Names <- Names3
  Hws <- Hws3
  Sts <- St2
  ProbeNames <- PNames
  ProbeHws <- PHws
  InitSets <- Init4w
  MaxEarly = 1
  D = 0
INIT Init
NEXT Next
VIEW view
INVARIANT TypeOK
INVARIANT CurIsOrigPlusNotes
INVARIANT UntouchedAsReported
INVARIANT ObservedTruth
PROPERTY OnlyNamedPort
PROPERTY FeaturesStartOver
PROPERTY OthersLeaveAlone
CHECK_DEADLOCK FALSE
