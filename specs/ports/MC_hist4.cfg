CONSTANTS NP = 2
  Names <- Names2
  Hws <- Hws1
  Sts <- St1
  ProbeNames <- PNames
  ProbeHws <- PHws
  InitSets <- Init2h
  MaxEarly = 1
  D = 4
INIT Init
NEXT Next
CONSTRAINT Bound
INVARIANT TypeOK
INVARIANT CurIsOrigPlusNotes
INVARIANT UntouchedAsReported
INVARIANT ObservedTruth
PROPERTY OnlyNamedPort
PROPERTY FeaturesStartOver
PROPERTY OthersLeaveAlone
CHECK_DEADLOCK FALSE
