CONSTANTS K = 5
  MatchOf <- MCMatch
  PrioOf <- MCPrio
  Dev <- Actual
  NexusClears = TRUE
  TimeOut = 2
  MaxOps = 22
  MaxDowns = 4
  MaxTicks = 7
  MaxExpires = 1
  MaxPend = 6
  MaxC2S = 18
  MaxS2C = 9
  D = 60
INIT Init
NEXT NextS
CONSTRAINT Bounds
INVARIANT ExportS
CHECK_DEADLOCK FALSE
