CONSTANTS K = 2
  MatchOf <- MCMatch
  PrioOf <- MCPrio
  Dev <- NoDev
  NexusClears = TRUE
  TimeOut = 2
  MaxOps = 3
  MaxDowns = 1
  MaxTicks = 0
  MaxExpires = 1
  MaxPend = 3
  MaxC2S = 8
  MaxS2C = 4
  D = 0
INIT Init
NEXT Next
VIEW viewE
CONSTRAINT Bounds
CHECK_DEADLOCK FALSE
INVARIANT TypeOK
INVARIANT PendingCovered
INVARIANT BarriersInFlight
INVARIANT DrainedAgree
INVARIANT DrainedAgreeKeys
INVARIANT NoOrphan
PROPERTY SyncAtBarrier
PROPERTY SyncAtBarrierKeys
PROPERTY InstalledOnlyAfterBarrier
PROPERTY RemovedOnlyWhenConfirmed
PROPERTY WritesEndWithBarrier
PROPERTY NoExceptions
