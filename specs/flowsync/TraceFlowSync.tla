---- MODULE TraceFlowSync ----
(* Code -> spec: traces recorded from the real mirror / connection / switch   *)
(* by a seeded random driver must be behaviours of FlowSync.tla; the          *)
(* invariants are evaluated at every matched step.  Every action of the spec  *)
(* is deterministic given its arguments, so an event matches iff the logged   *)
(* observation is exactly the one the spec computes.                          *)
EXTENDS MCFlowSync, IOUtils, TLCExt

Traces == JsonDeserialize(IOEnv.TRACE_FILE)
NT == Len(Traces)
VARIABLES tid, l
tvars == <<vars, tid, l>>

TrInit == Init /\ tid \in 1..NT /\ l = 1 /\ TLCSet(tid, 0)
Ev == Traces[tid][l]
IsEvent(e) == l <= Len(Traces[tid]) /\ Ev.a = e /\ l' = l + 1 /\ UNCHANGED tid
Same == Ev.wf /\ last'.exp = Ev.obs

TrInstall      == IsEvent("Install") /\ Ev.args.o \in Objs /\ Install(Ev.args.o) /\ Same
TrRemoveStrict == IsEvent("RemoveStrict") /\ Ev.args.o \in Objs /\ RemoveStrict(Ev.args.o) /\ Same
TrRemoveWild   == IsEvent("RemoveWild") /\ Ev.args.o \in Objs /\ RemoveWild(Ev.args.o) /\ Same
TrSwRx   == IsEvent("SwRx") /\ SwRx /\ Same
TrCtlRx  == IsEvent("CtlRx") /\ CtlRx /\ Same
TrTick   == IsEvent("Tick") /\ Ev.args.d \in {1, TimeOut + 1} /\ Tick(Ev.args.d) /\ Same
TrDown   == IsEvent("Down") /\ Down /\ Same
TrUp     == IsEvent("Up") /\ Up /\ Same
TrExpire == IsEvent("Expire") /\ Expire /\ Same
TrJoin   == IsEvent("Join") /\ Join /\ Same

TrNext == TrInstall \/ TrRemoveStrict \/ TrRemoveWild \/ TrSwRx \/ TrCtlRx \/ TrTick \/ TrDown \/ TrUp
          \/ TrExpire \/ TrJoin
TrSpec == TrInit /\ [][TrNext]_tvars

Progress == TLCSet(tid, IF TLCGet(tid) < l - 1 THEN l - 1 ELSE TLCGet(tid))
Ok(t) == TLCGet(t) = Len(Traces[t]) \/ (PrintT(<<"REJECT", t, TLCGet(t)>>) /\ FALSE)
Accepted == /\ PrintT(<<"TRACES-CHECKED", NT>>)
            /\ Cardinality({t \in 1..NT : ~Ok(t)}) = 0
====
