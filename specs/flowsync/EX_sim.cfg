CONSTANTS K = 5
  MatchOf <- MCMatch
  PrioOf <- MCPrio
  Dev <- Actual
  NexusClears = TRUE
  TimeOut = 2
  MaxOps = 14
  MaxDowns = 3
  MaxTicks = 5
  MaxExpires = 1
  MaxPend = 5
  MaxC2S = 16
  MaxS2C = 8
  D = 40
INIT Init
NEXT NextS
CONSTRAINT Bounds
INVARIANT ExportS
CHECK_DEADLOCK FALSE
