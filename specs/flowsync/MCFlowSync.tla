---- MODULE MCFlowSync ----
EXTENDS FlowSync
\* entry objects: 1 = (in_port 1, prio 5); 2 = (all wildcarded, prio 5) - covers everything as a delete pattern;
\* 3 = a second object with the (match, priority) of 1; 4 = (in_port 1 & dl_type 8, prio 7) - covered by 1 and 2
\* non-strictly, never hit strictly by them; 5 = the match of 1 with another priority (7)
MCMatch == [o \in 1..5 |-> CASE o = 1 -> [ip |-> 1, dt |-> 0]
                             [] o = 2 -> [ip |-> 0, dt |-> 0]
                             [] o = 3 -> [ip |-> 1, dt |-> 0]
                             [] o = 4 -> [ip |-> 1, dt |-> 8]
                             [] o = 5 -> [ip |-> 1, dt |-> 0]]
MCPrio == [o \in 1..5 |-> IF o >= 4 THEN 7 ELSE 5]
NoDev == {}
Actual == AllDev
OnlyAddNoReplace == {"AddNoReplace"}
OnlyDropDel == {"DropDelOnReconnect"}
OnlyWildCrash == {"WildRemoveCrash"}
OnlyResend == {"Resend"}
OnlyFlowRem == {"FlowRemProxyErr"}
OnlyConflate == {"Conflate"}
OnlyRejoin == {"RejoinFails"}
====
