CONSTANTS K = 5
  MatchOf <- MCMatch
  PrioOf <- MCPrio
  Dev <- Actual
  NexusClears = TRUE
  TimeOut = 2
  MaxOps = 100000
  MaxDowns = 100000
  MaxTicks = 100000
  MaxExpires = 100000
  MaxPend = 0
  MaxC2S = 0
  MaxS2C = 0
  D = 0
INIT TrInit
NEXT TrNext
CONSTRAINT Progress
POSTCONDITION Accepted
INVARIANT TypeOK
INVARIANT BarriersInFlight
CHECK_DEADLOCK FALSE
