---------------------------- MODULE FlowSync ----------------------------
(* X02: the controller-side mirror of a switch's flow table                  *)
(* (pox/openflow/topology.py OFSyncFlowTable on top of flow_table.FlowTable), *)
(* closed over an OpenFlow channel with a real switch at the other end.       *)
(*                                                                            *)
(* Abstract state, shaped like the implementation:                            *)
(*   pending   the list of operations (command, entry object) not yet         *)
(*             confirmed                  (OFSyncFlowTable._pending)          *)
(*   bar2ops   barrier id -> operations sent in front of that barrier         *)
(*                                        (_pending_barrier_to_ops)           *)
(*   op2bar    operation -> (barrier, age of the transmission)                *)
(*                                        (_pending_op_to_barrier)            *)
(*   mirror    the installed entries, in table order (flow_table.entries)     *)
(*   swtab     the switch's real flow table                                   *)
(*   c2s, s2c  the two directions of the OpenFlow channel (FIFO, messages)    *)
(*   conn      up / down / gone (reconnect timeout passed: entity forgotten)  *)
(*             / orphan (connected again but without entity, "RejoinFails")   *)
(*   want      GHOST: the table an ideal switch would hold after the          *)
(*             operations the application issued, in the order issued         *)
(*                                                                            *)
(* One action per linearization point: the three public operations            *)
(* (Install / RemoveWild / RemoveStrict = _mod + _sync_pending), the switch   *)
(* reading one message (SwRx), the controller reading one message (CtlRx =    *)
(* _handle_BarrierIn or _handle_FlowRemoved), time passing (Tick), the        *)
(* connection going away (Down) and coming back (Up = handshake +             *)
(* _sync_pending(clear)), the reconnect timeout (Expire) and a connection     *)
(* after it (Join).                                                           *)
(*                                                                            *)
(* Entry objects are identities 1..K with a fixed (match, priority); a match  *)
(* is two fields (in_port, dl_type), 0 = wildcarded.                          *)
(*                                                                            *)
(* DEVIATIONS.  Dev is the set of named places where the code under test      *)
(* does something else than the design this module states; Dev = {} is the    *)
(* intended design (all properties below hold), Dev = AllDev is what the code *)
(* does today (see notes/X02.md "Defects observed"):                          *)
(*   "AddNoReplace"        a confirmed ADD is appended to the mirror without  *)
(*                         replacing an installed entry with the same         *)
(*                         (match, priority) - the switch replaces it         *)
(*   "DropDelOnReconnect"  on reconnect the pending removals are forgotten    *)
(*                         while the entries they should remove are           *)
(*                         re-installed from the mirror                       *)
(*   "WildRemoveCrash"     remove_with_wildcards raises AttributeError when   *)
(*                         an ADD is pending; the removal is not queued       *)
(*   "Resend"              operations unconfirmed for more than TIME_OUT are  *)
(*                         transmitted again (alone, out of order) under a    *)
(*                         new barrier while the old barrier stays tracked    *)
(*   "FlowRemProxyErr"     OpenFlowSwitch._handle_con_FlowRemoved raises      *)
(*                         AttributeError after the mirror handled the event  *)
(*   "RejoinFails"         a switch that connects after its entity has left   *)
(*                         gets no new entity: OpenFlowSwitch(dpid) raises    *)
(*                         "ID already taken" inside the ConnectionUp handler *)
(*   "Conflate"            (environment) the application may re-issue a       *)
(*                         (command, object) pair that is still pending or    *)
(*                         tracked: the bookkeeping keyed by value conflates  *)
(*                         the two operations                                 *)
EXTENDS Naturals, Sequences, FiniteSets, TLC, Json, SequencesExt

CONSTANTS K,            \* entry objects are 1..K
          MatchOf,      \* [1..K -> [ip : Nat, dt : Nat]]   0 = wildcard
          PrioOf,       \* [1..K -> Nat]
          Dev,          \* enabled deviations
          NexusClears,  \* the nexus deletes all flows during the handshake (clear_flows_on_connect)
          TimeOut,      \* OFSyncFlowTable.TIME_OUT in ticks
          MaxOps, MaxDowns, MaxTicks, MaxExpires, MaxPend, MaxC2S, MaxS2C,   \* bounds for model checking
          D             \* export depth

AllDev == {"AddNoReplace", "DropDelOnReconnect", "WildRemoveCrash", "Resend", "FlowRemProxyErr", "Conflate",
           "RejoinFails"}
Objs == 1..K
Cmds == {"add", "del", "dels"}
Op(c, o) == [c |-> c, o |-> o]
Ops == [c : Cmds, o : Objs]
Key(o) == <<MatchOf[o], PrioOf[o]>>
\* OpenFlow 1.0 non-strict matching: every field the pattern specifies is specified identically by the entry
Covers(p, x) == /\ (MatchOf[p].ip = 0 \/ MatchOf[p].ip = MatchOf[x].ip)
                /\ (MatchOf[p].dt = 0 \/ MatchOf[p].dt = MatchOf[x].dt)
Hit(c, p, x) == IF c = "dels" THEN Key(x) = Key(p) ELSE Covers(p, x)

VARIABLES conn, pending, bar2ops, op2bar, mirror, swtab, c2s, s2c, want, budget, last, hist
vars  == <<conn, pending, bar2ops, op2bar, mirror, swtab, c2s, s2c, want, budget, last, hist>>
view  == <<conn, pending, bar2ops, op2bar, mirror, swtab, c2s, s2c, want, budget, last>>
viewE == <<conn, pending, bar2ops, op2bar, mirror, swtab, c2s, s2c, want, budget>>

\* ---- messages
CMsg(t, c, o, b) == [t |-> t, c |-> c, o |-> o, b |-> b]          \* controller -> switch
FlowMod(op) == CMsg("fm", op.c, op.o, 0)
Barrier(b)  == CMsg("bar", "", 0, b)
ClearAll    == CMsg("clr", "", 0, 0)
SMsg(t, b, fl, snap) == [t |-> t, b |-> b, fl |-> fl, snap |-> snap]   \* switch -> controller (snap: GHOST)
Ind(S) == [o \in Objs |-> IF o \in S THEN 1 ELSE 0]
BagOf(s) == [o \in Objs |-> Cardinality({i \in DOMAIN s : s[i] = o})]
SetOf(s) == {s[i] : i \in DOMAIN s}
EmptyF == [x \in {} |-> 0]
MinOf(S) == CHOOSE x \in S : \A y \in S : x <= y

\* barrier ids stand for transaction ids chosen by the code: the lowest id no message in flight carries
InFlightB == {c2s[i].b : i \in {j \in DOMAIN c2s : c2s[j].t = "bar"}} \cup
             {s2c[i].b : i \in {j \in DOMAIN s2c : s2c[j].t = "brep"}}
FreshB(used) == MinOf((1..(Cardinality(used) + 1)) \ used)

\* ---- the flow table of the mirror (flow_table.FlowTable): ordered by priority, newest first among equals
MInsert(m, o) ==
  LET idx == {i \in DOMAIN m : PrioOf[o] >= PrioOf[m[i]]} IN
  IF idx = {} THEN Append(m, o)
  ELSE LET k == MinOf(idx) IN SubSeq(m, 1, k - 1) \o <<o>> \o SubSeq(m, k, Len(m))
MAdd(m, o) == IF "AddNoReplace" \in Dev THEN MInsert(m, o)
              ELSE MInsert(SelectSeq(m, LAMBDA x : Key(x) # Key(o)), o)
\* the first entry with the key of a FLOW_REMOVED is dropped
MDropFirst(m, o) ==
  LET idx == {i \in DOMAIN m : Key(m[i]) = Key(o)} IN
  IF idx = {} THEN m ELSE LET k == MinOf(idx) IN SubSeq(m, 1, k - 1) \o SubSeq(m, k + 1, Len(m))

DropOne(s, e) ==
  LET idx == {i \in DOMAIN s : s[i] = e} IN
  IF idx = {} THEN s ELSE LET k == MinOf(idx) IN SubSeq(s, 1, k - 1) \o SubSeq(s, k + 1, Len(s))
RECURSIVE DropEachOnce(_, _)
DropEachOnce(s, S) == IF S = {} THEN s ELSE LET o == MinOf(S) IN DropEachOnce(DropOne(s, o), S \ {o})
\* _handle_BarrierIn: the operations of one barrier applied in order
RECURSIVE ApplyOps(_, _)
ApplyOps(ops, st) ==
  IF ops = <<>> THEN st
  ELSE LET op == Head(ops) IN
       LET st2 == IF op.c = "add"
                  THEN [st EXCEPT !.m = MAdd(@, op.o), !.added = Append(@, op.o)]
                  ELSE LET hits == SelectSeq(st.m, LAMBDA x : Hit(op.c, op.o, x)) IN
                       \* all matching entries leave.  With "AddNoReplace" the table may hold one object several
                       \* times; FlowTable._remove_specific_entries then deletes one copy per object only
                       \* (and still reports every copy as removed)
                       [st EXCEPT !.m = IF "AddNoReplace" \in Dev THEN DropEachOnce(@, SetOf(hits))
                                        ELSE SelectSeq(@, LAMBDA x : ~Hit(op.c, op.o, x)),
                                  !.removed = @ \o hits]
       IN ApplyOps(Tail(ops), st2)
RECURSIVE RemoveEach(_, _)
RemoveEach(s, ops) == IF ops = <<>> THEN s ELSE RemoveEach(DropOne(s, Head(ops)), Tail(ops))
\* _handle_FlowRemoved for each flow of a batch (keys in a batch are distinct: order does not matter)
RECURSIVE DropFlows(_, _)
DropFlows(m, S) == IF S = {} THEN m ELSE LET o == MinOf(S) IN DropFlows(MDropFirst(m, o), S \ {o})

\* ---- the ideal table
WAdd(w, o) == {x \in w : Key(x) # Key(o)} \cup {o}
WDel(w, c, p) == {x \in w : ~Hit(c, p, x)}

NoObs == [a |-> "Init", args |-> [x |-> 0], exp |-> [x |-> 0]]
Init == /\ conn = "up" /\ pending = <<>> /\ bar2ops = EmptyF /\ op2bar = EmptyF
        /\ mirror = <<>> /\ swtab = {} /\ c2s = <<>> /\ s2c = <<>> /\ want = {}
        /\ budget = [ops |-> 0, downs |-> 0, ticks |-> 0, exps |-> 0]
        /\ last = NoObs /\ hist = <<>>

\* What an observer sees after a step: the mirror (bag), num_pending, what the controller wrote, the
\* FlowTableModification events (their added / removed entries as bags, and how many events), exceptions that
\* escaped or were swallowed, the switch's table, what the switch wrote.
ZeroBag == [o \in Objs |-> 0]
Obs(wr, addedBag, removedBag, nev, exc, rep) ==
  [mir |-> IF conn' \in {"gone", "orphan"} THEN ZeroBag ELSE BagOf(mirror'), npend |-> Len(pending'), wr |-> wr,
   added |-> addedBag, removed |-> removedBag, nev |-> nev, exc |-> exc, sw |-> Ind(swtab'), rep |-> rep]
Quiet == Obs(<<>>, ZeroBag, ZeroBag, 0, <<>>, <<>>)
Log(a, args, exp) ==
  /\ last' = [a |-> a, args |-> args, exp |-> exp]
  /\ hist' = Append(hist, [a |-> a, args |-> args, exp |-> exp])
Rep(m) == [t |-> m.t, b |-> m.b, fl |-> Ind(m.fl)]

\* ---- _sync_pending (not clear): transmit what is not yet under a barrier (or timed out), then a barrier
TimedOut(op) == "Resend" \in Dev /\ op \in DOMAIN op2bar /\ op2bar[op].age > TimeOut
Todo(pend) == SelectSeq(pend, LAMBDA op : op \notin DOMAIN op2bar \/ TimedOut(op))
Track(o2b, todo, b) == [op \in (DOMAIN o2b) \cup SetOf(todo) |->
                          IF op \in SetOf(todo) THEN [b |-> b, age |-> 0] ELSE o2b[op]]

\* an operation is issued: pend2 is the list after _mod's filtering and append
Issue(a, o, pend2, w2) ==
  /\ budget.ops < MaxOps
  /\ budget' = [budget EXCEPT !.ops = @ + 1]
  /\ want' = w2
  /\ pending' = pend2
  /\ UNCHANGED <<conn, mirror, swtab, s2c>>
  /\ IF conn = "up"
     THEN LET todo == Todo(pend2)
              b == FreshB(InFlightB)
              wr == [i \in DOMAIN todo |-> FlowMod(todo[i])] \o <<Barrier(b)>> IN
          /\ c2s' = c2s \o wr
          /\ bar2ops' = [x \in (DOMAIN bar2ops) \cup {b} |-> IF x = b THEN todo ELSE bar2ops[x]]
          /\ op2bar' = Track(op2bar, todo, b)
          /\ Log(a, [o |-> o], Obs(wr, ZeroBag, ZeroBag, 0, <<>>, <<>>))
     ELSE /\ UNCHANGED <<c2s, bar2ops, op2bar>>
          /\ Log(a, [o |-> o], Quiet)

\* the application does not re-issue an operation that is still outstanding (unless "Conflate")
Outstanding(op) == \/ \E i \in DOMAIN pending : pending[i] = op
                   \/ op \in DOMAIN op2bar
                   \/ \E b \in DOMAIN bar2ops : \E i \in DOMAIN bar2ops[b] : bar2ops[b][i] = op
MayIssue(c, o) == conn \in {"up", "down"} /\ ("Conflate" \in Dev \/ ~Outstanding(Op(c, o)))

Install(o) ==
  /\ MayIssue("add", o)
  /\ Issue("Install", o, Append(pending, Op("add", o)), WAdd(want, o))

RemoveStrict(o) ==
  /\ MayIssue("dels", o)
  \* a pending ADD of this very object is withdrawn
  /\ Issue("RemoveStrict", o, Append(SelectSeq(pending, LAMBDA op : op # Op("add", o)), Op("dels", o)),
           WDel(want, "dels", o))

RemoveWildOK(o) ==
  /\ Issue("RemoveWild", o,
           Append(SelectSeq(pending, LAMBDA op : ~(op.c = "add" /\ Covers(o, op.o))), Op("del", o)),
           WDel(want, "del", o))
\* DEVIATION WildRemoveCrash: TableEntry has no matches_with_wildcards(); the comparison is reached as soon as
\* the pending list holds an ADD; nothing is queued, the exception reaches the caller
RemoveWildCrash(o) ==
  /\ budget.ops < MaxOps
  /\ budget' = [budget EXCEPT !.ops = @ + 1]
  /\ UNCHANGED <<conn, pending, bar2ops, op2bar, mirror, swtab, c2s, s2c, want>>
  /\ Log("RemoveWild", [o |-> o], Obs(<<>>, ZeroBag, ZeroBag, 0, <<"AttributeError">>, <<>>))
RemoveWild(o) ==
  /\ MayIssue("del", o)
  /\ IF "WildRemoveCrash" \in Dev /\ \E i \in DOMAIN pending : pending[i].c = "add"
     THEN RemoveWildCrash(o) ELSE RemoveWildOK(o)

\* ---- the switch reads one message
SwRx ==
  /\ conn = "up" /\ c2s # <<>>
  /\ LET m == Head(c2s) IN
     /\ c2s' = Tail(c2s)
     /\ UNCHANGED <<conn, pending, bar2ops, op2bar, mirror, want, budget>>
     /\ IF m.t = "bar"
        THEN /\ UNCHANGED swtab
             /\ s2c' = Append(s2c, SMsg("brep", m.b, {}, swtab))
             /\ Log("SwRx", [x |-> 0], Obs(<<>>, ZeroBag, ZeroBag, 0, <<>>, <<Rep(SMsg("brep", m.b, {}, {}))>>))
        ELSE IF m.t = "fm" /\ m.c = "add"
        THEN /\ swtab' = WAdd(swtab, m.o)          \* OFPFC_ADD replaces an identical entry, silently
             /\ UNCHANGED s2c
             /\ Log("SwRx", [x |-> 0], Quiet)
        ELSE LET gone == IF m.t = "clr" THEN swtab ELSE {x \in swtab : Hit(m.c, m.o, x)} IN
             /\ swtab' = swtab \ gone
             \* every entry carries OFPFF_SEND_FLOW_REM: one FLOW_REMOVED per deleted entry (taken as one batch)
             /\ s2c' = IF gone = {} THEN s2c ELSE Append(s2c, SMsg("frem", 0, gone, {}))
             /\ Log("SwRx", [x |-> 0],
                    Obs(<<>>, ZeroBag, ZeroBag, 0, <<>>, IF gone = {} THEN <<>> ELSE <<Rep(SMsg("frem", 0, gone, {}))>>))

\* ---- the controller reads one message (a FLOW_REMOVED batch counts as one)
CtlRx ==
  /\ conn = "up" /\ s2c # <<>>
  /\ LET m == Head(s2c) IN
     /\ s2c' = Tail(s2c)
     /\ UNCHANGED <<conn, swtab, c2s, want, budget>>
     /\ IF m.t = "brep"
        THEN IF m.b \in DOMAIN bar2ops
             THEN LET ops == bar2ops[m.b]
                      st == ApplyOps(ops, [m |-> mirror, added |-> <<>>, removed |-> <<>>]) IN
                  /\ mirror' = st.m
                  /\ pending' = RemoveEach(pending, ops)
                  /\ op2bar' = [op \in (DOMAIN op2bar) \ SetOf(ops) |-> op2bar[op]]
                  /\ bar2ops' = [x \in (DOMAIN bar2ops) \ {m.b} |-> bar2ops[x]]
                  /\ Log("CtlRx", [x |-> 0], Obs(<<>>, BagOf(st.added), BagOf(st.removed), 1, <<>>, <<>>))
             ELSE /\ UNCHANGED <<mirror, pending, op2bar, bar2ops>>
                  /\ Log("CtlRx", [x |-> 0], Quiet)
        ELSE LET m2 == DropFlows(mirror, m.fl)
                 hits == {o \in m.fl : \E i \in DOMAIN mirror : Key(mirror[i]) = Key(o)} IN
             /\ mirror' = m2
             /\ UNCHANGED <<pending, op2bar, bar2ops>>
             /\ Log("CtlRx", [x |-> 0],
                    Obs(<<>>, ZeroBag, [o \in Objs |-> BagOf(mirror)[o] - BagOf(m2)[o]], Cardinality(hits),
                        IF "FlowRemProxyErr" \in Dev THEN [i \in 1..Cardinality(m.fl) |-> "FlowRemoved:AttributeError"]
                        ELSE <<>>, <<>>))

\* ---- time
Tick(d) ==
  /\ budget.ticks < MaxTicks
  /\ budget' = [budget EXCEPT !.ticks = @ + 1]
  \* the age of a transmission only matters to the retransmission ("Resend"); it saturates above TimeOut
  /\ op2bar' = [op \in DOMAIN op2bar |->
                  [op2bar[op] EXCEPT !.age = IF "Resend" \notin Dev THEN 0
                                             ELSE IF @ + d > TimeOut THEN TimeOut + 1 ELSE @ + d]]
  /\ UNCHANGED <<conn, pending, bar2ops, mirror, swtab, c2s, s2c, want>>
  /\ Log("Tick", [d |-> d], Quiet)

\* ---- the connection is lost: whatever is in flight is gone; _handle_SwitchConnectionDown
Down ==
  /\ conn = "up" /\ budget.downs < MaxDowns
  /\ budget' = [budget EXCEPT !.downs = @ + 1]
  /\ conn' = "down" /\ c2s' = <<>> /\ s2c' = <<>>
  /\ bar2ops' = EmptyF /\ op2bar' = EmptyF
  /\ UNCHANGED <<pending, mirror, swtab, want>>
  /\ Log("Down", [x |-> 0], Quiet)

\* ---- the switch connects again: handshake, then _sync_pending(clear = True):
\* delete everything, barrier, ADD every installed entry, every pending operation, barrier
Up ==
  /\ conn = "down"
  /\ conn' = "up"
  /\ swtab' = IF NexusClears THEN {} ELSE swtab      \* FLOW_REMOVED of the handshake's own delete are not events
  /\ LET pend2 == IF "DropDelOnReconnect" \in Dev THEN SelectSeq(pending, LAMBDA op : op.c = "add") ELSE pending
         todo == [i \in DOMAIN mirror |-> Op("add", mirror[i])] \o pend2
         wr == <<ClearAll, Barrier(1)>> \o [i \in DOMAIN todo |-> FlowMod(todo[i])] \o <<Barrier(2)>> IN
     /\ pending' = pend2
     /\ c2s' = wr /\ s2c' = <<>>
     /\ bar2ops' = [x \in {2} |-> todo]
     /\ op2bar' = Track(EmptyF, todo, 2)
     /\ UNCHANGED <<mirror, want, budget>>
     /\ Log("Up", [x |-> 0], Obs(wr, ZeroBag, ZeroBag, 0, <<>>, <<>>))

\* ---- RECONNECT_TIMEOUT passes: the OpenFlowSwitch entity leaves the topology, its mirror with it; a switch
\* that connects afterwards is a new entity with an empty mirror
Expire ==
  /\ conn = "down" /\ budget.exps < MaxExpires
  /\ budget' = [budget EXCEPT !.exps = @ + 1]
  /\ conn' = "gone"
  /\ pending' = <<>> /\ mirror' = <<>> /\ want' = {}
  /\ UNCHANGED <<bar2ops, op2bar, swtab, c2s, s2c>>
  /\ Log("Expire", [x |-> 0], Quiet)
JoinOK ==
  /\ conn' = "up"
  /\ LET wr == <<ClearAll, Barrier(1), Barrier(2)>> IN
     /\ c2s' = wr /\ s2c' = <<>>
     /\ bar2ops' = [x \in {2} |-> <<>>]
     /\ UNCHANGED <<pending, mirror, op2bar, want, budget>>
     /\ Log("Join", [x |-> 0], Obs(wr, ZeroBag, ZeroBag, 0, <<>>, <<>>))
\* DEVIATION RejoinFails: entity ids are never given back (Entity._all_ids); the ConnectionUp handler of
\* OpenFlowTopology raises, the connected switch stays without entity and without mirror ("orphan")
JoinFails ==
  /\ conn' = "orphan"
  /\ UNCHANGED <<pending, mirror, bar2ops, op2bar, c2s, s2c, want, budget>>
  /\ Log("Join", [x |-> 0], Obs(<<>>, ZeroBag, ZeroBag, 0, <<"ConnectionUp:Exception">>, <<>>))
Join ==
  /\ conn = "gone"
  /\ swtab' = IF NexusClears THEN {} ELSE swtab
  /\ IF "RejoinFails" \in Dev THEN JoinFails ELSE JoinOK

IssueAny == \E o \in Objs : Install(o) \/ RemoveStrict(o) \/ RemoveWild(o)
TickAny == \E d \in {1, TimeOut + 1} : Tick(d)
Next == IssueAny \/ SwRx \/ CtlRx \/ TickAny \/ Down \/ Up \/ Expire \/ Join
Spec == Init /\ [][Next]_vars
\* the same steps with guards that only balance TLC's random simulation (every NextS step is a Next step):
\* keep the channel busy but short, let time pass only while something is unconfirmed, forget the entity only
\* after the last connection loss
NextS == \/ (Len(c2s) + Len(s2c) < 5 /\ IssueAny)
         \/ SwRx \/ CtlRx
         \/ (DOMAIN op2bar # {} /\ TickAny)
         \/ Down \/ Up \/ Join
         \/ (budget.downs >= MaxDowns /\ Expire)

Bounds == Len(pending) <= MaxPend /\ Len(c2s) <= MaxC2S /\ Len(s2c) <= MaxS2C

----------------------------------------------------------------------------
(* Properties, over the real variables.                                      *)

TypeOK ==
  /\ conn \in {"up", "down", "gone", "orphan"}
  /\ \A i \in DOMAIN pending : pending[i] \in Ops
  /\ \A i \in DOMAIN mirror : mirror[i] \in Objs
  /\ swtab \subseteq Objs /\ want \subseteq Objs
  /\ DOMAIN op2bar \subseteq Ops
  /\ \A b \in DOMAIN bar2ops : \A i \in DOMAIN bar2ops[b] : bar2ops[b][i] \in Ops
  \* the switch never holds two entries with one (match, priority)
  /\ \A x, y \in swtab : Key(x) = Key(y) => x = y

\* "this step is the controller reading the head of s2c" / "... and it is the reply to one of the mirror's barriers",
\* stated on the real variables (no other action takes the head off s2c and leaves the connection up)
CtlRxStep == conn = "up" /\ conn' = "up" /\ s2c # <<>> /\ s2c' = Tail(s2c)
TrackedBarrierReply == CtlRxStep /\ Head(s2c).t = "brep" /\ Head(s2c).b \in DOMAIN bar2ops

\* (1) when the reply to one of the mirror's barriers has been processed, the installed entries are what the
\*     switch's table was when it answered that barrier - entry for entry, none twice
SyncAtBarrier ==
  [][TrackedBarrierReply => (BagOf(mirror') = Ind(Head(s2c).snap))]_vars
\* the same on (match, priority) only: what survives in the code as it is
SyncAtBarrierKeys ==
  [][TrackedBarrierReply => ({Key(x) : x \in SetOf(mirror')} = {Key(x) : x \in Head(s2c).snap})]_vars

\* (2) an entry becomes installed only by the reply to a barrier that followed an ADD flow-mod for it
InstalledOnlyAfterBarrier ==
  [][\A o \in Objs : BagOf(mirror')[o] > BagOf(mirror)[o] =>
        /\ TrackedBarrierReply
        /\ \E i \in DOMAIN bar2ops[Head(s2c).b] : bar2ops[Head(s2c).b][i] = Op("add", o)]_vars
\* ... and an entry leaves the mirror only by a removal confirmed by its barrier, by a FLOW_REMOVED of the switch
\* for its (match, priority), (by being replaced,) or with the whole entity
RemovedOnlyWhenConfirmed ==
  [][\A o \in Objs : BagOf(mirror')[o] < BagOf(mirror)[o] =>
        \/ conn = "down" /\ conn' = "gone"
        \/ /\ CtlRxStep
           /\ \/ Head(s2c).t = "frem" /\ \E x \in Head(s2c).fl : Key(x) = Key(o)
              \/ TrackedBarrierReply /\ \E i \in DOMAIN bar2ops[Head(s2c).b] :
                   LET op == bar2ops[Head(s2c).b][i] IN
                   IF op.c = "add" THEN Key(op.o) = Key(o) ELSE Hit(op.c, op.o, o)]_vars

\* (3) nothing is lost: while connected, every pending operation travels in front of a barrier that is still
\*     in flight, and that barrier will apply it
PendingCovered ==
  conn = "up" =>
    \A i \in DOMAIN pending :
      LET op == pending[i] IN
      /\ op \in DOMAIN op2bar
      /\ op2bar[op].b \in DOMAIN bar2ops
      /\ \E j \in DOMAIN bar2ops[op2bar[op].b] : bar2ops[op2bar[op].b][j] = op
      /\ op2bar[op].b \in InFlightB
\* every tracked barrier is in flight (its reply will come or the connection goes down)
BarriersInFlight == conn = "up" => DOMAIN bar2ops \subseteq InFlightB

\* (4) nothing is lost, nothing applied twice, nothing out of order - end to end: when the channel has drained,
\*     mirror = switch = what the application asked for, and nothing is left pending
Drained == conn = "up" /\ c2s = <<>> /\ s2c = <<>>
DrainedAgree ==
  Drained => /\ pending = <<>>
             /\ BagOf(mirror) = Ind(swtab)
             /\ swtab = want
\* the part of it that survives in the code as it is: mirror and switch agree on (match, priority)
DrainedAgreeKeys ==
  (Drained /\ pending = <<>>) => {Key(x) : x \in SetOf(mirror)} = {Key(x) : x \in swtab}

\* (5) a disconnected mirror does not write; a write always ends with a barrier
WritesEndWithBarrier ==
  [][(c2s' # c2s /\ ~(c2s # <<>> /\ c2s' = Tail(c2s)) /\ c2s' # <<>>) =>
        (conn' = "up" /\ c2s'[Len(c2s')].t = "bar")]_vars

\* (6) no operation and no message makes the controller raise; a connected switch always has its entity
NoExceptions == [][("exc" \in DOMAIN last'.exp) => last'.exp.exc = <<>>]_vars
NoOrphan == conn # "orphan"

\* ---- reachability witnesses (vacuity guard): TLC must REFUTE these
WitnessSync == ~(conn = "up" /\ s2c # <<>> /\ Head(s2c).t = "brep" /\ Head(s2c).b \in DOMAIN bar2ops
                 /\ Head(s2c).snap # {} /\ mirror # <<>> /\ budget.downs > 0)
WitnessDrained == ~(Drained /\ pending = <<>> /\ want # {} /\ mirror # <<>> /\ budget.downs > 0 /\ budget.ops > 2)

\* ---- export for the replay harness
Bound   == Len(hist) <= D
Export  == (Len(hist) = D) => PrintT(<<"H", ToJson(hist)>>)
\* simulation: also behaviours that end before depth D because every budget is used up
ExportS == (Len(hist) = D \/ (Len(hist) >= 8 /\ ~ENABLED Next)) => PrintT(<<"H", ToJson(hist)>>)
ExportT == PrintT(<<"T", ToJson(hist')>>)
=============================================================================
