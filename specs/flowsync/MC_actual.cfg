CONSTANTS K = 2
  MatchOf <- MCMatch
  PrioOf <- MCPrio
  Dev <- Actual
  NexusClears = TRUE
  TimeOut = 2
  MaxOps = 2
  MaxDowns = 1
  MaxTicks = 1
  MaxExpires = 1
  MaxPend = 3
  MaxC2S = 8
  MaxS2C = 4
  D = 0
INIT Init
NEXT Next
VIEW viewE
CONSTRAINT Bounds
CHECK_DEADLOCK FALSE
INVARIANT TypeOK
INVARIANT BarriersInFlight
PROPERTY InstalledOnlyAfterBarrier
PROPERTY RemovedOnlyWhenConfirmed
PROPERTY WritesEndWithBarrier
