CONSTANTS NS = 3
  NP = 3
  LinkPeer <- Link3
  Hosts <- H3
  InitAt <- At3_3
  MovePorts <- Mv3s
  Dsts <- DSome
  Shapes <- ShA
  Gaps <- G1
  Sweeps <- BT
  Caches <- BT
  DropInPort = TRUE
  DeleteOnMove = TRUE
  IdleTO = 10
  HardTO = 30
  DropTO = 10
  D = 2
INIT Init
NEXT NextC
CHECK_DEADLOCK FALSE
VIEW viewN
CONSTRAINT Bound
INVARIANT TypeOK
INVARIANT NoLeak
INVARIANT CtlTrue
INVARIANT UniqueHit
INVARIANT CacheSound
PROPERTY Conforms
