CONSTANTS NS = 1
  NP = 3
  LinkPeer <- NoLinks
  Hosts <- H2
  InitAt <- At1_same
  MovePorts <- Mv1
  Dsts <- DTwo
  Shapes <- ShA
  Gaps <- G1
  Sweeps <- BT
  Caches <- BT
  DropInPort = FALSE
  DeleteOnMove = TRUE
  IdleTO = 10
  HardTO = 30
  DropTO = 10
  D = 5
INIT Init
NEXT Next
CHECK_DEADLOCK FALSE
VIEW viewN
CONSTRAINT Bound
INVARIANT TypeOK
INVARIANT NoLeak
INVARIANT UniqueHit
INVARIANT CacheSound
PROPERTY Conforms
PROPERTY NeverBack
PROPERTY FilteredStay
PROPERTY FloodAll
PROPERTY FreshDecision
