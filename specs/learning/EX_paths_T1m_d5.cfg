CONSTANTS NS = 1
  NP = 3
  LinkPeer <- NoLinks
  Hosts <- H2
  InitAt <- At1_2
  MovePorts <- Mv13
  Dsts <- DPair
  Shapes <- ShA
  Gaps <- GNone
  Sweeps <- BT
  Caches <- BT
  DropInPort = TRUE
  DeleteOnMove = TRUE
  IdleTO = 10
  HardTO = 30
  DropTO = 10
  D = 5
INIT Init
NEXT Next
CHECK_DEADLOCK FALSE
CONSTRAINT Bound
CONSTRAINT Narrow
INVARIANT Export
