CONSTANTS NS = 2
  NP = 3
  LinkPeer <- Link2
  Hosts <- H3
  InitAt <- At2_3
  MovePorts <- Mv2s
  Dsts <- DTwo
  Shapes <- ShA
  Gaps <- G1
  Sweeps <- BT
  Caches <- BT
  DropInPort = TRUE
  DeleteOnMove = TRUE
  IdleTO = 10
  HardTO = 30
  DropTO = 10
  D = 4
INIT Init
NEXT Next
CHECK_DEADLOCK FALSE
CONSTRAINT Bound
INVARIANT Export
