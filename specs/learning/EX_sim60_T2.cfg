CONSTANTS NS = 2
  NP = 3
  LinkPeer <- Link2
  Hosts <- H4
  InitAt <- At2_4
  MovePorts <- Mv2
  Dsts <- DAll2
  Shapes <- ShABL
  Gaps <- G3
  Sweeps <- BB
  Caches <- BT
  DropInPort = TRUE
  DeleteOnMove = TRUE
  IdleTO = 10
  HardTO = 30
  DropTO = 10
  D = 60
INIT Init
NEXT Next
CHECK_DEADLOCK FALSE
INVARIANT Export
INVARIANT TypeOK
INVARIANT NoLeak
INVARIANT CtlTrue
INVARIANT UniqueHit
INVARIANT CacheSound
PROPERTY Conforms
