CONSTANTS NS = 1
  NP = 3
  LinkPeer <- NoLinks
  Hosts <- H2
  InitAt <- At1_2
  MovePorts <- Mv1
  Dsts <- DRe
  Shapes <- ShAL
  Frames <- ReFrames
  Gaps <- GNone
  Sweeps <- BT
  Caches <- BT
  DropInPort = TRUE
  DeleteOnMove = TRUE
  IdleTO = 10
  HardTO = 30
  DropTO = 10
  D = 6
  MvDepth <- Five
INIT Init
NEXT NextCR
CHECK_DEADLOCK FALSE
CONSTRAINT Bound
CONSTRAINT OnlyH1Moves
VIEW viewN
INVARIANT TypeOK
INVARIANT NoLeak
INVARIANT CtlTrue
INVARIANT UniqueHit
INVARIANT CacheSound
PROPERTY Conforms
