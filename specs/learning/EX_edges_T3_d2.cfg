CONSTANTS NS = 3
  NP = 3
  LinkPeer <- Link3
  Hosts <- H5
  InitAt <- At3_5
  MovePorts <- Mv3
  Dsts <- DAll3
  Shapes <- ShAL
  Gaps <- G1
  Sweeps <- BT
  Caches <- BT
  DropInPort = TRUE
  DeleteOnMove = TRUE
  IdleTO = 10
  HardTO = 30
  DropTO = 10
  D = 2
INIT Init
NEXT Next
CHECK_DEADLOCK FALSE
VIEW viewE
CONSTRAINT Bound
ACTION_CONSTRAINT ExportT
