CONSTANTS NS = 1
  NP = 3
  LinkPeer <- NoLinks
  Hosts <- H2
  InitAt <- At1_same
  MovePorts <- Mv1
  Dsts <- DTwoF
  Shapes <- ShAL
  Gaps <- G1
  Sweeps <- BT
  Caches <- BT
  DropInPort = TRUE
  DeleteOnMove = TRUE
  IdleTO = 10
  HardTO = 30
  DropTO = 10
  D = 4
INIT Init
NEXT Next
CHECK_DEADLOCK FALSE
CONSTRAINT Bound
INVARIANT Export
