---------------------------- MODULE LearningNet ----------------------------
(* C11: a network of OpenFlow switches driven by the L2 learning component   *)
(* must forward like an ideal learning bridge.                               *)
(*                                                                           *)
(* The module has two layers over ONE set of variables.                      *)
(*                                                                           *)
(* 1. The PROPERTY layer (HopOK / Apply / SendObs / TickObs): what any       *)
(*    implementation may do.  A frame travelling through the network is a    *)
(*    set of HOPS (one per switch it reaches).  A hop is an OBSERVATION:      *)
(*    whether the switch asked the controller (pktin), the ports the frame   *)
(*    left through (out), duplicates, modification, the flows the controller *)
(*    installed (inst), the switch's flow table afterwards (tbl) and its     *)
(*    buffer occupancy (buf).  HopOK says which observations an ideal        *)
(*    learning bridge with a flow cache allows - it is the property          *)
(*    statement, clause by clause, nothing more:                             *)
(*      C1  never out of the ingress port, never twice, frame unmodified     *)
(*      C2  LLDP / bridge-filtered frames are not forwarded                  *)
(*      C3  unknown, broadcast, multicast destination -> every other port    *)
(*      C4a known destination -> only ports where that address was seen      *)
(*      C4b ... and exactly the most recent one whenever the controller      *)
(*          decided (packet-in) or no OLDER cached flow covers the traffic   *)
(*      C5  no buffer is left occupied                                       *)
(*    "Seen" = seen IN THE NETWORK: every arrival of a frame at a port of    *)
(*    the switch is a sighting of its source address on that port, whether   *)
(*    the controller or a cached flow handles the frame (the frame in hand   *)
(*    counts before it is forwarded, as in an ideal bridge).  A cached flow  *)
(*    is OLDER once its destination address has appeared on another port     *)
(*    than the one it was on when the flow was installed, i.e. the flow was  *)
(*    installed before the sighting that made the most recent port the most  *)
(*    recent one.  What the CONTROLLER knows (ctl) is design-layer state: a  *)
(*    cached flow that hides a host's move from the controller makes later   *)
(*    controller decisions violate C4b.                                      *)
(*    The cache itself is free: which flows are installed, how broad they    *)
(*    are and when they disappear is NOT constrained (Apply just follows     *)
(*    inst / tbl).  Timeouts appear nowhere in this layer.                   *)
(*                                                                           *)
(* 2. The DESIGN layer (DesignHop / Send / Tick): the intended design of     *)
(*    pox.forwarding.l2_learning on an OpenFlow 1.0 switch - packet-in on a  *)
(*    table miss, learn, drop / flood / install exact-match flow (idle 10,   *)
(*    hard 30) and forward, 10 s drop flow when the destination lives on the *)
(*    ingress port, the flows of a source that shows up on a new port are    *)
(*    deleted, every buffer released.  It is a closed deterministic          *)
(*    model; TLC checks on all its histories that every hop it produces      *)
(*    satisfies HopOK (action property Conforms) - i.e. that this design IS  *)
(*    an ideal learning bridge - and exports its behaviours as test inputs.  *)
(*                                                                           *)
(* Conformance of the real code (TraceLearningNet.tla): the inputs of the    *)
(* exported behaviours are run on real l2_learning + of_01 + SoftwareSwitch  *)
(* over bytes; the recorded hops are fed to SendObs / TickObs, so an         *)
(* execution is accepted iff every hop satisfies HopOK in the state built    *)
(* from the observed history.  The verdict therefore depends on the property *)
(* layer only; the design layer decides which histories get exercised.       *)
EXTENDS Naturals, Sequences, FiniteSets, TLC, Json

CONSTANTS NS,        \* switches 1..NS
          NP,        \* ports per switch 1..NP
          LinkPeer,  \* [inter-switch link ends <<s,p>> -> <<s2,p2>>], symmetric, loop-free
          Hosts,     \* host ids; host h owns MAC h
          InitAt,    \* [Hosts -> <<s,p>>] initial attachment points
          MovePorts, \* attachment points a host may move to
          Dsts,      \* destinations used by Send (host ids and/or UNK, BCAST, MCAST, FILT)
          Shapes,    \* payload shapes used by Send; "l" = LLDP ethertype
          Gaps,      \* durations of Tick
          Sweeps,    \* subset of BOOLEAN: Tick with / without the switches' expiry sweep
          Caches,    \* subset of BOOLEAN: controller installs a flow on a known destination / does not
          DropInPort,\* BOOLEAN: the drop flow is restricted to the ingress port (design) or not (as built)
          DeleteOnMove,\* BOOLEAN: a packet-in from a known source on a new port deletes that source's flows
          IdleTO, HardTO, DropTO,
          D          \* export depth

Switches == 1..NS
Ports    == 1..NP
UNK   == 90          \* a unicast address that is never a source
BCAST == 91
MCAST == 92          \* multicast, not bridge-filtered
FILT  == 93          \* 01-80-C2-00-00-00 .. 0F
AllShapes == {"a", "b", "l"}
LinkEnds == DOMAIN LinkPeer
Cap == HardTO + 1    \* ages saturate here

VARIABLES at,      \* [Hosts -> <<s,p>>]
          seen,    \* [Switches -> [Hosts -> [ports : SUBSET Ports, last : 0..NP]]] sightings in the network
          ctl,     \* [Switches -> [Hosts -> 0..NP]] what the controller learned (packet-in sources)
          flows,   \* [Switches -> set of cached flows]
          bufs,    \* [Switches -> occupied packet buffers at quiescence]
          opt,     \* launch options of the learning component + time since the switches connected:
                   \* [hold, transp, up]  (up saturates at hold)
          last,    \* observation of the last action
          hist     \* all observations (export only)
svars == <<at, seen, ctl, flows, bufs, opt>>
vars  == <<svars, last, hist>>
view  == <<svars, last>>
viewE == svars
viewN == <<svars, Len(hist)>>   \* all histories up to a length: one layer per length

\* a cached flow: pattern (0 = any) + what the design needs to run it
\*   [inp, src, dst, shs, out, ito, hto, age, idle, stale]
Pat(fl) == [inp |-> fl.inp, src |-> fl.src, dst |-> fl.dst, shs |-> fl.shs]
Pats(F) == {Pat(fl) : fl \in F}
Covers(fl, i, f) == /\ fl.inp \in {0, i} /\ fl.src \in {0, f.src}
                    /\ fl.dst \in {0, f.dst} /\ f.sh \in fl.shs

Frame(src, dst, sh) == [src |-> src, dst |-> dst, sh |-> sh]
\* LAUNCH OPTIONS of the component (Round 8).  `transparent`: the bridge forwards link-local traffic too, i.e.
\* clause C2 does not apply - an LLDP-typed frame is handled by its destination like any other, a
\* bridge-filtered destination is the multicast address it is.  `hold_down` = N: for the first N seconds after a
\* switch connected the controller does not flood (clause C3 becomes C3h: a flood-class frame decided by the
\* controller is delivered NOWHERE while up < N; it still is a sighting, and its buffer is still released - C5).
\* The option sets a configuration explores (Init: opt \in Opts; overridable).
Opts == {[hold |-> 0, transp |-> FALSE, up |-> 0]}
Filtered(f) == ~opt.transp /\ (f.sh = "l" \/ f.dst = FILT)
Group(f)    == f.dst \in {BCAST, MCAST, FILT}     \* (FILT gets here only when not Filtered)
Held        == opt.up < opt.hold

Learn(sn, m, i) == [sn EXCEPT ![m] = [ports |-> @.ports \cup {i}, last |-> i]]
\* m appearing on another port makes every cached flow towards m an OLDER flow
Outdate(F, m) == {[fl EXCEPT !.stale = @ \/ fl.dst \in {0, m}] : fl \in F}

----------------------------------------------------------------------------
(* PROPERTY layer                                                            *)

\* the frame in hand is a sighting of its source on the ingress port
SeenAt(s, i, f)  == Learn(seen[s], f.src, i)
FlowsAt(s, i, f) == IF seen[s][f.src].last # i THEN Outdate(flows[s], f.src) ELSE flows[s]
Known(sn, f) == f.dst \in Hosts /\ sn[f.dst].last # 0

\* the clauses; sn = sightings, known / older as seen by this hop
C1(i, hp)               == i \notin hp.out /\ hp.out \subseteq Ports /\ hp.dup = 0 /\ hp.mod = 0
C2(f, hp)               == Filtered(f) => hp.out = {}
C3(i, f, hp, known)     == (~Filtered(f) /\ (Group(f) \/ ~known)) =>
                             hp.out = (IF Held /\ hp.pktin > 0 THEN {} ELSE Ports \ {i})
C4a(f, hp, sn, known)   == (~Filtered(f) /\ ~Group(f) /\ known) => hp.out \subseteq sn[f.dst].ports
C4b(i, f, hp, sn, known, older) ==
  (~Filtered(f) /\ ~Group(f) /\ known /\ (hp.pktin > 0 \/ ~older)) => hp.out = {sn[f.dst].last} \ {i}
C5(hp)                  == hp.buf = 0

Judge(s, i, f, hp) ==
  LET sn    == SeenAt(s, i, f)
      known == Known(sn, f)
      older == \E fl \in FlowsAt(s, i, f) : Covers(fl, i, f) /\ fl.stale
  IN [c1 |-> C1(i, hp), c2 |-> C2(f, hp), c3 |-> C3(i, f, hp, known),
      c4a |-> C4a(f, hp, sn, known), c4b |-> C4b(i, f, hp, sn, known, older), c5 |-> C5(hp)]
HopOK(s, i, f, hp) ==
  LET j == Judge(s, i, f, hp) IN j.c1 /\ j.c2 /\ j.c3 /\ j.c4a /\ j.c4b /\ j.c5
Failed(s, i, f, hp) ==
  LET j == Judge(s, i, f, hp) IN
  (IF j.c1 THEN <<>> ELSE <<"C1-ingress-dup-modified">>) \o
  (IF j.c2 THEN <<>> ELSE <<"C2-filtered-forwarded">>) \o
  (IF j.c3 THEN <<>> ELSE <<IF Held /\ hp.pktin > 0 THEN "C3h-flood-during-hold-down" ELSE "C3-flood">>) \o
  (IF j.c4a THEN <<>> ELSE <<"C4a-port-never-seen">>) \o
  (IF j.c4b THEN <<>> ELSE <<"C4b-not-most-recent-port">>) \o
  (IF j.c5 THEN <<>> ELSE <<"C5-buffer-leak">>)

\* the ports the clauses demand for this hop ({0} where they leave latitude:
\* an older cached flow may deliver to any ports where the address was seen)
Demanded(s, i, f, hp) ==
  LET sn    == SeenAt(s, i, f)
      known == Known(sn, f)
      older == \E fl \in FlowsAt(s, i, f) : Covers(fl, i, f) /\ fl.stale
  IN IF Filtered(f) THEN {} ELSE IF Group(f) \/ ~known THEN (IF Held /\ hp.pktin > 0 THEN {} ELSE Ports \ {i})
     ELSE IF hp.pktin > 0 \/ ~older THEN {sn[f.dst].last} \ {i} ELSE {0}

\* the hops are exactly the frame's way through the network: it starts where
\* the host is attached, follows every link it was emitted on, visits a
\* switch at most once
Routed(h, hops) ==
  /\ {<<hp.s, hp.i>> : hp \in hops} =
       {at[h]} \cup UNION {{LinkPeer[<<hp.s, q>>] : q \in {r \in hp.out : <<hp.s, r>> \in LinkEnds}}
                             : hp \in hops}
  /\ \A x, y \in hops : x.s = y.s => x = y

\* the cache after a hop: follow what was installed (inst) and what the table
\* holds (tbl); a re-installed pattern is a fresh flow
MkFlow(x) == [inp |-> x.inp, src |-> x.src, dst |-> x.dst, shs |-> x.shs, out |-> x.out,
              ito |-> x.ito, hto |-> x.hto, age |-> 0, idle |-> 0, stale |-> FALSE]
FreshOf(p) == [inp |-> p.inp, src |-> p.src, dst |-> p.dst, shs |-> p.shs, out |-> {},
               ito |-> 0, hto |-> 0, age |-> 0, idle |-> 0, stale |-> FALSE]
FlowsAfter(s, i, f, hp) ==
  LET f1 == FlowsAt(s, i, f)
      f2 == IF hp.pktin = 0
            THEN {IF Covers(fl, i, f) THEN [fl EXCEPT !.idle = 0] ELSE fl : fl \in f1}
            ELSE f1
      new  == {MkFlow(x) : x \in hp.inst}
      keep == {fl \in f2 : Pat(fl) \notin Pats(new)}
      both == {fl \in keep \cup new : Pat(fl) \in hp.tbl}
  IN both \cup {FreshOf(p) : p \in hp.tbl \ Pats(both)}

HopAt(hops, s) == CHOOSE hp \in hops : hp.s = s
Reached(hops) == {hp.s : hp \in hops}

\* a frame from host h, as observed: guard = the property, effect = history
Effect(f, hops) ==
  /\ seen' = [s \in Switches |-> IF s \in Reached(hops)
                THEN SeenAt(s, HopAt(hops, s).i, f) ELSE seen[s]]
  /\ ctl' = [s \in Switches |-> IF s \in Reached(hops) /\ HopAt(hops, s).lrn > 0
                THEN [ctl[s] EXCEPT ![f.src] = HopAt(hops, s).i] ELSE ctl[s]]
  /\ flows' = [s \in Switches |-> IF s \in Reached(hops)
                THEN FlowsAfter(s, HopAt(hops, s).i, f, HopAt(hops, s)) ELSE flows[s]]
  /\ bufs' = [s \in Switches |-> IF s \in Reached(hops) THEN HopAt(hops, s).buf ELSE bufs[s]]
  /\ UNCHANGED <<at, opt>>

SendObs(h, dst, sh, hops) ==
  LET f == Frame(h, dst, sh) IN
  /\ Routed(h, hops)
  /\ \A hp \in hops : HopOK(hp.s, hp.i, f, hp)
  /\ Effect(f, hops)

Older(fl, d) == [fl EXCEPT !.age  = IF @ + d > Cap THEN Cap ELSE @ + d,
                           !.idle = IF @ + d > Cap THEN Cap ELSE @ + d]
\* time passes; afterwards the tables hold tbls (any flow may have gone)
TickObs(d, tbls) ==
  /\ flows' = [s \in Switches |->
        LET aged == {Older(fl, d) : fl \in flows[s]}
            kept == {fl \in aged : Pat(fl) \in tbls[s]}
        IN kept \cup {FreshOf(p) : p \in tbls[s] \ Pats(kept)}]
  /\ opt' = [opt EXCEPT !.up = IF @ + d > opt.hold THEN opt.hold ELSE @ + d]
  /\ UNCHANGED <<at, seen, ctl, bufs>>

----------------------------------------------------------------------------
(* DESIGN layer                                                              *)

Expired(fl) == (fl.ito > 0 /\ fl.idle > fl.ito) \/ (fl.hto > 0 /\ fl.age > fl.hto)

NewFlow(inp, f, out, ito, hto) ==
  [inp |-> inp, src |-> f.src, dst |-> f.dst, shs |-> {f.sh}, out |-> out, ito |-> ito, hto |-> hto]

\* DECISION CLASSES of a packet-in: one per branch of the controller's handler
\* (LLDP ethertype / bridge-filtered destination / group destination / unknown
\* unicast / destination lives on the ingress port / forward).  The class of a
\* frame is decided with the source already learned (a self-addressed frame is
\* "same").
Classes == {"lldp", "filt", "group", "unknown", "same", "fwd"}
ClassOf(f, cn, i) ==
  IF Filtered(f) /\ f.sh = "l" THEN "lldp" ELSE IF Filtered(f) THEN "filt" ELSE IF Group(f) THEN "group"
  ELSE IF ~(f.dst \in Hosts /\ cn[f.dst] # 0) THEN "unknown"
  ELSE IF cn[f.dst] = i THEN "same" ELSE "fwd"
\* DUTIES the controller owes to EVERY packet-in, whatever its class: learn the
\* source; delete the flows of a source that shows up on a new port.  The
\* design performs both on all classes.  A configuration may override these two
\* definitions (cfg: `DeleteOn <- ...`) to obtain a MUTANT design that skips a
\* duty on some class: TLC must then find `Conforms` violated, and the
\* histories on which it is violated (WitnessT below) are inputs that tell the
\* design from that mistake - they are run on the real code like every other
\* exported behaviour (MutLearningNet.tla).
LearnOn  == Classes
DeleteOn == Classes

\* what switch s and the controller do with frame f arriving on port i
DesignHop(s, i, f, cache) ==
  LET hits == {fl \in flows[s] : Covers(fl, i, f)} IN
  IF hits # {}
  THEN \* table hit: the switch forwards by itself (an exact ingress port wins)
       LET ex == {fl \in hits : fl.inp # 0}
           fl == IF ex # {} THEN CHOOSE x \in ex : TRUE ELSE CHOOSE x \in hits : TRUE
       IN [s |-> s, i |-> i, pktin |-> 0, out |-> fl.out \ {i}, dup |-> 0, mod |-> 0,
           inst |-> {}, tbl |-> Pats(flows[s]), buf |-> 0,
           via |-> IF fl.stale THEN "older-flow" ELSE IF fl.out = {} THEN "drop-flow" ELSE "flow",
           lrn |-> 0, mv |-> "none"]
  ELSE \* table miss: packet-in; the controller learns, then decides
       LET cl    == [ctl[s] EXCEPT ![f.src] = i]
           cls   == ClassOf(f, cl, i)
           cn    == IF cls \in LearnOn THEN cl ELSE ctl[s]
           known == f.dst \in Hosts /\ cn[f.dst] # 0
           p     == IF known THEN cn[f.dst] ELSE 0
           moved == ctl[s][f.src] \notin {0, i}
           gone  == IF DeleteOnMove /\ cls \in DeleteOn /\ moved
                    THEN {fl \in flows[s] : fl.src = f.src} ELSE {}
           out   == IF Filtered(f) THEN {}
                    ELSE IF Group(f) \/ ~known THEN (IF Held THEN {} ELSE Ports \ {i})
                    ELSE {p} \ {i}
           inst  == IF Filtered(f) \/ Group(f) \/ ~known \/ ~cache THEN {}
                    ELSE IF p = i
                    THEN {NewFlow(IF DropInPort THEN i ELSE 0, f, {}, DropTO, DropTO)}
                    ELSE {NewFlow(i, f, {p}, IdleTO, HardTO)}
       IN [s |-> s, i |-> i, pktin |-> 1, out |-> out, dup |-> 0, mod |-> 0,
           inst |-> inst, tbl |-> Pats(flows[s] \ gone) \cup Pats(inst), buf |-> 0,
           via |-> IF Filtered(f) THEN "filtered"
                   ELSE IF Group(f) \/ ~known THEN (IF Held THEN "held" ELSE "flood")
                   ELSE IF p = i THEN "same-port" ELSE "forward",
           lrn |-> IF cls \in LearnOn THEN 1 ELSE 0,
           \* the packet-in of a source that has moved, by decision class; "+" when
           \* flows of that source were still cached (and are deleted now)
           mv  |-> IF ~moved THEN "none" ELSE IF gone # {} THEN cls \o "+" ELSE cls]

RECURSIVE Walk(_, _, _, _)
Walk(todo, done, f, cache) ==
  IF todo = {} THEN done
  ELSE LET a   == CHOOSE x \in todo : TRUE
           hp  == DesignHop(a[1], a[2], f, cache)
           nxt == {LinkPeer[<<a[1], q>>] : q \in {r \in hp.out : <<a[1], r>> \in LinkEnds}}
       IN Walk((todo \ {a}) \cup nxt, done \cup {hp}, f, cache)

NoObs == [a |-> "Init", args |-> [x |-> 0], exp |-> [x |-> 0], full |-> {}]
Log(a, args, exp, full) ==
  /\ last' = [a |-> a, args |-> args, exp |-> exp, full |-> full]
  /\ hist' = Append(hist, [a |-> a, args |-> args, exp |-> exp])

Brief(hops) == {[s |-> hp.s, i |-> hp.i, pktin |-> hp.pktin, out |-> hp.out] : hp \in hops}

Init == /\ at = InitAt
        /\ seen = [s \in Switches |-> [m \in Hosts |-> [ports |-> {}, last |-> 0]]]
        /\ ctl = [s \in Switches |-> [m \in Hosts |-> 0]]
        /\ flows = [s \in Switches |-> {}]
        /\ bufs = [s \in Switches |-> 0]
        /\ opt \in Opts
        /\ last = NoObs /\ hist = <<>>

\* the design's hops, applied through the property layer's effect only (the
\* guard is NOT assumed here: Conforms below is what TLC checks)
Send(h, dst, sh, cache) ==
  LET f == Frame(h, dst, sh)
      hops == Walk({at[h]}, {}, f, cache)
  IN /\ Effect(f, hops)
     /\ Log("Send", [h |-> h, dst |-> dst, sh |-> sh], [hops |-> Brief(hops)], hops)

Move(h, sp) ==
  /\ sp # at[h]
  /\ at' = [at EXCEPT ![h] = sp]
  /\ UNCHANGED <<seen, ctl, flows, bufs, opt>>
  /\ Log("Move", [h |-> h, s |-> sp[1], p |-> sp[2]], [x |-> 0], {})

Tick(d, sweep) ==
  LET tbls == [s \in Switches |->
                 Pats({fl \in {Older(x, d) : x \in flows[s]} : ~sweep \/ ~Expired(fl)})]
  IN /\ TickObs(d, tbls)
     /\ Log("Tick", [d |-> d, sweep |-> sweep], [tbls |-> tbls], {})

\* the frames Send ranges over: every destination in every shape (a configuration may override this
\* definition by a subset of Dsts \X Shapes)
Frames == Dsts \X Shapes
SendAny == \E h \in Hosts, fr \in Frames, c \in Caches : Send(h, fr[1], fr[2], c)
MoveAny == \E h \in Hosts, sp \in MovePorts : Move(h, sp)
TickAny == \E d \in Gaps, sw \in Sweeps : Tick(d, sw)
Next == SendAny \/ MoveAny \/ TickAny

\* the same relation, split by what happened (names for TLC's coverage report:
\* a case that no transition exercises makes the model run vacuous)
HasVia(k) == \E hp \in last'.full : hp.via = k
ViaFiltered  == \E h \in Hosts, fr \in Frames, c \in Caches : Send(h, fr[1], fr[2], c) /\ HasVia("filtered")
ViaFlood     == \E h \in Hosts, fr \in Frames, c \in Caches : Send(h, fr[1], fr[2], c) /\ HasVia("flood")
ViaForward   == \E h \in Hosts, fr \in Frames, c \in Caches : Send(h, fr[1], fr[2], c) /\ HasVia("forward")
ViaSamePort  == \E h \in Hosts, fr \in Frames, c \in Caches : Send(h, fr[1], fr[2], c) /\ HasVia("same-port")
ViaFlow      == \E h \in Hosts, fr \in Frames, c \in Caches : Send(h, fr[1], fr[2], c) /\ HasVia("flow")
ViaDropFlow  == \E h \in Hosts, fr \in Frames, c \in Caches : Send(h, fr[1], fr[2], c) /\ HasVia("drop-flow")
ViaOlderFlow == \E h \in Hosts, fr \in Frames, c \in Caches : Send(h, fr[1], fr[2], c) /\ HasVia("older-flow")
\* Round 8: the option dimension - a flood held down; a link-local frame (LLDP ethertype / bridge-filtered
\* destination) forwarded by a transparent bridge, by flooding and by a unicast decision; a known unicast
\* forwarded during the hold-down; the hold-down running out
OptDepth == 2
LinkLocal(fr) == fr[2] = "l" \/ fr[1] = FILT
ViaHeld      == Len(hist) < OptDepth /\ \E h \in Hosts, fr \in Frames, c \in Caches : Send(h, fr[1], fr[2], c) /\ HasVia("held")
HeldForward  == Len(hist) < OptDepth /\ \E h \in Hosts, fr \in Frames, c \in Caches : Send(h, fr[1], fr[2], c) /\ Held /\ HasVia("forward")
TranspFlood  == Len(hist) < OptDepth /\ \E h \in Hosts, fr \in Frames, c \in Caches :
                 Send(h, fr[1], fr[2], c) /\ opt.transp /\ LinkLocal(fr) /\ HasVia("flood")
TranspUni    == Len(hist) < OptDepth /\ \E h \in Hosts, fr \in Frames, c \in Caches :
                 Send(h, fr[1], fr[2], c) /\ opt.transp /\ LinkLocal(fr) /\ (HasVia("forward") \/ HasVia("flow"))
HoldExpires  == Len(hist) < OptDepth /\ \E d \in Gaps, sw \in Sweeps : Tick(d, sw) /\ Held /\ opt'.up >= opt'.hold
HoldGoesOn   == Len(hist) < OptDepth /\ \E d \in Gaps, sw \in Sweeps : Tick(d, sw) /\ opt'.up < opt'.hold
\* (the cases are counted on the first OptDepth steps: each costs one more pass over the Sends, all are reachable
\* within two steps)
NextCO == Next \/ ViaHeld \/ HeldForward \/ TranspFlood \/ TranspUni \/ HoldExpires \/ HoldGoesOn
ViaLink      == \E h \in Hosts, fr \in Frames, c \in Caches :
                 Send(h, fr[1], fr[2], c) /\ Cardinality(last'.full) > 1
TickExpires  == \E d \in Gaps, sw \in Sweeps : Tick(d, sw) /\ flows' # flows /\ \E s \in Switches : Cardinality(flows'[s]) < Cardinality(flows[s])
TickKeeps    == \E d \in Gaps, sw \in Sweeps : Tick(d, sw) /\ \A s \in Switches : Cardinality(flows'[s]) = Cardinality(flows[s])
\* a source that has moved announces itself by a frame of each decision class
\* while flows of its traffic at the old port are still cached
HasMv(k) == \E hp \in last'.full : hp.mv = k
\* (these cases are counted on the steps below MvDepth: a configuration may lower it so that the split costs
\* its extra passes over the Sends on the short histories only; 4 steps are needed to get there)
MvDepth == 1000
MvLldp    == Len(hist) < MvDepth /\ \E h \in Hosts, fr \in Frames, c \in Caches : Send(h, fr[1], fr[2], c) /\ HasMv("lldp+")
MvFilt    == Len(hist) < MvDepth /\ \E h \in Hosts, fr \in Frames, c \in Caches : Send(h, fr[1], fr[2], c) /\ HasMv("filt+")
MvGroup   == Len(hist) < MvDepth /\ \E h \in Hosts, fr \in Frames, c \in Caches : Send(h, fr[1], fr[2], c) /\ HasMv("group+")
MvUnknown == Len(hist) < MvDepth /\ \E h \in Hosts, fr \in Frames, c \in Caches : Send(h, fr[1], fr[2], c) /\ HasMv("unknown+")
MvSame    == Len(hist) < MvDepth /\ \E h \in Hosts, fr \in Frames, c \in Caches : Send(h, fr[1], fr[2], c) /\ HasMv("same+")
MvFwd     == Len(hist) < MvDepth /\ \E h \in Hosts, fr \in Frames, c \in Caches : Send(h, fr[1], fr[2], c) /\ HasMv("fwd+")
NextC == ViaFiltered \/ ViaFlood \/ ViaForward \/ ViaSamePort \/ ViaFlow \/ ViaDropFlow \/ ViaOlderFlow
         \/ ViaLink \/ MoveAny \/ TickExpires \/ TickKeeps
\* (the re-plug family's configurations use NextCR = all steps + these cases; every case costs one more
\* pass over the Sends, and the other Via cases are exercised by the other configurations)
NextCR == Next \/ ViaOlderFlow \/ MvLldp \/ MvFilt \/ MvGroup \/ MvUnknown \/ MvSame \/ MvFwd
Spec == Init /\ [][Next]_vars

----------------------------------------------------------------------------
(* What TLC checks on the design                                            *)

TypeOK ==
  /\ at \in [Hosts -> (Switches \X Ports)]
  /\ \A s \in Switches, m \in Hosts :
        /\ seen[s][m].ports \subseteq Ports /\ seen[s][m].last \in {0} \cup seen[s][m].ports
        /\ (seen[s][m].last = 0) = (seen[s][m].ports = {})
        /\ ctl[s][m] \in {0} \cup seen[s][m].ports
  /\ \A s \in Switches : \A fl \in flows[s] :
        /\ fl.inp \in {0} \cup Ports /\ fl.out \subseteq Ports
        /\ fl.age \in 0..Cap /\ fl.idle \in 0..fl.age
  /\ opt.hold \in Nat /\ opt.up \in 0..opt.hold /\ opt.transp \in BOOLEAN

\* the controller always knows the port an address was last seen on: no
\* cached flow of the design hides a move
CtlTrue == (DropInPort /\ DeleteOnMove /\ LearnOn = Classes /\ DeleteOn = Classes) =>
             \A s \in Switches, m \in Hosts : ctl[s][m] = seen[s][m].last

\* C5 as a state invariant
NoLeak == \A s \in Switches : bufs[s] = 0

\* a frame of the design never meets two cached flows at once when the drop
\* flow carries its ingress port (the table's tie-breaking is not relied upon)
Overlap(x, y) == /\ (x.inp = 0 \/ y.inp = 0 \/ x.inp = y.inp) /\ (x.src = 0 \/ y.src = 0 \/ x.src = y.src)
                 /\ (x.dst = 0 \/ y.dst = 0 \/ x.dst = y.dst) /\ x.shs \cap y.shs # {}
UniqueHit == DropInPort => \A s \in Switches : \A x, y \in flows[s] : (x # y) => ~Overlap(x, y)

\* every cached forwarding flow points at a port where its destination was
\* seen; a flow that is not OLDER points at the most recent one
CacheSound ==
  \A s \in Switches : \A fl \in flows[s] :
     fl.dst \in Hosts =>
        /\ fl.out \subseteq seen[s][fl.dst].ports
        /\ (~fl.stale /\ fl.out # {}) => fl.out = {seen[s][fl.dst].last}

\* THE PROPERTY: every hop of every frame the design forwards is one an ideal
\* learning bridge allows (evaluated in the state before the frame)
StepOK ==
  last'.a = "Send" =>
       LET f == Frame(last'.args.h, last'.args.dst, last'.args.sh) IN
       /\ Routed(last'.args.h, last'.full)
       /\ \A hp \in last'.full : HopOK(hp.s, hp.i, f, hp)
Conforms == [][StepOK]_vars

\* readable corollaries of Conforms, stated directly on the deliveries
NeverBack ==
  [][last'.a = "Send" => \A hp \in last'.full : hp.i \notin hp.out]_vars
FilteredStay ==
  [][(last'.a = "Send" /\ ~opt.transp /\ (last'.args.sh = "l" \/ last'.args.dst = FILT))
        => \A hp \in last'.full : hp.out = {}]_vars
FloodAll ==
  [][(last'.a = "Send" /\ ~Held /\ last'.args.sh # "l" /\ last'.args.dst \in {UNK, BCAST, MCAST})
        => \A hp \in last'.full : hp.out = Ports \ {hp.i}]_vars
\* while the hold-down lasts the controller floods nothing, and releases every buffer all the same
HeldQuiet ==
  [][(last'.a = "Send" /\ Held) => \A hp \in last'.full :
        /\ hp.buf = 0
        /\ (hp.pktin = 1 /\ (last'.args.dst \in {UNK, BCAST, MCAST} \/ (opt.transp /\ last'.args.dst = FILT))
              /\ (opt.transp \/ last'.args.sh # "l")) => hp.out = {}]_vars
\* a frame to a host the switch's controller has sighted, decided by the
\* controller, leaves through exactly the port of the latest sighting
FreshDecision ==
  [][(last'.a = "Send" /\ (opt.transp \/ last'.args.sh # "l") /\ last'.args.dst \in Hosts)
        => \A hp \in last'.full :
             (hp.pktin = 1 /\ seen'[hp.s][last'.args.dst].last # 0)
                => hp.out = {seen'[hp.s][last'.args.dst].last} \ {hp.i}]_vars

\* ---- export for the harness
Bound   == Len(hist) <= D
Export  == (Len(hist) = D) => PrintT(<<"H", ToJson(hist)>>)
ExportT == PrintT(<<"T", ToJson(hist')>>)
\* witness export (ACTION_CONSTRAINT): a step that breaks the property is printed
\* and not explored further; meaningful on MUTANT designs only (on the design
\* itself Conforms says there is none)
\* the same with the options of the behaviour (configurations that explore several option sets)
ExportO  == (Len(hist) = D) => PrintT(<<"O", ToJson([opt |-> opt, hist |-> hist])>>)
ExportTO == PrintT(<<"O", ToJson([opt |-> opt', hist |-> hist'])>>)
WitnessT == IF StepOK THEN TRUE ELSE PrintT(<<"W", ToJson(hist')>>) /\ FALSE
=============================================================================
