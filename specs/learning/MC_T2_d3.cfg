CONSTANTS NS = 2
  NP = 3
  LinkPeer <- Link2
  Hosts <- H3
  InitAt <- At2_3
  MovePorts <- Mv2s
  Dsts <- DSome
  Shapes <- ShAL
  Gaps <- G1
  Sweeps <- BT
  Caches <- BB
  DropInPort = TRUE
  DeleteOnMove = TRUE
  IdleTO = 10
  HardTO = 30
  DropTO = 10
  D = 3
INIT Init
NEXT NextC
CHECK_DEADLOCK FALSE
VIEW viewN
CONSTRAINT Bound
INVARIANT TypeOK
INVARIANT NoLeak
INVARIANT CtlTrue
INVARIANT UniqueHit
INVARIANT CacheSound
PROPERTY Conforms
