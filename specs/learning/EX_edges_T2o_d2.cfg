CONSTANTS NS = 2
  NP = 3
  LinkPeer <- Link2
  Hosts <- H3
  InitAt <- At2_3
  MovePorts <- Mv2s
  Dsts <- DAll1
  Shapes <- ShAL
  Gaps <- G5_11
  Sweeps <- BT
  Caches <- BT
  Opts <- OptsHT
  DropInPort = TRUE
  DeleteOnMove = TRUE
  IdleTO = 10
  HardTO = 30
  DropTO = 10
  D = 2
INIT Init
NEXT Next
CHECK_DEADLOCK FALSE
VIEW viewE
CONSTRAINT Bound
ACTION_CONSTRAINT ExportTO
