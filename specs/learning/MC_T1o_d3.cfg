CONSTANTS NS = 1
  NP = 3
  LinkPeer <- NoLinks
  Hosts <- H2
  InitAt <- At1_2
  MovePorts <- Mv1
  Dsts <- DOpt
  Shapes <- ShAL
  Gaps <- G3
  Sweeps <- BT
  Caches <- BT
  Opts <- OptsHT
  DropInPort = TRUE
  DeleteOnMove = TRUE
  IdleTO = 10
  HardTO = 30
  DropTO = 10
  D = 3
INIT Init
NEXT NextCO
CHECK_DEADLOCK FALSE
VIEW viewN
CONSTRAINT Bound
INVARIANT TypeOK
INVARIANT NoLeak
INVARIANT CtlTrue
INVARIANT UniqueHit
INVARIANT CacheSound
PROPERTY Conforms
PROPERTY NeverBack
PROPERTY FilteredStay
PROPERTY FloodAll
PROPERTY HeldQuiet
PROPERTY FreshDecision
