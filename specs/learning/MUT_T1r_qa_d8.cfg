CONSTANTS NS = 1
  NP = 3
  LinkPeer <- NoLinks
  Hosts <- H2
  InitAt <- At1_2
  MovePorts <- Mv1
  Dsts <- DRe
  Shapes <- ShAL
  Frames <- ReFrames
  Gaps <- GNone
  Sweeps <- BT
  Caches <- BT
  DropInPort = TRUE
  DeleteOnMove = TRUE
  IdleTO = 10
  HardTO = 30
  DropTO = 10
  D = 8
  LearnOn <- MutLearnOn
  DeleteOn <- MutDeleteOn
  MutSet <- MutantsQA
INIT MInit
NEXT MNext
CHECK_DEADLOCK FALSE
VIEW mviewN
CONSTRAINT MutBound
CONSTRAINT OnlyH1Moves
CONSTRAINT NoSelf
ACTION_CONSTRAINT MWitnessT
