CONSTANTS NS = 1
  NP = 3
  LinkPeer <- NoLinks
  Hosts <- H2
  InitAt <- At1_same
  MovePorts <- Mv1
  Dsts <- DTwoF
  Shapes <- ShABL
  Gaps <- G2
  Sweeps <- BB
  Caches <- BB
  DropInPort = TRUE
  DeleteOnMove = TRUE
  IdleTO = 10
  HardTO = 30
  DropTO = 10
  D = 3
INIT Init
NEXT NextC
CHECK_DEADLOCK FALSE
VIEW viewN
CONSTRAINT Bound
INVARIANT TypeOK
INVARIANT NoLeak
INVARIANT CtlTrue
INVARIANT UniqueHit
INVARIANT CacheSound
PROPERTY Conforms
