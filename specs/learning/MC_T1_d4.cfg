CONSTANTS NS = 1
  NP = 3
  LinkPeer <- NoLinks
  Hosts <- H3
  InitAt <- At1_3
  MovePorts <- Mv1
  Dsts <- DAll1
  Shapes <- ShAL
  Gaps <- G2
  Sweeps <- BB
  Caches <- BB
  DropInPort = TRUE
  DeleteOnMove = TRUE
  IdleTO = 10
  HardTO = 30
  DropTO = 10
  D = 4
INIT Init
NEXT NextC
CHECK_DEADLOCK FALSE
VIEW viewN
CONSTRAINT Bound
INVARIANT TypeOK
INVARIANT NoLeak
INVARIANT CtlTrue
INVARIANT UniqueHit
INVARIANT CacheSound
PROPERTY Conforms
PROPERTY NeverBack
PROPERTY FilteredStay
PROPERTY FloodAll
PROPERTY FreshDecision
