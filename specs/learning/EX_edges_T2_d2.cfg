CONSTANTS NS = 2
  NP = 3
  LinkPeer <- Link2
  Hosts <- H4
  InitAt <- At2_4
  MovePorts <- Mv2
  Dsts <- DAll2
  Shapes <- ShAL
  Gaps <- G2
  Sweeps <- BT
  Caches <- BT
  DropInPort = TRUE
  DeleteOnMove = TRUE
  IdleTO = 10
  HardTO = 30
  DropTO = 10
  D = 2
INIT Init
NEXT Next
CHECK_DEADLOCK FALSE
VIEW viewE
CONSTRAINT Bound
ACTION_CONSTRAINT ExportT
