---- MODULE TraceLearningNet ----
(* Code -> spec: executions recorded from the real control loop              *)
(* (l2_learning + of_01.Connection + SoftwareSwitch over bytes, inputs taken  *)
(* from behaviours exported by TLC from LearningNet.tla) must be behaviours   *)
(* of the PROPERTY layer of LearningNet.tla:                                  *)
(*    Send event  -> SendObs(h, dst, sh, recorded hops): enabled iff every    *)
(*                   recorded hop satisfies HopOK in the state built from the *)
(*                   recorded history (sightings = packet-ins, cache = what   *)
(*                   was installed / what the tables held)                    *)
(*    Tick event  -> TickObs(d, recorded tables)                              *)
(*    Move / At   -> attachment points                                        *)
(* Nothing of the DESIGN layer (timeouts, which flows are installed) takes    *)
(* part in the verdict.  A rejected event prints the clauses that failed.     *)
EXTENDS MCLearningNet, IOUtils, TLCExt, SequencesExt

Traces == JsonDeserialize(IOEnv.TRACE_FILE)
NT == Len(Traces)
VARIABLES tid, l
tvars == <<vars, tid, l>>

TrInit == Init /\ tid \in 1..NT /\ l = 1 /\ TLCSet(tid, 0)
Ev == Traces[tid][l]
IsEvent(e) == l <= Len(Traces[tid]) /\ Ev.a = e /\ l' = l + 1 /\ UNCHANGED tid

PatOf(x)  == [inp |-> x.inp, src |-> x.src, dst |-> x.dst, shs |-> ToSet(x.shs)]
InstOf(x) == [inp |-> x.inp, src |-> x.src, dst |-> x.dst, shs |-> ToSet(x.shs),
              out |-> ToSet(x.out), ito |-> x.ito, hto |-> x.hto]
HasDup(q) == Len(q) # Cardinality(ToSet(q))
HopOf(x) == [s |-> x.s, i |-> x.i, pktin |-> x.pktin, out |-> ToSet(x.out),
             dup |-> IF HasDup(x.out) THEN 1 ELSE 0, mod |-> x.mod,
             inst |-> {InstOf(x.inst[k]) : k \in 1..Len(x.inst)},
             tbl |-> {PatOf(x.tbl[k]) : k \in 1..Len(x.tbl)}, buf |-> x.buf, via |-> "observed",
             lrn |-> IF x.pktin > 0 THEN 1 ELSE 0, mv |-> "observed"]
HopsOf(q) == {HopOf(q[k]) : k \in 1..Len(q)}

Quiet == UNCHANGED <<last, hist>>

\* diagnosis of a rejected Send: which clause, at which hop
Diagnose(h, dst, sh, hops) ==
  LET f == Frame(h, dst, sh)
      bad == {hp \in hops : ~HopOK(hp.s, hp.i, f, hp)}
  IN IF ~Routed(h, hops) \/ Len(Ev.obs.hops) # Cardinality(hops)
     THEN PrintT(<<"DIAG", tid, l, "route", 0, 0, 0>>)
     ELSE \A hp \in bad :
            /\ PrintT(<<"DIAG", tid, l, ToJson(Failed(hp.s, hp.i, f, hp)), hp.s, hp.i, hp.pktin>>)
            /\ PrintT(<<"WANT", tid, l, hp.s, ToJson(Demanded(hp.s, hp.i, f, hp))>>)

TrAt ==
  /\ IsEvent("At") /\ Ev.wf
  /\ at' = [h \in Hosts |-> <<Ev.args.at[h][1], Ev.args.at[h][2]>>]
  \* the options the controller component was launched with (the switches have just connected)
  /\ opt' = [hold |-> Ev.args.hold, transp |-> Ev.args.transp, up |-> 0]
  /\ UNCHANGED <<seen, ctl, flows, bufs>> /\ Quiet

TrMove ==
  /\ IsEvent("Move")
  /\ at' = [at EXCEPT ![Ev.args.h] = <<Ev.args.s, Ev.args.p>>]
  /\ UNCHANGED <<seen, ctl, flows, bufs, opt>> /\ Quiet

TrSend ==
  /\ IsEvent("Send")
  /\ LET hops == HopsOf(Ev.obs.hops) IN
     /\ Ev.wf
     /\ \/ (Len(Ev.obs.hops) = Cardinality(hops) /\ SendObs(Ev.args.h, Ev.args.dst, Ev.args.sh, hops))
        \/ (Diagnose(Ev.args.h, Ev.args.dst, Ev.args.sh, hops) /\ FALSE)
  /\ Quiet

TrTick ==
  /\ IsEvent("Tick")
  /\ Ev.wf
  /\ TickObs(Ev.args.d, [s \in Switches |-> {PatOf(Ev.obs.tbls[s][k]) : k \in 1..Len(Ev.obs.tbls[s])}])
  /\ Quiet

TrNext == TrAt \/ TrMove \/ TrSend \/ TrTick
TrSpec == TrInit /\ [][TrNext]_tvars

Progress == TLCSet(tid, IF TLCGet(tid) < l - 1 THEN l - 1 ELSE TLCGet(tid))
Ok(t) == TLCGet(t) = Len(Traces[t]) \/ (PrintT(<<"REJECT", t, TLCGet(t)>>) /\ FALSE)
Accepted == /\ PrintT(<<"TRACES-CHECKED", NT>>)
            /\ Cardinality({t \in 1..NT : ~Ok(t)}) = 0
====
