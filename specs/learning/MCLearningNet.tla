---- MODULE MCLearningNet ----
(* Constants of the model-checking / export / trace configurations.          *)
(* Topologies (lines, NP = 3 ports per switch):                               *)
(*   T1: one switch, host ports 1,2,3                                         *)
(*   T2: s1.3 -- s2.3, host ports 1,2 on each                                 *)
(*   T3: s1.3 -- s2.3, s2.2 -- s3.3; host ports s1.{1,2}, s2.1, s3.{1,2}      *)
EXTENDS LearningNet

NoLinks == [x \in {} |-> <<0, 0>>]
Link2 == (<<1, 3>> :> <<2, 3>>) @@ (<<2, 3>> :> <<1, 3>>)
Link3 == (<<1, 3>> :> <<2, 3>>) @@ (<<2, 3>> :> <<1, 3>>) @@
         (<<2, 2>> :> <<3, 3>>) @@ (<<3, 3>> :> <<2, 2>>)

H2 == {1, 2}
H3 == {1, 2, 3}
H4 == {1, 2, 3, 4}

\* T1
At1_2 == (1 :> <<1, 1>>) @@ (2 :> <<1, 2>>)
At1_3 == (1 :> <<1, 1>>) @@ (2 :> <<1, 2>>) @@ (3 :> <<1, 3>>)
At1_same == (1 :> <<1, 1>>) @@ (2 :> <<1, 1>>)          \* two hosts behind one port
Mv1 == {<<1, 1>>, <<1, 2>>, <<1, 3>>}
\* T2
At2_3 == (1 :> <<1, 1>>) @@ (2 :> <<1, 2>>) @@ (3 :> <<2, 1>>)
At2_4 == (1 :> <<1, 1>>) @@ (2 :> <<1, 2>>) @@ (3 :> <<2, 1>>) @@ (4 :> <<2, 2>>)
Mv2 == {<<1, 1>>, <<1, 2>>, <<2, 1>>, <<2, 2>>}
Mv2s == {<<1, 1>>, <<2, 1>>, <<2, 2>>}
\* T3
At3_3 == (1 :> <<1, 1>>) @@ (2 :> <<2, 1>>) @@ (3 :> <<3, 1>>)
At3_5 == (1 :> <<1, 1>>) @@ (2 :> <<1, 2>>) @@ (3 :> <<2, 1>>) @@ (4 :> <<3, 1>>) @@ (5 :> <<3, 2>>)
H5 == {1, 2, 3, 4, 5}
Mv3 == {<<1, 1>>, <<1, 2>>, <<2, 1>>, <<3, 1>>, <<3, 2>>}
Mv3s == {<<1, 1>>, <<2, 1>>, <<3, 1>>}

DAll1 == {1, 2, 3, UNK, BCAST, MCAST, FILT}
DAll2 == {1, 2, 3, 4, UNK, BCAST, MCAST, FILT}
DAll3 == {1, 2, 3, 4, 5, UNK, BCAST, MCAST, FILT}
DSome == {1, 2, 3, BCAST, FILT}
DQuick == {1, 2, 3, UNK, BCAST, FILT}
DTwo  == {1, 2, BCAST}
DPair == {1, 2}
DOne  == {2}
GNone == {}
DTwoF == {1, 2, BCAST, FILT}
ShA   == {"a"}
ShAL  == {"a", "l"}
ShABL == {"a", "b", "l"}
G2    == {11, 31}
G1    == {11}
G3    == {5, 11, 31}
\* the "cached conversation with a moving host" family: h1 and h2 talk to each other, h1 moves between ports 1 and 3
Mv13 == {<<1, 1>>, <<1, 3>>}
Narrow == /\ (last.a = "Send" => last.args.h # last.args.dst)
          /\ (last.a = "Move" => last.args.h = 1)
\* the "re-plug" family: as above, but h1 may be plugged into any port (also h2's) and every station may send
\* every class of frame - in particular the FIRST frame of h1 at a new port may be LLDP / bridge-filtered /
\* broadcast / multicast / to an unknown address / to a station behind the same port / to itself
DRe == {1, 2, UNK, BCAST, MCAST, FILT}
\* ... every destination class in the plain shape, and LLDP-typed frames to the two stations (for an LLDP frame
\* the design does not look at the destination)
ReFrames == (DRe \X {"a"}) \cup {<<1, "l">>, <<2, "l">>}
OnlyH1Moves == last.a = "Move" => last.args.h = 1
NoSelf == last.a = "Send" => last.args.h # last.args.dst
\* Round 8: option sets.  Hold-down 11 s = one Gap of 11 (the boundary: at exactly 11 s the controller floods
\* again), two of 5 do not end it, 5 + 11 and 31 do.
HD == 11
OptsHT == {[hold |-> h, transp |-> t, up |-> 0] : h \in {0, HD}, t \in BOOLEAN}
            \ {[hold |-> 0, transp |-> FALSE, up |-> 0]}
OptsH  == {[hold |-> HD, transp |-> FALSE, up |-> 0]}
G5_11 == {5, 11}
DOpt == {1, 2, UNK, BCAST, MCAST, FILT}
Five == 5
BT == {TRUE}
BF == {FALSE}
BB == {TRUE, FALSE}
====
