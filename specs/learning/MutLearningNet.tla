---- MODULE MutLearningNet ----
(* MUTANT designs of LearningNet: the design layer with ONE duty of the       *)
(* controller (learn the source / delete the flows of a source that moved)    *)
(* skipped on ONE decision class of packet-in (LLDP / bridge-filtered / group *)
(* / unknown unicast / same port / forward).  Each mutant is a mistake the    *)
(* property must tell from the design: TLC searches the histories of the      *)
(* mutant for steps that break Conforms (WitnessT) and prints them.  The      *)
(* INPUTS of these witness histories are run on the real code and the         *)
(* recorded executions are judged by the property layer like all others -     *)
(* an implementation that makes the mutant's mistake is rejected on them,     *)
(* the design (and any other conforming implementation) is not, because the   *)
(* verdict never refers to the mutant.                                        *)
(* The mutant is a variable chosen in the initial state so that one TLC run   *)
(* covers all of them; LearnOn / DeleteOn of LearningNet are overridden in    *)
(* the configuration by MutLearnOn / MutDeleteOn.                             *)
EXTENDS MCLearningNet

VARIABLE mut            \* [duty, cls]
Duties == {"learn", "delete"}
AllMutants == {[duty |-> d, cls |-> c] : d \in Duties, c \in Classes}
DeleteMutants == {m \in AllMutants : m.duty = "delete"}
LearnMutants  == {m \in AllMutants : m.duty = "learn"}
\* (two halves, searched by two TLC runs side by side)
DeleteMutantsA == {m \in DeleteMutants : m.cls \in {"lldp", "filt", "group"}}
DeleteMutantsB == {m \in DeleteMutants : m.cls \in {"unknown", "same", "fwd"}}
MutSet == AllMutants    \* (overridable)

MutLearnOn  == IF mut.duty = "learn"  THEN Classes \ {mut.cls} ELSE Classes
MutDeleteOn == IF mut.duty = "delete" THEN Classes \ {mut.cls} ELSE Classes

\* the quick tier's two runs: the learn mutants ride with the first half of the delete mutants
MutantsQA == DeleteMutantsA \cup LearnMutants
MutantsQB == DeleteMutantsB
\* a learn mutant shows within a few steps, a delete mutant needs a move, a return and a frame back
LearnDepth == 4     \* (overridable)
MutBound == Len(hist) <= (IF mut.duty = "learn" THEN LearnDepth ELSE D)

MInit == Init /\ mut \in MutSet
MNext == Next /\ UNCHANGED mut
mview  == <<svars, mut>>                \* one (shortest) history per state of a mutant
mviewN == <<svars, mut, Len(hist)>>     \* one per state and history length

\* a witness: the history up to and including the step that breaks the property
MWitnessT == IF StepOK THEN TRUE
             ELSE PrintT(<<"W", ToJson([mut |-> mut, hist |-> hist'])>>) /\ FALSE
====
