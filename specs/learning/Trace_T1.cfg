CONSTANTS NS = 1
  NP = 3
  LinkPeer <- NoLinks
  Hosts <- H3
  InitAt <- At1_3
  MovePorts <- Mv1
  Dsts <- DAll1
  Shapes <- ShABL
  Gaps <- G3
  Sweeps <- BB
  Caches <- BT
  DropInPort = TRUE
  DeleteOnMove = TRUE
  IdleTO = 10
  HardTO = 30
  DropTO = 10
  D = 0
INIT TrInit
NEXT TrNext
CONSTRAINT Progress
POSTCONDITION Accepted
INVARIANT NoLeak
CHECK_DEADLOCK FALSE
