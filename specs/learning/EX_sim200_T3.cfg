CONSTANTS NS = 3
  NP = 3
  LinkPeer <- Link3
  Hosts <- H5
  InitAt <- At3_5
  MovePorts <- Mv3
  Dsts <- DAll3
  Shapes <- ShABL
  Gaps <- G3
  Sweeps <- BB
  Caches <- BT
  DropInPort = TRUE
  DeleteOnMove = TRUE
  IdleTO = 10
  HardTO = 30
  DropTO = 10
  D = 200
INIT Init
NEXT Next
CHECK_DEADLOCK FALSE
INVARIANT Export
INVARIANT TypeOK
INVARIANT NoLeak
INVARIANT CtlTrue
INVARIANT UniqueHit
INVARIANT CacheSound
PROPERTY Conforms
