CONSTANTS NS = 1
  NP = 3
  LinkPeer <- NoLinks
  Hosts <- H3
  InitAt <- At1_3
  MovePorts <- Mv1
  Dsts <- DAll1
  Shapes <- ShABL
  Gaps <- G5_11
  Sweeps <- BB
  Caches <- BT
  Opts <- OptsHT
  DropInPort = TRUE
  DeleteOnMove = TRUE
  IdleTO = 10
  HardTO = 30
  DropTO = 10
  D = 2
INIT Init
NEXT Next
CHECK_DEADLOCK FALSE
VIEW viewE
CONSTRAINT Bound
ACTION_CONSTRAINT ExportTO
