CONSTANTS
  IPs <- MdIPs
  Gws <- Gw1
  Ports = {1, 2, 3}
  NBuf = 8
  Stations <- MdStations
  ArpSrcs <- MdArpSrcs
  Targets <- MdTargets
  ArpTimeout = 120
  BufTime = 5
  ArpGap = 4
  Period = 5
  MaxPerIP = 5
  FlowIdle = 10
  ArpForUnknowns = TRUE
  Strict = FALSE
  Deltas <- RealDeltas
  D = 60
INIT Init
NEXT Next
INVARIANT Export
CHECK_DEADLOCK FALSE
