---------------------------- MODULE ArpResp ----------------------------
(* X05: pox/proto/arp_responder.py - the ARP table with static and learned   *)
(* entries, expiry, answers and packet eating - as seen through one real     *)
(* OpenFlow 1.0 switch.                                                       *)
(*                                                                          *)
(* Abstract state: virtual time `now`, the instant `timer` of the next       *)
(* firing of the recurring Timer(5); the table ip -> (mac, static, flood,    *)
(* deadline) where mac "SW" stands for "the switch's own address"; the       *)
(* failed queries ip -> time; how many packet buffers of the switch are held *)
(* for good (packet-ins the component never gives back).                     *)
(*                                                                          *)
(* Actions: an ARP packet reaches the controller (learn - answer - flood),   *)
(* some other packet does, time passes / the expiry timer fires, and the     *)
(* console operations the module documents (arp.set, del arp[ip]).           *)
(*                                                                          *)
(* Named deviations (Strict = FALSE only), see notes/X05.md:                  *)
(*  ArpInVlanMangled   the answer to an 802.1Q-tagged request carries the    *)
(*                     tag, but the type after the tag is 0x8100 again       *)
(*                     instead of ARP: nobody can read it;                   *)
(*  ArpInDemoteStatic  an ARP from the owner of a STATIC entry (same MAC)    *)
(*                     replaces it by a learned one, which then expires;     *)
(*  ArpInUseStale      a request is answered from an entry that is older     *)
(*                     than the timeout but was not swept yet (the Entry     *)
(*                     docstring says such a request is flooded).            *)
EXTENDS Naturals, Integers, Sequences, FiniteSets, TLC, Json, SequencesExt

CONSTANTS IPs,        \* addresses (symbols)
          Statics,    \* [ip -> mac | "SW"] entries given to launch()
          Ports, NBuf,
          ArpSrcs,    \* [p, es, sha, spa]: who sends ARP (spa "z" = 0.0.0.0)
          Targets,
          SetMacs,    \* what the console may arp.set()
          ConsIPs,    \* ... and for which addresses
          VLs,        \* whether ARP packets may carry an 802.1Q tag (vlan 5, pcp 3)
          Timeout,    \* arp_responder.ARP_TIMEOUT (launch option)
          Period,     \* the literal 5
          Learn, Eat, \* launch options (not no_learn, eat_packets)
          Strict, Deltas, D

FLOOD == 65531
INPORT == 65528

NoFrame == [k |-> "-", op |-> 0, es |-> "-", ed |-> "-", sha |-> "-", spa |-> "-", tha |-> "-", tpa |-> "-"]
Kind(vl) == IF vl THEN "arp@5.3" ELSE "arp"
ArpFrame(src, op, tpa, vl) ==
  [k |-> Kind(vl), op |-> op, es |-> src.es, ed |-> IF op = 1 THEN "bc" ELSE "rt",
   sha |-> src.sha, spa |-> src.spa, tha |-> IF op = 1 THEN "no" ELSE "rt", tpa |-> tpa]

NoEntry == [mac |-> "-", static |-> FALSE, flood |-> FALSE, exp |-> 0]
\* Entry(mac, static): mac True ("SW") implies static / no flood unless `static` says otherwise
Entry(mac, static, t) == [mac |-> mac, static |-> static, flood |-> mac # "SW", exp |-> t + Timeout]
Learned(mac, t) == Entry(mac, FALSE, t)

VARIABLES now, timer,
          tbl,       \* [IPs -> entry] (mac "-" = none)
          fq,        \* [IPs -> time of the last failed query, -1 = none]
          held,      \* buffers of the switch that will never be given back
          up,        \* the switch has connected (ConnectionUp handled)
          last, hist
vars == <<now, timer, tbl, fq, held, up, last, hist>>

Out(o) == [t |-> "out", m |-> "-", o |-> o]
CONTROLLER == 65533
Fm(buf, acts, mt, idle)  == [k |-> "fm", buf |-> buf, inp |-> 0, acts |-> acts, data |-> NoFrame, mt |-> mt, idle |-> idle]
Po(buf, inp, acts, data) == [k |-> "po", buf |-> buf, inp |-> inp, acts |-> acts, data |-> data, mt |-> "-", idle |-> 0]

Rel(t, n) == IF t < n THEN 0 - 1 ELSE t - n
TblView(t, n) == [ip \in IPs |-> IF t[ip].mac = "-" THEN <<"-", FALSE, FALSE, 0>>
                                 ELSE <<t[ip].mac, t[ip].static, t[ip].flood, IF t[ip].static THEN 0 ELSE Rel(t[ip].exp, n)>>]
FqView(f, n) == [ip \in IPs |-> IF f[ip] < 0 THEN 0 - 1 ELSE IF n - f[ip] > Timeout THEN Timeout + 1 ELSE n - f[ip]]
St(t, f, n) == [tbl |-> TblView(t, n), fq |-> {ip \in IPs : f[ip] >= 0}]
view == <<TblView(tbl, now), FqView(fq, now), timer - now, held, up>>

NoObs == [a |-> "Init", args |-> [x |-> 0], exp |-> [x |-> 0]]
Init == /\ now = 0 /\ timer = Period
        /\ tbl = [ip \in IPs |-> IF ip \in DOMAIN Statics THEN Entry(Statics[ip], TRUE, 0) ELSE NoEntry]
        /\ fq = [ip \in IPs |-> 0 - 1]
        /\ held = 0 /\ up = FALSE
        /\ last = NoObs /\ hist = <<>>

\* `via` names the spec action that produced the step (not compared with anything; used to count what the
\* replayed behaviours exercised)
LogV(a, args, exp, via) ==
  /\ last' = [a |-> a, args |-> args, exp |-> exp]
  /\ hist' = Append(hist, [a |-> a, args |-> args, exp |-> exp, via |-> via])
Log(a, args, exp) == LogV(a, args, exp, a)

\* ConnectionUp: a flow that sends every ARP packet to the controller, below the default priority
ConnUp ==
  /\ ~up /\ up' = TRUE
  /\ UNCHANGED <<now, timer, tbl, fq, held>>
  /\ Log("Up", [x |-> 0], [pin |-> 0, msgs |-> <<Fm(0, <<Out(CONTROLLER)>>, "arp/p28672", 0)>>, out |-> {}, errs |-> 0,
                           halted |-> FALSE, st |-> St(tbl, fq, now)])

Known(t, ip) == t[ip].mac # "-"
Expired(e, n) == ~e.static /\ n > e.exp
Alloc == IF held < NBuf THEN held + 1 ELSE 0

\* ---- learning (only from the ARP header's own addresses)
Valid(src) == src.spa # "z"
Demotes(src) == LET old == tbl[src.spa] IN
  Learn /\ Valid(src) /\ Known(tbl, src.spa) /\ old.mac # "SW" /\ old.mac = src.sha /\ old.static
LearnTbl(src, strict) ==
  IF ~(Learn /\ Valid(src)) THEN tbl
  ELSE LET old == tbl[src.spa] IN
       IF ~Known(tbl, src.spa) THEN [tbl EXCEPT ![src.spa] = Learned(src.sha, now)]
       ELSE IF old.mac = "SW" THEN tbl                                  \* never replaced
       ELSE IF old.mac # src.sha THEN (IF old.static THEN tbl           \* static entry conflict: kept
                                       ELSE [tbl EXCEPT ![src.spa] = Learned(src.sha, now)])
       ELSE IF old.static /\ strict THEN tbl                            \* intent: static entries stay static
       ELSE [tbl EXCEPT ![src.spa] = Learned(src.sha, now)]             \* "update timestamp"
\* the outcome hinges on an entry that is older than Timeout but was not swept yet: a request would be answered
\* from it, or flooding would be suppressed because of it
Stale(src, op, tpa) == LET t == LearnTbl(src, FALSE) IN
  Known(t, tpa) /\ Expired(t[tpa], now) /\ ((Valid(src) /\ op = 1) \/ ~t[tpa].flood)

ArpArgs(src, op, tpa, vl) == [p |-> src.p, es |-> src.es, sha |-> src.sha, spa |-> src.spa, op |-> op, tpa |-> tpa, vl |-> vl]

Handle(src, op, tpa, vl, strict, via) ==
  LET s == Alloc
      t == LearnTbl(src, strict)
      usable == Known(t, tpa) /\ (strict => ~Expired(t[tpa], now))
      answer == Valid(src) /\ op = 1 /\ usable
      mac == IF t[tpa].mac = "SW" THEN "sw" ELSE t[tpa].mac
      good == [k |-> Kind(vl), op |-> 2, es |-> "sw", ed |-> src.sha, sha |-> mac, spa |-> tpa, tha |-> src.sha, tpa |-> src.spa]
      \* what the code sends for a tagged request: <tag 5.3> <type 0x8100> <ARP body> - not an ARP packet
      reply == IF vl /\ ~strict THEN [NoFrame EXCEPT !.k = "other:8100", !.es = "sw", !.ed = src.sha] ELSE good
      fq1 == IF Valid(src) /\ op = 1 /\ ~usable THEN [fq EXCEPT ![tpa] = now] ELSE fq
      flood == IF usable THEN t[tpa].flood ELSE TRUE
      msgs == IF answer THEN <<Po(0, src.p, <<Out(INPORT)>>, reply)>>
              ELSE IF flood THEN <<Po(s, src.p, <<Out(FLOOD)>>, IF s = 0 THEN ArpFrame(src, op, tpa, vl) ELSE NoFrame)>>
              ELSE <<>>
      out == IF answer THEN {<<src.p, reply, 1>>}
             ELSE IF flood THEN {<<q, ArpFrame(src, op, tpa, vl), 1>> : q \in Ports \ {src.p}}
             ELSE {}
      \* an answered (or swallowed) packet-in keeps its buffer for ever; a flooded one gives it back
      held1 == IF s # 0 /\ (answer \/ ~flood) THEN held + 1 ELSE held IN
  /\ up
  /\ tbl' = t /\ fq' = fq1 /\ held' = held1
  /\ UNCHANGED <<now, timer, up>>
  /\ LogV("ArpIn", ArpArgs(src, op, tpa, vl),
          [pin |-> s, msgs |-> msgs, out |-> out, errs |-> 0, halted |-> Eat, st |-> St(t, fq1, now)], via)

\* a tagged request that the code answers
Mangles(src, op, tpa, vl) == LET t == LearnTbl(src, FALSE) IN vl /\ Valid(src) /\ op = 1 /\ Known(t, tpa)
Deviates(src, op, tpa, vl) == Demotes(src) \/ Stale(src, op, tpa) \/ Mangles(src, op, tpa, vl)
ArpInPlain(src, op, tpa, vl)        == ~Deviates(src, op, tpa, vl) /\ Handle(src, op, tpa, vl, FALSE, "ArpInPlain")
\* DEVIATIONS (what the code does)
ArpInDemoteStatic(src, op, tpa, vl) == ~Strict /\ Demotes(src) /\ Handle(src, op, tpa, vl, FALSE, "ArpInDemoteStatic")
ArpInUseStale(src, op, tpa, vl)  == ~Strict /\ ~Demotes(src) /\ Stale(src, op, tpa) /\ Handle(src, op, tpa, vl, FALSE, "ArpInUseStale")
ArpInVlanMangled(src, op, tpa, vl)  == ~Strict /\ ~Demotes(src) /\ ~Stale(src, op, tpa) /\ Mangles(src, op, tpa, vl)
                                       /\ Handle(src, op, tpa, vl, FALSE, "ArpInVlanMangled")
\* documented intent
ArpInStrict(src, op, tpa, vl)       == Strict /\ Deviates(src, op, tpa, vl)
                                       /\ Handle(src, op, tpa, vl, TRUE, IF Demotes(src) THEN "ArpInStrict/static-kept"
                                                                         ELSE IF Stale(src, op, tpa) THEN "ArpInStrict/stale-ignored"
                                                                         ELSE "ArpInStrict/vlan-reply")
ArpIn(src, op, tpa, vl) == \/ ArpInPlain(src, op, tpa, vl) \/ ArpInDemoteStatic(src, op, tpa, vl)
                           \/ ArpInUseStale(src, op, tpa, vl) \/ ArpInVlanMangled(src, op, tpa, vl)
                           \/ ArpInStrict(src, op, tpa, vl)

\* a packet that is not ARP: not touched, not eaten (its buffer is nobody's business here)
OtherIn(p) ==
  /\ up /\ p \in Ports
  /\ held' = (IF held < NBuf THEN held + 1 ELSE held)
  /\ UNCHANGED <<now, timer, tbl, fq, up>>
  /\ Log("OtherIn", [p |-> p], [pin |-> Alloc, msgs |-> <<>>, out |-> {}, errs |-> 0, halted |-> FALSE, st |-> St(tbl, fq, now)])

\* console: arp.set(ip, mac, static) / del arp[ip]
Set(ip, mac, static) ==
  /\ up
  /\ tbl' = [tbl EXCEPT ![ip] = [Entry(mac, static, now) EXCEPT !.static = static]]
  /\ UNCHANGED <<now, timer, fq, held, up>>
  /\ Log("Set", [ip |-> ip, mac |-> mac, static |-> static],
         [pin |-> 0, msgs |-> <<>>, out |-> {}, errs |-> 0, halted |-> FALSE, st |-> St(tbl', fq, now)])
Del(ip) ==
  /\ up /\ Known(tbl, ip)
  /\ tbl' = [tbl EXCEPT ![ip] = NoEntry]
  /\ UNCHANGED <<now, timer, fq, held, up>>
  /\ Log("Del", [ip |-> ip], [pin |-> 0, msgs |-> <<>>, out |-> {}, errs |-> 0, halted |-> FALSE, st |-> St(tbl', fq, now)])

\* ---- time
Advance(d) ==
  /\ up /\ now + d < timer
  /\ now' = now + d
  /\ UNCHANGED <<timer, tbl, fq, held, up>>
  /\ LogV("Tick", [d |-> d], [pin |-> 0, msgs |-> <<>>, out |-> {}, errs |-> 0, halted |-> FALSE, st |-> St(tbl, fq, now + d)], "Advance")

\* the timer fires: learned entries older than Timeout and failed queries older than Timeout are dropped
TimerFires(d) ==
  LET fire == timer + ((now + d - timer) \div Period) * Period
      t == [ip \in IPs |-> IF Known(tbl, ip) /\ Expired(tbl[ip], fire) THEN NoEntry ELSE tbl[ip]]
      f == [ip \in IPs |-> IF fq[ip] >= 0 /\ fire - fq[ip] > Timeout THEN 0 - 1 ELSE fq[ip]] IN
  /\ up /\ now + d >= timer
  /\ now' = now + d /\ timer' = fire + Period
  /\ tbl' = t /\ fq' = f
  /\ UNCHANGED <<held, up>>
  /\ LogV("Tick", [d |-> d], [pin |-> 0, msgs |-> <<>>, out |-> {}, errs |-> 0, halted |-> FALSE, st |-> St(t, f, now + d)], "TimerFires")

NextArp   == \E src \in ArpSrcs, op \in {1, 2}, tpa \in Targets, vl \in VLs : ArpIn(src, op, tpa, vl)
NextOther == \E p \in Ports : OtherIn(p)
NextCons  == \/ \E ip \in ConsIPs, m \in SetMacs, s \in BOOLEAN : Set(ip, m, s)
             \/ \E ip \in ConsIPs : Del(ip)
NextTime  == \E d \in Deltas : Advance(d) \/ TimerFires(d)
Next == ConnUp \/ NextArp \/ NextOther \/ NextCons \/ NextTime
Spec == Init /\ [][Next]_vars

----------------------------------------------------------------------------
TypeOK ==
  /\ now \in Nat /\ timer > now /\ timer <= now + Period /\ held \in 0..NBuf
  /\ \A ip \in IPs : tbl[ip].static \in BOOLEAN /\ tbl[ip].flood \in BOOLEAN /\ fq[ip] \in Int /\ fq[ip] <= now

\* a learned entry does not survive the first timer instant after its deadline
SweptOnTime == \A ip \in IPs : (Known(tbl, ip) /\ ~tbl[ip].static) => tbl[ip].exp + Period >= timer
\* the switch's own address is always static and never flooded for
SwitchMac == \A ip \in IPs : (tbl[ip].mac = "SW" /\ tbl[ip].static) => ~Expired(tbl[ip], now)

\* static entries never expire and are never replaced by what is seen on the network: only the console
\* changes them.  This is the documented intent; the code violates it (ArpInDemoteStatic).
StaticsStay ==
  [][\A ip \in IPs : (Known(tbl, ip) /\ tbl[ip].static /\ last'.a \notin {"Set", "Del"}) =>
        \/ tbl'[ip] = tbl[ip]
        \/ ~Strict /\ last'.a = "ArpIn" /\ last'.args.spa = ip /\ last'.args.sha = tbl[ip].mac
           /\ tbl'[ip] = Learned(tbl[ip].mac, now)]_vars

\* answers leave through the port the request came from; floods do not
Replies(msgs) == {j \in DOMAIN msgs : msgs[j].acts = <<Out(INPORT)>>}
\* a request for a known address is answered with the right MAC - and only then
AnswerRight ==
  [][last'.a = "ArpIn" =>
       LET a == last'.args
           r == Replies(last'.exp.msgs)
           ok == a.spa # "z" /\ a.op = 1 /\ Known(tbl', a.tpa) /\ (Strict => ~Expired(tbl'[a.tpa], now)) IN
       /\ (r # {}) <=> ok
       /\ Len(last'.exp.msgs) <= 1
       /\ \A j \in r : LET m == last'.exp.msgs[j] IN
            /\ m.inp = a.p /\ m.buf = 0 /\ m.data.es = "sw" /\ m.data.ed = a.sha
            /\ IF a.vl /\ ~Strict THEN m.data.k = "other:8100"            \* the deviation: not an ARP packet at all
               ELSE /\ m.data.k = Kind(a.vl) /\ m.data.op = 2
                    /\ m.data.sha = (IF tbl'[a.tpa].mac = "SW" THEN "sw" ELSE tbl'[a.tpa].mac)
                    /\ m.data.spa = a.tpa /\ m.data.tpa = a.spa /\ m.data.tha = a.sha
       \* an unanswered ARP is flooded unless it asks for an address marked "do not flood"
       /\ (r = {}) => (Len(last'.exp.msgs) = 1) <=> (~Known(tbl', a.tpa) \/ tbl'[a.tpa].flood \/ (Strict /\ Expired(tbl'[a.tpa], now)))]_vars
\* eat_packets: every ARP packet is halted, nothing else is
Eaten == [][(last'.a = "ArpIn" => last'.exp.halted = Eat) /\ (last'.a # "ArpIn" => ~last'.exp.halted)]_vars
\* the table follows the most recent ARP header (hwsrc, not the Ethernet source) unless a static entry is there
LearnFollows ==
  [][(last'.a = "ArpIn" /\ Learn /\ last'.args.spa # "z") =>
        LET ip == last'.args.spa IN
        IF ~Known(tbl, ip) \/ (~tbl[ip].static /\ tbl[ip].mac # "SW")
        THEN tbl'[ip] = Learned(last'.args.sha, now)
        ELSE tbl'[ip].mac = tbl[ip].mac]_vars
NoLearn == [][(last'.a = "ArpIn" /\ ~Learn) => tbl' = tbl]_vars
\* a failed query is remembered from the moment it fails until Timeout (+ timer granularity) later
FailedQueries ==
  /\ \A ip \in IPs : fq[ip] >= 0 => fq[ip] + Timeout + Period >= timer

Bound   == Len(hist) <= D
Export  == (Len(hist) = D) => PrintT(<<"H", ToJson(hist)>>)
ExportT == PrintT(<<"T", ToJson(hist')>>)
=============================================================================
