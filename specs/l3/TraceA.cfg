CONSTANTS
  IPs <- MdIPs
  Statics <- St2
  Ports = {1, 2, 3}
  NBuf = 6
  ArpSrcs <- MdArpSrcs
  Targets <- MdIPs
  SetMacs <- SmSetMacs
  ConsIPs = {"a", "h"}
  VLs = {FALSE, TRUE}
  Timeout = 240
  Period = 5
  Learn = TRUE
  Eat = TRUE
  Strict = FALSE
  Deltas = {}
  D = 0
INIT TrInit
NEXT TrNext
CONSTRAINT Progress
POSTCONDITION Accepted
INVARIANT TypeOK
INVARIANT SweptOnTime
INVARIANT SwitchMac
INVARIANT FailedQueries
CHECK_DEADLOCK FALSE
