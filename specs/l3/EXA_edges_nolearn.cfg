CONSTANTS
  IPs <- SmIPs
  Statics <- St2
  Ports = {1, 2}
  NBuf = 1
  ArpSrcs <- SmArpSrcs
  Targets <- SmIPs
  SetMacs = {"SW"}
  ConsIPs = {}
  VLs = {FALSE}
  Timeout = 10
  Period = 5
  Learn = FALSE
  Eat = FALSE
  Strict = FALSE
  Deltas = {5}
  D = 3
INIT Init
NEXT Next
VIEW view
ACTION_CONSTRAINT ExportT
CHECK_DEADLOCK FALSE
