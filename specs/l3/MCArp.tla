---- MODULE MCArp ----
EXTENDS ArpResp
A(p, es, sha, spa) == [p |-> p, es |-> es, sha |-> sha, spa |-> spa]
\* h has a static entry with an explicit MAC (ms), g is answered with the switch's own address
St2 == [h |-> "ms", g |-> "SW"]
NoStatics == [x \in {} |-> "-"]
SmIPs == {"a", "h", "g"}
\* a: learned host (its hwsrc mx differs from its Ethernet source m1); h: the owner of the static entry, and an impostor
SmArpSrcs == {A(1, "m1", "mx", "a"), A(2, "ms", "ms", "h"), A(2, "m3", "m3", "h")}
MdIPs == {"a", "b", "h", "g"}
MdArpSrcs == {A(1, "m1", "mx", "a"), A(1, "m1", "m3", "a"), A(2, "m2", "m2", "b"), A(2, "ms", "ms", "h"), A(2, "m3", "m3", "h"),
              A(1, "m1", "m1", "z"), A(2, "m2", "m2", "g")}
SmSetMacs == {"m2", "SW"}
SmDeltas == {1, 4, 5}
RealDeltas == {1, 4, 5, 10, 115, 230}
====
