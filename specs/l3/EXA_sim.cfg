CONSTANTS
  IPs <- MdIPs
  Statics <- St2
  Ports = {1, 2, 3}
  NBuf = 6
  ArpSrcs <- MdArpSrcs
  Targets <- MdIPs
  SetMacs <- SmSetMacs
  ConsIPs = {"a", "h"}
  VLs = {FALSE, TRUE}
  Timeout = 240
  Period = 5
  Learn = TRUE
  Eat = TRUE
  Strict = FALSE
  Deltas <- RealDeltas
  D = 60
INIT Init
NEXT Next
INVARIANT Export
CHECK_DEADLOCK FALSE
