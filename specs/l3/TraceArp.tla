---- MODULE TraceArp ----
(* Code -> spec: traces recorded from the real arp_responder component (seeded random driver, *)
(* props/X05.py:drive_arp) must be behaviours of ArpResp.tla.                                 *)
EXTENDS MCArp, IOUtils, TLCExt

Traces == JsonDeserialize(IOEnv.TRACE_FILE)
NT == Len(Traces)
VARIABLES tid, l
tvars == <<vars, tid, l>>

TrInit == Init /\ tid \in 1..NT /\ l = 1 /\ TLCSet(tid, 0)
Ev == Traces[tid][l]
IsEvent(e) == l <= Len(Traces[tid]) /\ Ev.a = e /\ l' = l + 1 /\ UNCHANGED tid

Same(e, o) == /\ e.pin = o.pin /\ e.msgs = o.msgs /\ e.out = ToSet(o.out) /\ e.errs = o.errs /\ e.halted = o.halted
              /\ e.st.tbl = o.st.tbl /\ e.st.fq = ToSet(o.st.fq)

TrUp    == IsEvent("Up") /\ Ev.wf /\ ConnUp /\ Same(last'.exp, Ev.obs)
TrArpIn ==
  /\ IsEvent("ArpIn") /\ Ev.wf
  /\ ArpIn([p |-> Ev.args.p, es |-> Ev.args.es, sha |-> Ev.args.sha, spa |-> Ev.args.spa], Ev.args.op, Ev.args.tpa, Ev.args.vl)
  /\ Same(last'.exp, Ev.obs)
TrOtherIn == IsEvent("OtherIn") /\ Ev.wf /\ OtherIn(Ev.args.p) /\ Same(last'.exp, Ev.obs)
TrSet == IsEvent("Set") /\ Ev.wf /\ Set(Ev.args.ip, Ev.args.mac, Ev.args.static) /\ Same(last'.exp, Ev.obs)
TrDel == IsEvent("Del") /\ Ev.wf /\ Del(Ev.args.ip) /\ Same(last'.exp, Ev.obs)
TrTick ==
  /\ IsEvent("Tick") /\ Ev.wf
  /\ (Advance(Ev.args.d) \/ TimerFires(Ev.args.d))
  /\ Same(last'.exp, Ev.obs)

TrNext == TrUp \/ TrArpIn \/ TrOtherIn \/ TrSet \/ TrDel \/ TrTick
TrSpec == TrInit /\ [][TrNext]_tvars

Progress == TLCSet(tid, IF TLCGet(tid) < l - 1 THEN l - 1 ELSE TLCGet(tid))
Ok(t) == TLCGet(t) = Len(Traces[t]) \/ (PrintT(<<"REJECT", t, TLCGet(t)>>) /\ FALSE)
Accepted == /\ PrintT(<<"TRACES-CHECKED", NT>>)
            /\ Cardinality({t \in 1..NT : ~Ok(t)}) = 0
====
