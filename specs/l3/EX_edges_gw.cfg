CONSTANTS
  IPs <- SmIPs
  Gws <- Gw1
  Ports = {1, 2}
  NBuf = 2
  Stations <- SmGwStations
  ArpSrcs <- SmGwArpSrcs
  Targets <- SmGwTargets
  ArpTimeout = 10
  BufTime = 5
  ArpGap = 4
  Period = 5
  MaxPerIP = 1
  FlowIdle = 10
  ArpForUnknowns = TRUE
  Strict = FALSE
  Deltas = {5}
  D = 3
INIT Init
NEXT Next
VIEW view
ACTION_CONSTRAINT ExportT
CHECK_DEADLOCK FALSE
