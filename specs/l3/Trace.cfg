CONSTANTS
  IPs <- MdIPs
  Gws <- Gw1
  Ports = {1, 2, 3}
  NBuf = 8
  Stations <- MdStations
  ArpSrcs <- MdArpSrcs
  Targets <- MdTargets
  ArpTimeout = 120
  BufTime = 5
  ArpGap = 4
  Period = 5
  MaxPerIP = 5
  FlowIdle = 10
  ArpForUnknowns = TRUE
  Strict = FALSE
  Deltas = {}
  D = 0
INIT TrInit
NEXT TrNext
CONSTRAINT Progress
POSTCONDITION Accepted
INVARIANT TypeOK
INVARIANT Bounded
INVARIANT RefsValid
INVARIANT NoLeak
INVARIANT NoForgotten
INVARIANT SweptOnTime
INVARIANT KnownMeansEmpty
CHECK_DEADLOCK FALSE
