CONSTANTS
  IPs <- SmIPs
  Gws <- Gw1
  Ports = {1, 2}
  NBuf = 2
  Stations <- SmStations
  ArpSrcs <- SmArpSrcs
  Targets <- SmTargets
  ArpTimeout = 5
  BufTime = 5
  ArpGap = 4
  Period = 5
  MaxPerIP = 1
  FlowIdle = 10
  ArpForUnknowns = TRUE
  Strict = FALSE
  Deltas = {4, 5}
  D = 3
INIT Init
NEXT Next
VIEW view
ACTION_CONSTRAINT ExportT
CHECK_DEADLOCK FALSE
