---- MODULE TraceL3 ----
(* Code -> spec: traces recorded from the real l3_learning component (seeded random driver,  *)
(* props/X05.py:drive_l3) must be behaviours of L3Learn.tla; every invariant is evaluated at *)
(* each matched step.                                                                        *)
EXTENDS MCL3, IOUtils, TLCExt

Traces == JsonDeserialize(IOEnv.TRACE_FILE)
NT == Len(Traces)
VARIABLES tid, l
tvars == <<vars, tid, l>>

TrInit == Init /\ tid \in 1..NT /\ l = 1 /\ TLCSet(tid, 0)
Ev == Traces[tid][l]
IsEvent(e) == l <= Len(Traces[tid]) /\ Ev.a = e /\ l' = l + 1 /\ UNCHANGED tid

\* the observation the code produced must be the one the spec yields
Same(e, o) == /\ e.pin = o.pin /\ e.msgs = o.msgs /\ e.out = ToSet(o.out) /\ e.errs = o.errs /\ e.st = o.st
SameTick(e, o) == /\ e.pin = o.pin /\ e.msgs = ToSet(o.msgs) /\ e.out = ToSet(o.out) /\ e.errs = o.errs /\ e.st = o.st

TrIpIn ==
  /\ IsEvent("IpIn") /\ Ev.wf
  /\ IpIn([ip |-> Ev.args.ip, mac |-> Ev.args.mac, p |-> Ev.args.p], Ev.args.dip)
  /\ Same(last'.exp, Ev.obs)
TrArpIn ==
  /\ IsEvent("ArpIn") /\ Ev.wf
  /\ ArpIn([p |-> Ev.args.p, es |-> Ev.args.es, sha |-> Ev.args.sha, spa |-> Ev.args.spa, ht |-> Ev.args.ht],
           Ev.args.op, Ev.args.tpa)
  /\ Same(last'.exp, Ev.obs)
TrOtherIn ==
  /\ IsEvent("OtherIn") /\ Ev.wf
  /\ OtherIn(Ev.args.p)
  /\ Same(last'.exp, Ev.obs)
TrTick ==
  /\ IsEvent("Tick") /\ Ev.wf
  /\ (Advance(Ev.args.d) \/ TimerFires(Ev.args.d))
  /\ SameTick(last'.exp, Ev.obs)

TrNext == TrIpIn \/ TrArpIn \/ TrOtherIn \/ TrTick
TrSpec == TrInit /\ [][TrNext]_tvars

Progress == TLCSet(tid, IF TLCGet(tid) < l - 1 THEN l - 1 ELSE TLCGet(tid))
Ok(t) == TLCGet(t) = Len(Traces[t]) \/ (PrintT(<<"REJECT", t, TLCGet(t)>>) /\ FALSE)
Accepted == /\ PrintT(<<"TRACES-CHECKED", NT>>)
            /\ Cardinality({t \in 1..NT : ~Ok(t)}) = 0
====
