CONSTANTS
  IPs <- SmIPs
  Statics <- St2
  Ports = {1, 2}
  NBuf = 2
  ArpSrcs <- SmArpSrcs
  Targets <- SmIPs
  SetMacs <- SmSetMacs
  ConsIPs = {"a"}
  VLs = {FALSE}
  Timeout = 10
  Period = 5
  Learn = TRUE
  Eat = TRUE
  Strict = FALSE
  Deltas = {5}
  D = 3
INIT Init
NEXT Next
VIEW view
ACTION_CONSTRAINT ExportT
CHECK_DEADLOCK FALSE
