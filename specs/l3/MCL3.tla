---- MODULE MCL3 ----
EXTENDS L3Learn
S(ip, mac, p) == [ip |-> ip, mac |-> mac, p |-> p]
A(p, es, sha, spa, ht) == [p |-> p, es |-> es, sha |-> sha, spa |-> spa, ht |-> ht]
\* small: a on port 1, b on port 2, and a second station claiming a's address on port 2 with another MAC
SmStations == {S("a", "m1", 1), S("b", "m2", 2), S("a", "m3", 2)}
SmArpSrcs == {A(1, "m1", "m1", "a", 1), A(2, "m2", "m2", "b", 1)}
SmIPs == {"a", "b"}
\* ... and a host that claims the fake gateway's address
SmGwStations == {S("a", "m1", 1), S("g", "m3", 2)}
SmGwArpSrcs == {A(1, "m1", "m1", "a", 1), A(2, "m3", "m3", "g", 1)}
SmGwTargets == {"a", "g"}
\* medium: more ARP variety (hwsrc differs from the Ethernet source, ARP probe 0.0.0.0, foreign hardware type)
MdStations == {S("a", "m1", 1), S("b", "m2", 2), S("a", "m3", 2), S("c", "m3", 3)}
MdArpSrcs == {A(1, "m1", "m1", "a", 1), A(2, "m2", "m2", "b", 1), A(2, "m3", "m3", "a", 1), A(3, "m3", "m3", "c", 1),
              A(1, "m1", "mx", "a", 1), A(1, "m1", "m1", "z", 1), A(2, "m2", "m2", "b", 6)}
MdIPs == {"a", "b", "c"}
\* a host that claims the gateway's address
GwStations == MdStations \cup {S("g", "m3", 3)}
GwArpSrcs == MdArpSrcs \cup {A(3, "m3", "m3", "g", 1)}
Gw1 == {"g"}
SmTargets == {"a", "b", "g"}
MdTargets == {"a", "b", "c", "g"}
SmDeltas == {1, 4, 5}
MdDeltas == {1, 2, 5, 10}
RealDeltas == {1, 4, 5, 10, 55, 111}
====
