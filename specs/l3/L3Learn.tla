---------------------------- MODULE L3Learn ----------------------------
(* X05: pox/forwarding/l3_learning.py - ARP table, buffers waiting for ARP,  *)
(* outstanding ARPs - as seen through one real OpenFlow 1.0 switch.          *)
(*                                                                          *)
(* Abstract state: virtual time `now` and the instant `timer` at which the   *)
(* component's recurring Timer(5) fires next; the per-switch table           *)
(* ip -> (port, mac, deadline); the buckets ip -> <<(deadline, buffer, port)>>*)
(* of packets waiting for ARP (lost_buffers); ip -> deadline of the last ARP *)
(* sent on behalf of waiting packets (outstanding_arps); the switch's packet *)
(* buffers (which packet a buffer id stands for, and WHY it is still held).  *)
(*                                                                          *)
(* One action per path of the PacketIn handler / of the timer callback.  A   *)
(* handler run is atomic (cooperative scheduler), so it is one step; what it *)
(* sends is a SEQUENCE of OpenFlow messages which the switch executes in     *)
(* order (RunMsgs) - the observer sees the messages, the frames leaving the  *)
(* ports, and error replies of the switch (there must be none).              *)
(*                                                                          *)
(* Named deviation (Strict = FALSE only): IpWaitForget - when a bucket holds *)
(* more than MaxPerIP packets the code forgets the oldest one WITHOUT        *)
(* telling the switch to drop it: the buffer is leaked ("leak" slot).  With  *)
(* Strict = TRUE the spec releases it instead (IpWaitRelease).               *)
EXTENDS Naturals, Integers, Sequences, FiniteSets, TLC, Json, SequencesExt

CONSTANTS IPs,            \* host addresses (symbols)
          Gws,            \* fake gateways (answered with the switch's MAC, never expire)
          Ports,          \* physical ports
          NBuf,           \* packet buffers of the switch
          Stations,       \* [ip, mac, p]: who may send IP packets
          ArpSrcs,        \* [p, es, sha, spa, ht]: who may send ARP (spa "z" = 0.0.0.0, ht = hardware type)
          Targets,        \* addresses packets are sent to / asked for
          ArpTimeout,     \* l3_learning.ARP_TIMEOUT
          BufTime,        \* l3_learning.MAX_BUFFER_TIME
          ArpGap,         \* the literal 4: do not ARP again for the same address before that
          Period,         \* the literal 5: period of the expiry timer
          MaxPerIP,       \* l3_learning.MAX_BUFFERED_PER_IP
          FlowIdle,       \* l3_learning.FLOW_IDLE_TIMEOUT
          ArpForUnknowns, \* launch option
          Strict,         \* TRUE: the documented intent (no leaked buffer); FALSE: what the code does
          Deltas,         \* amounts of time that may pass in one step
          D               \* export depth

AllIPs == IPs \cup Gws
FLOOD == 65531
INPORT == 65528
NONE == 65535

NoFrame == [k |-> "-", op |-> 0, es |-> "-", ed |-> "-", sha |-> "-", spa |-> "-", tha |-> "-", tpa |-> "-"]
IpFrame(st, dip) == [k |-> "ip", op |-> 0, es |-> st.mac, ed |-> "rt", sha |-> "-", spa |-> st.ip, tha |-> "-", tpa |-> dip]
\* an ARP frame from a host: requests are broadcast, replies go to the router address "rt"
ArpFrame(src, op, tpa) ==
  [k |-> IF src.ht = 1 THEN "arp" ELSE "arpx", op |-> op, es |-> src.es, ed |-> IF op = 1 THEN "bc" ELSE "rt",
   sha |-> src.sha, spa |-> src.spa, tha |-> IF op = 1 THEN "no" ELSE "rt", tpa |-> tpa]

NoEntry == [port |-> 0, mac |-> "-", exp |-> 0]
GwEntry == [port |-> NONE, mac |-> "sw", exp |-> 0]
Free == [w |-> "free", f |-> NoFrame, p |-> 0]
Held(f, p, w) == [w |-> w, f |-> f, p |-> p]
\* a buffer nobody will ever use again: its contents no longer matter
Junk(w) == [w |-> w, f |-> NoFrame, p |-> 0]

VARIABLES now,       \* virtual time (s) since the component was created
          timer,     \* when the expiry timer fires next
          tbl,       \* [AllIPs -> entry]   (port 0 = no entry)
          wait,      \* [AllIPs -> Seq([exp, buf, inp])]
          arps,      \* [AllIPs -> deadline] (0 = never ARPed)
          pool,      \* [1..NBuf -> slot] buffers of the switch
          last,      \* observation of the last step
          hist       \* all observations (export only; hidden by VIEW)
vars == <<now, timer, tbl, wait, arps, pool, last, hist>>

\* ---- messages the controller sends / what the switch does with them
Dst(m) == [t |-> "dst", m |-> m, o |-> 0]
Out(o) == [t |-> "out", m |-> "-", o |-> o]
Po(buf, inp, acts, data) == [k |-> "po", buf |-> buf, inp |-> inp, acts |-> acts, data |-> data, mt |-> "-", idle |-> 0]
Fm(buf, acts, mt, idle)  == [k |-> "fm", buf |-> buf, inp |-> 0, acts |-> acts, data |-> NoFrame, mt |-> mt, idle |-> idle]

OutPorts(o, inp) ==
  IF o = FLOOD THEN Ports \ {inp}
  ELSE IF o = INPORT THEN {inp} \cap Ports
  ELSE IF o \in Ports /\ o # inp THEN {o}
  ELSE {}

\* sw = [pool, out, errs]: apply an action list to frame f that came in on port inp
RECURSIVE RunActs(_, _, _, _)
RunActs(acts, f, inp, out) ==
  IF acts = <<>> THEN out
  ELSE LET a == Head(acts) IN
       IF a.t = "dst" THEN RunActs(Tail(acts), [f EXCEPT !.ed = a.m], inp, out)
       ELSE RunActs(Tail(acts), f, inp, out \o SetToSeq({<<q, f>> : q \in OutPorts(a.o, inp)}))

SwExec(sw, m) ==
  IF m.buf # 0
  THEN IF sw.pool[m.buf].w = "free"
       THEN [sw EXCEPT !.errs = @ + 1]                    \* BUFFER_EMPTY / BUFFER_UNKNOWN: must never happen
       ELSE [sw EXCEPT !.pool = [@ EXCEPT ![m.buf] = Free],
                       !.out = RunActs(m.acts, sw.pool[m.buf].f, sw.pool[m.buf].p, @)]
  ELSE IF m.data # NoFrame /\ m.k = "po"
       THEN [sw EXCEPT !.out = RunActs(m.acts, m.data, m.inp, @)]
       ELSE sw                                             \* nothing to send (packet was not buffered)

RECURSIVE RunMsgs(_, _)
RunMsgs(msgs, sw) == IF msgs = <<>> THEN sw ELSE RunMsgs(Tail(msgs), SwExec(sw, Head(msgs)))

Bag(em) == {<<em[i][1], em[i][2], Cardinality({j \in DOMAIN em : em[j] = em[i]})>> : i \in DOMAIN em}

\* ---- projections (what the component's tables look like, deadlines relative to now, expired = -1)
Rel(t, n) == IF t < n THEN 0 - 1 ELSE t - n
TblView(t, n)  == [ip \in AllIPs |-> IF t[ip].port = 0 THEN <<0, "-", 0>> ELSE
                                     <<t[ip].port, t[ip].mac, IF t[ip].port = NONE THEN 0 ELSE Rel(t[ip].exp, n)>>]
WaitView(w, n) == [ip \in AllIPs |-> [i \in DOMAIN w[ip] |-> <<Rel(w[ip][i].exp, n), w[ip][i].buf, w[ip][i].inp>>]]
ArpsView(a, n) == [ip \in AllIPs |-> IF a[ip] > n THEN a[ip] - n ELSE 0]
St(t, w, a, n) == [tbl |-> TblView(t, n), wait |-> WaitView(w, n), arps |-> ArpsView(a, n)]

view == <<TblView(tbl, now), WaitView(wait, now), ArpsView(arps, now), timer - now, pool>>

NoObs == [a |-> "Init", args |-> [x |-> 0], exp |-> [x |-> 0]]

Init == /\ now = 0 /\ timer = Period
        /\ tbl = [ip \in AllIPs |-> IF ip \in Gws THEN GwEntry ELSE NoEntry]
        /\ wait = [ip \in AllIPs |-> <<>>]
        /\ arps = [ip \in AllIPs |-> 0]
        /\ pool = [s \in 1..NBuf |-> Free]
        /\ last = NoObs /\ hist = <<>>

\* `via` names the spec action that produced the step (not compared with anything; used to count what the
\* replayed behaviours exercised)
LogV(a, args, exp, via) ==
  /\ last' = [a |-> a, args |-> args, exp |-> exp]
  /\ hist' = Append(hist, [a |-> a, args |-> args, exp |-> exp, via |-> via])
Log(a, args, exp) == LogV(a, args, exp, a)

FreeSlots == {s \in 1..NBuf : pool[s].w = "free"}
MinOf(S) == CHOOSE x \in S : \A y \in S : x <= y
Alloc == IF FreeSlots = {} THEN 0 ELSE MinOf(FreeSlots)
\* the frame of a packet-in is stored by the switch (if there is room) before the controller hears of it
Stored(s, f, p, w) == IF s = 0 THEN pool ELSE [pool EXCEPT ![s] = Held(f, p, w)]

Expired(e) == e.port # NONE /\ now > e.exp
Known(t, ip) == t[ip].port # 0
Learn(ip, p, mac) == [tbl EXCEPT ![ip] = [port |-> p, mac |-> mac, exp |-> now + ArpTimeout]]
\* _send_lost_buffers: every packet waiting for ip leaves with the learned MAC through the learned port
FlushMsgs(ip, mac, p) == [i \in DOMAIN wait[ip] |-> Po(wait[ip][i].buf, wait[ip][i].inp, <<Dst(mac), Out(p)>>, NoFrame)]

\* common tail of every packet-in step: run the messages on the switch, log
Finish(a, via, args, s, msgs, pool1, tbl1, wait1, arps1) ==
  LET sw == RunMsgs(msgs, [pool |-> pool1, out |-> <<>>, errs |-> 0]) IN
  /\ pool' = sw.pool /\ tbl' = tbl1 /\ wait' = wait1 /\ arps' = arps1
  /\ UNCHANGED <<now, timer>>
  /\ LogV(a, args, [pin |-> s, msgs |-> msgs, out |-> Bag(sw.out), errs |-> sw.errs,
                    st |-> St(tbl1, wait1, arps1, now)], via)

IpArgs(st, dip) == [ip |-> st.ip, mac |-> st.mac, p |-> st.p, dip |-> dip]

\* ---- an IP packet from station st to dip reaches the controller
\* destination known, other port: FLOW_MOD naming the buffer (the switch forwards the packet)
IpForward(st, dip) ==
  LET s == Alloc
      tbl1 == Learn(st.ip, st.p, st.mac)
      e == tbl1[dip] IN
  /\ Known(tbl1, dip) /\ e.port # st.p
  /\ Finish("IpIn", "IpForward", IpArgs(st, dip), s,
            FlushMsgs(st.ip, st.mac, st.p) \o <<Fm(s, <<Dst(e.mac), Out(e.port)>>, "exact", FlowIdle)>>,
            Stored(s, IpFrame(st, dip), st.p, "other"), tbl1, [wait EXCEPT ![st.ip] = <<>>], arps)

\* destination known on the port the packet came from: nothing is sent (the buffer stays held)
IpSamePort(st, dip) ==
  LET s == Alloc
      tbl1 == Learn(st.ip, st.p, st.mac) IN
  /\ Known(tbl1, dip) /\ tbl1[dip].port = st.p
  /\ Finish("IpIn", "IpSamePort", IpArgs(st, dip), s, FlushMsgs(st.ip, st.mac, st.p),
            IF s = 0 THEN pool ELSE [pool EXCEPT ![s] = Junk("other")], tbl1, [wait EXCEPT ![st.ip] = <<>>], arps)

\* destination unknown, no ARPing: nothing happens
IpIgnore(st, dip) ==
  LET s == Alloc
      tbl1 == Learn(st.ip, st.p, st.mac) IN
  /\ ~ArpForUnknowns /\ ~Known(tbl1, dip)
  /\ Finish("IpIn", "IpIgnore", IpArgs(st, dip), s, FlushMsgs(st.ip, st.mac, st.p),
            IF s = 0 THEN pool ELSE [pool EXCEPT ![s] = Junk("other")], tbl1, [wait EXCEPT ![st.ip] = <<>>], arps)

ArpReq(st, dip) == [k |-> "arp", op |-> 1, es |-> st.mac, ed |-> "bc", sha |-> st.mac, spa |-> st.ip, tha |-> "bc", tpa |-> dip]
\* ARP on behalf of the waiting packet unless one was sent less than ArpGap ago
ArpMsgs(st, dip) == IF arps[dip] > now THEN <<>> ELSE <<Po(0, st.p, <<Out(FLOOD)>>, ArpReq(st, dip))>>
ArpsAfter(dip)   == IF arps[dip] > now THEN arps ELSE [arps EXCEPT ![dip] = now + ArpGap]

\* destination unknown: the packet waits in its bucket
IpWaitCommon(st, dip, over, relMsgs, fate, via) ==
  LET s == Alloc
      tbl1 == Learn(st.ip, st.p, st.mac)
      bucket == Append(wait[dip], [exp |-> now + BufTime, buf |-> s, inp |-> st.p])
      old == Head(bucket)
      pool0 == Stored(s, IpFrame(st, dip), st.p, "wait")
      pool1 == IF over /\ old.buf # 0 /\ fate = "leak" THEN [pool0 EXCEPT ![old.buf] = Junk("leak")] ELSE pool0 IN
  /\ ArpForUnknowns /\ ~Known(tbl1, dip)
  /\ over = (Len(bucket) > MaxPerIP)
  /\ Finish("IpIn", via, IpArgs(st, dip), s,
            FlushMsgs(st.ip, st.mac, st.p) \o (IF relMsgs THEN <<Po(old.buf, old.inp, <<>>, NoFrame)>> ELSE <<>>)
              \o ArpMsgs(st, dip),
            pool1, tbl1,
            [wait EXCEPT ![st.ip] = <<>>, ![dip] = IF over THEN Tail(bucket) ELSE bucket],
            ArpsAfter(dip))

IpWait(st, dip)        == dip \in Targets /\ IpWaitCommon(st, dip, FALSE, FALSE, "-", "IpWait")
\* DEVIATION (what the code does): the oldest waiting packet is forgotten, its buffer stays held for ever
IpWaitForget(st, dip)  == ~Strict /\ IpWaitCommon(st, dip, TRUE, FALSE, "leak", "IpWaitForget")
\* documented intent ("maximum number of packets to buffer on a switch"): the switch is told to drop it
IpWaitRelease(st, dip) == Strict /\ IpWaitCommon(st, dip, TRUE, TRUE, "-", "IpWaitRelease")

\* ---- an ARP packet reaches the controller
ArpArgs(src, op, tpa) == [p |-> src.p, es |-> src.es, sha |-> src.sha, spa |-> src.spa, ht |-> src.ht, op |-> op, tpa |-> tpa]
ArpValid(src) == src.spa # "z" /\ src.ht = 1
ArpTbl(src)   == IF ArpValid(src) THEN Learn(src.spa, src.p, src.es) ELSE tbl
ArpFlush(src) == IF ArpValid(src) THEN FlushMsgs(src.spa, src.es, src.p) ELSE <<>>
ArpWait(src)  == IF ArpValid(src) THEN [wait EXCEPT ![src.spa] = <<>>] ELSE wait
Answerable(src, op, tpa) ==
  LET t == ArpTbl(src) IN ArpValid(src) /\ op = 1 /\ Known(t, tpa) /\ ~Expired(t[tpa])

\* a request for an address in the table that is not older than ArpTimeout is answered from the table
ArpAnswer(src, op, tpa) ==
  LET s == Alloc
      t == ArpTbl(src)
      reply == [k |-> "arp", op |-> 2, es |-> "sw", ed |-> src.sha, sha |-> t[tpa].mac, spa |-> tpa,
                tha |-> src.sha, tpa |-> src.spa] IN
  /\ Answerable(src, op, tpa)
  /\ Finish("ArpIn", "ArpAnswer", ArpArgs(src, op, tpa), s,
            ArpFlush(src) \o <<Po(0, src.p, <<Out(INPORT)>>, reply)>>,
            IF s = 0 THEN pool ELSE [pool EXCEPT ![s] = Junk("other")], t, ArpWait(src), arps)

\* anything else is flooded (from its buffer if it has one)
ArpFlood(src, op, tpa) ==
  LET s == Alloc
      f == ArpFrame(src, op, tpa) IN
  /\ ~Answerable(src, op, tpa)
  /\ Finish("ArpIn", "ArpFlood", ArpArgs(src, op, tpa), s,
            ArpFlush(src) \o <<Po(s, src.p, <<Out(FLOOD)>>, IF s = 0 THEN f ELSE NoFrame)>>,
            Stored(s, f, src.p, "other"), ArpTbl(src), ArpWait(src), arps)

\* neither IP nor ARP: ignored
OtherIn(p) ==
  LET s == Alloc IN
  p \in Ports /\
  Finish("OtherIn", "OtherIn", [p |-> p], s, <<>>, IF s = 0 THEN pool ELSE [pool EXCEPT ![s] = Junk("other")], tbl, wait, arps)

\* ---- time
\* d seconds pass and no timer instant is reached
Advance(d) ==
  /\ now + d < timer
  /\ now' = now + d
  /\ UNCHANGED <<timer, tbl, wait, arps, pool>>
  /\ LogV("Tick", [d |-> d], [pin |-> 0, msgs |-> {}, out |-> {}, errs |-> 0, st |-> St(tbl, wait, arps, now + d)], "Advance")

\* d seconds pass and the timer fires (once or several times): _handle_expiration tells the switch to drop
\* every waiting packet whose deadline lies before the instant of the firing
TimerFires(d) ==
  LET fire == timer + ((now + d - timer) \div Period) * Period         \* the last instant <= now + d
      gone(ip) == {i \in DOMAIN wait[ip] : wait[ip][i].exp < fire}
      msgs == [ip \in AllIPs |-> [i \in DOMAIN wait[ip] |-> Po(wait[ip][i].buf, wait[ip][i].inp, <<>>, NoFrame)]]
      sent == {<<ip, i>> \in AllIPs \X (1..MaxPerIP) : i \in gone(ip)}
      all == SetToSeq({msgs[x[1]][x[2]] : x \in sent})                  \* distinct buffers -> any order
      sw == RunMsgs(all, [pool |-> pool, out |-> <<>>, errs |-> 0])
      \* unbuffered packets (buf 0) give identical messages: count them
      cnt(m) == Cardinality({x \in sent : msgs[x[1]][x[2]] = m})
      wait1 == [ip \in AllIPs |-> SelectSeq(wait[ip], LAMBDA e : ~(e.exp < fire))] IN
  /\ now + d >= timer
  /\ now' = now + d /\ timer' = fire + Period
  /\ pool' = sw.pool /\ wait' = wait1
  /\ UNCHANGED <<tbl, arps>>
  /\ LogV("Tick", [d |-> d], [pin |-> 0, msgs |-> {<<m, cnt(m)>> : m \in ToSet(all)}, out |-> Bag(sw.out), errs |-> sw.errs,
                              st |-> St(tbl, wait1, arps, now + d)], "TimerFires")

IpIn(st, dip) == \/ IpForward(st, dip) \/ IpSamePort(st, dip) \/ IpIgnore(st, dip)
                 \/ IpWait(st, dip) \/ IpWaitForget(st, dip) \/ IpWaitRelease(st, dip)
ArpIn(src, op, tpa) == ArpAnswer(src, op, tpa) \/ ArpFlood(src, op, tpa)

NextIp    == \E st \in Stations, dip \in Targets : IpIn(st, dip)
NextArp   == \E src \in ArpSrcs, op \in {1, 2}, tpa \in Targets : ArpIn(src, op, tpa)
NextOther == \E p \in Ports : OtherIn(p)
NextTime  == \E d \in Deltas : Advance(d) \/ TimerFires(d)
Next == NextIp \/ NextArp \/ NextOther \/ NextTime

Spec == Init /\ [][Next]_vars

----------------------------------------------------------------------------
(* The properties, over the real variables.                                  *)
Entries == [port : Ports \cup {0, NONE}, mac : STRING, exp : Nat]
TypeOK ==
  /\ now \in Nat /\ timer \in Nat /\ timer > now /\ timer <= now + Period
  /\ \A ip \in AllIPs : /\ tbl[ip].port \in Ports \cup {0, NONE}
                        /\ arps[ip] \in Nat
                        /\ \A i \in DOMAIN wait[ip] : wait[ip][i].buf \in 0..NBuf /\ wait[ip][i].inp \in Ports
  /\ \A s \in 1..NBuf : pool[s].w \in {"free", "wait", "other", "leak"}

WaitRefs == {<<ip, i>> \in AllIPs \X (1..(MaxPerIP + 1)) : i \in DOMAIN wait[ip]}

\* the number of packets waiting for one address is bounded as documented
Bounded == \A ip \in AllIPs : Len(wait[ip]) <= MaxPerIP

\* a waiting entry names a buffer that still holds exactly that packet; no buffer is named twice
RefsValid ==
  /\ \A x \in WaitRefs : LET e == wait[x[1]][x[2]] IN
       e.buf # 0 => /\ pool[e.buf].w = "wait" /\ pool[e.buf].f.tpa = x[1] /\ pool[e.buf].p = e.inp
  /\ \A x, y \in WaitRefs : (x # y /\ wait[x[1]][x[2]].buf # 0) => wait[x[1]][x[2]].buf # wait[y[1]][y[2]].buf

\* never leaked: a buffer held because its packet waits for ARP is still on somebody's list
NoLeak == \A s \in 1..NBuf : pool[s].w = "wait" => \E x \in WaitRefs : wait[x[1]][x[2]].buf = s
\* ... and with the documented intent nothing is ever forgotten
NoForgotten == Strict => \A s \in 1..NBuf : pool[s].w # "leak"

\* a waiting packet does not survive the first timer instant after its deadline
SweptOnTime == \A x \in WaitRefs : wait[x[1]][x[2]].exp + Period >= timer
\* packets wait only for addresses that are unknown; known addresses have nothing waiting... is NOT claimed:
\* an address learned from the packets of a third party is known while older packets still wait for it?  No -
\* learning an address always flushes its bucket:
KnownMeansEmpty == \A ip \in AllIPs : Known(tbl, ip) => wait[ip] = <<>>
GwStatic == \A g \in Gws : tbl[g].port = NONE => ~Expired(tbl[g])

\* every waiting packet that leaves its bucket is handed to the switch exactly once in that step - forwarded
\* (actions) when its address was learned, released (no actions) when it expired; never both, never twice
LeavesOnce ==
  [][\A x \in WaitRefs : LET e == wait[x[1]][x[2]] IN
       (e.buf # 0 /\ ~\E i \in DOMAIN wait'[x[1]] : wait'[x[1]][i].buf = e.buf /\ wait'[x[1]][i].exp = e.exp)
       => \/ /\ last'.a \in {"IpIn", "ArpIn"}
             /\ Cardinality({j \in DOMAIN last'.exp.msgs : last'.exp.msgs[j].buf = e.buf}) = 1
             /\ \A j \in DOMAIN last'.exp.msgs : last'.exp.msgs[j].buf = e.buf =>
                   IF Known(tbl', x[1]) THEN last'.exp.msgs[j].acts = <<Dst(tbl'[x[1]].mac), Out(tbl'[x[1]].port)>>
                   ELSE Strict /\ last'.exp.msgs[j].acts = <<>>
             /\ pool'[e.buf].w = "free"
          \/ /\ last'.a = "Tick" /\ e.exp < now'
             /\ \E m \in last'.exp.msgs : m[1].buf = e.buf /\ m[1].acts = <<>> /\ m[2] = 1
             /\ pool'[e.buf].w = "free"
          \/ ~Strict /\ last'.a = "IpIn" /\ pool'[e.buf].w = "leak"]_vars

\* the switch never has to refuse a buffer id (used twice / never issued)
NoSwitchError == [][last'.exp.errs = 0]_vars

\* an ARP request is answered iff the address is in the table and not older than ArpTimeout (gateways: always),
\* and then with the MAC in the table
Replies(msgs) == {j \in DOMAIN msgs : msgs[j].data.k = "arp" /\ msgs[j].data.op = 2 /\ msgs[j].data.es = "sw"}
AnswerRight ==
  [][last'.a = "ArpIn" =>
       LET a == last'.args
           r == Replies(last'.exp.msgs)
           ok == a.spa # "z" /\ a.ht = 1 /\ a.op = 1 /\ Known(tbl', a.tpa) /\ ~Expired(tbl'[a.tpa]) IN
       /\ (r # {}) <=> ok
       /\ Cardinality(r) <= 1
       /\ \A j \in r : LET m == last'.exp.msgs[j] IN
            /\ m.data.sha = tbl'[a.tpa].mac /\ m.data.spa = a.tpa /\ m.data.tpa = a.spa /\ m.data.tha = a.sha
            /\ m.data.ed = a.sha /\ m.inp = a.p /\ m.acts = <<Out(INPORT)>>]_vars
AnswerOther == [][IF last'.a \in {"IpIn", "OtherIn"} THEN Replies(last'.exp.msgs) = {} ELSE TRUE]_vars

\* learned (ip -> mac, port) follows the most recent packet
LearnFollows ==
  [][/\ last'.a = "IpIn" => tbl'[last'.args.ip] = [port |-> last'.args.p, mac |-> last'.args.mac, exp |-> now + ArpTimeout]
     /\ (last'.a = "ArpIn" /\ last'.args.spa # "z" /\ last'.args.ht = 1) =>
          tbl'[last'.args.spa] = [port |-> last'.args.p, mac |-> last'.args.es, exp |-> now + ArpTimeout]
     /\ \A ip \in AllIPs : tbl'[ip] # tbl[ip] =>
          (last'.a \in {"IpIn", "ArpIn"} /\ ip = (IF last'.a = "IpIn" THEN last'.args.ip ELSE last'.args.spa))]_vars

\* an ARP is sent on behalf of a waiting packet at most once per ArpGap and address
ArpPacing ==
  [][last'.a = "IpIn" =>
       \A j \in DOMAIN last'.exp.msgs : (last'.exp.msgs[j].data.k = "arp" /\ last'.exp.msgs[j].data.op = 1) =>
          /\ ~(arps[last'.exp.msgs[j].data.tpa] > now) /\ arps'[last'.exp.msgs[j].data.tpa] = now + ArpGap]_vars

\* ---- export for the replay harness
Bound   == Len(hist) <= D
Export  == (Len(hist) = D) => PrintT(<<"H", ToJson(hist)>>)
ExportT == PrintT(<<"T", ToJson(hist')>>)
=============================================================================
