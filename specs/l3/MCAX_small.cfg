CONSTANTS
  IPs <- SmIPs
  Statics <- St2
  Ports = {1, 2}
  NBuf = 1
  ArpSrcs <- SmArpSrcs
  Targets <- SmIPs
  SetMacs = {"SW"}
  ConsIPs = {}
  VLs = {FALSE, TRUE}
  Timeout = 1
  Period = 5
  Learn = TRUE
  Eat = TRUE
  Strict = FALSE
  Deltas = {1, 5}
  D = 3
INIT Init
NEXT Next
VIEW view
ACTION_CONSTRAINT ExportT
INVARIANT TypeOK
INVARIANT SweptOnTime
INVARIANT SwitchMac
INVARIANT FailedQueries
PROPERTY StaticsStay
PROPERTY AnswerRight
PROPERTY Eaten
PROPERTY LearnFollows
PROPERTY NoLearn
CHECK_DEADLOCK FALSE
