CONSTANTS
  Hosts <- H1
  HostPort <- MCHostPort
  SPorts <- T_SPorts
  Dsts <- R1
  Remotes <- R1
  Locals <- MCLocals
  DPorts <- DP80
  Protos <- P6
  Rnds <- Rnd1
  InPorts <- T_InPorts
  GwMacs <- GW1
  Vias <- Via1
  HasDns = FALSE
  Strict = TRUE
  Unit = 30
  Period = 2
  FlowT = 2
  MemT = 4
  LowLimit = 1024
  DynLo = 49152
  DynWrap = 65534
  OutPort = 3
  D = 0
INIT Init
NEXT Next
VIEW viewE
INVARIANT TypeOK
INVARIANT KeysUnique
INVARIANT NoSharedPort
INVARIANT NoAmbiguousAnswer
INVARIANT UsedConsistent
INVARIANT PortInRange
INVARIANT RoundTrip
PROPERTY DeliveredToOpener
INVARIANT ExpiryPrompt
INVARIANT TimerAlive
PROPERTY RemovedOnlyIdle
PROPERTY PortFreedOnlyByExpiry
PROPERTY PortStable
CONSTRAINT MaxBlocked1
CHECK_DEADLOCK FALSE
