CONSTANTS
  Hosts <- H1
  HostPort <- MCHostPort
  SPorts <- P_SPorts
  Dsts <- R2
  Remotes <- R2
  Locals <- MCLocals
  DPorts <- DP80
  Protos <- P6
  Rnds <- P_Rnds
  InPorts <- NoPorts
  GwMacs <- GW1
  Vias <- Via1
  HasDns = FALSE
  Strict = FALSE
  Unit = 30
  Period = 1
  FlowT = 0
  MemT = 0
  LowLimit = 3
  DynLo = 6
  DynWrap = 9
  OutPort = 3
  D = 0
INIT Init
NEXT NextCore
VIEW viewE
INVARIANT TypeOK
INVARIANT KeysUnique
INVARIANT NoSharedPort
INVARIANT NoAmbiguousAnswer
INVARIANT UsedConsistent
INVARIANT PortInRange
INVARIANT RoundTrip
PROPERTY DeliveredToOpener
INVARIANT ExpiryPrompt
INVARIANT TimerAlive
PROPERTY RemovedOnlyIdle
PROPERTY PortFreedOnlyByExpiry
PROPERTY PortStable
CONSTRAINT MaxBlocked1
CHECK_DEADLOCK FALSE
