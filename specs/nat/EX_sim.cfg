CONSTANTS
  Hosts <- H2
  HostPort <- MCHostPort
  SPorts <- X_SPorts
  Dsts <- X_Dsts
  Remotes <- R2
  Locals <- MCLocals
  DPorts <- F_DPorts
  Protos <- F_Protos
  Rnds <- X_Rnds
  InPorts <- X_InPorts
  GwMacs <- GW2
  Vias <- Via3
  HasDns = TRUE
  Strict = FALSE
  Unit = 30
  Period = 2
  FlowT = 2
  MemT = 20
  LowLimit = 1024
  DynLo = 49152
  DynWrap = 65534
  OutPort = 3
  D = 80
INIT Init
NEXT Next
INVARIANT Export
CHECK_DEADLOCK FALSE
