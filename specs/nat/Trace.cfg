CONSTANTS
  Hosts <- H2
  HostPort <- MCHostPort
  SPorts <- X_SPorts
  Dsts <- X_Dsts
  Remotes <- R2
  Locals <- MCLocals
  DPorts <- F_DPorts
  Protos <- F_Protos
  Rnds <- X_Rnds
  InPorts <- X_InPorts
  GwMacs <- GW2
  Vias <- Via3
  HasDns = TRUE
  Strict = FALSE
  Unit = 30
  Period = 2
  FlowT = 2
  MemT = 20
  LowLimit = 1024
  DynLo = 49152
  DynWrap = 65534
  OutPort = 3
  D = 0
INIT TrInit
NEXT TrNext
CONSTRAINT Progress
POSTCONDITION Accepted
INVARIANT TypeOK
INVARIANT KeysUnique
INVARIANT NoSharedPort
INVARIANT NoAmbiguousAnswer
INVARIANT UsedConsistent
INVARIANT PortInRange
INVARIANT RoundTrip
INVARIANT ExpiryPrompt
INVARIANT TimerAlive
PROPERTY DeliveredToOpener
PROPERTY RemovedOnlyIdle
PROPERTY PortFreedOnlyByExpiry
PROPERTY PortStable
CHECK_DEADLOCK FALSE
