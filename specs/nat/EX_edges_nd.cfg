CONSTANTS
  Hosts <- H1
  HostPort <- MCHostPort
  SPorts <- S1
  Dsts <- F_Dsts
  Remotes <- R1
  Locals <- MCLocals
  DPorts <- DP53
  Protos <- P17
  Rnds <- F_Rnds
  InPorts <- NoPorts
  GwMacs <- GW1
  Vias <- Via1
  HasDns = FALSE
  Strict = FALSE
  Unit = 30
  Period = 2
  FlowT = 2
  MemT = 2
  LowLimit = 1024
  DynLo = 49152
  DynWrap = 65534
  OutPort = 3
  D = 0
INIT Init
NEXT Next
VIEW viewE
ACTION_CONSTRAINT ExportT
CONSTRAINT MaxMaps1
CONSTRAINT MaxBlocked1
CHECK_DEADLOCK FALSE
