CONSTANTS
  Hosts <- H2
  HostPort <- MCHostPort
  SPorts <- PP_SPorts
  Dsts <- R1
  Remotes <- R1
  Locals <- MCLocals
  DPorts <- DP80
  Protos <- F_Protos
  Rnds <- PP_Rnds
  InPorts <- NoPorts
  GwMacs <- GW1
  Vias <- Via1
  HasDns = FALSE
  Strict = FALSE
  Unit = 30
  Period = 2
  FlowT = 2
  MemT = 2
  LowLimit = 1024
  DynLo = 49152
  DynWrap = 65534
  OutPort = 3
  D = 0
INIT Init
NEXT NextCore
VIEW viewE
ACTION_CONSTRAINT ExportT
CONSTRAINT MaxMaps2
CONSTRAINT MaxBlocked1
CONSTRAINT NoTime
CHECK_DEADLOCK FALSE
