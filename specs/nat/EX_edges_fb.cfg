CONSTANTS
  Hosts <- H1
  HostPort <- MCHostPort
  SPorts <- S1
  Dsts <- R1
  Remotes <- R1
  Locals <- MCLocals
  DPorts <- DP80
  Protos <- P6
  Rnds <- Rnd1
  InPorts <- NoPorts
  GwMacs <- GW2
  Vias <- Via3
  HasDns = FALSE
  Strict = FALSE
  Unit = 30
  Period = 2
  FlowT = 2
  MemT = 2
  LowLimit = 1024
  DynLo = 49152
  DynWrap = 65534
  OutPort = 3
  D = 0
INIT Init
NEXT NextCore
VIEW viewE
ACTION_CONSTRAINT ExportT
CONSTRAINT MaxBlocked1
CHECK_DEADLOCK FALSE
