CONSTANTS
  Hosts <- H2
  HostPort <- MCHostPort
  SPorts <- F_SPorts
  Dsts <- F_Dsts
  Remotes <- R1
  Locals <- MCLocals
  DPorts <- F_DPorts
  Protos <- F_Protos
  Rnds <- F_Rnds
  InPorts <- F_InPorts
  GwMacs <- GW2
  Vias <- Via3
  HasDns = TRUE
  Strict = FALSE
  Unit = 30
  Period = 2
  FlowT = 2
  MemT = 2
  LowLimit = 1024
  DynLo = 49152
  DynWrap = 65534
  OutPort = 3
  D = 0
INIT Init
NEXT Next
VIEW viewE
ACTION_CONSTRAINT ExportT
CONSTRAINT MaxMaps1
CONSTRAINT MaxBlocked1
CHECK_DEADLOCK FALSE
