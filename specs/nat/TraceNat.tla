---- MODULE TraceNat ----
(* Code -> spec: traces recorded from the real NAT + switch (seeded random driver) must be behaviours of    *)
(* NatTable.tla; every invariant is evaluated at each matched step.  An event names what the environment did *)
(* ("Out", "In", ...) with its arguments and carries the full observation; which case of the specification   *)
(* applies (new / reinstall / fast / ...) is for TLC to find out: the event matches iff SOME case is enabled *)
(* and yields exactly the logged observation.                                                                *)
EXTENDS MCNatTable, IOUtils, TLCExt, SequencesExt

Traces == JsonDeserialize(IOEnv.TRACE_FILE)
NT == Len(Traces)
VARIABLES tid, l
tvars == <<vars, tid, l>>

TrInit == Init /\ tid \in 1..NT /\ l = 1 /\ TLCSet(tid, 0)
Ev == Traces[tid][l]
IsEvent(e) == l <= Len(Traces[tid]) /\ Ev.a = e /\ l' = l + 1 /\ UNCHANGED tid

\* the logged observation is what the spec yields (JSON arrays are sequences: sets are compared as sets)
ObsOK ==
  /\ Ev.wf
  /\ LET e == last'.exp o == Ev.obs IN
     /\ e.pin = o.pin /\ e.fms = o.fms /\ e.em = ToSet(o.em) /\ e.arp = ToSet(o.arp) /\ e.rnd = o.rnd
     /\ e.frem = o.frem /\ e.err = o.err /\ e.tbl = ToSet(o.tbl) /\ e.used = ToSet(o.used)
     /\ e.nflows = o.nflows /\ e.gw = o.gw /\ e.due = o.due

TrStart == IsEvent("Start") /\ Start(Ev.args.late) /\ ObsOK
TrArpReply == IsEvent("ArpReply") /\ ArpReply(Ev.args.port, Ev.args.spa, Ev.args.sha) /\ ObsOK
TrArpRequest == IsEvent("ArpRequest") /\ ArpRequest(Ev.args.port, Ev.args.asker, Ev.args.tpa) /\ ObsOK
TrOut ==
  /\ IsEvent("Out")
  /\ LET x == Ev.args IN
       \/ OutNoGw(x.h, x.sp, x.d, x.dp, x.pr) \/ OutIgnored(x.h, x.sp, x.d, x.dp, x.pr)
       \/ OutReinstall(x.h, x.sp, x.d, x.dp, x.pr) \/ OutFast(x.h, x.sp, x.d, x.dp, x.pr)
       \/ OutNew(x.h, x.sp, x.d, x.dp, x.pr, x.rnd) \/ OutNoPort(x.h, x.sp, x.d, x.dp, x.pr, x.rnd)
       \/ OutNoPortDefect(x.h, x.sp, x.d, x.dp, x.pr, x.rnd)
  /\ ObsOK
TrIn ==
  /\ IsEvent("In")
  /\ LET x == Ev.args IN
       \/ InNoGw(x.via, x.r, x.rp, x.fp, x.pr) \/ InBlocked(x.via, x.r, x.rp, x.fp, x.pr)
       \/ InFast(x.via, x.r, x.rp, x.fp, x.pr) \/ InReinstall(x.via, x.r, x.rp, x.fp, x.pr)
       \/ InUnsolicited(x.via, x.r, x.rp, x.fp, x.pr)
  /\ ObsOK
TrOther == IsEvent("Other") /\ Other(Ev.args.kind) /\ ObsOK
TrAdvance == IsEvent("Advance") /\ Advance /\ ObsOK
TrExpire == IsEvent("Expire") /\ (Expire \/ ExpireCrash) /\ ObsOK

TrNext == TrStart \/ TrArpReply \/ TrArpRequest \/ TrOut \/ TrIn \/ TrOther \/ TrAdvance \/ TrExpire
TrSpec == TrInit /\ [][TrNext]_tvars

Progress == TLCSet(tid, IF TLCGet(tid) < l - 1 THEN l - 1 ELSE TLCGet(tid))
Ok(t) == TLCGet(t) = Len(Traces[t]) \/ (PrintT(<<"REJECT", t, TLCGet(t)>>) /\ FALSE)
Accepted == /\ PrintT(<<"TRACES-CHECKED", NT>>)
            /\ Cardinality({t \in 1..NT : ~Ok(t)}) = 0
====
