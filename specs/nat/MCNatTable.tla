---- MODULE MCNatTable ----
EXTENDS NatTable
H1 == {"h1"}
H2 == {"h1", "h2"}
MCHostPort == [h1 |-> 1, h2 |-> 2]
MCLocals == {"h1", "h2", "h3", "in"}
R1 == {"r1"}
R2 == {"r1", "r2"}
\* --- time: the real ratio (30 s units: timer 60 s, flows 60 s, memory 600 s), two source ports of one host
T_SPorts == {5000, 5001}
T_InPorts == {5000, 5002}
GW1 == {"gw"}
GW2 == {"gw", "gw2"}
Via1 == {"gw"}
Via3 == {"gw", "gw2", "other"}
Rnd1 == {49152}
\* --- ports: a toy range (privileged < 3, dynamic 6..8, wrap at 9) so that probing, wrapping and exhaustion
\*     are all reachable
P_SPorts == {1, 4, 7}
P_Rnds == {6, 9}
P_InPorts == {4, 6}
\* --- features: DNS hack, local destinations, two protocols, a second gateway MAC, a foreign station outside
F_SPorts == {5000, 80}
F_Dsts == {"r1", "in", "h3"}
F_DPorts == {53, 80}
F_Protos == {6, 17}
F_Rnds == {49152, 65534}
F_InPorts == {5000, 49152}
P6 == {6}
P17 == {17}
DP80 == {80}
\* --- the binding (export / traces): the numbers of nat.py
X_SPorts == {5000, 5001, 80, 65533}
X_Dsts == {"r1", "r2", "in", "h3"}
X_Rnds == {49152, 65533, 65534}
X_InPorts == {5000, 5002, 49152}
\* the core of the table life cycle, without the ARP / other-traffic self-loops (edge-cover exports)
NextCore == \/ Start(FALSE)
            \/ \E sha \in GwMacs : ArpReply(OutPort, "gwip", sha)
            \/ OutStep \/ InStep \/ Advance \/ Expire \/ ExpireCrash
S1 == {5000}
S1low == {80}
In1 == {5000, 5002}
NoPorts == {}
DP53 == {53}
Via2 == {"gw", "other"}
MaxBlocked1 == Cardinality(blocked) <= 1
MaxMaps1 == Cardinality(maps) <= 1
PP_SPorts == {65533, 80}
PP_Rnds == {65533, 65534}
NoTime == \A m \in maps : m.age = 0
MaxMaps2 == Cardinality(maps) <= 2
MaxMaps3 == Cardinality(maps) <= 3
MaxMaps5 == Cardinality(maps) <= 5
====
