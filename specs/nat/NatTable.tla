------------------------------ MODULE NatTable ------------------------------
(* X06: the translation table of pox/misc/nat.py (class NAT) in front of an  *)
(* OpenFlow 1.0 switch.                                                      *)
(*                                                                           *)
(* Abstract state: whether the NAT is attached and knows its gateway, the    *)
(* set of mappings (one per outgoing 5-tuple: inside host, source port,      *)
(* destination, destination port, protocol -> outside port, with the time    *)
(* since the controller last saw a packet of it), the set of outside ports   *)
(* in use, the short-lived "ignore for a while" drop entries, and the phase  *)
(* of the NAT's recurring expiry timer.  The flows on the switch are a       *)
(* function of that state (both flows of a mapping are (re)installed with    *)
(* hard_timeout = FlowT every time the controller sees a packet of it).      *)
(*                                                                           *)
(* One named action per thing that happens to the code: NAT start, ARP reply *)
(* (gateway learned), ARP request answered, a TCP/UDP frame from an inside   *)
(* host (new mapping / mapping re-installed / forwarded by the switch / not  *)
(* for translation / gateway unknown), a frame from outside (forwarded by    *)
(* the switch / mapping re-installed / unsolicited -> drop entry / eaten by  *)
(* a drop entry), other traffic, time passing, the expiry timer firing.      *)
(* Every action logs what an observer on the OpenFlow channel and on the     *)
(* ports must see plus the projection of the table (`last`, appended to      *)
(* `hist` for export to the replay harness).                                 *)
(*                                                                           *)
(* Time is counted in units of Unit seconds (30 s in the binding): the       *)
(* timer period, the flows' hard timeout and the memory timeout are whole    *)
(* numbers of units, so that touches can fall on and between timer instants. *)
EXTENDS Naturals, Sequences, FiniteSets, TLC, Json

CONSTANTS Hosts,      \* inside hosts (symbol = its MAC and its IP address)
          HostPort,   \* [Hosts -> switch port]
          SPorts,     \* source ports the hosts use (numbers; some < LowLimit)
          Dsts,       \* destinations of inside traffic: public ones (Remotes), "in" (the NAT's inside address), inside hosts
          Remotes,    \* public addresses (subset of Dsts); also the senders of outside traffic
          Locals,     \* inside addresses (the hosts, other stations of the subnet, "in")
          DPorts,     \* destination ports
          Protos,     \* subset of {6, 17}
          Rnds,       \* values the random source may return for a privileged source port
          InPorts,    \* outside ports probed from outside (besides the ones in use)
          GwMacs,     \* MAC addresses the gateway's ARP replies may carry
          Vias,       \* source MACs of frames arriving from outside (the gateway's, another station's)
          HasDns,     \* the upstream lease named a DNS server
          Strict,     \* TRUE: the documented intent where the code deviates (see OutNoPort / ExpireCrash)
          Unit, Period, FlowT, MemT,      \* seconds per unit; timer period, flow hard timeout, memory timeout in units
          LowLimit, DynLo, DynWrap,       \* 1024, 49152, 65534 in nat.py
          OutPort,    \* the switch port that faces upstream
          D           \* export depth

VARIABLES st,        \* "off" (NAT not attached), "arping" (gateway MAC unknown), "ready"
          gw,        \* the gateway's MAC as learned ("none" before)
          maps,      \* set of mappings
          used,      \* set of <<proto, port>>: the code's _used_ports
          blocked,   \* drop entries installed for unsolicited outside traffic, alive until time passes
          tph,       \* units since the expiry timer last fired (or since the NAT started)
          timer,     \* "run" / "dead" (the timer task was de-scheduled: only with ~Strict)
          last,      \* observation of the last action
          hist       \* all observations (export only; hidden by VIEW)
vars  == <<st, gw, maps, used, blocked, tph, timer, last, hist>>
view  == <<st, gw, maps, used, blocked, tph, timer, last>>
viewE == <<st, gw, maps, used, blocked, tph, timer>>

MaxPort == 65535
Lan(h) == IF HostPort[h] = 1 THEN "lan1" ELSE "lan2"     \* MAC of the switch port a host is attached to
Due == timer = "run" /\ tph = Period                      \* the expiry timer must fire before anything else
Key(m) == [h |-> m.h, sp |-> m.sp, d |-> m.d, dp |-> m.dp, pr |-> m.pr]
IsDns(d, dp, pr) == HasDns /\ d = "in" /\ dp = 53 /\ pr = 17      \* "we've lied and claimed to be the server"
Public(d) == d \in Remotes
\* the address the translated traffic really talks to
Peer(m) == IF IsDns(m.d, m.dp, m.pr) THEN "dns" ELSE m.d
FlowsLive(m) == m.age <= FlowT
Find(h, sp, d, dp, pr) == {m \in maps : Key(m) = [h |-> h, sp |-> sp, d |-> d, dp |-> dp, pr |-> pr]}
\* the mapping an outside frame (via MAC v, from r:rp, to the outside address, port fp) belongs to
FindIn(v, r, rp, fp, pr) == {m \in maps : m.g = v /\ Peer(m) = r /\ m.dp = rp /\ m.fake = fp /\ m.pr = pr}

----------------------------------------------------------------------------
(* Port allocation: nat.py _pick_port.  Start at the real source port (at a  *)
(* random port of the dynamic range for a privileged one), take the first    *)
(* free port going up, wrapping from DynWrap to DynLo, at most two wraps.    *)
RECURSIVE Probe(_, _, _, _)
Probe(pr, p, cyc, U) ==
  IF cyc >= 2 THEN 0
  ELSE IF <<pr, p>> \notin U THEN p
  ELSE IF p + 1 >= DynWrap THEN Probe(pr, DynLo, cyc + 1, U)
  ELSE Probe(pr, p + 1, cyc, U)
Pick(pr, sp, rnd, U) == Probe(pr, IF sp < LowLimit THEN rnd ELSE sp, 0, U)

----------------------------------------------------------------------------
(* Frames and flow entries as the observer sees them.                        *)
Frame(es, ed, sip, dip, sp, dp, pr) == [es |-> es, ed |-> ed, sip |-> sip, dip |-> dip, sp |-> sp, dp |-> dp, pr |-> pr]
Rev(f) == Frame(f.ed, f.es, f.dip, f.sip, f.dp, f.sp, f.pr)
Act(t, s, n) == [t |-> t, s |-> s, n |-> n]
\* wc names the wildcard pattern: "nat_out" = in_port + the eight fields of strip_match, "nat_in" = the same
\* without dl_dst, "exact" = nothing wildcarded, "port" = in_port only, "port_ip_dst" = in_port, dl_type, nw_dst
FM(wc, inport, es, ed, sip, dip, sp, dp, pr, acts, idle, hard, prio, flags, pkt) ==
  [wc |-> wc, inport |-> inport, es |-> es, ed |-> ed, sip |-> sip, dip |-> dip, sp |-> sp, dp |-> dp, pr |-> pr,
   acts |-> acts, idle |-> idle, hard |-> hard, prio |-> prio, flags |-> flags, pkt |-> pkt]
HostFrame(m) == Frame(m.h, Lan(m.h), m.h, m.d, m.sp, m.dp, m.pr)
\* inside heading out: nat.py lines 288-305
OutFM(m, pkt) ==
  FM("nat_out", HostPort[m.h], m.h, Lan(m.h), m.h, m.d, m.sp, m.dp, m.pr,
     <<Act("dl_src", "wan", 0), Act("nw_src", "out", 0)>>
       \o (IF IsDns(m.d, m.dp, m.pr) THEN <<Act("nw_dst", "dns", 0)>> ELSE <<>>)
       \o (IF m.fake # m.sp THEN <<Act("tp_src", "", m.fake)>> ELSE <<>>)
       \o <<Act("dl_dst", m.g, 0), Act("output", "", OutPort)>>,
     0, FlowT * Unit, 32768, 1, pkt)
\* outside heading in: nat.py lines 256-286
InFM(m, pkt) ==
  FM("nat_in", OutPort, m.g, "*", Peer(m), "out", m.dp, m.fake, m.pr,
     <<Act("dl_src", Lan(m.h), 0), Act("dl_dst", m.h, 0), Act("nw_dst", m.h, 0)>>
       \o (IF IsDns(m.d, m.dp, m.pr) THEN <<Act("nw_src", "in", 0)>> ELSE <<>>)
       \o (IF m.fake # m.sp THEN <<Act("tp_dst", "", m.sp)>> ELSE <<>>)
       \o <<Act("output", "", HostPort[m.h])>>,
     0, FlowT * Unit, 32768, 1, pkt)
DropFM(v, r, rp, fp, pr) ==
  FM("exact", OutPort, v, "wan", r, "out", rp, fp, pr, <<>>, 1, 10, 32768, 0, FALSE)
BaseFMs == << FM("port", OutPort, "*", "*", "*", "*", 0, 0, 0, <<>>, 0, 0, 1, 0, FALSE),
              FM("port_ip_dst", OutPort, "*", "*", "*", "out", 0, 0, 0, <<Act("output", "", 65533)>>, 0, 0, 2, 0, FALSE) >>

\* what a switch does with a frame and an action list
RECURSIVE Apply(_, _)
Apply(acts, f) ==
  IF acts = <<>> THEN f
  ELSE LET a == Head(acts)
           g == CASE a.t = "dl_src" -> [f EXCEPT !.es = a.s]
                  [] a.t = "dl_dst" -> [f EXCEPT !.ed = a.s]
                  [] a.t = "nw_src" -> [f EXCEPT !.sip = a.s]
                  [] a.t = "nw_dst" -> [f EXCEPT !.dip = a.s]
                  [] a.t = "tp_src" -> [f EXCEPT !.sp = a.n]
                  [] a.t = "tp_dst" -> [f EXCEPT !.dp = a.n]
                  [] OTHER -> f
       IN Apply(Tail(acts), g)
OutputOf(acts) == acts[Len(acts)].n
Matches(fm, port, f) ==
  /\ fm.inport = port
  /\ fm.es \in {"*", f.es} /\ fm.ed \in {"*", f.ed}
  /\ fm.sip \in {"*", f.sip} /\ fm.dip \in {"*", f.dip}
  /\ fm.sp = f.sp /\ fm.dp = f.dp /\ fm.pr = f.pr
Em(port, f) == [port |-> port, es |-> f.es, ed |-> f.ed, sip |-> f.sip, dip |-> f.dip, sp |-> f.sp, dp |-> f.dp, pr |-> f.pr]
\* an inside frame of mapping m as it leaves upstream, and the answer to it as it reaches the host
Translated(m) == Apply(OutFM(m, FALSE).acts, HostFrame(m))
Answer(m) == Frame(m.g, "wan", Peer(m), "out", m.dp, m.fake, m.pr)
Delivered(m) == Apply(InFM(m, FALSE).acts, Answer(m))

\* the ARP request for the gateway (arp_helper.send_arp_request from the outside port's MAC)
GwQuery == [port |-> OutPort, op |-> 1, es |-> "wan", ed |-> "bcast", sha |-> "wan", spa |-> "out", tha |-> "bcast", tpa |-> "gwip"]

----------------------------------------------------------------------------
Tbl(M) == {[h |-> m.h, sp |-> m.sp, d |-> m.d, dp |-> m.dp, pr |-> m.pr, fake |-> m.fake, g |-> m.g] : m \in M}
UsedP(U) == {[pr |-> u[1], port |-> u[2]] : u \in U}
NFlows(s, M, B) == (IF s = "off" THEN 1 ELSE 3) + 2 * Cardinality({m \in M : FlowsLive(m)}) + Cardinality(B)

NoObs == [a |-> "Init", args |-> [x |-> 0], exp |-> [x |-> 0]]

\* exp of every step: pin = packet-ins the step caused, fms = flow-mods sent (in order), em = frames leaving ports,
\* arp = ARP frames leaving ports, rnd = calls of the random source, frem = flow-removed messages, err = exceptions
\* escaping the handlers; then the projection AFTER the step.
Log(a, args, pin, fms, em, arp, rnd, frem, err) ==
  LET e == [pin |-> pin, fms |-> fms, em |-> em, arp |-> arp, rnd |-> rnd, frem |-> frem, err |-> err,
            tbl |-> Tbl(maps'), used |-> UsedP(used'), nflows |-> NFlows(st', maps', blocked'),
            gw |-> gw', due |-> (timer' = "run" /\ tph' = Period)]
  IN /\ last' = [a |-> a, args |-> args, exp |-> e]
     /\ hist' = Append(hist, [a |-> a, args |-> args, exp |-> e])

Init == /\ st = "off" /\ gw = "none" /\ maps = {} /\ used = {} /\ blocked = {} /\ tph = 0 /\ timer = "run"
        /\ last = NoObs /\ hist = <<>>

----------------------------------------------------------------------------
(* Start-up.                                                                 *)

\* NAT._start: two base entries (drop everything from upstream; IP for the outside address to the controller)
\* and an ARP request for the gateway.  late = the NAT object existed before the switch connected.
Start(late) ==
  /\ st = "off"
  /\ st' = "arping" /\ UNCHANGED <<gw, maps, used, blocked, tph, timer>>
  /\ Log("Start", [late |-> late], 0, BaseFMs, {}, {GwQuery}, 0, 0, 0)

\* an ARP reply arrives: _handle_ARPHelper_ARPReply learns the gateway only from the outside port and only for
\* the gateway's address.  (A later reply re-learns; mappings made before keep the MAC they were made with.)
ArpReply(port, spa, sha) ==
  /\ st # "off" /\ ~Due
  /\ IF port = OutPort /\ spa = "gwip"
     THEN gw' = sha /\ st' = "ready"
     ELSE UNCHANGED <<gw, st>>
  /\ UNCHANGED <<maps, used, blocked, tph, timer>>
  /\ Log("ArpReply", [port |-> port, spa |-> spa, sha |-> sha], 1, <<>>, {}, {}, 0, 0, 0)

\* an ARP request arrives: _handle_ARPHelper_ARPRequest.  From upstream the NAT answers for its outside address;
\* from inside it answers for its inside address and for everything that is not local (it is the router), with
\* the MAC of the port the request came in on.
Local(t) == t \in Locals
ArpRequest(port, asker, tpa) ==
  /\ st # "off" /\ ~Due
  /\ UNCHANGED <<st, gw, maps, used, blocked, tph, timer>>
  /\ LET mine == IF port = OutPort THEN tpa = "out" ELSE (tpa = "in" \/ ~Local(tpa))
         mac  == IF port = OutPort THEN "wan" ELSE IF port = 1 THEN "lan1" ELSE "lan2"
     IN Log("ArpRequest", [port |-> port, asker |-> asker, tpa |-> tpa], 1, <<>>, {},
            IF mine THEN {[port |-> port, op |-> 2, es |-> mac, ed |-> asker, sha |-> mac, spa |-> tpa,
                           tha |-> asker, tpa |-> IF asker = "gw" THEN "gwip" ELSE asker]}
            ELSE {}, 0, 0, 0)

----------------------------------------------------------------------------
(* Traffic from inside.                                                      *)
OutArgs(h, sp, d, dp, pr, rnd, c) == [h |-> h, sp |-> sp, d |-> d, dp |-> dp, pr |-> pr, rnd |-> rnd, case |-> c]

\* gateway MAC not known yet: the packet is dropped and the gateway is ARPed for again
OutNoGw(h, sp, d, dp, pr) ==
  /\ st = "arping" /\ ~Due
  /\ UNCHANGED <<st, gw, maps, used, blocked, tph, timer>>
  /\ Log("Out", OutArgs(h, sp, d, dp, pr, 0, "nogw"), 1, <<>>, {}, {GwQuery}, 0, 0, 0)

\* "Assume we only NAT public addresses"
OutIgnored(h, sp, d, dp, pr) ==
  /\ st = "ready" /\ ~Due /\ ~Public(d) /\ ~IsDns(d, dp, pr)
  /\ UNCHANGED <<st, gw, maps, used, blocked, tph, timer>>
  /\ Log("Out", OutArgs(h, sp, d, dp, pr, 0, "ignored"), 1, <<>>, {}, {}, 0, 0, 0)

Translatable(d, dp, pr) == Public(d) \/ IsDns(d, dp, pr)

\* first packet of a 5-tuple: allocate a port, remember the mapping, install both flows, forward the packet
OutNew(h, sp, d, dp, pr, rnd) ==
  /\ st = "ready" /\ ~Due /\ Translatable(d, dp, pr) /\ Find(h, sp, d, dp, pr) = {}
  /\ LET p == Pick(pr, sp, rnd, used)
         m == [h |-> h, sp |-> sp, d |-> d, dp |-> dp, pr |-> pr, fake |-> p, g |-> gw, age |-> 0, quiet |-> 0]
     IN /\ p # 0
        /\ maps' = maps \cup {m}
        /\ used' = used \cup {<<pr, p>>}
        /\ UNCHANGED <<st, gw, blocked, tph, timer>>
        /\ Log("Out", OutArgs(h, sp, d, dp, pr, rnd, "new"), 1, <<InFM(m, FALSE), OutFM(m, TRUE)>>,
               {Em(OutPort, Translated(m))}, {}, IF sp < LowLimit THEN 1 ELSE 0, 0, 0)

\* no port left.  Intent ("No ports to give!"): the packet is not translated and nothing is remembered.
OutNoPort(h, sp, d, dp, pr, rnd) ==
  /\ Strict
  /\ st = "ready" /\ ~Due /\ Translatable(d, dp, pr) /\ Find(h, sp, d, dp, pr) = {}
  /\ Pick(pr, sp, rnd, used) = 0
  /\ UNCHANGED <<st, gw, maps, used, blocked, tph, timer>>
  /\ Log("Out", OutArgs(h, sp, d, dp, pr, rnd, "noport"), 1, <<>>, {}, {}, IF sp < LowLimit THEN 1 ELSE 0, 0, 0)

\* DEVIATION (~Strict), what nat.py does: _pick_port returns None and _handle_PacketIn goes on - the record is
\* stored with outside port None (0 here), _used_ports is not changed, packing the flow-mods raises.
OutNoPortDefect(h, sp, d, dp, pr, rnd) ==
  /\ ~Strict
  /\ st = "ready" /\ ~Due /\ Translatable(d, dp, pr) /\ Find(h, sp, d, dp, pr) = {}
  /\ Pick(pr, sp, rnd, used) = 0
  /\ maps' = maps \cup {[h |-> h, sp |-> sp, d |-> d, dp |-> dp, pr |-> pr, fake |-> 0, g |-> gw, age |-> 0, quiet |-> 0]}
  /\ UNCHANGED <<st, gw, used, blocked, tph, timer>>
  /\ Log("Out", OutArgs(h, sp, d, dp, pr, rnd, "noport_defect"), 1, <<>>, {}, {}, IF sp < LowLimit THEN 1 ELSE 0, 0, 1)

\* the mapping is remembered but its flows have timed out on the switch: both flows again, the packet forwarded
OutReinstall(h, sp, d, dp, pr) ==
  /\ st = "ready" /\ ~Due
  /\ \E m \in Find(h, sp, d, dp, pr) :
       /\ ~FlowsLive(m) /\ m.fake # 0
       /\ maps' = (maps \ {m}) \cup {[m EXCEPT !.age = 0, !.quiet = 0]}
       /\ UNCHANGED <<st, gw, used, blocked, tph, timer>>
       /\ Log("Out", OutArgs(h, sp, d, dp, pr, 0, "reinstall"), 1, <<InFM(m, FALSE), OutFM(m, TRUE)>>,
              {Em(OutPort, Translated(m))}, {}, 0, 0, 0)

\* the switch forwards by itself; the controller sees nothing, so the mapping is NOT refreshed
OutFast(h, sp, d, dp, pr) ==
  /\ st = "ready" /\ ~Due
  /\ \E m \in Find(h, sp, d, dp, pr) :
       /\ FlowsLive(m) /\ m.fake # 0
       /\ maps' = (maps \ {m}) \cup {[m EXCEPT !.quiet = 0]}
       /\ UNCHANGED <<st, gw, used, blocked, tph, timer>>
       /\ Log("Out", OutArgs(h, sp, d, dp, pr, 0, "fast"), 0, <<>>, {Em(OutPort, Translated(m))}, {}, 0, 0, 0)

----------------------------------------------------------------------------
(* Traffic from outside to the outside address: via MAC v, from r:rp, to port fp. *)
\* outside ports worth probing: the configured ones and the ones in use (FakeCands: a constant superset of the
\* ports the allocator can hand out after at most two collisions, so that TLC can enumerate the quantifier)
FakeCands == UNION {{s, s + 1, s + 2} : s \in {x \in SPorts : x >= LowLimit}}
             \cup UNION {{r, r + 1, r + 2, DynLo, DynLo + 1} : r \in Rnds}
ProbePorts == InPorts \cup {m.fake : m \in maps}
InArgs(v, r, rp, fp, pr, c) == [via |-> v, r |-> r, rp |-> rp, fp |-> fp, pr |-> pr, case |-> c]
BKey(v, r, rp, fp, pr) == [via |-> v, r |-> r, rp |-> rp, fp |-> fp, pr |-> pr]

InNoGw(v, r, rp, fp, pr) ==
  /\ fp \in ProbePorts
  /\ st = "arping" /\ ~Due
  /\ UNCHANGED <<st, gw, maps, used, blocked, tph, timer>>
  /\ Log("In", InArgs(v, r, rp, fp, pr, "nogw"), 1, <<>>, {}, {GwQuery}, 0, 0, 0)

\* a drop entry (exact match, so it outranks every wildcarded entry) eats the frame
InBlocked(v, r, rp, fp, pr) ==
  /\ fp \in ProbePorts
  /\ st = "ready" /\ ~Due /\ BKey(v, r, rp, fp, pr) \in blocked
  /\ UNCHANGED <<st, gw, maps, used, blocked, tph, timer>>
  /\ Log("In", InArgs(v, r, rp, fp, pr, "blocked"), 0, <<>>, {}, {}, 0, 0, 0)

InFast(v, r, rp, fp, pr) ==
  /\ fp \in ProbePorts
  /\ st = "ready" /\ ~Due /\ BKey(v, r, rp, fp, pr) \notin blocked
  /\ \E m \in FindIn(v, r, rp, fp, pr) :
       /\ FlowsLive(m) /\ m.fake # 0
       /\ maps' = (maps \ {m}) \cup {[m EXCEPT !.quiet = 0]}
       /\ UNCHANGED <<st, gw, used, blocked, tph, timer>>
       /\ Log("In", InArgs(v, r, rp, fp, pr, "fast"), 0, <<>>, {Em(HostPort[m.h], Delivered(m))}, {}, 0, 0, 0)

InReinstall(v, r, rp, fp, pr) ==
  /\ fp \in ProbePorts
  /\ st = "ready" /\ ~Due /\ BKey(v, r, rp, fp, pr) \notin blocked
  /\ \E m \in FindIn(v, r, rp, fp, pr) :
       /\ ~FlowsLive(m) /\ m.fake # 0
       /\ maps' = (maps \ {m}) \cup {[m EXCEPT !.age = 0, !.quiet = 0]}
       /\ UNCHANGED <<st, gw, used, blocked, tph, timer>>
       /\ Log("In", InArgs(v, r, rp, fp, pr, "reinstall"), 1, <<OutFM(m, FALSE), InFM(m, TRUE)>>,
              {Em(HostPort[m.h], Delivered(m))}, {}, 0, 0, 0)

\* nobody inside opened this: "Ignore for a while" - an exact-match drop entry (idle 1 s, hard 10 s)
InUnsolicited(v, r, rp, fp, pr) ==
  /\ fp \in ProbePorts
  /\ st = "ready" /\ ~Due /\ BKey(v, r, rp, fp, pr) \notin blocked
  /\ FindIn(v, r, rp, fp, pr) = {}
  /\ blocked' = blocked \cup {BKey(v, r, rp, fp, pr)}
  /\ UNCHANGED <<st, gw, maps, used, tph, timer>>
  /\ Log("In", InArgs(v, r, rp, fp, pr, "unsolicited"), 1, <<DropFM(v, r, rp, fp, pr)>>, {}, {}, 0, 0, 0)

----------------------------------------------------------------------------
(* Traffic the NAT does not translate.                                       *)
\* icmp_out: ICMP from inside to a public address (table miss, "We only handle TCP and UDP");
\* icmp_in: ICMP from upstream to the outside address (sent up by the base entry, ignored);
\* in_other: TCP from upstream to another address (eaten by the base drop entry, never reaches the controller)
OtherKinds == {"icmp_out", "icmp_in", "in_other"}
Other(k) ==
  /\ st = "ready" /\ ~Due
  /\ UNCHANGED <<st, gw, maps, used, blocked, tph, timer>>
  /\ Log("Other", [kind |-> k], IF k = "in_other" THEN 0 ELSE 1, <<>>, {}, {}, 0, 0, 0)

----------------------------------------------------------------------------
(* Time.                                                                     *)
AgeCap == MemT + Period + 1              \* reached only when the timer is dead (~Strict)
Inc(x) == IF x < AgeCap THEN x + 1 ELSE x
\* one unit passes: flows whose hard timeout is over leave the switch (each sends FLOW_REMOVED), the drop
\* entries are gone; the controller does nothing by itself until its timer is due
Advance ==
  /\ st # "off" /\ ~Due
  /\ maps' = {[m EXCEPT !.age = Inc(@), !.quiet = Inc(@)] : m \in maps}
  /\ blocked' = {}
  /\ tph' = IF timer = "run" THEN tph + 1 ELSE tph
  /\ UNCHANGED <<st, gw, used, timer>>
  /\ Log("Advance", [x |-> 0], 0, <<>>, {}, {}, 0,
         2 * Cardinality({m \in maps : m.age = FlowT /\ m.fake # 0}), 0)

Dead == {m \in maps : m.age > MemT}
\* NAT._expire: mappings not seen by the controller for more than MemT are forgotten, their ports become free
Expire ==
  /\ Due
  /\ (Strict \/ \A m \in Dead : m.fake # 0)
  /\ maps' = maps \ Dead
  /\ used' = used \ {<<m.pr, m.fake>> : m \in Dead}
  /\ tph' = 0
  /\ UNCHANGED <<st, gw, blocked, timer>>
  /\ Log("Expire", [x |-> 0], 0, <<>>, {}, {}, 0, 0, 0)

\* DEVIATION (~Strict): a dead mapping without a port makes _expire raise KeyError after it has removed some of
\* the dead mappings (which ones depends on dict order: any subset containing the portless one); the exception
\* de-schedules the Timer task, so nothing expires ever again.
ExpireCrash ==
  /\ ~Strict /\ Due
  /\ \E bad \in {m \in Dead : m.fake = 0} : \E gone \in SUBSET (Dead \ {bad}) :
       /\ \A m \in gone : m.fake # 0
       /\ maps' = maps \ (gone \cup {bad})
       /\ used' = used \ {<<m.pr, m.fake>> : m \in gone}
  /\ timer' = "dead"
  /\ tph' = 0
  /\ UNCHANGED <<st, gw, blocked>>
  /\ Log("Expire", [x |-> 0], 0, <<>>, {}, {}, 0, 0, 1)

----------------------------------------------------------------------------
Ports3 == {1, 2, OutPort}
OutStep == \E h \in Hosts, sp \in SPorts, d \in Dsts, dp \in DPorts, pr \in Protos :
             \/ OutNoGw(h, sp, d, dp, pr) \/ OutIgnored(h, sp, d, dp, pr)
             \/ OutReinstall(h, sp, d, dp, pr) \/ OutFast(h, sp, d, dp, pr)
             \/ \E rnd \in (IF sp < LowLimit THEN Rnds ELSE {0}) :
                  \/ OutNew(h, sp, d, dp, pr, rnd) \/ OutNoPort(h, sp, d, dp, pr, rnd)
                  \/ OutNoPortDefect(h, sp, d, dp, pr, rnd)
InStep == \E v \in Vias, r \in Remotes \cup {"dns"}, rp \in DPorts, fp \in InPorts \cup FakeCands, pr \in Protos :
            \/ InNoGw(v, r, rp, fp, pr) \/ InBlocked(v, r, rp, fp, pr) \/ InFast(v, r, rp, fp, pr)
            \/ InReinstall(v, r, rp, fp, pr) \/ InUnsolicited(v, r, rp, fp, pr)
ArpStep == \/ \E p \in {OutPort, 1}, spa \in {"gwip", "r1"}, sha \in GwMacs : ArpReply(p, spa, sha)
           \/ \E tpa \in {"out", "gwip"} : ArpRequest(OutPort, "gw", tpa)
           \/ \E h \in Hosts : \E tpa \in ({"in", "out", "r1"} \cup Locals) \ {h} : ArpRequest(HostPort[h], h, tpa)
Next == \/ \E late \in BOOLEAN : Start(late)
        \/ ArpStep \/ OutStep \/ InStep
        \/ \E k \in OtherKinds : Other(k)
        \/ Advance \/ Expire \/ ExpireCrash

Spec == Init /\ [][Next]_vars

----------------------------------------------------------------------------
(* The properties, over the real variables.                                  *)

TypeOK ==
  /\ st \in {"off", "arping", "ready"} /\ gw \in GwMacs \cup {"none"} /\ timer \in {"run", "dead"}
  /\ tph \in 0..Period
  /\ \A m \in maps : /\ m.h \in Hosts /\ m.sp \in SPorts /\ m.d \in Dsts /\ m.dp \in DPorts /\ m.pr \in Protos
                     /\ m.fake \in 0..MaxPort /\ m.age \in 0..AgeCap /\ m.quiet \in 0..m.age
                     /\ m.g \in GwMacs
  /\ (st = "ready") = (gw # "none")

\* one mapping per outgoing 5-tuple
KeysUnique == \A m1, m2 \in maps : Key(m1) = Key(m2) => m1 = m2

\* no two live mappings share an outside port (per protocol) ...
NoSharedPort == \A m1, m2 \in maps : (m1 # m2) => <<m1.pr, m1.fake>> # <<m2.pr, m2.fake>>
\* ... so no frame from outside can belong to two mappings
NoAmbiguousAnswer == \A m1, m2 \in maps : (m1 # m2) => ~Matches(InFM(m1, FALSE), OutPort, Answer(m2))
\* the set of ports in use is exactly the ports of the remembered mappings
UsedConsistent == used = {<<m.pr, m.fake>> : m \in maps}

\* ports are allocated in range: never a privileged port; for a privileged source port, from the dynamic range;
\* otherwise the source port itself or, if taken, a higher one / one of the dynamic range
PortInRange ==
  \A m \in maps : /\ m.fake \in LowLimit..MaxPort
                  /\ (m.sp < LowLimit => m.fake \in DynLo..DynWrap)
                  /\ (m.sp >= LowLimit => (m.fake >= m.sp \/ m.fake \in DynLo..DynWrap))

\* a mapping's forward and reverse flows are inverse to each other: what the forward flow makes of the host's
\* frame is answered by a frame that the reverse flow matches, turns into the exact answer to the host's frame
\* and sends to the host's port
RoundTrip ==
  \A m \in maps :
    LET f == HostFrame(m) o == OutFM(m, FALSE) i == InFM(m, FALSE) IN
    /\ Matches(o, HostPort[m.h], f) /\ OutputOf(o.acts) = OutPort
    /\ Translated(m) = Frame("wan", m.g, "out", Peer(m), m.fake, m.dp, m.pr)
    /\ Answer(m) = Rev(Translated(m))
    /\ Matches(i, OutPort, Answer(m)) /\ OutputOf(i.acts) = HostPort[m.h]
    \* (with the DNS hack too: the host believes it talks to the NAT's inside address)
    /\ Delivered(m) = Rev(f)

\* frames from outside reach exactly the inside host and port that opened the mapping, and only them
DeliveredToOpener ==
  [][last'.a = "In" =>
      /\ \A e \in last'.exp.em :
           \E m \in maps' : /\ m.fake = last'.args.fp /\ m.pr = last'.args.pr /\ m.g = last'.args.via
                            /\ Peer(m) = last'.args.r /\ m.dp = last'.args.rp
                            /\ e.port = HostPort[m.h] /\ e.ed = m.h /\ e.dip = m.h /\ e.dp = m.sp
      /\ Cardinality(last'.exp.em) <= 1]_vars

\* a mapping is forgotten only by the expiry timer, only when the controller has not seen it for more than MemT,
\* hence when no packet of it at all has passed for more than MemT - FlowT; ports are freed only then
RemovedOnlyIdle ==
  [][\A m \in maps : (~\E n \in maps' : Key(n) = Key(m)) =>
        /\ last'.a = "Expire" /\ m.age > MemT /\ m.quiet + FlowT > MemT]_vars
PortFreedOnlyByExpiry ==
  [][\A u \in used : u \notin used' => (last'.a = "Expire" /\ \E m \in maps : <<m.pr, m.fake>> = u /\ m.age > MemT)]_vars
\* a remembered mapping keeps its outside port for as long as it is remembered
PortStable ==
  [][\A m \in maps : \A n \in maps' : Key(n) = Key(m) => n.fake = m.fake /\ n.g = m.g]_vars
\* the expiry timer never lets a dead mapping survive a timer instant, and keeps running
ExpiryPrompt == (tph < Period) => \A m \in maps : m.age <= MemT + tph
TimerAlive == timer = "run"

\* ---- export for the replay harness
Bound   == Len(hist) <= D
Export  == (Len(hist) = D) => PrintT(<<"H", ToJson(hist)>>)
ExportT == PrintT(<<"T", ToJson(hist')>>)
=============================================================================
