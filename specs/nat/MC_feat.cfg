CONSTANTS
  Hosts <- H1
  HostPort <- MCHostPort
  SPorts <- F_SPorts
  Dsts <- F_Dsts
  Remotes <- R1
  Locals <- MCLocals
  DPorts <- DP53
  Protos <- F_Protos
  Rnds <- F_Rnds
  InPorts <- S1
  GwMacs <- GW2
  Vias <- Via2
  HasDns = TRUE
  Strict = TRUE
  Unit = 30
  Period = 1
  FlowT = 1
  MemT = 2
  LowLimit = 1024
  DynLo = 49152
  DynWrap = 65534
  OutPort = 3
  D = 0
INIT Init
NEXT Next
VIEW viewE
INVARIANT TypeOK
INVARIANT KeysUnique
INVARIANT NoSharedPort
INVARIANT NoAmbiguousAnswer
INVARIANT UsedConsistent
INVARIANT PortInRange
INVARIANT RoundTrip
PROPERTY DeliveredToOpener
INVARIANT ExpiryPrompt
INVARIANT TimerAlive
PROPERTY RemovedOnlyIdle
PROPERTY PortFreedOnlyByExpiry
PROPERTY PortStable
CONSTRAINT MaxMaps1
CONSTRAINT MaxBlocked1
CHECK_DEADLOCK FALSE
