CONSTANTS
  Nbrs <- P2pNbrs
  Selfs <- OneSelf
  Prefixes <- OneP
  Ifaces <- Ifs
  IfOf <- IfAll
  T = 3
  G = 2
  R = 2
  Strict = FALSE
  Msgs <- P2pMsgs
  Dts <- Dt1
  StaticCfg <- P2pStatic
  LocalCfg <- NoCfg
  ConnCfg <- NoCfg
  LocalSrc = "s1"
  IfNone = TRUE
  Mtu = 104
  Queries <- P2pQueries
  D = 0
INIT Init
NEXT Next
VIEW viewE
INVARIANT TypeOK
PROPERTY DeletedOnlyByGarbage
PROPERTY GarbageFullInterval
PROPERTY UnreachableOnlyWhenDue
PROPERTY TimeoutOnlyRefreshedByResponse
PROPERTY ConfiguredUntimed
PROPERTY DistanceVector
PROPERTY ChangesTrigger
PROPERTY TriggerRateLimit
PROPERTY PacketsWellFormed
PROPERTY FullUpdateComplete
PROPERTY ExpiredAdvertisedUnreachable
PROPERTY TriggeredOnlyChanged
PROPERTY NoFiniteBackToSource
CHECK_DEADLOCK FALSE
