CONSTANTS
  Nbrs <- LanNbrs
  Selfs <- OneSelf
  Prefixes <- OneP
  Ifaces <- Ifs
  IfOf <- IfAll
  T = 3
  G = 2
  R = 2
  Strict = FALSE
  Msgs <- LanMsgs
  Dts <- Dt1
  StaticCfg <- LanStatic
  LocalCfg <- LanLocal
  ConnCfg <- LanConn
  LocalSrc = "s1"
  IfNone = FALSE
  Mtu = 124
  Queries <- LanQueries
  D = 0
INIT Init
NEXT Next
VIEW viewE
INVARIANT TypeOK
PROPERTY DeletedOnlyByGarbage
PROPERTY GarbageFullInterval
PROPERTY UnreachableOnlyWhenDue
PROPERTY TimeoutOnlyRefreshedByResponse
PROPERTY ConfiguredUntimed
PROPERTY DistanceVector
PROPERTY ChangesTrigger
PROPERTY TriggerRateLimit
PROPERTY PacketsWellFormed
PROPERTY FullUpdateComplete
PROPERTY ExpiredAdvertisedUnreachable
PROPERTY TriggeredOnlyChanged
PROPERTY NoFiniteBackToSource
CHECK_DEADLOCK FALSE
