------------------------------- MODULE RipNet -------------------------------
(* X12: a small network of rip_core routers exchanging every message.                                       *)
(*                                                                                                          *)
(* Every router is the RipCore record; the destinations are the routers' own addresses (each router learns *)
(* the /32 of a neighbour from the neighbour's responses, as process_response does) plus "stub" hosts that  *)
(* say hello once at time 0 and are never heard again (a destination that dies: its route must time out,   *)
(* be poisoned, possibly count to infinity between the routers, and finally disappear everywhere).          *)
(* The interface of router r towards neighbour s is IfOf[s] (point-to-point: one interface per neighbour,   *)
(* the code then sends poisoned reverse; LAN: one shared interface, the code then uses plain split horizon).*)
(*                                                                                                          *)
(* Actions = the code's entry points, per router:                                                           *)
(*   Send(r)       the periodic timer (SEND_TIMER, as LinuxRIPRouter/OVSRIPRouter start it): full update   *)
(*   Fire(r)       _on_triggered_update: changed routes only                                                *)
(*   Deliver(s, r) the oldest datagram from s waiting at r goes through process_response                   *)
(*   Timeout(r, k), Garbage(r, k)   entry timers                                                            *)
(*   LinkDown(l)   a link dies (datagrams on it are lost from then on)                                      *)
(*   Advance(d)    time passes - only when nothing is in flight and no timer is due: a datagram is never    *)
(*                 delayed, but everything that happens at one instant may happen in ANY order              *)
EXTENDS RipCore, Json

CONSTANTS Routers,    \* \subseteq Nbrs
          Stubs,      \* {<<host, router it is attached to>>}; hosts \subseteq Nbrs
          Links,      \* {{r, s}} between routers
          S,          \* period of the full update (SEND_TIMER)
          BootChoices,\* set of [Routers -> 1..S]: when each router's first periodic update is due
          Mtu,
          Dts, MaxFails,
          D

VARIABLES net,        \* [Routers -> RipCore router]
          per,        \* [Routers -> 0..S] time to the router's next periodic update
          chan,       \* [Routers \X Routers -> Seq(set of <<key, metric>>)] datagrams in flight
          up,         \* links still alive
          last, hist
vars == <<net, per, chan, up, last, hist>>
viewE == <<net, per, chan, up>>

StubHosts == {st[1] : st \in Stubs}
Neigh(r) == {s \in Routers : {r, s} \in Links}
E(k, m) == [k |-> k, m |-> m, tag |-> 0, af |-> "inet"]

RECURSIVE SetToSeq(_)
SetToSeq(A) == IF A = {} THEN <<>> ELSE LET x == CHOOSE y \in A : TRUE IN <<x>> \o SetToSeq(A \ {x})
\* a datagram (set of <<key, metric>>) as the entry sequence process_response walks through; every key occurs
\* once, so the order is immaterial
AsEnts(msg) == LET q == SetToSeq(msg) IN [j \in DOMAIN q |-> E(q[j][1], q[j][2])]

NetObs(n) == [r \in Routers |-> [tbl |-> TblObs(n[r]), trig |-> TrigObs(n[r])]]
QObs(c) == {<<p[1], p[2], Len(c[p])>> : p \in {q \in DOMAIN c : c[q] # <<>>}}
Obs(n, c, sent) == [net |-> NetObs(n), q |-> QObs(c), sent |-> sent, orph |-> 0, wire |-> "ok"]
NoSent == {}

\* the stub's hello: its own /32 (which process_response skips) - enough for a parsable datagram
Hello(rt, h) == ProcessResponse(rt, h, IfOf[h], <<E(h, 1)>>)
InitNet == [r \in Routers |->
             LET hs == {st[1] : st \in {x \in Stubs : x[2] = r}} IN
             LET RECURSIVE H(_, _)
                 H(rt, A) == IF A = {} THEN rt ELSE LET h == CHOOSE y \in A : TRUE IN H(Hello(rt, h), A \ {h})
             IN H([Router0 EXCEPT !.tbl[r] = NewIface(r)], hs)]      \* add_iface_routes: the router's own address
Init == /\ net = InitNet
        /\ per = [r \in Routers |-> S + 1]          \* not started yet: Boot chooses when each router's first update is due
        /\ chan = [p \in Routers \X Routers |-> <<>>]
        /\ up = Links
        /\ last = [a |-> "Init", args |-> [x |-> 0], exp |-> Obs(InitNet, chan, NoSent)]
        /\ hist = <<>>

Log(a, args, exp) ==
  /\ last' = [a |-> a, args |-> args, exp |-> exp]
  /\ hist' = IF D = 0 THEN hist ELSE Append(hist, [a |-> a, args |-> args, exp |-> exp])

\* the routers come up: LinuxRIPRouter._handle_core_UpEvent starts the recurring SEND_TIMER; f[r] = when router
\* r's first full update is due
Booted == \A r \in Routers : per[r] <= S
Boot(f) ==
  /\ ~Booted
  /\ per' = f
  /\ UNCHANGED <<net, chan, up>>
  /\ Log("Boot", [per |-> f], Obs(net, chan, NoSent))

\* send_updates(force) of router r: one get_responses per interface; every live neighbour on the interface
\* gets the datagram (nothing is sent when there is nothing to say)
Msg(r, s, force) == AdvSet(net[r], IfOf[s], force, FALSE)
Emit(r, force) ==
  [p \in Routers \X Routers |->
     IF p[1] = r /\ p[2] \in Neigh(r) /\ {r, p[2]} \in up /\ Msg(r, p[2], force) # {}
     THEN Append(chan[p], Msg(r, p[2], force)) ELSE chan[p]]
\* what the router put on each of its interfaces (whether or not somebody is still listening)
Around(r) == Neigh(r) \cup {h \in StubHosts : <<h, r>> \in Stubs}
SentObs(r, force) == UNION { {<<IfOf[s], e[1], e[2]>> : e \in Msg(r, s, force)} : s \in Around(r) }

Send(r) ==
  /\ per[r] = 0
  /\ chan' = Emit(r, TRUE)
  /\ net' = [net EXCEPT ![r] = MarkClean(@)]
  /\ per' = [per EXCEPT ![r] = S]
  /\ UNCHANGED up
  /\ Log("Send", [r |-> r], Obs(net', chan', SentObs(r, TRUE)))
Fire(r) ==
  /\ FireDue(net[r])
  /\ chan' = Emit(r, FALSE)
  /\ net' = [net EXCEPT ![r] = MarkClean([@ EXCEPT !.pend = FALSE, !.tr = 0])]
  /\ UNCHANGED <<per, up>>
  /\ Log("Fire", [r |-> r], Obs(net', chan', SentObs(r, FALSE)))
Deliver(s, r) ==
  /\ chan[<<s, r>>] # <<>>
  /\ net' = [net EXCEPT ![r] = ProcessResponse(@, s, IfOf[s], AsEnts(Head(chan[<<s, r>>])))]
  /\ chan' = [chan EXCEPT ![<<s, r>>] = Tail(@)]
  /\ UNCHANGED <<per, up>>
  /\ Log("Deliver", [s |-> s, r |-> r], Obs(net', chan', NoSent))
Timeout(r, k) ==
  /\ TimeoutDue(net[r], k)
  /\ net' = [net EXCEPT ![r] = DoTimeout(@, k)]
  /\ UNCHANGED <<per, chan, up>>
  /\ Log("Timeout", [r |-> r, k |-> k], Obs(net', chan, NoSent))
Garbage(r, k) ==
  /\ GarbageDue(net[r], k)
  /\ net' = [net EXCEPT ![r] = DoGarbage(@, k)]
  /\ UNCHANGED <<per, chan, up>>
  /\ Log("Garbage", [r |-> r, k |-> k], Obs(net', chan, NoSent))
LinkDown(l) ==
  /\ Booted /\ l \in up /\ Cardinality(Links \ up) < MaxFails
  /\ up' = up \ {l}
  /\ chan' = [p \in Routers \X Routers |-> IF {p[1], p[2]} = l THEN <<>> ELSE chan[p]]
  /\ UNCHANGED <<net, per>>
  /\ Log("LinkDown", [l |-> SetToSeq(l)], Obs(net, chan', NoSent))
Quiet == \A p \in Routers \X Routers : chan[p] = <<>>
Tick(d) ==
  /\ Booted /\ Quiet
  /\ \A r \in Routers : CanAdvance(net[r], d) /\ per[r] >= d
  /\ net' = [r \in Routers |-> Advance(net[r], d)]
  /\ per' = [r \in Routers |-> per[r] - d]
  /\ UNCHANGED <<chan, up>>
  /\ Log("Advance", [d |-> d], Obs(net', chan, NoSent))

Next == \/ \E f \in BootChoices : Boot(f)
        \/ \E r \in Routers : Send(r) \/ Fire(r)
        \/ \E s, r \in Routers : Deliver(s, r)
        \/ \E r \in Routers, k \in Keys : Timeout(r, k) \/ Garbage(r, k)
        \/ \E l \in Links : LinkDown(l)
        \/ \E d \in Dts : Tick(d)
Spec == Init /\ [][Next]_vars /\ WF_vars(Next)

----------------------------------------------------------------------------
TypeOK == /\ \A r \in Routers : RouterOK(net[r])
          /\ per \in [Routers -> 0..S + 1]

\* hop counts in a topology L (set of 2-sets over Routers); a stub hangs off its router by one more hop
RECURSIVE Reach(_, _, _)
Reach(F, L, n) == IF n = 0 THEN F ELSE Reach(F \cup {s \in Routers : \E f \in F : {f, s} \in L}, L, n - 1)
NR == Cardinality(Routers)
Dist(r, d, L) == IF r = d THEN 0
                 ELSE IF d \notin Reach({r}, L, NR) THEN INF
                 ELSE CHOOSE n \in 1..NR : d \in Reach({r}, L, n) /\ d \notin Reach({r}, L, n - 1)
Metric(r, d) == IF Present(net[r].tbl[d]) THEN net[r].tbl[d].m ELSE INF

\* counting never goes beyond infinity = 16, and a route is never better than the real distance ever was
MetricsBounded == \A r \in Routers, k \in Keys : Present(net[r].tbl[k]) => net[r].tbl[k].m \in 1..INF
OwnRouteStays == \A r \in Routers : net[r].tbl[r].kind = "local" /\ net[r].tbl[r].m = 1
NeverTooGood == \A r, d \in Routers : (r # d /\ Metric(r, d) < INF) => Metric(r, d) >= Dist(r, d, Links)
\* a route points at a neighbour, and never at the router itself
NextHopIsNeighbour == \A r \in Routers, k \in Keys : net[r].tbl[k].kind = "dyn" =>
                         net[r].tbl[k].nh \in Around(r)

\* convergence: eventually, for good, every router holds exactly the shortest hop count to every router it can
\* still reach, has forgotten every router it cannot reach, and has forgotten the dead stub hosts
Converged == /\ \A r, d \in Routers : r # d =>
                  IF Dist(r, d, up) < INF THEN Metric(r, d) = Dist(r, d, up) ELSE ~Present(net[r].tbl[d])
             /\ \A r \in Routers, h \in StubHosts : ~Present(net[r].tbl[h])
Convergence == <>[]Converged

\* vacuity witnesses (expected to be VIOLATED: they show that the model really counts to infinity / reroutes)
NeverCounts == \A r \in Routers, h \in StubHosts : Metric(r, h) \notin 6..15
NeverConverged == ~Converged

\* ---- the counting-to-infinity scenario, for export (EXN_count.cfg).  SlowLink keeps only the behaviours in which
\* the link SlowFrom -> SlowTo is the slowest thing in the network: its datagrams are delivered when nothing else
\* can happen at that instant.  These are behaviours of the specification like any other; among them the ones in
\* which a router still believes an old advertisement while the bad news is on its way are easy to find.
CONSTANTS SlowFrom, SlowTo
SlowLink == (last'.a = "Deliver" /\ last'.args.s = SlowFrom /\ last'.args.r = SlowTo) =>
              /\ \A p \in Routers \X Routers : p # <<SlowFrom, SlowTo>> => chan[p] = <<>>
              /\ \A r \in Routers : per[r] # 0 /\ ~FireDue(net[r])
\* a behaviour is printed when its last step takes the last finite metric >= 15 for a stub host away: the whole
\* count 2, 3, ... 15, 16 is in it
Finite(n, h) == {r \in Routers : Present(n[r].tbl[h]) /\ n[r].tbl[h].m < INF}
ExportCountT == (\E h \in StubHosts : /\ \E r \in Finite(net, h) : net[r].tbl[h].m = 15
                                      /\ Finite(net', h) = {})
                  => PrintT(<<"T", ToJson(hist')>>)

\* ---- export for the replay harness
Export  == (Len(hist) = D) => PrintT(<<"H", ToJson(hist)>>)
ExportT == PrintT(<<"T", ToJson(hist')>>)
=============================================================================
