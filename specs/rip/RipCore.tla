------------------------------ MODULE RipCore ------------------------------
(* X12: the distance-vector core of pox/proto/rip/rip_core.py, as pure operators on ONE router's state.    *)
(* Rip.tla (one router, its environment = neighbours and configuration) and RipNet.tla (a small network of *)
(* such routers) both build their actions from these operators, so there is one description of the code.   *)
(*                                                                                                          *)
(* A router is a record  [tbl, pend, tr]:                                                                  *)
(*   tbl  : [Keys -> entry]      RIPRouter.table, keyed by prefix; NoE = no entry                          *)
(*   pend : BOOLEAN              RIPRouter.triggered_pending                                               *)
(*   tr   : 0..R                 time left on the Timer started by trigger_update (meaningful iff pend)    *)
(* An entry is rip_core.Entry:                                                                             *)
(*   nh   next_hop = origin (the code keeps them equal), "-" = None                                        *)
(*   m    metric        dev  outgoing device or "-"      kind  "dyn" | "static" | "local"                  *)
(*   chg  Entry.changed (not yet advertised)                                                               *)
(*   tm   which Timer Entry.t is: "to" = _handle_timeout, "gc" = _handle_garbage, "none" = no timer        *)
(*   ttl  time left on that timer (time is integral; the adapter reads Timer._next - now)                  *)
(* Entry.ts is not a separate field: refresh() sets ts and restarts the timeout timer together, so the age *)
(* of a live route is T - ttl.                                                                             *)
EXTENDS Integers, Sequences, FiniteSets, TLC

CONSTANTS Nbrs,       \* addresses RIP responses come from; the /32 route to a neighbour has the neighbour's name as key
          Selfs,      \* the router's own interface addresses (keys of LinuxRIPRouter.add_iface_routes entries)
          Prefixes,   \* other destinations
          Ifaces,     \* interfaces of the router
          IfOf,       \* [Nbrs \cup Selfs -> Ifaces]  the interface an address lives on
          T,          \* Entry.TIMEOUT          (25 in the code; small in exhaustive runs)
          G,          \* Entry.GARBAGE_TIMEOUT  (70)
          R,          \* RIPRouter.TRIGGERED_TIMER (2)
          Strict      \* TRUE = the documented intent; FALSE = what the code does (named deviations below)

INF == 16
RFCMaxEntries == 25            \* RFC 2453 3.6 / 4: at most 25 route entries per message
Keys == Nbrs \cup Selfs \cup Prefixes
NoE == [nh |-> "-", m |-> 0, dev |-> "-", kind |-> "none", chg |-> FALSE, tm |-> "none", ttl |-> 0]
Present(e) == e.kind # "none"
IsStatic(e) == e.kind \in {"static", "local"}        \* Entry.static (= static or local)
Min2(a, b) == IF a < b THEN a ELSE b

Router0 == [tbl |-> [k \in Keys |-> NoE], pend |-> FALSE, tr |-> 0]

----------------------------------------------------------------------------
(* Entry.__init__ + refresh(): a new entry starts its own timer at once - the timeout timer when the       *)
(* metric is finite, the garbage timer when it is already infinite.                                        *)

\* ---- NAMED DEVIATION InvalidMetricAccepted ------------------------------------------------------------
\* process_response cites RFC 2453 3.9.2, which tells to ignore an entry whose metric is not in 1..16.  The
\* code does not look: metric + 1 capped at 16 is stored whatever arrives (0 gives a route as good as a
\* directly connected one, 17.. counts as unreachable).  Strict: such an entry is ignored.
MetricIgnored(wm) == Strict /\ wm \notin 1..INF

NewData(n, wm) ==                 \* _new_entry(origin=addr, data=e)
  LET m == Min2(wm + 1, INF) IN
  [nh |-> n, m |-> m, dev |-> "-", kind |-> "dyn", chg |-> TRUE,
   tm |-> IF m >= INF THEN "gc" ELSE "to", ttl |-> IF m >= INF THEN G ELSE T]
NewDirect(n, i) ==                \* _new_entry(origin=addr, dev=iface): the neighbour itself, one hop away
  [nh |-> n, m |-> 1, dev |-> i, kind |-> "dyn", chg |-> TRUE, tm |-> "to", ttl |-> T]
NewStatic(nh, m) ==               \* OVSRIPRouter.add_static_route
  [nh |-> nh, m |-> m, dev |-> "-", kind |-> "static", chg |-> TRUE, tm |-> "none", ttl |-> 0]
NewConnected(i) ==                \* OVSRIPRouter._refresh_ports: attached network, metric 0
  [nh |-> "-", m |-> 0, dev |-> i, kind |-> "static", chg |-> TRUE, tm |-> "none", ttl |-> 0]
NewLocal(s, m) ==                 \* LinuxRIPRouter.add_local_routes: kernel route with source address s
  [nh |-> s, m |-> m, dev |-> "-", kind |-> "local", chg |-> TRUE, tm |-> "none", ttl |-> 0]
NewIface(s) ==                    \* LinuxRIPRouter.add_iface_routes: our own address on that interface
  [nh |-> s, m |-> 1, dev |-> IfOf[s], kind |-> "local", chg |-> TRUE, tm |-> "none", ttl |-> 0]

\* trigger_update(): the first change arms the timer; later changes ride along (no restart)
Trigger(rt) == IF rt.pend THEN rt ELSE [rt EXCEPT !.pend = TRUE, !.tr = R]
Install(rt, k, n) == Trigger([rt EXCEPT !.tbl[k] = n])

\* Entry.__eq__ : "local static origin ip size dev metric next_hop"
Same(o, n) == o.nh = n.nh /\ o.m = n.m /\ o.dev = n.dev /\ o.kind = n.kind
\* Entry.is_stale: older than half the timeout (RFC 3.9.2: "showing signs of timing out")
Stale(o) == ~IsStatic(o) /\ o.tm = "to" /\ 2 * (T - o.ttl) > T
\* Entry.refresh() of the entry already in the table
Refresh(rt, k) ==
  LET o == rt.tbl[k] IN
  IF IsStatic(o) \/ o.m >= INF THEN rt          \* static: no timer; unreachable: the garbage timer keeps running
  ELSE [rt EXCEPT !.tbl[k].ttl = T, !.tbl[k].tm = "to"]

\* ---- NAMED DEVIATION StaticOverride -------------------------------------------------------------------
\* process_entry treats a configured (static / local) entry like any learned one: a better metric from
\* anybody, or ANY news from the address the static route names as its next hop - including metric 16, which
\* is what that neighbour sends back as poisoned reverse - replaces it by a learned entry with timers; the
\* configured route is then gone for good once that learned entry expires.  Strict: configured entries are
\* never touched by process_entry.
StaticKept(o) == Strict /\ IsStatic(o)

\* RIPRouter.process_entry(n) for key k
ProcessEntry(rt, k, n) ==
  LET o == rt.tbl[k] IN
  IF ~Present(o)
  THEN IF n.m < INF THEN Install(rt, k, n) ELSE rt                \* unknown destination: take it unless unreachable
  ELSE IF StaticKept(o) THEN rt
  ELSE IF Same(o, n) THEN Refresh(rt, k)                          \* no change at all
  ELSE IF n.m < o.m THEN Install(rt, k, n)                        \* better than current
  ELSE IF n.nh = o.nh                                             \* always replace from same neighbour ...
       THEN IF n.m >= INF /\ o.m >= INF THEN rt                   \* ... except unreachable -> unreachable
            ELSE Install(rt, k, n)                                \* worse, or lost (starts the deletion)
  ELSE IF n.m < INF /\ n.m = o.m /\ Stale(o) THEN Install(rt, k, n)   \* equally good, and ours is going stale
  ELSE rt                                                         \* tie / worse from somebody else: ignored

\* one entry of a response as process_response's loop treats it.  e = [k, m, tag, af]
Skipped(e, n, i) == \/ e.af # "inet"
                    \/ e.tag # 0
                    \/ (e.k = n /\ i # "none")        \* the sender's own /32: added as direct route below
                    \/ MetricIgnored(e.m)
RECURSIVE FoldEntries(_, _, _, _)
FoldEntries(rt, n, i, ents) ==
  IF ents = <<>> THEN rt
  ELSE LET e == Head(ents) IN
       FoldEntries(IF Skipped(e, n, i) THEN rt ELSE ProcessEntry(rt, e.k, NewData(n, e.m)), n, i, Tail(ents))
\* RIPRouter.process_response(iface, addr, ripp): i = "none" stands for iface None
ProcessResponse(rt, n, i, ents) ==
  LET r1 == FoldEntries(rt, n, i, ents) IN
  IF i # "none" THEN ProcessEntry(r1, n, NewDirect(n, i)) ELSE r1

\* Entry._handle_timeout / _handle_garbage / RIPRouter._on_triggered_update (state part)
TimeoutDue(rt, k) == Present(rt.tbl[k]) /\ rt.tbl[k].tm = "to" /\ rt.tbl[k].ttl = 0
GarbageDue(rt, k) == Present(rt.tbl[k]) /\ rt.tbl[k].tm = "gc" /\ rt.tbl[k].ttl = 0
FireDue(rt) == rt.pend /\ rt.tr = 0
DoTimeout(rt, k) == Trigger([rt EXCEPT !.tbl[k].m = INF, !.tbl[k].chg = TRUE, !.tbl[k].tm = "gc", !.tbl[k].ttl = G])
DoGarbage(rt, k) == [rt EXCEPT !.tbl[k] = NoE]
MarkClean(rt) == [rt EXCEPT !.tbl = [k \in Keys |-> IF Present(rt.tbl[k]) THEN [rt.tbl[k] EXCEPT !.chg = FALSE] ELSE NoE]]

\* time
Live(rt) == {k \in Keys : rt.tbl[k].tm # "none"}
CanAdvance(rt, d) == /\ \A k \in Live(rt) : rt.tbl[k].ttl >= d
                     /\ rt.pend => rt.tr >= d
Advance(rt, d) == [rt EXCEPT !.tbl = [k \in Keys |-> IF k \in Live(rt) THEN [rt.tbl[k] EXCEPT !.ttl = @ - d] ELSE rt.tbl[k]],
                             !.tr = IF rt.pend THEN @ - d ELSE @]

----------------------------------------------------------------------------
(* Advertisements: get_responses + package_responses.                                                     *)

\* _get_port_ip_map()[i]: addresses we hold a /32 device route for on interface i (local ones excluded)
Dests(rt, i) == {k \in Nbrs \cup Selfs : Present(rt.tbl[k]) /\ rt.tbl[k].dev = i /\ rt.tbl[k].kind # "local"}

\* get_responses(dests, force, static_only): the set of <<key, advertised metric>>.  As the code implements the
\* horizon: a route learned from an address on this interface is advertised as unreachable when that address
\* is the only neighbour there (poisoned reverse) and left out when there are several (split horizon).
\* dests = None (nobody heard on the interface) = no filtering.
AdvSet(rt, i, force, staticOnly) ==
  LET D == Dests(rt, i) IN
  { <<k, IF rt.tbl[k].nh \in D THEN INF ELSE rt.tbl[k].m>> :
      k \in { x \in Keys : /\ Present(rt.tbl[x])
                           /\ (rt.tbl[x].chg \/ force)
                           /\ (staticOnly => IsStatic(rt.tbl[x]))
                           /\ ~(rt.tbl[x].nh \in D /\ Cardinality(D) > 1) } }

\* package_responses(outgoing, mtu): a packet is closed when 20 * (entries + 1) + 64 >= mtu
\* (64 = RIP.rip.MIN_LEN 24 + IPv4 20 + UDP 8 + 12 spare).
CodeCap(mtu) == IF mtu <= 84 THEN 0 ELSE (mtu - 84 + 19) \div 20
\* ---- NAMED DEVIATION OversizedPacket ------------------------------------------------------------------
\* RFC 2453: a message carries at most 25 entries.  The code only looks at the MTU: with DEFAULT_MTU = 1400 a
\* packet carries up to 66 entries (1324 octets of RIP, 812 more than the 512 the RFC allows).
\* ---- NAMED DEVIATION EmptyPacket ----------------------------------------------------------------------
\* With mtu <= 84 not even one entry "fits": the code then emits a leading packet with NO entries followed by
\* one-entry packets (and, with mtu <= 64, one empty packet even when there is nothing to say).
\* Strict: between 1 and 25 entries per packet, never an empty packet.
Cap(mtu) == IF Strict THEN Min2(RFCMaxEntries, IF CodeCap(mtu) = 0 THEN 1 ELSE CodeCap(mtu)) ELSE CodeCap(mtu)
RECURSIVE Chunks(_, _)
Chunks(n, c) == IF n = 0 THEN <<>> ELSE IF n <= c THEN <<n>> ELSE <<c>> \o Chunks(n - c, c)
Sizes(n, mtu) ==
  IF Cap(mtu) = 0
  THEN IF n = 0 THEN (IF mtu <= 64 THEN <<0>> ELSE <<>>) ELSE <<0>> \o [j \in 1..n |-> 1]
  ELSE Chunks(n, Cap(mtu))

Packets(rt, i, force, staticOnly, mtu) ==
  LET S == AdvSet(rt, i, force, staticOnly) IN [adv |-> S, sizes |-> Sizes(Cardinality(S), mtu)]
NoPackets == [adv |-> {}, sizes |-> <<>>]

\* what an observer sees of a router after a step
TblObs(rt) == { <<k, rt.tbl[k].nh, rt.tbl[k].m, rt.tbl[k].dev, rt.tbl[k].kind, rt.tbl[k].chg, rt.tbl[k].tm, rt.tbl[k].ttl>> :
                k \in {x \in Keys : Present(rt.tbl[x])} }
TrigObs(rt) == IF rt.pend THEN <<rt.tr>> ELSE <<>>

----------------------------------------------------------------------------
(* State predicates on one router, used as invariants by Rip.tla and RipNet.tla                            *)
EntryOK(e) ==
  \/ e = NoE
  \/ /\ e.kind = "dyn" /\ e.m \in 0..INF /\ e.nh \in Nbrs
     /\ \/ (e.m < INF /\ e.tm = "to" /\ e.ttl \in 0..T)       \* reachable: timeout timer running, never beyond T
        \/ (e.m = INF /\ e.tm = "gc" /\ e.ttl \in 0..G)       \* unreachable: garbage timer running, never beyond G
  \/ /\ e.kind \in {"static", "local"} /\ e.tm = "none" /\ e.ttl = 0     \* configured routes never carry a timer
RouterOK(rt) == /\ \A k \in Keys : EntryOK(rt.tbl[k])
                /\ rt.pend => rt.tr \in 0..R
=============================================================================
