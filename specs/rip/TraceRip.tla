------------------------------ MODULE TraceRip ------------------------------
(* Code -> spec: traces recorded from the real rip_core router (seeded random driver, the code's own timer  *)
(* constants, timers fired in the order the real SelectHub releases them) must be behaviours of Rip.tla;    *)
(* TypeOK and every action property of Rip.tla are evaluated at each matched step.                         *)
EXTENDS MCRip, IOUtils

ToSet(s) == {s[j] : j \in DOMAIN s}

Traces == JsonDeserialize(IOEnv.TRACE_FILE)
NT == Len(Traces)
VARIABLES tid, l
tvars == <<vars, tid, l>>

TrInit == Init /\ tid \in 1..NT /\ l = 1 /\ TLCSet(tid, 0)
Ev == Traces[tid][l]
IsEvent(e) == l <= Len(Traces[tid]) /\ Ev.a = e /\ l' = l + 1 /\ UNCHANGED tid

\* the observation as logged (lists) against the expectation the spec action just computed (sets)
OutMatches(eo, oo) == \A i \in Ifaces : /\ eo[i].sizes = oo[i].sizes
                                        /\ eo[i].adv = ToSet(oo[i].adv)
                                        /\ Len(oo[i].adv) = Cardinality(eo[i].adv)     \* no route twice
Matches(o) == /\ Ev.wf
              /\ last'.exp.tbl = ToSet(o.tbl)
              /\ Len(o.tbl) = Cardinality(last'.exp.tbl)
              /\ last'.exp.trig = o.trig
              /\ OutMatches(last'.exp.out, o.out)
              /\ last'.exp.sync = o.sync /\ last'.exp.orph = o.orph /\ last'.exp.wire = o.wire

TrResponse == IsEvent("Response") /\ Response(Ev.args.n, Ev.args.i, Ev.args.ents) /\ Matches(Ev.obs)
TrRequest == IsEvent("Request") /\ Request(Ev.args.n) /\ Matches(Ev.obs)
TrTimeout == IsEvent("Timeout") /\ Timeout(Ev.args.k) /\ Matches(Ev.obs)
TrGarbage == IsEvent("Garbage") /\ Garbage(Ev.args.k) /\ Matches(Ev.obs)
TrFire == IsEvent("Fire") /\ Fire /\ Matches(Ev.obs)
TrPeriodic == IsEvent("Periodic") /\ Periodic /\ Matches(Ev.obs)
TrQuery == IsEvent("Query") /\ Query(Ev.args.i, Ev.args.force, Ev.args.so, Ev.args.mtu) /\ Matches(Ev.obs)
TrAddStatic == IsEvent("AddStatic") /\ AddStatic(Ev.args.k, Ev.args.nh, Ev.args.m) /\ Matches(Ev.obs)
TrAddConnected == IsEvent("AddConnected") /\ AddConnected(Ev.args.k, Ev.args.i) /\ Matches(Ev.obs)
TrAddLocal == IsEvent("AddLocal") /\ AddLocal(Ev.args.k, Ev.args.m) /\ Matches(Ev.obs)
TrAddIface == IsEvent("AddIface") /\ AddIface(Ev.args.s) /\ Matches(Ev.obs)
TrAdvance == IsEvent("Advance") /\ Tick(Ev.args.d) /\ Matches(Ev.obs)

TrNext == TrResponse \/ TrRequest \/ TrTimeout \/ TrGarbage \/ TrFire \/ TrPeriodic \/ TrQuery
          \/ TrAddStatic \/ TrAddConnected \/ TrAddLocal \/ TrAddIface \/ TrAdvance
TrSpec == TrInit /\ [][TrNext]_tvars

Progress == TLCSet(tid, IF TLCGet(tid) < l - 1 THEN l - 1 ELSE TLCGet(tid))
Ok(t) == TLCGet(t) = Len(Traces[t]) \/ (PrintT(<<"REJECT", t, TLCGet(t)>>) /\ FALSE)
Accepted == /\ PrintT(<<"TRACES-CHECKED", NT>>)
            /\ Cardinality({t \in 1..NT : ~Ok(t)}) = 0
=============================================================================
