------------------------------ MODULE MCRipNet ------------------------------
EXTENDS RipNet
NoSet == {}
R3 == {"r1", "r2", "r3"}
\* triangle of point-to-point links, a host h behind r3 that dies: poisoned reverse everywhere, counting possible
TriNodes == {"r1", "r2", "r3", "h"}
TriLinks == {{"r1", "r2"}, {"r2", "r3"}, {"r1", "r3"}}
TriStubs == {<<"h", "r3">>}
P2pIf == [x \in TriNodes |-> x]
TriIfs == TriNodes
\* line r1 - r2 - r3
LineLinks == {{"r1", "r2"}, {"r2", "r3"}}
\* the three routers on one LAN (one shared interface: plain split horizon), h behind r3 on its own interface
LanIf == [x \in TriNodes |-> IF x = "h" THEN "h" ELSE "lan"]
LanIfs == {"lan", "h"}
Ph12 == [R3 -> {1, 2}]
\* the alignment in which r2's periodic update coincides with r3's triggered update about the dead host
PhCount == {[r \in R3 |-> IF r = "r2" THEN 1 ELSE 2]}
Dt1 == {1}
=============================================================================
