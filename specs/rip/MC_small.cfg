CONSTANTS
  Nbrs <- MCNbrs
  Selfs <- MCSelfs
  Prefixes <- MCPrefixes
  Ifaces <- MCIfaces
  IfOf <- MCIfOf
  T = 3
  G = 2
  R = 2
  Strict = FALSE
  Msgs <- MCMsgs
  Dts <- MCDts
  StaticCfg <- MCStaticCfg
  LocalCfg <- MCLocalCfg
  ConnCfg <- MCConnCfg
  LocalSrc = "s1"
  IfNone = FALSE
  Mtu = 124
  QueryMtus <- MCQueryMtus
  D = 0
INIT Init
NEXT Next
VIEW viewE
INVARIANT TypeOK
PROPERTY DeletedOnlyByGarbage
PROPERTY GarbageFullInterval
PROPERTY UnreachableOnlyWhenDue
PROPERTY TimeoutOnlyRefreshedByResponse
PROPERTY ConfiguredUntimed
PROPERTY DistanceVector
PROPERTY ChangesTrigger
PROPERTY TriggerRateLimit
PROPERTY PacketsWellFormed
PROPERTY FullUpdateComplete
PROPERTY ExpiredAdvertisedUnreachable
PROPERTY TriggeredOnlyChanged
PROPERTY NoFiniteBackToSource
CHECK_DEADLOCK FALSE
