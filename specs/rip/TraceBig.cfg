CONSTANTS
  Nbrs <- SimNbrs
  Selfs <- SimSelfs
  Prefixes <- BigPrefixes
  Ifaces <- Ifs
  IfOf <- IfAll
  T = 25
  G = 70
  R = 2
  Strict = FALSE
  Msgs <- SimMsgs
  Dts <- SimDts
  StaticCfg <- SimStatic
  LocalCfg <- SimLocal
  ConnCfg <- SimConn
  LocalSrc = "s1"
  IfNone = TRUE
  Mtu = 1400
  Queries <- SimQueries
  D = 0
INIT TrInit
NEXT TrNext
CONSTRAINT Progress
POSTCONDITION Accepted
INVARIANT TypeOK
PROPERTY DeletedOnlyByGarbage
PROPERTY GarbageFullInterval
PROPERTY UnreachableOnlyWhenDue
PROPERTY TimeoutOnlyRefreshedByResponse
PROPERTY ConfiguredUntimed
PROPERTY DistanceVector
PROPERTY ChangesTrigger
PROPERTY TriggerRateLimit
PROPERTY PacketsWellFormed
PROPERTY FullUpdateComplete
PROPERTY ExpiredAdvertisedUnreachable
PROPERTY TriggeredOnlyChanged
PROPERTY NoFiniteBackToSource
CHECK_DEADLOCK FALSE
