CONSTANTS
  Nbrs <- SimNbrs
  Selfs <- SimSelfs
  Prefixes <- SimPrefixes
  Ifaces <- Ifs
  IfOf <- IfAll
  T = 25
  G = 70
  R = 2
  Strict = FALSE
  Msgs <- SimMsgs
  Dts <- SimDts
  StaticCfg <- SimStatic
  LocalCfg <- SimLocal
  ConnCfg <- SimConn
  LocalSrc = "s1"
  IfNone = TRUE
  Mtu = 124
  Queries <- SimQueries
  D = 60
INIT Init
NEXT Next
INVARIANT Export
CHECK_DEADLOCK FALSE
