CONSTANTS
  Nbrs <- SimNbrs
  Selfs <- SimSelfs
  Prefixes <- SimPrefixes
  Ifaces <- Ifs
  IfOf <- IfAll
  T = 6
  G = 9
  R = 2
  Strict = FALSE
  Msgs <- SimMsgs
  Dts <- SimDts
  StaticCfg <- SimStatic
  LocalCfg <- SimLocal
  ConnCfg <- SimConn
  LocalSrc = "s1"
  IfNone = FALSE
  Mtu = 124
  Queries <- SimQueries
  D = 60
INIT Init
NEXT SimNext
INVARIANT Export
CHECK_DEADLOCK FALSE
