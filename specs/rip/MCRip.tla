------------------------------- MODULE MCRip -------------------------------
(* Constants of the model-checking / export / simulation configurations of Rip.tla.                       *)
(* Addresses: neighbours a, b live on interface i1, c on i2; s1, s2 are the router's own addresses.       *)
EXTENDS Rip
E(k, m) == [k |-> k, m |-> m, tag |-> 0, af |-> "inet"]
Ifs == {"i1", "i2"}
IfAll == [x \in {"a", "b", "c", "s1", "s2"} |-> IF x \in {"c", "s2"} THEN "i2" ELSE "i1"]
OneSelf == {"s1"}
OneP == {"p1"}
NoCfg == {}
Dt1 == {1}

\* ---- LAN world: two neighbours on one interface (plain split horizon), nobody on the other (no filtering)
LanNbrs == {"a", "b"}
LanMsgs == { <<E("p1", 1)>>, <<E("p1", 2)>>, <<E("p1", 16)>> }
LanStatic == { <<"p1", "b", 3>> }
LanLocal == { <<"p1", 3>> }
LanConn == { <<"p1", "i2">> }
LanQueries == { <<"i1", TRUE, FALSE, 84>>, <<"i2", TRUE, TRUE, 104>>, <<"i2", FALSE, FALSE, 64>> }
\* ---- point-to-point world: one neighbour per interface (poisoned reverse)
P2pNbrs == {"a", "c"}
P2pMsgs == { <<E("p1", 1)>>, <<E("p1", 2)>>, <<E("p1", 16)>>, <<E("p1", 14), E("p1", 0)>> }
P2pStatic == { <<"p1", "c", 2>> }
P2pQueries == { <<"i1", TRUE, FALSE, 104>>, <<"i2", FALSE, FALSE, 1400>> }
\* ---- odd-entries world: two prefixes, multi-entry responses, entries the loop skips, /32s of others
OddNbrs == {"a", "c"}
OddPrefixes == {"p1", "p2"}
OddMsgs == { <<E("p1", 1), E("p2", 2)>>, <<E("p1", 15), E("p1", 1)>>, <<E("p2", 1), E("p2", 16)>>, <<E("p2", 16)>>, <<E("p1", 0)>>,
             <<[k |-> "p1", m |-> 1, tag |-> 1, af |-> "inet"], E("p2", 17)>>,
             <<[k |-> "p2", m |-> 1, tag |-> 0, af |-> "other"]>>, <<E("a", 1)>>, <<>> }
OddQueries == { <<"i1", TRUE, FALSE, 104>> }
\* ---- export worlds (edge cover): small, so that every transition can be replayed
XMsgs == { <<E("p1", 1)>>, <<E("p1", 16)>> }
XQueries == { <<"i1", TRUE, FALSE, 104>> }
\* ---- simulation world: three neighbours, three prefixes, both own addresses, medium timer constants
SimNbrs == {"a", "b", "c"}
SimSelfs == {"s1", "s2"}
SimPrefixes == {"p1", "p2", "p3"}
SimMsgs == { <<E("p1", 1)>>, <<E("p1", 2)>>, <<E("p2", 1)>>, <<E("p2", 15)>>, <<E("p3", 16)>>, <<E("p1", 16)>>, <<E("p2", 0)>>,
             <<E("p3", 17)>>, <<E("a", 1)>>, <<E("c", 0)>>, <<E("s1", 2)>>, <<E("p1", 1), E("p2", 2)>>, <<E("p1", 15), E("p1", 1)>>,
             <<E("p1", 3), E("p2", 3), E("p3", 3)>>, <<[k |-> "p1", m |-> 1, tag |-> 3, af |-> "inet"], E("p3", 1)>>,
             <<[k |-> "p2", m |-> 1, tag |-> 0, af |-> "other"]>>, <<>> }
SimStatic == { <<"p1", "a", 1>>, <<"p2", "c", 3>>, <<"p3", "b", 15>> }
SimLocal == { <<"p3", 1>>, <<"p2", 5>> }
SimConn == { <<"p1", "i1">>, <<"p3", "i2">> }
SimQueries == { <<"i1", TRUE, FALSE, 64>>, <<"i2", TRUE, FALSE, 84>>, <<"i1", FALSE, FALSE, 104>>, <<"i2", TRUE, TRUE, 124>>,
                <<"i1", TRUE, FALSE, 1400>>, <<"i2", FALSE, TRUE, 564>> }
SimDts == {1, 2, 3, 4, 6}
\* ---- bulk world (trace validation only): enough routes to fill several packets at the real MTUs
BigPrefixes == {"p" \o ToString(j) : j \in 1..140}
\* Next for -simulate runs.  TLC's simulator first picks one of the syntactic sub-actions of the next-state
\* relation (it splits every \E over a CONSTANT set into one sub-action per value) and then one of its
\* successors: with Next as it stands 50 of 80 sub-actions are responses and time hardly ever passes.  A
\* state-level bound is not split, so every kind of step is ONE sub-action here; the behaviours are the same.
Lift(S) == IF rt.pend \in BOOLEAN THEN S ELSE {}
One == Lift({0})
SimResponse == \E n \in Lift(Nbrs) : \E ents \in Msgs : \E i \in IfChoices(n) : Response(n, i, ents)
SimTick == \E d \in Lift(Dts) : Tick(d)
SimNext == \/ SimResponse \/ SimResponse
           \/ \E z \in One : (NextRequest \/ NextQuery \/ Periodic)
           \/ \E z \in One : NextConfig
           \/ NextTimeout \/ NextGarbage \/ Fire
           \/ SimTick \/ SimTick \/ SimTick
=============================================================================
