------------------------------- MODULE MCRip -------------------------------
EXTENDS Rip
E(k, m) == [k |-> k, m |-> m, tag |-> 0, af |-> "inet"]
\* ---- small exhaustive world: neighbours a, b share interface i1, c is alone on i2
MCNbrs == {"a", "b", "c"}
MCSelfs == {"s1"}
MCPrefixes == {"p1"}
MCIfaces == {"i1", "i2"}
MCIfOf == [x \in {"a", "b", "c", "s1"} |-> IF x = "c" THEN "i2" ELSE "i1"]
MCMsgs == { <<>>, <<E("p1", 1)>>, <<E("p1", 2)>>, <<E("p1", 16)>> }
MCStaticCfg == { <<"p1", "c", 3>> }
MCLocalCfg == { <<"p1", 3>> }
MCConnCfg == { <<"p1", "i2">> }
MCQueryMtus == {84, 104}
MCDts == {1}
\* second world: two prefixes, two neighbours, multi-entry responses, odd entries
M2Nbrs == {"a", "c"}
M2Prefixes == {"p1", "p2"}
M2IfOf == [x \in {"a", "c", "s1"} |-> IF x = "c" THEN "i2" ELSE "i1"]
M2Msgs == { <<E("p1", 1), E("p2", 2)>>, <<E("p1", 15), E("p1", 1)>>, <<E("p2", 16)>>, <<E("p1", 0)>>, <<E("p2", 17)>>,
            <<[k |-> "p1", m |-> 1, tag |-> 1, af |-> "inet"], E("p2", 1)>>,
            <<[k |-> "p2", m |-> 1, tag |-> 0, af |-> "other"]>>, <<E("a", 1)>>, <<E("c", 0)>>, <<E("s1", 1)>> }
M2StaticCfg == { <<"p2", "a", 2>> }
M2LocalCfg == {}
M2ConnCfg == {}
=============================================================================
