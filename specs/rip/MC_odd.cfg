CONSTANTS
  Nbrs <- OddNbrs
  Selfs <- OneSelf
  Prefixes <- OddPrefixes
  Ifaces <- Ifs
  IfOf <- IfAll
  T = 2
  G = 1
  R = 1
  Strict = FALSE
  Msgs <- OddMsgs
  Dts <- Dt1
  StaticCfg <- NoCfg
  LocalCfg <- NoCfg
  ConnCfg <- NoCfg
  LocalSrc = "s1"
  IfNone = FALSE
  Mtu = 104
  Queries <- OddQueries
  D = 0
INIT Init
NEXT Next
VIEW viewE
INVARIANT TypeOK
PROPERTY DeletedOnlyByGarbage
PROPERTY GarbageFullInterval
PROPERTY UnreachableOnlyWhenDue
PROPERTY TimeoutOnlyRefreshedByResponse
PROPERTY ConfiguredUntimed
PROPERTY DistanceVector
PROPERTY ChangesTrigger
PROPERTY TriggerRateLimit
PROPERTY PacketsWellFormed
PROPERTY FullUpdateComplete
PROPERTY ExpiredAdvertisedUnreachable
PROPERTY TriggeredOnlyChanged
PROPERTY NoFiniteBackToSource
CHECK_DEADLOCK FALSE
