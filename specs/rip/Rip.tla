-------------------------------- MODULE Rip --------------------------------
(* X12: ONE RIP router (rip_core.RIPRouter + Entry) and its environment.                                   *)
(*                                                                                                          *)
(* One action per entry point / timer callback of the code:                                                *)
(*   Response(n, i, ents)   process_response(iface, addr, ripp)  (a RIP response datagram from neighbour n) *)
(*   Request(n)             process_request                                                                *)
(*   Timeout(k), Garbage(k) Entry._handle_timeout / _handle_garbage   (the entry's Timer expires)          *)
(*   Fire                   _on_triggered_update                      (the trigger Timer expires)          *)
(*   Periodic               send_updates(force=True)                  (the subclass's SEND_TIMER)          *)
(*   Query(i, f, so, mtu)   get_responses(dests(i), force, static_only, mtu)  (pure: nothing is marked)    *)
(*   AddStatic / AddConnected / AddLocal / AddIface    configuration as ovs_rip / linux_rip do it          *)
(*   Advance(d)             d units of time pass; never across a timer that is due (timers due at the same *)
(*                          instant fire in ANY order - each is its own action)                            *)
(* Every action logs what an observer sees afterwards: the whole table (with the time left on every entry  *)
(* timer), the trigger timer, the packets sent per interface (set of <<key, metric>> + entries per packet),*)
(* how often sync_table was called, and that no other timer is alive.                                      *)
EXTENDS RipCore, Json

CONSTANTS Msgs,       \* response bodies: sequences of [k, m, tag, af]
          Dts,        \* amounts of time Advance may take
          StaticCfg,  \* {<<key, next hop, metric>>} AddStatic may install
          LocalCfg,   \* {<<key, metric>>} AddLocal may install
          LocalSrc,   \* the own address such kernel routes name as their source
          IfNone,     \* whether process_response is also tried with iface = None
          ConnCfg,    \* {<<key, iface>>} AddConnected may install
          Mtu,        \* the mtu the router's send_updates passes on (1400 = DEFAULT_MTU)
          Queries,    \* {<<iface, force, static_only, mtu>>} Query tries
          D           \* export depth

VARIABLES rt,         \* the router (RipCore)
          last, hist
vars == <<rt, last, hist>>
view == <<rt, last>>
viewE == rt

NoOut == [i \in Ifaces |-> NoPackets]
Obs(r, out, sync) == [tbl |-> TblObs(r), trig |-> TrigObs(r), out |-> out, sync |-> sync, orph |-> 0, wire |-> "ok"]
NoObs == [a |-> "Init", args |-> [x |-> 0], exp |-> Obs(Router0, NoOut, 0)]

Init == /\ rt = Router0
        /\ last = NoObs
        /\ hist = <<>>

Log(a, args, exp) ==
  /\ last' = [a |-> a, args |-> args, exp |-> exp]
  /\ hist' = IF D = 0 THEN hist ELSE Append(hist, [a |-> a, args |-> args, exp |-> exp])   \* D = 0: model checking only

\* the subclass's receive path (LinuxRIPRouter.run): parse, process_response, then sync_table.
\* pox.lib.packet.rip refuses a datagram shorter than MIN_LEN = 24 (header + one entry): a response without
\* entries is left unparsed (version 0) and the receive path drops it before process_response.
Response(n, i, ents) ==
  /\ rt' = IF ents = <<>> THEN rt ELSE ProcessResponse(rt, n, i, ents)
  /\ Log("Response", [n |-> n, i |-> i, ents |-> ents], Obs(rt', NoOut, IF ents = <<>> THEN 0 ELSE 1))

\* ---- NAMED DEVIATION RequestIgnored -------------------------------------------------------------------
\* process_request recognises a whole-table request (one entry, address family 0), logs it - and answers
\* nothing.  RFC 2453 3.9.1: the whole table is sent to the requester (with the horizon of that interface).
\* Strict: the answer is expected on the requester's interface.
Request(n) ==
  /\ rt' = rt
  /\ Log("Request", [n |-> n],
         Obs(rt, IF Strict THEN [NoOut EXCEPT ![IfOf[n]] = Packets(rt, IfOf[n], TRUE, FALSE, Mtu)] ELSE NoOut, 0))

Timeout(k) ==
  /\ TimeoutDue(rt, k)
  /\ rt' = DoTimeout(rt, k)
  /\ Log("Timeout", [k |-> k], Obs(rt', NoOut, 0))
Garbage(k) ==
  /\ GarbageDue(rt, k)
  /\ rt' = DoGarbage(rt, k)
  /\ Log("Garbage", [k |-> k], Obs(rt', NoOut, 0))

\* send_updates(force): one get_responses per interface, then _mark_all_clean
SendAll(force) == [i \in Ifaces |-> Packets(rt, i, force, FALSE, Mtu)]
\* _on_triggered_update: sync_table(); triggered_pending = False; send_updates(force=False)
Fire ==
  /\ FireDue(rt)
  /\ rt' = MarkClean([rt EXCEPT !.pend = FALSE, !.tr = 0])
  /\ Log("Fire", [x |-> 0], Obs(rt', SendAll(FALSE), 1))
Periodic ==
  /\ rt' = MarkClean(rt)
  /\ Log("Periodic", [x |-> 0], Obs(rt', SendAll(TRUE), 0))
Query(i, force, so, mtu) ==
  /\ rt' = rt
  /\ Log("Query", [i |-> i, force |-> force, so |-> so, mtu |-> mtu],
         Obs(rt, [NoOut EXCEPT ![i] = Packets(rt, i, force, so, mtu)], 0))

\* configuration: table[key] = entry, nothing else (no trigger_update; the entry is born "changed")
AddStatic(k, nh, m) ==
  /\ rt' = [rt EXCEPT !.tbl[k] = NewStatic(nh, m)]
  /\ Log("AddStatic", [k |-> k, nh |-> nh, m |-> m], Obs(rt', NoOut, 0))
AddConnected(k, i) ==
  /\ rt' = [rt EXCEPT !.tbl[k] = NewConnected(i)]
  /\ Log("AddConnected", [k |-> k, i |-> i], Obs(rt', NoOut, 0))
AddLocal(k, m) ==
  /\ rt' = [rt EXCEPT !.tbl[k] = NewLocal(LocalSrc, m)]
  /\ Log("AddLocal", [k |-> k, m |-> m], Obs(rt', NoOut, 0))
AddIface(s) ==
  /\ rt' = [rt EXCEPT !.tbl[s] = NewIface(s)]
  /\ Log("AddIface", [s |-> s], Obs(rt', NoOut, 0))

Tick(d) ==
  /\ CanAdvance(rt, d)
  /\ rt' = Advance(rt, d)
  /\ Log("Advance", [d |-> d], Obs(rt', NoOut, 0))

IfChoices(n) == IF IfNone THEN {IfOf[n], "none"} ELSE {IfOf[n]}
NextResponse == \E n \in Nbrs, ents \in Msgs : \E i \in IfChoices(n) : Response(n, i, ents)
NextTimeout == \E k \in Keys : Timeout(k)
NextGarbage == \E k \in Keys : Garbage(k)
NextQuery == \E q \in Queries : Query(q[1], q[2], q[3], q[4])
NextAddStatic == \E c \in StaticCfg : AddStatic(c[1], c[2], c[3])
NextAddConnected == \E c \in ConnCfg : AddConnected(c[1], c[2])
NextAddLocal == \E c \in LocalCfg : AddLocal(c[1], c[2])
NextAddIface == \E s \in Selfs : AddIface(s)
NextConfig == NextAddStatic \/ NextAddConnected \/ NextAddLocal \/ NextAddIface
NextTick == \E d \in Dts : Tick(d)
NextRequest == \E n \in Nbrs : Request(n)

Next == \/ NextResponse \/ NextRequest \/ NextTimeout \/ NextGarbage \/ Fire \/ Periodic
        \/ NextQuery \/ NextConfig \/ NextTick
Spec == Init /\ [][Next]_vars

----------------------------------------------------------------------------
(* Properties, over the real variables (`last` only tells which action was taken with which arguments).    *)

TypeOK == RouterOK(rt)

\* ---- timers: a route not refreshed for T becomes unreachable, is deleted G later, never earlier ----------
Tbl == rt.tbl
\* an entry disappears only when its garbage timer has run out (or configuration overwrites the key)
DeletedOnlyByGarbage ==
  [][\A k \in Keys : (Present(Tbl[k]) /\ ~Present(Tbl'[k])) => (Tbl[k].tm = "gc" /\ Tbl[k].ttl = 0 /\ last'.a = "Garbage")]_vars
\* the garbage timer always starts at G, and once running it only counts down: it is never restarted - unless
\* one response mentions the destination several times, making it reachable and unreachable again in one step
Mentions(ents, k) == {j \in DOMAIN ents : ents[j].k = k}
GarbageFullInterval ==
  [][\A k \in Keys :
       /\ (Tbl'[k].tm = "gc" /\ Tbl[k].tm # "gc") => (Tbl'[k].ttl = G /\ Tbl'[k].m = INF /\ Tbl'[k].chg)
       /\ (Tbl'[k].tm = "gc" /\ Tbl[k].tm = "gc") =>
             \/ (Tbl'[k] = [Tbl[k] EXCEPT !.chg = Tbl'[k].chg] /\ last'.a # "Advance")
             \/ (last'.a = "Advance" /\ Tbl'[k] = [Tbl[k] EXCEPT !.ttl = @ - last'.args.d])
             \/ (last'.a = "Response" /\ Cardinality(Mentions(last'.args.ents, k)) > 1
                    /\ Tbl'[k].ttl = G /\ Tbl'[k].m = INF /\ Tbl'[k].chg /\ Tbl'[k].nh = last'.args.n)]_vars
\* a reachable route turns unreachable only (a) when its timeout has run out or (b) on the word of its next hop
UnreachableOnlyWhenDue ==
  [][\A k \in Keys : (Present(Tbl[k]) /\ Tbl[k].m < INF /\ Present(Tbl'[k]) /\ Tbl'[k].m >= INF) =>
        \/ (last'.a = "Timeout" /\ last'.args.k = k /\ Tbl[k].tm = "to" /\ Tbl[k].ttl = 0)
        \/ (last'.a = "Response" /\ Tbl'[k].nh = last'.args.n
              /\ (Tbl[k].nh = last'.args.n \/ Cardinality(Mentions(last'.args.ents, k)) > 1))]_vars
\* the timeout timer is restarted (to the full T) only by a Response; otherwise it only counts down
TimeoutOnlyRefreshedByResponse ==
  [][\A k \in Keys : (Tbl[k].tm = "to" /\ Tbl'[k].tm = "to" /\ last'.a # "Response") =>
        IF last'.a = "Advance" THEN Tbl'[k].ttl = Tbl[k].ttl - last'.args.d ELSE Tbl'[k].ttl = Tbl[k].ttl]_vars
\* time never jumps over a timer that is due
\* configured routes carry no timer, and no timer action ever touches them
ConfiguredUntimed ==
  [][\A k \in Keys : (IsStatic(Tbl[k]) /\ last'.a \in {"Timeout", "Garbage", "Advance", "Fire", "Periodic", "Query", "Request"}) =>
        Tbl'[k] = [Tbl[k] EXCEPT !.chg = Tbl'[k].chg]]_vars
\* STRICT ONLY (fails on the code's behaviour, see StaticOverride): a configured route stays until reconfigured
ConfiguredPermanent ==
  [][\A k \in Keys : (IsStatic(Tbl[k]) /\ last'.a \notin {"AddStatic", "AddConnected", "AddLocal", "AddIface"}) =>
        Tbl'[k] = [Tbl[k] EXCEPT !.chg = Tbl'[k].chg]]_vars

\* ---- distance vector: what one advertised route does to the table -------------------------------------------
\* (stated for responses that mention a key exactly once and validly; k # sender's own /32)
SingleValid(ents, k, n, i) == /\ Cardinality(Mentions(ents, k)) = 1
                              /\ LET e == ents[CHOOSE j \in Mentions(ents, k) : TRUE] IN ~Skipped(e, n, i)
HeardMetric(ents, k) == Min2(ents[CHOOSE j \in Mentions(ents, k) : TRUE].m + 1, INF)
DistanceVector ==
  [][last'.a = "Response" =>
      LET n == last'.args.n  i == last'.args.i  ents == last'.args.ents IN
      \A k \in Keys \ {n} : SingleValid(ents, k, n, i) /\ ~StaticKept(Tbl[k]) =>
        LET h == HeardMetric(ents, k)  o == Tbl[k]  o2 == Tbl'[k] IN
        /\ ~Present(o) => (IF h < INF THEN Present(o2) /\ o2.nh = n /\ o2.m = h /\ o2.ttl = T ELSE ~Present(o2))
        \* news from the current next hop always replaces (an unreachable route stays as it is, timer included)
        /\ (Present(o) /\ o.nh = n) => /\ o2.m = h /\ o2.nh = n
                                       /\ (o.m >= INF /\ h >= INF => o2 = o)
                                       /\ (h < INF /\ o2.kind = "dyn" => o2.ttl = T)
        \* somebody else: taken iff strictly better, or equally good while ours is going stale
        /\ (Present(o) /\ o.nh # n) =>
              IF h < o.m \/ (h = o.m /\ h < INF /\ Stale(o))
              THEN o2.nh = n /\ o2.m = h /\ o2.kind = "dyn" /\ o2.ttl = T /\ o2.chg
              ELSE o2 = o
        \* whatever happened, we are never worse off than what we just heard, and never name n for another metric
        /\ (h < INF => Present(o2) /\ o2.m <= h)
        /\ (Present(o2) /\ o2.nh = n /\ o2.kind = "dyn" /\ o2.dev = "-") => o2.m = h]_vars
\* every change of a route's metric / next hop marks it changed and arms the triggered update
ChangesTrigger ==
  [][\A k \in Keys : (Present(Tbl'[k]) /\ last'.a \in {"Response", "Timeout"}
                      /\ (Tbl'[k].m # Tbl[k].m \/ Tbl'[k].nh # Tbl[k].nh \/ Tbl'[k].kind # Tbl[k].kind \/ Tbl'[k].dev # Tbl[k].dev))
                     => (Tbl'[k].chg /\ rt'.pend)]_vars

\* ---- triggered updates: rate limit -----------------------------------------------------------------------
\* armed with the full delay R by the first change, never re-armed or postponed by later changes, fired only
\* when the delay has run out, disarmed only by firing: at most one triggered update per R
TriggerRateLimit ==
  [][/\ (~rt.pend /\ rt'.pend) => rt'.tr = R
     /\ (rt.pend /\ rt'.pend) => (IF last'.a = "Advance" THEN rt'.tr = rt.tr - last'.args.d ELSE rt'.tr = rt.tr)
     /\ (rt.pend /\ ~rt'.pend) => (last'.a = "Fire" /\ rt.tr = 0)]_vars

\* ---- advertisements --------------------------------------------------------------------------------------
Sum(s) == LET RECURSIVE S(_) S(j) == IF j = 0 THEN 0 ELSE s[j] + S(j - 1) IN S(Len(s))
AdvOK(p, mtu) ==
  /\ Sum(p.sizes) = Cardinality(p.adv)                                   \* every wire entry is a distinct route:
  /\ Cardinality({e[1] : e \in p.adv}) = Cardinality(p.adv)              \* each route once
  /\ Cap(mtu) > 0 => \A j \in DOMAIN p.sizes :
        /\ p.sizes[j] \in 1..Cap(mtu)                                     \* no packet over the cap, none empty
        /\ j < Len(p.sizes) => p.sizes[j] = Cap(mtu)                      \* all but the last one full
\* STRICT ONLY: the RFC limit
RFCPacketLimit ==
  [][\A i \in Ifaces : \A j \in DOMAIN last'.exp.out[i].sizes : last'.exp.out[i].sizes[j] \in 1..RFCMaxEntries]_vars
PacketsWellFormed ==
  [][/\ last'.a \in {"Fire", "Periodic"} => \A i \in Ifaces : AdvOK(last'.exp.out[i], Mtu)
     /\ last'.a = "Query" => AdvOK(last'.exp.out[last'.args.i], last'.args.mtu)]_vars
\* a full update tells, on every interface, every route of the table exactly once: with its metric, or - when
\* it was learned from an address on that interface - as unreachable (sole neighbour) / not at all (several)
FullUpdateComplete ==
  [][last'.a = "Periodic" =>
       \A i \in Ifaces : LET A == last'.exp.out[i].adv  Dn == Dests(rt, i) IN
         \A k \in Keys :
           LET mine == {e \in A : e[1] = k} IN
           IF ~Present(Tbl[k]) THEN mine = {}
           ELSE IF Tbl[k].nh \notin Dn THEN mine = {<<k, Tbl[k].m>>}
           ELSE IF Cardinality(Dn) = 1 THEN mine = {<<k, INF>>}
           ELSE mine = {}]_vars
\* a route that has timed out is advertised as unreachable for as long as it is in the table
ExpiredAdvertisedUnreachable ==
  [][last'.a \in {"Periodic"} =>
       \A i \in Ifaces, k \in Keys : (Present(Tbl[k]) /\ Tbl[k].tm = "gc" /\ ~(Tbl[k].nh \in Dests(rt, i) /\ Cardinality(Dests(rt, i)) > 1))
            => <<k, INF>> \in last'.exp.out[i].adv]_vars
\* a triggered update carries only routes changed since the last update (of either kind), and after any
\* update nothing is marked changed
TriggeredOnlyChanged ==
  [][/\ last'.a = "Fire" => \A i \in Ifaces : \A e \in last'.exp.out[i].adv : Tbl[e[1]].chg
     /\ last'.a \in {"Fire", "Periodic"} => \A k \in Keys : ~Tbl'[k].chg]_vars
\* never a finite metric back to the interface it was learned on
NoFiniteBackToSource ==
  [][last'.a \in {"Fire", "Periodic"} =>
       \A i \in Ifaces : \A e \in last'.exp.out[i].adv : Tbl[e[1]].nh \in Dests(rt, i) => e[2] = INF]_vars

\* ---- export for the replay harness
Bound   == Len(hist) <= D
Export  == (Len(hist) = D) => PrintT(<<"H", ToJson(hist)>>)
ExportT == PrintT(<<"T", ToJson(hist')>>)
=============================================================================
