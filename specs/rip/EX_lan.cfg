CONSTANTS
  Nbrs <- LanNbrs
  Selfs <- OneSelf
  Prefixes <- OneP
  Ifaces <- Ifs
  IfOf <- IfAll
  T = 2
  G = 1
  R = 1
  Strict = FALSE
  Msgs <- XMsgs
  Dts <- Dt1
  StaticCfg <- LanStatic
  LocalCfg <- NoCfg
  ConnCfg <- NoCfg
  LocalSrc = "s1"
  IfNone = FALSE
  Mtu = 104
  Queries <- XQueries
  D = 1
INIT Init
NEXT Next
VIEW viewE
ACTION_CONSTRAINT ExportT
CHECK_DEADLOCK FALSE
