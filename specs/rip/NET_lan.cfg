CONSTANTS
  Nbrs <- TriNodes
  Selfs <- NoSet
  Prefixes <- NoSet
  Ifaces <- LanIfs
  IfOf <- LanIf
  Routers <- R3
  Stubs <- TriStubs
  Links <- TriLinks
  S = 2
  T = 4
  G = 2
  R = 1
  Strict = FALSE
  BootChoices <- Ph12
  Mtu = 1400
  Dts <- Dt1
  MaxFails = 0
  D = 0
  SlowFrom = "r3"
  SlowTo = "r2"
SPECIFICATION Spec
VIEW viewE
INVARIANT TypeOK
INVARIANT MetricsBounded
INVARIANT NeverTooGood
INVARIANT NextHopIsNeighbour
INVARIANT OwnRouteStays
PROPERTY Convergence
CHECK_DEADLOCK FALSE
