---- MODULE MCFraming ----
EXTENDS Framing
\* kinds: concrete OpenFlow messages of these lengths are built by the adapter for each side
\* (r80: a features reply with one port / a packet-out; h16: a HELLO with an 8-byte body, which receivers must accept)
Lens == [hv8 |-> 8, r80 |-> 80, h16 |-> 16, huge |-> 40000, max |-> 65535, h8 |-> 8, e9 |-> 9, c12 |-> 12, m16 |-> 16, f72 |-> 72, f88 |-> 88, p64 |-> 64,
         big |-> 1518, b2040 |-> 2040, b2047 |-> 2047, b2048 |-> 2048, b2049 |-> 2049, b2056 |-> 2056]
SeqsUpTo(S, n) == UNION {[1..k -> S] : k \in 1..n}
Small == SeqsUpTo({"h8", "e9", "c12"}, 3)
Small2 == SeqsUpTo({"h8", "e9", "c12"}, 2)
Medium == {<<"h8", "r80", "e9">>, <<"r80", "r80">>, <<"e9", "h16", "c12">>, <<"h16", "h8">>, <<"h8", "m16", "e9">>, <<"f72", "h8">>, <<"e9", "f72", "c12">>, <<"p64", "f88">>, <<"m16", "p64", "h8">>}
MediumQ == {<<"h8", "r80", "e9">>, <<"e9", "h16", "c12">>, <<"h8", "m16", "e9">>, <<"p64", "f88">>}
Big == {<<"big", "h8">>, <<"h8", "big", "e9">>, <<"b2040", "h8">>, <<"b2047", "h8">>, <<"b2048", "h8">>,
        <<"b2049", "e9">>, <<"b2056", "c12">>, <<"e9", "b2040", "h8">>, <<"c12", "b2047">>, <<"big", "big">>}
\* interesting cut offsets for long streams: every message/header boundary +-1 and read-size multiples +-1
RECURSIVE Ends(_, _)
Ends(s, i) == IF i = 0 THEN {0} ELSE Ends(s, i - 1) \cup {SumTo(s, i)}
Near(S) == UNION {{x - 1, x, x + 1, x + 7, x + 8, x + 9} : x \in S}
BigCuts == UNION {Near(Ends(s, Len(s))) : s \in Big} \cup Near({2048, 4096})
\* messages of 32 KiB and more (the length field is an unsigned 16-bit number)
Huge == {<<"huge", "h8">>, <<"h8", "huge", "e9">>, <<"max", "h8">>}
HugeCuts == UNION {Near(Ends(s, Len(s))) : s \in Huge} \cup Near({32767, 32768, 40000})
\* controller: 2048-byte reads; allow only a couple of early cut points, the rest are full-size reads
HugeCutsC == {7, 8, 9, 17}
\* many short messages in one read (a reader may not stop after some number of messages: nothing tells it to look
\* at the buffer again until more bytes arrive)
Many == {[i \in 1..130 |-> "h8"], [i \in 1..300 |-> IF i % 3 = 0 THEN "e9" ELSE "h8"], [i \in 1..520 |-> "h8"]}
ManyCuts == {1, 8, 1023, 1040, 2047, 2048, 2049, 4100}
\* controller side only: the first message is a HELLO announcing another OpenFlow version (what a newer switch sends;
\* the controller accepts it) - the messages behind it in the same read are judged by their own version byte
HelloV == {<<"hv8", "e9", "h8">>, <<"hv8", "r80">>, <<"hv8", "h8", "p64">>}
NoCuts == {}
NoFail == {{}}
SomeFail == {{}, {1}, {2}, {1, 2}, {1, 3}}
FewFail == {{}, {1}, {2}}
NoSwap == {{}}
FewSwap == {{}, {1}, {2}}
====
