---- MODULE TraceFaults ----
(* Code -> spec for C10: outcome events recorded from the real I/O loops (controller:        *)
(* OpenFlow_01_Task.run, switch: RecocoIOLoop.run + OFConnection) must be explainable by      *)
(* FramingFaults.tla.  Events "died" / "diverged" / "escaped" have no counterpart: rejected.  *)
EXTENDS FramingFaults, Json, IOUtils, TLCExt, SequencesExt
TrConns == {"A", "B"}
TrStreams == {}
Traces == JsonDeserialize(IOEnv.TRACE_FILE)
NTr == Len(Traces)
VARIABLES tid, l
TrInit == /\ tid \in 1..NTr /\ l = 1 /\ TLCSet(tid, 0)
          /\ stream = [c \in Conns |-> Traces[tid].streams[c]]
          /\ fed = [c \in Conns |-> 0] /\ nxt = [c \in Conns |-> 1]
          /\ open = [c \in Conns |-> TRUE] /\ sync = [c \in Conns |-> TRUE]
          /\ eof = [c \in Conns |-> FALSE]
          /\ delivered = [c \in Conns |-> <<>>] /\ errors = [c \in Conns |-> 0] /\ alive = TRUE
Evs == Traces[tid].events
Ev == Evs[l]
Step(e) == l <= Len(Evs) /\ Ev.e = e /\ l' = l + 1 /\ UNCHANGED tid
TrNext ==
  \/ Step("feed") /\ Feed(Ev.c, Ev.k)
  \/ Step("eof") /\ Eof(Ev.c)
  \/ Step("deliver") /\ Ev.i = nxt[Ev.c] /\ Deliver(Ev.c)
  \* an error reply answers the message it skips: it carries that message's transaction id (Ev.k = index of the
  \* message whose id the reply carries; nothing is promised about the header fields of junk)
  \/ Step("error") /\ (Cls(Ev.c) = "junk" \/ Ev.k = nxt[Ev.c]) /\ SkipWithError(Ev.c)
  \/ Step("skipq") /\ SkipQuietly(Ev.c)
  \/ Step("close") /\ Close(Ev.c)
  \/ Step("garbage") /\ Garbage(Ev.c)
  \/ Step("end") /\ alive /\ (\A c \in Conns : Settled(c)) /\ UNCHANGED vars
Progress2 == TLCSet(tid, IF TLCGet(tid) < l - 1 THEN l - 1 ELSE TLCGet(tid))
Ok(t) == TLCGet(t) = Len(Traces[t].events) \/ (PrintT(<<"REJECT", t, TLCGet(t)>>) /\ FALSE)
Accepted == /\ PrintT(<<"TRACES-CHECKED", NTr>>)
            /\ Cardinality({t \in 1..NTr : ~Ok(t)}) = 0
====
