--------------------------- MODULE FramingFaults ---------------------------
(* C10: malformed OpenFlow input is contained to the offending connection.    *)
(*                                                                            *)
(* Several connections share one I/O loop.  Each connection receives a stream *)
(* of messages; each message belongs to a class that says what a correct      *)
(* decoder may do with it:                                                    *)
(*   ok         well-formed: must be delivered (never skipped, never a reason *)
(*              to close)                                                     *)
(*   tolerable  consistent length, odd content that a decoder may either      *)
(*              deliver or reject (wrong-direction type, embedded length that *)
(*              still parses)                                                 *)
(*   bad        consistent length, cannot be decoded (unknown type/version,   *)
(*              corrupted embedded lengths): answer with an error and skip    *)
(*              exactly the declared length, or close this connection         *)
(*   badlen     the declared length is wrong (too short for the type, longer  *)
(*              than what was sent) but at least 8: as `bad`; after a skip    *)
(*              (or a delivery of exactly the declared bytes) the stream is   *)
(*              out of step and nothing more is promised for THIS connection  *)
(*   short      declared length >= 8 but smaller than the fixed part of the message's  *)
(*              type: cannot be decoded from its own bytes at all - as `badlen`     *)
(*              except that it must never be delivered (that would be a message   *)
(*              built from bytes of two messages)                                 *)
(*   raises     well-formed, delivered, but its handler fails: as ok; the failure   *)
(*              stays inside this one message                                      *)
(*   closes     well-formed, delivered, and its handler gives up on the connection  *)
(*              (disconnects it itself, as the handshake does on a reply it did not *)
(*              expect): delivered, then THIS connection is closed - from inside a  *)
(*              handler, not by the loop; the loop and the other connections must   *)
(*              not notice anything else                                            *)
(*   junk       randomly mutated / random bytes: nothing is promised for THIS         *)
(*              connection from here on (any outcome, framing counts as lost);     *)
(*              everything else - termination, the loop, other connections - is     *)
(*   nolen      declared length < 8: cannot be skipped, the connection must   *)
(*              be closed                                                     *)
(*   partial    a message cut short by end of stream: held, then closed       *)
(* The decoder's choices are nondeterministic; what is NOT in the model is    *)
(* what the property forbids: hanging, the loop dying, touching another       *)
(* connection, delivering a non-ok message that cannot be decoded, skipping   *)
(* an ok message, closing a connection that only ever sent ok messages.       *)
EXTENDS Naturals, Sequences, FiniteSets, TLC

CONSTANTS Conns, Streams    \* Streams: set of functions [Conns -> Seq(class)]
Classes == {"ok", "raises", "closes", "tolerable", "bad", "badlen", "short", "nolen", "partial", "junk"}
Good == {"ok", "raises"}

VARIABLES stream,      \* [Conns -> Seq(class)]
          fed,         \* [Conns -> number of messages handed to the loop]
          nxt,         \* [Conns -> index of the first unresolved message]
          open,        \* [Conns -> BOOLEAN]
          sync,        \* [Conns -> BOOLEAN] framing still trustworthy
          eof,         \* [Conns -> BOOLEAN] peer finished sending
          delivered,   \* [Conns -> Seq(index)]
          errors,      \* [Conns -> number of error replies]
          alive        \* the I/O loop is running
vars == <<stream, fed, nxt, open, sync, eof, delivered, errors, alive>>

Init == /\ stream \in Streams
        /\ fed = [c \in Conns |-> 0] /\ nxt = [c \in Conns |-> 1]
        /\ open = [c \in Conns |-> TRUE] /\ sync = [c \in Conns |-> TRUE]
        /\ eof = [c \in Conns |-> FALSE]
        /\ delivered = [c \in Conns |-> <<>>] /\ errors = [c \in Conns |-> 0]
        /\ alive = TRUE

Pending(c) == nxt[c] <= fed[c]
Cls(c) == IF nxt[c] <= Len(stream[c]) THEN stream[c][nxt[c]] ELSE "none"

\* environment: k more messages of c arrive (possibly several in one read)
Feed(c, k) ==
  /\ alive /\ k >= 1 /\ fed[c] + k <= Len(stream[c]) /\ ~eof[c]
  /\ fed' = [fed EXCEPT ![c] = @ + k]
  /\ UNCHANGED <<stream, nxt, open, sync, eof, delivered, errors, alive>>
Eof(c) ==
  /\ alive /\ ~eof[c] /\ fed[c] = Len(stream[c])
  /\ eof' = [eof EXCEPT ![c] = TRUE]
  /\ UNCHANGED <<stream, fed, nxt, open, sync, delivered, errors, alive>>

\* decoder outcomes for the next unresolved message of c
Deliver(c) ==
  /\ open[c] /\ sync[c] /\ Pending(c) /\ Cls(c) \in {"ok", "raises", "closes", "tolerable", "badlen", "junk"}
  /\ delivered' = [delivered EXCEPT ![c] = Append(@, nxt[c])]
  /\ nxt' = [nxt EXCEPT ![c] = @ + 1]
  /\ sync' = [sync EXCEPT ![c] = Cls(c) \notin {"badlen", "junk"}]    \* exactly the declared bytes: now out of step
  /\ UNCHANGED <<stream, fed, open, eof, errors, alive>>
SkipWithError(c) ==
  /\ open[c] /\ sync[c] /\ Pending(c) /\ Cls(c) \in {"tolerable", "bad", "badlen", "short", "junk"}
  /\ errors' = [errors EXCEPT ![c] = @ + 1]
  /\ nxt' = [nxt EXCEPT ![c] = @ + 1]
  /\ sync' = [sync EXCEPT ![c] = Cls(c) \notin {"badlen", "short", "junk"}]
  /\ UNCHANGED <<stream, fed, open, eof, delivered, alive>>
SkipQuietly(c) ==      \* only where no error reply is defined: a well-formed message nobody handles
  /\ open[c] /\ sync[c] /\ Pending(c) /\ Cls(c) \in {"tolerable", "junk"}
  /\ nxt' = [nxt EXCEPT ![c] = @ + 1]
  /\ sync' = [sync EXCEPT ![c] = Cls(c) # "junk"]
  /\ UNCHANGED <<stream, fed, open, eof, delivered, errors, alive>>
Close(c) ==
  /\ open[c]
  /\ \/ (Pending(c) /\ Cls(c) \notin Good)       \* a message that cannot be processed
     \/ ~sync[c]                                \* or the stream is already out of step
     \/ eof[c]                                  \* or the peer is gone
     \/ (\E k \in 1..Len(delivered[c]) :          \* or the handler of a delivered message gave the connection up
            delivered[c][k] # 0 /\ stream[c][delivered[c][k]] = "closes")     \* (messages already read may still follow it)
  /\ open' = [open EXCEPT ![c] = FALSE]
  /\ UNCHANGED <<stream, fed, nxt, sync, eof, delivered, errors, alive>>
\* out of step: whatever the bytes look like, anything may come out - on this connection only
Garbage(c) ==
  /\ open[c] /\ ~sync[c]
  /\ \/ errors' = [errors EXCEPT ![c] = @ + 1] /\ UNCHANGED delivered
     \/ delivered' = [delivered EXCEPT ![c] = Append(@, 0)] /\ UNCHANGED errors
  /\ UNCHANGED <<stream, fed, nxt, open, sync, eof, alive>>

Next == \E c \in Conns :
          \/ (\E k \in 1..3 : Feed(c, k)) \/ Eof(c)
          \/ Deliver(c) \/ SkipWithError(c) \/ SkipQuietly(c) \/ Close(c) \/ Garbage(c)
Spec == Init /\ [][Next]_vars

----------------------------------------------------------------------------
\* containment
LoopAlive == alive
\* a connection that only ever carried ok messages is never closed before its peer finishes,
\* and receives exactly its messages in order
OkPrefix(c) == \A i \in 1..fed[c] : stream[c][i] \in Good
CleanUntouched == \A c \in Conns : (OkPrefix(c) /\ ~eof[c]) => open[c] /\ sync[c] /\ errors[c] = 0
InOrder == \A c \in Conns : sync[c] =>
             \A i \in 1..Len(delivered[c]) : \A j \in 1..Len(delivered[c]) :
                 i < j => delivered[c][i] < delivered[c][j]
NoOkSkipped == \A c \in Conns : \A i \in 1..(nxt[c] - 1) :
                 (stream[c][i] \in Good \cup {"closes"}
                    /\ (\A j \in 1..(i - 1) : stream[c][j] \in {"ok", "raises", "tolerable", "bad"}))
                    => \E k \in 1..Len(delivered[c]) : delivered[c][k] = i
\* a message whose length cannot be trusted at all is never skipped over
NoLenNeverSkipped == \A c \in Conns : \A i \in 1..(nxt[c] - 1) : stream[c][i] # "nolen"
\* a message that cannot be decoded from its own bytes is never delivered
NeverMixed == \A c \in Conns : sync[c] => \A k \in 1..Len(delivered[c]) :
                 delivered[c][k] = 0 \/ stream[c][delivered[c][k]] \notin {"bad", "short", "nolen", "partial"}
\* what must hold when the loop has nothing left to do (checked at the end of recorded traces)
Settled(c) == \/ ~open[c]
              \/ ~sync[c]
              \/ ~Pending(c)
              \/ Cls(c) \in {"partial", "badlen", "junk"}  \* waiting for bytes that were announced
=============================================================================
