CONSTANTS Streams <- HelloV
  LenOf <- Lens
  ReadMax = 2048
  MaxReads = 3
  Fails <- NoFail
  Swaps <- NoSwap
  Cuts <- NoCuts
  D = 0
INIT Init
NEXT Next
INVARIANT NeverEarly
INVARIANT NeverHeldBack
INVARIANT AllAtEnd
PROPERTY InOrderOnce
INVARIANT Export
CHECK_DEADLOCK FALSE
