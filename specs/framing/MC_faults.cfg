CONSTANTS Conns <- MCConns
  Streams <- MCStreams
INIT Init
NEXT Next
INVARIANT LoopAlive
INVARIANT CleanUntouched
INVARIANT InOrder
INVARIANT NoOkSkipped
INVARIANT NoLenNeverSkipped
INVARIANT NeverMixed
CONSTRAINT Bounded
CHECK_DEADLOCK FALSE
