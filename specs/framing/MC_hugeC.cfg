CONSTANTS Streams <- Huge
  LenOf <- Lens
  ReadMax = 2048
  MaxReads = 0
  Fails <- NoFail
  Swaps <- NoSwap
  Cuts <- HugeCutsC
  D = 0
INIT Init
NEXT Next
INVARIANT NeverEarly
INVARIANT NeverHeldBack
INVARIANT AllAtEnd
PROPERTY InOrderOnce
INVARIANT Export
CHECK_DEADLOCK FALSE
