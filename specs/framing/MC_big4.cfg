CONSTANTS Streams <- Big
  LenOf <- Lens
  ReadMax = 2048
  MaxReads = 4
  Fails <- NoFail
  Swaps <- NoSwap
  Cuts <- BigCuts
  D = 0
INIT Init
NEXT Next
INVARIANT NeverEarly
INVARIANT NeverHeldBack
INVARIANT AllAtEnd
PROPERTY InOrderOnce
INVARIANT Export
CHECK_DEADLOCK FALSE
