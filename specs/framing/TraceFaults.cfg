CONSTANTS Conns <- TrConns
  Streams <- TrStreams
INIT TrInit
NEXT TrNext
CONSTRAINT Progress2
POSTCONDITION Accepted
INVARIANT LoopAlive
INVARIANT CleanUntouched
INVARIANT InOrder
INVARIANT NoOkSkipped
INVARIANT NoLenNeverSkipped
INVARIANT NeverMixed
CHECK_DEADLOCK FALSE
