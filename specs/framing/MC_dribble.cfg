CONSTANTS Streams <- Small
  LenOf <- Lens
  ReadMax = 1
  MaxReads = 0
  Fails <- NoFail
  Swaps <- NoSwap
  Cuts <- NoCuts
  D = 0
INIT Init
NEXT Next
INVARIANT NeverEarly
INVARIANT NeverHeldBack
INVARIANT AllAtEnd
PROPERTY InOrderOnce
INVARIANT Export
CHECK_DEADLOCK FALSE
