------------------------------ MODULE Framing ------------------------------
(* C02: OpenFlow message framing over a byte stream, for the controller-side *)
(* Connection.read (recv(2048) + buffer) and the switch-side OFConnection.read*)
(* (IOWorker receive buffer).  The stream is a fixed sequence of well-formed *)
(* messages (only their lengths matter here); the environment hands the       *)
(* bytes over in reads of arbitrary sizes.  After every read exactly the      *)
(* messages that are wholly available are delivered, in order, once; the      *)
(* remainder stays buffered.                                                  *)
EXTENDS Naturals, Sequences, FiniteSets, TLC, Json, SequencesExt

CONSTANTS Streams,    \* set of streams; a stream is a sequence of message kinds
          LenOf,      \* [kind -> length in bytes]
          ReadMax,    \* largest read the connection performs
          MaxReads,   \* bound on the number of reads (cuts + 1); 0 = unbounded
          Cuts,       \* set of stream offsets at which a read may end (besides the end); {} = any
          Fails,      \* sets of stream positions whose message handler fails (raises) when the message is delivered
          Swaps,      \* sets of stream positions whose message handler installs a new set of message handlers (as the
                      \* handshake does when the barrier reply arrives): later messages go to the new handlers
          D

VARIABLES stream, fed, delivered, nreads, last, hist
vars == <<stream, fed, delivered, nreads, last, hist>>

\* (a fold, not a recursive definition: streams of several hundred messages would exhaust TLC's stack)
SumTo(s, i) == FoldLeft(LAMBDA a, k : a + LenOf[k], 0, SubSeq(s, 1, i))
Total(s) == SumTo(s, Len(s))
End(i) == SumTo(stream, i)
\* number of messages wholly contained in the first n bytes
Whole(n) == CHOOSE i \in 0..Len(stream) : End(i) <= n /\ (i = Len(stream) \/ End(i + 1) > n)

Init == /\ stream = <<>> /\ fed = 0 /\ delivered = 0 /\ nreads = 0
        /\ last = [a |-> "Init", args |-> [x |-> 0], exp |-> [x |-> 0]] /\ hist = <<>>
Log(a, args, exp) == /\ last' = [a |-> a, args |-> args, exp |-> exp]
                     /\ hist' = Append(hist, [a |-> a, args |-> args, exp |-> exp])

\* A consumer whose handler fails on some message is the consumer's business: the message counts as delivered
\* and framing of everything after it is what it would have been - so F appears in no other action.
\* The same holds for a handler that replaces the connection's handlers (W): "delivered" means handed to the
\* handlers in force when the message is reached, wherever the read boundaries fall.
Choose(s, F, W) == /\ stream = <<>> /\ s \in Streams /\ stream' = s
                   /\ F \in Fails /\ F \subseteq 1..Len(s)
                   /\ W \in Swaps /\ W \subseteq 1..Len(s) /\ (F = {} \/ W = {} \/ F = W)
                   /\ UNCHANGED <<fed, delivered, nreads>>
                   /\ Log("Stream", [kinds |-> s, fail |-> F, swap |-> W], [x |-> 0])

Read(k) ==
  /\ stream # <<>> /\ k >= 1 /\ k <= ReadMax /\ fed + k <= Total(stream)
  /\ (MaxReads = 0 \/ nreads + 1 < MaxReads \/ fed + k = Total(stream))
  /\ (Cuts = {} \/ fed + k \in Cuts \/ fed + k = Total(stream) \/ k = ReadMax)
  /\ fed' = fed + k /\ nreads' = nreads + 1
  /\ delivered' = Whole(fed + k)
  /\ UNCHANGED stream
  /\ Log("Read", [k |-> k],
         [new |-> [i \in 1..(Whole(fed + k) - delivered) |-> delivered + i],   \* indexes delivered by this read
          residual |-> (fed + k) - SumTo(stream, Whole(fed + k))])

\* candidate read sizes (when cut points are prescribed only those, the end of the stream and a full-size read)
Ks == IF Cuts = {} THEN 1..ReadMax
      ELSE {c - fed : c \in {x \in Cuts \cup {Total(stream)} : x > fed}} \cup {ReadMax}
ReadAny == \E k \in Ks : Read(k)
ChooseAny == \E s \in Streams, F \in Fails, W \in Swaps : Choose(s, F, W)
Next == ChooseAny \/ ReadAny
Spec == Init /\ [][Next]_vars

\* ---- the property
InOrderOnce == [][delivered' >= delivered]_vars                    \* never un-delivered, never twice
NeverEarly == stream # <<>> => End(delivered) <= fed               \* only wholly received messages
NeverHeldBack == stream # <<>> => (delivered = Len(stream) \/ End(delivered + 1) > fed)
AllAtEnd == (stream # <<>> /\ fed = Total(stream)) => delivered = Len(stream)
Done == stream # <<>> /\ fed = Total(stream)
Export == Done => PrintT(<<"H", ToJson(hist)>>)
=============================================================================
