CONSTANTS Streams <- Many
  LenOf <- Lens
  ReadMax = 65535
  MaxReads = 2
  Fails <- NoFail
  Swaps <- NoSwap
  Cuts <- ManyCuts
  D = 0
INIT Init
NEXT Next
INVARIANT NeverEarly
INVARIANT NeverHeldBack
INVARIANT AllAtEnd
PROPERTY InOrderOnce
INVARIANT Export
CHECK_DEADLOCK FALSE
