---- MODULE MCFramingFaults ----
EXTENDS FramingFaults
MCConns == {"A", "B"}
Bad == {"raises", "closes", "tolerable", "bad", "badlen", "short", "nolen", "partial", "junk"}
\* A: up to 3 messages with exactly one non-ok one (partial only last); B: two ok messages
AStreams == {s \in UNION {[1..n -> Classes] : n \in 1..3} :
               /\ Cardinality({i \in DOMAIN s : s[i] # "ok"}) = 1
               /\ \A i \in DOMAIN s : s[i] = "partial" => i = Len(s)}
MCStreams == {[A |-> a, B |-> <<"ok", "ok">>] : a \in AStreams}
Bounded == \A c \in Conns : Len(delivered[c]) <= 4 /\ errors[c] <= 3
====
