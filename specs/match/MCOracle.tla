------------------------------ MODULE MCOracle ------------------------------
(* Sanity of the oracle in OFMatch.tla, checked once per run of the check    *)
(* (ASSUMEs are evaluated when TLC starts; MC_oracle.cfg has a trivial       *)
(* behaviour spec).  Kept apart from MCLookup so that the many export runs   *)
(* do not pay for it.                                                        *)
EXTENDS MCLookup

AllFrames == UNION {{NbSeq(AllShapes[i])[j] : j \in DOMAIN NbSeq(AllShapes[i])} : i \in DOMAIN AllShapes}
                \cup {FrameSeqTbl[i] : i \in DOMAIN FrameSeqTbl}
ASSUME \A x \in AllFrames : WellFormed(x)
\* the exact match built from a frame matches it; so does the all-wildcard match
ASSUME \A x \in AllFrames : Matches(ExactOf(x), x) /\ Matches(MkM(FlagFields, 32, 32, Extract(B)), x)
\* the efficient form of Outcomes is the declarative one
ASSUME \A t \in {Extract(FrameSeqTbl[i]) : i \in DOMAIN FrameSeqTbl} \cup {Extract(AllShapes[i]) : i \in DOMAIN AllShapes} :
         \A T \in SUBSET {Entry(k, TableCat[k], IF k % 2 = 0 THEN 5 ELSE 7) : k \in {1, 2, 6, 7, 10}} :
           OutcomesT(T, t) = OutcomesDecl(T, t)
\* arithmetic and bitwise prefix comparison agree
ASSUME \A n \in 0..32 : \A j \in 1..32 :
         /\ PrefixEq(SIP, Flip(SIP, j), n) = PrefixEqBits(SIP, Flip(SIP, j), n)
         /\ PrefixEq(SIP, Flip(SIP, j), n) = (j > n)
         /\ PrefixEq(DIP, SIP, n) = PrefixEqBits(DIP, SIP, n)
\* shapes that must differ in the extracted tuple do, shapes that must not, do not
ASSUME Extract(Shape("tcpecn")) = Extract(B) /\ Extract(Shape("tcpopt")) = Extract(B)
ASSUME Extract(Shape("frag1")).tp_src = 0 /\ Extract(Shape("frag2")).tp_dst = 0
ASSUME Extract(Shape("arphi")).nw_proto = 2 /\ Extract(Shape("arphi")).nw_src = SIP
ASSUME Extract(Shape("snapip")).dl_type = 2048 /\ Extract(Shape("snapx")).dl_type = 1535
ASSUME Extract(Shape("vllc")).dl_type = 1535 /\ Extract(Shape("vsnap")).dl_type = 2054
ASSUME Extract(Shape("rarp")).nw_src = Zero4 /\ Extract(Shape("qinq")).dl_type = 33024
\* every shape differs from the base shape B in the tuple, or is one of the
\* three built to agree with it
ASSUME \A i \in DOMAIN AllShapes :
         (Extract(AllShapes[i]) = Extract(B)) <=> (ShapeNames[i] \in {"tcp", "tcpopt", "tcpecn"})
=============================================================================
