------------------------------- MODULE Lookup -------------------------------
(* C03: a flow table that is filled by FLOW_MOD(ADD) messages and looked up  *)
(* by frames arriving on ports.                                              *)
(*                                                                           *)
(* State: tbl, a set of entries [k, m, prio] (OFMatch.tla), and grp, the     *)
(* catalog the run works with (fixed by Init: it selects which matches a     *)
(* controller may install and which frames may arrive).  Actions:            *)
(*   Install(k, m, prio)  a controller adds entry k with match m             *)
(*   Packet(i)            frame i of the catalog arrives; the switch applies  *)
(*                        the actions of the entry lookup returns (the       *)
(*                        harness sees output on port 2+k) or sends a        *)
(*                        packet-in (0)                                      *)
(*   ProbeAll             every frame of the catalog arrives, in order; the   *)
(*                        observation is the vector of outcomes              *)
(* Each action logs [a, args, exp] into `last` and `hist` for export to the  *)
(* replay harness.  Lookup does not change the table (counters and timeouts  *)
(* belong to C04), and an ADD never meets an entry with the same priority    *)
(* and the same set of matching frames (replacement belongs to C04).         *)
EXTENDS OFMatch, TLC, Json

CONSTANTS Groups,     \* names of the catalogs
          CatalogOf,  \* [Groups -> set of <<k, m>>]: what may be installed (one match per key k)
          FramesOf,   \* [Groups -> sequence of frames]: what may arrive
          AltOf,      \* [Groups -> a 12-tuple with values the catalog matches do not use]
          Prios,      \* priorities a controller uses
          N,          \* table capacity explored
          Alternate,  \* TRUE: install / probe-all strictly alternate (export of tables)
          D           \* export depth

VARIABLES grp, tbl, phase, last, hist
vars  == <<grp, tbl, phase, last, hist>>
view  == <<grp, tbl, phase, last>>
viewE == <<grp, tbl, phase>>

\* the 12-tuples of the frame catalogs (constants: computed once)
TupOf == [g \in Groups |-> [i \in DOMAIN FramesOf[g] |-> Extract(FramesOf[g][i])]]
TuplesOf == [g \in Groups |-> {TupOf[g][i] : i \in DOMAIN TupOf[g]}]
Entry(k, m, prio) == [k |-> k, m |-> m, prio |-> prio]

NoObs == [a |-> "Init", args |-> [x |-> 0], exp |-> [x |-> 0]]
Init == grp \in Groups /\ tbl = {} /\ phase = "idle" /\ last = NoObs /\ hist = <<>>

Log(a, args, exp) ==
  /\ last' = [a |-> a, args |-> args, exp |-> exp]
  /\ hist' = Append(hist, [a |-> a, args |-> args, exp |-> exp])

\* m1 and m2 are matched by the same frames for the same reason
Equivalent(m1, m2) ==
  /\ Active(m1) = Active(m2)
  /\ \A f \in Active(m1) :
       CASE f = "nw_src" -> /\ PrefixLen(m1.sbits) = PrefixLen(m2.sbits)
                            /\ PrefixEq(m1.v.nw_src, m2.v.nw_src, PrefixLen(m1.sbits))
         [] f = "nw_dst" -> /\ PrefixLen(m1.dbits) = PrefixLen(m2.dbits)
                            /\ PrefixEq(m1.v.nw_dst, m2.v.nw_dst, PrefixLen(m1.dbits))
         [] OTHER        -> m1.v[f] = m2.v[f]

\* the table operation itself (also used by the trace spec, without catalog)
DoInstall(k, m, prio) ==
  /\ \A e \in tbl : e.k # k
  /\ \A e \in tbl : e.prio = prio => ~Equivalent(e.m, m)
  /\ tbl' = tbl \cup {Entry(k, m, prio)}
  /\ phase' = "probe" /\ UNCHANGED grp
  /\ Log("Install", [k |-> k, m |-> m, prio |-> prio], [n |-> Cardinality(tbl')])

\* a controller may install what the catalog offers, while there is room
CanInstall == (Alternate => phase = "idle") /\ Cardinality(tbl) < N
Install(k, m, prio) == CanInstall /\ DoInstall(k, m, prio)

DoPacket(t, tag) ==
  /\ UNCHANGED <<grp, tbl, phase>>
  /\ Log("Packet", [g |-> grp, x |-> tag], [outs |-> OutcomesT(tbl, t)])

Packet(i) == ~Alternate /\ DoPacket(TupOf[grp][i], i)

ProbeAll ==
  /\ phase = "probe"
  /\ phase' = "idle" /\ UNCHANGED <<grp, tbl>>
  /\ Log("ProbeAll", [g |-> grp, n |-> Len(FramesOf[grp])],
         [outs |-> [i \in DOMAIN TupOf[grp] |-> OutcomesT(tbl, TupOf[grp][i])]])

InstallSome == CanInstall /\ \E km \in CatalogOf[grp], p \in Prios : Install(km[1], km[2], p)
PacketSome  == \E i \in DOMAIN FramesOf[grp] : Packet(i)
Next == InstallSome \/ PacketSome \/ ProbeAll
Spec == Init /\ [][Next]_vars

----------------------------------------------------------------------------
(* The property, over the table and every frame of the catalog.              *)

Tuples == TuplesOf[grp]
EntryOf(k) == CHOOSE e \in tbl : e.k = k
MustMatch(e, t) == \A pp \in PcpPols : MatchesPT(e.m, t, pp)
MayMatch(e, t)  == \E pp \in PcpPols : MatchesPT(e.m, t, pp)

TypeOK == /\ grp \in Groups
          /\ \A e \in tbl : e.prio \in Prios /\ e.m.wc \subseteq FlagFields
                                 /\ e.m.sbits \in 0..63 /\ e.m.dbits \in 0..63
          /\ \A e1, e2 \in tbl : e1.k = e2.k => e1 = e2
          /\ Cardinality(tbl) <= N
          /\ phase \in {"idle", "probe"}

\* The lookup clauses, for the answer set O of tuple t:
\* lookup always answers
Answered(O, t) == O # {}
\* a miss is reported only when no entry matches, and whenever none matches
MissOnlyIfNone(O, t) == (0 \in O) => ~\E e \in tbl : MustMatch(e, t)
MissIfNone(O, t) == (~\E e \in tbl : MayMatch(e, t)) => O = {0}
\* the entry returned matches the frame
HitMatches(O, t) == \A k \in O \ {0} : \E e \in tbl : e.k = k /\ MayMatch(e, t)
\* ... and no matching entry outranks it (under whichever exactness policy)
HighestPriority(O, t) ==
  \A k \in O \ {0} : \A e2 \in tbl : MustMatch(e2, t) =>
    \E ep \in ExactPols : Eff(EntryOf(k), ep) >= Eff(e2, ep)
\* an exact-match entry that matches beats every wildcarded one, whatever
\* the priorities say
ExactFirst(O, t) ==
  (\E e \in tbl : ExactP(e.m, "literal") /\ MustMatch(e, t)) =>
    /\ 0 \notin O
    /\ \A k \in O : ExactP(EntryOf(k).m, "semantic")
\* without ties and without the two points of latitude the answer is unique
Unambiguous(t) ==
  /\ \A e \in tbl : MustMatch(e, t) = MayMatch(e, t)
  /\ \A e \in tbl : ExactP(e.m, "literal") = ExactP(e.m, "semantic")
  /\ \A e1, e2 \in tbl : (e1 # e2 /\ MayMatch(e1, t) /\ MayMatch(e2, t))
                            => Eff(e1, "literal") # Eff(e2, "literal")
Deterministic(O, t) == Unambiguous(t) => Cardinality(O) = 1

\* (evaluated once per installation: the clauses depend on the table only)
Fresh == last.a = "Install"
LookupOK ==
  Fresh =>
    \A t \in Tuples : LET O == OutcomesT(tbl, t) IN
      /\ Answered(O, t) /\ MissOnlyIfNone(O, t) /\ MissIfNone(O, t) /\ HitMatches(O, t)
      /\ HighestPriority(O, t) /\ ExactFirst(O, t) /\ Deterministic(O, t)

\* -- the oracle's match relation, checked on every installed match
Widen(m, f) == CASE f = "nw_src" -> [m EXCEPT !.sbits = IF @ < 63 THEN @ + 1 ELSE @]
                 [] f = "nw_dst" -> [m EXCEPT !.dbits = IF @ < 63 THEN @ + 1 ELSE @]
                 [] OTHER        -> [m EXCEPT !.wc = @ \cup {f}]
\* wildcarding more never turns a match into a miss
Monotone ==
  Fresh =>
    \A e \in tbl : \A t \in Tuples : MatchesT(e.m, t, {}) =>
      \A f \in Fields : MatchesT(Widen(e.m, f), t, {})
\* the value of a field that is wildcarded or cannot take part is irrelevant
\* (other values borrowed from the tuple AltOf[grp])
Perturbed(m, f, u) == [m EXCEPT !.v = [@ EXCEPT ![f] = u[f]]]
IgnoredIrrelevant ==
  Fresh =>
    \A e \in tbl : \A f \in Fields \ Active(e.m) : \A t \in Tuples :
      MatchesT(Perturbed(e.m, f, AltOf[grp]), t, {}) = MatchesT(e.m, t, {})
\* equivalent matches are matched by the same frames
EquivalentSame ==
  Fresh =>
    \A e1, e2 \in tbl : Equivalent(e1.m, e2.m) =>
      \A t \in Tuples : MatchesT(e1.m, t, {}) = MatchesT(e2.m, t, {})

\* ---- export for the replay harness
Bound   == Len(hist) <= D
Export  == (Len(hist) = D) => PrintT(<<"H", ToJson(hist)>>)
ExportT == PrintT(<<"T", ToJson(hist')>>)
=============================================================================
