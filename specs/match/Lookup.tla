------------------------------- MODULE Lookup -------------------------------
(* C03: a flow table that is filled by FLOW_MOD(ADD) messages and looked up  *)
(* by frames arriving on ports.                                              *)
(*                                                                           *)
(* State: tbl, a set of entries [k, m, prio] (OFMatch.tla).  Actions:        *)
(*   Install(k, m, prio)  a controller adds entry k with match m             *)
(*   Packet(i)            frame FrameSeq[i] arrives; the switch applies the   *)
(*                        actions of the entry lookup returns (the harness   *)
(*                        sees output on port 2+k) or sends a packet-in (0)  *)
(*   ProbeAll             every frame of FrameSeq arrives, in order; the      *)
(*                        observation is the vector of outcomes              *)
(* Each action logs [a, args, exp] into `last` and `hist` for export to the  *)
(* replay harness.  Lookup does not change the table (counters and timeouts  *)
(* belong to C04).                                                           *)
EXTENDS OFMatch, TLC, Json

CONSTANTS Catalog,    \* set of <<k, m>>: what may be installed (one match per key k)
          Prios,      \* priorities a controller uses
          FrameSeq,   \* sequence of frames that may arrive
          N,          \* table capacity explored
          Alternate,  \* TRUE: install / probe-all strictly alternate (export of tables)
          D           \* export depth

VARIABLES tbl, phase, last, hist
vars  == <<tbl, phase, last, hist>>
view  == <<tbl, phase, last>>
viewE == <<tbl, phase>>

Frames == {FrameSeq[i] : i \in DOMAIN FrameSeq}
Entry(k, m, prio) == [k |-> k, m |-> m, prio |-> prio]

NoObs == [a |-> "Init", args |-> [x |-> 0], exp |-> [x |-> 0]]
Init == tbl = {} /\ phase = "idle" /\ last = NoObs /\ hist = <<>>

Log(a, args, exp) ==
  /\ last' = [a |-> a, args |-> args, exp |-> exp]
  /\ hist' = Append(hist, [a |-> a, args |-> args, exp |-> exp])

\* the table operation itself (also used by the trace spec, without catalog)
DoInstall(k, m, prio) ==
  /\ \A e \in tbl : e.k # k
  /\ tbl' = tbl \cup {Entry(k, m, prio)}
  /\ phase' = "probe"
  /\ Log("Install", [k |-> k, m |-> m, prio |-> prio], [n |-> Cardinality(tbl')])

\* a controller may install what the catalog offers, while there is room
CanInstall == (Alternate => phase = "idle") /\ Cardinality(tbl) < N
Install(k, m, prio) == CanInstall /\ DoInstall(k, m, prio)

DoPacket(x, tag) ==
  /\ UNCHANGED <<tbl, phase>>
  /\ Log("Packet", [x |-> tag], [outs |-> Outcomes(tbl, x)])

Packet(i) == ~Alternate /\ DoPacket(FrameSeq[i], i)

ProbeAll ==
  /\ phase = "probe"
  /\ phase' = "idle" /\ UNCHANGED tbl
  /\ Log("ProbeAll", [n |-> Len(FrameSeq)],
         [outs |-> [i \in DOMAIN FrameSeq |-> Outcomes(tbl, FrameSeq[i])]])

InstallSome == CanInstall /\ \E km \in Catalog, p \in Prios : Install(km[1], km[2], p)
PacketSome  == \E i \in DOMAIN FrameSeq : Packet(i)
Next == InstallSome \/ PacketSome \/ ProbeAll
Spec == Init /\ [][Next]_vars

----------------------------------------------------------------------------
(* The property, over the table and every frame of the catalog.              *)

EntryOf(k) == CHOOSE e \in tbl : e.k = k
MustMatch(e, x) == \A pp \in PcpPols : MatchesP(e.m, x, pp)
MayMatch(e, x)  == \E pp \in PcpPols : MatchesP(e.m, x, pp)

TypeOK == /\ \A e \in tbl : e.prio \in Prios /\ e.m.wc \subseteq FlagFields
                                 /\ e.m.sbits \in 0..63 /\ e.m.dbits \in 0..63
          /\ \A e1, e2 \in tbl : e1.k = e2.k => e1 = e2
          /\ Cardinality(tbl) <= N
          /\ phase \in {"idle", "probe"}

\* lookup always answers
Answered == \A x \in Frames : Outcomes(tbl, x) # {}

\* a miss is reported only when no entry matches
MissOnlyIfNone ==
  \A x \in Frames : (0 \in Outcomes(tbl, x)) => ~\E e \in tbl : MustMatch(e, x)
\* ... and whenever no entry matches
MissIfNone ==
  \A x \in Frames : (~\E e \in tbl : MayMatch(e, x)) => Outcomes(tbl, x) = {0}

\* the entry returned matches the frame
HitMatches ==
  \A x \in Frames : \A k \in Outcomes(tbl, x) \ {0} :
    \E e \in tbl : e.k = k /\ MayMatch(e, x)

\* ... and no matching entry outranks it (under whichever exactness policy)
HighestPriority ==
  \A x \in Frames : \A k \in Outcomes(tbl, x) \ {0} :
    \A e2 \in tbl : MustMatch(e2, x) =>
      \E ep \in ExactPols : Eff(EntryOf(k), ep) >= Eff(e2, ep)

\* an exact-match entry that matches beats every wildcarded one, whatever
\* the priorities say
ExactFirst ==
  \A x \in Frames :
    (\E e \in tbl : ExactP(e.m, "literal") /\ MustMatch(e, x)) =>
      /\ 0 \notin Outcomes(tbl, x)
      /\ \A k \in Outcomes(tbl, x) : ExactP(EntryOf(k).m, "semantic")

\* without ties and without the two points of latitude the answer is unique
Unambiguous(x) ==
  /\ \A e \in tbl : MustMatch(e, x) = MayMatch(e, x)
  /\ \A e \in tbl : ExactP(e.m, "literal") = ExactP(e.m, "semantic")
  /\ \A e1, e2 \in tbl : (e1 # e2 /\ MayMatch(e1, x) /\ MayMatch(e2, x))
                            => Eff(e1, "literal") # Eff(e2, "literal")
Deterministic ==
  \A x \in Frames : Unambiguous(x) => Cardinality(Outcomes(tbl, x)) = 1

\* -- the oracle's match relation, checked on every installed match
Widen(m, f) == CASE f = "nw_src" -> [m EXCEPT !.sbits = IF @ < 63 THEN @ + 1 ELSE @]
                 [] f = "nw_dst" -> [m EXCEPT !.dbits = IF @ < 63 THEN @ + 1 ELSE @]
                 [] OTHER        -> [m EXCEPT !.wc = @ \cup {f}]
\* wildcarding more never turns a match into a miss
Monotone ==
  \A e \in tbl : \A x \in Frames : Matches(e.m, x) =>
    \A f \in Fields : Matches(Widen(e.m, f), x)
\* a match with every field wildcarded matches every frame
AllWild == [wc |-> FlagFields, sbits |-> 32, dbits |-> 32, v |-> Extract(FrameSeq[1])]
\* the value of a field that is wildcarded or cannot take part is irrelevant
Perturbed(m, f, x) == [m EXCEPT !.v = [@ EXCEPT ![f] = Extract(x)[f]]]
IgnoredIrrelevant ==
  \A e \in tbl : \A f \in Fields \ Active(e.m) : \A x, y \in Frames :
    Matches(Perturbed(e.m, f, y), x) = Matches(e.m, x)
\* the match is decided by the 12-tuple only
TupleOnly ==
  \A e \in tbl : \A x, y \in Frames :
    Extract(x) = Extract(y) => Matches(e.m, x) = Matches(e.m, y)

\* ---- export for the replay harness
Bound   == Len(hist) <= D
Export  == (Len(hist) = D) => PrintT(<<"H", ToJson(hist)>>)
ExportT == PrintT(<<"T", ToJson(hist')>>)
\* only the lookups of the edge cover (shortest path to a table + one lookup)
ExportP == (last'.a # "Install") => PrintT(<<"T", ToJson(hist')>>)
=============================================================================
