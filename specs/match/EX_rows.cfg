CONSTANTS
  Groups <- GroupsRows
  CatalogOf <- CatalogRows
  Prios <- PriosRows
  FramesOf <- FramesRows
  AltOf <- AltRows
  N = 1
  Alternate = TRUE
  D = 2
INIT Init
NEXT Next
CONSTRAINT Bound
INVARIANT Export
CHECK_DEADLOCK FALSE
