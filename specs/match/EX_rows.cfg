CONSTANTS
  Catalog <- CatalogRows
  Prios <- PriosRows
  FrameSeq <- FrameSeqRows
  N = 1
  Alternate = TRUE
  D = 2
INIT Init
NEXT Next
CONSTRAINT Bound
INVARIANT Export
CHECK_DEADLOCK FALSE
