CONSTANTS
  Groups <- GroupsTbl
  CatalogOf <- CatTblQuick
  Prios <- PriosQuick
  FramesOf <- FramesTbl
  AltOf <- AltTbl
  N = 3
  Alternate = FALSE
  D = 6
INIT Init
NEXT Next
VIEW viewE
INVARIANT TypeOK
INVARIANT LookupOK
INVARIANT Monotone
INVARIANT IgnoredIrrelevant
INVARIANT EquivalentSame
CHECK_DEADLOCK FALSE
