CONSTANTS
  Groups <- GroupsTbl
  CatalogOf <- CatTblFull
  Prios <- PriosSim
  FramesOf <- FramesTbl
  AltOf <- AltTbl
  N = 8
  Alternate = FALSE
  D = 30
INIT Init
NEXT Next
INVARIANT Export
CHECK_DEADLOCK FALSE
