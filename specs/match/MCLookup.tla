------------------------------ MODULE MCLookup ------------------------------
(* Catalogs for model checking / export of Lookup.tla (cfg files cannot hold *)
(* records).  Frame shapes, the neighbourhood of a shape (frames differing   *)
(* from it in exactly one header field), families of matches derived from a  *)
(* shape (all 2^10 flag sets, prefix-length grids, garbage in ignored        *)
(* fields), and small tables with mixed exact / wildcard entries.            *)
(* The base shapes (one catalog each) and the family of a run are selected   *)
(* with the environment variables C03_GRP / C03_FAM (props/C03.py),          *)
(* everything else by the cfg.                                               *)
EXTENDS Lookup, IOUtils

EnvOr(name, dflt) == IF name \in DOMAIN IOEnv THEN IOEnv[name] ELSE dflt
GrpSel   == EnvOr("C03_GRP", "tcp")
FamName  == EnvOr("C03_FAM", "single")

SIP == <<202, 85, 170, 91>>
DIP == <<10, 129, 0, 254>>

\* ---- frame shapes
B == [port |-> 1, src |-> 1, dst |-> 2, tag |-> 0, vid |-> 0, pcp |-> 0, cfi |-> 0,
      l2 |-> "eth2", etype |-> 2048, l3 |-> "ip", tos |-> 44, proto |-> 6,
      sip |-> SIP, dip |-> DIP, frag |-> "no", opts |-> 0, op |-> 0,
      l4 |-> "tp", a |-> 1000, b |-> 2000]
UDP == [B EXCEPT !.proto = 17]
NB  == [B EXCEPT !.etype = 34997, !.l3 = "none", !.tos = 0, !.proto = 0, !.sip = Zero4,
                 !.dip = Zero4, !.l4 = "none", !.a = 0, !.b = 0]
ARP == [NB EXCEPT !.etype = 2054, !.l3 = "arp", !.op = 1, !.sip = SIP, !.dip = DIP]
Tag(x, vid, pcp) == [x EXCEPT !.tag = 1, !.vid = vid, !.pcp = pcp]

ShapeNames == <<"tcp", "udp", "icmp", "gre", "tcpopt", "tcpecn", "frag1", "frag2", "fraglast",
                "vtcp", "v0udp", "arpreq", "arprep", "arphi", "varp", "other", "ipv6", "rarp",
                "llc", "snapip", "snaparp", "snapx", "vllc", "vsnap", "qinq">>
Shape(s) ==
  CASE s = "tcp"      -> B
    [] s = "udp"      -> UDP
    [] s = "icmp"     -> [B EXCEPT !.proto = 1, !.l4 = "icmp", !.a = 8, !.b = 0]
    [] s = "gre"      -> [B EXCEPT !.proto = 47, !.l4 = "none", !.a = 0, !.b = 0]
    [] s = "tcpopt"   -> [B EXCEPT !.opts = 2]                       \* IHL 7
    [] s = "tcpecn"   -> [B EXCEPT !.tos = 47]                       \* same DSCP, ECN bits set
    [] s = "frag1"    -> [B EXCEPT !.frag = "first"]                 \* MF, offset 0
    [] s = "frag2"    -> [UDP EXCEPT !.frag = "later"]               \* MF, offset 37
    [] s = "fraglast" -> [UDP EXCEPT !.frag = "last"]                \* no MF, offset 185
    [] s = "vtcp"     -> Tag(B, 100, 5)
    [] s = "v0udp"    -> Tag(UDP, 0, 3)                              \* priority tag, VID 0
    [] s = "arpreq"   -> ARP
    [] s = "arprep"   -> [ARP EXCEPT !.op = 2]
    [] s = "arphi"    -> [ARP EXCEPT !.op = 258]                     \* opcode 0x0102: nw_proto 2
    [] s = "varp"     -> Tag(ARP, 4095, 7)
    [] s = "other"    -> NB                                          \* type 0x88b5
    [] s = "ipv6"     -> [NB EXCEPT !.etype = 34525]
    [] s = "rarp"     -> [ARP EXCEPT !.etype = 32821, !.op = 3]      \* ARP body, type 0x8035
    [] s = "llc"      -> [NB EXCEPT !.l2 = "llc", !.etype = 0]
    [] s = "snapip"   -> [UDP EXCEPT !.l2 = "snap0"]
    [] s = "snaparp"  -> [ARP EXCEPT !.l2 = "snap0"]
    [] s = "snapx"    -> [UDP EXCEPT !.l2 = "snapx"]                 \* other OUI: 0x05ff, no IP fields
    [] s = "vllc"     -> Tag([NB EXCEPT !.l2 = "llc", !.etype = 0], 7, 1)
    [] s = "vsnap"    -> Tag([ARP EXCEPT !.l2 = "snap0"], 7, 1)
    [] s = "qinq"     -> Tag([NB EXCEPT !.etype = 33024], 0, 3)      \* inner type 0x8100
AllShapes == [i \in 1..Len(ShapeNames) |-> Shape(ShapeNames[i])]
AllNames == {ShapeNames[i] : i \in DOMAIN ShapeNames}
\* shapes whose matches have network fields that take part
NwNames  == {"tcp", "udp", "icmp", "gre", "tcpopt", "tcpecn", "frag1", "frag2", "fraglast", "vtcp",
             "v0udp", "arpreq", "arprep", "arphi", "varp", "snapip", "snaparp", "vsnap"}
Q12      == {"tcp", "icmp", "frag2", "vtcp", "arpreq", "arphi", "other", "llc", "snapip", "vsnap",
             "vllc", "qinq"}
GroupsRows == CASE GrpSel = "all" -> AllNames
                [] GrpSel = "nw"  -> NwNames
                [] GrpSel = "q12" -> Q12
                [] GrpSel = "rest" -> AllNames \ Q12
                [] GrpSel = "q3"  -> {"tcp", "arpreq", "vsnap"}
                [] OTHER          -> {GrpSel}

\* ---- neighbourhood of a frame: one header field changed at a time
Flip(a, j) == LET i == ((j - 1) \div 8) + 1
                  w == 2 ^ (7 - ((j - 1) % 8))
              IN [a EXCEPT ![i] = IF (@ \div w) % 2 = 1 THEN @ - w ELSE @ + w]
FlipBits == <<1, 2, 8, 9, 16, 17, 24, 25, 31, 32>>
SipFlips(x) == [i \in 1..Len(FlipBits) |-> [x EXCEPT !.sip = Flip(@, FlipBits[i])]]
DipFlips(x) == [i \in 1..Len(FlipBits) |-> [x EXCEPT !.dip = Flip(@, FlipBits[i])]]

L2Vars(x) == << [x EXCEPT !.port = 3 - @], [x EXCEPT !.src = 3], [x EXCEPT !.dst = 3] >>
TagVars(x) ==
  IF x.tag = 1
  THEN << [x EXCEPT !.vid = (@ + 1) % 4096], [x EXCEPT !.pcp = (@ + 1) % 8],
          [x EXCEPT !.tag = 0, !.vid = 0, !.pcp = 0] >>
  ELSE << Tag(x, 100, 0), Tag(x, 0, 5), Tag(x, 4095, 0) >>
TpMax(x) == IF x.l4 = "icmp" THEN 256 ELSE 65536      \* ICMP type/code are bytes
IpVars(x) ==
  IF IsIP(x)
  THEN << [x EXCEPT !.tos = (@ + 4) % 256],            \* another DSCP
          [x EXCEPT !.tos = IF @ % 4 = 3 THEN @ - 3 ELSE @ + 1],   \* only the ECN bits differ
          [x EXCEPT !.proto = IF @ = 6 THEN 17 ELSE 6, !.l4 = "tp"],
          [x EXCEPT !.a = (@ + 1) % TpMax(x)], [x EXCEPT !.b = (@ + 1) % TpMax(x)],
          [x EXCEPT !.a = 0], [x EXCEPT !.b = TpMax(x) - 1],
          [x EXCEPT !.frag = IF @ = "no" THEN "first" ELSE "no"],
          [x EXCEPT !.frag = IF @ = "later" THEN "no" ELSE "later"],
          [x EXCEPT !.opts = IF @ = 0 THEN 1 ELSE 0] >>
       \o SipFlips(x) \o DipFlips(x)
  ELSE << >>
ArpVars(x) ==
  IF IsARP(x)
  THEN << [x EXCEPT !.op = IF @ % 256 = 1 THEN 2 ELSE 1],
          [x EXCEPT !.op = (@ + 256) % 65536] >>       \* same low byte
       \o SipFlips(x) \o DipFlips(x)
  ELSE << >>
NbSeq(x) == SelectSeq(<<x>> \o L2Vars(x) \o TagVars(x) \o IpVars(x) \o ArpVars(x), WellFormed)

FramesRows == [g \in GroupsRows |-> NbSeq(Shape(g)) \o AllShapes]

\* ---- families of matches derived from a frame
MkM(W, sb, db, v) == [wc |-> W, sbits |-> sb, dbits |-> db, v |-> v]
ExactOf(x) == MkM({}, 0, 0, Extract(x))
AllFlagSets == SUBSET FlagFields
SmallFlagSets == {W \in AllFlagSets : Cardinality(W) <= 1 \/ Cardinality(W) >= 9}
PrefixGrid == {0, 1, 7, 8, 9, 16, 24, 31, 32, 33, 63}
\* address with bits beyond the prefix set differently (the switch must not care)
GarbleA(a, bits) == IF bits = 0 THEN a
                    ELSE IF bits = 1 THEN Flip(a, 32)
                    ELSE IF bits >= 32 THEN Flip(Flip(a, 1), 32)
                    ELSE Flip(Flip(a, 32), 33 - bits)
Garble(v, sb, db) == [v EXCEPT !.nw_src = GarbleA(@, sb), !.nw_dst = GarbleA(@, db)]
\* values of the flag-wildcarded fields taken from another frame
Other(x) == IF IsIP(x) THEN Shape("varp") ELSE Shape("vtcp")
WVals(x, W) == [f \in Fields |-> IF f \in W THEN Extract(Other(x))[f] ELSE Extract(x)[f]]

Family(fam, x) ==
  CASE fam = "flags"   -> {MkM(W, 0, 0, Extract(x)) : W \in AllFlagSets}
    [] fam = "flagsP"  -> {MkM(W, 8, 24, Extract(x)) : W \in AllFlagSets}
    [] fam = "wvals"   -> {MkM(W, 0, 0, WVals(x, W)) : W \in AllFlagSets}
    [] fam = "wvalsW"  -> {MkM(W, 32, 63, Garble(WVals(x, W), 32, 63)) : W \in AllFlagSets}
    [] fam = "single"  -> {MkM(W, sd[1], sd[2], Extract(x)) :
                             W \in SmallFlagSets, sd \in {<<0, 0>>, <<8, 24>>, <<32, 32>>}}
                          \cup {MkM(W, 0, 0, WVals(x, W)) : W \in SmallFlagSets}
    [] fam = "prefix"  -> {MkM(W, sb, db, Extract(x)) :
                             W \in {{}, {"nw_proto"}, {"dl_type"}}, sb \in PrefixGrid, db \in PrefixGrid}
    [] fam = "garble"  -> {MkM({}, sb, db, Garble(Extract(x), sb, db)) :
                             sb \in PrefixGrid, db \in PrefixGrid}
    [] fam = "line64"  -> {MkM({}, sb, 0, Extract(x)) : sb \in 0..63}
                          \cup {MkM({}, 0, db, Extract(x)) : db \in 0..63}
                          \cup {MkM({}, sb, 63 - sb, Garble(Extract(x), sb, 63 - sb)) : sb \in 0..63}
    [] fam = "full64"  -> {MkM({}, sb, db, Extract(x)) : sb \in 0..63, db \in 0..63}
AltRows == [g \in GroupsRows |-> Extract(Other(Shape(g)))]
CatalogRows == [g \in GroupsRows |-> {<<1, m>> : m \in Family(FamName, Shape(g))}]
PriosRows == {32768}

\* ---- small tables: exact / wildcard entries, ties, priority extremes
V0 == Extract(B)
VA == Extract(ARP)
Only(fs, v) == MkM(FlagFields \ fs, 32, 32, v)
TableCat ==
  << ExactOf(B),                                                      \* 1 literally exact (TCP)
     MkM(FlagFields, 32, 32, V0),                                     \* 2 matches everything
     Only({"in_port"}, V0),                                           \* 3 in_port = 1
     MkM(FlagFields \ {"dl_type"}, 8, 32, V0),                        \* 4 IPv4 from 202.85.170.0/24
     Only({"dl_type", "nw_proto", "tp_dst"}, V0),                     \* 5 TCP to port 2000
     ExactOf(ARP),                                                    \* 6 literally exact (ARP)
     MkM({"nw_tos", "tp_src", "tp_dst"}, 0, 0, VA),                   \* 7 ARP, exact in all that takes part
     Only({"dl_dst"}, V0),                                            \* 8 dl_dst = 2
     ExactOf(NB),                                                     \* 9 literally exact (type 0x88b5)
     MkM({"dl_vlan_pcp"}, 0, 0, V0),                                  \* 10 TCP, all but the tag priority
     ExactOf(Shape("gre")) >>                                         \* 11 literally exact (IP proto 47)
GroupsTbl == {"tbl"}
CatalogTbl(keys) == [g \in GroupsTbl |-> {<<k, TableCat[k]>> : k \in keys}]
CatTblQuick == CatalogTbl({1, 2, 3, 5, 6, 7})
CatTblFull  == CatalogTbl(1..11)
FrameSeqTbl == << B, [B EXCEPT !.port = 2], UDP, ARP, [ARP EXCEPT !.dst = 3, !.port = 2], NB,
                  Shape("gre"), Tag(B, 100, 5), [B EXCEPT !.sip = Flip(@, 32), !.dst = 3] >>
FramesTbl == [g \in GroupsTbl |-> FrameSeqTbl]
AltTbl == [g \in GroupsTbl |-> Extract(Shape("varp"))]
PriosQuick == {0, 65535}
PriosFull  == {0, 1, 65535}
PriosSim   == {0, 1, 2, 3, 32768, 65534, 65535}
PriosTrace == 0..65535

----------------------------------------------------------------------------
(* Sanity checks of the oracle (ASSUMEs): see MCOracle.tla, run once.         *)
\* the frame catalog of this run, for the harness
ASSUME PrintT(<<"FR", ToJson(FramesRows)>>)
ASSUME PrintT(<<"FT", ToJson(FramesTbl)>>)
=============================================================================
