CONSTANTS
  Groups <- GroupsRows
  CatalogOf <- CatalogRows
  Prios <- PriosRows
  FramesOf <- FramesRows
  AltOf <- AltRows
  N = 1
  Alternate = TRUE
  D = 2
INIT Init
NEXT Next
VIEW viewE
INVARIANT TypeOK
INVARIANT LookupOK
INVARIANT Monotone
INVARIANT IgnoredIrrelevant
INVARIANT EquivalentSame
CHECK_DEADLOCK FALSE
