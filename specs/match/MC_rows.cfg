CONSTANTS
  Catalog <- CatalogRows
  Prios <- PriosRows
  FrameSeq <- FrameSeqRows
  N = 1
  Alternate = TRUE
  D = 2
INIT Init
NEXT Next
VIEW view
INVARIANT TypeOK
INVARIANT Answered
INVARIANT MissOnlyIfNone
INVARIANT MissIfNone
INVARIANT HitMatches
INVARIANT HighestPriority
INVARIANT ExactFirst
INVARIANT Deterministic
INVARIANT Monotone
INVARIANT IgnoredIrrelevant
INVARIANT TupleOnly
CHECK_DEADLOCK FALSE
