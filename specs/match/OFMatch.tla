------------------------------ MODULE OFMatch ------------------------------
(* C03: OpenFlow 1.0 flow match semantics - the oracle.                     *)
(*                                                                          *)
(* Pure definitions (no variables):                                         *)
(*   Extract(x)      the 12-tuple the standard prescribes for frame x       *)
(*   Matches(m, x)   does ofp_match m match frame x                         *)
(*   Outcomes(t, x)  which table entries lookup may return for x (0 = miss) *)
(*                                                                          *)
(* A frame is a record of what is on the wire (see harness/c03_frames.py):  *)
(*   port, src, dst            ingress port, MAC symbols (equality only)    *)
(*   tag, vid, pcp             one 802.1Q tag after the source address      *)
(*   l2 \in {"eth2","llc","snap0","snapx"}, etype                           *)
(*        eth2 : type field = etype;  llc : 802.3 + 802.2 without SNAP      *)
(*        snap0: 802.3 + LLC/SNAP with OUI 0, SNAP type = etype             *)
(*        snapx: the same with another OUI                                  *)
(*   l3 \in {"none","ip","arp"}  what the body is                           *)
(*   tos, proto, sip, dip, frag \in {"no","first","later","last"}, opts     *)
(*   op                        ARP opcode (spa/tpa are sip/dip)             *)
(*   l4 \in {"none","tp","icmp"}, a, b   ports or ICMP type/code            *)
(* IPv4 addresses are 4-tuples of bytes (TLC integers are 32 bit).          *)
(*                                                                          *)
(* A match is [wc, sbits, dbits, v]: the set of single-bit OFPFW_* flags,   *)
(* the two 6-bit nw_src/nw_dst wildcard counters, and the 12 field values   *)
(* as they are on the wire (whatever the wildcards say).                    *)
EXTENDS Naturals, Sequences, FiniteSets

FlagFields == {"in_port", "dl_vlan", "dl_src", "dl_dst", "dl_type", "nw_proto",
               "tp_src", "tp_dst", "dl_vlan_pcp", "nw_tos"}
Fields == FlagFields \cup {"nw_src", "nw_dst"}

ETH_IP    == 2048
ETH_ARP   == 2054
NOT_ETH   == 1535      \* OFP_DL_TYPE_NOT_ETH_TYPE 0x05ff
VLAN_NONE == 65535     \* OFP_VLAN_NONE
Zero4     == <<0, 0, 0, 0>>

----------------------------------------------------------------------------
(* Header extraction, OpenFlow 1.0 section 3.4 (flowchart) + ofp_match      *)
(* field notes: "all others zero" unless set below.                         *)

\* the frame type the switch matches on: type field, SNAP type under OUI 0,
\* 0x05ff for every other 802.3 frame; the tag is looked through
EffType(x) == CASE x.l2 = "eth2"  -> x.etype
                [] x.l2 = "snap0" -> x.etype
                [] OTHER          -> NOT_ETH
IsIP(x)  == EffType(x) = ETH_IP
IsARP(x) == EffType(x) = ETH_ARP
\* frames the model talks about: an IPv4 / ARP type is followed by such a body
WellFormed(x) == /\ IsIP(x) => x.l3 = "ip"
                 /\ IsARP(x) => x.l3 = "arp"
                 /\ (x.l3 = "ip" /\ x.proto \in {6, 17}) => x.l4 = "tp"
                 /\ (x.l3 = "ip" /\ x.proto = 1) => x.l4 = "icmp"
                 /\ x.l2 = "eth2" => x.etype >= 1536
                 \* a second tag is only modelled as the type 0x8100 after the first
                 /\ x.etype = 33024 => (x.tag = 1 /\ x.l2 = "eth2")
\* transport fields: TCP/UDP ports, ICMP type/code, only for unfragmented IPv4
HasTp(x) == IsIP(x) /\ x.frag = "no" /\ x.proto \in {1, 6, 17}

Extract(x) ==
  [in_port     |-> x.port,
   dl_src      |-> x.src,
   dl_dst      |-> x.dst,
   dl_vlan     |-> IF x.tag = 1 THEN x.vid ELSE VLAN_NONE,
   dl_vlan_pcp |-> IF x.tag = 1 THEN x.pcp ELSE 0,
   dl_type     |-> EffType(x),
   nw_tos      |-> IF IsIP(x) THEN (x.tos \div 4) * 4 ELSE 0,      \* DSCP in the upper 6 bits
   nw_proto    |-> IF IsIP(x) THEN x.proto
                   ELSE IF IsARP(x) THEN x.op % 256 ELSE 0,        \* low 8 bits of the ARP opcode
   nw_src      |-> IF IsIP(x) \/ IsARP(x) THEN x.sip ELSE Zero4,
   nw_dst      |-> IF IsIP(x) \/ IsARP(x) THEN x.dip ELSE Zero4,
   tp_src      |-> IF HasTp(x) THEN x.a ELSE 0,
   tp_dst      |-> IF HasTp(x) THEN x.b ELSE 0]

----------------------------------------------------------------------------
(* Address prefixes                                                          *)

\* how many of the 8 bits of byte i (1..4) lie inside an n-bit prefix
ByteKeep(i, n) == LET k == n - 8 * (i - 1) IN
                  IF n <= 8 * (i - 1) THEN 0 ELSE IF k >= 8 THEN 8 ELSE k
PrefixEq(a, b, n) ==
  \A i \in 1..4 : LET d == 2 ^ (8 - ByteKeep(i, n)) IN (a[i] \div d) = (b[i] \div d)

\* the same, bit by bit (cross-check of the arithmetic above, see MCLookup)
BitOf(a, j) == (a[((j - 1) \div 8) + 1] \div (2 ^ (7 - ((j - 1) % 8)))) % 2
PrefixEqBits(a, b, n) == \A j \in 1..32 : j <= n => BitOf(a, j) = BitOf(b, j)

\* number of compared leading bits for a 6-bit wildcard counter (>= 32: none)
PrefixLen(bits) == IF bits >= 32 THEN 0 ELSE 32 - bits

----------------------------------------------------------------------------
(* Matching                                                                  *)

\* field f is (wholly) wildcarded in m
Wild(m, f) == CASE f = "nw_src" -> m.sbits >= 32
                [] f = "nw_dst" -> m.dbits >= 32
                [] OTHER        -> f \in m.wc
\* field f is specified completely (no wildcard at all)
FullySpecified(m, f) == CASE f = "nw_src" -> m.sbits = 0
                          [] f = "nw_dst" -> m.dbits = 0
                          [] OTHER        -> f \notin m.wc

\* Protocol prerequisites: a network / transport field takes part only when
\* the match SPECIFIES the protocol it belongs to (the value of a wildcarded
\* dl_type / nw_proto says nothing).  nw_src, nw_dst, nw_proto exist for
\* IPv4 and ARP, nw_tos for IPv4, tp_src/tp_dst for TCP, UDP and ICMP.
NwOK(m) == "dl_type" \notin m.wc /\ m.v.dl_type \in {ETH_IP, ETH_ARP}
IpOK(m) == "dl_type" \notin m.wc /\ m.v.dl_type = ETH_IP
TpOK(m) == IpOK(m) /\ "nw_proto" \notin m.wc /\ m.v.nw_proto \in {1, 6, 17}
Considered(m, f) == CASE f \in {"nw_src", "nw_dst", "nw_proto"} -> NwOK(m)
                      [] f = "nw_tos"                          -> IpOK(m)
                      [] f \in {"tp_src", "tp_dst"}            -> TpOK(m)
                      [] OTHER                                 -> TRUE
\* the fields that decide
Active(m) == {f \in Fields : Considered(m, f) /\ ~Wild(m, f)}

FieldEq(m, t, f) == CASE f = "nw_src" -> PrefixEq(m.v.nw_src, t.nw_src, PrefixLen(m.sbits))
                      [] f = "nw_dst" -> PrefixEq(m.v.nw_dst, t.nw_dst, PrefixLen(m.dbits))
                      [] OTHER        -> m.v[f] = t[f]

\* m matches the 12-tuple t (fields in `skip` left out of the comparison)
MatchesT(m, t, skip) ==
  \A f \in Fields \ skip : (Considered(m, f) /\ ~Wild(m, f)) => FieldEq(m, t, f)
Matches(m, x) == MatchesT(m, Extract(x), {})

(* Latitude 1 (the standard does not settle it): dl_vlan_pcp of a frame      *)
(* without a tag.  "literal": the priority of an untagged frame is 0 and is  *)
(* compared; "lenient": the field does not exist in such a frame and is not  *)
(* compared.  An implementation may follow either policy (consistently).     *)
PcpPols == {"literal", "lenient"}
Untagged(t) == t.dl_vlan = VLAN_NONE
MatchesPT(m, t, pp) ==
  IF pp = "lenient" /\ Untagged(t) THEN MatchesT(m, t, {"dl_vlan_pcp"})
  ELSE MatchesT(m, t, {})
MatchesP(m, x, pp) == MatchesPT(m, Extract(x), pp)

(* Latitude 2: which entries are "exact-match entries".  "literal": the wire *)
(* wildcard word is 0.  "semantic": every field that takes part is fully     *)
(* specified (wildcard bits of fields that cannot take part do not count).   *)
(* Literal exactness implies semantic exactness.                             *)
ExactPols == {"literal", "semantic"}
ExactP(m, ep) ==
  IF ep = "literal" THEN m.wc = {} /\ m.sbits = 0 /\ m.dbits = 0
  ELSE \A f \in Fields : Considered(m, f) => FullySpecified(m, f)

----------------------------------------------------------------------------
(* Lookup.  A table is a set of entries [k, m, prio]; k identifies the entry *)
(* (the harness gives entry k the action output:2+k).  Exact-match entries   *)
(* outrank every wildcarded one; among the matching entries of maximal       *)
(* effective priority any one may be returned (DESIGN 2.8).  t is the        *)
(* 12-tuple of the arriving frame.                                           *)
INF == 65537
Eff(e, ep) == IF ExactP(e.m, ep) THEN INF ELSE e.prio

\* the answer given the set M of matching entries and an exactness policy:
\* 0 = table miss, else the key of an entry of M that no entry of M outranks
Best(M, ep) ==
  IF M = {} THEN {0}
  ELSE {e.k : e \in {e \in M : \A e2 \in M : Eff(e, ep) >= Eff(e2, ep)}}
OutcomePT(tbl, t, pp, ep) == Best({e \in tbl : MatchesPT(e.m, t, pp)}, ep)

\* every answer some consistent pair of policies gives
\*   = UNION {OutcomePT(tbl, t, pp, ep) : pp \in PcpPols, ep \in ExactPols}
\* (checked as ASSUME in MCLookup); written so that each match is evaluated once
OutcomesT(tbl, t) ==
  LET lit == {e \in tbl : MatchesT(e.m, t, {})}
      len == IF Untagged(t) THEN {e \in tbl : MatchesT(e.m, t, {"dl_vlan_pcp"})} ELSE lit
  IN Best(lit, "literal") \cup Best(lit, "semantic")
       \cup (IF len = lit THEN {} ELSE Best(len, "literal") \cup Best(len, "semantic"))
OutcomesDecl(tbl, t) == UNION {OutcomePT(tbl, t, pp, ep) : pp \in PcpPols, ep \in ExactPols}
Outcomes(tbl, x) == OutcomesT(tbl, Extract(x))
=============================================================================
