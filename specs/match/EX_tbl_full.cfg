CONSTANTS
  Groups <- GroupsTbl
  CatalogOf <- CatTblFull
  Prios <- PriosFull
  FramesOf <- FramesTbl
  AltOf <- AltTbl
  N = 3
  Alternate = TRUE
  D = 6
INIT Init
NEXT Next
CONSTRAINT Bound
INVARIANT Export
CHECK_DEADLOCK FALSE
