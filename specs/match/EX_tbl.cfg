CONSTANTS
  Groups <- GroupsTbl
  CatalogOf <- CatTblQuick
  Prios <- PriosQuick
  FramesOf <- FramesTbl
  AltOf <- AltTbl
  N = 3
  Alternate = TRUE
  D = 6
INIT Init
NEXT Next
CONSTRAINT Bound
INVARIANT Export
CHECK_DEADLOCK FALSE
