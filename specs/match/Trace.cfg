CONSTANTS
  Groups <- GroupsTbl
  CatalogOf <- CatTblQuick
  Prios <- PriosTrace
  FramesOf <- FramesTbl
  AltOf <- AltTbl
  N = 8
  Alternate = FALSE
  D = 0
INIT TrInit
NEXT TrNext
CONSTRAINT Progress
POSTCONDITION Accepted
INVARIANT TypeOK
INVARIANT LookupOK
CHECK_DEADLOCK FALSE
