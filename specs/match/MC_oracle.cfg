CONSTANTS
  Groups <- GroupsTbl
  CatalogOf <- CatTblQuick
  Prios <- PriosQuick
  FramesOf <- FramesTbl
  AltOf <- AltTbl
  N = 0
  Alternate = TRUE
  D = 0
INIT Init
NEXT Next
CHECK_DEADLOCK FALSE
