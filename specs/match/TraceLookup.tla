---------------------------- MODULE TraceLookup ----------------------------
(* Code -> spec: histories recorded from a real SoftwareSwitch driven with   *)
(* random flow-mods and random frames (props/C03.py:drive) must be           *)
(* behaviours of Lookup.tla.  Matches and frames come from the trace (any    *)
(* wildcard word, any prefix counters, any field values), TLC computes the   *)
(* permitted lookup answers and decides.                                     *)
EXTENDS MCLookup, TLCExt, SequencesExt

Traces == JsonDeserialize(IOEnv.TRACE_FILE)
NT == Len(Traces)
VARIABLES tid, l
tvars == <<vars, tid, l>>

TrInit == Init /\ tid \in 1..NT /\ l = 1 /\ TLCSet(tid, 0)
Ev == Traces[tid][l]
IsEvent(e) == l <= Len(Traces[tid]) /\ Ev.a = e /\ l' = l + 1 /\ UNCHANGED tid

\* JSON arrays are sequences: the flag list becomes a set
MatchOf(j) == [wc |-> ToSet(j.wc), sbits |-> j.sbits, dbits |-> j.dbits, v |-> j.v]

TrInstall ==
  /\ IsEvent("Install")
  /\ Cardinality(tbl) < N
  /\ DoInstall(Ev.args.k, MatchOf(Ev.args.m), Ev.args.prio)
  /\ Ev.wf
  /\ last'.exp.n = Ev.obs.n

TrPacket ==
  /\ IsEvent("Packet")
  /\ WellFormed(Ev.args.x)
  /\ DoPacket(Extract(Ev.args.x), 0)
  /\ Ev.wf
  /\ Ev.obs.out \in last'.exp.outs

TrNext == TrInstall \/ TrPacket
TrSpec == TrInit /\ [][TrNext]_tvars

Progress == TLCSet(tid, IF TLCGet(tid) < l - 1 THEN l - 1 ELSE TLCGet(tid))
Ok(t) == TLCGet(t) = Len(Traces[t]) \/ (PrintT(<<"REJECT", t, TLCGet(t)>>) /\ FALSE)
Accepted == /\ PrintT(<<"TRACES-CHECKED", NT>>)
            /\ Cardinality({t \in 1..NT : ~Ok(t)}) = 0
=============================================================================
