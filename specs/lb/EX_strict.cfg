CONSTANTS
  Servers <- S2
  Idents <- Id2
  Home <- HomeAll
  Flows <- F1
  FlowDef <- FD
  CPorts <- P1
  NPorts = 4
  W = 5
  A = 6
  M = 8
  I = 2
  B = 1
  Deltas <- D3
  OtherKinds <- NoOther
  Strict = TRUE
  ExK = 8
  D = 1
INIT Init
NEXT NextR
VIEW viewMC
ACTION_CONSTRAINT ExportS
CHECK_DEADLOCK FALSE
