CONSTANTS
  Servers <- S1
  Idents <- Id1x
  Home <- HomeAll
  Flows <- F1
  FlowDef <- FD
  CPorts <- P12
  NPorts = 4
  W = 5
  A = 3
  M = 7
  I = 2
  B = 1
  Deltas <- D23
  OtherKinds <- SomeOther
  Strict = FALSE
  ExK = 1
  D = 0
INIT Init
NEXT NextR
VIEW viewMC
INVARIANT TypeOK
INVARIANT KeyShape
INVARIANT Paired
INVARIANT OneFlowPerKey
INVARIANT SweptOnTime
INVARIANT RoundRobin
INVARIANT ProbeDeadline
INVARIANT RemovedInTime
INVARIANT LiveWasProbed
INVARIANT TimerAlive
PROPERTY ExpiredExactly
PROPERTY Sticky
PROPERTY OnlyLive
PROPERTY NoServerNothing
PROPERTY ReverseRewritten
PROPERTY ForwardOnly
PROPERTY LiveChanges
PROPERTY LeakOnly
CHECK_DEADLOCK FALSE
