CONSTANTS
  Servers <- S2
  Idents <- Id2
  Home <- HomeAll
  Flows <- F2
  FlowDef <- FD
  CPorts <- P1
  NPorts = 4
  W = 5
  A = 6
  M = 8
  I = 2
  B = 0
  Deltas <- D3
  OtherKinds <- NoOther
  Strict = FALSE
  ExK = 4
  D = 1
INIT Init
NEXT NextL
VIEW viewMC
ACTION_CONSTRAINT ExportS
CHECK_DEADLOCK FALSE
