--------------------------- MODULE LoadBalancer ---------------------------
(* X07: pox/misc/ip_loadbalancer.py (class iplb, MemoryEntry, launch) in     *)
(* front of one OpenFlow 1.0 switch.                                         *)
(*                                                                           *)
(* Abstract state                                                            *)
(*   rr      self.servers: the round-robin order of the liveness probing     *)
(*   probes  self.outstanding_probes: server -> deadline of the unanswered   *)
(*           ARP probe                                                       *)
(*   live    self.live_servers: server -> (MAC, switch port) as learned from *)
(*           the answer to a probe                                           *)
(*   mem     self.memory: key -> MemoryEntry.  One entry object is stored    *)
(*           under two keys (key1 = the client's 4-tuple, key2 = the         *)
(*           server's view of the connection); the dictionary is modelled    *)
(*           by value, so that "both keys denote the same entry" is a        *)
(*           property to be checked (Paired), not an assumption              *)
(*   timer   the instant at which the chained core.callDelayed timer calls   *)
(*           _do_probe next                                                  *)
(*   flows   the switch's flow table (exact-match entries with idle          *)
(*           timeout that iplb installs; the switch is the environment and   *)
(*           forgets an entry the instant it has been idle for more than I)  *)
(*   leaked  packet buffers of the switch that iplb never gives back         *)
(*   sent    (history) instant of the latest probe per server                *)
(*                                                                           *)
(* One named action per thing that happens to the code:                      *)
(*   Start         launch()'s ConnectionUp listener creates the iplb, whose  *)
(*                 constructor sends the first probe                         *)
(*   Probe         the timer fires: _do_expire (unanswered probes older than *)
(*                 A => server dead; memory entries older than M dropped),   *)
(*                 then the next server of the round robin is ARPed for      *)
(*   Advance       time passes without the timer firing                      *)
(*   ArpReply      an ARP reply arrives as a packet-in                       *)
(*   ClientFast / ClientKnown / ClientNew / ClientNoServer                   *)
(*                 a TCP segment for the service address: forwarded by the   *)
(*                 switch / by its remembered entry / by a new entry for a   *)
(*                 server picked among the live ones / dropped               *)
(*   ServerFast / ServerKnown / ServerUnknown / ServerCrash                  *)
(*                 a TCP segment from a server: rewritten by the switch / by *)
(*                 the remembered entry / dropped / (deviation, see below)   *)
(*   Other         traffic iplb has no business with                         *)
(* Every action logs what an observer on the OpenFlow channel and on the     *)
(* ports must see plus the projection of the state (`last`, appended to      *)
(* `hist` for export to the replay harness).                                 *)
(*                                                                           *)
(* Time is counted in ticks (Unit seconds each in the binding; W, A, M, I    *)
(* are whole numbers of ticks).  Deadlines are absolute, like in the code.   *)
(*                                                                           *)
(* NAMED DEVIATION (Strict = FALSE only): ServerCrash.  The reverse branch   *)
(* of _handle_PacketIn looks up self.live_servers[entry.server] although it  *)
(* uses neither the MAC nor the port; when the server is not (or no longer)  *)
(* in live_servers the handler dies with KeyError after refreshing the       *)
(* entry: nothing is sent, the segment is lost, its buffer is never given    *)
(* back.  With Strict = TRUE the segment is rewritten like any other         *)
(* (ServerKnown does not ask whether the server is live).                    *)
EXTENDS Integers, Sequences, FiniteSets, TLC, Json

CONSTANTS Servers,     \* sequence of server addresses, the order of --servers
          Idents,      \* [server -> set of <<MAC, port>>] an ARP reply of that server may carry
          Home,        \* [server -> <<MAC, port>>] where the server's TCP segments come from
          Flows,       \* client connections (symbols)
          FlowDef,     \* [Flows -> [cip, cmac, sp, dp]]
          CPorts,      \* switch ports client segments arrive on
          NPorts,      \* the switch has ports 1..NPorts
          W, A, M, I,  \* ticks: probe period / N, ARP timeout, memory timeout, idle timeout of the flows
          B,           \* packet buffers of the switch
          Deltas,      \* amounts of time that may pass in one Advance
          OtherKinds,  \* subset of {"udp", "tcpx", "arpreq", "arpcli"}
          Strict,      \* TRUE: the documented intent where the code deviates (ServerCrash)
          ExK,         \* export: keep one transition in ExK (ExportS)
          D            \* export depth (0: no history is kept - model checking and trace validation)

VARIABLES up, now, timer, rr, probes, live, mem, flows, leaked, sent,
          last,      \* observation of the last action
          hist       \* all observations (export only; hidden by VIEW)
core == <<up, now, timer, rr, probes, live, mem, flows, leaked, sent>>
vars == <<core, last, hist>>

None    == "-"
NoT     == 0 - 1                       \* "no deadline"
SrvSet  == {Servers[i] : i \in DOMAIN Servers}
N       == Len(Servers)
Down    == [mac |-> None, port |-> 0]
NoEnt   == [srv |-> None, f |-> None, cport |-> 0, dl |-> 0]
KeyC(f)    == [t |-> "c", s |-> None, f |-> f]         \* key1: (client ip, service ip, sport, dport)
KeyS(s, f) == [t |-> "s", s |-> s, f |-> f]            \* key2: (server ip, client ip, dport, sport)
Keys    == {KeyC(f) : f \in Flows} \cup {KeyS(s, f) : s \in SrvSet, f \in Flows}
Ident(x) == [mac |-> x[1], port |-> x[2]]
LiveSet == {s \in SrvSet : live[s] # Down}
FLOOD   == 65531
NOPORT  == 65535

ASSUME /\ \A s \in SrvSet : Home[s][2] \notin CPorts /\ \A x \in Idents[s] : x[2] \notin CPorts
       /\ W > 0 /\ A > 0 /\ M > 0 /\ I > 0

----------------------------------------------------------------------------
(* Frames, action lists, OpenFlow messages as the observer sees them.        *)
Frame(es, ed, sip, dip, sp, dp) == [es |-> es, ed |-> ed, sip |-> sip, dip |-> dip, sp |-> sp, dp |-> dp]
\* a segment of client connection f: the client believes the service address is behind the switch's MAC
CFrame(f) == Frame(FlowDef[f].cmac, "lb", FlowDef[f].cip, "svc", FlowDef[f].sp, FlowDef[f].dp)
\* the answer of server s
SFrame(s, f) == Frame(Home[s][1], FlowDef[f].cmac, s, FlowDef[f].cip, FlowDef[f].dp, FlowDef[f].sp)
\* which frame on which ingress port an exact-match entry is for
FKeyC(f, p)    == [dir |-> "c", f |-> f, s |-> None, p |-> p]
FKeyS(s, f)    == [dir |-> "s", f |-> f, s |-> s, p |-> Home[s][2]]

Act(t, s, n) == [t |-> t, s |-> s, n |-> n]
FwdActs(id, s)  == <<Act("dl_dst", id.mac, 0), Act("nw_dst", s, 0), Act("output", "", id.port)>>
RevActs(cport)  == <<Act("dl_src", "lb", 0), Act("nw_src", "svc", 0), Act("output", "", cport)>>
RECURSIVE Apply(_, _)
Apply(acts, f) ==
  IF acts = <<>> THEN f
  ELSE LET a == Head(acts)
           g == CASE a.t = "dl_src" -> [f EXCEPT !.es = a.s]
                  [] a.t = "dl_dst" -> [f EXCEPT !.ed = a.s]
                  [] a.t = "nw_src" -> [f EXCEPT !.sip = a.s]
                  [] a.t = "nw_dst" -> [f EXCEPT !.dip = a.s]
                  [] OTHER -> f
       IN Apply(Tail(acts), g)
\* what leaves the switch when the action list is applied to frame f
Emit(acts, f) == LET g == Apply(acts, f) IN
  [port |-> acts[Len(acts)].n, es |-> g.es, ed |-> g.ed, sip |-> g.sip, dip |-> g.dip, sp |-> g.sp, dp |-> g.dp]

\* controller -> switch messages (one record shape for all of them).  mk = "exact": the match names every
\* field of the packet that caused the packet-in, and its ingress port.  buf: the message names the buffer of
\* that packet-in; data: it carries the packet itself
Msg(t, buf, data, inport, mk, acts, idle) ==
  [t |-> t, buf |-> buf, data |-> data, inport |-> inport, mk |-> mk, acts |-> acts, idle |-> idle]
FM(buf, acts)              == Msg("fm", buf, FALSE, 0, "exact", acts, I)
BAR                        == Msg("bar", FALSE, FALSE, 0, None, <<>>, 0)
PO(buf, data, inport, acts) == Msg("po", buf, data, inport, None, acts, 0)
\* install a flow for the packet-in's packet and let that packet take it (ofp_flow_mod(data = event.ofp)):
\* buffered -> the FLOW_MOD names the buffer; unbuffered -> FLOW_MOD, BARRIER, PACKET_OUT with the data
Install(buf, p, acts) == IF buf THEN <<FM(TRUE, acts)>> ELSE <<FM(FALSE, acts), BAR, PO(FALSE, TRUE, p, acts)>>
\* drop(): kill the buffer, if there is one
Drop(buf, p) == IF buf THEN <<PO(TRUE, FALSE, p, <<>>)>> ELSE <<>>
ProbeMsg == <<PO(FALSE, TRUE, NOPORT, <<Act("output", "", FLOOD)>>)>>
ArpEm(s) == {[port |-> p, op |-> 1, es |-> "lb", ed |-> "bcast", sha |-> "lb", spa |-> "svc",
              tha |-> "bcast", tpa |-> s] : p \in 1..NPorts}

\* projection of the state, as the adapter reads it off the real objects (times relative to now)
Proj(n, tm, r, pr, lv, mm, fl, lk) ==
  [live   |-> {[s |-> s, mac |-> lv[s].mac, port |-> lv[s].port] : s \in {x \in SrvSet : lv[x] # Down}},
   probes |-> {[s |-> s, ttl |-> pr[s] - n] : s \in {x \in SrvSet : pr[x] # NoT}},
   mem    |-> {[k |-> k, srv |-> mm[k].srv, f |-> mm[k].f, cport |-> mm[k].cport, ttl |-> mm[k].dl - n]
                 : k \in {x \in Keys : mm[x] # NoEnt}},
   flows  |-> {[k |-> x.k, acts |-> x.acts, ttl |-> x.touched + I - n] : x \in fl},
   held   |-> lk, timer |-> tm - n, rr |-> r]
ProjNext == Proj(now', timer', rr', probes', live', mem', flows', leaked')

Obs(pin, msgs, em, arp, cands, exc) ==
  [pin |-> pin, msgs |-> msgs, em |-> em, arp |-> arp, cands |-> cands, exc |-> exc, st |-> ProjNext]
NoObs == [a |-> "Init", via |-> "Init", args |-> [x |-> 0], exp |-> [x |-> 0]]
Log(a, via, args, exp) ==
  /\ last' = [a |-> a, via |-> via, args |-> args, exp |-> exp]
  /\ hist' = IF D = 0 THEN hist ELSE Append(hist, [a |-> a, via |-> via, args |-> args, exp |-> exp])

----------------------------------------------------------------------------
Init == /\ up = FALSE /\ now = 0 /\ timer = 0 /\ rr = Servers
        /\ probes = [s \in SrvSet |-> NoT] /\ live = [s \in SrvSet |-> Down]
        /\ mem = [k \in Keys |-> NoEnt] /\ flows = {} /\ leaked = 0
        /\ sent = [s \in SrvSet |-> NoT]
        /\ last = NoObs /\ hist = <<>>

\* the switch forgets entries that have been idle for more than I
AliveAt(fl, t) == {x \in fl : t - x.touched <= I}

(* _do_probe, second half: ARP for the next server of the round robin, remember the deadline of the answer,  *)
(* re-arm the timer.  (pr, t): outstanding probes after _do_expire, the instant.)                             *)
SendProbe(pr, t) ==
  LET srv == Head(rr) IN
  /\ rr' = Append(Tail(rr), srv)
  /\ probes' = [pr EXCEPT ![srv] = t + A]
  /\ sent' = [sent EXCEPT ![srv] = t]
  /\ timer' = t + W

\* the switch connects; iplb.__init__ calls _do_probe (nothing to expire yet)
Start ==
  /\ ~up /\ up' = TRUE
  /\ SendProbe(probes, now)
  /\ UNCHANGED <<now, live, mem, flows, leaked>>
  /\ Log("Start", "Start", [x |-> 0], Obs(0, ProbeMsg, {}, ArpEm(Head(rr)), {}, ""))

(* the timer fires d ticks from now: _do_expire, then the next probe *)
Probe(d) ==
  /\ up /\ d = timer - now /\ d > 0
  /\ now' = timer
  /\ LET t == timer
         dead == {s \in SrvSet : probes[s] # NoT /\ t > probes[s]}
         pr1 == [s \in SrvSet |-> IF s \in dead THEN NoT ELSE probes[s]]
     IN /\ live' = [s \in SrvSet |-> IF s \in dead THEN Down ELSE live[s]]
        /\ mem' = [k \in Keys |-> IF mem[k] # NoEnt /\ t > mem[k].dl THEN NoEnt ELSE mem[k]]
        /\ SendProbe(pr1, t)
        /\ flows' = AliveAt(flows, t)
  /\ UNCHANGED <<up, leaked>>
  /\ Log("Probe", "Probe", [d |-> d], Obs(0, ProbeMsg, {}, ArpEm(Head(rr)), {}, ""))

Advance(d) ==
  /\ up /\ d \in Deltas /\ now + d < timer
  /\ now' = now + d
  /\ flows' = AliveAt(flows, now + d)
  /\ UNCHANGED <<up, timer, rr, probes, live, mem, leaked, sent>>
  /\ Log("Advance", "Advance", [d |-> d], Obs(0, <<>>, {}, {}, {}, ""))

\* a packet-in takes a buffer of the switch if one is free
Buffered == leaked < B
PinOf(buf) == IF buf THEN 1 ELSE 2

(* An ARP reply from server address s, sender hardware address / ingress port id.  It counts only as the      *)
(* answer to an outstanding probe (also one whose deadline has passed but which _do_expire has not seen yet). *)
(* iplb returns without touching the packet-in's buffer.                                                      *)
ArpReply(s, id) ==
  /\ up /\ s \in SrvSet /\ id \in Idents[s]
  /\ IF probes[s] # NoT
     THEN /\ probes' = [probes EXCEPT ![s] = NoT]
          /\ live' = [live EXCEPT ![s] = Ident(id)]
     ELSE UNCHANGED <<probes, live>>
  /\ leaked' = IF Buffered THEN leaked + 1 ELSE leaked
  /\ UNCHANGED <<up, now, timer, rr, mem, flows, sent>>
  /\ Log("ArpReply", IF probes[s] # NoT THEN "ArpReplyAnswer" ELSE "ArpReplyIgnored",
         [s |-> s, mac |-> id[1], port |-> id[2]], Obs(PinOf(Buffered), <<>>, {}, {}, {}, ""))

\* entry.refresh(): the entry OBJECT gets a new deadline - under every key that holds it
Refresh(e) == [k \in Keys |-> IF mem[k] = e THEN [e EXCEPT !.dl = now + M] ELSE mem[k]]
PutFlow(k, acts) == {x \in flows : x.k # k} \cup {[k |-> k, acts |-> acts, touched |-> now]}
HasFlow(k) == \E x \in flows : x.k = k
FlowOf(k) == CHOOSE x \in flows : x.k = k
Touch(k) == {IF x.k = k THEN [x EXCEPT !.touched = now] ELSE x : x \in flows}

\* ---- a TCP segment of client connection f arrives on port p
ClientFast(f, p) ==
  /\ up /\ HasFlow(FKeyC(f, p))
  /\ flows' = Touch(FKeyC(f, p))
  /\ UNCHANGED <<up, now, timer, rr, probes, live, mem, leaked, sent>>
  /\ Log("Client", "ClientFast", [f |-> f, p |-> p, pick |-> None],
         Obs(0, <<>>, {Emit(FlowOf(FKeyC(f, p)).acts, CFrame(f))}, {}, {}, ""))

Known(f) == mem[KeyC(f)] # NoEnt /\ live[mem[KeyC(f)].srv] # Down

\* remembered, and its server is live: same server again
ClientKnown(f, p) ==
  /\ up /\ ~HasFlow(FKeyC(f, p)) /\ Known(f)
  /\ LET e == mem[KeyC(f)]
         acts == FwdActs(live[e.srv], e.srv) IN
     /\ mem' = Refresh(e)
     /\ flows' = PutFlow(FKeyC(f, p), acts)
     /\ UNCHANGED <<up, now, timer, rr, probes, live, leaked, sent>>
     /\ Log("Client", "ClientKnown", [f |-> f, p |-> p, pick |-> None],
            Obs(PinOf(Buffered), Install(Buffered, p, acts), {Emit(acts, CFrame(f))}, {}, {}, ""))

\* not remembered (or remembered for a server that is not live): a live server is picked, remembered under both keys
ClientNew(f, p, pick) ==
  /\ up /\ ~HasFlow(FKeyC(f, p)) /\ ~Known(f) /\ pick \in LiveSet
  /\ LET e == [srv |-> pick, f |-> f, cport |-> p, dl |-> now + M]
         acts == FwdActs(live[pick], pick) IN
     /\ mem' = [mem EXCEPT ![KeyC(f)] = e, ![KeyS(pick, f)] = e]
     /\ flows' = PutFlow(FKeyC(f, p), acts)
     /\ UNCHANGED <<up, now, timer, rr, probes, live, leaked, sent>>
     /\ Log("Client", "ClientNew", [f |-> f, p |-> p, pick |-> pick],
            Obs(PinOf(Buffered), Install(Buffered, p, acts), {Emit(acts, CFrame(f))}, {}, LiveSet, ""))

\* nobody to send it to: the packet is dropped, nothing is remembered
ClientNoServer(f, p) ==
  /\ up /\ ~HasFlow(FKeyC(f, p)) /\ ~Known(f) /\ LiveSet = {}
  /\ UNCHANGED core
  /\ Log("Client", "ClientNoServer", [f |-> f, p |-> p, pick |-> None],
         Obs(PinOf(Buffered), Drop(Buffered, p), {}, {}, {}, ""))

\* ---- a TCP segment of server s, answering client connection f, arrives on the server's port
ServerFast(s, f) ==
  /\ up /\ HasFlow(FKeyS(s, f))
  /\ flows' = Touch(FKeyS(s, f))
  /\ UNCHANGED <<up, now, timer, rr, probes, live, mem, leaked, sent>>
  /\ Log("Server", "ServerFast", [s |-> s, f |-> f],
         Obs(0, <<>>, {Emit(FlowOf(FKeyS(s, f)).acts, SFrame(s, f))}, {}, {}, ""))

ServerUnknown(s, f) ==
  /\ up /\ ~HasFlow(FKeyS(s, f)) /\ mem[KeyS(s, f)] = NoEnt
  /\ UNCHANGED core
  /\ Log("Server", "ServerUnknown", [s |-> s, f |-> f],
         Obs(PinOf(Buffered), Drop(Buffered, Home[s][2]), {}, {}, {}, ""))

\* remembered: rewritten back to the service address and sent to the port the client's first segment came from
ServerKnown(s, f) ==
  /\ up /\ ~HasFlow(FKeyS(s, f)) /\ mem[KeyS(s, f)] # NoEnt
  /\ (Strict \/ live[mem[KeyS(s, f)].srv] # Down)
  /\ LET e == mem[KeyS(s, f)]
         acts == RevActs(e.cport) IN
     /\ mem' = Refresh(e)
     /\ flows' = PutFlow(FKeyS(s, f), acts)
     /\ UNCHANGED <<up, now, timer, rr, probes, live, leaked, sent>>
     /\ Log("Server", "ServerKnown", [s |-> s, f |-> f],
            Obs(PinOf(Buffered), Install(Buffered, Home[s][2], acts), {Emit(acts, SFrame(s, f))}, {}, {}, ""))

\* DEVIATION: remembered, but the server is not in live_servers: KeyError after entry.refresh()
ServerCrash(s, f) ==
  /\ ~Strict
  /\ up /\ ~HasFlow(FKeyS(s, f)) /\ mem[KeyS(s, f)] # NoEnt /\ live[mem[KeyS(s, f)].srv] = Down
  /\ mem' = Refresh(mem[KeyS(s, f)])
  /\ leaked' = IF Buffered THEN leaked + 1 ELSE leaked
  /\ UNCHANGED <<up, now, timer, rr, probes, live, flows, sent>>
  /\ Log("Server", "ServerCrash", [s |-> s, f |-> f], Obs(PinOf(Buffered), <<>>, {}, {}, {}, "KeyError"))

(* Traffic that is none of iplb's business, from the first client, on port p:                                *)
(*   udp     UDP to the service address      -> drop() (buffer given back)                                   *)
(*   tcpx    TCP to some other address       -> handler falls off its end: nothing, buffer kept              *)
(*   arpreq  ARP request for the service     -> return: nothing, buffer kept                                 *)
(*   arpcli  ARP reply from a non-server     -> return: nothing, buffer kept                                 *)
Other(kind, p) ==
  /\ up /\ kind \in OtherKinds
  /\ leaked' = IF Buffered /\ kind # "udp" THEN leaked + 1 ELSE leaked
  /\ UNCHANGED <<up, now, timer, rr, probes, live, mem, flows, sent>>
  /\ Log("Other", "Other", [kind |-> kind, p |-> p],
         Obs(PinOf(Buffered), IF kind = "udp" THEN Drop(Buffered, p) ELSE <<>>, {}, {}, {}, ""))

ClientStep == \E f \in Flows, p \in CPorts :
                 \/ ClientFast(f, p) \/ ClientKnown(f, p) \/ ClientNoServer(f, p)
                 \/ \E s \in SrvSet : ClientNew(f, p, s)
ServerStep == \E s \in SrvSet, f \in Flows :
                 ServerFast(s, f) \/ ServerUnknown(s, f) \/ ServerKnown(s, f) \/ ServerCrash(s, f)
ArpStep    == \E s \in SrvSet : \E id \in Idents[s] : ArpReply(s, id)
OtherStep  == \E k \in OtherKinds, p \in CPorts : Other(k, p)
TimeStep   == (\E d \in Deltas : Advance(d)) \/ (\E d \in 1..W : Probe(d))
Next == Start \/ TimeStep \/ ArpStep \/ ClientStep \/ ServerStep \/ OtherStep

Spec == Init /\ [][Next]_vars

----------------------------------------------------------------------------
(* The properties, over the real variables (and last', the observation of the step just taken).              *)

TypeOK ==
  /\ up \in BOOLEAN /\ now \in Nat /\ timer \in Nat /\ leaked \in 0..B
  /\ \A s \in SrvSet : /\ probes[s] \in Nat \cup {NoT} /\ sent[s] \in Nat \cup {NoT}
                       /\ (live[s] = Down \/ <<live[s].mac, live[s].port>> \in Idents[s])
  /\ \A k \in Keys : mem[k] = NoEnt \/
        (mem[k].srv \in SrvSet /\ mem[k].f \in Flows /\ mem[k].cport \in CPorts /\ mem[k].dl \in Nat)
  /\ \A x \in flows : x.touched \in Nat /\ x.touched <= now
  /\ {rr[i] : i \in DOMAIN rr} = SrvSet /\ Len(rr) = N

\* ---- flow memory
\* an entry sits under the key it belongs to
KeyShape == \A k \in Keys : mem[k] # NoEnt =>
               /\ mem[k].f = k.f
               /\ (k.t = "s" => mem[k].srv = k.s)
\* the client-side key and the server-side key of a connection denote the SAME entry: refreshed together,
\* expired together (so an expired entry is dropped once, completely)
Paired == \A f \in Flows : mem[KeyC(f)] # NoEnt => mem[KeyS(mem[KeyC(f)].srv, f)] = mem[KeyC(f)]
\* at most one entry object per (connection, server)
OneFlowPerKey == \A x, y \in flows : x.k = y.k => x = y
\* no expired entry survives a firing of the timer
SweptOnTime == up => \A k \in Keys : mem[k] # NoEnt => mem[k].dl >= timer - W
\* an entry goes away only by the timer's sweep, only when its deadline has passed (strictly), and then under
\* every key at once; it is replaced only by a new pick (ClientNew), and then only if its server was not live
ExpiredExactly ==
  [][/\ \A k \in Keys : (mem[k] # NoEnt /\ mem'[k] = NoEnt) => (last'.a = "Probe" /\ now' > mem[k].dl)
     /\ (last'.a = "Probe" => \A k \in Keys : (mem[k] # NoEnt /\ now' > mem[k].dl) => mem'[k] = NoEnt)
     /\ \A k \in Keys : (mem[k] # NoEnt /\ mem'[k] # NoEnt /\ mem'[k].srv # mem[k].srv) =>
           (last'.via = "ClientNew" /\ live[mem[k].srv] = Down)
     /\ \A k \in Keys : (mem[k] # NoEnt /\ mem'[k] # NoEnt /\ mem'[k].srv = mem[k].srv) =>
           (mem'[k].dl >= mem[k].dl /\ (mem'[k].cport = mem[k].cport \/ last'.via = "ClientNew"))]_vars

\* ---- stickiness: while a connection is remembered and its server is live, a segment that reaches the
\* controller goes to that server, at the address it answered its last probe from
Sticky ==
  [][(last'.a = "Client" /\ last'.exp.pin # 0) =>
       LET f == last'.args.f e == mem[KeyC(f)] IN
       (e # NoEnt /\ live[e.srv] # Down) =>
          /\ mem'[KeyC(f)].srv = e.srv /\ mem'[KeyC(f)].cport = e.cport
          /\ last'.exp.em = {Emit(FwdActs(live[e.srv], e.srv), CFrame(f))}]_vars
\* a segment that reaches the controller is never sent to a server that is not live; a NEW pick is a live server
OnlyLive ==
  [][(last'.a = "Client" /\ last'.exp.pin # 0) =>
       /\ \A x \in last'.exp.em : \E s \in LiveSet : x.dip = s /\ x.ed = live[s].mac /\ x.port = live[s].port
       /\ (last'.via = "ClientNew" => last'.args.pick \in LiveSet /\ mem'[KeyC(last'.args.f)].srv = last'.args.pick)
       /\ \A x \in flows' \ flows : x.k.dir = "c" => \E s \in LiveSet : x.acts = FwdActs(live[s], s)]_vars
\* with no live server nothing is forwarded, installed or remembered
NoServerNothing ==
  [][(last'.a = "Client" /\ last'.exp.pin # 0 /\ LiveSet = {}) =>
       /\ last'.exp.em = {} /\ mem' = mem /\ flows' = flows
       /\ \A i \in DOMAIN last'.exp.msgs : last'.exp.msgs[i].t = "po" /\ last'.exp.msgs[i].acts = <<>>]_vars

\* ---- reverse traffic: whatever leaves the switch for a server's segment carries the service address and the
\* switch's MAC as its source and goes to the port the connection's first segment came from
ReverseRewritten ==
  [][last'.a = "Server" =>
       LET s == last'.args.s f == last'.args.f IN
       /\ \A x \in last'.exp.em : /\ x.sip = "svc" /\ x.es = "lb" /\ x.dip = FlowDef[f].cip
                                  /\ x.sp = FlowDef[f].dp /\ x.dp = FlowDef[f].sp /\ x.port \in CPorts
       /\ (last'.exp.pin # 0 /\ last'.exp.em # {}) =>
             (mem[KeyS(s, f)] # NoEnt /\ \A x \in last'.exp.em : x.port = mem[KeyS(s, f)].cport)
       \* the intent: a remembered connection's answer is never lost
       /\ (Strict /\ mem[KeyS(s, f)] # NoEnt) => last'.exp.em # {}]_vars
\* IP traffic leaves the switch only as the (rewritten) segment that just came in
ForwardOnly ==
  [][/\ last'.exp.em # {} => last'.a \in {"Client", "Server"}
     /\ Cardinality(last'.exp.em) <= 1
     /\ last'.exp.exc # "" => ~Strict]_vars

\* ---- liveness of the servers
\* probing goes round: every server is probed once per N * W
RoundRobin == up => \A s \in SrvSet : IF sent[s] = NoT THEN now < N * W ELSE timer - sent[s] <= N * W
ProbeDeadline == \A s \in SrvSet : probes[s] # NoT => (sent[s] # NoT /\ probes[s] = sent[s] + A)
\* a live server has answered its latest probe, or that probe is at most A + W old: a server that stops
\* answering is out of live_servers no later than A + W after the first probe it misses
RemovedInTime == up => \A s \in SrvSet : probes[s] # NoT => probes[s] >= timer - W
LiveWasProbed == \A s \in SrvSet : live[s] # Down => sent[s] # NoT
\* a server leaves live_servers only by a missed probe, enters (or changes address) only by answering one
LiveChanges ==
  [][\A s \in SrvSet :
       /\ (live[s] # Down /\ live'[s] = Down) => (last'.a = "Probe" /\ probes[s] # NoT /\ now' > probes[s])
       /\ (live'[s] # Down /\ live'[s] # live[s]) =>
             (last'.a = "ArpReply" /\ last'.args.s = s /\ probes[s] # NoT /\ probes'[s] = NoT)]_vars
TimerAlive == up => timer > now

\* ---- the switch's buffers: only the paths named above keep one
LeakOnly ==
  [][leaked' # leaked => (last'.a \in {"ArpReply", "Other"} \/ last'.via = "ServerCrash")]_vars

----------------------------------------------------------------------------
\* model checking: states are compared up to translation in time (everything that matters is a difference;
\* a deadline that has passed is just "passed")
RelT(t)  == IF t = NoT THEN NoT ELSE IF now > t THEN 0 - 2 ELSE t - now
RelS(t)  == IF t = NoT THEN NoT ELSE IF now - t > N * W THEN N * W ELSE now - t
viewMC == <<up, timer - now, rr, [s \in SrvSet |-> RelT(probes[s])], live,
            [k \in Keys |-> IF mem[k] = NoEnt THEN NoEnt ELSE [mem[k] EXCEPT !.dl = RelT(mem[k].dl)]],
            {[x EXCEPT !.touched = now - x.touched] : x \in flows}, leaked,
            [s \in SrvSet |-> RelS(sent[s])]>>

\* ---- export for the replay harness
Bound   == Len(hist) <= D
Export  == (Len(hist) = D) => PrintT(<<"H", ToJson(hist)>>)
ExportT == PrintT(<<"T", ToJson(hist')>>)
\* a deterministic 1-in-ExK sample of the transitions (a hash of the step; the replay's vacuity guard demands
\* that every action still occurs)
Mix == now' + 3 * Len(hist') + 5 * leaked' + 7 * Cardinality(flows') + 11 * Cardinality({k \in Keys : mem'[k] # NoEnt})
       + 13 * Cardinality({s \in SrvSet : live'[s] # Down}) + 17 * Cardinality({s \in SrvSet : probes'[s] # NoT})
       + 19 * (timer' - now') + 23 * Cardinality({x \in flows' : x.touched = now'})
ExportS == (Mix % ExK = 0) => PrintT(<<"T", ToJson(hist')>>)
=============================================================================
