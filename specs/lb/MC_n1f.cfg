CONSTANTS
  Servers <- S1
  Idents <- Id1
  Home <- HomeAll
  Flows <- F2
  FlowDef <- FD
  CPorts <- P1
  NPorts = 4
  W = 5
  A = 3
  M = 7
  I = 2
  B = 0
  Deltas <- D3
  OtherKinds <- NoOther
  Strict = FALSE
  ExK = 1
  D = 0
INIT Init
NEXT NextR
VIEW viewMC
INVARIANT TypeOK
INVARIANT KeyShape
INVARIANT Paired
INVARIANT OneFlowPerKey
INVARIANT SweptOnTime
INVARIANT RoundRobin
INVARIANT ProbeDeadline
INVARIANT RemovedInTime
INVARIANT LiveWasProbed
INVARIANT TimerAlive
PROPERTY ExpiredExactly
PROPERTY Sticky
PROPERTY OnlyLive
PROPERTY NoServerNothing
PROPERTY ReverseRewritten
PROPERTY ForwardOnly
PROPERTY LiveChanges
PROPERTY LeakOnly
CHECK_DEADLOCK FALSE
