---- MODULE TraceLB ----
(* Code -> spec: traces recorded from the real ip_loadbalancer + switch (seeded random driver, iplb's random   *)
(* source free-running) must be behaviours of LoadBalancer.tla; every invariant and action property is        *)
(* evaluated at each matched step.  An event names what the environment did ("Client", "Server", "ArpReply",   *)
(* "Tick", ...) with its arguments and carries the full observation; which case of the specification applies   *)
(* (fast / known / new and WHICH server was picked / no server / crash; time passing with or without the timer *)
(* firing) is for TLC to find out: the event matches iff SOME case is enabled and yields exactly the logged    *)
(* observation.                                                                                                *)
EXTENDS MCLoadBalancer, IOUtils, TLCExt, SequencesExt

Traces == JsonDeserialize(IOEnv.TRACE_FILE)
NT == Len(Traces)
VARIABLES tid, l
tvars == <<vars, tid, l>>

TrInit == Init /\ tid \in 1..NT /\ l = 1 /\ TLCSet(tid, 0)
Ev == Traces[tid][l]
IsEvent(e) == l <= Len(Traces[tid]) /\ Ev.a = e /\ l' = l + 1 /\ UNCHANGED tid

\* the logged observation is what the spec yields (JSON arrays are sequences: sets are compared as sets)
ObsOK ==
  /\ Ev.wf
  /\ LET e == last'.exp o == Ev.obs IN
     /\ e.pin = o.pin /\ e.msgs = o.msgs /\ e.em = ToSet(o.em) /\ e.arp = ToSet(o.arp)
     /\ e.cands = ToSet(o.cands) /\ e.exc = o.exc
     /\ e.st.live = ToSet(o.st.live) /\ e.st.probes = ToSet(o.st.probes) /\ e.st.mem = ToSet(o.st.mem)
     /\ e.st.flows = ToSet(o.st.flows) /\ e.st.held = o.st.held /\ e.st.timer = o.st.timer /\ e.st.rr = o.st.rr

TrStart == IsEvent("Start") /\ Start /\ ObsOK
TrTick == IsEvent("Tick") /\ (Advance(Ev.args.d) \/ Probe(Ev.args.d)) /\ ObsOK
TrArpReply == IsEvent("ArpReply") /\ ArpReply(Ev.args.s, <<Ev.args.mac, Ev.args.port>>) /\ ObsOK
TrClient ==
  /\ IsEvent("Client")
  /\ LET f == Ev.args.f p == Ev.args.p IN
       \/ ClientFast(f, p) \/ ClientKnown(f, p) \/ ClientNoServer(f, p)
       \/ \E s \in SrvSet : ClientNew(f, p, s)
  /\ ObsOK
TrServer ==
  /\ IsEvent("Server")
  /\ LET s == Ev.args.s f == Ev.args.f IN
       ServerFast(s, f) \/ ServerUnknown(s, f) \/ ServerKnown(s, f) \/ ServerCrash(s, f)
  /\ ObsOK
TrOther == IsEvent("Other") /\ Other(Ev.args.kind, Ev.args.p) /\ ObsOK

TrNext == TrStart \/ TrTick \/ TrArpReply \/ TrClient \/ TrServer \/ TrOther
TrSpec == TrInit /\ [][TrNext]_tvars

Progress == TLCSet(tid, IF TLCGet(tid) < l - 1 THEN l - 1 ELSE TLCGet(tid))
Ok(t) == TLCGet(t) = Len(Traces[t]) \/ (PrintT(<<"REJECT", t, TLCGet(t)>>) /\ FALSE)
Accepted == /\ PrintT(<<"TRACES-CHECKED", NT>>)
            /\ Cardinality({t \in 1..NT : ~Ok(t)}) = 0
====
