CONSTANTS
  Servers <- S5
  Idents <- Id5
  Home <- HomeAll
  Flows <- F1
  FlowDef <- FD
  CPorts <- P1
  NPorts = 4
  W = 1
  A = 3
  M = 4
  I = 2
  B = 1
  Deltas <- D1
  OtherKinds <- NoOther
  Strict = FALSE
  ExK = 2
  D = 1
INIT Init
NEXT NextL
VIEW viewMC
ACTION_CONSTRAINT ExportS
CHECK_DEADLOCK FALSE
