CONSTANTS
  Servers <- S5
  Idents <- Id5x
  Home <- HomeAll
  Flows <- F3
  FlowDef <- FD
  CPorts <- P12
  NPorts = 4
  W = 1
  A = 3
  M = 300
  I = 10
  B = 2
  Deltas <- DNat
  OtherKinds <- AllOther
  Strict = FALSE
  ExK = 1
  D = 0
INIT TrInit
NEXT TrNext
CONSTRAINT Progress
POSTCONDITION Accepted
INVARIANT TypeOK
INVARIANT KeyShape
INVARIANT Paired
INVARIANT OneFlowPerKey
INVARIANT SweptOnTime
INVARIANT RoundRobin
INVARIANT ProbeDeadline
INVARIANT RemovedInTime
INVARIANT LiveWasProbed
INVARIANT TimerAlive
PROPERTY ExpiredExactly
PROPERTY Sticky
PROPERTY OnlyLive
PROPERTY NoServerNothing
PROPERTY ReverseRewritten
PROPERTY ForwardOnly
PROPERTY LiveChanges
PROPERTY LeakOnly
CHECK_DEADLOCK FALSE
