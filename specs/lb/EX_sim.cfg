CONSTANTS
  Servers <- S2
  Idents <- Id2x
  Home <- HomeAll
  Flows <- F3
  FlowDef <- FD
  CPorts <- P12
  NPorts = 4
  W = 5
  A = 6
  M = 30
  I = 6
  B = 3
  Deltas <- D1234
  OtherKinds <- AllOther
  Strict = FALSE
  ExK = 1
  D = 120
INIT Init
NEXT NextR
INVARIANT Export
CHECK_DEADLOCK FALSE
