CONSTANTS
  Servers <- S1
  Idents <- Id1x
  Home <- HomeAll
  Flows <- F1
  FlowDef <- FD
  CPorts <- P12
  NPorts = 4
  W = 5
  A = 3
  M = 7
  I = 2
  B = 1
  Deltas <- D3
  OtherKinds <- SomeOther
  Strict = FALSE
  ExK = 2
  D = 1
INIT Init
NEXT NextR
VIEW viewMC
ACTION_CONSTRAINT ExportS
CHECK_DEADLOCK FALSE
