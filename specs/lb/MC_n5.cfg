CONSTANTS
  Servers <- S5
  Idents <- Id5
  Home <- HomeAll
  Flows <- F1
  FlowDef <- FD
  CPorts <- P1
  NPorts = 4
  W = 1
  A = 3
  M = 3
  I = 1
  B = 0
  Deltas <- D1
  OtherKinds <- NoOther
  Strict = FALSE
  ExK = 1
  D = 0
INIT Init
NEXT NextR
VIEW viewMC
INVARIANT TypeOK
INVARIANT KeyShape
INVARIANT Paired
INVARIANT OneFlowPerKey
INVARIANT SweptOnTime
INVARIANT RoundRobin
INVARIANT ProbeDeadline
INVARIANT RemovedInTime
INVARIANT LiveWasProbed
INVARIANT TimerAlive
PROPERTY ExpiredExactly
PROPERTY Sticky
PROPERTY OnlyLive
PROPERTY NoServerNothing
PROPERTY ReverseRewritten
PROPERTY ForwardOnly
PROPERTY LiveChanges
PROPERTY LeakOnly
CHECK_DEADLOCK FALSE
