---- MODULE MCLoadBalancer ----
EXTENDS LoadBalancer
\* ---- servers: order of --servers, the addresses their ARP replies may carry, where their TCP comes from
S1 == <<"s1">>
S2 == <<"s1", "s2">>
S5 == <<"s1", "s2", "s3", "s4", "s5">>
Id1   == [s1 |-> {<<"m1", 3>>}]
Id1x  == [s1 |-> {<<"m1", 3>>, <<"m1x", 4>>}]
Id2   == [s1 |-> {<<"m1", 3>>}, s2 |-> {<<"m2", 4>>}]
Id2x  == [s1 |-> {<<"m1", 3>>, <<"m1x", 4>>}, s2 |-> {<<"m2", 4>>}]
\* five servers of which only two ever answer
Id5   == [s1 |-> {<<"m1", 3>>}, s2 |-> {<<"m2", 4>>}, s3 |-> {}, s4 |-> {}, s5 |-> {}]
Id5x  == [s1 |-> {<<"m1", 3>>, <<"m1x", 4>>}, s2 |-> {<<"m2", 4>>}, s3 |-> {}, s4 |-> {}, s5 |-> {}]
HomeAll == [s1 |-> <<"m1", 3>>, s2 |-> <<"m2", 4>>, s3 |-> <<"m3", 3>>, s4 |-> <<"m4", 4>>, s5 |-> <<"m5", 4>>]
\* ---- client connections
FD == [f1 |-> [cip |-> "a", cmac |-> "ca", sp |-> 5000, dp |-> 80],
       f2 |-> [cip |-> "a", cmac |-> "ca", sp |-> 5001, dp |-> 80],
       f3 |-> [cip |-> "b", cmac |-> "cb", sp |-> 5000, dp |-> 80]]
F1 == {"f1"}
F2 == {"f1", "f2"}
F3 == {"f1", "f2", "f3"}
P1 == {1}
P12 == {1, 2}
D1 == {1}
D12 == {1, 2}
D1234 == {1, 2, 3, 4}
D3 == {3}
D2 == {2}
D23 == {2, 3}
DNat == Nat
NoOther == {}
AllOther == {"udp", "tcpx", "arpreq", "arpcli"}
SomeOther == {"udp", "tcpx"}
\* only the servers that can ever be live send TCP (exports: keeps the alphabet small)
ServerStepR == \E s \in {x \in SrvSet : Idents[x] # {}}, f \in Flows :
                 ServerFast(s, f) \/ ServerUnknown(s, f) \/ ServerKnown(s, f) \/ ServerCrash(s, f)
\* liveness of the servers and the forward path only (no TCP from servers)
NextL == Start \/ TimeStep \/ ArpStep \/ ClientStep
NextR == Start \/ TimeStep \/ ArpStep \/ ClientStep \/ ServerStepR \/ OtherStep
====
