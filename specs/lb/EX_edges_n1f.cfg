CONSTANTS
  Servers <- S1
  Idents <- Id1
  Home <- HomeAll
  Flows <- F2
  FlowDef <- FD
  CPorts <- P1
  NPorts = 4
  W = 5
  A = 3
  M = 7
  I = 2
  B = 0
  Deltas <- D3
  OtherKinds <- NoOther
  Strict = FALSE
  ExK = 1
  D = 1
INIT Init
NEXT NextR
VIEW viewMC
ACTION_CONSTRAINT ExportT
CHECK_DEADLOCK FALSE
