CONSTANTS
  Comps <- R_Comps
  Sources <- R_Sources
  Waiters <- R_Waiters
  Kind <- R_Kind
  Script <- R_Script
  Handles <- R_Handles
  DepSets <- R_DepSets
  HandlerSeqs <- R_HSeqs
  UpProgs <- R_UpProgs
  CRProg <- R_CR
  Forms = {"fresh"}
  Colls = {}
  LAs <- NoLA_R
  DropOn = FALSE
  QuitOn = FALSE
  QuitDeferred = FALSE
  DefCap = 1
  D = 0
INIT Init
NEXT Next
VIEW viewE
INVARIANT TypeOK
INVARIANT Immediate
INVARIANT WiredOK
INVARIANT LifeOK
PROPERTY ExactlyOnce
PROPERTY FiredForever
PROPERTY NeverEarly
PROPERTY LifeLogged
PROPERTY CROnce
PROPERTY DepsFixed
PROPERTY OptsFixed
INVARIANT OptsOK
CHECK_DEADLOCK FALSE
