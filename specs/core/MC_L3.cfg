CONSTANTS
  Comps <- L_Comps
  Sources <- L_Sources
  Waiters <- L_Waiters
  Kind <- L_Kind
  Script <- L_Script
  Handles <- L_Handles
  DepSets <- L_DepSets
  HandlerSeqs <- L_HSeqs3
  UpProgs <- L_UpProgs
  CRProg <- L_CR
  Forms = {"fresh"}
  Colls = {}
  LAs <- NoLA_L
  DropOn = FALSE
  QuitOn = TRUE
  QuitDeferred = TRUE
  DefCap = 0
  D = 0
INIT Init
NEXT Next
VIEW viewE
INVARIANT TypeOK
INVARIANT Immediate
INVARIANT WiredOK
INVARIANT LifeOK
PROPERTY ExactlyOnce
PROPERTY FiredForever
PROPERTY NeverEarly
PROPERTY LifeLogged
PROPERTY CROnce
PROPERTY DepsFixed
PROPERTY OptsFixed
INVARIANT OptsOK
CHECK_DEADLOCK FALSE
