CONSTANTS
  Comps <- U_Comps
  Sources <- U_Sources
  Waiters <- U_Waiters
  Kind <- U_Kind
  Script <- U_Script
  Handles <- U_Handles
  DepSets <- U_DepSets
  HandlerSeqs <- U_HSeqs
  UpProgs <- U_UpProgs
  CRProg <- U_CR
  Forms = {"fresh", "once"}
  Colls = {"k1", "k2"}
  LAs <- U_LAs
  DropOn = TRUE
  QuitOn = TRUE
  QuitDeferred = FALSE
  DefCap = 2
  D = 14
INIT Init
NEXT Next
INVARIANT Export
CHECK_DEADLOCK FALSE
