CONSTANTS
  Comps <- QA_Comps
  Sources <- QA_Sources
  Waiters <- QA_Waiters
  Kind <- QA_Kind
  Script <- QA_Script
  Handles <- QA_Handles
  DepSets <- QA_DepSets
  HandlerSeqs <- QA_HSeqs
  UpProgs <- QA_UpProgs
  CRProg <- QA_CR
  Forms = {"fresh"}
  Colls = {}
  LAs <- NoLA_QA
  DropOn = FALSE
  QuitOn = FALSE
  QuitDeferred = FALSE
  DefCap = 0
  D = 0
INIT Init
NEXT Next
VIEW viewE
INVARIANT TypeOK
INVARIANT Immediate
INVARIANT WiredOK
INVARIANT LifeOK
PROPERTY ExactlyOnce
PROPERTY FiredForever
PROPERTY NeverEarly
PROPERTY LifeLogged
PROPERTY CROnce
PROPERTY DepsFixed
PROPERTY OptsFixed
INVARIANT OptsOK
CHECK_DEADLOCK FALSE
