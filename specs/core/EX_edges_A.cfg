CONSTANTS
  Comps <- A_Comps
  Sources <- A_Sources
  Waiters <- A_Waiters
  Kind <- A_Kind
  Script <- A_Script
  Handles <- A_Handles
  DepSets <- A_DepSets
  HandlerSeqs <- A_HSeqs
  UpProgs <- A_UpProgs
  CRProg <- A_CR
  Forms = {"fresh"}
  Colls = {}
  LAs <- NoLA_A
  DropOn = FALSE
  QuitOn = TRUE
  QuitDeferred = TRUE
  DefCap = 1
  D = 0
INIT Init
NEXT Next
VIEW viewE
ACTION_CONSTRAINT ExportT
CHECK_DEADLOCK FALSE
