CONSTANTS
  Comps <- J_Comps
  Sources <- J_Sources
  Waiters <- J_Waiters
  Kind <- J_Kind
  Script <- J_Script
  Handles <- J_Handles
  DepSets <- J_DepSets
  HandlerSeqs <- J_HSeqs
  UpProgs <- J_UpProgs
  CRProg <- J_CR
  Forms = {"fresh", "once"}
  Colls = {"k1"}
  LAs <- NoLA_J
  DropOn = FALSE
  QuitOn = FALSE
  QuitDeferred = FALSE
  DefCap = 0
  D = 0
INIT Init
NEXT Next
VIEW viewE
INVARIANT TypeOK
INVARIANT Immediate
INVARIANT WiredOK
INVARIANT LifeOK
PROPERTY ExactlyOnce
PROPERTY FiredForever
PROPERTY NeverEarly
PROPERTY LifeLogged
PROPERTY CROnce
PROPERTY DepsFixed
PROPERTY OptsFixed
INVARIANT OptsOK
CHECK_DEADLOCK FALSE
