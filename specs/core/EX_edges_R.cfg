CONSTANTS
  Comps <- R_Comps
  Sources <- R_Sources
  Waiters <- R_Waiters
  Kind <- R_Kind
  Script <- R_Script
  Handles <- R_Handles
  DepSets <- R_DepSets
  HandlerSeqs <- R_HSeqs
  UpProgs <- R_UpProgs
  CRProg <- R_CR
  Forms = {"fresh"}
  Colls = {}
  LAs <- NoLA_R
  DropOn = FALSE
  QuitOn = FALSE
  QuitDeferred = FALSE
  DefCap = 1
  D = 0
INIT Init
NEXT Next
VIEW viewE
ACTION_CONSTRAINT ExportT
CHECK_DEADLOCK FALSE
