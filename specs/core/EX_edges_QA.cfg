CONSTANTS
  Comps <- QA_Comps
  Sources <- QA_Sources
  Waiters <- QA_Waiters
  Kind <- QA_Kind
  Script <- QA_Script
  Handles <- QA_Handles
  DepSets <- QA_DepSets
  HandlerSeqs <- QA_HSeqs
  UpProgs <- QA_UpProgs
  CRProg <- QA_CR
  Forms = {"fresh"}
  Colls = {}
  LAs <- NoLA_QA
  DropOn = FALSE
  QuitOn = FALSE
  QuitDeferred = FALSE
  DefCap = 0
  D = 0
INIT Init
NEXT Next
VIEW viewE
ACTION_CONSTRAINT ExportT
CHECK_DEADLOCK FALSE
