---- MODULE MCRendezvous ----
(* Constant catalogs for Rendezvous.tla.  A catalog fixes the components,  *)
(* the waiters and what each waiter's callback does; the ORDER of all       *)
(* operations and the dependency sets named are explored by TLC.            *)
EXTENDS Rendezvous

SeqsUpTo(S, n) == UNION {[1..k -> S] : k \in 0..n}
HProgs1 == {<<>>, <<OAcq>>, <<OSync>>, <<ORelPrev>>}   \* a GoingUp handler: ignore / keep a deferral / take and call one / call an earlier one
SubsetsUpTo(S, n) == {x \in SUBSET S : Cardinality(x) <= n}

\* ---- A: 3 components, plain / chaining / failing callbacks and a sink
A_Comps   == {"a", "b", "c"}
A_Sources == {"a", "c"}
A_Waiters == {"w1", "w2", "w3", "s1"}
A_Kind    == [w \in A_Waiters |-> IF w = "s1" THEN "sink" ELSE "cb"]
A_Script  == [w \in A_Waiters |->
                CASE w = "w1" -> SNone
                  [] w = "w2" -> SReg("c")
                  [] w = "w3" -> SThrow
                  [] w = "s1" -> SNone]
A_Handles == [w \in A_Waiters |-> IF w = "s1" THEN {"a", "b"} ELSE {}]   \* b raises no events
A_DepSets == SUBSET A_Comps
A_HSeqs   == {<<>>, << <<OAcq>> >>}
A_CR      == NoCR
A_UpProgs == {<<>>}

\* ---- QA / QB: the quick-tier cuts of A and B (fewer waiters / dependency sets)
QA_Comps   == A_Comps
QA_Sources == A_Sources
QA_Waiters == {"w1", "w2", "s1"}
QA_Kind    == [w \in QA_Waiters |-> A_Kind[w]]
QA_Script  == [w \in QA_Waiters |-> A_Script[w]]
QA_Handles == [w \in QA_Waiters |-> A_Handles[w]]
QA_DepSets == {{}, {"a"}, {"b"}, {"a", "b"}, {"b", "c"}}
QA_HSeqs   == {<<>>}
QA_CR      == NoCR
QA_UpProgs == {<<>>}

\* ---- B: register-then-fail, a callback that declares another waiter, a
\*         sink with two handled components whose _all_dependencies_met registers
B_Comps   == {"a", "b", "c"}
B_Sources == {"a", "b"}
B_Waiters == {"w1", "w2", "w3", "s1"}
B_Kind    == [w \in B_Waiters |-> IF w = "s1" THEN "sink" ELSE "cb"]
B_Script  == [w \in B_Waiters |->
                CASE w = "w1" -> SRegThrow("b")
                  [] w = "w2" -> SCwr("w3", {"c"})
                  [] w = "w3" -> SNone
                  [] w = "s1" -> SReg("c")]
B_Handles == [w \in B_Waiters |-> IF w = "s1" THEN {"a", "b"} ELSE {}]
B_DepSets == SUBSET B_Comps
B_HSeqs   == {<<>>, << <<OSync>> >>}
B_CR      == NoCR
B_UpProgs == {<<>>}

QB_Comps   == B_Comps
QB_Sources == B_Sources
QB_Waiters == B_Waiters
QB_Kind    == B_Kind
QB_Script  == B_Script
QB_Handles == B_Handles
QB_DepSets == {{}, {"a"}, {"c"}, {"a", "b"}}
QB_HSeqs   == {<<>>}
QB_CR      == NoCR
QB_UpProgs == {<<>>}

\* ---- L: lifecycle: every GoingUp handler script up to 2 (3) handlers, the
\*         Up handler registering a component, few waiters
L_Comps   == {"a", "b"}
L_Sources == {"a"}
L_Waiters == {"w1", "s1"}
L_Kind    == [w \in L_Waiters |-> IF w = "s1" THEN "sink" ELSE "cb"]
L_Script  == [w \in L_Waiters |-> SNone]
L_Handles == [w \in L_Waiters |-> IF w = "s1" THEN {"a"} ELSE {}]
L_DepSets == SUBSET L_Comps
L_HSeqs2  == SeqsUpTo(HProgs1, 2)
L_HSeqs3  == SeqsUpTo(HProgs1, 3)
L_CR      == NoCR
L_UpProgs == {<<>>, <<OReg("b")>>}

\* ---- R: re-entrancy: handlers of GoingUp / Up / ComponentRegistered and waiter
\*         callbacks that take, keep and call deferrals, register components
\*         and declare waiters while core is in the middle of goUp / register;
\*         an Up handler that raises
R_Comps   == {"a", "b"}
R_Sources == {"a"}
R_Waiters == {"w1", "w2", "s1"}
R_Kind    == [w \in R_Waiters |-> IF w = "s1" THEN "sink" ELSE "cb"]
R_Script  == [w \in R_Waiters |->
                CASE w = "w1" -> <<OSync>>
                  [] w = "w2" -> <<OAcq>>
                  [] w = "s1" -> <<OSync, OReg("b")>>]
R_Handles == [w \in R_Waiters |-> IF w = "s1" THEN {"a"} ELSE {}]
R_DepSets == {{}, {"a"}, {"b"}}
R_CR      == [on |-> "a", p |-> <<OSync, OCwr("w1", {"b"})>>]
R_HSeqs   == {<<>>, << <<OReg("a")>> >>, << <<OAcq>>, <<OCwr("w2", {})>> >>,
              << <<OSync, OReg("b")>>, <<ORelPrev>> >>}
R_UpProgs == {<<>>, <<OSync>>, <<OAcq>>, <<OSync, OReg("a")>>, <<OCwr("w2", {"b"}), OSync>>,
              <<ORaise>>, <<OReg("a"), ORaise>>}

\* ---- RQ: the quick-tier cut of R
RQ_Comps   == R_Comps
RQ_Sources == R_Sources
RQ_Waiters == R_Waiters
RQ_Kind    == R_Kind
RQ_Script  == R_Script
RQ_Handles == R_Handles
RQ_DepSets == {{}, {"a"}}
RQ_CR      == R_CR
RQ_HSeqs   == R_HSeqs
RQ_UpProgs == R_UpProgs

\* ---- I: how the component names are handed over: one-shot iterators and a
\*         collection the caller owns, changes after declaring through it and
\*         re-uses for further declarations; a callback that registers (nested
\*         passes over the waiters), a sink with explicit extra components
I_Comps   == {"a", "b"}
I_Sources == {"a"}
I_Waiters == {"w1", "w2", "s1"}
I_Kind    == [w \in I_Waiters |-> IF w = "s1" THEN "sink" ELSE "cb"]
I_Script  == [w \in I_Waiters |->
                CASE w = "w1" -> SReg("b")
                  [] w = "w2" -> SNone
                  [] w = "s1" -> SNone]
I_Handles == [w \in I_Waiters |-> IF w = "s1" THEN {"a"} ELSE {}]
I_DepSets == {{"a"}, {"a", "b"}}
I_HSeqs   == {}
I_CR      == NoCR
I_UpProgs == {}

\* ---- J: the thorough-tier version of I (model checking only): 3 components
J_Comps   == {"a", "b", "c"}
J_Sources == {"a"}
J_Waiters == {"w1", "w2", "s1"}
J_Kind    == [w \in J_Waiters |-> IF w = "s1" THEN "sink" ELSE "cb"]
J_Script  == [w \in J_Waiters |->
                CASE w = "w1" -> SNone
                  [] w = "w2" -> SReg("c")
                  [] w = "s1" -> SNone]
J_Handles == [w \in J_Waiters |-> IF w = "s1" THEN {"a"} ELSE {}]
J_DepSets == {{}, {"a"}, {"a", "b"}, {"b", "c"}}
J_HSeqs   == {}
J_CR      == NoCR
J_UpProgs == {}

\* ---- C: 4 components, 4 waiters (thorough), rendezvous only
C_Comps   == {"a", "b", "c", "d"}
C_Sources == {"a", "b", "d"}
C_Waiters == {"w1", "w2", "w4", "s1"}
C_Kind    == [w \in C_Waiters |-> IF w = "s1" THEN "sink" ELSE "cb"]
C_Script  == [w \in C_Waiters |->
                CASE w = "w1" -> SRegThrow("c")
                  [] w = "w2" -> SReg("d")
                  [] w = "w4" -> SCwr("w1", {"a", "d"})
                  [] w = "s1" -> SReg("b")]
C_Handles == [w \in C_Waiters |-> IF w = "s1" THEN {"a", "d"} ELSE {}]
C_DepSets == {{}, {"a"}, {"b"}, {"d"}, {"a", "b"}, {"c", "d"}}
C_HSeqs   == {<<>>}
C_CR      == [on |-> "a", p |-> <<OReg("b")>>]
C_UpProgs == {<<>>, <<OReg("c")>>}

\* ---- T: 5 components, 5 waiters: simulation and trace validation
T_Comps   == {"a", "b", "c", "d", "e"}
T_Sources == {"a", "b", "c", "e"}
T_Waiters == {"w1", "w2", "w3", "s1", "s2"}
T_Kind    == [w \in T_Waiters |-> IF w \in {"s1", "s2"} THEN "sink" ELSE "cb"]
T_Script  == [w \in T_Waiters |->
                CASE w = "w1" -> <<OSync>>
                  [] w = "w2" -> <<OReg("d"), OAcq>>
                  [] w = "w3" -> SRegThrow("e")
                  [] w = "s1" -> SNone
                  [] w = "s2" -> <<OSync, OReg("b")>>]
T_Handles == [w \in T_Waiters |-> CASE w = "s1" -> {"a", "b"} [] w = "s2" -> {"c"} [] OTHER -> {}]
T_DepSets == SUBSET T_Comps
T_HSeqs   == SeqsUpTo(HProgs1 \cup {<<OReg("a")>>, <<OSync, OReg("b")>>}, 2)
T_CR      == [on |-> "c", p |-> <<OSync, OReg("a")>>]
T_UpProgs == {<<>>, <<OReg("a")>>, <<OSync>>, <<OAcq>>, <<OSync, OReg("e")>>, <<OReg("e"), ORaise>>}

\* ---- U: 5 components, 5 waiters, callbacks declaring further waiters
U_Comps   == {"a", "b", "c", "d", "e"}
U_Sources == {"b", "d"}
U_Waiters == {"w1", "w2", "w3", "w4", "s1"}
U_Kind    == [w \in U_Waiters |-> IF w = "s1" THEN "sink" ELSE "cb"]
U_Script  == [w \in U_Waiters |->
                CASE w = "w1" -> SCwr("w2", {"a", "e"})
                  [] w = "w2" -> SReg("c")
                  [] w = "w3" -> <<OAcq, ORaise>>
                  [] w = "w4" -> SCwr("w3", {})
                  [] w = "s1" -> SReg("e")]
U_Handles == [w \in U_Waiters |-> IF w = "s1" THEN {"b", "d"} ELSE {}]
U_DepSets == SUBSET U_Comps
U_HSeqs   == {<<>>, << <<OAcq>> >>, << <<OSync>>, <<OAcq, OCwr("w3", {"a"})>> >>}
U_CR      == [on |-> "b", p |-> <<OAcq, ORaise>>]
U_UpProgs == {<<>>, <<OReg("d")>>, <<OAcq, OSync>>, <<ORaise>>}

\* ---- listen_args catalogs.  NoLAs: listen_args never given.
NoLAs(W) == [w \in W |-> {{}}]
\* for a sink handling components x and y (z: another component, "*": the None
\* key): an option given for one of them only (both ways round: the order in
\* which core wires the components is not defined), for both, for all, for all
\* with one component overriding part of it, explicitly the defaults
LAPair(x, y) ==
  {{}, {LA(x, "hi", "-")}, {LA(y, "hi", "-")}, {LA(x, "lo", "-")}, {LA(y, "lo", "n")},
   {LA(x, "-", "y")}, {LA(y, "-", "y")}, {LA(x, "hi", "y"), LA(y, "lo", "n")},
   {LA("*", "hi", "y")}, {LA("*", "lo", "-"), LA(y, "hi", "-")},
   {LA("*", "-", "y"), LA(x, "-", "n")}, {LA("*", "hi", "-"), LA(y, "-", "y")},
   {LA(x, "mid", "n"), LA(y, "mid", "y")}}

\* ---- O: listener options: a sink handling two event-raising components, one
\*         handling one of them; a callback that registers (the sinks' rendezvous
\*         then happens inside a callback); the caller dropping its sinks
O_Comps   == {"a", "b"}
O_Sources == {"a", "b"}
O_Waiters == {"w1", "s1", "s2"}
O_Kind    == [w \in O_Waiters |-> IF w = "w1" THEN "cb" ELSE "sink"]
O_Script  == [w \in O_Waiters |-> IF w = "w1" THEN SReg("b") ELSE SNone]
O_Handles == [w \in O_Waiters |-> CASE w = "s1" -> {"a", "b"} [] w = "s2" -> {"b"} [] OTHER -> {}]
O_DepSets == {{}}
O_LAs     == [w \in O_Waiters |->
                CASE w = "s1" -> LAPair("a", "b")
                  [] w = "s2" -> {{}, {LA("b", "hi", "y")}, {LA("*", "lo", "-"), LA("a", "hi", "y")}}
                  [] OTHER -> {{}}]
O_HSeqs   == {}
O_CR      == NoCR
O_UpProgs == {}

T_LAs == [w \in T_Waiters |->
            CASE w = "s1" -> LAPair("a", "b") \cup {{LA("c", "hi", "y")}, {LA("e", "lo", "y"), LA("a", "lo", "-")}}
              [] w = "s2" -> {{}, {LA("c", "lo", "y")}, {LA("*", "hi", "-"), LA("a", "lo", "y")}, {LA("d", "hi", "y")}}
              [] OTHER -> {{}}]
U_LAs == [w \in U_Waiters |-> IF w = "s1" THEN LAPair("b", "d") \cup {{LA("a", "hi", "y")}} ELSE {{}}]

NoLA_A == NoLAs(A_Waiters)
NoLA_B == NoLAs(B_Waiters)
NoLA_C == NoLAs(C_Waiters)
NoLA_I == NoLAs(I_Waiters)
NoLA_J == NoLAs(J_Waiters)
NoLA_L == NoLAs(L_Waiters)
NoLA_R == NoLAs(R_Waiters)
NoLA_QA == NoLAs(QA_Waiters)
NoLA_QB == NoLAs(QB_Waiters)
NoLA_RQ == NoLAs(RQ_Waiters)

ASSUME PrintT(<<"CAT", ToJson(Catalog)>>)
====
