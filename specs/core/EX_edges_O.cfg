CONSTANTS
  Comps <- O_Comps
  Sources <- O_Sources
  Waiters <- O_Waiters
  Kind <- O_Kind
  Script <- O_Script
  Handles <- O_Handles
  DepSets <- O_DepSets
  HandlerSeqs <- O_HSeqs
  UpProgs <- O_UpProgs
  CRProg <- O_CR
  Forms = {"fresh"}
  Colls = {}
  LAs <- O_LAs
  DropOn = TRUE
  QuitOn = FALSE
  QuitDeferred = FALSE
  DefCap = 0
  D = 0
INIT Init
NEXT Next
VIEW viewE
ACTION_CONSTRAINT ExportT
CHECK_DEADLOCK FALSE
