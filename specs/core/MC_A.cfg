CONSTANTS
  Comps <- A_Comps
  Sources <- A_Sources
  Waiters <- A_Waiters
  Kind <- A_Kind
  Script <- A_Script
  Handles <- A_Handles
  DepSets <- A_DepSets
  HandlerSeqs <- A_HSeqs
  UpRegs <- A_UpRegs
  QuitOn = TRUE
  QuitDeferred = TRUE
  DefCap = 1
  D = 0
INIT Init
NEXT Next
VIEW viewE
INVARIANT TypeOK
INVARIANT Immediate
INVARIANT WiredOK
INVARIANT LifeOK
PROPERTY ExactlyOnce
PROPERTY FiredForever
PROPERTY NeverEarly
PROPERTY LifeLogged
CHECK_DEADLOCK FALSE
