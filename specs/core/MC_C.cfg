CONSTANTS
  Comps <- C_Comps
  Sources <- C_Sources
  Waiters <- C_Waiters
  Kind <- C_Kind
  Script <- C_Script
  Handles <- C_Handles
  DepSets <- C_DepSets
  HandlerSeqs <- C_HSeqs
  UpProgs <- C_UpProgs
  CRProg <- C_CR
  Forms = {"fresh"}
  Colls = {}
  QuitOn = FALSE
  QuitDeferred = FALSE
  DefCap = 0
  D = 0
INIT Init
NEXT Next
VIEW viewE
INVARIANT TypeOK
INVARIANT Immediate
INVARIANT WiredOK
INVARIANT LifeOK
PROPERTY ExactlyOnce
PROPERTY FiredForever
PROPERTY NeverEarly
PROPERTY LifeLogged
PROPERTY CROnce
PROPERTY DepsFixed
CHECK_DEADLOCK FALSE
