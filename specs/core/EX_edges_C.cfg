CONSTANTS
  Comps <- C_Comps
  Sources <- C_Sources
  Waiters <- C_Waiters
  Kind <- C_Kind
  Script <- C_Script
  Handles <- C_Handles
  DepSets <- C_DepSets
  HandlerSeqs <- C_HSeqs
  UpProgs <- C_UpProgs
  CRProg <- C_CR
  Forms = {"fresh"}
  Colls = {}
  LAs <- NoLA_C
  DropOn = FALSE
  QuitOn = FALSE
  QuitDeferred = FALSE
  DefCap = 0
  D = 0
INIT Init
NEXT Next
VIEW viewE
ACTION_CONSTRAINT ExportT
CHECK_DEADLOCK FALSE
