CONSTANTS
  Comps <- RQ_Comps
  Sources <- RQ_Sources
  Waiters <- RQ_Waiters
  Kind <- RQ_Kind
  Script <- RQ_Script
  Handles <- RQ_Handles
  DepSets <- RQ_DepSets
  HandlerSeqs <- RQ_HSeqs
  UpProgs <- RQ_UpProgs
  CRProg <- RQ_CR
  Forms = {"fresh"}
  Colls = {}
  LAs <- NoLA_RQ
  DropOn = FALSE
  QuitOn = FALSE
  QuitDeferred = FALSE
  DefCap = 1
  D = 0
INIT Init
NEXT Next
VIEW viewE
INVARIANT TypeOK
INVARIANT Immediate
INVARIANT WiredOK
INVARIANT LifeOK
PROPERTY ExactlyOnce
PROPERTY FiredForever
PROPERTY NeverEarly
PROPERTY LifeLogged
PROPERTY CROnce
PROPERTY DepsFixed
PROPERTY OptsFixed
INVARIANT OptsOK
CHECK_DEADLOCK FALSE
