CONSTANTS
  Comps <- U_Comps
  Sources <- U_Sources
  Waiters <- U_Waiters
  Kind <- U_Kind
  Script <- U_Script
  Handles <- U_Handles
  DepSets <- U_DepSets
  HandlerSeqs <- U_HSeqs
  UpProgs <- U_UpProgs
  CRProg <- U_CR
  Forms = {"fresh", "once"}
  Colls = {"k1", "k2"}
  LAs <- U_LAs
  DropOn = TRUE
  QuitOn = TRUE
  QuitDeferred = TRUE
  DefCap = 4
  D = 0
INIT TrInit
NEXT TrNext
CONSTRAINT Progress
POSTCONDITION Accepted
INVARIANT TypeOK
INVARIANT Immediate
INVARIANT WiredOK
INVARIANT LifeOK
INVARIANT OptsOK
CHECK_DEADLOCK FALSE
