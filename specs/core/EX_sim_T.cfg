CONSTANTS
  Comps <- T_Comps
  Sources <- T_Sources
  Waiters <- T_Waiters
  Kind <- T_Kind
  Script <- T_Script
  Handles <- T_Handles
  DepSets <- T_DepSets
  HandlerSeqs <- T_HSeqs
  UpRegs <- T_UpRegs
  QuitOn = TRUE
  QuitDeferred = FALSE
  DefCap = 3
  D = 14
INIT Init
NEXT Next
INVARIANT Export
CHECK_DEADLOCK FALSE
