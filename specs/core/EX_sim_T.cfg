CONSTANTS
  Comps <- T_Comps
  Sources <- T_Sources
  Waiters <- T_Waiters
  Kind <- T_Kind
  Script <- T_Script
  Handles <- T_Handles
  DepSets <- T_DepSets
  HandlerSeqs <- T_HSeqs
  UpProgs <- T_UpProgs
  CRProg <- T_CR
  Forms = {"fresh", "once"}
  Colls = {"k1", "k2"}
  LAs <- T_LAs
  DropOn = TRUE
  QuitOn = TRUE
  QuitDeferred = FALSE
  DefCap = 2
  D = 14
INIT Init
NEXT Next
INVARIANT Export
CHECK_DEADLOCK FALSE
