---------------------------- MODULE Rendezvous ----------------------------
(* C08: component rendezvous and lifecycle of pox.core.POXCore.             *)
(*                                                                          *)
(* Abstract state: the registry (set of component names), the waiters       *)
(* (call_when_ready callbacks and listen_to_dependencies sinks: new /       *)
(* pending with a dependency set / fired), the listener wiring and          *)
(* attributes a fired sink has received, the lifecycle events raised so     *)
(* far and the outstanding GoingUp deferrals.  Callbacks and the handlers  *)
(* of GoingUp / Up / ComponentRegistered run small PROGRAMS re-entrantly     *)
(* (take / call deferrals, register, call_when_ready, raise).               *)
(*                                                                          *)
(* HOW the components a waiter names are handed over is a dimension of a    *)
(* declaration (f): a collection made for this call ("fresh"), a one-shot   *)
(* iterator ("once": generator, map, ...), or a mutable collection k the    *)
(* CALLER owns, keeps and may change or re-use afterwards (variable coll,   *)
(* action Mutate).  The waiter names what the collection holds WHEN IT IS   *)
(* DECLARED: no form may make a difference, and nothing the caller does to  *)
(* its collection later changes a declared dependency set (DepsFixed).      *)
(*                                                                          *)
(* One action per PUBLIC call made from outside core (register,             *)
(* call_when_ready, listen_to_dependencies, goUp, a deferral being obtained *)
(* or called, quit).  What happens INSIDE such a call - which ready waiter  *)
(* is invoked first, whether a registration made by a callback fires its    *)
(* dependents                                                               *)
(* nested or from the outer loop - is latitude the property leaves open:    *)
(* Settle computes EVERY order in which ready waiters can be fired, and the *)
(* action's expectation is the SET of callback logs (exp.logs).  The final  *)
(* state is the same for all orders (checked: Assert "confluence").  What   *)
(* is not latitude: each waiter fires exactly once, only when all its       *)
(* dependencies are registered, and before the public call returns that     *)
(* made them so (invariant Immediate).                                      *)
(*                                                                          *)
(* A callback log entry is [k, n, s]: k = "fire" (n = waiter, s = registry  *)
(* contents seen by the callback) or "life" (n = lifecycle event, s =       *)
(* registry contents seen by its handler).                                  *)
EXTENDS Naturals, Sequences, FiniteSets, TLC, Json

CONSTANTS Comps,        \* component names
          Sources,      \* components whose object raises events (has _eventMixin_events)
          Waiters,      \* waiter identifiers
          Kind,         \* [Waiters -> {"cb", "sink"}]
          Script,       \* [Waiters -> program run by the callback / _all_dependencies_met]
          Handles,      \* [Waiters -> SUBSET Comps]: c such that the sink has _handle_<c>_Ev
          DepSets,      \* dependency sets a declaration may name (explicit ones for sinks)
          Forms,        \* how a declaration hands over these names: "fresh" (a collection made
                        \* for this call), "once" (a one-shot iterator)
          Colls,        \* mutable collections the caller owns and may also declare through
          HandlerSeqs,  \* explored GoingUp handler lists: sequences of programs
          UpProgs,      \* explored programs of the Up handler
          CRProg,       \* [on, p]: program p run by a ComponentRegistered handler when
                        \* component `on` is first registered ("none": no such handler)
          LAs,          \* [Waiters -> set of listen_args a sink's declaration may give]: a
                        \* listen_args is a set of entries [c, p, w]: for component c (or "*":
                        \* the None key = every component) priority class p ("hi"/"mid"/"lo",
                        \* "-" = not given) and weak w ("y"/"n", "-" = not given)
          DropOn,       \* whether the caller dropping its reference to a sink is explored
          QuitOn,       \* whether quit() is explored in this configuration
          QuitDeferred, \* whether quit() is explored while going up is still deferred
          DefCap,       \* how many deferrals are obtained from outside handlers after goUp()
          D             \* export depth (simulation)

\* ---- handler programs: what a callback / event handler does, RE-ENTRANTLY,
\* while core is in the middle of register() / goUp() / a deferral call.
\* A program is a sequence of operations [k, c, w, d]:
\*   acq     take a go-up deferral and keep it (called later by Release(owner))
\*   sync    take a go-up deferral and call it at once
\*   relprev (GoingUp handlers) call the deferral kept by the nearest earlier handler
\*   reg     core.register(c)
\*   cwr     core.call_when_ready(w, d) unless w was declared already
\*   raise   raise an exception (ends the program)
Op(k, c, w, d) == [k |-> k, c |-> c, w |-> w, d |-> d]
OAcq       == Op("acq", "-", "-", {})
OSync      == Op("sync", "-", "-", {})
ORelPrev   == Op("relprev", "-", "-", {})
OReg(c)    == Op("reg", c, "-", {})
OCwr(w, d) == Op("cwr", "-", w, d)
ORaise     == Op("raise", "-", "-", {})
\* the callback scripts of the rendezvous catalogs
SNone        == <<>>
SThrow       == <<ORaise>>
SReg(c)      == <<OReg(c)>>
SRegThrow(c) == <<OReg(c), ORaise>>
SCwr(w, d)   == <<OCwr(w, d)>>
NoCR         == [on |-> "none", p |-> <<>>]

\* a kept deferral is named after who took it: GoingUp handler i ("g1".."g3"),
\* the Up handler ("up"), the ComponentRegistered handler ("cr"), a waiter
\* (its id), or a caller outside any handler after goUp() ("l1".."l4")
GName(i) == CASE i = 1 -> "g1" [] i = 2 -> "g2" [] OTHER -> "g3"
LName(i) == CASE i = 1 -> "l1" [] i = 2 -> "l2" [] i = 3 -> "l3" [] OTHER -> "l4"
GNames == {GName(i) : i \in 1..3}
LNames == {LName(i) : i \in 1..4}
Owners == GNames \cup LNames \cup {"up", "cr"} \cup Waiters

VARIABLES comps,    \* registered component names
          wst,      \* [Waiters -> {"new","pending","fired"}]
          wdeps,    \* [Waiters -> SUBSET Comps] dependencies of a pending waiter ({} otherwise)
          wform,    \* [Waiters -> form]: how a pending waiter's dependencies were handed over
                    \* ("fresh", "once", or the caller's collection; "-" when not pending)
          coll,     \* [Colls -> SUBSET Comps]: what each caller-owned collection holds now
          wired,    \* {<<sink, c>>}: an event raised by component c reaches the sink's handler
          attrs,    \* {<<sink, c>>}: sink._c_ has been set
          wla,      \* [Waiters -> listen_args]: the options a sink was declared with
          dropped,  \* sinks the caller no longer holds a reference to
          crdone,   \* the ComponentRegistered handler's program has run
          life,     \* sequence of lifecycle events raised so far
          defs,     \* owners of the outstanding deferrals (Up waits for them)
          handed,   \* owners of all kept deferrals handed out so far
          upprog,   \* program of the Up handler
          last,     \* observation of the last action
          hist      \* all observations (export only; hidden by VIEW)
nocoll == <<comps, wst, wdeps, wform, wired, attrs, crdone>>
opts  == <<wla, dropped>>
rvars == <<nocoll, coll, opts>>
lvars == <<life, defs, handed, upprog>>
vars  == <<rvars, lvars, last, hist>>
view  == <<rvars, lvars, last>>
viewE == <<rvars, lvars>>

MinOf(S) == CHOOSE x \in S : \A y \in S : x <= y
InSeq(e, s) == \E i \in DOMAIN s : s[i] = e

Fire_(w, cs)  == [k |-> "fire", n |-> w, s |-> cs]
Life_(ev, cs) == [k |-> "life", n |-> ev, s |-> cs]
CR_(c, cs)    == [k |-> "cr", n |-> c, s |-> cs]

NoObs == [a |-> "Init", args |-> [x |-> 0], exp |-> [x |-> 0]]

Init == /\ comps = {} /\ wst = [w \in Waiters |-> "new"]
        /\ wdeps = [w \in Waiters |-> {}]
        /\ wform = [w \in Waiters |-> "-"]
        /\ coll = [k \in Colls |-> {}]
        /\ wired = {} /\ attrs = {} /\ crdone = FALSE
        /\ wla = [w \in Waiters |-> {}] /\ dropped = {}
        /\ life = <<>> /\ defs = {} /\ handed = {} /\ upprog = <<>>
        /\ last = NoObs /\ hist = <<>>

Log(a, args, exp) ==
  /\ last' = [a |-> a, args |-> args, exp |-> exp]
  /\ hist' = Append(hist, [a |-> a, args |-> args, exp |-> exp])

----------------------------------------------------------------------------
(* The state inside a public call: x = [c, st, dp, fm, wr, at, crd, crp, lf,  *)
(* df, hd, lg]; crp = the ComponentRegistered program is due, lg = callback  *)
(* log.                                                                      *)

Base == [c |-> comps, st |-> wst, dp |-> wdeps, fm |-> wform, wr |-> wired, at |-> attrs,
         crd |-> crdone, crp |-> FALSE, lf |-> life, df |-> defs, hd |-> handed,
         lg |-> <<>>]

RegIn(x, c) == [x EXCEPT !.c = @ \cup {c},
                         !.crp = @ \/ (CRProg.on = c /\ ~x.crd)]

\* one operation of a program run by `owner`.  A deferral taken once Up has
\* been raised defers nothing (it is handed out but not outstanding); "sync"
\* never changes anything: whatever is outstanding is still outstanding, and
\* when nothing is, either start-up has not begun, or Up is being / has been
\* raised already.
GIdx(o) == CHOOSE i \in 1..3 : GName(i) = o
ApplyOp(x, op, owner) ==
  CASE op.k = "reg" -> RegIn(x, op.c)
    [] op.k = "cwr" -> IF x.st[op.w] = "new"
                       THEN [x EXCEPT !.st[op.w] = "pending", !.dp[op.w] = op.d,
                                      !.fm[op.w] = "fresh"]
                       ELSE x
    [] op.k = "acq" -> [x EXCEPT !.hd = @ \cup {owner},
                                 !.df = IF InSeq("Up", x.lf) THEN @ ELSE @ \cup {owner}]
    [] op.k = "relprev" ->
         LET cs == {i \in 1..3 : GName(i) \in x.df /\ owner \in GNames /\ i < GIdx(owner)}
         IN IF cs = {} THEN x ELSE [x EXCEPT !.df = @ \ {GName(MinOf(cs))}]
    [] OTHER -> x

\* a program run by a waiter callback or the ComponentRegistered handler:
\* whatever it makes ready fires nested or later in the same public call
RECURSIVE RunProg(_, _, _)
RunProg(x, p, o) ==
  IF p = <<>> \/ Head(p).k = "raise" THEN x
  ELSE RunProg(ApplyOp(x, Head(p), o), Tail(p), o)

Ready(x) == {w \in Waiters : x.st[w] = "pending" /\ x.dp[w] \subseteq x.c}

Fire(x, w) ==
  LET sk == Kind[w] = "sink"
      x1 == [x EXCEPT !.st[w] = "fired", !.dp[w] = {}, !.fm[w] = "-",
                      !.lg = Append(@, Fire_(w, x.c)),
                      !.wr = IF sk THEN @ \cup {<<w, c>> : c \in (Handles[w] \cap Sources)} ELSE @,
                      !.at = IF sk THEN @ \cup {<<w, c>> : c \in x.dp[w]} ELSE @]
  IN RunProg(x1, Script[w], w)

RunCR(x) ==
  RunProg([x EXCEPT !.crp = FALSE, !.crd = TRUE, !.lg = Append(@, CR_(CRProg.on, x.c))],
          CRProg.p, "cr")

\* every way of firing ready waiters (and the due ComponentRegistered program)
\* until nothing is left
RECURSIVE Settle(_)
Settle(x) ==
  IF Ready(x) = {} /\ ~x.crp THEN {x}
  ELSE UNION ({Settle(Fire(x, w)) : w \in Ready(x)}
              \cup (IF x.crp THEN {Settle(RunCR(x))} ELSE {}))

\* a program run by a GoingUp / Up handler: these handlers run one after the
\* other, and what one operation makes ready has fired before the next one
RECURSIVE SeqProg(_, _, _)
SeqProg(X, p, o) ==
  IF p = <<>> \/ Head(p).k = "raise" THEN X
  ELSE SeqProg(UNION {Settle(ApplyOp(x, Head(p), o)) : x \in X}, Tail(p), o)

RECURSIVE SeqHandlers(_, _, _)
SeqHandlers(X, hs, i) ==
  IF i > Len(hs) THEN X ELSE SeqHandlers(SeqProg(X, hs[i], GName(i)), hs, i + 1)

\* Up is raised: its handler sees the registry, then runs its program
UpStep(X, up) ==
  SeqProg({[x EXCEPT !.lf = Append(@, "Up"), !.lg = Append(@, Life_("Up", x.c))] : x \in X},
          up, "up")

NoLog(x) == [x EXCEPT !.lg = <<>>]

\* ---- listener options (listen_args of listen_to_dependencies).  The listeners
\* of a sink on component c are subscribed with the options given for c: the
\* entry for c itself, what it leaves out taken from the entry for every
\* component ("*"), what that leaves out being the default (priority 0 = "mid",
\* a strong subscription).  Nothing given for one component says anything
\* about another.
LA(c, p, w) == [c |-> c, p |-> p, w |-> w]
OptOf(la, c, fld, dflt) ==
  LET own == {e \in la : e.c = c /\ e[fld] # "-"}
      all == {e \in la : e.c = "*" /\ e[fld] # "-"}
  IN IF own # {} THEN (CHOOSE e \in own : TRUE)[fld]
     ELSE IF all # {} THEN (CHOOSE e \in all : TRUE)[fld] ELSE dflt
EffP(la, c) == OptOf(la, c, "p", "mid")
EffW(la, c) == OptOf(la, c, "w", "n")
\* A sink the caller dropped lives on while core still waits for its components
\* and, afterwards, as long as one of its subscriptions is a strong one; once it
\* is gone so are its (then all weak) subscriptions.
AliveIn(s, st, wr, la, nd) ==
  \/ s \notin nd \/ st[s] = "pending"
  \/ \E c \in Comps : <<s, c>> \in wr /\ EffW(la[s], c) = "n"
\* what can be observed of the wiring: an event raised by c reaches the sink's
\* handler, before ("hi") / between ("mid") / after ("lo") two reference
\* listeners of known priority on c
WiredObs(st, wr, la, nd) ==
  {<<q[1], q[2], EffP(la[q[1]], q[2])>> : q \in {r \in wr : AliveIn(r[1], st, wr, la, nd)}}

CommitX(a, args, outs, nla, nd) ==
  LET fin == CHOOSE o \in outs : TRUE IN
  /\ Assert(\A o \in outs : NoLog(o) = NoLog(fin), "confluence")
  /\ Assert(~fin.crp, "ComponentRegistered program left over")
  /\ comps' = fin.c /\ wst' = fin.st /\ wdeps' = fin.dp /\ wform' = fin.fm
  /\ wired' = fin.wr /\ attrs' = fin.at /\ crdone' = fin.crd
  /\ life' = fin.lf /\ defs' = fin.df /\ handed' = fin.hd
  /\ wla' = nla /\ dropped' = nd
  /\ Log(a, args, [logs |-> {o.lg : o \in outs}, comps |-> fin.c,
                   wired |-> WiredObs(fin.st, fin.wr, nla, nd),
                   attrs |-> {q \in fin.at : q[1] \notin nd}])
Commit(a, args, outs) == CommitX(a, args, outs, wla, dropped)

----------------------------------------------------------------------------
(* Rendezvous operations                                                     *)

Register(c) ==
  /\ Commit("Register", [c |-> c], Settle(RegIn(Base, c)))
  /\ UNCHANGED <<upprog, coll>>

\* the names d are handed over in form f: through a collection of the caller's
\* they are what that collection holds at this moment
FormOK(f, d) == f \in Forms \/ (f \in Colls /\ d = coll[f])

CallWhenReady(w, d, f) ==
  /\ Kind[w] = "cb" /\ wst[w] = "new" /\ FormOK(f, d)
  /\ Commit("CallWhenReady", [w |-> w, deps |-> d, f |-> f],
            Settle([Base EXCEPT !.st[w] = "pending", !.dp[w] = d, !.fm[w] = f]))
  /\ UNCHANGED <<upprog, coll>>

\* dependencies = components named by the sink's handlers + explicit ones
\* la = the listen_args given (options for the listeners wired later)
ListenTo(s, e, f, la) ==
  /\ Kind[s] = "sink" /\ wst[s] = "new" /\ FormOK(f, e)
  /\ CommitX("ListenTo", [w |-> s, deps |-> e, f |-> f, la |-> la],
             Settle([Base EXCEPT !.st[s] = "pending", !.dp[s] = Handles[s] \cup e,
                                 !.fm[s] = f]),
             [wla EXCEPT ![s] = la], dropped)
  /\ UNCHANGED <<upprog, coll>>

\* the caller drops its last reference to a sink it has declared.  No call into
\* core is made: nothing fires; what remains wired is what strong subscriptions
\* (or core's pending entry) keep alive.
Drop(s) ==
  /\ DropOn /\ Kind[s] = "sink" /\ wst[s] # "new" /\ s \notin dropped
  /\ CommitX("Drop", [w |-> s], {Base}, wla, dropped \cup {s})
  /\ UNCHANGED <<upprog, coll>>

\* the caller changes a collection of its own (o = "add" / "del" of name c) -
\* possibly one it has declared waiters through.  No call into core is made:
\* nothing fires, and no declared dependency set changes.
Mutate(k, o, c) ==
  /\ k \in Colls /\ c \in Comps
  /\ \/ o = "add" /\ c \notin coll[k] /\ coll' = [coll EXCEPT ![k] = @ \cup {c}]
     \/ o = "del" /\ c \in coll[k] /\ coll' = [coll EXCEPT ![k] = @ \ {c}]
  /\ Commit("Mutate", [f |-> k, o |-> o, c |-> c], {Base})
  /\ UNCHANGED upprog

----------------------------------------------------------------------------
(* Lifecycle                                                                 *)

\* goUp(): the GoingUp handlers run their programs in order (an observer that
\* is subscribed last then logs GoingUp); Up follows at once iff no deferral is
\* outstanding
GoUp(hs, up) ==
  /\ life = <<>>
  /\ upprog' = up /\ UNCHANGED coll
  /\ LET X1 == SeqHandlers({[Base EXCEPT !.lf = <<"GoingUp">>]}, hs, 1)
         X2 == {[x EXCEPT !.lg = Append(@, Life_("GoingUp", x.c))] : x \in X1}
         one == CHOOSE x \in X2 : TRUE
     IN Commit("GoUp", [hs |-> hs, up |-> up],
               IF one.df = {} THEN UpStep(X2, up) ELSE X2)

\* a deferral is obtained outside any handler after goUp() returned (from the
\* kept GoingUp event)
NLate == Cardinality(handed \cap LNames)
GetDeferral ==
  /\ InSeq("GoingUp", life) /\ NLate < DefCap /\ NLate < 4
  /\ UNCHANGED <<upprog, coll>>
  /\ Commit("GetDeferral", [x |-> 0], {ApplyOp(Base, OAcq, LName(NLate + 1))})

\* the deferral kept by `o` is called (again, if it is no longer outstanding).
\* Before goUp() this only means that goUp() need not wait for it.
Release(o) ==
  /\ o \in handed
  /\ UNCHANGED <<upprog, coll>>
  /\ IF o \notin defs
     THEN Commit("Release", [o |-> o], {Base})
     ELSE LET x0 == [Base EXCEPT !.df = @ \ {o}] IN
          IF x0.df = {} /\ InSeq("GoingUp", life) /\ ~InSeq("Up", life)
          THEN \/ Commit("Release", [o |-> o], UpStep({x0}, upprog))
               \/ \* the system was shut down while going up was deferred:
                  \* the property does not say whether Up is still raised
                  /\ InSeq("GoingDown", life)
                  /\ Commit("Release", [o |-> o], {x0})
          ELSE Commit("Release", [o |-> o], {x0})

\* core.quit(); re: a GoingDown handler calls core.quit() again
Quit(re) ==
  /\ QuitOn
  /\ InSeq("GoingUp", life)
  /\ (QuitDeferred \/ defs = {} \/ InSeq("GoingDown", life))
  /\ UNCHANGED <<upprog, coll>>
  /\ IF InSeq("GoingDown", life)
     THEN Commit("Quit", [re |-> re], {Base})
     ELSE Commit("Quit", [re |-> re],
                 {[Base EXCEPT !.lf = @ \o <<"GoingDown", "Down">>,
                               !.lg = <<Life_("GoingDown", comps), Life_("Down", comps)>>]})

\* non-trivial listen_args are explored with at most one explicit component
LASel(s, e) == IF Cardinality(e) <= 1 THEN LAs[s] ELSE {{}}
Next == \/ \E c \in Comps : Register(c)
        \/ \E w \in Waiters, d \in DepSets, f \in Forms : CallWhenReady(w, d, f)
        \/ \E w \in Waiters, k \in Colls : CallWhenReady(w, coll[k], k)
        \/ \E s \in Waiters, e \in DepSets, f \in Forms : \E la \in LASel(s, e) : ListenTo(s, e, f, la)
        \/ \E s \in Waiters, k \in Colls : \E la \in LASel(s, coll[k]) : ListenTo(s, coll[k], k, la)
        \/ \E s \in Waiters : Drop(s)
        \/ \E k \in Colls, o \in {"add", "del"}, c \in Comps : Mutate(k, o, c)
        \/ \E hs \in HandlerSeqs, up \in UpProgs : GoUp(hs, up)
        \/ GetDeferral
        \/ \E o \in Owners : Release(o)
        \/ \E re \in BOOLEAN : Quit(re)

Spec == Init /\ [][Next]_vars

----------------------------------------------------------------------------
(* The property, over the real variables (and the log of the last action).  *)

States == {"new", "pending", "fired"}
LifeEvents == {"GoingUp", "Up", "GoingDown", "Down"}

TypeOK == /\ comps \subseteq Comps
          /\ wst \in [Waiters -> States]
          /\ wdeps \in [Waiters -> SUBSET Comps]
          /\ wform \in [Waiters -> {"-", "fresh", "once"} \cup Colls]
          /\ \A w \in Waiters : (wform[w] = "-") = (wst[w] # "pending")
          /\ coll \in [Colls -> SUBSET Comps]
          /\ dropped \subseteq {w \in Waiters : Kind[w] = "sink" /\ wst[w] # "new"}
          /\ \A w \in Waiters : \A e \in wla[w] : e.c \in Comps \cup {"*"}
                 /\ e.p \in {"hi", "mid", "lo", "-"} /\ e.w \in {"y", "n", "-"}
          /\ \A w \in Waiters : wla[w] # {} => (Kind[w] = "sink" /\ wst[w] # "new")
          /\ wired \subseteq (Waiters \X Comps) /\ attrs \subseteq (Waiters \X Comps)
          /\ crdone \in BOOLEAN
          /\ defs \subseteq handed /\ handed \subseteq Owners
          /\ \A i \in DOMAIN life : life[i] \in LifeEvents

\* "immediately once they are": when a public call returns no waiter is left
\* whose components are all registered
Immediate == \A w \in Waiters : wst[w] = "pending" => ~(wdeps[w] \subseteq comps)

\* listeners / attributes exist exactly for the sinks whose rendezvous happened
Sinks == {w \in Waiters : Kind[w] = "sink"}
WiredOK == /\ wired = {<<s, c>> \in Sinks \X Comps :
                          wst[s] = "fired" /\ c \in Handles[s] \cap Sources}
           /\ \A p \in attrs : wst[p[1]] = "fired" /\ p[2] \in comps
           /\ \A s \in Sinks : wst[s] = "fired" => \A c \in Handles[s] : <<s, c>> \in attrs

\* each lifecycle event at most once, going-up before up, up only with no
\* deferral outstanding and then at once (unless a quit overtook it),
\* going-down directly followed by down
Pos(ev) == CHOOSE i \in DOMAIN life : life[i] = ev
LifeOK ==
  /\ \A i, j \in DOMAIN life : i # j => life[i] # life[j]
  /\ life # <<>> => life[1] = "GoingUp"
  /\ InSeq("Up", life) => defs = {}
  /\ (InSeq("GoingUp", life) /\ defs = {} /\ ~InSeq("Up", life)) => InSeq("GoingDown", life)
  /\ InSeq("GoingDown", life) => /\ InSeq("Down", life)
                                 /\ Pos("Down") = Pos("GoingDown") + 1

\* ---- action properties: what the log of one public call may contain
Logs == IF "logs" \in DOMAIN last'.exp THEN last'.exp.logs ELSE {}
FiresOf(lg, w) == {i \in DOMAIN lg : lg[i].k = "fire" /\ lg[i].n = w}
LifeOf(lg) == SelectSeq(lg, LAMBDA e : e.k = "life")
OpsOf(p) == {p[i] : i \in DOMAIN p}

\* dependency sets a waiter fired by this call may have been declared with
DeclDeps(w) ==
  IF wst[w] = "pending" THEN {wdeps[w]}
  ELSE IF last'.a = "CallWhenReady" /\ last'.args.w = w THEN {last'.args.deps}
  ELSE IF last'.a = "ListenTo" /\ last'.args.w = w THEN {Handles[w] \cup last'.args.deps}
  ELSE LET ops == UNION {OpsOf(Script[v]) : v \in Waiters} \cup OpsOf(CRProg.p)
                    \cup OpsOf(upprog')
                    \cup (IF last'.a = "GoUp"
                          THEN UNION {OpsOf(last'.args.hs[i]) : i \in DOMAIN last'.args.hs}
                          ELSE {})
       IN {op.d : op \in {q \in ops : q.k = "cwr" /\ q.w = w}}

\* exactly once: a waiter is invoked by a call iff it becomes fired in it, once
ExactlyOnce ==
  [][\A w \in Waiters, lg \in Logs :
        Cardinality(FiresOf(lg, w)) =
          IF wst[w] # "fired" /\ wst'[w] = "fired" THEN 1 ELSE 0]_vars
FiredForever == [][\A w \in Waiters : wst[w] = "fired" => wst'[w] = "fired"]_vars

\* never early: the callback sees all of its components registered; what it
\* sees is what is registered at that moment (grows from comps to comps')
NeverEarly ==
  [][\A lg \in Logs : \A i \in DOMAIN lg :
        /\ comps \subseteq lg[i].s /\ lg[i].s \subseteq comps'
        /\ (i > 1 => lg[i - 1].s \subseteq lg[i].s)
        /\ (lg[i].k = "fire" => \E d \in DeclDeps(lg[i].n) : d \subseteq lg[i].s)]_vars

\* the components a waiter names are those handed over when it was declared:
\* while it is pending neither they nor the form change, whatever the caller
\* does with its collection afterwards; only the caller changes a collection
DepsFixed ==
  [][/\ \A w \in Waiters : (wst[w] = "pending" /\ wst'[w] = "pending")
                              => (wdeps'[w] = wdeps[w] /\ wform'[w] = wform[w])
     /\ \A k \in Colls : coll'[k] # coll[k] => (last'.a = "Mutate" /\ last'.args.f = k)
     /\ last'.a = "Mutate" => (nocoll' = nocoll /\ lvars' = lvars /\ Logs = {<<>>})]_vars

\* the options a sink's listeners get are those given when it was declared, for
\* each component its own: they never change afterwards, a dropped sink stays
\* dropped, and what a call shows of the wiring (last.exp.wired) is, for every
\* sink that is still alive, each of its listeners at the place its OWN
\* component's priority puts it - whatever was given for other components
OptsFixed ==
  [][/\ \A w \in Waiters : wst[w] # "new" => wla'[w] = wla[w]
     /\ dropped \subseteq dropped'
     /\ (dropped' # dropped => last'.a = "Drop" /\ nocoll' = nocoll /\ lvars' = lvars)]_vars
OwnOpt(la, c, fld) == {e[fld] : e \in {x \in la : x.c = c /\ x[fld] # "-"}}
OptsOK ==
  "wired" \in DOMAIN last.exp =>
    /\ \A t \in last.exp.wired :
         /\ <<t[1], t[2]>> \in wired
         /\ OwnOpt(wla[t[1]], t[2], "p") # {} => t[3] \in OwnOpt(wla[t[1]], t[2], "p")
         /\ (OwnOpt(wla[t[1]], t[2], "p") = {} /\ OwnOpt(wla[t[1]], "*", "p") = {}) => t[3] = "mid"
    /\ \A q \in wired :
         (\E t \in last.exp.wired : t[1] = q[1] /\ t[2] = q[2])
           <=> (\/ q[1] \notin dropped \/ wst[q[1]] = "pending"
                \/ \E r \in wired : r[1] = q[1] /\
                      LET o == OwnOpt(wla[q[1]], r[2], "w") \cup
                               (IF OwnOpt(wla[q[1]], r[2], "w") = {} THEN OwnOpt(wla[q[1]], "*", "w") ELSE {})
                      IN "y" \notin o)

\* the lifecycle events a call raises are exactly those appended to life:
\* GoingUp once, Up exactly once, whatever the handlers do re-entrantly
LifeLogged ==
  [][\A lg \in Logs :
       /\ Len(life') >= Len(life) /\ SubSeq(life', 1, Len(life)) = life
       /\ [i \in 1..Len(LifeOf(lg)) |-> LifeOf(lg)[i].n] =
            SubSeq(life', Len(life) + 1, Len(life'))]_vars

\* the ComponentRegistered program runs at most once, never before its component
CROnce ==
  [][\A lg \in Logs :
       LET cr == {i \in DOMAIN lg : lg[i].k = "cr"} IN
       /\ Cardinality(cr) = IF ~crdone /\ crdone' THEN 1 ELSE 0
       /\ \A i \in cr : lg[i].n \in lg[i].s]_vars

\* a failing callback changes nothing for the others: covered by Immediate
\* (programs ending in "raise" are fired like any other)

\* ---- export for the replay harness
Catalog == [comps |-> Comps, sources |-> Sources, kind |-> Kind, script |-> Script,
            handles |-> Handles, cr |-> CRProg, forms |-> Forms, colls |-> Colls,
            drop |-> DropOn]
Bound   == Len(hist) <= D
Export  == (Len(hist) = D) => PrintT(<<"H", ToJson(hist)>>)
ExportT == PrintT(<<"T", ToJson(hist')>>)
=============================================================================
