---------------------------- MODULE Rendezvous ----------------------------
(* C08: component rendezvous and lifecycle of pox.core.POXCore.             *)
(*                                                                          *)
(* Abstract state: the registry (set of component names), the waiters       *)
(* (call_when_ready callbacks and listen_to_dependencies sinks: new /       *)
(* pending with a dependency set / fired), the listener wiring and          *)
(* attributes a fired sink has received, the lifecycle events raised so     *)
(* far and the outstanding GoingUp deferrals.                               *)
(*                                                                          *)
(* One action per PUBLIC call made from outside core (register,             *)
(* call_when_ready, listen_to_dependencies, goUp, a deferral being obtained *)
(* or called, quit).  What happens INSIDE such a call - which ready waiter  *)
(* is invoked first, whether a registration made by a callback fires its    *)
(* dependents                                                               *)
(* nested or from the outer loop - is latitude the property leaves open:    *)
(* Settle computes EVERY order in which ready waiters can be fired, and the *)
(* action's expectation is the SET of callback logs (exp.logs).  The final  *)
(* state is the same for all orders (checked: Assert "confluence").  What   *)
(* is not latitude: each waiter fires exactly once, only when all its       *)
(* dependencies are registered, and before the public call returns that     *)
(* made them so (invariant Immediate).                                      *)
(*                                                                          *)
(* A callback log entry is [k, n, s]: k = "fire" (n = waiter, s = registry  *)
(* contents seen by the callback) or "life" (n = lifecycle event, s =       *)
(* registry contents seen by its handler).                                  *)
EXTENDS Naturals, Sequences, FiniteSets, TLC, Json

CONSTANTS Comps,        \* component names
          Sources,      \* components whose object raises events (has _eventMixin_events)
          Waiters,      \* waiter identifiers
          Kind,         \* [Waiters -> {"cb", "sink"}]
          Script,       \* [Waiters -> what the callback / _all_dependencies_met does]
          Handles,      \* [Waiters -> SUBSET Comps]: c such that the sink has _handle_<c>_Ev
          DepSets,      \* dependency sets a declaration may name (explicit ones for sinks)
          HandlerSeqs,  \* scripts of the GoingUp handlers that are explored
          UpRegs,       \* what the Up handler registers: "none" or a component
          QuitOn,       \* whether quit() is explored in this configuration
          QuitDeferred, \* whether quit() is explored while going up is still deferred
          DefCap,       \* a deferral is obtained after goUp() only while fewer were handed out
          D             \* export depth (simulation)

\* scripts: what a waiter's callback does when it is invoked
SNone           == [k |-> "none",     c |-> "-", w |-> "-", d |-> {}]
SThrow          == [k |-> "throw",    c |-> "-", w |-> "-", d |-> {}]
SReg(c)         == [k |-> "reg",      c |-> c,   w |-> "-", d |-> {}]   \* core.register(c)
SRegThrow(c)    == [k |-> "regthrow", c |-> c,   w |-> "-", d |-> {}]   \* register, then raise
SCwr(w, d)      == [k |-> "cwr",      c |-> "-", w |-> w,   d |-> d]    \* core.call_when_ready(w, d) unless w was declared

HandlerKinds == {"none", "hold", "sync", "relprev"}
\* none: ignores the event; hold: event.get_deferral(), kept for later;
\* sync: get_deferral() and call it at once; relprev: calls the oldest
\* outstanding deferral obtained by an earlier handler

VARIABLES comps,    \* registered component names
          wst,      \* [Waiters -> {"new","pending","fired"}]
          wdeps,    \* [Waiters -> SUBSET Comps] dependencies of a pending waiter ({} otherwise)
          wired,    \* {<<sink, c>>}: an event raised by component c reaches the sink's handler
          attrs,    \* {<<sink, c>>}: sink._c_ has been set
          life,     \* sequence of lifecycle events raised so far
          defs,     \* outstanding deferral ids
          ndefs,    \* deferrals handed out so far (ids 1..ndefs)
          upreg,    \* what the Up handler will register
          last,     \* observation of the last action
          hist      \* all observations (export only; hidden by VIEW)
rvars == <<comps, wst, wdeps, wired, attrs>>
lvars == <<life, defs, ndefs, upreg>>
vars  == <<rvars, lvars, last, hist>>
view  == <<rvars, lvars, last>>
viewE == <<rvars, lvars>>

MinOf(S) == CHOOSE x \in S : \A y \in S : x <= y
InSeq(e, s) == \E i \in DOMAIN s : s[i] = e

Fire_(w, cs)  == [k |-> "fire", n |-> w, s |-> cs]
Life_(ev, cs) == [k |-> "life", n |-> ev, s |-> cs]

NoObs == [a |-> "Init", args |-> [x |-> 0], exp |-> [x |-> 0]]

Init == /\ comps = {} /\ wst = [w \in Waiters |-> "new"]
        /\ wdeps = [w \in Waiters |-> {}]
        /\ wired = {} /\ attrs = {}
        /\ life = <<>> /\ defs = {} /\ ndefs = 0 /\ upreg = "none"
        /\ last = NoObs /\ hist = <<>>

Log(a, args, exp) ==
  /\ last' = [a |-> a, args |-> args, exp |-> exp]
  /\ hist' = Append(hist, [a |-> a, args |-> args, exp |-> exp])

----------------------------------------------------------------------------
(* Firing: x = [c, st, dp, wr, at, lg] is the state inside a public call.   *)

Base == [c |-> comps, st |-> wst, dp |-> wdeps, wr |-> wired, at |-> attrs, lg |-> <<>>]

Ready(x) == {w \in Waiters : x.st[w] = "pending" /\ x.dp[w] \subseteq x.c}

Fire(x, w) ==
  LET sc == Script[w]
      sk == Kind[w] = "sink"
      x1 == [x EXCEPT !.st[w] = "fired", !.dp[w] = {},
                      !.lg = Append(@, Fire_(w, x.c)),
                      !.wr = IF sk THEN @ \cup {<<w, c>> : c \in (Handles[w] \cap Sources)} ELSE @,
                      !.at = IF sk THEN @ \cup {<<w, c>> : c \in x.dp[w]} ELSE @]
  IN CASE sc.k \in {"reg", "regthrow"} -> [x1 EXCEPT !.c = @ \cup {sc.c}]
       [] sc.k = "cwr" -> IF x1.st[sc.w] = "new"
                          THEN [x1 EXCEPT !.st[sc.w] = "pending", !.dp[sc.w] = sc.d]
                          ELSE x1
       [] OTHER -> x1

\* every way of firing ready waiters until none is left
RECURSIVE Settle(_)
Settle(x) == IF Ready(x) = {} THEN {x}
             ELSE UNION {Settle(Fire(x, w)) : w \in Ready(x)}

NoLog(x) == [x EXCEPT !.lg = <<>>]

Commit(a, args, outs) ==
  LET fin == CHOOSE o \in outs : TRUE IN
  /\ Assert(\A o \in outs : NoLog(o) = NoLog(fin), "confluence")
  /\ comps' = fin.c /\ wst' = fin.st /\ wdeps' = fin.dp
  /\ wired' = fin.wr /\ attrs' = fin.at
  /\ Log(a, args, [logs |-> {o.lg : o \in outs}, comps |-> fin.c,
                   wired |-> fin.wr, attrs |-> fin.at])

----------------------------------------------------------------------------
(* Rendezvous operations                                                     *)

Register(c) ==
  /\ Commit("Register", [c |-> c], Settle([Base EXCEPT !.c = @ \cup {c}]))
  /\ UNCHANGED lvars

CallWhenReady(w, d) ==
  /\ Kind[w] = "cb" /\ wst[w] = "new"
  /\ Commit("CallWhenReady", [w |-> w, deps |-> d],
            Settle([Base EXCEPT !.st[w] = "pending", !.dp[w] = d]))
  /\ UNCHANGED lvars

\* dependencies = components named by the sink's handlers + explicit ones
ListenTo(s, e) ==
  /\ Kind[s] = "sink" /\ wst[s] = "new"
  /\ Commit("ListenTo", [w |-> s, deps |-> e],
            Settle([Base EXCEPT !.st[s] = "pending", !.dp[s] = Handles[s] \cup e]))
  /\ UNCHANGED lvars

----------------------------------------------------------------------------
(* Lifecycle                                                                 *)

\* outstanding deferrals / number handed out after the GoingUp handlers ran
RECURSIVE RunHandlers(_, _, _)
RunHandlers(hs, ds, n) ==
  IF hs = <<>> THEN [ds |-> ds, n |-> n]
  ELSE LET h == Head(hs) IN
       CASE h = "hold"    -> RunHandlers(Tail(hs), ds \cup {n + 1}, n + 1)
         [] h = "sync"    -> RunHandlers(Tail(hs), ds, n + 1)
         [] h = "relprev" -> RunHandlers(Tail(hs), IF ds = {} THEN ds ELSE ds \ {MinOf(ds)}, n)
         [] OTHER         -> RunHandlers(Tail(hs), ds, n)

\* Up is raised: its handler sees the registry, then registers `ur`
UpOuts(prefix, ur) ==
  Settle([Base EXCEPT !.lg = Append(prefix, Life_("Up", comps)),
                      !.c = IF ur = "none" THEN @ ELSE @ \cup {ur}])

GoUp(hs, ur) ==
  /\ life = <<>>
  /\ LET r == RunHandlers(hs, {}, 0)
         p == <<Life_("GoingUp", comps)>> IN
     /\ defs' = r.ds /\ ndefs' = r.n /\ upreg' = ur
     /\ IF r.ds = {}
        THEN /\ life' = <<"GoingUp", "Up">>
             /\ Commit("GoUp", [hs |-> hs, ur |-> ur], UpOuts(p, ur))
        ELSE /\ life' = <<"GoingUp">>
             /\ Commit("GoUp", [hs |-> hs, ur |-> ur], {[Base EXCEPT !.lg = p]})

\* a deferral is obtained after goUp() returned (from the kept GoingUp event).
\* While start-up is still deferred it is one more outstanding deferral; once
\* nothing is outstanding any more there is nothing left to defer, and calling
\* it later must not raise Up again.
MaxDefs == 4
GetDeferral ==
  /\ InSeq("GoingUp", life) /\ ndefs < DefCap /\ ndefs < MaxDefs
  /\ ndefs' = ndefs + 1
  /\ defs' = IF defs # {} THEN defs \cup {ndefs + 1} ELSE defs
  /\ UNCHANGED <<life, upreg>>
  /\ Commit("GetDeferral", [x |-> 0], {Base})

\* deferral d is called (again, if d is no longer outstanding)
Release(d) ==
  /\ d \in 1..ndefs
  /\ UNCHANGED <<ndefs, upreg>>
  /\ IF d \notin defs
     THEN /\ UNCHANGED <<life, defs>>
          /\ Commit("Release", [d |-> d], {Base})
     ELSE /\ defs' = defs \ {d}
          /\ IF defs' = {} /\ ~InSeq("Up", life)
             THEN \/ /\ life' = Append(life, "Up")
                     /\ Commit("Release", [d |-> d], UpOuts(<<>>, upreg))
                  \/ \* the system was shut down while going up was deferred:
                     \* the property does not say whether Up is still raised
                     /\ InSeq("GoingDown", life)
                     /\ UNCHANGED life
                     /\ Commit("Release", [d |-> d], {Base})
             ELSE /\ UNCHANGED life
                  /\ Commit("Release", [d |-> d], {Base})

\* core.quit(); re: a GoingDown handler calls core.quit() again
Quit(re) ==
  /\ QuitOn
  /\ InSeq("GoingUp", life)
  /\ (QuitDeferred \/ defs = {} \/ InSeq("GoingDown", life))
  /\ UNCHANGED <<defs, ndefs, upreg>>
  /\ IF InSeq("GoingDown", life)
     THEN /\ UNCHANGED life
          /\ Commit("Quit", [re |-> re], {Base})
     ELSE /\ life' = life \o <<"GoingDown", "Down">>
          /\ Commit("Quit", [re |-> re],
                    {[Base EXCEPT !.lg = <<Life_("GoingDown", comps), Life_("Down", comps)>>]})

Next == \/ \E c \in Comps : Register(c)
        \/ \E w \in Waiters, d \in DepSets : CallWhenReady(w, d)
        \/ \E s \in Waiters, e \in DepSets : ListenTo(s, e)
        \/ \E hs \in HandlerSeqs, ur \in UpRegs : GoUp(hs, ur)
        \/ GetDeferral
        \/ \E d \in 1..MaxDefs : Release(d)
        \/ \E re \in BOOLEAN : Quit(re)

Spec == Init /\ [][Next]_vars

----------------------------------------------------------------------------
(* The property, over the real variables (and the log of the last action).  *)

States == {"new", "pending", "fired"}
LifeEvents == {"GoingUp", "Up", "GoingDown", "Down"}

TypeOK == /\ comps \subseteq Comps
          /\ wst \in [Waiters -> States]
          /\ wdeps \in [Waiters -> SUBSET Comps]
          /\ wired \subseteq (Waiters \X Comps) /\ attrs \subseteq (Waiters \X Comps)
          /\ defs \subseteq 1..ndefs /\ upreg \in Comps \cup {"none"}
          /\ \A i \in DOMAIN life : life[i] \in LifeEvents

\* "immediately once they are": when a public call returns no waiter is left
\* whose components are all registered
Immediate == \A w \in Waiters : wst[w] = "pending" => ~(wdeps[w] \subseteq comps)

\* listeners / attributes exist exactly for the sinks whose rendezvous happened
Sinks == {w \in Waiters : Kind[w] = "sink"}
WiredOK == /\ wired = {<<s, c>> \in Sinks \X Comps :
                          wst[s] = "fired" /\ c \in Handles[s] \cap Sources}
           /\ \A p \in attrs : wst[p[1]] = "fired" /\ p[2] \in comps
           /\ \A s \in Sinks : wst[s] = "fired" => \A c \in Handles[s] : <<s, c>> \in attrs

\* each lifecycle event at most once, going-up before up, up only with no
\* deferral outstanding and then at once (unless a quit overtook it),
\* going-down directly followed by down
Pos(ev) == CHOOSE i \in DOMAIN life : life[i] = ev
LifeOK ==
  /\ \A i, j \in DOMAIN life : i # j => life[i] # life[j]
  /\ life # <<>> => life[1] = "GoingUp"
  /\ InSeq("Up", life) => defs = {}
  /\ (InSeq("GoingUp", life) /\ defs = {} /\ ~InSeq("Up", life)) => InSeq("GoingDown", life)
  /\ InSeq("GoingDown", life) => /\ InSeq("Down", life)
                                 /\ Pos("Down") = Pos("GoingDown") + 1
  /\ ndefs > 0 => InSeq("GoingUp", life)

\* ---- action properties: what the log of one public call may contain
Logs == IF "logs" \in DOMAIN last'.exp THEN last'.exp.logs ELSE {}
FiresOf(lg, w) == {i \in DOMAIN lg : lg[i].k = "fire" /\ lg[i].n = w}
LifeOf(lg) == SelectSeq(lg, LAMBDA e : e.k = "life")

\* dependencies a waiter fired by this call was declared with
DeclDeps(w) ==
  IF wst[w] = "pending" THEN wdeps[w]
  ELSE IF last'.a = "CallWhenReady" /\ last'.args.w = w THEN last'.args.deps
  ELSE IF last'.a = "ListenTo" /\ last'.args.w = w THEN Handles[w] \cup last'.args.deps
  ELSE LET ds == {Script[v].d : v \in {u \in Waiters : Script[u].k = "cwr" /\ Script[u].w = w}}
       IN IF ds = {} THEN Comps ELSE CHOOSE d \in ds : TRUE

\* exactly once: a waiter is invoked by a call iff it becomes fired in it, once
ExactlyOnce ==
  [][\A w \in Waiters, lg \in Logs :
        Cardinality(FiresOf(lg, w)) =
          IF wst[w] # "fired" /\ wst'[w] = "fired" THEN 1 ELSE 0]_vars
FiredForever == [][\A w \in Waiters : wst[w] = "fired" => wst'[w] = "fired"]_vars

\* never early: the callback sees all of its components registered; what it
\* sees is what is registered at that moment (grows from comps to comps')
NeverEarly ==
  [][\A lg \in Logs : \A i \in DOMAIN lg :
        /\ comps \subseteq lg[i].s /\ lg[i].s \subseteq comps'
        /\ (i > 1 => lg[i - 1].s \subseteq lg[i].s)
        /\ (lg[i].k = "fire" => DeclDeps(lg[i].n) \subseteq lg[i].s)]_vars

\* the lifecycle events a call raises are exactly those appended to life
LifeLogged ==
  [][\A lg \in Logs :
       /\ Len(life') >= Len(life) /\ SubSeq(life', 1, Len(life)) = life
       /\ [i \in 1..Len(LifeOf(lg)) |-> LifeOf(lg)[i].n] =
            SubSeq(life', Len(life) + 1, Len(life'))]_vars

\* a failing callback changes nothing for the others: covered by Immediate
\* (scripts "throw"/"regthrow" are fired like any other)

\* ---- export for the replay harness
Catalog == [comps |-> Comps, sources |-> Sources, kind |-> Kind, script |-> Script,
            handles |-> Handles]
Bound   == Len(hist) <= D
Export  == (Len(hist) = D) => PrintT(<<"H", ToJson(hist)>>)
ExportT == PrintT(<<"T", ToJson(hist')>>)
=============================================================================
