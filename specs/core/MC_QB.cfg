CONSTANTS
  Comps <- QB_Comps
  Sources <- QB_Sources
  Waiters <- QB_Waiters
  Kind <- QB_Kind
  Script <- QB_Script
  Handles <- QB_Handles
  DepSets <- QB_DepSets
  HandlerSeqs <- QB_HSeqs
  UpProgs <- QB_UpProgs
  CRProg <- QB_CR
  Forms = {"fresh"}
  Colls = {}
  LAs <- NoLA_QB
  DropOn = FALSE
  QuitOn = FALSE
  QuitDeferred = FALSE
  DefCap = 0
  D = 0
INIT Init
NEXT Next
VIEW viewE
INVARIANT TypeOK
INVARIANT Immediate
INVARIANT WiredOK
INVARIANT LifeOK
PROPERTY ExactlyOnce
PROPERTY FiredForever
PROPERTY NeverEarly
PROPERTY LifeLogged
PROPERTY CROnce
PROPERTY DepsFixed
PROPERTY OptsFixed
INVARIANT OptsOK
CHECK_DEADLOCK FALSE
