---- MODULE TraceRendezvous ----
(* Code -> spec: traces recorded from a real POXCore driven by a random     *)
(* operation sequence must be behaviours of Rendezvous.tla: the callback    *)
(* log observed for each public call must be one of the logs the spec       *)
(* allows, the registry / wiring / attributes must be the spec's, and every *)
(* invariant is evaluated at each matched step.                             *)
EXTENDS MCRendezvous, IOUtils, TLCExt, SequencesExt

Traces == JsonDeserialize(IOEnv.TRACE_FILE)
NT == Len(Traces)
VARIABLES tid, l
tvars == <<vars, tid, l>>

TrInit == Init /\ tid \in 1..NT /\ l = 1 /\ TLCSet(tid, 0)
Ev == Traces[tid][l]
IsEvent(e) == l <= Len(Traces[tid]) /\ Ev.a = e /\ l' = l + 1 /\ UNCHANGED tid

ObsLog(o) == [i \in 1..Len(o.log) |->
                [k |-> o.log[i].k, n |-> o.log[i].n, s |-> ToSet(o.log[i].s)]]
Match == /\ Ev.wf
         /\ ObsLog(Ev.obs) \in last'.exp.logs
         /\ ToSet(Ev.obs.comps) = last'.exp.comps
         /\ ToSet(Ev.obs.wired) = last'.exp.wired
         /\ ToSet(Ev.obs.attrs) = last'.exp.attrs

TrRegister == IsEvent("Register") /\ Register(Ev.args.c) /\ Match
\* args.f = how the names were handed over ("fresh", "once" or a collection of
\* the caller's: then FormOK demands that they are what the SPEC's copy of that
\* collection holds, i.e. what the caller put there)
TrCallWhenReady == /\ IsEvent("CallWhenReady")
                   /\ CallWhenReady(Ev.args.w, ToSet(Ev.args.deps), Ev.args.f) /\ Match
TrListenTo == /\ IsEvent("ListenTo")
              /\ ListenTo(Ev.args.w, ToSet(Ev.args.deps), Ev.args.f, ToSet(Ev.args.la)) /\ Match
TrDrop == IsEvent("Drop") /\ Drop(Ev.args.w) /\ Match
TrMutate == IsEvent("Mutate") /\ Mutate(Ev.args.f, Ev.args.o, Ev.args.c) /\ Match
\* JSON arrays -> programs (the dependency set of a cwr operation is a set)
ProgJ(p) == [i \in 1..Len(p) |-> Op(p[i].k, p[i].c, p[i].w, ToSet(p[i].d))]
ProgsJ(hs) == [i \in 1..Len(hs) |-> ProgJ(hs[i])]
TrGoUp    == IsEvent("GoUp") /\ GoUp(ProgsJ(Ev.args.hs), ProgJ(Ev.args.up)) /\ Match
TrGetDeferral == IsEvent("GetDeferral") /\ GetDeferral /\ Match
TrRelease == IsEvent("Release") /\ Release(Ev.args.o) /\ Match
TrQuit    == IsEvent("Quit") /\ Quit(Ev.args.re) /\ Match

TrNext == \/ TrRegister \/ TrCallWhenReady \/ TrListenTo \/ TrMutate \/ TrDrop
          \/ TrGoUp \/ TrGetDeferral \/ TrRelease \/ TrQuit
TrSpec == TrInit /\ [][TrNext]_tvars

Progress == TLCSet(tid, IF TLCGet(tid) < l - 1 THEN l - 1 ELSE TLCGet(tid))
Ok(t) == TLCGet(t) = Len(Traces[t]) \/ (PrintT(<<"REJECT", t, TLCGet(t)>>) /\ FALSE)
Accepted == /\ PrintT(<<"TRACES-CHECKED", NT>>)
            /\ Cardinality({t \in 1..NT : ~Ok(t)}) = 0
====
