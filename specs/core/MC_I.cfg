CONSTANTS
  Comps <- I_Comps
  Sources <- I_Sources
  Waiters <- I_Waiters
  Kind <- I_Kind
  Script <- I_Script
  Handles <- I_Handles
  DepSets <- I_DepSets
  HandlerSeqs <- I_HSeqs
  UpProgs <- I_UpProgs
  CRProg <- I_CR
  Forms = {"once"}
  Colls = {"k1"}
  LAs <- NoLA_I
  DropOn = FALSE
  QuitOn = FALSE
  QuitDeferred = FALSE
  DefCap = 0
  D = 0
INIT Init
NEXT Next
VIEW viewE
INVARIANT TypeOK
INVARIANT Immediate
INVARIANT WiredOK
INVARIANT LifeOK
PROPERTY ExactlyOnce
PROPERTY FiredForever
PROPERTY NeverEarly
PROPERTY LifeLogged
PROPERTY CROnce
PROPERTY DepsFixed
PROPERTY OptsFixed
INVARIANT OptsOK
CHECK_DEADLOCK FALSE
