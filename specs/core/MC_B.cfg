CONSTANTS
  Comps <- B_Comps
  Sources <- B_Sources
  Waiters <- B_Waiters
  Kind <- B_Kind
  Script <- B_Script
  Handles <- B_Handles
  DepSets <- B_DepSets
  HandlerSeqs <- B_HSeqs
  UpProgs <- B_UpProgs
  CRProg <- B_CR
  Forms = {"fresh"}
  Colls = {}
  LAs <- NoLA_B
  DropOn = FALSE
  QuitOn = TRUE
  QuitDeferred = TRUE
  DefCap = 1
  D = 0
INIT Init
NEXT Next
VIEW viewE
INVARIANT TypeOK
INVARIANT Immediate
INVARIANT WiredOK
INVARIANT LifeOK
PROPERTY ExactlyOnce
PROPERTY FiredForever
PROPERTY NeverEarly
PROPERTY LifeLogged
PROPERTY CROnce
PROPERTY DepsFixed
PROPERTY OptsFixed
INVARIANT OptsOK
CHECK_DEADLOCK FALSE
