CONSTANTS
  Comps <- L_Comps
  Sources <- L_Sources
  Waiters <- L_Waiters
  Kind <- L_Kind
  Script <- L_Script
  Handles <- L_Handles
  DepSets <- L_DepSets
  HandlerSeqs <- L_HSeqs2
  UpProgs <- L_UpProgs
  CRProg <- L_CR
  Forms = {"fresh"}
  Colls = {}
  LAs <- NoLA_L
  DropOn = FALSE
  QuitOn = TRUE
  QuitDeferred = TRUE
  DefCap = 0
  D = 0
INIT Init
NEXT Next
VIEW viewE
ACTION_CONSTRAINT ExportT
CHECK_DEADLOCK FALSE
