CONSTANTS
  Comps <- T_Comps
  Sources <- T_Sources
  Waiters <- T_Waiters
  Kind <- T_Kind
  Script <- T_Script
  Handles <- T_Handles
  DepSets <- T_DepSets
  HandlerSeqs <- T_HSeqs
  UpProgs <- T_UpProgs
  CRProg <- T_CR
  Forms = {"fresh", "once"}
  Colls = {"k1", "k2"}
  LAs <- T_LAs
  DropOn = TRUE
  QuitOn = TRUE
  QuitDeferred = TRUE
  DefCap = 4
  D = 0
INIT TrInit
NEXT TrNext
CONSTRAINT Progress
POSTCONDITION Accepted
INVARIANT TypeOK
INVARIANT Immediate
INVARIANT WiredOK
INVARIANT LifeOK
INVARIANT OptsOK
CHECK_DEADLOCK FALSE
