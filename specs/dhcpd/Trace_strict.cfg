CONSTANTS
  Clients <- C3
  N = 3
  Srv = 2
  Kind = "simple"
  Ports <- P3
  Served <- P2
  Xids <- X5
  Flags <- F2
  PRLs <- PRL4
  ChVary = TRUE
  HasRouter = TRUE
  HasDns = TRUE
  Veto <- Veto3
  LeaseTicks = 2
  Strict = TRUE
  Both = TRUE
  PickMode = "any"
  JunkKinds <- JAll
  KeepHist = TRUE
  D = 0
INIT TrInit
NEXT TrNext
CONSTRAINT Progress
POSTCONDITION Accepted
INVARIANT TypeOK
INVARIANT LastOK
INVARIANT NoDoubleHold
INVARIANT NotBoth
INVARIANT Partition
INVARIANT Bounded
INVARIANT NoFault
INVARIANT NoStaleLease
CHECK_DEADLOCK FALSE
