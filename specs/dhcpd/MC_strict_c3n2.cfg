CONSTANTS
  Clients <- C3
  N = 2
  Srv = 0
  Kind = "simple"
  Ports <- P2
  Served <- P1
  Xids <- X1
  Flags <- F1
  PRLs <- PRL1
  ChVary = FALSE
  HasRouter = TRUE
  HasDns = TRUE
  Veto <- Veto3
  LeaseTicks = 2
  Strict = TRUE
  Both = TRUE
  PickMode = "any"
  JunkKinds <- J1
  KeepHist = TRUE
  D = 0
INIT Init
NEXT Next
VIEW viewE
INVARIANT TypeOK
INVARIANT NoDoubleHold
INVARIANT NotBoth
INVARIANT Partition
INVARIANT Bounded
INVARIANT NoStaleLease
PROPERTY OwnerOnly
PROPERTY LastOKa
PROPERTY NoFaulta
PROPERTY GrantOK
PROPERTY NakOK
PROPERTY ReturnedOnce
PROPERTY ReleaseOK
PROPERTY ExpiryOK
CHECK_DEADLOCK FALSE
