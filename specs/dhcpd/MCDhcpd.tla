---- MODULE MCDhcpd ----
EXTENDS Dhcpd
C2 == {"c1", "c2"}
C3 == {"c1", "c2", "c3"}
P1 == {1}
P2 == {1, 2}
P3 == {1, 2, 3}
X1 == {1}
X2 == {1, 2}
X5 == 1..5
F1 == {FALSE}
F2 == {FALSE, TRUE}
PRL1 == {{1, 3, 6}}
PRL2 == {{}, {1, 3, 6, 15}}
PRL4 == {{}, {1, 3, 6, 15}, {6}, {1, 3}}
NoVeto == {}
Veto2 == {<<"c2", 1>>}
Veto3 == {<<"c3", 1>>}
J1 == {"bootreply"}
J2 == {"bootreply", "otherdst"}
JAll == {"bootreply", "notype", "offer", "type9", "otherdst", "ports", "magic", "short"}
====
