CONSTANTS
  Clients <- C3
  N = 3
  Srv = 2
  Kind = "simple"
  Ports <- P3
  Served <- P2
  Xids <- X1
  Flags <- F2
  PRLs <- PRL1
  ChVary = FALSE
  HasRouter = TRUE
  HasDns = TRUE
  Veto <- Veto3
  LeaseTicks = 3
  Strict = TRUE
  Both = TRUE
  PickMode = "any"
  JunkKinds <- J1
  KeepHist = TRUE
  D = 0
INIT Init
NEXT Next
VIEW viewE
INVARIANT TypeOK
INVARIANT NoDoubleHold
INVARIANT NotBoth
INVARIANT Partition
INVARIANT Bounded
INVARIANT NoStaleLease
PROPERTY OwnerOnly
PROPERTY LastOKa
PROPERTY NoFaulta
PROPERTY GrantOK
PROPERTY NakOK
PROPERTY ReturnedOnce
PROPERTY ReleaseOK
PROPERTY ExpiryOK
CHECK_DEADLOCK FALSE
