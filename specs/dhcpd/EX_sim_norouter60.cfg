CONSTANTS
  Clients <- C3
  N = 2
  Srv = 0
  Kind = "simple"
  Ports <- P3
  Served <- P2
  Xids <- X5
  Flags <- F2
  PRLs <- PRL4
  ChVary = TRUE
  HasRouter = FALSE
  HasDns = FALSE
  Veto <- NoVeto
  LeaseTicks = 2
  Strict = FALSE
  Both = FALSE
  PickMode = "impl"
  JunkKinds <- JAll
  KeepHist = TRUE
  D = 60
INIT Init
NEXT Next
INVARIANT Export
CHECK_DEADLOCK FALSE
