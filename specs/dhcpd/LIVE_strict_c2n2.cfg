CONSTANTS
  Clients <- C2
  N = 2
  Srv = 0
  Kind = "simple"
  Ports <- P2
  Served <- P1
  Xids <- X1
  Flags <- F1
  PRLs <- PRL1
  ChVary = FALSE
  HasRouter = TRUE
  HasDns = TRUE
  Veto <- Veto2
  LeaseTicks = 3
  Strict = TRUE
  Both = TRUE
  PickMode = "any"
  JunkKinds <- J1
  KeepHist = FALSE
  D = 0
SPECIFICATION LiveSpec
PROPERTY LeaseEnds
PROPERTY AddressReturns
INVARIANT TypeOK
CHECK_DEADLOCK FALSE
