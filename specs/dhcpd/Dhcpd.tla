------------------------------- MODULE Dhcpd -------------------------------
(* X01: the lease state machine of POX's DHCP server (pox/proto/dhcpd.py: DHCPD,           *)
(* SimpleAddressPool / a python list as pool).                                              *)
(*                                                                                          *)
(* Abstract state = what the server keeps: the address pool, `offers` (client -> address     *)
(* offered), `leases` (client -> address leased), and - for the intended design only - the   *)
(* age of every lease.  A client IS its Ethernet source address: that is the key the code    *)
(* uses for offers and leases (the chaddr field only matters for RELEASE).                   *)
(*                                                                                          *)
(* One named action per path through a handler (a handler runs to completion inside one      *)
(* PACKET_IN, so a path is the linearization point); the protocol itself is multi-step:      *)
(* ConnUp, Discover* (-> OFFER/NAK), Request* (-> ACK/NAK/nothing), Release*, Decline,       *)
(* Inform, junk, Tick.  Every action logs what an observer sees: the frame the switch emits  *)
(* (decoded reply), the DHCPLease event raised, whether the handler crashed, and the         *)
(* projection of the server's tables (`last`, appended to `hist` for export).               *)
(*                                                                                          *)
(* Intended design vs. code as built.  Three places where the code does something else than  *)
(* what its documentation / obvious intent says are NAMED deviation actions, enabled only    *)
(* when Strict = FALSE:                                                                      *)
(*   RequestAckKeepsOffer  exec_request records the lease but never deletes offers[src]      *)
(*   RequestVetoKeepsLease a DHCPLease listener calls nak() ("abort this lease"): the NAK    *)
(*                         goes out but leases[src] stays                                    *)
(*   TickNoExpiry          leases never expire ("TODO: Actually make them expire")           *)
(* and two faults that only the first deviation makes reachable (RequestFault, ReleaseFault: *)
(* SimpleAddressPool.append raises because the address is already back in the pool).         *)
(*   Strict = TRUE              the intended design only: TLC proves the listed properties.  *)
(*   Strict = FALSE, Both = TRUE   intended behaviour AND deviations are admitted: this is   *)
(*                              the model traces of the code are validated against (a server *)
(*                              repaired at any of the three places still conforms); only    *)
(*                              the weaker invariants are claimed for it.                    *)
(*   Strict = FALSE, Both = FALSE  exactly the code as built (deterministic with PickMode =  *)
(*                              "impl"): the model behaviours are exported from for replay;  *)
(*                              a deviation step logs the intended outcomes as args.alt.     *)
EXTENDS Naturals, Sequences, FiniteSets, TLC, Json, SequencesExt

CONSTANTS Clients,     \* client symbols (strings): Ethernet source addresses
          N,           \* the pool's range holds addresses 1..N ("first".."last")
          Srv,         \* index of the server's own address inside the range, or 0 (outside)
          Kind,        \* "simple" = SimpleAddressPool (what launch() builds), "list" = python list (DHCPD() default)
          Ports,       \* ports of the switch
          Served,      \* ports the server is configured for (a subset of Ports)
          Xids,        \* transaction ids (small ints, concretised by the adapter)
          Flags,       \* values of the BROADCAST flag
          PRLs,        \* parameter request lists (sets of option codes)
          ChVary,      \* whether chaddr may differ from the Ethernet source outside RELEASE
          HasRouter, HasDns,   \* whether a router / DNS server address is configured
          Veto,        \* set of <<client, address>>: leases the DHCPLease listener refuses (nak())
          LeaseTicks,  \* lease time, in ticks
          Strict,      \* TRUE = intended design only, FALSE = the code's deviations are enabled
          Both,        \* with Strict = FALSE: TRUE = intended behaviour AND deviations are admitted (verdicts: a
                       \* repaired server still conforms), FALSE = exactly the code as built (export for replay;
                       \* a deviation step then logs the intended outcome as `alt`)
          PickMode,    \* "any" = a fresh offer may be any free address (the property);
                       \* "impl" = the address pool[0] of the implementation (export for replay)
          JunkKinds,   \* kinds of frames that are not a DHCP request to this server
          KeepHist,    \* FALSE only for the liveness run (no VIEW there, so the history must not grow)
          D            \* export depth

Addrs == 1..N
Out   == N + 1                   \* stands for "an address outside the pool's range"
Wants == 0..(N + 1)              \* 0 = no requested-address option / ciaddr 0.0.0.0
Usable == Addrs \ {Srv}

VARIABLES up,        \* the switch has connected (the DHCP -> controller flow is installed)
          pool,      \* simple: the set `removed`; list: the sequence of free addresses
          offers,    \* [Clients -> 0..N], 0 = none
          leases,    \* [Clients -> 0..N], 0 = none
          age,       \* [Clients -> Nat]: ticks since the lease was granted / renewed
          last,      \* observation of the last action
          hist       \* all observations (export only; hidden by VIEW)
vars  == <<up, pool, offers, leases, age, last, hist>>
view  == <<up, pool, offers, leases, age, last>>
viewE == <<up, pool, offers, leases, age>>

----------------------------------------------------------------------------
(* The address pool, as the two implementations behave.                      *)

SetOfSeq(s) == {s[i] : i \in DOMAIN s}
PHas(pl, a)  == IF Kind = "simple" THEN a \in Addrs /\ a \notin pl      \* SimpleAddressPool.__contains__
                ELSE a \in SetOfSeq(pl)
PLen(pl)     == IF Kind = "simple" THEN N - Cardinality(pl) ELSE Len(pl)
PFree(pl)    == IF Kind = "simple" THEN Addrs \ pl ELSE SetOfSeq(pl)
IdxOf(s, a)  == CHOOSE i \in DOMAIN s : s[i] = a /\ \A j \in 1..(i - 1) : s[j] # a
PRemove(pl, a) == IF Kind = "simple" THEN pl \cup {a}
                  ELSE LET i == IdxOf(pl, a) IN SubSeq(pl, 1, i - 1) \o SubSeq(pl, i + 1, Len(pl))
\* SimpleAddressPool.append raises RuntimeError("already in this pool") for an address that is not removed
PAppendOK(pl, a) == IF Kind = "simple" THEN a \in pl ELSE TRUE
PAppend(pl, a)   == IF Kind = "simple" THEN pl \ {a} ELSE Append(pl, a)
\* pool[0]: SimpleAddressPool.__getitem__ starts at first + len(removed) and wraps; a list gives its head
Cyc(c, k) == ((c - 1 + k) % N) + 1
PPick(pl) == IF Kind = "simple"
             THEN LET c0 == (Cardinality(pl) % N) + 1
                      k  == CHOOSE k \in 0..(N - 1) : Cyc(c0, k) \notin pl /\ \A j \in 0..(k - 1) : Cyc(c0, j) \in pl
                  IN Cyc(c0, k)
             ELSE Head(pl)
PickSet(pl) == IF PickMode = "impl" THEN {PPick(pl)} ELSE PFree(pl)
\* what the harness reads back: simple -> set of free addresses, list -> the list
PView(pl) == IF Kind = "simple" THEN Addrs \ pl ELSE pl
PInit == IF Kind = "simple" THEN (IF Srv \in Addrs THEN {Srv} ELSE {})     \* DHCPD.__init__ removes its own address
         ELSE SelectSeq([i \in 1..N |-> i], LAMBDA a : a # Srv)

----------------------------------------------------------------------------
(* Observations.                                                             *)

None0 == [c \in Clients |-> 0]
Decs(c) == [p : Served, x : Xids, bc : Flags, prl : PRLs, ch : IF ChVary THEN Clients ELSE {c}]

Opts(t, prl) == {53, 54} \cup
                (IF t \in {"OFFER", "ACK"}
                 THEN {51} \cup {o \in prl : o = 1 \/ (o = 3 /\ HasRouter) \/ (o = 6 /\ HasDns)}
                 ELSE {})
\* a reply: message type, yiaddr, xid (the request's), destination class (broadcast / the client), the port it
\* leaves through (the request's ingress port), whose address chaddr is, the options present (with the
\* configured values - the adapter reports a wrong value as a different code)
Rep(t, yi, d) == [t |-> t, yi |-> yi, x |-> d.x, to |-> IF d.bc THEN "bcast" ELSE "ucast", port |-> d.p,
                  ch |-> "src", opts |-> Opts(t, d.prl)]
NoRep == [t |-> "none", yi |-> 0, x |-> 0, to |-> "none", port |-> 0, ch |-> "none", opts |-> {}]
NoEv  == [c |-> "", a |-> 0]
Ev(c, a) == [c |-> c, a |-> a]
Obs(rep, ev, fault, pl, of, le) ==
  [reply |-> rep, ev |-> ev, fault |-> fault, offers |-> of, leases |-> le, free |-> PView(pl)]
Args(c, w, d) == [c |-> c, w |-> w, p |-> d.p, x |-> d.x, bc |-> d.bc, prl |-> d.prl, ch |-> d.ch]

Log(a, args, exp) ==
  /\ last' = [a |-> a, args |-> args, exp |-> exp]
  /\ hist' = IF KeepHist THEN Append(hist, [a |-> a, args |-> args, exp |-> exp]) ELSE hist

Init == /\ up = FALSE
        /\ pool = PInit
        /\ offers = None0 /\ leases = None0 /\ age = None0
        /\ last = [a |-> "Init", args |-> [c |-> ""], exp |-> [x |-> 0]]
        /\ hist = <<>>

\* the switch connects: _handle_ConnectionUp installs "IPv4/UDP 68 -> 67: output CONTROLLER" (one FLOW_MOD)
ConnUp ==
  /\ ~up /\ up' = TRUE
  /\ UNCHANGED <<pool, offers, leases, age>>
  /\ Log("ConnUp", [c |-> ""], [flows |-> 1])

----------------------------------------------------------------------------
(* DISCOVER  (exec_discover)                                                 *)

\* the client holds a lease: it becomes an offer again and is offered
DiscoverLeased(c, w, d) ==
  /\ up /\ leases[c] # 0
  /\ offers' = [offers EXCEPT ![c] = leases[c]]
  /\ leases' = [leases EXCEPT ![c] = 0]
  /\ age' = [age EXCEPT ![c] = 0]
  /\ UNCHANGED <<up, pool>>
  /\ Log("Discover", Args(c, w, d), Obs(Rep("OFFER", leases[c], d), NoEv, FALSE, pool, offers', leases'))

\* the client has an outstanding offer: the same address is offered again
DiscoverOffered(c, w, d) ==
  /\ up /\ leases[c] = 0 /\ offers[c] # 0
  /\ age' = [age EXCEPT ![c] = 0]
  /\ UNCHANGED <<up, pool, offers, leases>>
  /\ Log("Discover", Args(c, w, d), Obs(Rep("OFFER", offers[c], d), NoEv, FALSE, pool, offers, leases))

\* nothing left: NAK
DiscoverExhausted(c, w, d) ==
  /\ up /\ leases[c] = 0 /\ offers[c] = 0 /\ PLen(pool) = 0
  /\ UNCHANGED <<up, pool, offers, leases, age>>
  /\ Log("Discover", Args(c, w, d), Obs(Rep("NAK", 0, d), NoEv, FALSE, pool, offers, leases))

DiscoverGive(c, w, d, a, alts) ==
  /\ pool' = PRemove(pool, a)
  /\ offers' = [offers EXCEPT ![c] = a]
  /\ age' = [age EXCEPT ![c] = 0]
  /\ UNCHANGED <<up, leases>>
  /\ Log("Discover", Args(c, w, d) @@ [alts |-> alts],
         Obs(Rep("OFFER", a, d), NoEv, FALSE, pool', offers', leases))
\* the address the client asks for (option 50) is free: that one
DiscoverWanted(c, w, d) ==
  /\ up /\ leases[c] = 0 /\ offers[c] = 0 /\ PLen(pool) > 0 /\ PHas(pool, w)
  /\ DiscoverGive(c, w, d, w, {w})
\* otherwise some free address (the implementation: pool[0])
DiscoverPick(c, w, d) ==
  /\ up /\ leases[c] = 0 /\ offers[c] = 0 /\ PLen(pool) > 0 /\ ~PHas(pool, w)
  /\ \E a \in PickSet(pool) : DiscoverGive(c, w, d, a, PFree(pool))

----------------------------------------------------------------------------
(* REQUEST  (exec_request): the handler's steps, in the code's order          *)

ReqRes(c, w) ==
  LET l0  == leases[c]
      \* 1. the client's current lease: kept if it is the wanted address, else given back
      x1  == l0 # 0 /\ w # l0
      f1  == x1 /\ ~PAppendOK(pool, l0)               \* pool.append raises before anything changed
      p1  == IF x1 /\ ~f1 THEN PAppend(pool, l0) ELSE pool
      le1 == IF x1 /\ ~f1 THEN [leases EXCEPT ![c] = 0] ELSE leases
      g1  == IF l0 # 0 /\ w = l0 THEN l0 ELSE 0
      \* 2. the client's outstanding offer: taken if it is the wanted address, else given back
      o0  == offers[c]
      t2  == ~f1 /\ g1 = 0 /\ o0 # 0
      x2  == t2 /\ w # o0
      f2  == x2 /\ ~PAppendOK(p1, o0)                 \* raises after step 1 took effect
      p2  == IF x2 /\ ~f2 THEN PAppend(p1, o0) ELSE p1
      of2 == IF x2 /\ ~f2 THEN [offers EXCEPT ![c] = 0] ELSE offers
      g2  == IF t2 /\ w = o0 THEN o0 ELSE g1
      \* 3. else the wanted address if it is free in the pool
      t3  == ~f1 /\ ~f2 /\ g2 = 0 /\ PHas(p2, w)
      p3  == IF t3 THEN PRemove(p2, w) ELSE p2
      g3  == IF t3 THEN w ELSE g2
  IN [fault |-> f1 \/ f2, pool |-> p3, offers |-> of2, leases |-> le1, got |-> g3,
      src |-> IF g1 # 0 THEN "lease" ELSE IF g2 # 0 THEN "offer" ELSE IF t3 THEN "free" ELSE "none"]

\* no requested-address option: the handler returns ("Uhhh...")
RequestNoOpt(c, d) ==
  /\ up
  /\ UNCHANGED <<up, pool, offers, leases, age>>
  /\ Log("Request", Args(c, 0, d), Obs(NoRep, NoEv, FALSE, pool, offers, leases))

\* the wanted address is neither the client's nor free: NAK; what the client held before is given back
RequestNak(c, w, d) ==
  LET r == ReqRes(c, w) IN
  /\ up /\ w # 0 /\ ~r.fault /\ r.got = 0
  /\ pool' = r.pool /\ offers' = r.offers /\ leases' = r.leases
  /\ age' = [age EXCEPT ![c] = 0]
  /\ UNCHANGED up
  /\ Log("Request", Args(c, w, d), Obs(Rep("NAK", 0, d), NoEv, FALSE, pool', offers', leases'))

\* the lease is granted and acknowledged; DHCPLease is raised once.  src: where the address came from
\* ("lease" = renewal of the client's own lease, "offer" = the address offered to it, "free" = a free address).
\* Intended: the offer is consumed by the lease.
RequestAck(c, w, d) ==
  LET r == ReqRes(c, w) IN
  /\ up /\ w # 0 /\ ~r.fault /\ r.got # 0 /\ <<c, r.got>> \notin Veto
  /\ (Strict \/ Both \/ r.offers[c] = 0)
  /\ pool' = r.pool
  /\ offers' = [r.offers EXCEPT ![c] = 0]
  /\ leases' = [r.leases EXCEPT ![c] = r.got]
  /\ age' = [age EXCEPT ![c] = 0]
  /\ UNCHANGED up
  /\ Log("Request", Args(c, w, d), Obs(Rep("ACK", r.got, d), Ev(c, r.got), FALSE, pool', offers', leases'))
RequestAckLease(c, w, d) == ReqRes(c, w).src = "lease" /\ RequestAck(c, w, d)
RequestAckOffer(c, w, d) == ReqRes(c, w).src = "offer" /\ RequestAck(c, w, d)
RequestAckFree(c, w, d)  == ReqRes(c, w).src = "free" /\ RequestAck(c, w, d)

\* DEVIATION (code as built): the lease is recorded but offers[src] is never deleted - the client is left with
\* an offer AND a lease for the address, and the offer outlives the lease (release, switch to another address)
RequestAckKeepsOffer(c, w, d) ==
  LET r == ReqRes(c, w) IN
  /\ ~Strict
  /\ up /\ w # 0 /\ ~r.fault /\ r.got # 0 /\ <<c, r.got>> \notin Veto /\ r.offers[c] # 0
  /\ pool' = r.pool
  /\ offers' = r.offers
  /\ leases' = [r.leases EXCEPT ![c] = r.got]
  /\ age' = [age EXCEPT ![c] = 0]
  /\ UNCHANGED up
  /\ Log("Request",
         Args(c, w, d) @@ [alt |-> <<Obs(Rep("ACK", r.got, d), Ev(c, r.got), FALSE, pool', [r.offers EXCEPT ![c] = 0], leases')>>],
         Obs(Rep("ACK", r.got, d), Ev(c, r.got), FALSE, pool', offers', leases'))

\* a DHCPLease listener calls nak(): "abort this lease".  Intended: NAK, the client holds nothing, the address
\* is free again.
RequestVetoAborts(c, w, d) ==
  LET r == ReqRes(c, w) IN
  /\ (Strict \/ Both)
  /\ up /\ w # 0 /\ ~r.fault /\ r.got # 0 /\ <<c, r.got>> \in Veto /\ PAppendOK(r.pool, r.got)
  /\ pool' = PAppend(r.pool, r.got)
  /\ offers' = [r.offers EXCEPT ![c] = 0]
  /\ leases' = [r.leases EXCEPT ![c] = 0]
  /\ age' = [age EXCEPT ![c] = 0]
  /\ UNCHANGED up
  /\ Log("Request", Args(c, w, d), Obs(Rep("NAK", 0, d), Ev(c, r.got), FALSE, pool', offers', leases'))
\* DEVIATION (code as built): the NAK goes out, but the lease stays recorded.  ko: the offer stays as well (that is
\* the first deviation again; as built ko = TRUE).
RequestVetoKeepsLease(c, w, d, ko) ==
  LET r == ReqRes(c, w)
      cleared == [r.offers EXCEPT ![c] = 0]
      kept == [r.leases EXCEPT ![c] = r.got]
      nak == Rep("NAK", 0, d) IN
  /\ ~Strict /\ (ko \/ (Both /\ r.offers[c] # 0))
  /\ up /\ w # 0 /\ ~r.fault /\ r.got # 0 /\ <<c, r.got>> \in Veto
  /\ pool' = r.pool
  /\ offers' = IF ko THEN r.offers ELSE cleared
  /\ leases' = kept
  /\ age' = [age EXCEPT ![c] = 0]
  /\ UNCHANGED up
  /\ Log("Request",
         Args(c, w, d) @@
         [alt |-> (IF PAppendOK(r.pool, r.got)
                   THEN <<Obs(nak, Ev(c, r.got), FALSE, PAppend(r.pool, r.got), cleared, [r.leases EXCEPT ![c] = 0])>>
                   ELSE <<>>)
                  \o (IF r.offers[c] # 0 THEN <<Obs(nak, Ev(c, r.got), FALSE, r.pool, cleared, kept)>> ELSE <<>>)],
         Obs(nak, Ev(c, r.got), FALSE, pool', offers', leases'))

\* giving back an address that is already in the pool makes SimpleAddressPool.append raise: the handler dies
\* half-way, nothing is sent.  Unreachable in the intended design (invariant NoFault); reachable as built.
RequestFault(c, w, d) ==
  LET r == ReqRes(c, w) IN
  /\ up /\ w # 0 /\ r.fault
  /\ pool' = r.pool /\ offers' = r.offers /\ leases' = r.leases
  /\ UNCHANGED <<up, age>>
  /\ Log("Request", Args(c, w, d), Obs(NoRep, NoEv, TRUE, pool', offers', leases'))

----------------------------------------------------------------------------
(* RELEASE  (exec_release); ci = the ciaddr field, d.ch = the chaddr field    *)

ReleaseBadChaddr(c, ci, d) ==
  /\ up /\ d.ch # c
  /\ UNCHANGED <<up, pool, offers, leases, age>>
  /\ Log("Release", Args(c, ci, d), Obs(NoRep, NoEv, FALSE, pool, offers, leases))
ReleaseUnleased(c, ci, d) ==
  /\ up /\ d.ch = c /\ (leases[c] = 0 \/ leases[c] # ci)
  /\ UNCHANGED <<up, pool, offers, leases, age>>
  /\ Log("Release", Args(c, ci, d), Obs(NoRep, NoEv, FALSE, pool, offers, leases))
\* the lease ends, the address is free again; no reply
ReleaseOk(c, ci, d) ==
  /\ up /\ d.ch = c /\ leases[c] # 0 /\ leases[c] = ci /\ PAppendOK(pool, ci)
  /\ leases' = [leases EXCEPT ![c] = 0]
  /\ pool' = PAppend(pool, ci)
  /\ age' = [age EXCEPT ![c] = 0]
  /\ UNCHANGED <<up, offers>>
  /\ Log("Release", Args(c, ci, d), Obs(NoRep, NoEv, FALSE, pool', offers, leases'))
\* the address is already in the pool (only as built): the lease is deleted, then pool.append raises
ReleaseFault(c, ci, d) ==
  /\ up /\ d.ch = c /\ leases[c] # 0 /\ leases[c] = ci /\ ~PAppendOK(pool, ci)
  /\ leases' = [leases EXCEPT ![c] = 0]
  /\ UNCHANGED <<up, pool, offers, age>>
  /\ Log("Release", Args(c, ci, d), Obs(NoRep, NoEv, TRUE, pool, offers, leases'))

----------------------------------------------------------------------------
(* What the server does not act on.                                           *)

\* DECLINE and INFORM are not implemented ("missing lots of features"): no reply, no change
DeclineIgnored(c, ci, d) ==
  /\ up /\ UNCHANGED <<up, pool, offers, leases, age>>
  /\ Log("Decline", Args(c, ci, d), Obs(NoRep, NoEv, FALSE, pool, offers, leases))
InformIgnored(c, ci, d) ==
  /\ up /\ UNCHANGED <<up, pool, offers, leases, age>>
  /\ Log("Inform", Args(c, ci, d), Obs(NoRep, NoEv, FALSE, pool, offers, leases))
\* frames that are not a DHCP request for this server (kind k: BOOTREPLY, no message type, a server's message
\* type, an unknown type, unicast to another IP address, other UDP ports, bad magic cookie, ...)
JunkIgnored(c, k, d) ==
  /\ up /\ UNCHANGED <<up, pool, offers, leases, age>>
  /\ Log("Junk", Args(c, 0, d) @@ [k |-> k], Obs(NoRep, NoEv, FALSE, pool, offers, leases))
\* a DISCOVER arriving on a port the server is not configured for
NotServed(c, p, d) ==
  /\ up /\ p \in Ports \ Served
  /\ UNCHANGED <<up, pool, offers, leases, age>>
  /\ Log("NotServed", Args(c, 0, [d EXCEPT !.p = p]), Obs(NoRep, NoEv, FALSE, pool, offers, leases))

----------------------------------------------------------------------------
(* Time.  The server announces a lease time (option 51) in every OFFER / ACK. *)

HeldBy(c) == {offers[c], leases[c]} \ {0}
Expiring == {c \in Clients : HeldBy(c) # {} /\ age[c] + 1 >= LeaseTicks}
RECURSIVE AppendAll(_, _)
AppendAll(pl, S) == IF S = {} THEN pl ELSE LET a == CHOOSE a \in S : \A b \in S : a <= b
                                           IN AppendAll(PAppend(pl, a), S \ {a})
\* Intended: a lease that is not renewed within the lease time ends and its address is free again.  An offer
\* that is not taken up is treated the same way (the model gives offers the lifetime of a lease; RFC 2131 only
\* asks that it be limited) - otherwise a client that only ever DISCOVERs keeps an address for good.
TickExpire ==
  /\ Strict /\ up
  /\ leases' = [c \in Clients |-> IF c \in Expiring THEN 0 ELSE leases[c]]
  /\ offers' = [c \in Clients |-> IF c \in Expiring THEN 0 ELSE offers[c]]
  /\ age' = [c \in Clients |-> IF HeldBy(c) # {} /\ c \notin Expiring THEN age[c] + 1 ELSE 0]
  /\ pool' = AppendAll(pool, UNION {HeldBy(c) : c \in Expiring})
  /\ UNCHANGED up
  /\ Log("Tick", [c |-> ""], Obs(NoRep, NoEv, FALSE, pool', offers', leases'))
\* DEVIATION (code as built): "TODO: Actually make them expire" - time changes nothing
TickNoExpiry ==
  /\ ~Strict /\ up
  /\ UNCHANGED <<up, pool, offers, leases, age>>
  /\ Log("Tick", [c |-> ""], Obs(NoRep, NoEv, FALSE, pool, offers, leases))

----------------------------------------------------------------------------
DiscoverNext == \E c \in Clients, w \in Wants : \E d \in Decs(c) :
                  \/ DiscoverLeased(c, w, d) \/ DiscoverOffered(c, w, d) \/ DiscoverExhausted(c, w, d)
                  \/ DiscoverWanted(c, w, d) \/ DiscoverPick(c, w, d)
RequestNext  == \E c \in Clients, w \in Wants \ {0} : \E d \in Decs(c) :
                  \/ RequestNak(c, w, d) \/ RequestAckLease(c, w, d) \/ RequestAckOffer(c, w, d)
                  \/ RequestAckFree(c, w, d) \/ RequestAckKeepsOffer(c, w, d)
                  \/ RequestVetoAborts(c, w, d) \/ RequestVetoKeepsLease(c, w, d, TRUE) \/ RequestVetoKeepsLease(c, w, d, FALSE)
                  \/ RequestFault(c, w, d)
Other(c) == CHOOSE x \in Clients : x # c
ReleaseNext  == \E c \in Clients, ci \in Wants :
                \E d \in [p : Served, x : Xids, bc : Flags, prl : PRLs, ch : IF ChVary THEN Clients ELSE {c, Other(c)}] :
                  \/ ReleaseBadChaddr(c, ci, d) \/ ReleaseUnleased(c, ci, d) \/ ReleaseOk(c, ci, d)
                  \/ ReleaseFault(c, ci, d)
OtherNext    == \/ \E c \in Clients : \E d \in Decs(c) : RequestNoOpt(c, d)
                \/ \E c \in Clients, ci \in Wants : \E d \in Decs(c) : DeclineIgnored(c, ci, d) \/ InformIgnored(c, ci, d)
                \/ \E c \in Clients, k \in JunkKinds : \E d \in Decs(c) : JunkIgnored(c, k, d)
                \/ \E c \in Clients, p \in Ports : \E d \in Decs(c) : NotServed(c, p, d)
Next == ConnUp \/ DiscoverNext \/ RequestNext \/ ReleaseNext \/ OtherNext \/ TickExpire \/ TickNoExpiry

Spec == Init /\ [][Next]_vars
\* for the liveness property: time keeps passing
LiveSpec == Init /\ [][Next]_vars /\ WF_vars(TickExpire)

----------------------------------------------------------------------------
(* Properties, over the real variables.                                       *)

Held(c)  == {offers[c], leases[c]} \ {0}
AllHeld  == UNION {Held(c) : c \in Clients}
MsgActs  == {"Discover", "Request", "Release", "Decline", "Inform", "Junk", "NotServed", "Tick"}

TypeOK == /\ up \in BOOLEAN
          /\ offers \in [Clients -> 0..N] /\ leases \in [Clients -> 0..N] /\ age \in [Clients -> 0..LeaseTicks]
          /\ IF Kind = "simple" THEN pool \subseteq Addrs ELSE pool \in Seq(Addrs)

\* ---- hold in the intended design AND for the code as built
\* a reply carries the request's xid, leaves through the request's ingress port, names the client (Ethernet
\* source) in chaddr, carries message type + server id, and - OFFER/ACK - the lease time and a usable address
ReplyOK ==
  (last.a \in MsgActs /\ last.exp.reply.t # "none") =>
     LET r == last.exp.reply IN
     /\ r.x = last.args.x /\ r.port = last.args.p /\ r.ch = "src"
     /\ {53, 54} \subseteq r.opts
     /\ r.t \in {"OFFER", "ACK"} => (51 \in r.opts /\ r.yi \in Usable)
     /\ r.t = "NAK" => (r.yi = 0 /\ r.opts = {53, 54})
     /\ r.opts \ {53, 54, 51} \subseteq last.args.prl
\* only DISCOVER and REQUEST are ever answered
OnlyAnswers == (last.a \in MsgActs \ {"Discover", "Request"}) => last.exp.reply.t = "none"
\* an ACK is for exactly the address asked for, and records it as the client's lease
AckIsWanted ==
  (last.a = "Request" /\ last.exp.reply.t = "ACK") =>
     last.exp.reply.yi = last.args.w /\ leases[last.args.c] = last.args.w
\* a lease / an offer ends or changes only by a message of its owner (or by expiry): nobody else can take it
OwnerOnly ==
  [][\A c \in Clients : (leases'[c] # leases[c] \/ offers'[c] # offers[c]) =>
        (last'.a = "Tick" \/ last'.args.c = c)]_vars
\* DHCPLease is raised exactly when a REQUEST gets as far as a lease: every ACK has one, for that client+address
EventOK ==
  (last.a \in MsgActs) =>
     /\ (last.exp.reply.t = "ACK" => last.exp.ev = Ev(last.args.c, last.exp.reply.yi))
     /\ (last.exp.ev # NoEv => last.a = "Request" /\ last.exp.reply.t \in {"ACK", "NAK"})

\* ---- the property proper: holds in the intended design (Strict = TRUE)
\* an address is held (offered or leased) by at most one client
NoDoubleHold == \A c1, c2 \in Clients : c1 # c2 => Held(c1) \cap Held(c2) = {}
\* ... in particular: an address is LEASED to at most one client
NoDoubleLease == \A c1, c2 \in Clients : (c1 # c2 /\ leases[c1] # 0) => leases[c1] # leases[c2]
\* a client has an offer or a lease, not both
NotBoth == \A c \in Clients : offers[c] = 0 \/ leases[c] = 0
\* the free addresses are exactly the usable ones nobody holds: nothing leaks, nothing held is on offer to others,
\* the pool never hands out more than it has
Partition == /\ PFree(pool) = Usable \ AllHeld
             /\ AllHeld \subseteq Usable
             /\ Kind = "list" => Len(pool) = Cardinality(SetOfSeq(pool))      \* no address twice in the pool
Bounded == Cardinality(AllHeld) <= Cardinality(Usable)
\* no handler ever dies half-way
NoFault == (last.a \in MsgActs) => ~last.exp.fault
\* OFFER / ACK: the address was the client's own or free before, and nobody else's
GrantOK ==
  [][(last'.a \in {"Discover", "Request"} /\ last'.exp.reply.t \in {"OFFER", "ACK"}) =>
       LET c == last'.args.c
           a == last'.exp.reply.yi IN
       /\ a \in Usable
       /\ (a \in Held(c) \/ PHas(pool, a))
       /\ \A c2 \in Clients \ {c} : a \notin Held(c2)
       /\ IF last'.exp.reply.t = "OFFER" THEN offers'[c] = a /\ leases'[c] = 0
                                        ELSE leases'[c] = a /\ offers'[c] = 0]_vars
\* a REQUEST for an address that is someone else's, or not in the pool at all, is never acknowledged;
\* after a NAK the client holds nothing
NakOK ==
  [][(last'.a = "Request" /\ last'.args.w # 0) =>
       LET c == last'.args.c
           w == last'.args.w IN
       /\ ((w \notin Usable \/ \E c2 \in Clients \ {c} : w \in Held(c2)) => last'.exp.reply.t = "NAK")
       /\ (last'.exp.reply.t = "NAK" => offers'[c] = 0 /\ leases'[c] = 0)]_vars
\* an address comes back into the pool only from the one client that held it, and that client lets go of it
ReturnedOnce ==
  [][\A a \in Addrs : (~PHas(pool, a) /\ PHas(pool', a)) =>
        /\ Cardinality({c \in Clients : a \in Held(c)}) = 1
        /\ \A c \in Clients : a \notin {offers'[c], leases'[c]}]_vars
\* RELEASE of the client's lease frees exactly that address; any other RELEASE changes nothing
ReleaseOK ==
  [][last'.a = "Release" =>
       LET c == last'.args.c IN
       IF last'.args.ch = c /\ leases[c] # 0 /\ leases[c] = last'.args.w
       THEN leases'[c] = 0 /\ PFree(pool') = PFree(pool) \cup {leases[c]}
       ELSE pool' = pool /\ leases' = leases /\ offers' = offers]_vars
\* expiry: after LeaseTicks ticks without renewal the lease (or offer) is gone and the address is free
ExpiryOK ==
  [][last'.a = "Tick" =>
       \A c \in Clients : Held(c) # {} =>
          IF age[c] + 1 >= LeaseTicks THEN Held(c)' = {} /\ \A a \in Held(c) : PHas(pool', a)
                                      ELSE leases'[c] = leases[c] /\ offers'[c] = offers[c] /\ age'[c] = age[c] + 1]_vars
NoStaleLease == \A c \in Clients : Held(c) # {} => age[c] < LeaseTicks
\* liveness (LiveSpec): what a client holds is given up - or refreshed by its owner - whatever everybody else does
LeaseEnds == \A c \in Clients : (Held(c) # {}) ~> (Held(c) = {} \/ age[c] = 0)
\* ... and an address that is held is eventually free again, or its holder has refreshed it
AddressReturns == \A a \in Addrs : (\E c \in Clients : a \in Held(c) /\ age[c] > 0) ~>
                                      (PHas(pool, a) \/ \E c \in Clients : a \in Held(c) /\ age[c] = 0)

\* The invariants that talk about the observation `last` as action properties: TLC evaluates an action property on
\* every transition it generates, also those into states it has already seen, so `last` can be left out of the
\* VIEW (the state graph stays small) without skipping a single observation.
LastOK   == ReplyOK /\ OnlyAnswers /\ AckIsWanted /\ EventOK
LastOKa  == [][LastOK']_vars
NoFaulta == [][NoFault']_vars

\* As built, a python list used as pool can grow without bound (the same address appended again and again):
\* state constraint for the exhaustive runs of that model
PoolBound == Kind = "list" => Len(pool) <= N + 1

\* ---- export for the replay harness
Bound   == Len(hist) <= D
Export  == (Len(hist) = D) => PrintT(<<"H", ToJson(hist)>>)
ExportT == PrintT(<<"T", ToJson(hist')>>)
=============================================================================
