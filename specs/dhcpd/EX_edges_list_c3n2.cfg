CONSTANTS
  Clients <- C3
  N = 2
  Srv = 0
  Kind = "list"
  Ports <- P2
  Served <- P1
  Xids <- X1
  Flags <- F1
  PRLs <- PRL1
  ChVary = FALSE
  HasRouter = TRUE
  HasDns = TRUE
  Veto <- Veto3
  LeaseTicks = 2
  Strict = FALSE
  Both = FALSE
  PickMode = "impl"
  JunkKinds <- J1
  KeepHist = TRUE
  D = 0
INIT Init
NEXT Next
VIEW viewE
ACTION_CONSTRAINT ExportT
CONSTRAINT PoolBound
CHECK_DEADLOCK FALSE
