---- MODULE TraceDhcpd ----
(* Code -> spec: traces recorded from the real server (random client populations, props/X01.py:drive) must be *)
(* behaviours of Dhcpd.tla; the invariants are evaluated at every matched step.                               *)
EXTENDS MCDhcpd, IOUtils, TLCExt

Traces == JsonDeserialize(IOEnv.TRACE_FILE)
NT == Len(Traces)
VARIABLES tid, l
tvars == <<vars, tid, l>>

TrInit == Init /\ tid \in 1..NT /\ l = 1 /\ TLCSet(tid, 0)
Cur == Traces[tid][l]
IsEvent(e) == l <= Len(Traces[tid]) /\ Cur.a = e /\ l' = l + 1 /\ UNCHANGED tid

DecOf(g) == [p |-> g.p, x |-> g.x, bc |-> g.bc, prl |-> ToSet(g.prl), ch |-> g.ch]
\* the spec's expected observation e is the logged observation o (JSON: sets are arrays)
ObsEq(e, o) ==
  /\ e.reply.t = o.reply.t /\ e.reply.yi = o.reply.yi /\ e.reply.x = o.reply.x /\ e.reply.to = o.reply.to
  /\ e.reply.port = o.reply.port /\ e.reply.ch = o.reply.ch /\ e.reply.opts = ToSet(o.reply.opts)
  /\ e.ev.c = o.ev.c /\ e.ev.a = o.ev.a
  /\ e.fault = o.fault
  /\ \A c \in Clients : e.offers[c] = o.offers[c] /\ e.leases[c] = o.leases[c]
  /\ e.free = (IF Kind = "simple" THEN ToSet(o.free) ELSE o.free)

TrConnUp == IsEvent("ConnUp") /\ Cur.wf /\ ConnUp /\ last'.exp.flows = Cur.obs.flows
TrDiscover ==
  /\ IsEvent("Discover") /\ Cur.wf
  /\ LET g == Cur.args
         d == DecOf(Cur.args) IN
     \/ DiscoverLeased(g.c, g.w, d) \/ DiscoverOffered(g.c, g.w, d) \/ DiscoverExhausted(g.c, g.w, d)
     \/ DiscoverWanted(g.c, g.w, d) \/ DiscoverPick(g.c, g.w, d)
  /\ ObsEq(last'.exp, Cur.obs)
TrRequest ==
  /\ IsEvent("Request") /\ Cur.wf
  /\ LET g == Cur.args
         d == DecOf(Cur.args) IN
     \/ (g.w = 0 /\ RequestNoOpt(g.c, d))
     \/ RequestNak(g.c, g.w, d) \/ RequestAckLease(g.c, g.w, d) \/ RequestAckOffer(g.c, g.w, d)
     \/ RequestAckFree(g.c, g.w, d) \/ RequestAckKeepsOffer(g.c, g.w, d)
     \/ RequestVetoAborts(g.c, g.w, d) \/ RequestVetoKeepsLease(g.c, g.w, d, TRUE) \/ RequestVetoKeepsLease(g.c, g.w, d, FALSE) \/ RequestFault(g.c, g.w, d)
  /\ ObsEq(last'.exp, Cur.obs)
TrRelease ==
  /\ IsEvent("Release") /\ Cur.wf
  /\ LET g == Cur.args
         d == DecOf(Cur.args) IN
     \/ ReleaseBadChaddr(g.c, g.w, d) \/ ReleaseUnleased(g.c, g.w, d) \/ ReleaseOk(g.c, g.w, d)
     \/ ReleaseFault(g.c, g.w, d)
  /\ ObsEq(last'.exp, Cur.obs)
TrDecline == IsEvent("Decline") /\ Cur.wf /\ DeclineIgnored(Cur.args.c, Cur.args.w, DecOf(Cur.args)) /\ ObsEq(last'.exp, Cur.obs)
TrInform  == IsEvent("Inform") /\ Cur.wf /\ InformIgnored(Cur.args.c, Cur.args.w, DecOf(Cur.args)) /\ ObsEq(last'.exp, Cur.obs)
TrJunk    == IsEvent("Junk") /\ Cur.wf /\ JunkIgnored(Cur.args.c, Cur.args.k, DecOf(Cur.args)) /\ ObsEq(last'.exp, Cur.obs)
TrNotServed == IsEvent("NotServed") /\ Cur.wf /\ NotServed(Cur.args.c, Cur.args.p, DecOf(Cur.args)) /\ ObsEq(last'.exp, Cur.obs)
TrTick    == IsEvent("Tick") /\ Cur.wf /\ (TickExpire \/ TickNoExpiry) /\ ObsEq(last'.exp, Cur.obs)

TrNext == TrConnUp \/ TrDiscover \/ TrRequest \/ TrRelease \/ TrDecline \/ TrInform \/ TrJunk \/ TrNotServed \/ TrTick
TrSpec == TrInit /\ [][TrNext]_tvars

Progress == TLCSet(tid, IF TLCGet(tid) < l - 1 THEN l - 1 ELSE TLCGet(tid))
Ok(t) == TLCGet(t) = Len(Traces[t]) \/ (PrintT(<<"REJECT", t, TLCGet(t)>>) /\ FALSE)
Accepted == /\ PrintT(<<"TRACES-CHECKED", NT>>)
            /\ Cardinality({t \in 1..NT : ~Ok(t)}) = 0
====
