---- MODULE TraceSwitchRPC ----
(* Code -> spec: request histories recorded on the real switch must be       *)
(* behaviours of SwitchRPC.tla.  Requests are delivered in BATCHES (several  *)
(* messages in one read, arbitrarily segmented): the first event of a batch  *)
(* carries the whole stream of messages the switch wrote for the batch, and  *)
(* each request must account for the next piece of that stream - one of the  *)
(* alternative outputs the spec allows for it - so replies must appear in    *)
(* request order, each exactly once, and nothing may be left over.           *)
EXTENDS MCSwitchRPC, IOUtils, TLCExt, SequencesExt

Traces == JsonDeserialize(IOEnv.TRACE_FILE)
NT == Len(Traces)
VARIABLES tid, l, rest
tvars == <<vars, tid, l, rest>>

TrInit == Init /\ tid \in 1..NT /\ l = 1 /\ rest = <<>> /\ TLCSet(tid, 0)
Ev == Traces[tid][l]

Dispatch(a, g) ==
  \/ a = "Hello"        /\ Hello(g.xid)
  \/ a = "EchoReq"      /\ EchoReq(g.xid, g.body)
  \/ a = "EchoReply"    /\ EchoReply(g.xid)
  \/ a = "FeaturesReq"  /\ FeaturesReq(g.xid)
  \/ a = "GetConfigReq" /\ GetConfigReq(g.xid)
  \/ a = "SetConfig"    /\ SetConfig(g.xid, g.flags, g.ml)
  \/ a = "BarrierReq"   /\ BarrierReq(g.xid)
  \/ a = "Vendor"       /\ Vendor(g.xid)
  \/ a = "BadType"      /\ BadType(g.xid)
  \/ a = "BadLen"       /\ BadLen(g.xid, LenKindOf(g.k)) /\ last'.args.cls = g.cls
  \/ a = "PacketOut"    /\ PacketOut(g.xid, g.src, g.act) /\ last'.args.slot = g.slot
  \/ a = "FlowMod"      /\ FlowMod(g.xid, g.cmd, g.f, g.buf) /\ last'.args.slot = g.slot
  \/ a = "PortMod"      /\ PortMod(g.xid, g.kind, g.p, g.dn) /\ last'.args.p = g.p
  \/ a = "StatsReq" /\ g.st = "DESC"      /\ StatsDesc(g.xid)
  \/ a = "StatsReq" /\ g.st = "FLOW"      /\ StatsFlow(g.xid, g.tb, g.m, g.outp)
  \/ a = "StatsReq" /\ g.st = "AGGREGATE" /\ StatsAggr(g.xid, g.tb, g.m, g.outp)
  \/ a = "StatsReq" /\ g.st = "TABLE"     /\ StatsTable(g.xid)
  \/ a = "StatsReq" /\ g.st = "PORT"      /\ StatsPort(g.xid, g.p)
  \/ a = "StatsReq" /\ g.st = "QUEUE"     /\ StatsQueue(g.xid, g.p, g.q)
  \/ a = "StatsReq" /\ g.st = "VENDOR"    /\ StatsVendor(g.xid)
  \/ a = "StatsReq" /\ g.st = "UNKNOWN"   /\ StatsUnknown(g.xid)
  \/ a = "QueueCfgReq"  /\ QueueCfgReq(g.xid, g.p)
  \/ a = "Rx"           /\ Rx(g.p, g.k)

IsPre(s, t) == Len(s) <= Len(t) /\ SubSeq(t, 1, Len(s)) = s

TrStep ==
  /\ l <= Len(Traces[tid])
  /\ l' = l + 1 /\ UNCHANGED tid
  /\ Ev.wf
  /\ Dispatch(Ev.a, Ev.args)
  /\ LET cur == IF Ev.first THEN Ev.stream ELSE rest IN
     \E i \in DOMAIN last'.exp.outs :
        /\ IsPre(last'.exp.outs[i], cur)
        /\ rest' = SubSeq(cur, Len(last'.exp.outs[i]) + 1, Len(cur))
  /\ (Ev.lastb => rest' = <<>>)

TrNext == TrStep
TrSpec == TrInit /\ [][TrNext]_tvars

Progress == TLCSet(tid, IF TLCGet(tid) < l - 1 THEN l - 1 ELSE TLCGet(tid))
Ok(t) == TLCGet(t) = Len(Traces[t]) \/ (PrintT(<<"REJECT", t, TLCGet(t)>>) /\ FALSE)
Accepted == /\ PrintT(<<"TRACES-CHECKED", NT>>)
            /\ Cardinality({t \in 1..NT : ~Ok(t)}) = 0
====
