---- MODULE MCSwitchRPC ----
EXTENDS SwitchRPC, IOUtils
MCXids2 == <<"x1", "x2">>
MCXids3 == <<"x1", "x2", "x3">>
MCNoSkip == {}
\* tags whose expected answer the unpatched tree does not give (open findings):
\* removed from Next in the "deep" simulation so that long behaviours are not
\* all cut short at the first known deviation
MCSkipOpen == {}     \* (no finding is open at present)
MCXids1 == <<"x1">>
\* edge-cover exports: freeze one group of dimensions, cover every transition of the rest
FrozenCfg   == ml = 128 /\ fl = 0 /\ BoundedE
FrozenTable == fs = {} /\ look = 0 /\ (\A p \in Ports : prx[p] = 0 /\ ptx[p] = 0) /\ (\A s \in 1..NB : pool[s] = 0)
\* Edge cover of a deterministic 1/SAMPLE_N slice of the SOURCE states (environment
\* C13_SAMPLE_N, C13_SAMPLE_K): every kind of transition is still exported from the
\* chosen states; the quick tier uses N = 8 with K taken from the seed.
B2N(b) == IF b THEN 1 ELSE 0
StateHash == look + 2 * mat + 3 * Cardinality(fs) + 5 * fpk["f1"] + 7 * fpk["f2"]
             + prx[1] + 3 * prx[2] + 5 * ptx[1] + 7 * ptx[2]
             + B2N(down[1]) + 2 * B2N(down[2]) + pool[1] + B2N("f3" \in fs) + 2 * B2N("f1" \in fs)
ExportQ == IF ToString(StateHash % 8) = IOEnv.C13_SAMPLE_K THEN ExportT ELSE TRUE
ExportH == IF ToString(StateHash % 2) = IOEnv.C13_SAMPLE_K THEN ExportT ELSE TRUE
\* quick tier: states with the fragment-handling flag set are generated and checked
\* (every transition into them) but not expanded; MC_full1q and the thorough tier expand them
BoundedQ == Bounded /\ fl = 0
====
