---- MODULE MCSwitchRPC ----
EXTENDS SwitchRPC
MCXids2 == <<"x1", "x2">>
MCXids3 == <<"x1", "x2", "x3">>
MCNoSkip == {}
\* tags whose expected answer the unpatched tree does not give (open findings):
\* removed from Next in the "deep" simulation so that long behaviours are not
\* all cut short at the first known deviation
MCSkipOpen == {"FlowMod-addbad-none"}
MCXids1 == <<"x1">>
\* edge-cover exports: freeze one group of dimensions, cover every transition of the rest
FrozenCfg   == ml = 128 /\ fl = 0 /\ BoundedE
FrozenTable == fs = {} /\ look = 0 /\ (\A p \in Ports : prx[p] = 0 /\ ptx[p] = 0) /\ (\A s \in 1..NB : pool[s] = 0)
====
