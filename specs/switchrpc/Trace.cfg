CONSTANTS NP = 2
  NB = 1
  MaxEntries = 2
  Xids <- MCXids3
  RotXid = FALSE
  Cap = 99
  D = 0
  Skip <- MCNoSkip
  ResOut = 65533
  ResOther = 65531
  Pipe = "never"
  MaxBurst = 3
  LenSet = "all"
  Thin = FALSE
INIT TrInit
NEXT TrNext
CONSTRAINT Progress
POSTCONDITION Accepted
INVARIANT TypeOK
INVARIANT Ordered
INVARIANT MatchedAccounted
CHECK_DEADLOCK FALSE
