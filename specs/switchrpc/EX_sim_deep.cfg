CONSTANTS NP = 2
  NB = 1
  MaxEntries = 2
  Xids <- MCXids3
  RotXid = FALSE
  Cap = 99
  D = 40
  Skip <- MCSkipOpen
  ResOut = 65531
  ResOther = 65532
  Pipe = "never"
  MaxBurst = 3
  LenSet = "all"
  Thin = FALSE
INIT Init
NEXT Next
INVARIANT Export
CHECK_DEADLOCK FALSE
