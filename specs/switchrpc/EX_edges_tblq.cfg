CONSTANTS NP = 2
  NB = 1
  MaxEntries = 2
  Xids <- MCXids3
  RotXid = TRUE
  Cap = 1
  D = 0
  Skip <- MCNoSkip
  ResOut = 65533
  ResOther = 65531
  Pipe = "never"
  MaxBurst = 3
  LenSet = "all"
  Thin = FALSE
INIT Init
NEXT Next
VIEW viewE
CONSTRAINT FrozenCfg
ACTION_CONSTRAINT ExportQ
CHECK_DEADLOCK FALSE
