CONSTANTS NP = 2
  NB = 1
  MaxEntries = 2
  Xids <- MCXids3
  RotXid = FALSE
  Cap = 99
  D = 40
  Skip <- MCNoSkip
  ResOut = 65533
  ResOther = 65531
  Pipe = "any"
  MaxBurst = 3
  LenSet = "all"
  Thin = FALSE
INIT Init
NEXT Next
INVARIANT Export
CHECK_DEADLOCK FALSE
