CONSTANTS NP = 3
  NB = 2
  MaxEntries = 1
  Xids <- MCXids3
  RotXid = FALSE
  Cap = 99
  D = 40
  Skip <- MCNoSkip
  Thin = FALSE
INIT Init
NEXT Next
INVARIANT Export
CHECK_DEADLOCK FALSE
