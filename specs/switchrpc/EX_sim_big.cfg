CONSTANTS NP = 3
  NB = 2
  MaxEntries = 1
  Xids <- MCXids3
  RotXid = FALSE
  Cap = 99
  D = 40
  Skip <- MCNoSkip
  ResOut = 65534
  ResOther = 65529
  Pipe = "any"
  MaxBurst = 3
  LenSet = "all"
  Thin = FALSE
INIT Init
NEXT Next
INVARIANT Export
CHECK_DEADLOCK FALSE
