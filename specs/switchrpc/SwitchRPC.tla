---------------------------- MODULE SwitchRPC ----------------------------
(* C13: the request/reply discipline of the OpenFlow 1.0 software switch.  *)
(*                                                                          *)
(* One action per controller-to-switch message type (13 types; the          *)
(* statistics request has one variant per statistics type), each with the   *)
(* valid and invalid argument classes the property quantifies over, plus    *)
(* one environment action (a frame arriving on a port) that moves the       *)
(* counters the replies report.  Every action logs what an observer of the  *)
(* OpenFlow channel must see: `exp.outs` is a tuple of ALTERNATIVE complete *)
(* output sequences (one element where the standard fixes the answer,       *)
(* several where it names several acceptable answers, DESIGN 2.8).          *)
(*                                                                          *)
(* The abstract switch state is only what replies report: configuration,    *)
(* the set of installed flows with their packet counts (two fixed disjoint  *)
(* flows; flow-table semantics proper are C04), lookup/matched counters,    *)
(* per-port rx/tx counters and PORT_DOWN bits, and which packet buffers are *)
(* outstanding (buffer semantics proper are C18).                           *)
(*                                                                          *)
(* Transaction ids are symbols: the spec uses them only under equality, the *)
(* replay adapter maps them injectively to boundary 32-bit values.          *)
(*                                                                          *)
(* Round 4: `BadLen` = a message of any of these types whose length field   *)
(* is wrong for the type; and PIPELINING - several controller messages may  *)
(* sit in the switch's receive buffer before the switch reads it (`more`,   *)
(* `nheld`, `held`, `exp.see`): the answers must then appear, one per       *)
(* message, in the order the messages were written, each echoing (xid,      *)
(* quoted bytes) the message it answers and not a neighbour in the buffer.  *)
EXTENDS Naturals, Sequences, FiniteSets, TLC, Json

CONSTANTS NP,          \* physical ports 1..NP  (NP >= 2)
          NB,          \* packet buffers
          MaxEntries,  \* flow table capacity
          Xids,        \* sequence of xid symbols
          RotXid,      \* TRUE: xid of step i is Xids[i mod Len] (export); FALSE: any
          Cap,         \* bound on counters (state constraint of the exhaustive runs)
          D,           \* export depth
          Skip,        \* action tags removed from Next (deep simulation around open findings)
          ResOut,      \* the reserved port (OFPP_CONTROLLER, FLOOD, ...) flow f3 outputs to
          ResOther,    \* another reserved port, which no flow outputs to
          Thin,        \* TRUE: one or two representatives per argument class (all paths, depth 3)
          Pipe,        \* pipelining of controller messages in ONE receive buffer of the switch:
                       \* "never" (each message is read on its own), "always" (path export: the
                       \* D messages of a path arrive in one buffer), "any" (every segmentation
                       \* into bursts of at most MaxBurst messages)
          MaxBurst,    \* longest burst (Pipe = "any")
          LenSet       \* "all": every malformed-length kind; "class": one per class and message family

Ports   == 1..NP
Absent  == 9           \* a port number below OFPP_MAX that the switch does not have
BadAct  == 65000       \* stands for an action of a type the switch does not support
PAll    == 65532       \* OFPP_ALL
PNone   == 65535       \* OFPP_NONE
Flows   == {"f1", "f2", "f3"}
FlowOrder == <<"f1", "f2", "f3">>
\* the flow's single output action: two physical ports and a reserved one.  No
\* frame of the model matches f3 (what output to a reserved port does is C12's);
\* it exists for what flow / aggregate statistics must report and filter.
OutOf(f) == CASE f = "f1" -> 2 [] f = "f2" -> 1 [] f = "f3" -> ResOut
RxKinds == {"f1", "f2", "miss"}
FrameLen == 60                             \* every dataplane frame of the model
MissLens == {0, 128, 65535}
Bodies   == {"", "b1"}                     \* echo payload symbols

\* error types / codes of OpenFlow 1.0
ET == [badreq |-> 1, badact |-> 2, flowmod |-> 3, portmod |-> 4, queue |-> 5]

VARIABLES ml, fl,        \* miss_send_len, config flags
          fs, fpk,       \* installed flows, packets matched per flow
          look, mat,     \* table lookup / matched counters
          prx, ptx,      \* per-port received / transmitted frames
          down,          \* per-port PORT_DOWN
          pool,          \* [1..NB -> 0..NP+1]: ingress port of the buffered frame, 0 = free,
                         \* NP+1 = limbo (see Limbo)
          pendq,         \* xids of requests received and not yet answered, oldest first
          nheld, held,   \* pipelining: number of messages the controller has written that the
                         \* switch has not read yet (they share one receive buffer with the next
                         \* message), and the alternative output streams owed to them
          last, hist     \* observation of the last action / all of them (export)

wire  == <<ml, fl, fs, fpk, look, mat, prx, ptx, down>>   \* what replies report
state == <<wire, pool>>
vars  == <<state, pendq, nheld, held, last, hist>>
view  == <<state, pendq, nheld>>          \* exhaustive runs: observations hidden (the
                                          \* property is stated on transitions, which TLC
                                          \* evaluates for every generated transition)
viewE == <<state>>                        \* edge-cover export: one node per abstract state
\* pipelining model: states also told apart by the KINDS of answers owed (the
\* order in which owed answers and the next answer are put together must not be
\* hidden behind a representative that owes nothing)
viewP == <<state, pendq, nheld, [i \in DOMAIN held[1] |-> held[1][i].t]>>

----------------------------------------------------------------------------
(* Messages written by the switch.                                          *)

\* `data` of an error: the OpenFlow type of the message it quotes (filled in by Log:
\* the error must quote the very request it answers - at least its first 64 bytes -
\* not a neighbour in the receive buffer)
Err(x, et, c) == [t |-> "ERROR", xid |-> x, et |-> et, code |-> c, data |-> "?"]
\* one alternative output sequence per acceptable error code
ErrAlts(x, et, codes) == [i \in 1..Len(codes) |-> <<Err(x, et, codes[i])>>]
None == << <<>> >>                         \* the only acceptable output: nothing
One(m) == << <<m>> >>

\* what a barrier reply certifies, and what the probe after a step reads back
FlowSeq(S, pk) == \* flows of S in name order with their counters
  LET RECURSIVE Go(_)
      Go(i) == IF i > Len(FlowOrder) THEN <<>>
               ELSE LET f == FlowOrder[i] IN
                    (IF f \in S THEN <<[f |-> f, pk |-> pk[f], by |-> pk[f] * FrameLen]>> ELSE <<>>)
                    \o Go(i + 1)
  IN Go(1)
PortSeq(S, rx, tx) == \* S a subset of Ports, ascending
  LET RECURSIVE Go(_)
      Go(p) == IF p > NP THEN <<>>
               ELSE (IF p \in S THEN <<[no |-> p, rx |-> rx[p], tx |-> tx[p],
                                        rxb |-> rx[p] * FrameLen, txb |-> tx[p] * FrameLen]>>
                     ELSE <<>>) \o Go(p + 1)
  IN Go(1)
Snap(m, f, s, d) == [ml |-> m, fl |-> f, nflows |-> Cardinality(s),
                     down |-> [p \in Ports |-> d[p]]]
Digest(m, f, s, pk, d, rx, tx) ==
  [ml |-> m, fl |-> f, flows |-> FlowSeq(s, pk),
   ports |-> [p \in Ports |-> [no |-> p, down |-> d[p], rx |-> rx[p], tx |-> tx[p]]]]

NoObs == [a |-> "Init", tag |-> "Init", args |-> [xid |-> "-", more |-> FALSE],
          exp |-> [outs |-> None, see |-> None, st |-> 0]]

Init == /\ ml = 128 /\ fl = 0
        /\ fs = {} /\ fpk = [f \in Flows |-> 0]
        /\ look = 0 /\ mat = 0
        /\ prx = [p \in Ports |-> 0] /\ ptx = [p \in Ports |-> 0]
        /\ down = [p \in Ports |-> FALSE]
        /\ pool = [s \in 1..NB |-> 0]
        /\ pendq = <<>>
        /\ nheld = 0 /\ held = None
        /\ last = NoObs /\ hist = <<>>

\* xids of the replies / errors in an output sequence (asynchronous messages
\* - packet-in - are not answers)
AnsXids(out) == LET RECURSIVE Go(_)
                    Go(i) == IF i > Len(out) THEN <<>>
                             ELSE (IF out[i].t = "PACKET_IN" THEN <<>> ELSE <<out[i].xid>>) \o Go(i + 1)
                IN Go(1)

\* answers must come oldest request first: an answer that is not for the head
\* of the queue poisons it
Settle(q, ans) == IF ans = <<>> THEN q
                  ELSE IF Len(ans) <= Len(q) /\ SubSeq(q, 1, Len(ans)) = ans
                       THEN SubSeq(q, Len(ans) + 1, Len(q))
                       ELSE <<"OUT-OF-ORDER">>

Requests == {"EchoReq", "FeaturesReq", "GetConfigReq", "BarrierReq", "StatsReq", "QueueCfgReq"}

----------------------------------------------------------------------------
(* Malformed lengths: a message of a controller-to-switch type whose length *)
(* field (>= 8, so the framing stays usable) is wrong for that type.        *)
(* cls: "long" (a fixed-size message with trailing bytes), "short" (shorter *)
(* than the fixed part of its type), "body" (statistics request whose body  *)
(* has the wrong size for the statistics type), "inner" (an embedded action *)
(* length of 0 / running past the end of the message).  ty: the OpenFlow    *)
(* type of the message (what the error must quote).                         *)
LK(k, cls, ty) == [k |-> k, cls |-> cls, ty |-> ty]
LenKinds ==
  { LK("features+", "long", "FEATURES_REQUEST"), LK("getcfg+", "long", "GET_CONFIG_REQUEST"),
    LK("barrier+", "long", "BARRIER_REQUEST"), LK("setcfg+", "long", "SET_CONFIG"),
    LK("portmod+", "long", "PORT_MOD"), LK("qcfg+", "long", "QUEUE_GET_CONFIG_REQUEST"),
    LK("setcfg-", "short", "SET_CONFIG"), LK("portmod-", "short", "PORT_MOD"),
    LK("qcfg-", "short", "QUEUE_GET_CONFIG_REQUEST"), LK("flowmod-", "short", "FLOW_MOD"),
    LK("packetout-", "short", "PACKET_OUT"), LK("stats-", "short", "STATS_REQUEST"),
    LK("vendor-", "short", "VENDOR"),
    LK("desc+", "body", "STATS_REQUEST"), LK("table+", "body", "STATS_REQUEST"),
    LK("flow-", "body", "STATS_REQUEST"), LK("flow+", "body", "STATS_REQUEST"),
    LK("aggr-", "body", "STATS_REQUEST"), LK("port-", "body", "STATS_REQUEST"),
    LK("port+", "body", "STATS_REQUEST"), LK("queue-", "body", "STATS_REQUEST"),
    LK("flowmod-act0", "inner", "FLOW_MOD"), LK("flowmod-actover", "inner", "FLOW_MOD"),
    LK("packetout-act0", "inner", "PACKET_OUT"), LK("packetout-actover", "inner", "PACKET_OUT") }
LenKindOf(k) == CHOOSE r \in LenKinds : r.k = k

\* the OpenFlow type of the message an action stands for
TypeOf(a, args) ==
  CASE a = "Hello" -> "HELLO" [] a = "EchoReq" -> "ECHO_REQUEST" [] a = "EchoReply" -> "ECHO_REPLY"
    [] a = "FeaturesReq" -> "FEATURES_REQUEST" [] a = "GetConfigReq" -> "GET_CONFIG_REQUEST"
    [] a = "SetConfig" -> "SET_CONFIG" [] a = "BarrierReq" -> "BARRIER_REQUEST"
    [] a = "Vendor" -> "VENDOR" [] a = "BadType" -> "UNDEFINED"
    [] a = "PacketOut" -> "PACKET_OUT" [] a = "FlowMod" -> "FLOW_MOD" [] a = "PortMod" -> "PORT_MOD"
    [] a = "StatsReq" -> "STATS_REQUEST" [] a = "QueueCfgReq" -> "QUEUE_GET_CONFIG_REQUEST"
    [] a = "BadLen" -> LenKindOf(args.k).ty
    [] OTHER -> "-"

\* every error of outs quotes the message of type ty
Quoting(outs, ty) ==
  [i \in DOMAIN outs |->
     [j \in DOMAIN outs[i] |-> IF outs[i][j].t = "ERROR" THEN [outs[i][j] EXCEPT !.data = ty]
                               ELSE outs[i][j]]]

\* every way of continuing an alternative of H by an alternative of O
Cross(H, O) == [k \in 1..(Len(H) * Len(O)) |->
                  H[((k - 1) \div Len(O)) + 1] \o O[((k - 1) % Len(O)) + 1]]

\* May the NEXT controller message share the receive buffer with this one
\* (more = TRUE: the switch reads nothing yet, the answer is owed)?  A frame on the
\* dataplane is not part of the controller's byte stream and arrives only
\* between bursts.
MoreNow(a) ==
  IF a = "Rx" THEN {FALSE}
  ELSE CASE Pipe = "never"  -> {FALSE}
         [] Pipe = "always" -> {Len(hist) + 1 < D}
         [] OTHER -> IF nheld + 1 < MaxBurst /\ Len(hist) + 1 # D THEN BOOLEAN ELSE {FALSE}

\* Must be the LAST conjunct of an action (it reads the primed state).
\* exp.outs: the alternative answers to THIS message; exp.see: what the observer
\* of the channel sees when the step ends - nothing while the message waits in
\* the receive buffer, and when the buffer is read the answers to all messages
\* of the burst, in the order the messages were written, nothing else.
Log(a, tag, args0, outs0) ==
  \E more \in MoreNow(a) :
  LET args == args0 @@ [more |-> more]
      outs == Quoting(outs0, TypeOf(a, args0))
      owed == Cross(held, outs)
      e == [a |-> a, tag |-> tag, args |-> args,
            exp |-> [outs |-> outs, see |-> IF more THEN None ELSE owed,
                     st |-> Digest(ml', fl', fs', fpk', down', prx', ptx')]]
  IN /\ tag \notin Skip
     /\ (a = "Rx" => nheld = 0 /\ Pipe # "always")
     /\ last' = e
     /\ hist' = Append(hist, e)
     /\ nheld' = IF more THEN nheld + 1 ELSE 0
     /\ held' = IF more THEN owed ELSE None
     /\ pendq' = Settle(IF a \in Requests THEN Append(pendq, args.xid) ELSE pendq,
                         IF a \in Requests THEN AnsXids(outs[1]) ELSE <<>>)

CfgUnch   == UNCHANGED <<ml, fl>>
TblUnch   == UNCHANGED <<fs, fpk, look, mat>>
PortUnch  == UNCHANGED <<prx, ptx, down>>
AllUnch   == UNCHANGED state

----------------------------------------------------------------------------
(* Symmetric / configuration messages.                                      *)

\* a HELLO after the handshake needs no answer
Hello(x) == AllUnch /\ Log("Hello", "Hello", [xid |-> x], None)

EchoReq(x, b) ==
  AllUnch /\ Log("EchoReq", "EchoReq", [xid |-> x, body |-> b],
                 One([t |-> "ECHO_REPLY", xid |-> x, body |-> b]))

EchoReply(x) == AllUnch /\ Log("EchoReply", "EchoReply", [xid |-> x], None)

FeaturesReq(x) ==
  AllUnch /\ Log("FeaturesReq", "FeaturesReq", [xid |-> x],
                 One([t |-> "FEATURES_REPLY", xid |-> x, dpid |-> "ok", nbuf |-> NB,
                      ports |-> [p \in Ports |-> [no |-> p, down |-> down[p]]]]))

GetConfigReq(x) ==
  AllUnch /\ Log("GetConfigReq", "GetConfigReq", [xid |-> x],
                 One([t |-> "GET_CONFIG_REPLY", xid |-> x, flags |-> fl, ml |-> ml]))

SetConfig(x, f, m) ==
  /\ ml' = m /\ fl' = f
  /\ TblUnch /\ PortUnch /\ UNCHANGED pool
  /\ Log("SetConfig", "SetConfig", [xid |-> x, flags |-> f, ml |-> m], None)

\* the reply certifies the state reached by everything received before it
BarrierReq(x) ==
  AllUnch /\ Log("BarrierReq", "BarrierReq", [xid |-> x],
                 One([t |-> "BARRIER_REPLY", xid |-> x, st |-> Snap(ml, fl, fs, down)]))

\* no vendor extension is supported (OpenFlow 1.0 section 5.5.4)
Vendor(x) == AllUnch /\ Log("Vendor", "Vendor", [xid |-> x],
                            ErrAlts(x, ET.badreq, <<3>>))          \* BAD_VENDOR

\* a message type the protocol does not define
BadType(x) == AllUnch /\ Log("BadType", "BadType", [xid |-> x],
                             ErrAlts(x, ET.badreq, <<1>>))         \* BAD_TYPE

\* a message whose length is wrong for its type is refused whole, whatever it asked
\* for: exactly one BAD_REQUEST/BAD_LEN error (an embedded action length may be
\* reported as BAD_ACTION/BAD_LEN instead) with its xid, quoting it; no reply, no effect
BadLen(x, r) ==
  AllUnch /\ Log("BadLen", "BadLen-" \o r.cls, [xid |-> x, k |-> r.k, cls |-> r.cls],
                 IF r.cls = "inner" THEN ErrAlts(x, ET.badreq, <<6>>) \o ErrAlts(x, ET.badact, <<1>>)
                 ELSE ErrAlts(x, ET.badreq, <<6>>))

----------------------------------------------------------------------------
(* Dataplane: forwarding of one frame to port q, ingress port inp (0: none) *)

Emits(q, inp) == q \in Ports /\ q # inp /\ ~down[q]
TxAfter(q, inp) == IF Emits(q, inp) THEN [ptx EXCEPT ![q] = @ + 1] ELSE ptx

\* A buffer named by a message whose action list the switch rejects (or may
\* reject) is in LIMBO afterwards: OpenFlow 1.0 does not say whether the buffer
\* was consumed, so the spec neither uses the slot again nor lets a frame be
\* buffered (no table miss) while a slot is in limbo - the histories explored
\* simply avoid the question (buffer life cycle proper is C18).
Limbo     == NP + 1
OccSlots  == {s \in 1..NB : pool[s] \in 1..NP}
FreeSlots == {s \in 1..NB : pool[s] = 0}
NoLimbo   == \A s \in 1..NB : pool[s] # Limbo
Rejects(act) == act \in {BadAct, Absent}
MinOf(S)  == CHOOSE v \in S : \A w \in S : v <= w

\* A frame arrives on port p (not DOWN); k names the flow it would match
\* ("f1", "f2") or "miss".
Rx(p, k) ==
  /\ ~down[p]
  /\ prx' = [prx EXCEPT ![p] = @ + 1]
  /\ look' = look + 1
  /\ CfgUnch /\ UNCHANGED <<fs, down>>
  /\ IF k \in fs
     THEN /\ mat' = mat + 1
          /\ fpk' = [fpk EXCEPT ![k] = @ + 1]
          /\ ptx' = TxAfter(OutOf(k), p)
          /\ UNCHANGED pool
          /\ Log("Rx", "Rx", [xid |-> "-", p |-> p, k |-> k], None)
     ELSE /\ NoLimbo
          /\ UNCHANGED <<mat, fpk, ptx>>
          /\ IF FreeSlots = {}
             THEN /\ UNCHANGED pool
                  /\ Log("Rx", "Rx", [xid |-> "-", p |-> p, k |-> k],
                         One([t |-> "PACKET_IN", buf |-> 0, port |-> p]))
             ELSE LET s == MinOf(FreeSlots) IN
                  /\ pool' = [pool EXCEPT ![s] = p]
                  /\ Log("Rx", "Rx", [xid |-> "-", p |-> p, k |-> k],
                         One([t |-> "PACKET_IN", buf |-> s, port |-> p]))

----------------------------------------------------------------------------
(* PACKET_OUT.  src: "data" (frame in the message, in_port NONE), "live"    *)
(* (lowest outstanding buffer), "stale" (a slot that is not outstanding) or *)
(* "bogus" (an id never issued).  act: output port number, 0 (no action) or *)
(* "vendor" encoded as 65000 (an action type the switch does not support).  *)

BufErrs(x) == ErrAlts(x, ET.badreq, <<7, 8>>)   \* BUFFER_EMPTY | BUFFER_UNKNOWN

\* answers to an action list [act] applied to a frame with ingress inp
ActOuts(x, act) ==
  IF act = BadAct THEN ErrAlts(x, ET.badact, <<0, 2>>)           \* BAD_TYPE | BAD_VENDOR
  ELSE IF act = Absent THEN None \o ErrAlts(x, ET.badact, <<4>>) \* silently dropped | BAD_OUT_PORT
  ELSE None

PacketOut(x, src, act) ==
  /\ CfgUnch /\ TblUnch /\ UNCHANGED <<prx, down>>
  /\ CASE src = "data" ->
            /\ ptx' = TxAfter(act, 0) /\ UNCHANGED pool
            /\ Log("PacketOut", "PacketOut-" \o src, [xid |-> x, src |-> src, slot |-> 0, act |-> act],
                   ActOuts(x, act))
       [] src = "live" ->
            /\ OccSlots # {}
            /\ LET s == MinOf(OccSlots) IN
               /\ ptx' = TxAfter(act, pool[s])
               /\ pool' = [pool EXCEPT ![s] = IF Rejects(act) THEN Limbo ELSE 0]
               /\ Log("PacketOut", "PacketOut-" \o src, [xid |-> x, src |-> src, slot |-> s, act |-> act],
                      ActOuts(x, act))
       [] src = "both" ->      \* names a live buffer AND carries data (which of the two a switch then sends is not
                               \* modelled: only lists it must refuse, where nothing is sent either way)
            /\ OccSlots # {} /\ Rejects(act) /\ act = BadAct
            /\ LET s == MinOf(OccSlots) IN
               /\ ptx' = ptx
               /\ pool' = [pool EXCEPT ![s] = Limbo]
               /\ Log("PacketOut", "PacketOut-" \o src, [xid |-> x, src |-> src, slot |-> s, act |-> act],
                      ActOuts(x, act))
       [] src = "stale" ->
            /\ FreeSlots # {}
            /\ UNCHANGED <<ptx, pool>>
            /\ Log("PacketOut", "PacketOut-badbuf",
                   [xid |-> x, src |-> src, slot |-> MinOf(FreeSlots), act |-> act], BufErrs(x))
       [] src = "bogus" ->
            /\ UNCHANGED <<ptx, pool>>
            /\ Log("PacketOut", "PacketOut-badbuf",
                   [xid |-> x, src |-> src, slot |-> NB + 5, act |-> act], BufErrs(x))

----------------------------------------------------------------------------
(* FLOW_MOD.  cmd: "add" | "addov" (add with CHECK_OVERLAP) | "mod" | "del" *)
(* | "delall" | "badcmd" | "emerg" | "emergto" (emergency, nonzero timeout) *)
(* | "emergrem" (emergency asking for a removal notice) | "addbad" (add of  *)
(* a third flow whose action list holds an unsupported action: must be      *)
(* refused; the adapter deletes that flow again right after the message, so *)
(* whether a switch installed it anyway is not observed here).              *)
(* f: the flow concerned; buf: "none" | "live" | "stale" | "bogus".         *)

FlowMod(x, cmd, f, buf) ==
  LET args == [xid |-> x, cmd |-> cmd, f |-> f, buf |-> buf,
               slot |-> IF buf = "live" /\ OccSlots # {} THEN MinOf(OccSlots)
                        ELSE IF buf = "stale" /\ FreeSlots # {} THEN MinOf(FreeSlots)
                        ELSE IF buf = "bogus" THEN NB + 5 ELSE 0]
      tag == IF buf \in {"stale", "bogus"} THEN "FlowMod-badbuf"
             ELSE IF cmd = "addbad" THEN "FlowMod-addbad-" \o buf ELSE "FlowMod-" \o cmd
      L(outs) == Log("FlowMod", tag, args, outs)
      \* the buffered frame is forwarded by the new flow's action
      UseBuf == CASE buf = "live" -> /\ ptx' = TxAfter(OutOf(f), pool[args.slot])
                                     /\ pool' = [pool EXCEPT ![args.slot] = 0]
                  [] OTHER -> UNCHANGED <<ptx, pool>>
      bufOuts == IF buf \in {"stale", "bogus"} THEN BufErrs(x) ELSE None
  IN
  /\ CfgUnch /\ UNCHANGED <<look, mat, prx, down>>
  /\ (buf = "live" => OccSlots # {})
  /\ (buf = "stale" => FreeSlots # {})
  /\ (buf # "none" => \/ cmd = "add" /\ (f \in fs \/ Cardinality(fs) < MaxEntries)
                      \/ cmd = "addbad" /\ buf = "live")
  /\ (cmd = "addbad" => Cardinality(fs) < MaxEntries)   \* (one thing wrong at a time)
  /\ CASE cmd = "add" ->
            IF f \notin fs /\ Cardinality(fs) >= MaxEntries
            THEN /\ UNCHANGED <<fs, fpk, ptx, pool>>
                 /\ L(ErrAlts(x, ET.flowmod, <<0>>))              \* ALL_TABLES_FULL
            ELSE /\ fs' = fs \cup {f}
                 /\ fpk' = [fpk EXCEPT ![f] = 0]                  \* replaced: counters restart
                 /\ UseBuf
                 /\ L(bufOuts)
       [] cmd = "addov" ->
            IF f \in fs
            THEN /\ UNCHANGED <<fs, fpk, ptx, pool>>
                 /\ L(ErrAlts(x, ET.flowmod, <<1>>))              \* OVERLAP
            ELSE IF Cardinality(fs) >= MaxEntries
            THEN /\ UNCHANGED <<fs, fpk, ptx, pool>>
                 /\ L(ErrAlts(x, ET.flowmod, <<0>>))
            ELSE /\ fs' = fs \cup {f} /\ fpk' = [fpk EXCEPT ![f] = 0]
                 /\ UNCHANGED <<ptx, pool>>
                 /\ L(None)
       [] cmd = "mod" ->
            IF f \in fs
            THEN /\ UNCHANGED <<fs, fpk, ptx, pool>> /\ L(None)   \* actions replaced, counters kept
            ELSE IF Cardinality(fs) >= MaxEntries
            THEN /\ UNCHANGED <<fs, fpk, ptx, pool>>
                 /\ L(ErrAlts(x, ET.flowmod, <<0>>))
            ELSE /\ fs' = fs \cup {f} /\ fpk' = [fpk EXCEPT ![f] = 0]
                 /\ UNCHANGED <<ptx, pool>> /\ L(None)
       [] cmd = "del" ->
            /\ fs' = fs \ {f} /\ fpk' = [fpk EXCEPT ![f] = 0]
            /\ UNCHANGED <<ptx, pool>> /\ L(None)
       [] cmd = "delall" ->
            /\ fs' = {} /\ fpk' = [g \in Flows |-> 0]
            /\ UNCHANGED <<ptx, pool>> /\ L(None)
       [] cmd = "badcmd" ->
            /\ UNCHANGED <<fs, fpk, ptx, pool>>
            /\ L(ErrAlts(x, ET.flowmod, <<4>>))                   \* BAD_COMMAND
       [] cmd = "emerg" ->     \* emergency flows are not supported by this switch
            /\ UNCHANGED <<fs, fpk, ptx, pool>>
            /\ L(ErrAlts(x, ET.flowmod, <<0, 2, 5>>))             \* ALL_TABLES_FULL | EPERM | UNSUPPORTED
       [] cmd = "emergrem" ->
            /\ UNCHANGED <<fs, fpk, ptx, pool>>
            /\ L(ErrAlts(x, ET.flowmod, <<2, 0, 5>>))             \* EPERM | ALL_TABLES_FULL | UNSUPPORTED
       [] cmd = "addbad" ->    \* refused whole: no flow; a buffer it names is in limbo
            /\ UNCHANGED <<fs, fpk, ptx>>
            /\ pool' = IF buf = "live" THEN [pool EXCEPT ![args.slot] = Limbo] ELSE pool
            /\ L(ErrAlts(x, ET.badact, <<0, 2>>) \o ErrAlts(x, ET.flowmod, <<5>>))  \* BAD_TYPE | BAD_VENDOR | UNSUPPORTED
       [] cmd = "emergto" ->
            /\ UNCHANGED <<fs, fpk, ptx, pool>>
            /\ L(ErrAlts(x, ET.flowmod, <<3, 0, 2, 5>>))          \* BAD_EMERG_TIMEOUT (or as above)

----------------------------------------------------------------------------
(* PORT_MOD.  kind: "set" (valid: PORT_DOWN := dn on port p) | "badport" |  *)
(* "badhw".  A valid port-mod is not answered (the PORT_STATUS notification *)
(* it may cause is not a reply and is outside this property).               *)

\* port numbers a port-mod can name that the switch does not have: an absent physical port, and the
\* reserved numbers (a port-mod for OFPP_LOCAL / OFPP_NONE / OFPP_FLOOD ... is refused like any other)
PLocal == 65534       \* OFPP_LOCAL (the software switch has no local port)
BadModPorts == IF Thin THEN {Absent, PLocal} ELSE {Absent, PLocal, PNone, PAll, ResOut, ResOther}

PortMod(x, kind, p, dn) ==
  /\ CfgUnch /\ TblUnch /\ UNCHANGED <<prx, ptx, pool>>
  /\ CASE kind = "set" ->
            /\ down' = [down EXCEPT ![p] = dn]
            /\ Log("PortMod", "PortMod-set", [xid |-> x, kind |-> kind, p |-> p, dn |-> dn], None)
       [] kind = "badport" ->
            /\ UNCHANGED down
            /\ Log("PortMod", "PortMod-badport", [xid |-> x, kind |-> kind, p |-> p, dn |-> dn],
                   ErrAlts(x, ET.portmod, <<0>>))                 \* BAD_PORT
       [] kind = "badhw" ->
            /\ UNCHANGED down
            /\ Log("PortMod", "PortMod-badhw", [xid |-> x, kind |-> kind, p |-> p, dn |-> dn],
                   ErrAlts(x, ET.portmod, <<1>>))                 \* BAD_HW_ADDR

----------------------------------------------------------------------------
(* STATS_REQUEST, one variant per statistics type.                          *)

\* body: always a tuple of records (one per entry; DESC and AGGREGATE have one)
SReply(x, st, body) == [t |-> "STATS_REPLY", xid |-> x, st |-> st, more |-> 0, body |-> body]
SLog(x, st, args, outs) == Log("StatsReq", "Stats-" \o st, [xid |-> x, st |-> st] @@ args, outs)

\* flows selected by a flow/aggregate request: table 255 (all) or 0 is the one
\* table; m is "all", a flow name (its exact match) or "f1x" (f1's match made
\* more specific by an in_port: an entry is selected only if it is at least as
\* specific as the request, so nothing is); outp filters on the output action:
\* OFPP_NONE = no filter, ANY other value - physical, absent or reserved port -
\* selects exactly the flows with an output action to that port
Sel(tb, m, outp) ==
  IF tb \notin {0, 255} THEN {}
  ELSE {f \in fs : (m = "all" \/ m = f) /\ (outp = PNone \/ OutOf(f) = outp)}
Sum(S) == LET RECURSIVE Go(_)
              Go(T) == IF T = {} THEN 0 ELSE LET f == CHOOSE g \in T : TRUE IN fpk[f] + Go(T \ {f})
          IN Go(S)

StatsDesc(x)  == AllUnch /\ SLog(x, "DESC", [k |-> 0], One(SReply(x, "DESC", <<[desc |-> "ok"]>>)))
StatsFlow(x, tb, m, outp) ==
  AllUnch /\
  SLog(x, "FLOW", [tb |-> tb, m |-> m, outp |-> outp],
       One(SReply(x, "FLOW", FlowSeq(Sel(tb, m, outp), fpk))))
StatsAggr(x, tb, m, outp) ==
  AllUnch /\
  LET S == Sel(tb, m, outp) IN
  SLog(x, "AGGREGATE", [tb |-> tb, m |-> m, outp |-> outp],
       One(SReply(x, "AGGREGATE", <<[pk |-> Sum(S), by |-> Sum(S) * FrameLen, n |-> Cardinality(S)]>>)))
StatsTable(x) ==
  AllUnch /\
  SLog(x, "TABLE", [k |-> 0],
       One(SReply(x, "TABLE", <<[id |-> 0, active |-> Cardinality(fs), look |-> look, mat |-> mat]>>)))
\* p: PNone (all ports), a port, or Absent.  The standard does not say how a
\* port the switch does not have is answered: an empty reply or a BAD_REQUEST
\* error are both answers; silence is not.
StatsPort(x, p) ==
  AllUnch /\
  SLog(x, "PORT", [p |-> p],
       IF p = PNone THEN One(SReply(x, "PORT", PortSeq(Ports, prx, ptx)))
       ELSE IF p \in Ports THEN One(SReply(x, "PORT", PortSeq({p}, prx, ptx)))
       ELSE One(SReply(x, "PORT", <<>>)) \o ErrAlts(x, ET.badreq, <<2, 5>>))
\* the switch has no queues.  q: 0 = OFPQ_ALL, 1 = a specific queue
StatsQueue(x, p, q) ==
  AllUnch /\
  SLog(x, "QUEUE", [p |-> p, q |-> q],
       IF q = 0
       THEN (IF p = Absent THEN One(SReply(x, "QUEUE", <<>>)) \o ErrAlts(x, ET.queue, <<0>>)
             ELSE One(SReply(x, "QUEUE", <<>>)))
       ELSE (IF p = Absent THEN ErrAlts(x, ET.queue, <<0, 1>>)    \* BAD_PORT | BAD_QUEUE
             ELSE ErrAlts(x, ET.queue, <<1>>)))                   \* BAD_QUEUE
StatsVendor(x)  == AllUnch /\ SLog(x, "VENDOR", [k |-> 0], ErrAlts(x, ET.badreq, <<2, 3>>))  \* BAD_STAT | BAD_VENDOR
StatsUnknown(x) == AllUnch /\ SLog(x, "UNKNOWN", [k |-> 0], ErrAlts(x, ET.badreq, <<2>>))    \* BAD_STAT

\* QUEUE_GET_CONFIG_REQUEST: p a port, Absent, or PAll (not a physical port)
QueueCfgReq(x, p) ==
  AllUnch /\ Log("QueueCfgReq", "QueueCfgReq", [xid |-> x, p |-> p],
                 IF p \in Ports THEN One([t |-> "QUEUE_GET_CONFIG_REPLY", xid |-> x, port |-> p, nq |-> 0])
                 ELSE One([t |-> "QUEUE_GET_CONFIG_REPLY", xid |-> x, port |-> p, nq |-> 0])
                      \o ErrAlts(x, ET.queue, <<0>>))             \* BAD_PORT

----------------------------------------------------------------------------
XidNow == IF RotXid THEN {Xids[(Len(hist) % Len(Xids)) + 1]}
          ELSE {Xids[i] : i \in 1..Len(Xids)}

PoActs   == IF Thin THEN {2, BadAct} ELSE {1, 2, Absent, 0, BadAct}
OutFilters == {PNone, 1, 2, Absent, ResOut, ResOther, 0}      \* (0: a number no port has - it filters like any other)
FlowArgs == IF Thin THEN {<<255, "all", PNone>>, <<5, "all", PNone>>, <<255, "all", ResOut>>, <<255, "all", 0>>}
            ELSE ({255} \X {"all"} \X OutFilters)                       \* every filter value
                 \cup {<<0, "all", PNone>>, <<0, "all", ResOut>>, <<0, "all", 2>>}
                 \cup {<<0, "f1", PNone>>, <<255, "f1", 2>>, <<255, "f1", ResOut>>, <<255, "f1x", PNone>>,
                        <<255, "f2", PNone>>, <<255, "f2", 2>>,
                        <<255, "f3", ResOut>>, <<255, "f3", 2>>, <<0, "f3", PNone>>}
                 \cup {<<5, "all", PNone>>, <<5, "all", ResOut>>, <<1, "all", PNone>>, <<254, "all", PNone>>}
CfgArgs  == IF Thin THEN {<<1, 0>>, <<0, 65535>>} ELSE {0, 1} \X MissLens
TFlows   == IF Thin THEN {"f1"} ELSE Flows
TPorts   == IF Thin THEN {2} ELSE Ports
SPorts   == IF Thin THEN {PNone, Absent} ELSE Ports \cup {PNone, Absent}
QArgs    == IF Thin THEN {<<PAll, 0>>, <<1, 1>>} ELSE {PAll, 1, Absent} \X {0, 1}
QPorts   == IF Thin THEN {1, Absent} ELSE {1, Absent, PAll}
RxArgs   == IF Thin THEN {<<1, "f1">>, <<1, "miss">>} ELSE Ports \X RxKinds
LenArgs  == IF Thin THEN {r \in LenKinds : r.k \in {"barrier+", "port-", "packetout-actover"}}
            ELSE IF LenSet = "class"
            THEN {r \in LenKinds : r.k \in {"barrier+", "setcfg+", "qcfg-", "flowmod-", "port-", "flow+",
                                            "packetout-actover", "flowmod-act0"}}
            ELSE LenKinds

Step(x) ==
  \/ Hello(x)
  \/ \E b \in (IF Thin THEN {"b1"} ELSE Bodies) : EchoReq(x, b)
  \/ EchoReply(x)
  \/ FeaturesReq(x)
  \/ GetConfigReq(x)
  \/ \E c \in CfgArgs : SetConfig(x, c[1], c[2])
  \/ BarrierReq(x)
  \/ Vendor(x)
  \/ BadType(x)
  \/ \E r \in LenArgs : BadLen(x, r)
  \/ \E a \in PoActs : PacketOut(x, "data", a)
  \/ \E a \in (IF Thin THEN {2, BadAct} ELSE PoActs) : PacketOut(x, "live", a)
  \/ \E src \in {"stale", "bogus"} : PacketOut(x, src, 2)
  \/ PacketOut(x, "both", BadAct)
  \/ \E c \in {"add", "addov", "mod", "del"}, f \in TFlows : FlowMod(x, c, f, "none")
  \/ \E c \in {"delall", "badcmd", "emerg", "emergto", "emergrem", "addbad"} : FlowMod(x, c, "f1", "none")
  \/ FlowMod(x, "addbad", "f1", "live")
  \/ \E b \in {"live", "stale", "bogus"} : FlowMod(x, "add", "f1", b)
  \/ \E p \in TPorts, dn \in BOOLEAN : PortMod(x, "set", p, dn)
  \/ \E p \in BadModPorts : PortMod(x, "badport", p, FALSE)
  \/ PortMod(x, "badhw", 1, TRUE)
  \/ StatsDesc(x)
  \/ \E a \in FlowArgs : StatsFlow(x, a[1], a[2], a[3])
  \/ \E a \in FlowArgs : StatsAggr(x, a[1], a[2], a[3])
  \/ StatsTable(x)
  \/ \E p \in SPorts : StatsPort(x, p)
  \/ \E a \in QArgs : StatsQueue(x, a[1], a[2])
  \/ StatsVendor(x)
  \/ StatsUnknown(x)
  \/ \E p \in QPorts : QueueCfgReq(x, p)

Env == \E a \in RxArgs : Rx(a[1], a[2])

Next == Env \/ \E x \in XidNow : Step(x)

Spec == Init /\ [][Next]_vars

----------------------------------------------------------------------------
(* The property, over the real variables and the last observation.          *)

Range(s) == {s[i] : i \in DOMAIN s}
ReplyOf == [EchoReq |-> "ECHO_REPLY", FeaturesReq |-> "FEATURES_REPLY",
            GetConfigReq |-> "GET_CONFIG_REPLY", BarrierReq |-> "BARRIER_REPLY",
            StatsReq |-> "STATS_REPLY", QueueCfgReq |-> "QUEUE_GET_CONFIG_REPLY"]
Replies == {ReplyOf[a] : a \in Requests}

TypeOK == /\ ml \in MissLens /\ fl \in {0, 1}
          /\ fs \subseteq Flows /\ fpk \in [Flows -> Nat]
          /\ look \in Nat /\ mat \in Nat /\ mat <= look
          /\ prx \in [Ports -> Nat] /\ ptx \in [Ports -> Nat]
          /\ down \in [Ports -> BOOLEAN]
          /\ pool \in [1..NB -> 0..(NP + 1)]
          /\ nheld \in 0..(MaxBurst - 1) /\ (nheld = 0 => held = None)
          /\ Cardinality(fs) <= MaxEntries
          /\ \A f \in Flows : f \notin fs => fpk[f] = 0

\* The clauses below are predicates on ONE observation e (and the state it
\* was made in); the property is that every transition's observation satisfies
\* them - action properties, evaluated by TLC on every generated transition.

\* every request: exactly one message, and it is the matching reply or an
\* error, carrying the request's xid - in every alternative the spec allows
PAnsweredOnce(e) ==
  e.a \in Requests =>
    \A alt \in Range(e.exp.outs) :
      /\ Len(alt) = 1
      /\ alt[1].t \in {ReplyOf[e.a], "ERROR"}
      /\ alt[1].xid = e.args.xid

\* everything else: never a reply; an error only for an invalid message, with
\* its xid; a valid message produces nothing at all (the packet-in of Rx is
\* not the output of a controller message)
InvalidTags == {"Vendor", "BadType", "BadLen-long", "BadLen-short", "BadLen-body", "BadLen-inner",
                "PacketOut-badbuf", "FlowMod-badbuf", "FlowMod-badcmd",
                "FlowMod-emerg", "FlowMod-emergto", "FlowMod-emergrem", "FlowMod-addbad-none",
                "FlowMod-addbad-live", "PortMod-badport", "PortMod-badhw"}
Rejectable(e) == \/ e.tag \in InvalidTags
                 \/ e.a = "PacketOut" /\ e.args.act \in {Absent, BadAct}
                 \/ e.tag \in {"FlowMod-add", "FlowMod-addov", "FlowMod-mod"}   \* table full / overlap
PNoReplyUnlessAsked(e) ==
  (e.a \notin Requests /\ e.a # "Rx") =>
    \A alt \in Range(e.exp.outs) :
      /\ Len(alt) <= 1
      /\ \A i \in DOMAIN alt : /\ alt[i].t = "ERROR"
                               /\ alt[i].xid = e.args.xid
                               /\ Rejectable(e)
PNeverSilentWhenInvalid(e) ==
  e.tag \in InvalidTags => \A alt \in Range(e.exp.outs) : Len(alt) = 1 /\ alt[1].t = "ERROR"

AnsweredOnce           == [][PAnsweredOnce(last')]_vars
NoReplyUnlessAsked     == [][PNoReplyUnlessAsked(last')]_vars
NeverSilentWhenInvalid == [][PNeverSilentWhenInvalid(last')]_vars

\* answers come in request order and nothing stays unanswered
Ordered == pendq = <<>>

\* barrier: its reply reports the state produced by all earlier messages
BarrierAfterEffects ==
  [][last'.a = "BarrierReq" =>
       /\ last'.exp.outs[1][1].st = Snap(ml, fl, fs, down)
       /\ state' = state]_vars

\* replies tell the truth about the state
RepliesReflectState ==
  [][LET e == last' IN
     /\ (e.a = "GetConfigReq" => LET r == e.exp.outs[1][1] IN r.ml = ml /\ r.flags = fl)
     /\ (e.tag = "Stats-TABLE" =>
           LET r == e.exp.outs[1][1].body[1] IN
           r.active = Cardinality(fs) /\ r.look = look /\ r.mat = mat)
     /\ (e.tag = "Stats-AGGREGATE" =>
           LET b == e.exp.outs[1][1].body[1] IN
           /\ b.n <= Cardinality(fs)
           /\ (e.args.tb \in {0, 255} /\ e.args.m = "all" /\ e.args.outp = PNone =>
                 b.n = Cardinality(fs) /\ b.pk = fpk["f1"] + fpk["f2"] + fpk["f3"])
           /\ (e.args.tb \notin {0, 255} => b.n = 0 /\ b.pk = 0))
     /\ (e.tag \in {"Stats-FLOW", "Stats-AGGREGATE"} /\ e.args.outp # PNone =>
           \* a filter on an output port - reserved ports included - selects only flows that output there
           LET S == Sel(e.args.tb, e.args.m, e.args.outp) IN
           /\ \A f \in S : OutOf(f) = e.args.outp
           /\ (e.tag = "Stats-FLOW" => Len(e.exp.outs[1][1].body) = Cardinality(S))
           /\ (e.tag = "Stats-AGGREGATE" => e.exp.outs[1][1].body[1].n = Cardinality(S)))
     /\ (e.tag = "Stats-FLOW" =>
           LET b == e.exp.outs[1][1].body IN
           /\ \A i \in DOMAIN b : b[i].f \in fs /\ b[i].pk = fpk[b[i].f]
           /\ (e.args.tb \in {0, 255} /\ e.args.m = "all" /\ e.args.outp = PNone =>
                 Len(b) = Cardinality(fs)))
     /\ (e.tag = "Stats-PORT" /\ e.args.p = PNone =>
           LET b == e.exp.outs[1][1].body IN
           Len(b) = NP /\ \A p \in Ports : b[p].no = p /\ b[p].rx = prx[p] /\ b[p].tx = ptx[p])
     /\ (e.a = "FeaturesReq" =>
           \A p \in Ports : e.exp.outs[1][1].ports[p].down = down[p])]_vars

\* every matched packet is counted in exactly one flow, until that flow goes
MatchedAccounted == mat >= fpk["f1"] + fpk["f2"] + fpk["f3"]

\* a request never changes the state; SET_CONFIG is seen by the next GET_CONFIG
RequestsReadOnly == [][last'.a \in Requests => state' = state]_vars
ConfigSticks == [][last'.a = "SetConfig" => ml' = last'.args.ml /\ fl' = last'.args.flags]_vars
\* an error never comes with a change of what replies report
ErrorsRejectWhole ==
  [][(last'.a # "Rx" /\ last'.tag # "FlowMod-badbuf"
      /\ \A alt \in Range(last'.exp.outs) : Len(alt) = 1 /\ alt[1].t = "ERROR")
       => wire' = wire]_vars

\* pipelining: a message that shares the receive buffer with its successor shows nothing
\* yet; when the buffer is read, what appears is one allowed answer per message of the
\* burst, in the order the messages were written, and nothing stays owed
Pipelined ==
  [][LET e == last' IN
     /\ nheld' <= MaxBurst - 1
     /\ (e.args.more => /\ e.exp.see = None /\ nheld' = nheld + 1
                        /\ \A s \in Range(held') : \E h \in Range(held), o \in Range(e.exp.outs) : s = h \o o)
     /\ (~e.args.more => /\ nheld' = 0 /\ held' = None
                         /\ \A s \in Range(e.exp.see) :
                              \E h \in Range(held), o \in Range(e.exp.outs) : s = h \o o)]_vars
\* an error quotes the message it answers
ErrorsQuoteRequest ==
  [][\A alt \in Range(last'.exp.outs) : \A i \in DOMAIN alt :
        alt[i].t = "ERROR" => alt[i].data = TypeOf(last'.a, last'.args) /\ alt[i].xid = last'.args.xid]_vars

\* ---- bounds and export
Bounded == /\ look <= Cap /\ \A p \in Ports : prx[p] <= Cap /\ ptx[p] <= Cap
BoundedE == look <= Cap /\ \A p \in Ports : prx[p] <= Cap /\ ptx[p] <= Cap
Bound   == Len(hist) <= D
BoundX  == Len(hist) < D      \* depth-D states are checked (exported) but not expanded
Export  == (Len(hist) = D) => PrintT(<<"H", ToJson(hist)>>)
ExportT == PrintT(<<"T", ToJson(hist')>>)
=============================================================================
