CONSTANTS NP = 2
  NB = 1
  MaxEntries = 1
  Xids <- MCXids3
  RotXid = TRUE
  Cap = 1
  D = 0
  Skip <- MCNoSkip
  Thin = FALSE
INIT Init
NEXT Next
VIEW viewE
CONSTRAINT FrozenCfg
ACTION_CONSTRAINT ExportT
CHECK_DEADLOCK FALSE
