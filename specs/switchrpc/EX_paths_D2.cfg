CONSTANTS NP = 2
  NB = 1
  MaxEntries = 2
  Xids <- MCXids3
  RotXid = TRUE
  Cap = 9
  D = 2
  Skip <- MCNoSkip
  ResOut = 65533
  ResOther = 65531
  Pipe = "never"
  MaxBurst = 3
  LenSet = "class"
  Thin = FALSE
INIT Init
NEXT Next
CONSTRAINT BoundX
INVARIANT Export
CHECK_DEADLOCK FALSE
