CONSTANTS NP = 2
  NB = 1
  MaxEntries = 2
  Xids <- MCXids2
  RotXid = FALSE
  Cap = 1
  D = 0
  Skip <- MCNoSkip
  ResOut = 65533
  ResOther = 65531
  Pipe = "never"
  MaxBurst = 3
  LenSet = "all"
  Thin = FALSE
INIT Init
NEXT Next
VIEW view
CONSTRAINT Bounded
INVARIANT TypeOK
INVARIANT Ordered
INVARIANT MatchedAccounted
PROPERTY AnsweredOnce
PROPERTY NoReplyUnlessAsked
PROPERTY NeverSilentWhenInvalid
PROPERTY BarrierAfterEffects
PROPERTY RepliesReflectState
PROPERTY RequestsReadOnly
PROPERTY ConfigSticks
PROPERTY ErrorsRejectWhole
PROPERTY Pipelined
PROPERTY ErrorsQuoteRequest
CHECK_DEADLOCK FALSE
