CONSTANTS
  Cat <- MCCat
  Alphabets <- SimA
  Lit <- MCLit
  Truthy <- MCTruthy
  LogFiles <- MCLogFiles
  Dev <- AsBuilt
INIT TrInit
NEXT TrNext
CONSTRAINT Progress
POSTCONDITION Accepted
INVARIANT TypeOK
INVARIANT ParsedIsWritten
INVARIANT ArgsExact
INVARIANT LaunchedInOrder
INVARIANT OptionsFirst
INVARIANT OnceEachSpelling
INVARIANT NotFoundFails
CHECK_DEADLOCK FALSE
