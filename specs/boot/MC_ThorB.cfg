CONSTANTS
  Cat <- MCCat
  Alphabets <- ThorB
  Lit <- MCLit
  Truthy <- MCTruthy
  LogFiles <- MCLogFiles
  Dev <- AsBuilt
INIT Init
NEXT Next
VIEW view
INVARIANT TypeOK
INVARIANT ParsedIsWritten
INVARIANT ArgsExact
INVARIANT LaunchedInOrder
INVARIANT OptionsFirst
INVARIANT OnceEachSpelling
INVARIANT NotFoundFails
INVARIANT Deterministic
PROPERTY OptionsFrozen
PROPERTY StopAfterFailure
PROPERTY FailureIsFinal
PROPERTY UpOnlyAfterAll
INVARIANT Export
CHECK_DEADLOCK FALSE
