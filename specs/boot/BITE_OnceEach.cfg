CONSTANTS
  Cat <- MCCat
  Alphabets <- BiteMulti
  Lit <- MCLit
  Truthy <- MCTruthy
  LogFiles <- MCLogFiles
  Dev <- AsBuilt
INIT Init
NEXT Next
VIEW view
INVARIANT OnceEach
CHECK_DEADLOCK FALSE
