---- MODULE MCBoot ----
(* Constants for Boot.tla: the synthetic component catalog (exported to the harness, which generates the    *)
(* real Python modules from it), the value texts, and focused token alphabets for the exhaustive runs.      *)
EXTENDS Boot

Sig(pos, nreq, kw, multi, ev, beh) ==
  [pos |-> pos, nreq |-> nreq, kw |-> kw, multi |-> multi, eval |-> ev, beh |-> beh, isfn |-> TRUE]
NotFn == [pos |-> <<>>, nreq |-> 0, kw |-> FALSE, multi |-> FALSE, eval |-> FALSE, beh |-> "ok", isfn |-> FALSE]
Comp(path, loc, pre, fns) == [path |-> path, loc |-> loc, pre |-> pre, fns |-> fns]
Plain == [launch |-> Sig(<<"x">>, 0, FALSE, FALSE, FALSE, "ok")]

MCCat ==
  [ a  |-> Comp("x15a", "pox", {},            \* def launch(x=None, y=None) / def alt(p) / obj = a callable object
            [launch |-> Sig(<<"x", "y">>, 0, FALSE, FALSE, FALSE, "ok"),
             alt |-> Sig(<<"p">>, 1, FALSE, FALSE, FALSE, "ok"), obj |-> NotFn]),
    b  |-> Comp("x15b", "top", {},            \* only importable without the "pox." prefix;  def launch(**kw)
            [launch |-> Sig(<<>>, 0, TRUE, FALSE, FALSE, "ok")]),
    c  |-> Comp("x15c", "pox", {},            \* def launch(q, r=None, __INSTANCE__=None)
            [launch |-> Sig(<<"q", "r", "__INSTANCE__">>, 1, FALSE, TRUE, FALSE, "ok")]),
    lg |-> Comp("x15lg", "pox", {},           \* def launch(__INSTANCE__=None, **kw)   (like pox.log)
            [launch |-> Sig(<<"__INSTANCE__">>, 0, TRUE, TRUE, FALSE, "ok")]),
    d  |-> Comp("x15d", "pox", {},            \* @eval_args def launch(v=None, w=None) / many(v=None, __INSTANCE__=None, **kw)
            [launch |-> Sig(<<"v", "w">>, 0, FALSE, FALSE, TRUE, "ok"),
             many |-> Sig(<<"v", "__INSTANCE__">>, 0, TRUE, TRUE, TRUE, "ok")]),
    e  |-> Comp("x15e", "pox", {}, [launch |-> Sig(<<"x">>, 0, FALSE, FALSE, FALSE, "false")]),
    f  |-> Comp("x15f", "pox", {}, [launch |-> Sig(<<"x">>, 0, FALSE, FALSE, FALSE, "raise")]),
    g  |-> Comp("x15g", "pox", {},            \* the body raises TypeError
            [launch |-> Sig(<<"x">>, 0, TRUE, FALSE, FALSE, "typeerr"),
             req |-> Sig(<<"p">>, 1, FALSE, FALSE, FALSE, "typeerr")]),
    h  |-> Comp("x15h", "pox", {}, NoFn),     \* a module without any launch function
    k  |-> Comp("x15k", "both", {}, Plain),   \* pox.x15k and x15k both exist
    kp |-> Comp("x15kp", "both", {"top"}, Plain),      \* ... and the top-level one is loaded already
    m  |-> Comp("x15m", "missing", {}, NoFn),
    n  |-> Comp("x15pkg.x15n", "ntop", {}, Plain),     \* package outside pox (e.g. under ext/)
    nm |-> Comp("x15nopkg.x15z", "nmissing", {}, NoFn),
    s  |-> Comp("x15sub.x15s", "npox", {}, Plain),     \* pox.x15sub.x15s
    u  |-> Comp("x15u", "dep", {}, Plain),    \* imports something that does not exist
    w  |-> Comp("x15w", "err", {}, Plain),    \* raises while being imported
    p  |-> Comp("x15p", "top", {"top"}, Plain),        \* in sys.modules already
    pp |-> Comp("x15pp", "pox", {"pox"}, Plain),
    py |-> Comp("py", "real", {},             \* the real pox/py.py that boot() always loads first
            [launch |-> Sig(<<"disable", "completion", "history", "sync", "__INSTANCE__">>, 0, FALSE, TRUE,
                            FALSE, "real")]) ]

\* every value text used in a token alphabet or by the trace driver is listed here: as a Python literal with
\* the value it denotes, or as a text that is not a literal (and therefore stays a string under @eval_args)
MCLit == [t \in {"0", "1", "2", "3", "5", "7", "True", "False", "None", "1.5", "[1, 2]", "0x10", "'q'", "-7"} |->
            CASE t \in {"0", "1", "2", "3", "5", "7"} -> <<"int", t>>
              [] t = "True" -> <<"bool", "True">>
              [] t = "False" -> <<"bool", "False">>
              [] t = "None" -> <<"NoneType", "None">>
              [] t = "1.5" -> <<"float", "1.5">>
              [] t = "[1, 2]" -> <<"list", "[1, 2]">>
              [] t = "0x10" -> <<"int", "16">>
              [] t = "'q'" -> <<"str", "q">>
              [] t = "-7" -> <<"int", "-7">>]
MCNotLit == {"abc", "", "a=b", "010", "true", "TRUE", "yes", "Yes", "no", "nofile", "okcfg", "t0"}
\* str_to_bool: a fixed word list (case-insensitive) or a non-zero integer (decimal, or hexadecimal with 0x)
MCTruthy == {"True", "true", "TRUE", "1", "yes", "Yes", "on", "t", "y", "enable", "enabled", "ok", "okay",
             "allow", "allowed", "2", "3", "5", "7", "0x10", "-7", "010"}
MCLogFiles == {"okcfg"}

NoDev == {}

Cm(n) == C(n, "", FALSE, "")
Cf(n, f) == C(n, f, FALSE, "")
Cv(n, v) == C(n, "", TRUE, v)
Cfv(n, f, v) == C(n, f, TRUE, v)
Ob(k) == O(k, FALSE, "")
Ov(k, v) == O(k, TRUE, v)

\* order of launches and argument binding
TokOrder == {Cm("a"), Cm("b"), Cv("c", "7"), Cm("e"), Ov("x", "3"), Ov("x", "abc"), Ob("y"), Ov("z", "1"),
             Ob("no_openflow")}
\* multiple launches, alternative functions, __INSTANCE__
TokMulti == {Cm("a"), Cf("a", "launch"), Cfv("a", "alt", "5"), Cv("c", "7"), Cm("c"), Cf("c", "launch"),
             Ov("q", "2"), Ob("r"), Cm("lg"), Cv("lg", "1")}
\* argument conversion
TokEval == {Cm("d"), Cv("d", "3"), Cf("d", "many"), Cfv("d", "many", "None"), Cm("a"), Ov("v", "3"),
            Ov("v", "True"), Ov("v", "abc"), Ob("v"), Ov("w", "[1, 2]"), Ov("x", "None")}
TokEval2 == {Cm("d"), Cv("d", "0x10"), Cv("d", "abc"), Cv("d", ""), Cv("d", "a=b"), Ov("v", "1.5"), Ov("v", "'q'"),
             Ov("v", "-7"), Ov("v", "010"), Ov("v", ""), Ov("v", "a=b"), Ov("w", "False"), Ov("w", "true")}
\* name resolution
TokImport == {Cm("a"), Cm("b"), Cm("k"), Cm("kp"), Cm("m"), Cm("n"), Cm("nm"), Cm("s"), Cm("u"), Cm("w"),
              Cm("p"), Cm("pp"), Cm("h"), Ov("x", "3")}
\* failing launches
TokFail == {Cm("a"), Cm("b"), Cm("e"), Cm("f"), Cm("g"), Cfv("g", "req", "1"), Cf("g", "req"), Cf("a", "obj"),
            Cf("a", "nope"), Cm("h"), Cf("h", "launch"), Ov("x", "3"), Ov("zz", "1")}
\* POX options
TokOpts == {Ob("verbose"), Ov("verbose", "False"), Ob("no_openflow"), Ov("no_openflow", "False"),
            Ob("unthreaded_sh"), Ov("unthreaded_sh", "False"), Ov("epoll_sh", "yes"), Ov("handle_signals", "0"),
            Ob("debug"), Ov("debug", "no"), Ob("log_config"), Ov("log_config", "nofile"),
            Ov("log_config", "okcfg"), Ob("help"), Ob("h"), Ob("version"), Ob("bogus"), Ob("set"),
            Ob("_verbose"), Ov("x15_tag", "abc"), Ob("x15_tag"), Ov("enable_openflow", "False"),
            Ov("threaded_selecthub", "0x10"), Ov("epoll_selecthub", "TRUE"), Cm("a"), Cm("b")}
\* through boot(): "py --disable" spliced in after the leading options
TokBoot == {Cm("a"), Cm("b"), Cm("e"), Cm("m"), Cm("f"), Ov("x", "3"), Ob("verbose"), Ob("no_openflow"),
            Ob("bogus"), Cv("c", "7")}
\* trimmed alphabets for the quick tier
TokOrderQ == {Cm("a"), Cm("b"), Cv("c", "7"), Ov("x", "3"), Ov("x", "abc"), Ob("y"), Ov("z", "1")}
TokMultiQ == {Cm("a"), Cf("a", "launch"), Cfv("a", "alt", "5"), Cv("c", "7"), Cm("c"), Ov("q", "2"), Cm("lg")}
TokEvalQ == {Cm("d"), Cv("d", "3"), Cf("d", "many"), Ov("v", "3"), Ov("v", "True"), Ob("v"), Ov("w", "[1, 2]")}
TokFailQ == {Cm("a"), Cm("e"), Cm("f"), Cm("g"), Cf("a", "obj"), Ov("x", "3"), Ov("zz", "1")}
TokBootQ == {Cm("a"), Cm("e"), Cm("m"), Ov("x", "3"), Ob("verbose"), Ob("bogus")}
\* long random command lines (simulation): mostly well-formed
TokSim == {Cm("a"), Cv("a", "1"), Cf("a", "launch"), Cfv("a", "alt", "5"), Cm("b"), Cv("c", "7"), Cm("c"),
           Cm("lg"), Cm("d"), Cv("d", "3"), Cf("d", "many"), Cm("h"), Cm("k"), Cm("kp"), Cm("s"), Cm("p"),
           Cm("pp"), Cm("e"), Cm("g"), Cm("n"),
           Ov("x", "3"), Ov("x", "abc"), Ob("y"), Ov("q", "2"), Ob("r"), Ov("v", "3"), Ov("v", "None"),
           Ov("w", "[1, 2]"), Ov("v", "0x10"), Ov("z", "1"), Ob("verbose"), Ob("no_openflow"),
           Ov("x15_tag", "abc"), Ob("unthreaded_sh"), Ov("handle_signals", "0")}

\* POX options, thorough tier (TokOpts at length 3 is 18000 command lines)
TokOptsT == {Ob("verbose"), Ov("verbose", "False"), Ob("no_openflow"), Ov("no_openflow", "False"),
             Ov("unthreaded_sh", "False"), Ov("epoll_sh", "yes"), Ob("debug"), Ov("debug", "no"),
             Ov("log_config", "okcfg"), Ob("log_config"), Ob("version"), Ob("bogus"), Ob("set"),
             Ov("x15_tag", "abc"), Ov("enable_openflow", "False"), Cm("a")}

\* ---- the alphabets of the model runs: [name, toks, max, vias, ex]
Alpha(name, toks, max, vias, ex) == [name |-> name, toks |-> toks, max |-> max, vias |-> vias, ex |-> ex]
L(name, toks, max) == Alpha(name, toks, max, {"launch"}, {FALSE})
\* quick tier
QuickA == {L("orderQ_3", TokOrderQ, 3), L("multiQ_3", TokMultiQ, 3), L("evalQ_3", TokEvalQ, 3),
           L("eval2_2", TokEval2, 2), Alpha("existQ_2", TokOrderQ, 2, {"launch"}, {TRUE})}
QuickB == {L("import_2", TokImport, 2), L("fail_2", TokFail, 2), L("failQ_3", TokFailQ, 3),
           L("opts_2", TokOpts, 2), Alpha("bootQ_3", TokBootQ, 3, {"boot"}, {FALSE})}
QuickS == {L("multiQ_3", TokMultiQ, 3), L("evalQ_2", TokEvalQ, 2), L("import_2", TokImport, 2),
           L("failQ_2", TokFailQ, 2), Alpha("bootQ_2", TokBootQ, 2, {"boot"}, {FALSE})}
\* thorough tier
ThorA == {L("order_4", TokOrder, 4)}
ThorB == {L("multi_3", TokMulti, 3), L("eval_3", TokEval, 3), L("eval2_3", TokEval2, 3)}
ThorC == {L("import_3", TokImport, 3), L("fail_3", TokFail, 3)}
ThorD == {L("opts_3", TokOptsT, 3), L("opts_2", TokOpts, 2), Alpha("boot_3", TokBoot, 3, {"boot"}, {FALSE}),
          Alpha("exist_3", TokOrder, 3, {"launch"}, {TRUE})}
ThorS1 == {L("order_3", TokOrder, 3), L("multi_3", TokMulti, 3), L("eval_3", TokEval, 3), L("eval2_3", TokEval2, 3)}
ThorS2 == {L("import_3", TokImport, 3), L("fail_3", TokFail, 3), Alpha("boot_3", TokBoot, 3, {"boot"}, {FALSE})}
\* long random command lines (simulation), trace validation
SimA == {Alpha("sim", TokSim, 9, {"launch", "boot"}, {FALSE, TRUE})}
\* the properties that only the intended design has, each on an alphabet where the as-built design breaks it
BiteMulti == {L("multi_2", TokMulti, 2)}
BiteImport == {L("import_1", TokImport, 1)}
BiteFail == {L("failQ_1", TokFailQ, 1)}
BiteEval == {L("evalQ_1", TokEvalQ, 1)}

ASSUME PrintT(<<"CAT", ToJson(MCCat)>>)
ASSUME PrintT(<<"LIT", ToJson([lit |-> MCLit, notlit |-> MCNotLit, truthy |-> MCTruthy])>>)
====
