CONSTANTS
  Cat <- MCCat
  Alphabets <- BiteEval
  Lit <- MCLit
  Truthy <- MCTruthy
  LogFiles <- MCLogFiles
  Dev <- AsBuilt
INIT Init
NEXT Next
VIEW view
INVARIANT EvalAll
CHECK_DEADLOCK FALSE
