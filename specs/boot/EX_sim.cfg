CONSTANTS
  Cat <- MCCat
  Alphabets <- SimA
  Lit <- MCLit
  Truthy <- MCTruthy
  LogFiles <- MCLogFiles
  Dev <- AsBuilt
INIT Init
NEXT Next
INVARIANT Export
CHECK_DEADLOCK FALSE
