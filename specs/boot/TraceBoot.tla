---- MODULE TraceBoot ----
(* Code -> spec: what the real pox.boot did on a (seeded random) command line must be a behaviour of       *)
(* Boot.tla.  A trace = [argv, via, existing, ev]: the command line as abstract tokens and the ordered      *)
(* events recorded from the real code (harness.adapters_x15.record):                                        *)
(*    [k |-> "Core", s |-> the arguments given to pox.core.initialize]                                      *)
(*    [k |-> "Imp",  s |-> <<module whose body ran>>]                                                        *)
(*    [k |-> "Call", call |-> module, function, bound parameters, **kw, __INSTANCE__, what it could see]     *)
(*    [k |-> "Up",   s |-> <<"GoingUp", "Up">>]                                                              *)
(*    [k |-> "End",  end |-> outcome, message kind, options object, ...]                                     *)
(* Every spec step says (in last'.exp) which of these it produces; a step is taken only if the next events   *)
(* of the trace are exactly those.  Steps that produce nothing are taken silently.  Every invariant of the   *)
(* spec is evaluated at every step.                                                                          *)
EXTENDS MCBoot, IOUtils, TLCExt

Traces == JsonDeserialize(IOEnv.TRACE_FILE)
NT == Len(Traces)
VARIABLES tid, l
tvars == <<vars, tid, l>>

Tr == Traces[tid]
TrInit == tid \in 1..NT /\ l = 1 /\ InitWith(Traces[tid].argv) /\ TLCSet(tid, 0)

Has2(e, f) == f \in DOMAIN e
\* the events a logged step produces, in the order the code produces them
EvCore(e) == IF Has2(e, "core") /\ e.core # <<"existing">> THEN <<[k |-> "Core", v |-> e]>> ELSE <<>>
EvImp(e)  == IF Has2(e, "ev") /\ e.ev # <<>> THEN <<[k |-> "Imp", v |-> e]>> ELSE <<>>
EvUp(e)   == IF Has2(e, "up") THEN <<[k |-> "Up", v |-> e]>> ELSE <<>>
EvCall(e) == IF Has2(e, "call") THEN <<[k |-> "Call", v |-> e]>> ELSE <<>>
EvEnd(e)  == IF Has2(e, "res") THEN <<[k |-> "End", v |-> e]>> ELSE <<>>
Emits(e) == EvCore(e) \o EvImp(e) \o EvUp(e) \o EvCall(e) \o EvEnd(e)

CallSame(c, o) ==
  /\ c.mod = o.mod /\ c.fn = o.fn /\ c.args = o.args /\ c.extra = ToSet(o.extra) /\ c.inst = o.inst
  /\ c.env.opts = o.env.opts /\ c.env.of = o.env.of /\ c.env.dbg = o.env.dbg /\ c.env.core = o.env.core
  /\ c.env.py = o.env.py
EndSame(e, o) ==
  /\ e.res = o.res /\ e.msg = o.msg /\ e.opts = o.opts /\ e.of = o.of /\ e.dbg = o.dbg /\ e.py = o.py
  /\ o.same
Same(x, o) ==
  /\ x.k = o.k
  /\ CASE x.k = "Core" -> x.v.core = o.s
       [] x.k = "Imp"  -> x.v.ev = o.s
       [] x.k = "Up"   -> x.v.up = o.s
       [] x.k = "Call" -> CallSame(x.v.call, o.call)
       [] x.k = "End"  -> EndSame(x.v, o.end)

Match(evs) ==
  /\ l + Len(evs) - 1 <= Len(Tr.ev)
  /\ \A i \in DOMAIN evs : Same(evs[i], Tr.ev[l + i - 1])
  /\ l' = l + Len(evs)

TrBegin == Begin(Tr.via, Tr.existing) /\ UNCHANGED <<tid, l>>
TrSilent == (EndParse \/ EndOptions \/ EndImport) /\ UNCHANGED <<tid, l>>
TrStep == LoggedStep /\ Match(Emits(last'.exp)) /\ UNCHANGED tid
TrNext == TrBegin \/ TrSilent \/ TrStep
TrSpec == TrInit /\ [][TrNext]_tvars

Progress == TLCSet(tid, IF TLCGet(tid) < l - 1 THEN l - 1 ELSE TLCGet(tid))
Ok(t) == TLCGet(t) = Len(Traces[t].ev) \/ (PrintT(<<"REJECT", t, TLCGet(t)>>) /\ FALSE)
Accepted == /\ PrintT(<<"TRACES-CHECKED", NT>>)
            /\ Cardinality({t \in 1..NT : ~Ok(t)}) = 0
====
