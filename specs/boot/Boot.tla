------------------------------- MODULE Boot -------------------------------
(* X15: command-line boot of POX (pox/boot.py).                             *)
(*                                                                          *)
(* What is modelled: one run of _do_launch(argv) (optionally reached        *)
(* through boot(argv), which first splices "py --disable" in after the      *)
(* leading options).  The spec is shaped like the code - one action per     *)
(* loop iteration / linearization point:                                    *)
(*                                                                          *)
(*   Type            the environment writes one more token of the command   *)
(*                   line (tokens are abstract: a component mention         *)
(*                   name[:function][=first] or an option --key[=value])    *)
(*   Begin / InsertPy                                                       *)
(*   ParseComponent / ParseOption      the "for arg in argv" loop           *)
(*   SetOption       Options.set for one POX option (process_options loop)  *)
(*   InitCore        pox.core.initialize(...) or "Using existing POX core"  *)
(*   PreStartup      _pre_startup (log config, verbosity, default openflow) *)
(*   Import / ImportSkip    _do_imports / _do_import name resolution        *)
(*   LaunchModuleOnly / LaunchNoFunction / LaunchNotFunction /              *)
(*   LaunchRefuseMultiple / LaunchBadArgs / LaunchCall     the launch loop  *)
(*   Finish / GoUp                                                          *)
(*                                                                          *)
(* The component modules are SYNTHETIC: the constant Cat describes, for     *)
(* every component symbol, where it can be imported from and the signature  *)
(* and behaviour of its launch functions; the harness generates real        *)
(* Python modules from the same catalog (exported by TLC), so the spec and  *)
(* the code under test see the same universe.                               *)
(*                                                                          *)
(* Where boot.py does not do what its own comments / ext/skeleton.py /      *)
(* util.eval_args document, the actual behaviour is a NAMED deviation that  *)
(* is taken only when its name is in the constant Dev (Dev = {} is the      *)
(* intended design, Dev = AsBuilt is what /repo does):                      *)
(*   AliasBypass       "x" and "x:launch" are counted as different          *)
(*                     components by the multiple-instance rule             *)
(*   InnerTypeError    a TypeError raised INSIDE a launch function is       *)
(*                     reported as a parameter error (return False) instead *)
(*                     of being re-raised                                   *)
(*   FirstArgRaw       the positional argument of "comp=value" is not       *)
(*                     literal-evaluated for an @eval_args function         *)
(*   NestedNoFallback  a dotted component name whose first package does not *)
(*                     exist under pox.* is not retried without "pox."      *)
EXTENDS Naturals, Sequences, FiniteSets, TLC, Json, SequencesExt

CONSTANTS Cat,        \* [component symbol -> [path, loc, pre, fns]]
          Alphabets,  \* what the environment may type: records [name, toks: the tokens, max: longest command
                      \* line, vias: entry points "launch" (_do_launch) / "boot" (boot), ex: subset of BOOLEAN
                      \* (does a POX core exist already)]; one model run explores all of them
          Lit,        \* [value text -> <<type, repr>>]: the texts that are Python literals
          Truthy,     \* value texts that str_to_bool maps to True
          LogFiles,   \* value texts that name an existing logging config file
          Dev         \* deviations switched on

AsBuilt == {"AliasBypass", "InnerTypeError", "FirstArgRaw", "NestedNoFallback"}
Has(d) == d \in Dev

\* ---- tokens -------------------------------------------------------------
\* component mention  n[:f][=v]      (hv: an "=" is present)
C(n, f, hv, v) == [t |-> "c", n |-> n, f |-> f, hv |-> hv, v |-> v]
\* option  --n[=v]   (n is the key with "-" already read as "_": the code
\* replaces them, so "--no-openflow", "--no_openflow", "-no-openflow" are one token here;
\* the harness picks a spelling)
O(k, hv, v) == [t |-> "o", n |-> k, f |-> "", hv |-> hv, v |-> v]
\* value as the parser stores it: True for a bare flag, else the text
Val(tok) == [b |-> ~tok.hv, s |-> IF tok.hv THEN tok.v ELSE ""]

Put(f, k, v) == [x \in (DOMAIN f) \cup {k} |-> IF x = k THEN v ELSE f[x]]
NoFn == [x \in {} |-> 0]
PutSeq(s, k, v) == IF \E i \in DOMAIN s : s[i][1] = k
                   THEN [i \in DOMAIN s |-> IF s[i][1] = k THEN <<k, v>> ELSE s[i]]
                   ELSE Append(s, <<k, v>>)

\* ---- typed values as a launch function / an option field sees them ------
T(ty, r) == <<ty, r>>
BoolV(b) == IF b THEN T("bool", "True") ELSE T("bool", "False")
NoneV == T("NoneType", "None")
\* ordinary functions get strings (True for a bare flag); @eval_args functions get Python literals where
\* the text is one, the string otherwise
ValOf(x, ev) == IF x.b THEN BoolV(TRUE)
                ELSE IF ev /\ x.s \in DOMAIN Lit THEN Lit[x.s] ELSE T("str", x.s)
StrToBool(x) == x.b \/ x.s \in Truthy

\* ---- the Options object ------------------------------------------------
BoolFields == {"verbose", "enable_openflow", "threaded_selecthub", "epoll_selecthub", "handle_signals"}
RawFields  == {"x15_tag"}                 \* a non-bool field without setter (harness subclass of POXOptions)
Setters    == {"h", "help", "version", "unthreaded_sh", "epoll_sh", "no_openflow", "log_config", "debug"}
\* names that are attributes of class Options itself or start with an underscore
IllegalKeys == {"set", "process_options", "_verbose", "__init__"}
Opts0 == [verbose |-> BoolV(FALSE), enable_openflow |-> BoolV(TRUE), log_config |-> NoneV,
          threaded_selecthub |-> BoolV(TRUE), epoll_selecthub |-> BoolV(FALSE),
          handle_signals |-> BoolV(TRUE), x15_tag |-> T("str", "t0")]
OptSnap(o) == <<o.verbose, o.enable_openflow, o.log_config, o.threaded_selecthub, o.epoll_selecthub,
                o.handle_signals, o.x15_tag>>
IsTrue(v) == v = BoolV(TRUE)

\* ---- launch signatures --------------------------------------------------
\* sig = [pos: parameter names, nreq: how many of them (a prefix) have no default, kw: has **kw,
\*        multi: last parameter is __INSTANCE__, eval: decorated with @eval_args,
\*        beh: what the body does ("ok" / "false" returns False / "raise" ValueError / "typeerr" raises TypeError
\*             / "real" = a real POX component whose calls the harness does not see),
\*        isfn: a plain function (else some other callable)]
FnName(cn) == IF cn[2] = "" THEN "launch" ELSE cn[2]
KwKeys(sig, d) == IF sig.multi THEN (DOMAIN d.kw) \cup {"__INSTANCE__"} ELSE DOMAIN d.kw
PosNames(sig) == {sig.pos[j] : j \in DOMAIN sig.pos}
\* would Python refuse the call f(*first, **kw)?
BindErr(sig, d) ==
  LET given == d.pos # <<>>
      np == Len(sig.pos)
      keys == KwKeys(sig, d) IN
  \/ given /\ np = 0
  \/ given /\ np >= 1 /\ sig.pos[1] \in keys
  \/ ~sig.kw /\ keys \ PosNames(sig) # {}
  \/ \E j \in 1..sig.nreq : sig.pos[j] \notin keys /\ ~(j = 1 /\ given)
\* what the error report names (the code looks at the keyword arguments only)
ArgErrMsg(sig, d) ==
  LET keys == KwKeys(sig, d) IN
  IF keys \ PosNames(sig) # {} THEN "no-param"
  ELSE IF \E j \in 1..sig.nreq : sig.pos[j] \notin keys THEN "missing-param"
  ELSE "bad-call"
NVis(sig) == IF sig.multi THEN Len(sig.pos) - 1 ELSE Len(sig.pos)
ArgsOf(sig, d) ==
  [j \in 1..NVis(sig) |->
     LET nm == sig.pos[j] IN
     IF j = 1 /\ d.pos # <<>>
     THEN <<nm>> \o ValOf([b |-> FALSE, s |-> d.pos[1]], sig.eval /\ ~Has("FirstArgRaw"))
     ELSE IF nm \in DOMAIN d.kw THEN <<nm>> \o ValOf(d.kw[nm], sig.eval)
     ELSE <<nm>> \o NoneV]
ExtraOf(sig, d) == {<<k>> \o ValOf(d.kw[k], sig.eval) : k \in (DOMAIN d.kw) \ PosNames(sig)}

VARIABLES
  al,          \* name of the alphabet this command line is written in (environment's choice, never changes)
  argv,        \* the command line: sequence of tokens
  via,         \* "launch" = _do_launch(argv) directly, "boot" = boot(argv)
  existing,    \* pox.core.core exists already when _do_launch starts
  phase,       \* typing, wrap, parse, options, core, pre, import, launch, post, done
  pi,          \* parser: index of the next token
  cur,         \* parser: where options go: <<>> = POX options, <<cname, k>> = k-th dict of that component
  popts,       \* POX options as parsed: <<key, value>> in insertion order
  components,  \* [cname -> sequence of parameter dicts [pos, kw]];  cname = <<name, function or "">>
  order,       \* component_order: sequence of cnames
  oi,          \* process_options: index of the next option
  opts,        \* the Options object
  coreArgs,    \* how the core was obtained: <<"none">>, <<"existing">>, <<thr, epoll, signals>>
  env,         \* what _pre_startup set up: [dbg, of]
  ii,          \* _do_imports: index into order
  resolved,    \* [name -> module name it was imported as]
  loaded,      \* synthetic modules in sys.modules
  li,          \* launch loop: index into order
  inst,        \* [cname -> mentions of it handled so far]
  calls,       \* the launch functions called so far, in order
  result,      \* running / true / false / exit0 / exit1 / exit2 / raise
  last, hist
vars == <<al, argv, via, existing, phase, pi, cur, popts, components, order, oi, opts, coreArgs, env, ii,
          resolved, loaded, li, inst, calls, result, last, hist>>
\* hist is for export only; last is determined by the rest (the state graph is a tree below the typed line)
view == <<al, argv, via, existing, phase, pi, cur, popts, components, order, oi, opts, coreArgs, env, ii,
          resolved, loaded, li, inst, calls, result>>

NoObs == [a |-> "Init", args |-> [x |-> 0], exp |-> [x |-> 0]]
Log(a, args, exp) ==
  /\ last' = [a |-> a, args |-> args, exp |-> exp]
  /\ hist' = Append(hist, [a |-> a, args |-> args, exp |-> exp])
Quiet == [x |-> 0]

PreLoaded == UNION {{(IF w = "pox" THEN "pox." ELSE "") \o Cat[c].path : w \in Cat[c].pre} : c \in DOMAIN Cat}

TheAlpha == CHOOSE a \in Alphabets : a.name = al
InitWith(av) ==
  /\ al \in {a.name : a \in Alphabets}
  /\ argv = av /\ via = "launch" /\ existing = FALSE /\ phase = "typing"
  /\ pi = 1 /\ cur = <<>> /\ popts = <<>> /\ components = NoFn /\ order = <<>>
  /\ oi = 1 /\ opts = Opts0 /\ coreArgs = <<"none">> /\ env = [dbg |-> FALSE, of |-> FALSE]
  /\ ii = 1 /\ resolved = NoFn /\ loaded = PreLoaded /\ li = 1 /\ inst = NoFn
  /\ calls = <<>> /\ result = "running"
  /\ last = NoObs /\ hist = <<>>
Init == InitWith(<<>>)

\* boot()'s "py" component has been launched (its Interactive object is registered with the core)
PyUp == \E i \in DOMAIN calls : calls[i].n = "py"

\* everything a terminal step shows: the outcome, the kind of message printed, the options object, what
\* _pre_startup had set up; `left` = launch/import/core events nobody accounted for, `same` = a second run
\* of the same command line in a fresh interpreter state produced the same events
EndObs(res, msg, o, e) ==
  [res |-> IF via = "boot" THEN (IF res = "true" THEN "up" ELSE "down") ELSE res,
   msg |-> msg, opts |-> OptSnap(o), of |-> e.of, dbg |-> e.dbg, py |-> PyUp, left |-> 0, same |-> TRUE]

Stop(a, args, res, msg, o, e) ==
  /\ result' = res /\ phase' = "done"
  /\ Log(a, args, EndObs(res, msg, o, e))

----------------------------------------------------------------------------
\* the environment writes the command line
Type(tok) ==
  /\ phase = "typing" /\ Len(argv) < TheAlpha.max
  /\ argv' = Append(argv, tok)
  /\ UNCHANGED <<al, via, existing, phase, pi, cur, popts, components, order, oi, opts, coreArgs, env, ii,
                 resolved, loaded, li, inst, calls, result, last, hist>>

Begin(v, ex) ==
  /\ phase = "typing"
  /\ via' = v /\ existing' = ex
  /\ phase' = IF v = "boot" THEN "wrap" ELSE "parse"
  /\ Log("Begin", [argv |-> argv, via |-> v, existing |-> ex, al |-> al], Quiet)
  /\ UNCHANGED <<al, argv, pi, cur, popts, components, order, oi, opts, coreArgs, env, ii, resolved, loaded, li,
                 inst, calls, result>>

\* boot(): "Always load cli (first!)" - after the leading options
LeadLen == IF \E k \in DOMAIN argv : argv[k].t = "c"
           THEN (CHOOSE k \in DOMAIN argv : argv[k].t = "c" /\ \A j \in 1..k-1 : argv[j].t = "o") - 1
           ELSE Len(argv)
InsertPy ==
  /\ phase = "wrap"
  /\ argv' = SubSeq(argv, 1, LeadLen) \o <<C("py", "", FALSE, ""), O("disable", FALSE, "")>>
               \o SubSeq(argv, LeadLen + 1, Len(argv))
  /\ phase' = "parse"
  /\ Log("InsertPy", [at |-> LeadLen], Quiet)
  /\ UNCHANGED <<al, via, existing, pi, cur, popts, components, order, oi, opts, coreArgs, env, ii, resolved,
                 loaded, li, inst, calls, result>>

\* ---- the argv loop
ParseComponent ==
  /\ phase = "parse" /\ pi <= Len(argv) /\ argv[pi].t = "c"
  /\ LET tok == argv[pi]
         cn == <<tok.n, tok.f>>
         d == [pos |-> IF tok.hv THEN <<tok.v>> ELSE <<>>, kw |-> NoFn]
         comps == IF cn \in DOMAIN components THEN [components EXCEPT ![cn] = Append(@, d)]
                  ELSE Put(components, cn, <<d>>) IN
     /\ components' = comps
     /\ order' = Append(order, cn)
     /\ cur' = <<cn, Len(comps[cn])>>
     /\ Log("ParseComponent", [i |-> pi], Quiet)
  /\ pi' = pi + 1
  /\ UNCHANGED <<al, argv, via, existing, phase, popts, oi, opts, coreArgs, env, ii, resolved, loaded, li, inst,
                 calls, result>>

ParseOption ==
  /\ phase = "parse" /\ pi <= Len(argv) /\ argv[pi].t = "o"
  /\ LET tok == argv[pi] IN
     IF cur = <<>>
     THEN /\ popts' = PutSeq(popts, tok.n, Val(tok))
          /\ UNCHANGED components
     ELSE /\ components' = [components EXCEPT ![cur[1]][cur[2]].kw = Put(@, tok.n, Val(tok))]
          /\ UNCHANGED popts
  /\ pi' = pi + 1
  /\ Log("ParseOption", [i |-> pi], Quiet)
  /\ UNCHANGED <<al, argv, via, existing, phase, cur, order, oi, opts, coreArgs, env, ii, resolved, loaded, li,
                 inst, calls, result>>

EndParse ==
  /\ phase = "parse" /\ pi > Len(argv)
  /\ phase' = "options"
  /\ inst' = [cn \in DOMAIN components |-> 0]
  /\ UNCHANGED <<al, argv, via, existing, pi, cur, popts, components, order, oi, opts, coreArgs, env, ii, resolved,
                 loaded, li, calls, result, last, hist>>

\* ---- process_options: Options.set for each POX option, in the order written
ApplyOption(o, k, x) ==
  CASE k \in BoolFields      -> [o EXCEPT ![k] = BoolV(StrToBool(x))]     \* automatic bool-ization
    [] k \in RawFields       -> [o EXCEPT ![k] = ValOf(x, FALSE)]
    [] k = "unthreaded_sh"   -> [o EXCEPT !.threaded_selecthub = BoolV(FALSE)]      \* whatever the value
    [] k = "epoll_sh"        -> [o EXCEPT !.epoll_selecthub = BoolV(StrToBool(x))]
    [] k = "no_openflow"     -> [o EXCEPT !.enable_openflow = BoolV(~StrToBool(x))]
    [] k = "log_config"      -> [o EXCEPT !.log_config = IF x.b THEN T("path", "default") ELSE T("str", x.s)]
    [] k = "debug"           -> IF StrToBool(x)
                                THEN [o EXCEPT !.verbose = BoolV(TRUE), !.enable_openflow = BoolV(FALSE)]
                                ELSE o
    [] OTHER                 -> o

SetOption ==
  /\ phase = "options" /\ oi <= Len(popts)
  /\ LET k == popts[oi][1]
         x == popts[oi][2]
         a == [k |-> k] IN
     IF k \in IllegalKeys
     THEN Stop("SetOption", a, "exit1", "illegal-option", opts, env) /\ UNCHANGED <<opts, oi, coreArgs>>
     ELSE IF k \in {"h", "help"}
     THEN Stop("SetOption", a, "exit0", "help", opts, env) /\ UNCHANGED <<opts, oi, coreArgs>>
     ELSE IF k = "version"
     THEN \* boot's own `core` is still None here: a core is made with default arguments, then exit
          /\ coreArgs' = <<"default">>
          /\ result' = "exit0" /\ phase' = "done"
          /\ Log("SetOption", a, [core |-> <<"default">>] @@ EndObs("exit0", "version", opts, env))
          /\ UNCHANGED <<opts, oi>>
     ELSE IF k \notin BoolFields \cup RawFields \cup Setters
     THEN Stop("SetOption", a, "exit1", "unknown-option", opts, env) /\ UNCHANGED <<opts, oi, coreArgs>>
     ELSE /\ opts' = ApplyOption(opts, k, x)
          /\ oi' = oi + 1
          /\ Log("SetOption", a, Quiet)
          /\ UNCHANGED <<phase, result, coreArgs>>
  /\ UNCHANGED <<al, argv, via, existing, pi, cur, popts, components, order, env, ii, resolved, loaded, li, inst,
                 calls>>

EndOptions ==
  /\ phase = "options" /\ oi > Len(popts)
  /\ phase' = "core"
  /\ UNCHANGED <<al, argv, via, existing, pi, cur, popts, components, order, oi, opts, coreArgs, env, ii, resolved,
                 loaded, li, inst, calls, result, last, hist>>

InitCore ==
  /\ phase = "core"
  /\ coreArgs' = IF existing THEN <<"existing">>
                 ELSE <<opts.threaded_selecthub[2], opts.epoll_selecthub[2], opts.handle_signals[2]>>
  /\ phase' = "pre"
  /\ Log("InitCore", Quiet, [core |-> coreArgs'])
  /\ UNCHANGED <<al, argv, via, existing, pi, cur, popts, components, order, oi, opts, env, ii, resolved, loaded,
                 li, inst, calls, result>>

\* _pre_startup: "after all the POX options have been read in but before any components are loaded"
PreStartup ==
  /\ phase = "pre"
  /\ LET lc == opts.log_config
         missing == lc # NoneV /\ ~(lc[1] = "str" /\ lc[2] \in LogFiles) IN
     IF missing
     THEN Stop("PreStartup", Quiet, "exit2", "no-logcfg", opts, env) /\ UNCHANGED env
     ELSE /\ env' = [dbg |-> IsTrue(opts.verbose), of |-> IsTrue(opts.enable_openflow)]
          /\ phase' = "import"
          /\ Log("PreStartup", Quiet, Quiet)
          /\ UNCHANGED result
  /\ UNCHANGED <<al, argv, via, existing, pi, cur, popts, components, order, oi, opts, coreArgs, ii, resolved,
                 loaded, li, inst, calls>>

\* ---- _do_imports: every component is imported before any is launched
PoxName(n) == "pox." \o Cat[n].path
TopName(n) == Cat[n].path
\* outcome of _do_import(name): <<"ok", module>> or <<"fail", message kind>>
Resolve(n) ==
  CASE Cat[n].loc \in {"pox", "both", "npox", "real"} -> <<"ok", PoxName(n)>>
    [] Cat[n].loc = "top"      -> <<"ok", TopName(n)>>          \* pox.X is not there: the name is tried as it is
    [] Cat[n].loc = "ntop"     -> IF Has("NestedNoFallback") THEN <<"fail", "import-failed">>
                                  ELSE <<"ok", TopName(n)>>
    [] Cat[n].loc = "missing"  -> <<"fail", "not-found">>
    [] Cat[n].loc = "nmissing" -> IF Has("NestedNoFallback") THEN <<"fail", "import-failed">>
                                  ELSE <<"fail", "not-found">>
    [] Cat[n].loc \in {"dep", "err"} -> <<"fail", "import-failed">>    \* found, but its own import fails
\* module bodies that run during the attempt (a module already in sys.modules does not run again)
BodyRuns(n) ==
  LET r == Resolve(n) IN
  IF Cat[n].loc = "real" THEN <<>>              \* a real POX module: the harness does not see its body run
  ELSE IF r[1] = "ok" THEN (IF r[2] \in loaded THEN <<>> ELSE <<r[2]>>)
  ELSE IF Cat[n].loc \in {"dep", "err"} THEN <<PoxName(n)>> ELSE <<>>

Import ==
  /\ phase = "import" /\ ii <= Len(order)
  /\ LET n == order[ii][1]
         r == Resolve(n) IN
     /\ n \notin DOMAIN resolved
     /\ IF r[1] = "ok"
        THEN /\ resolved' = Put(resolved, n, r[2])
             /\ loaded' = loaded \cup {r[2]}
             /\ ii' = ii + 1
             /\ Log("Import", [n |-> n], [ev |-> BodyRuns(n)])
             /\ UNCHANGED <<phase, result>>
        ELSE /\ result' = "false" /\ phase' = "done"
             /\ Log("Import", [n |-> n], [ev |-> BodyRuns(n)] @@ EndObs("false", r[2], opts, env))
             /\ UNCHANGED <<resolved, loaded, ii>>
  /\ UNCHANGED <<al, argv, via, existing, pi, cur, popts, components, order, oi, opts, coreArgs, env, li, inst,
                 calls>>

ImportSkip ==        \* "if name in done: continue"
  /\ phase = "import" /\ ii <= Len(order)
  /\ order[ii][1] \in DOMAIN resolved
  /\ ii' = ii + 1
  /\ Log("ImportSkip", [n |-> order[ii][1]], Quiet)
  /\ UNCHANGED <<al, argv, via, existing, phase, pi, cur, popts, components, order, oi, opts, coreArgs, env,
                 resolved, loaded, li, inst, calls, result>>

EndImport ==
  /\ phase = "import" /\ ii > Len(order)
  /\ phase' = "launch"
  /\ UNCHANGED <<al, argv, via, existing, pi, cur, popts, components, order, oi, opts, coreArgs, env, ii, resolved,
                 loaded, li, inst, calls, result, last, hist>>

\* ---- the launch loop
SameTarget(c1, c2) == c1[1] = c2[1] /\ FnName(c1) = FnName(c2)
\* the mentions that are "the same component" for the multiple-instance rule
Group(cn) == IF Has("AliasBypass") THEN {k \in DOMAIN order : order[k] = cn}
             ELSE {k \in DOMAIN order : SameTarget(order[k], cn)}
LCn == order[li]
LN  == LCn[1]
LFn == FnName(LCn)
LD  == components[LCn][inst[LCn] + 1]          \* "exactly the arguments written after it"
LHas == LFn \in DOMAIN Cat[LN].fns
LSig == Cat[LN].fns[LFn]
LIdx == Cardinality({k \in Group(LCn) : k < li})
LTot == Cardinality(Group(LCn))
InLaunch == phase = "launch" /\ li <= Len(order)
Advance == li' = li + 1 /\ inst' = [inst EXCEPT ![LCn] = @ + 1]
LArgs == [n |-> LN, f |-> LCn[2]]
EnvSnap == [opts |-> OptSnap(opts), of |-> env.of, dbg |-> env.dbg, core |-> coreArgs, py |-> PyUp]
LUnch == UNCHANGED <<al, argv, via, existing, pi, cur, popts, components, order, oi, opts, coreArgs, env, ii,
                     resolved, loaded>>

\* a module without that function and without arguments is only imported
LaunchModuleOnly ==
  /\ InLaunch /\ ~LHas /\ DOMAIN LD.kw = {} /\ LFn = "launch"
  /\ Advance
  /\ Log("LaunchModuleOnly", LArgs, Quiet)
  /\ UNCHANGED <<phase, calls, result>> /\ LUnch

LaunchNoFunction ==
  /\ InLaunch /\ ~LHas /\ (DOMAIN LD.kw # {} \/ LFn # "launch")
  /\ Stop("LaunchNoFunction", LArgs, "false", "no-function", opts, env)
  /\ UNCHANGED <<li, inst, calls>> /\ LUnch

LaunchNotFunction ==
  /\ InLaunch /\ LHas /\ ~LSig.isfn
  /\ Stop("LaunchNotFunction", LArgs, "false", "not-function", opts, env)
  /\ UNCHANGED <<li, inst, calls>> /\ LUnch

LaunchRefuseMultiple ==
  /\ InLaunch /\ LHas /\ LSig.isfn
  /\ ~LSig.multi /\ LTot # 1
  /\ Stop("LaunchRefuseMultiple", LArgs, "false", "multiple", opts, env)
  /\ UNCHANGED <<li, inst, calls>> /\ LUnch

Callable == InLaunch /\ LHas /\ LSig.isfn /\ (LSig.multi \/ LTot = 1)

\* "unknown or missing arguments abort the launch with an error instead of a partial call"
LaunchBadArgs ==
  /\ Callable /\ BindErr(LSig, LD)
  /\ Stop("LaunchBadArgs", LArgs, "false", ArgErrMsg(LSig, LD), opts, env)
  /\ UNCHANGED <<li, inst, calls>> /\ LUnch

CallRec == [m |-> li, n |-> LN, mod |-> resolved[LN], fn |-> LFn, given |-> LD,
            args |-> ArgsOf(LSig, LD), extra |-> ExtraOf(LSig, LD),
            inst |-> IF LSig.multi
                     THEN <<ToString(LIdx), ToString(LTot), IF LIdx + 1 = LTot THEN "True" ELSE "False">>
                     ELSE <<>>]
CallObs(c) == IF LSig.beh = "real" THEN Quiet        \* a real component: its call is not seen by the harness
              ELSE [call |-> [mod |-> c.mod, fn |-> c.fn, args |-> c.args, extra |-> c.extra, inst |-> c.inst,
                              env |-> EnvSnap]]

LaunchCall ==
  /\ Callable /\ ~BindErr(LSig, LD)
  /\ calls' = Append(calls, CallRec)
  /\ LET beh == LSig.beh IN
     IF beh \in {"ok", "real"}
     THEN /\ Advance /\ Log("LaunchCall", LArgs, CallObs(CallRec)) /\ UNCHANGED <<phase, result>>
     ELSE /\ UNCHANGED <<li, inst>>
          /\ result' = CASE beh = "false" -> "false"                        \* "Abort startup"
                         [] beh = "raise" -> "raise"
                         [] beh = "typeerr" -> IF Has("InnerTypeError") THEN "false" ELSE "raise"
          /\ phase' = "done"
          /\ Log("LaunchCall", LArgs,
                 CallObs(CallRec) @@ EndObs(result',
                                            IF beh = "typeerr" /\ Has("InnerTypeError") THEN ArgErrMsg(LSig, LD)
                                            ELSE IF beh = "false" THEN "-" ELSE "exception", opts, env))
  /\ LUnch

Finish ==
  /\ phase = "launch" /\ li > Len(order)
  /\ result' = "true"
  /\ phase' = IF via = "boot" THEN "post" ELSE "done"
  /\ IF via = "boot" THEN Log("Finish", Quiet, Quiet)
     ELSE Log("Finish", Quiet, EndObs("true", "-", opts, env))
  /\ UNCHANGED <<li, inst, calls>> /\ LUnch

\* boot(): _post_startup() and core.goUp() only after every component was launched
GoUp ==
  /\ phase = "post"
  /\ phase' = "done"
  /\ Log("GoUp", Quiet, [up |-> <<"GoingUp", "Up">>] @@ EndObs("true", "-", opts, env))
  /\ UNCHANGED <<li, inst, calls, result>> /\ LUnch

TypeAny == \E tok \in TheAlpha.toks : Type(tok)
BeginAny == \E v \in TheAlpha.vias, ex \in TheAlpha.ex : Begin(v, ex)
Launch == LaunchModuleOnly \/ LaunchNoFunction \/ LaunchNotFunction \/ LaunchRefuseMultiple
          \/ LaunchBadArgs \/ LaunchCall
\* the steps that are logged (the others only leave a loop)
LoggedStep == InsertPy \/ ParseComponent \/ ParseOption \/ SetOption \/ InitCore \/ PreStartup \/ Import
              \/ ImportSkip \/ Launch \/ Finish \/ GoUp
BootStep == InsertPy \/ ParseComponent \/ ParseOption \/ EndParse \/ SetOption \/ EndOptions \/ InitCore
            \/ PreStartup \/ Import \/ ImportSkip \/ EndImport \/ Launch \/ Finish \/ GoUp
Next == TypeAny \/ BeginAny \/ BootStep
Spec == Init /\ [][Next]_vars

----------------------------------------------------------------------------
(* The properties, over the real variables.                                 *)

Phases == {"typing", "wrap", "parse", "options", "core", "pre", "import", "launch", "post", "done"}
TypeOK ==
  /\ phase \in Phases /\ via \in {"launch", "boot"} /\ existing \in BOOLEAN
  /\ result \in {"running", "true", "false", "exit0", "exit1", "exit2", "raise"}
  /\ pi \in 1..Len(argv) + 1 /\ oi \in 1..Len(popts) + 1 /\ ii \in 1..Len(order) + 1 /\ li \in 1..Len(order) + 1
  /\ \A cn \in DOMAIN components : Len(components[cn]) >= 1
  /\ (result # "running") = (phase \in {"post", "done"})

\* ---- the command line read declaratively (not the way the parser does it)
MentionIdx == {k \in DOMAIN argv : argv[k].t = "c"}
NMentions == Cardinality(MentionIdx)
MPos(m) == CHOOSE p \in MentionIdx : Cardinality({q \in MentionIdx : q < p}) = m - 1
Written(m) ==
  LET p == MPos(m)
      e == IF m < NMentions THEN MPos(m + 1) - 1 ELSE Len(argv)
      ks == {argv[q].n : q \in p + 1..e}
      lastq(k) == CHOOSE q \in p + 1..e : argv[q].n = k /\ \A r \in q + 1..e : argv[r].n # k IN
  [pos |-> IF argv[p].hv THEN <<argv[p].v>> ELSE <<>>,
   kw |-> [k \in ks |-> Val(argv[lastq(k)])]]
Parsed == phase \notin {"typing", "wrap", "parse"}
HasFnM(m) == FnName(order[m]) \in DOMAIN Cat[order[m][1]].fns
CalledM == {calls[i].m : i \in DOMAIN calls}

\* the parser's result is the command line: components in order, each with exactly what was written after
\* it and before the next component (the last occurrence of a repeated key wins)
ParsedIsWritten ==
  Parsed => /\ Len(order) = NMentions
            /\ \A m \in 1..NMentions :
                 LET tok == argv[MPos(m)]
                     cn == <<tok.n, tok.f>>
                     j == Cardinality({q \in 1..m : order[q] = cn}) IN
                 /\ order[m] = cn
                 /\ components[cn][j].pos = Written(m).pos
                 /\ DOMAIN components[cn][j].kw = DOMAIN Written(m).kw
                 /\ \A k \in DOMAIN Written(m).kw : components[cn][j].kw[k] = Written(m).kw[k]

\* every call: the component mentioned there, with exactly the arguments written for that mention
ArgsExact ==
  \A i \in DOMAIN calls :
    LET c == calls[i]
        tok == argv[MPos(c.m)]
        w == Written(c.m) IN
    /\ c.n = tok.n /\ c.fn = FnName(<<tok.n, tok.f>>)
    /\ c.given.pos = w.pos /\ DOMAIN c.given.kw = DOMAIN w.kw
    /\ \A k \in DOMAIN w.kw : c.given.kw[k] = w.kw[k]
    /\ ~BindErr(Cat[c.n].fns[c.fn], c.given)                \* never a call Python would have refused

\* in command-line order, each mention at most once, none skipped
LaunchedInOrder ==
  /\ \A i, j \in DOMAIN calls : i < j => calls[i].m < calls[j].m
  /\ \A m \in CalledM : m <= li
  /\ phase = "launch" => CalledM = {m \in 1..li - 1 : HasFnM(m)}
  /\ result = "true" => CalledM = {m \in 1..Len(order) : HasFnM(m)}

\* POX options are applied, the core exists and _pre_startup has run before the first launch
OptionsFirst ==
  calls # <<>> => /\ oi > Len(popts) /\ coreArgs # <<"none">>
                  /\ env = [dbg |-> IsTrue(opts.verbose), of |-> IsTrue(opts.enable_openflow)]
                  /\ ii > Len(order)             \* as built: everything is imported first, too
OptionsFrozen == [][phase # "options" => opts' = opts]_vars

\* a launch function that does not take __INSTANCE__ is called at most once
OnceEach ==
  \A i, j \in DOMAIN calls :
    (i # j /\ calls[i].n = calls[j].n /\ calls[i].fn = calls[j].fn) => Cat[calls[i].n].fns[calls[i].fn].multi
\* ... which the code only guarantees per spelling of the component
OnceEachSpelling ==
  \A i, j \in DOMAIN calls :
    (i # j /\ order[calls[i].m] = order[calls[j].m]) => Cat[calls[i].n].fns[calls[i].fn].multi
\* __INSTANCE__ = (number of this instance, number of instances, is it the last)
InstanceNumbers ==
  \A i \in DOMAIN calls :
    LET c == calls[i]
        same == {k \in DOMAIN order : SameTarget(order[k], order[c.m])} IN
    c.inst # <<>> => c.inst = <<ToString(Cardinality({k \in same : k < c.m})), ToString(Cardinality(same)),
                                 IF Cardinality({k \in same : k <= c.m}) = Cardinality(same) THEN "True"
                                 ELSE "False">>

\* a component that cannot be found / imported, a refused or failing launch: boot fails, nothing is launched
\* afterwards, and (boot()) POX does not go up
Unfindable(n) == Resolve(n)[1] = "fail"
NotFoundFails ==
  (phase = "done" /\ \E k \in DOMAIN order : Unfindable(order[k][1])) => result # "true" /\ calls = <<>>
StopAfterFailure == [][result \notin {"running", "true"} => calls' = calls /\ result' = result]_vars
FailureIsFinal == [][(result' \notin {"running", "true"}) => phase' = "done"]_vars
UpOnlyAfterAll ==
  [][(last'.a = "GoUp") => (result = "true" /\ CalledM = {m \in 1..Len(order) : HasFnM(m)})]_vars

\* what the intended design promises and the code as built does not (checked with Dev = {} only)
\* the import of a component fails only if the module is not there (or is broken): an existing module is found
\* whatever the shape of its name
TopLevelFound ==
  (phase = "done" /\ last.a = "Import") => Cat[last.args.n].loc \notin {"pox", "both", "npox", "top", "ntop"}
\* an exception raised inside a launch function reaches the caller of _do_launch
InnerErrorsPropagate ==
  (phase = "done" /\ calls # <<>> /\ Cat[calls[Len(calls)].n].fns[calls[Len(calls)].fn].beh \in {"raise", "typeerr"})
     => result = "raise"
\* @eval_args: every argument that is a Python literal arrives as that value
EvalAll ==
  \A i \in DOMAIN calls :
    LET c == calls[i] sig == Cat[c.n].fns[c.fn] IN
    (sig.eval /\ c.given.pos # <<>> /\ c.given.pos[1] \in DOMAIN Lit /\ Len(c.args) >= 1)
       => <<c.args[1][2], c.args[1][3]>> = Lit[c.given.pos[1]]

\* the same argv always yields the same calls: once the command line is fixed, at most one step is possible
Det(A) == IF ENABLED A THEN 1 ELSE 0
Deterministic ==
  phase # "typing" =>
    Det(InsertPy) + Det(ParseComponent) + Det(ParseOption) + Det(EndParse) + Det(SetOption) + Det(EndOptions)
    + Det(InitCore) + Det(PreStartup) + Det(Import) + Det(ImportSkip) + Det(EndImport) + Det(LaunchModuleOnly)
    + Det(LaunchNoFunction) + Det(LaunchNotFunction) + Det(LaunchRefuseMultiple) + Det(LaunchBadArgs)
    + Det(LaunchCall) + Det(Finish) + Det(GoUp) <= 1

\* ---- export for the replay harness: one behaviour per finished command line
Export  == (phase = "done") => PrintT(<<"H", ToJson(hist)>>)
\* how many that must be: the harness checks that it received every one of them
ASSUME PrintT(<<"ALPHA", ToJson({[name |-> a.name, n |-> Cardinality(a.toks), max |-> a.max,
                                   v |-> Cardinality(a.vias), e |-> Cardinality(a.ex)] : a \in Alphabets})>>)
=============================================================================
