CONSTANTS
  Cat <- MCCat
  Alphabets <- BiteImport
  Lit <- MCLit
  Truthy <- MCTruthy
  LogFiles <- MCLogFiles
  Dev <- AsBuilt
INIT Init
NEXT Next
VIEW view
INVARIANT TopLevelFound
CHECK_DEADLOCK FALSE
