CONSTANTS
  Cat <- MCCat
  Alphabets <- BiteFail
  Lit <- MCLit
  Truthy <- MCTruthy
  LogFiles <- MCLogFiles
  Dev <- AsBuilt
INIT Init
NEXT Next
VIEW view
INVARIANT InnerErrorsPropagate
CHECK_DEADLOCK FALSE
