CONSTANTS
  Cat <- MCCat
  Alphabets <- ThorS1
  Lit <- MCLit
  Truthy <- MCTruthy
  LogFiles <- MCLogFiles
  Dev <- NoDev
INIT Init
NEXT Next
VIEW view
INVARIANT TypeOK
INVARIANT ParsedIsWritten
INVARIANT ArgsExact
INVARIANT LaunchedInOrder
INVARIANT OptionsFirst
INVARIANT OnceEachSpelling
INVARIANT NotFoundFails
INVARIANT Deterministic
INVARIANT OnceEach
INVARIANT InstanceNumbers
INVARIANT TopLevelFound
INVARIANT InnerErrorsPropagate
INVARIANT EvalAll
PROPERTY OptionsFrozen
PROPERTY StopAfterFailure
PROPERTY FailureIsFinal
PROPERTY UpOnlyAfterAll
INVARIANT Export
CHECK_DEADLOCK FALSE
