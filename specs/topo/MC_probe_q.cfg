CONSTANTS
  SDpids <- MCDpidsQ
  SPorts <- MCPortsQ
  RDpids <- MCRDpidsQ
  RPorts <- MCRPortsQ
  D = 1
INIT Init
NEXT Next
INVARIANT Exact
INVARIANT Injective
CHECK_DEADLOCK FALSE
