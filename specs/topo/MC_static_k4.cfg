CONSTANTS
  Nets <- MCNetsK4
  Durations <- MCDurSmall
  Cycle = 5
  Timeout = 10
  CheckPeriod = 5
  Slack = 1
  D = 0
INIT InitConverged
NEXT NextFlood
VIEW viewE
INVARIANT ForestOK
INVARIANT Acyclic
INVARIANT Spanning
INVARIANT HostPortsFlood
INVARIANT ExactlyOnce
CHECK_DEADLOCK FALSE
