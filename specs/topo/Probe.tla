------------------------------- MODULE Probe -------------------------------
(* C19, probe encoding: what the discovery component sends out of port p of *)
(* switch d must be recognised, when it comes back in on port q of switch   *)
(* r, as the link <<d, p, r, q>> - for every 64-bit datapath id and every   *)
(* 16-bit port number.  Datapath ids are 8-tuples of bytes, port numbers    *)
(* 2-tuples (TLC integers are 32 bit); the replay adapter turns them into   *)
(* the real numbers.  The spec says nothing about HOW the probe is encoded. *)
EXTENDS Naturals, Sequences, FiniteSets, TLC, Json

CONSTANTS SDpids, SPorts,    \* sending side: datapath ids, port numbers
          RDpids, RPorts,    \* receiving side
          D                  \* export depth

VARIABLES cur,    \* the sending switch of this behaviour (constant; see Init)
          adj,    \* the adjacency
          sent,   \* every probe that travelled: <<d, p, r, q>>
          last, hist
vars  == <<cur, adj, sent, last, hist>>
viewE == <<cur, adj, sent>>

PortNo(p)   == p[1] * 256 + p[2]
OFPP_MAX    == 65280
\* only physical ports are probed (above OFPP_MAX are OpenFlow's virtual ports)
Physical(p) == PortNo(p) <= OFPP_MAX

\* (one initial state per sending switch: TLC handles many initial states with
\* few successors each far better than one state with 10^5 successors)
Init == cur \in SDpids /\ adj = {} /\ sent = {} /\ hist = <<>>
        /\ last = [a |-> "Init", args |-> [x |-> 0], exp |-> [adj |-> {}]]

Log(a, args, exp) ==
  /\ last' = [a |-> a, args |-> args, exp |-> exp]
  /\ hist' = Append(hist, [a |-> a, args |-> args, exp |-> exp])

\* switch d probes its port p; the wire leads to port q of switch r
Probe(d, p, r, q) ==
  LET l == <<d, p, r, q>>
      A == IF Physical(p) /\ <<d, p>> # <<r, q>> THEN adj \cup {l} ELSE adj
  IN /\ Len(hist) < D /\ d = cur /\ UNCHANGED cur
     /\ adj' = A
     /\ sent' = sent \cup {l}
     /\ Log("Probe", [d |-> d, p |-> p, r |-> r, q |-> q], [adj |-> A])

ProbeAny == \E d \in {cur}, p \in SPorts :
          \E r \in RDpids \cup {d}, q \in RPorts \cup {p} : Probe(d, p, r, q)
Next == ProbeAny
Spec == Init /\ [][Next]_vars

\* the adjacency is exactly the set of links over which probes travelled
Exact == adj = {l \in sent : Physical(l[2]) /\ <<l[1], l[2]>> # <<l[3], l[4]>>}
\* distinct (datapath id, port) pairs are never confused
Injective == \A l1, l2 \in adj : (l1[1] # l2[1] \/ l1[2] # l2[2] \/ l1[3] # l2[3] \/ l1[4] # l2[4]) => l1 # l2

Bound   == Len(hist) <= D
ExportT == PrintT(<<"T", ToJson(hist')>>)
=============================================================================
