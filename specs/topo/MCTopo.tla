------------------------------ MODULE MCTopo ------------------------------
(* Constants for model checking Topo.tla.                                   *)
EXTENDS Topo

Both(W) == W \cup {Flip(l) : l \in W}

\* two switches, two parallel cables, one host port each
NetPar == [n |-> 2, np |-> 3, wires |-> Both({<<1, 1, 2, 1>>, <<1, 2, 2, 2>>})]
\* triangle of single cables, one host port each
NetTri == [n |-> 3, np |-> 3, wires |-> Both({<<1, 1, 2, 1>>, <<2, 2, 3, 1>>, <<3, 2, 1, 2>>})]
\* a cable looped back into the same switch, plus a neighbour
NetLoop == [n |-> 2, np |-> 4, wires |-> Both({<<1, 1, 1, 2>>, <<1, 3, 2, 1>>})]
\* three switches, every pair joined by two cables (static checks only)
NetK3x2 == [n |-> 3, np |-> 5,
            wires |-> Both({<<1, 1, 2, 1>>, <<1, 2, 2, 2>>, <<1, 3, 3, 1>>, <<1, 4, 3, 2>>,
                            <<2, 3, 3, 3>>, <<2, 4, 3, 4>>})]
\* four switches, every pair joined by one cable (static checks only)
NetK4 == [n |-> 4, np |-> 4,
          wires |-> Both({<<1, 1, 2, 1>>, <<1, 2, 3, 1>>, <<1, 3, 4, 1>>,
                          <<2, 2, 3, 2>>, <<2, 3, 4, 2>>, <<3, 3, 4, 3>>})]

\* two switches, one cable and one extra one-way wire
NetOne == [n |-> 2, np |-> 3, wires |-> Both({<<1, 1, 2, 1>>}) \cup {<<1, 2, 2, 2>>}]
MCNetsOne  == {NetOne}
\* two switches, one cable, one host port each (the spanning_tree options: the
\* NO_FLOOD bits of young switches are free, which multiplies the states)
NetMin == [n |-> 2, np |-> 2, wires |-> Both({<<1, 1, 2, 1>>})]
MCNetsMin == {NetMin}
\* chain of three switches
NetChain == [n |-> 3, np |-> 3, wires |-> Both({<<1, 1, 2, 1>>, <<2, 2, 3, 1>>})]
MCNetsChain == {NetChain}
MCNetsPar  == {NetPar}
MCNetsTri  == {NetTri}
MCNetsLoop == {NetLoop}
MCNetsK3x2 == {NetK3x2}
MCNetsK4   == {NetK4}
MCNetsGen  == {NetPar, NetTri, NetLoop}
MCDurSmall == {6, 16}
MCDurLong  == {16}
MCDurGen   == {1, 3, 6, 10, 16}
MCDurRel   == {}                   \* = {Detect, Expire} of the configuration
MCDurRelQ  == {0}                  \* = {Detect or Hold + Slack, Expire} of the configuration
MCDurSim   == {1, 2, 3, 4, 6, 8, 10, 16}

\* Configurations (options of openflow.discovery / openflow.spanning_tree)
Opt(to, nofl, hold) == [to |-> to, flow |-> TRUE, drop |-> TRUE, eat |-> FALSE, nofl |-> nofl, hold |-> hold]
CfgDefault == Opt(10, FALSE, FALSE)
MCCfgDefault == {CfgDefault}
\* link timeouts: short (odd: the probe cycle is not whole), long
MCCfgShort == {Opt(3, FALSE, FALSE)}
MCCfgLong  == {Opt(30, FALSE, FALSE)}
\* the three spanning_tree modes (with a short timeout: small ages)
MCCfgHold  == {Opt(4, FALSE, TRUE)}
MCCfgNofl  == {Opt(4, TRUE, FALSE)}
MCCfgBoth  == {Opt(4, TRUE, TRUE)}
\* the options no clause mentions, all eight combinations (default timing)
MCCfgFlags == {[to |-> 10, flow |-> f, drop |-> d, eat |-> e, nofl |-> FALSE, hold |-> FALSE] :
                 f \in BOOLEAN, d \in BOOLEAN, e \in BOOLEAN}
\* short odd timeout, the don't-care options all flipped
MCCfgShortFlipped == {[to |-> 3, flow |-> FALSE, drop |-> FALSE, eat |-> TRUE, nofl |-> FALSE, hold |-> FALSE]}
\* what TLC draws environment histories from (EX_sim.cfg)
MCCfgSim == {CfgDefault, Opt(2, FALSE, FALSE), Opt(3, FALSE, FALSE), Opt(4, FALSE, FALSE), Opt(7, FALSE, FALSE),
             Opt(4, FALSE, TRUE), Opt(4, TRUE, FALSE), Opt(4, TRUE, TRUE), Opt(10, TRUE, TRUE), Opt(3, TRUE, TRUE),
             [to |-> 4, flow |-> FALSE, drop |-> FALSE, eat |-> TRUE, nofl |-> FALSE, hold |-> FALSE],
             [to |-> 10, flow |-> FALSE, drop |-> TRUE, eat |-> TRUE, nofl |-> FALSE, hold |-> TRUE]}

(* Several configurations in ONE run (quick tier): Next split per class of   *)
(* configuration, so that TLC's per-action coverage shows that every action *)
(* was taken under every class (the vacuity guard of the check).            *)
MCCfgQuick == MCCfgShortFlipped \cup MCCfgHold \cup MCCfgNofl \cup MCCfgBoth
IsPlain == ~cfg.nofl /\ ~cfg.hold
PlainUp == IsPlain /\ UpAny
PlainDown == IsPlain /\ DownAny
PlainAdvance == IsPlain /\ AdvanceAny
PlainCut == IsPlain /\ CutNext
PlainRestore == IsPlain /\ RestoreNext
PlainFlood == IsPlain /\ FloodNext
PlainHeld == IsPlain /\ DelayNext
PlainLate == IsPlain /\ LateNext
IsHold == ~cfg.nofl /\ cfg.hold
HoldUp == IsHold /\ UpAny
HoldDown == IsHold /\ DownAny
HoldAdvance == IsHold /\ AdvanceAny
HoldCut == IsHold /\ CutNext
HoldRestore == IsHold /\ RestoreNext
HoldFlood == IsHold /\ FloodNext
HoldHeld == IsHold /\ DelayNext
HoldLate == IsHold /\ LateNext
IsNofl == cfg.nofl /\ ~cfg.hold
NoflUp == IsNofl /\ UpAny
NoflDown == IsNofl /\ DownAny
NoflAdvance == IsNofl /\ AdvanceAny
NoflCut == IsNofl /\ CutNext
NoflRestore == IsNofl /\ RestoreNext
NoflFlood == IsNofl /\ FloodNext
NoflHeld == IsNofl /\ DelayNext
NoflLate == IsNofl /\ LateNext
IsBoth == cfg.nofl /\ cfg.hold
BothUp == IsBoth /\ UpAny
BothDown == IsBoth /\ DownAny
BothAdvance == IsBoth /\ AdvanceAny
BothCut == IsBoth /\ CutNext
BothRestore == IsBoth /\ RestoreNext
BothFlood == IsBoth /\ FloodNext
BothHeld == IsBoth /\ DelayNext
BothLate == IsBoth /\ LateNext
NextCfgs == \/ PlainUp \/ PlainDown \/ PlainAdvance \/ PlainCut \/ PlainRestore \/ PlainFlood \/ PlainHeld \/ PlainLate
            \/ HoldUp \/ HoldDown \/ HoldAdvance \/ HoldCut \/ HoldRestore \/ HoldFlood \/ HoldHeld \/ HoldLate
            \/ NoflUp \/ NoflDown \/ NoflAdvance \/ NoflCut \/ NoflRestore \/ NoflFlood \/ NoflHeld \/ NoflLate
            \/ BothUp \/ BothDown \/ BothAdvance \/ BothCut \/ BothRestore \/ BothFlood \/ BothHeld \/ BothLate

\* quick tier: probes in flight under two of the four classes only (cost); NextCfgs (all four) in the thorough tier
NextCfgsQ == \/ PlainUp \/ PlainDown \/ PlainAdvance \/ PlainCut \/ PlainRestore \/ PlainFlood \/ PlainHeld \/ PlainLate
             \/ HoldUp \/ HoldDown \/ HoldAdvance \/ HoldCut \/ HoldRestore \/ HoldFlood
             \/ NoflUp \/ NoflDown \/ NoflAdvance \/ NoflCut \/ NoflRestore \/ NoflFlood
             \/ BothUp \/ BothDown \/ BothAdvance \/ BothCut \/ BothRestore \/ BothFlood \/ BothHeld \/ BothLate

(* Reference controller with an environment biased towards probes in flight *)
(* (EX_flight.cfg): whenever a probe can be delayed it is; while one is on   *)
(* its way switches come and go, wires are cut, or it arrives.               *)
NextRefFlight ==
  IF flight = {}
  THEN IF \E w \in adj : IsLive(w, phys, conn) THEN DelayNext ELSE NextRef
  ELSE \/ \E s \in conn : SwitchDown(s, RefR(phys, conn \ {s}, 0, 0))
       \/ \E s \in Switches \ conn : SwitchUp(s, RefR(phys, conn \cup {s}, 0, 0))
       \/ CutNext
       \/ \E w \in flight : Late(w, LateRefR(w))
       \/ \E d \in {1, Detect} : Advance(d, RefR(phys, conn, d, Lesser(quiet + d, Cap)))

(* Static part: every converged state (any wiring, any permitted NO_FLOOD   *)
(* set) as an initial state; only Flood steps.  Decides "forest => a        *)
(* flooded frame reaches every switch exactly once" for ALL sub-multigraphs *)
(* of the net and ALL forests the property permits.                         *)
InitConverged ==
  /\ net \in Nets
  /\ cfg \in Configs
  /\ phys \in SUBSET net.wires
  /\ conn = Switches
  /\ adj = phys
  /\ nf \in {X \in SUBSET Ends(phys) : FloodReason(phys, Switches, X, {}) = "ok"}
  /\ age = [l \in net.wires |-> Cap]
  /\ quiet = Cap
  /\ since = [s \in Switches |-> HoldCap]
  /\ flight = {}
  /\ last = NoObs
  /\ hist = <<>>
NextFlood == FloodNext
=============================================================================
