------------------------------ MODULE MCTopo ------------------------------
(* Constants for model checking Topo.tla.                                   *)
EXTENDS Topo

Both(W) == W \cup {Flip(l) : l \in W}

\* two switches, two parallel cables, one host port each
NetPar == [n |-> 2, np |-> 3, wires |-> Both({<<1, 1, 2, 1>>, <<1, 2, 2, 2>>})]
\* triangle of single cables, one host port each
NetTri == [n |-> 3, np |-> 3, wires |-> Both({<<1, 1, 2, 1>>, <<2, 2, 3, 1>>, <<3, 2, 1, 2>>})]
\* a cable looped back into the same switch, plus a neighbour
NetLoop == [n |-> 2, np |-> 4, wires |-> Both({<<1, 1, 1, 2>>, <<1, 3, 2, 1>>})]
\* three switches, every pair joined by two cables (static checks only)
NetK3x2 == [n |-> 3, np |-> 5,
            wires |-> Both({<<1, 1, 2, 1>>, <<1, 2, 2, 2>>, <<1, 3, 3, 1>>, <<1, 4, 3, 2>>,
                            <<2, 3, 3, 3>>, <<2, 4, 3, 4>>})]
\* four switches, every pair joined by one cable (static checks only)
NetK4 == [n |-> 4, np |-> 4,
          wires |-> Both({<<1, 1, 2, 1>>, <<1, 2, 3, 1>>, <<1, 3, 4, 1>>,
                          <<2, 2, 3, 2>>, <<2, 3, 4, 2>>, <<3, 3, 4, 3>>})]

\* two switches, one cable and one extra one-way wire
NetOne == [n |-> 2, np |-> 3, wires |-> Both({<<1, 1, 2, 1>>}) \cup {<<1, 2, 2, 2>>}]
MCNetsOne  == {NetOne}
\* chain of three switches
NetChain == [n |-> 3, np |-> 3, wires |-> Both({<<1, 1, 2, 1>>, <<2, 2, 3, 1>>})]
MCNetsChain == {NetChain}
MCNetsPar  == {NetPar}
MCNetsTri  == {NetTri}
MCNetsLoop == {NetLoop}
MCNetsK3x2 == {NetK3x2}
MCNetsK4   == {NetK4}
MCNetsGen  == {NetPar, NetTri, NetLoop}
MCDurSmall == {6, 16}
MCDurLong  == {16}
MCDurGen   == {1, 3, 6, 10, 16}

(* Static part: every converged state (any wiring, any permitted NO_FLOOD   *)
(* set) as an initial state; only Flood steps.  Decides "forest => a        *)
(* flooded frame reaches every switch exactly once" for ALL sub-multigraphs *)
(* of the net and ALL forests the property permits.                         *)
InitConverged ==
  /\ net \in Nets
  /\ phys \in SUBSET net.wires
  /\ conn = Switches
  /\ adj = phys
  /\ nf \in {X \in SUBSET Ends(phys) : FloodReason(phys, Switches, X, {}) = "ok"}
  /\ age = [l \in net.wires |-> Cap]
  /\ quiet = Cap
  /\ last = NoObs
  /\ hist = <<>>
NextFlood == FloodNext
=============================================================================
