CONSTANTS
  Nets <- MCNetsGen
  Durations <- MCDurGen
  Configs <- MCCfgDefault
  CheckPeriod = 5
  SendsPerSec = 15
  Slack = 1
  MaxFlight = 99
  D = 0
INIT TrInit
NEXT TrNext
CONSTRAINT Progress
POSTCONDITION Accepted
CHECK_DEADLOCK FALSE
