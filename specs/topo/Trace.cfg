CONSTANTS
  Nets <- MCNetsGen
  Durations <- MCDurGen
  Cycle = 5
  Timeout = 10
  CheckPeriod = 5
  Slack = 1
  D = 0
INIT TrInit
NEXT TrNext
CONSTRAINT Progress
POSTCONDITION Accepted
CHECK_DEADLOCK FALSE
