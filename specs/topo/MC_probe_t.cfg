CONSTANTS
  SDpids <- MCDpidsT
  SPorts <- MCPorts
  RDpids <- MCRDpids
  RPorts <- MCRPorts
  D = 1
INIT Init
NEXT Next
INVARIANT Exact
INVARIANT Injective
CHECK_DEADLOCK FALSE
