CONSTANTS
  Nets <- MCNetsGen
  Durations <- MCDurSim
  Configs <- MCCfgSim
  CheckPeriod = 5
  SendsPerSec = 15
  Slack = 1
  D = 24
INIT Init
NEXT NextRef
INVARIANT Export
CHECK_DEADLOCK FALSE
