CONSTANTS
  Nets <- MCNetsGen
  Durations <- MCDurGen
  Cycle = 5
  Timeout = 10
  CheckPeriod = 5
  Slack = 1
  D = 24
INIT Init
NEXT NextRef
INVARIANT Export
CHECK_DEADLOCK FALSE
