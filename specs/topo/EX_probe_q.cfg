CONSTANTS
  SDpids <- MCDpidsQ
  SPorts <- MCPortsQ
  RDpids <- MCRDpidsQ
  RPorts <- MCRPortsQ
  D = 1
INIT Init
NEXT Next
ACTION_CONSTRAINT ExportT
CHECK_DEADLOCK FALSE
