----------------------------- MODULE TraceTopo -----------------------------
(* Code -> spec: histories recorded from the real discovery + spanning_tree *)
(* components (on real switches, over OpenFlow bytes, under a virtual       *)
(* clock) must be behaviours of Topo.tla.                                   *)
(*                                                                          *)
(* Trace = << header, event, event, ... >>, every record with the same      *)
(* fields:  a, s, p, d, lk (a link), n, np, wires, phys, to, flow, drop,     *)
(* eat, nofl, hold (header only: the net and the options the components     *)
(* were launched with),                                                     *)
(* adj, evs, nf (observation after the step), rx, storm (Flood only), wf.   *)
(* An event is matched by the Topo action of the same name, with the        *)
(* observation as the controller's response R; the step is taken iff        *)
(* Topo permits that response.  When it does not, the violated clause is    *)
(* printed (<<"BAD", trace, event, clause>>) and validation continues from  *)
(* the observed state.                                                      *)
EXTENDS MCTopo, IOUtils, TLCExt, SequencesExt

Traces == JsonDeserialize(IOEnv.TRACE_FILE)
NT == Len(Traces)
VARIABLES tid, l, bad
tvars == <<vars, tid, l, bad>>

Hd(t) == Traces[t][1]

TrInit ==
  /\ tid \in 1..NT
  /\ l = 2
  /\ bad = "ok"
  /\ TLCSet(tid, 1)
  /\ net = [n |-> Hd(tid).n, np |-> Hd(tid).np, wires |-> ToSet(Hd(tid).wires)]
  /\ cfg = [to |-> Hd(tid).to, flow |-> Hd(tid).flow, drop |-> Hd(tid).drop, eat |-> Hd(tid).eat,
            nofl |-> Hd(tid).nofl, hold |-> Hd(tid).hold]
  \* (environment assumptions of Topo.tla: a history outside them is the generator's mistake)
  /\ Assert(cfg.to >= 1 /\ CfgFits(cfg, net), <<"history outside the environment assumptions", tid>>)
  /\ phys = ToSet(Hd(tid).phys)
  /\ phys \subseteq net.wires
  /\ conn = {}
  /\ adj = {}
  /\ nf = {}
  /\ age = [w \in net.wires |-> Cap]
  /\ quiet = Cap
  /\ since = [s \in Switches |-> HoldCap]
  /\ flight = {}
  /\ last = NoObs
  /\ hist = <<>>

Ev == Traces[tid][l]
Obs(e) == [adj |-> ToSet(e.adj), evs |-> e.evs, nf |-> ToSet(e.nf)]

\* A step Topo does not permit: say why (one BAD line per violated step) and
\* go on from the OBSERVED state - the clauses are about the state reached (and
\* the step from the previous observation), so later, independent violations
\* of the same history are found too.  `bad` keeps the first violated clause.
Note(why) ==
  /\ bad' = (IF bad = "ok" THEN why ELSE bad)
  /\ PrintT(<<"BAD", tid, l, why>>)
  /\ l' = l + 1 /\ UNCHANGED tid
\* ... unless the observation cannot be interpreted at all: the trace ends here
Stop(why) ==
  /\ bad' = why
  /\ PrintT(<<"BAD", tid, l, why>>)
  /\ UNCHANGED <<vars, tid, l>>

Ok1 == l' = l + 1 /\ bad' = bad /\ UNCHANGED tid

\* a controller step with the observed response: Topo's SwitchUp(s, R) /
\* SwitchDown(s, R) / Advance(d, R), i.e. Env /\ Permitted /\ Do, with the
\* Permitted conjunct replaced by "Reason(...) names no violated clause"
\* (Permitted == Reason(...) = "ok")
TrCtl(e, ph, cn, dt, q, env, Do(_)) ==
  LET R == Obs(e)
      why == Reason(R, ph, cn, NewAge(ph, cn, dt), q, dt, LiveSet(phys, conn), NewSince(cn, dt))
  IN IF ~e.wf THEN Stop("malformed-observation")
     ELSE IF why = "ok" THEN env /\ Do(R) /\ Ok1
     ELSE env /\ Do(R) /\ Note(why)

TrUp   == LET e == Ev IN e.a = "SwitchUp" /\
            TrCtl(e, phys, conn \cup {e.s}, 0, 0, UpEnv(e.s), LAMBDA R : UpDo(e.s, R))
TrDown == LET e == Ev IN e.a = "SwitchDown" /\
            TrCtl(e, phys, conn \ {e.s}, 0, 0, DownEnv(e.s), LAMBDA R : DownDo(e.s, R))
TrAdv  == LET e == Ev IN e.a = "Advance" /\
            TrCtl(e, phys, conn, e.d, Lesser(quiet + e.d, Cap), AdvEnv(e.d), LAMBDA R : AdvDo(e.d, R))

\* a wire changes: no controller code runs, the observation must be unchanged
TrWire == LET e == Ev IN e.a \in {"Cut", "Restore"} /\
            IF e.wf /\ ToSet(e.adj) = adj /\ ToSet(e.nf) = nf /\ e.evs = <<>>
            THEN (IF e.a = "Cut" THEN Cut(e.lk) ELSE Restore(e.lk)) /\ Ok1
            ELSE Stop("changed-without-cause")

\* a probe is delayed: no controller code runs, the observation must be unchanged
TrDelay == LET e == Ev IN e.a = "Delay" /\
            IF e.wf /\ ToSet(e.adj) = adj /\ ToSet(e.nf) = nf /\ e.evs = <<>>
            THEN Delay(e.lk) /\ Ok1
            ELSE Stop("changed-without-cause")
\* the delayed probe reaches the controller: Topo's Late(w, R) = Env /\ permitted /\ Do
TrLate == LET e == Ev
              R == Obs(e)
              why == LateReason(R, e.lk)
          IN e.a = "Late" /\
             IF ~e.wf THEN Stop("malformed-observation")
             ELSE IF why = "ok" THEN LateEnv(e.lk) /\ LateDo(e.lk, R) /\ Ok1
             ELSE LateEnv(e.lk) /\ LateDo(e.lk, R) /\ Note(why)

\* (in a state that already violates the forest clauses the frame may loop:
\* the walk count is not evaluated there, the step is passed over - the
\* violation itself has been reported at the step that produced the state)
TrFlood == LET e == Ev IN e.a = "Flood" /\
             IF ~e.wf \/ Len(e.rx) # net.n THEN Stop("malformed-observation")
             ELSE IF bad # "ok" /\ FloodReasonM(adj, conn, nf, nf, since) # "ok" THEN UNCHANGED vars /\ Ok1
             ELSE IF e.storm = Storm(e.s, e.p) /\ (\A t \in Switches : e.rx[t] = Delivered(e.s, e.p)[t])
             THEN Flood(e.s, e.p) /\ Ok1
             ELSE Flood(e.s, e.p) /\ Note(IF e.storm THEN "flood-storm" ELSE "flood-delivery-mismatch")

\* (after Stop() nothing matches any more: l stays and the event stays violated)
TrNext == /\ l <= Len(Traces[tid])
          /\ bad \notin {"malformed-observation", "changed-without-cause"}
          /\ (TrUp \/ TrDown \/ TrAdv \/ TrWire \/ TrFlood \/ TrDelay \/ TrLate)
TrSpec == TrInit /\ [][TrNext]_tvars

Progress == TLCSet(tid, IF TLCGet(tid) < l - 1 THEN l - 1 ELSE TLCGet(tid))
Ok(t) == TLCGet(t) = Len(Traces[t]) \/ (PrintT(<<"REJECT", t, TLCGet(t)>>) /\ FALSE)
Accepted == /\ PrintT(<<"TRACES-CHECKED", NT>>)
            /\ Cardinality({t \in 1..NT : ~Ok(t)}) = 0

\* evaluated in every matched state (consequences of the guards; a violation
\* here would be an inconsistency of the specification itself)
TrInv == bad = "ok" => /\ WithdrawnOnDisconnect /\ WithdrawnWhenSilent /\ Discovered
                       /\ HostPortsFlood /\ ForestOK /\ Acyclic /\ Spanning /\ ExactlyOnce /\ HoldDownEnds
=============================================================================
