CONSTANTS
  SDpids <- MCDpidsT
  SPorts <- MCPorts
  RDpids <- MCRDpids
  RPorts <- MCRPorts
  D = 1
INIT Init
NEXT Next
ACTION_CONSTRAINT ExportT
CHECK_DEADLOCK FALSE
