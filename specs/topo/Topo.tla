------------------------------- MODULE Topo -------------------------------
(* C19: discovered topology is the physical one; flooding pruned to a tree. *)
(*                                                                          *)
(* The world: a network `net` of n switches with np ports each and a set of *)
(* DIRECTED wires <<s1, p1, s2, p2>> (a cable is two wires, each direction  *)
(* can be up or down on its own: one-way links, parallel links, self-loops  *)
(* are all just wire sets).  `phys` = wires currently carrying frames,      *)
(* `conn` = switches with an OpenFlow session.  The controller side:        *)
(* `adj` = the discovery component's adjacency, `nf` = ports whose NO_FLOOD *)
(* bit is set on the switches.  Time is integer seconds; per wire `age` is  *)
(* the time since its liveness (up /\ both ends connected) last changed,    *)
(* `quiet` the time since the set of connected switches last changed.       *)
(*                                                                          *)
(* The specification is DECLARATIVE about the controller: an environment    *)
(* action carries the controller's response R = [adj, evs, nf] (new         *)
(* adjacency, LinkEvents raised, new NO_FLOOD set) and is enabled for every *)
(* response the property statement permits (Reason(...) = "ok"):            *)
(*   - which spanning forest is chosen is free;                             *)
(*   - a live link may be discovered at any moment and must be within one   *)
(*     probe cycle (+Slack) of undisturbed liveness; a dead link may be     *)
(*     dropped at any moment and must be within Timeout+CheckPeriod(+Slack);*)
(*     links of a disconnected switch go at once; a live, known link is     *)
(*     never dropped;                                                       *)
(*   - LinkEvents alternate add/remove per link starting with add, and the  *)
(*     adjacency is exactly what has been announced.                        *)
(* Reason() names the violated clause, so that the trace validator can say  *)
(* WHY an implementation step is not a step of this specification.          *)
EXTENDS Naturals, Sequences, FiniteSets, TLC, Json

CONSTANTS Nets,        \* candidate networks [n, np, wires]
          Durations,   \* Advance(d) values explored by the model checker
          Cycle,       \* probe cycle: every probe is sent once per Cycle
          Timeout,     \* a link not refreshed for Timeout is dead
          CheckPeriod, \* how often timeouts are looked for
          Slack,       \* timer granularity allowance
          D            \* export depth

Detect == Cycle + Slack
Expire == Timeout + CheckPeriod + Slack
Cap    == Expire

VARIABLES net, phys, conn, adj, nf, age, quiet, last, hist
vars  == <<net, phys, conn, adj, nf, age, quiet, last, hist>>
view  == <<net, phys, conn, adj, nf, age, quiet, last>>
viewE == <<net, phys, conn, adj, nf, age, quiet>>

Switches     == 1..net.n
PortsOf(s)   == 1..net.np
Flip(l)      == <<l[3], l[4], l[1], l[2]>>
PortsIn(cn)  == {<<s, p>> : s \in cn, p \in 1..net.np}
IsLive(l, ph, cn) == l \in ph /\ l[1] \in cn /\ l[3] \in cn
LiveSet(ph, cn)   == {l \in ph : l[1] \in cn /\ l[3] \in cn}
Lesser(a, b) == IF a < b THEN a ELSE b

----------------------------------------------------------------------------
(* Graph helpers over a set E of directed links used as undirected edges.  *)

Ends(E)      == {<<l[1], l[2]>> : l \in E} \cup {<<l[3], l[4]>> : l \in E}
Bi(A)        == {l \in A : Flip(l) \in A /\ l[1] # l[3]}

RECURSIVE Grow(_, _)
Grow(S, E) == LET T == S \cup {l[3] : l \in {e \in E : e[1] \in S}}
                       \cup {l[1] : l \in {e \in E : e[3] \in S}}
              IN IF T = S THEN S ELSE Grow(T, E)
Comp(s, E)   == Grow({s}, E)
NComp(V, E)  == Cardinality({Comp(s, E) : s \in V})

\* links of Bi(A) both of whose end ports flood
TreeLinks(A, NF) == {l \in Bi(A) : <<l[1], l[2]>> \notin NF /\ <<l[3], l[4]>> \notin NF}

----------------------------------------------------------------------------
(* The property, clause by clause.  Each returns "ok" or the clause name.  *)

\* adjacency A reached from `adj` in a step that took dt seconds and ended in
\* environment (ph, cn) with ages ag and quiet time q; lv0 = links live before
AdjReason(A, ph, cn, ag, q, dt, lv0) ==
  LET lv == LiveSet(ph, cn) IN
  IF \E l \in A : l \notin net.wires THEN "adj-phantom-link"
  ELSE IF \E l \in A : l[1] \notin cn \/ l[3] \notin cn THEN "adj-link-of-disconnected-switch"
  ELSE IF \E l \in A \ adj : l \notin lv THEN "adj-dead-link-added"
  ELSE IF \E l \in A \ lv : ag[l] >= Expire THEN "adj-dead-link-kept"
  ELSE IF dt = 0 /\ (\E l \in (adj \cap lv \cap lv0) : l \notin A) THEN "adj-live-link-dropped"
  ELSE IF q >= Detect /\ (\E l \in lv \cap adj : ag[l] >= Detect /\ l \notin A) THEN "adj-live-link-dropped"
  ELSE IF q >= Detect /\ (\E l \in lv \ adj : ag[l] >= Detect /\ l \notin A) THEN "adj-live-link-missing"
  ELSE "ok"

\* LinkEvents es = << <<k, s1, p1, s2, p2>>, ... >> (k = 1 added, 0 removed)
RECURSIVE EvFinal(_, _)
EvFinal(cur, es) ==          \* [ok, set]: alternation respected, resulting set
  IF es = <<>> THEN [ok |-> TRUE, set |-> cur]
  ELSE LET e == Head(es)
           l == <<e[2], e[3], e[4], e[5]>>
       IN IF e[1] = 1
          THEN IF l \in cur THEN [ok |-> FALSE, set |-> cur] ELSE EvFinal(cur \cup {l}, Tail(es))
          ELSE IF l \notin cur THEN [ok |-> FALSE, set |-> cur] ELSE EvFinal(cur \ {l}, Tail(es))

EvReason(es, A) ==
  LET r == EvFinal(adj, es) IN
  IF ~r.ok THEN "events-not-alternating"
  ELSE IF r.set # A THEN "events-disagree-with-adjacency"
  ELSE "ok"

\* NO_FLOOD set NF for adjacency A and connected switches cn
\* (nf0 = the set before the step: bits of unreachable switches cannot change)
FloodReason(A, cn, NF, nf0) ==
  LET cp == PortsIn(cn)
      ip == Ends(A)
      B  == Bi(A)
      T  == {l \in B : <<l[1], l[2]>> \notin NF /\ <<l[3], l[4]>> \notin NF}
      et == Ends(T)
      cm == [s \in Switches |-> Comp(s, T)]          \* components of the enabled links
  IN
  IF ~(NF \subseteq PortsIn(Switches)) THEN "flood-unknown-port"
  ELSE IF (NF \ cp) # (nf0 \ cp) THEN "flood-port-of-disconnected-switch-changed"
  ELSE IF \E sp \in cp \ ip : sp \in NF THEN "flood-host-port-blocked"
  ELSE IF \E sp \in (cp \cap ip) \ NF : sp \notin et THEN "flood-nontree-port-enabled"
  ELSE IF Cardinality(T) # 2 * (net.n - Cardinality({cm[s] : s \in Switches})) THEN "flood-cycle"
  ELSE IF \E l \in B : l[3] \notin cm[l[1]] THEN "flood-not-spanning"
  ELSE "ok"

Reason(R, ph, cn, ag, q, dt, lv0) ==
  LET a == AdjReason(R.adj, ph, cn, ag, q, dt, lv0) IN
  IF a # "ok" THEN a
  ELSE LET e == EvReason(R.evs, R.adj) IN
       IF e # "ok" THEN e
       ELSE FloodReason(R.adj, cn, R.nf, nf)

----------------------------------------------------------------------------
(* What a flooded frame does (the "so ..." clause): it enters switch s on   *)
(* port p; every switch sends it out of every port except the one it came   *)
(* in on and those with NO_FLOOD; wires that are up carry it.               *)

OutWires(s, inp) == {l \in phys : l[1] = s /\ l[2] # inp /\ <<s, l[2]>> \notin nf}

RECURSIVE SumOver(_, _, _, _)
RECURSIVE Arrivals(_, _, _, _)
\* arrivals at switch t downstream of a frame that entered s on inp, <= k hops
Arrivals(s, inp, t, k) == IF k = 0 THEN 0 ELSE SumOver(OutWires(s, inp), t, k, 0)
SumOver(W, t, k, acc) ==
  IF W = {} THEN acc
  ELSE LET l == CHOOSE x \in W : TRUE
       IN SumOver(W \ {l}, t, k,
                  acc + (IF l[3] = t THEN 1 ELSE 0) + Arrivals(l[3], l[4], t, k - 1))

RECURSIVE Deep(_, _, _)
Deep(s, inp, k) == IF k = 0 THEN TRUE ELSE \E l \in OutWires(s, inp) : Deep(l[3], l[4], k - 1)

Hops == net.n * net.np + 1           \* a longer walk repeats a (switch, in-port): a loop
Storm(s, p)    == Deep(s, p, Hops)
Delivered(s, p) == [t \in Switches |-> Arrivals(s, p, t, Hops)]

HostPorts(s) == {p \in PortsOf(s) : \A l \in net.wires : ~(l[1] = s /\ l[2] = p) /\ ~(l[3] = s /\ l[4] = p)}
Converged == conn = Switches /\ adj = LiveSet(phys, conn)

----------------------------------------------------------------------------
NoObs == [a |-> "Init", args |-> [x |-> 0], exp |-> [x |-> 0]]

Init == /\ net \in Nets
        /\ phys \in SUBSET net.wires
        /\ conn = {}
        /\ adj = {}
        /\ nf = {}
        /\ age = [l \in net.wires |-> Cap]
        /\ quiet = Cap
        /\ last = NoObs
        /\ hist = <<>>

Log(a, args, exp) ==
  /\ last' = [a |-> a, args |-> args, exp |-> exp]
  /\ hist' = IF D = 0 THEN hist              \* D = 0: no export, keep states small
             ELSE Append(hist, [a |-> a, args |-> args, exp |-> exp])

NewAge(ph, cn, dt) ==
  [l \in net.wires |-> IF IsLive(l, ph, cn) # IsLive(l, phys, conn) THEN 0
                       ELSE Lesser(age[l] + dt, Cap)]

\* wires go up and down silently: no controller code runs, nothing may change
Cut(l) ==
  /\ l \in phys
  /\ phys' = phys \ {l}
  /\ age' = NewAge(phys', conn, 0)
  /\ UNCHANGED <<net, conn, adj, nf, quiet>>
  /\ Log("Cut", [l |-> l], [adj |-> adj, evs |-> <<>>, nf |-> nf])

Restore(l) ==
  /\ l \in net.wires \ phys
  /\ phys' = phys \cup {l}
  /\ age' = NewAge(phys', conn, 0)
  /\ UNCHANGED <<net, conn, adj, nf, quiet>>
  /\ Log("Restore", [l |-> l], [adj |-> adj, evs |-> <<>>, nf |-> nf])

\* environment assumption: the set of connected switches changes in batches
\* that are at least one probe cycle apart (each change restarts the probe
\* timer; see notes/C19.md)
MembershipMayChange == quiet = 0 \/ quiet >= Detect

Permitted(R, ph, cn, dt, q) ==
  Reason(R, ph, cn, NewAge(ph, cn, dt), q, dt, LiveSet(phys, conn)) = "ok"

Apply(a, args, ph, cn, dt, q, R) ==
  /\ phys' = ph /\ conn' = cn /\ age' = NewAge(ph, cn, dt) /\ quiet' = q
  /\ adj' = R.adj /\ nf' = R.nf
  /\ UNCHANGED net
  /\ Log(a, args, [adj |-> R.adj, evs |-> R.evs, nf |-> R.nf])


\* each controller step = environment guard /\ response permitted /\ effect
UpEnv(s)   == s \in Switches \ conn /\ MembershipMayChange
DownEnv(s) == s \in conn /\ MembershipMayChange
AdvEnv(d)  == d >= 1
UpDo(s, R)   == Apply("SwitchUp", [s |-> s], phys, conn \cup {s}, 0, 0, R)
DownDo(s, R) == Apply("SwitchDown", [s |-> s], phys, conn \ {s}, 0, 0, R)
AdvDo(d, R)  == Apply("Advance", [d |-> d], phys, conn, d, Lesser(quiet + d, Cap), R)

SwitchUp(s, R)   == UpEnv(s) /\ Permitted(R, phys, conn \cup {s}, 0, 0) /\ UpDo(s, R)
SwitchDown(s, R) == DownEnv(s) /\ Permitted(R, phys, conn \ {s}, 0, 0) /\ DownDo(s, R)
Advance(d, R)    == AdvEnv(d) /\ Permitted(R, phys, conn, d, Lesser(quiet + d, Cap)) /\ AdvDo(d, R)

\* a frame from a host is flooded through the converged network
Flood(s, p) ==
  /\ Converged
  /\ s \in Switches /\ p \in HostPorts(s)
  /\ UNCHANGED <<net, phys, conn, adj, nf, age, quiet>>
  /\ Log("Flood", [s |-> s, p |-> p],
         [rx |-> Delivered(s, p), storm |-> Storm(s, p)])

----------------------------------------------------------------------------
(* Model checking: the controller's response ranges over EVERYTHING the    *)
(* property permits.                                                        *)

RECURSIVE AsSeq(_)
AsSeq(S) == IF S = {} THEN <<>> ELSE LET x == CHOOSE y \in S : TRUE IN <<x>> \o AsSeq(S \ {x})
CanonEvs(A) == AsSeq({<<0, l[1], l[2], l[3], l[4]>> : l \in adj \ A})
               \o AsSeq({<<1, l[1], l[2], l[3], l[4]>> : l \in A \ adj})

AdjChoices(ph, cn, dt, q) ==
  LET ag == NewAge(ph, cn, dt)
      lv0 == LiveSet(phys, conn)
  IN {A \in SUBSET (adj \cup LiveSet(ph, cn)) : AdjReason(A, ph, cn, ag, q, dt, lv0) = "ok"}
NFChoices(A, cn) ==
  LET cp == PortsIn(cn)
  IN {N \in {(nf \ cp) \cup X : X \in SUBSET (Ends(A) \cap cp)} : FloodReason(A, cn, N, nf) = "ok"}
Responses(ph, cn, dt, q) ==
  UNION {{[adj |-> A, evs |-> CanonEvs(A), nf |-> N] : N \in NFChoices(A, cn)}
         : A \in AdjChoices(ph, cn, dt, q)}

\* (every R in Responses() is Permitted: the guard of SwitchUp/SwitchDown/
\* Advance is not evaluated a second time here)
UpNext(s)      == UpEnv(s) /\ \E R \in Responses(phys, conn \cup {s}, 0, 0) : UpDo(s, R)
DownNext(s)    == DownEnv(s) /\ \E R \in Responses(phys, conn \ {s}, 0, 0) : DownDo(s, R)
AdvanceNext(d) == AdvEnv(d) /\ \E R \in Responses(phys, conn, d, Lesser(quiet + d, Cap)) : AdvDo(d, R)
CutNext        == \E l \in phys : Cut(l)
RestoreNext    == \E l \in net.wires \ phys : Restore(l)
FloodNext      == \E s \in Switches : \E p \in HostPorts(s) : Flood(s, p)

UpAny      == \E s \in Switches : UpNext(s)
DownAny    == \E s \in Switches : DownNext(s)
AdvanceAny == \E d \in Durations : AdvanceNext(d)

Next == \/ UpAny
        \/ DownAny
        \/ AdvanceAny
        \/ CutNext
        \/ RestoreNext
        \/ FloodNext

Spec == Init /\ [][Next]_vars

(* Reference controller: one fixed permitted response per environment step  *)
(* (eager discovery, lazy expiry, some forest).  Used to let TLC generate   *)
(* environment histories; NextRef => Next by construction (RefR is drawn    *)
(* from Responses).                                                         *)
RefR(ph, cn, dt, q) ==
  LET RS == Responses(ph, cn, dt, q)
      mx == CHOOSE R \in RS : \A Q \in RS : Cardinality(Q.adj) <= Cardinality(R.adj)
  IN mx
NextRef == \/ \E s \in Switches \ conn : SwitchUp(s, RefR(phys, conn \cup {s}, 0, 0))
           \/ \E s \in conn : SwitchDown(s, RefR(phys, conn \ {s}, 0, 0))
           \/ \E d \in Durations : Advance(d, RefR(phys, conn, d, Lesser(quiet + d, Cap)))
           \/ CutNext
           \/ RestoreNext
           \/ FloodNext

----------------------------------------------------------------------------
(* Properties checked by TLC on the specification itself.                  *)

TypeOK == /\ net \in Nets
          /\ phys \subseteq net.wires /\ conn \subseteq Switches
          /\ adj \subseteq net.wires /\ nf \subseteq PortsIn(Switches)
          /\ age \in [net.wires -> 0..Cap] /\ quiet \in 0..Cap

\* the adjacency never names a link of a disconnected switch ...
WithdrawnOnDisconnect == \A l \in adj : l[1] \in conn /\ l[3] \in conn
\* ... nor one over which no probe has travelled for a timeout (silent switch, cut wire)
WithdrawnWhenSilent == \A l \in adj : IsLive(l, phys, conn) \/ age[l] < Expire
\* every link probes have been travelling over for a full undisturbed cycle is known
Discovered == quiet >= Detect =>
                \A l \in LiveSet(phys, conn) : age[l] >= Detect => l \in adj
\* so once the environment has been still long enough the adjacency is exact
ExactWhenSettled == (quiet >= Detect /\ \A l \in net.wires : age[l] >= Expire)
                      => adj = LiveSet(phys, conn)

\* flooding: host-facing ports flood; the enabled inter-switch ports are the
\* two ends of links forming a forest that spans the bidirectional components
HostPortsFlood == \A sp \in PortsIn(conn) \ Ends(adj) : sp \notin nf
ForestOK       == FloodReason(adj, conn, nf, nf) = "ok"
Acyclic        == LET T == TreeLinks(adj, nf) IN Cardinality(T) = 2 * (net.n - NComp(Switches, T))
Spanning       == \A s \in Switches : Comp(s, TreeLinks(adj, nf)) = Comp(s, Bi(adj))

\* "so a flooded frame reaches every switch exactly once"
ExactlyOnce ==
  Converged =>
    \A s \in Switches : \A p \in HostPorts(s) :
       /\ ~Storm(s, p)
       /\ \A t \in Switches :
            Delivered(s, p)[t] = IF t # s /\ t \in Comp(s, Bi(adj)) THEN 1 ELSE 0

\* the property can always be met (the spec never corners the controller)
Responsive ==
  /\ \A s \in Switches \ conn : \E A \in AdjChoices(phys, conn \cup {s}, 0, 0) : NFChoices(A, conn \cup {s}) # {}
  /\ \A s \in conn : \E A \in AdjChoices(phys, conn \ {s}, 0, 0) : NFChoices(A, conn \ {s}) # {}
  /\ \A d \in Durations : \E A \in AdjChoices(phys, conn, d, Lesser(quiet + d, Cap)) : NFChoices(A, conn) # {}

\* announcements: per link they alternate, starting with "added", and the
\* adjacency is what has been announced
Announced == [][last'.a \in {"SwitchUp", "SwitchDown", "Advance", "Cut", "Restore"} =>
                  LET r == EvFinal(adj, last'.exp.evs) IN r.ok /\ r.set = adj']_vars
\* nothing changes on the controller side when only a wire changes
SilentWires == [][last'.a \in {"Cut", "Restore"} => adj' = adj /\ nf' = nf]_vars
\* a live link that is known is never withdrawn while the network is undisturbed
NeverDropsLive ==
  [][\A l \in adj : (IsLive(l, phys, conn) /\ IsLive(l, phys', conn')
                      /\ quiet' >= Detect /\ age'[l] >= Detect) => l \in adj']_vars

\* ---- export for the scenario generator
Bound   == Len(hist) <= D
\* (the scenario generator needs the net and the wires that were up at the start:
\* the latter is recovered from the final `phys` by undoing the Cut/Restore steps)
Export  == (Len(hist) = D) => PrintT(<<"H", ToJson([net |-> net, phys |-> phys, h |-> hist])>>)
ExportT == PrintT(<<"T", ToJson([net |-> net', phys |-> phys', h |-> hist'])>>)
=============================================================================
