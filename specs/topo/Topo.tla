------------------------------- MODULE Topo -------------------------------
(* C19: discovered topology is the physical one; flooding pruned to a tree. *)
(*                                                                          *)
(* The world: a network `net` of n switches with np ports each and a set of *)
(* DIRECTED wires <<s1, p1, s2, p2>> (a cable is two wires, each direction  *)
(* can be up or down on its own: one-way links, parallel links, self-loops  *)
(* are all just wire sets).  `phys` = wires currently carrying frames,      *)
(* `conn` = switches with an OpenFlow session.  The controller side:        *)
(* `adj` = the discovery component's adjacency, `nf` = ports whose NO_FLOOD *)
(* bit is set on the switches.  Time is integer seconds; per wire `age` is  *)
(* the time since its liveness (up /\ both ends connected) last changed,    *)
(* `quiet` the time since the set of connected switches last changed.       *)
(*                                                                          *)
(* The specification is DECLARATIVE about the controller: an environment    *)
(* action carries the controller's response R = [adj, evs, nf] (new         *)
(* adjacency, LinkEvents raised, new NO_FLOOD set) and is enabled for every *)
(* response the property statement permits (Reason(...) = "ok"):            *)
(*   - which spanning forest is chosen is free;                             *)
(*   - a live link may be discovered at any moment and must be within one   *)
(*     probe cycle (+Slack) of undisturbed liveness; a dead link may be     *)
(*     dropped at any moment and must be within Timeout+CheckPeriod(+Slack);*)
(*     links of a disconnected switch go at once; a live, known link is     *)
(*     never dropped;                                                       *)
(*   - LinkEvents alternate add/remove per link starting with add, and the  *)
(*     adjacency is exactly what has been announced.                        *)
(* Reason() names the violated clause, so that the trace validator can say  *)
(* WHY an implementation step is not a step of this specification.          *)
(*                                                                          *)
(* CONFIGURATION (round 6).  The two components are launched with options:  *)
(* `cfg` is the option record of a behaviour, chosen in Init and constant   *)
(* afterwards.  The property is stated for every legal configuration:       *)
(*   cfg.to    openflow.discovery --link_timeout (whole seconds >= 1): the  *)
(*             probe cycle is to/2, so Cycle / Timeout / Detect / Expire    *)
(*             are functions of cfg, not constants;                         *)
(*   cfg.flow, cfg.drop, cfg.eat   --no_flow (negated), --explicit_drop,    *)
(*             --eat_early_packets: no clause depends on them (the property *)
(*             holds whatever they are);                                    *)
(*   cfg.nofl, cfg.hold   openflow.spanning_tree --no-flood / --hold-down:  *)
(*             a switch that connected less than Hold = Cycle + 1 seconds   *)
(*             ago ("young", `since`) is not updated (hold) / has flooding  *)
(*             disabled on all its ports (nofl); FloodReasonM says what is  *)
(*             still demanded meanwhile and that everything is demanded     *)
(*             once no switch is young.                                     *)
(* Environment assumption: the probes of one cycle fit the sender's rate    *)
(* limit (CfgFits); beyond it the sender batches at random.                 *)
EXTENDS Naturals, Sequences, FiniteSets, TLC, Json

CONSTANTS Nets,        \* candidate networks [n, np, wires]
          Configs,     \* candidate option records [to, flow, drop, eat, nofl, hold]
          Durations,   \* Advance(d) values explored by the model checker ({} = {Detect, Expire} of the configuration)
          CheckPeriod, \* how often timeouts are looked for
          SendsPerSec, \* rate limit of the probe sender (timer runs per second)
          Slack,       \* timer granularity allowance
          D,           \* export depth
          MaxFlight    \* how many delayed probes may be in flight at a time (round 8)

VARIABLES net, cfg, phys, conn, adj, nf, age, quiet, since, flight, last, hist
vars  == <<net, cfg, phys, conn, adj, nf, age, quiet, since, flight, last, hist>>
view  == <<net, cfg, phys, conn, adj, nf, age, quiet, since, flight, last>>
viewE == <<net, cfg, phys, conn, adj, nf, age, quiet, since, flight>>

\* timing as a function of the configured link timeout (whole seconds; the
\* probe cycle is half the timeout, rounded up where it is not whole)
Timeout == cfg.to                 \* a link not refreshed for Timeout is dead
Cycle   == (cfg.to + 1) \div 2    \* every probe is sent once per Cycle
Detect  == Cycle + Slack
Expire  == Timeout + CheckPeriod + Slack
Cap     == Expire
\* spanning_tree's hold time: one probe cycle + 1 s after a switch connected
Modal   == cfg.nofl \/ cfg.hold
Hold    == Cycle + 1
HoldCap == Hold + Slack
\* ({0}: the shortest step after which every clause is in force again, and Expire)
DurSet  == IF Durations = {} THEN {Detect, Expire}
           ELSE IF Durations = {0} THEN {IF Modal THEN HoldCap ELSE Detect, Expire}
           ELSE Durations
\* the probes of one cycle (one per port of every switch) fit the rate limit
CfgFits(c, nt) == 2 * nt.n * nt.np <= SendsPerSec * c.to

Switches     == 1..net.n
PortsOf(s)   == 1..net.np
Flip(l)      == <<l[3], l[4], l[1], l[2]>>
PortsIn(cn)  == {<<s, p>> : s \in cn, p \in 1..net.np}
IsLive(l, ph, cn) == l \in ph /\ l[1] \in cn /\ l[3] \in cn
LiveSet(ph, cn)   == {l \in ph : l[1] \in cn /\ l[3] \in cn}
Lesser(a, b) == IF a < b THEN a ELSE b

----------------------------------------------------------------------------
(* Graph helpers over a set E of directed links used as undirected edges.  *)

Ends(E)      == {<<l[1], l[2]>> : l \in E} \cup {<<l[3], l[4]>> : l \in E}
Bi(A)        == {l \in A : Flip(l) \in A /\ l[1] # l[3]}

RECURSIVE Grow(_, _)
Grow(S, E) == LET T == S \cup {l[3] : l \in {e \in E : e[1] \in S}}
                       \cup {l[1] : l \in {e \in E : e[3] \in S}}
              IN IF T = S THEN S ELSE Grow(T, E)
Comp(s, E)   == Grow({s}, E)
NComp(V, E)  == Cardinality({Comp(s, E) : s \in V})

\* links of Bi(A) both of whose end ports flood
TreeLinks(A, NF) == {l \in Bi(A) : <<l[1], l[2]>> \notin NF /\ <<l[3], l[4]>> \notin NF}

----------------------------------------------------------------------------
(* The property, clause by clause.  Each returns "ok" or the clause name.  *)

\* adjacency A reached from `adj` in a step that took dt seconds and ended in
\* environment (ph, cn) with ages ag and quiet time q; lv0 = links live before
AdjReason(A, ph, cn, ag, q, dt, lv0) ==
  LET lv == LiveSet(ph, cn) IN
  IF \E l \in A : l \notin net.wires THEN "adj-phantom-link"
  ELSE IF \E l \in A : l[1] \notin cn \/ l[3] \notin cn THEN "adj-link-of-disconnected-switch"
  ELSE IF \E l \in A \ adj : l \notin lv THEN "adj-dead-link-added"
  ELSE IF \E l \in A \ lv : ag[l] >= Expire THEN "adj-dead-link-kept"
  ELSE IF dt = 0 /\ (\E l \in (adj \cap lv \cap lv0) : l \notin A) THEN "adj-live-link-dropped"
  ELSE IF q >= Detect /\ (\E l \in lv \cap adj : ag[l] >= Detect /\ l \notin A) THEN "adj-live-link-dropped"
  ELSE IF q >= Detect /\ (\E l \in lv \ adj : ag[l] >= Detect /\ l \notin A) THEN "adj-live-link-missing"
  ELSE "ok"

\* LinkEvents es = << <<k, s1, p1, s2, p2>>, ... >> (k = 1 added, 0 removed)
RECURSIVE EvFinal(_, _)
EvFinal(cur, es) ==          \* [ok, set]: alternation respected, resulting set
  IF es = <<>> THEN [ok |-> TRUE, set |-> cur]
  ELSE LET e == Head(es)
           l == <<e[2], e[3], e[4], e[5]>>
       IN IF e[1] = 1
          THEN IF l \in cur THEN [ok |-> FALSE, set |-> cur] ELSE EvFinal(cur \cup {l}, Tail(es))
          ELSE IF l \notin cur THEN [ok |-> FALSE, set |-> cur] ELSE EvFinal(cur \ {l}, Tail(es))

EvLinks(es, k) == {<<es[i][2], es[i][3], es[i][4], es[i][5]>> : i \in {j \in DOMAIN es : es[j][1] = k}}

\* The announcements INSIDE a step (a link may be withdrawn and announced again
\* before the step ends, which the adjacency reached does not show): a link is
\* only announced while probes can travel over it (lv: wires change in steps of
\* their own, so the live set is the same during the whole step), and a link
\* that was known and live before and after the step is not withdrawn in a
\* 0-second step, nor when the network had already been undisturbed for a full
\* probe cycle when the step began (`age` / `quiet` of the state before).
EvReason(es, A, lv, lv0, dt) ==
  LET r == EvFinal(adj, es) IN
  IF ~r.ok THEN "events-not-alternating"
  ELSE IF r.set # A THEN "events-disagree-with-adjacency"
  ELSE IF \E l \in EvLinks(es, 1) : l \notin net.wires THEN "adj-phantom-link"
  ELSE IF \E l \in EvLinks(es, 1) : l \notin lv THEN "adj-dead-link-added"
  ELSE IF \E l \in EvLinks(es, 0) \cap adj \cap lv \cap lv0 :
             dt = 0 \/ (quiet >= Detect /\ age[l] >= Detect) THEN "adj-live-link-dropped"
  ELSE "ok"

\* NO_FLOOD set NF for adjacency A and connected switches cn
\* (nf0 = the set before the step: bits of unreachable switches cannot change)
FloodReason(A, cn, NF, nf0) ==
  LET cp == PortsIn(cn)
      ip == Ends(A)
      B  == Bi(A)
      T  == {l \in B : <<l[1], l[2]>> \notin NF /\ <<l[3], l[4]>> \notin NF}
      et == Ends(T)
      cm == [s \in Switches |-> Comp(s, T)]          \* components of the enabled links
  IN
  IF ~(NF \subseteq PortsIn(Switches)) THEN "flood-unknown-port"
  ELSE IF (NF \ cp) # (nf0 \ cp) THEN "flood-port-of-disconnected-switch-changed"
  ELSE IF \E sp \in cp \ ip : sp \in NF THEN "flood-host-port-blocked"
  ELSE IF \E sp \in (cp \cap ip) \ NF : sp \notin et THEN "flood-nontree-port-enabled"
  ELSE IF Cardinality(T) # 2 * (net.n - Cardinality({cm[s] : s \in Switches})) THEN "flood-cycle"
  ELSE IF \E l \in B : l[3] \notin cm[l[1]] THEN "flood-not-spanning"
  ELSE "ok"

\* ---- spanning_tree options (cfg.nofl, cfg.hold); sn = time since each switch connected
MaybeYoung(cn, sn) == IF Modal THEN {s \in cn : sn[s] < HoldCap} ELSE {}
SureYoung(cn, sn)  == IF Modal THEN {s \in cn : sn[s] < Hold} ELSE {}
Linked(A)          == {l[1] : l \in A} \cup {l[3] : l \in A}
\* --no-flood without --hold-down: a switch connects with flooding disabled on
\* all its ports and may stay so while it is young and no link of it is known
Held(A, cn, NF, sn) == {s \in MaybeYoung(cn, sn) \ Linked(A) : PortsIn({s}) \subseteq NF}

\* --hold-down and some switch is (maybe) young: switches certainly young are
\* left alone (all ports blocked at the connect with --no-flood, untouched
\* otherwise); the tree is computed over all switches but pushed to the mature
\* ones only, so of the forest clauses only these remain: host-facing ports of
\* mature switches flood, the flooding links among mature switches are acyclic
HeldReason(A, cn, NF, nf0, sn) ==
  LET cp == PortsIn(cn)
      M  == cn \ MaybeYoung(cn, sn)
      yp == PortsIn(SureYoung(cn, sn))
      TM == {l \in Bi(A) : /\ l[1] \in M /\ l[3] \in M
                           /\ <<l[1], l[2]>> \notin NF /\ <<l[3], l[4]>> \notin NF}
  IN
  IF ~(NF \subseteq PortsIn(Switches)) THEN "flood-unknown-port"
  ELSE IF (NF \ cp) # (nf0 \ cp) THEN "flood-port-of-disconnected-switch-changed"
  ELSE IF cfg.nofl /\ ~(yp \subseteq NF) THEN "flood-enabled-during-hold-down"
  ELSE IF ~cfg.nofl /\ (NF \cap yp) # (nf0 \cap yp) THEN "flood-changed-during-hold-down"
  ELSE IF \E sp \in PortsIn(M) \ Ends(A) : sp \in NF THEN "flood-host-port-blocked"
  ELSE IF Cardinality(TM) # 2 * (net.n - NComp(Switches, TM)) THEN "flood-cycle"
  ELSE "ok"

FloodReasonM(A, cn, NF, nf0, sn) ==
  IF ~Modal THEN FloodReason(A, cn, NF, nf0)
  ELSE IF ~cfg.hold THEN FloodReason(A, cn, NF \ PortsIn(Held(A, cn, NF, sn)), nf0)
  ELSE IF MaybeYoung(cn, sn) = {} THEN FloodReason(A, cn, NF, nf0)
  ELSE HeldReason(A, cn, NF, nf0, sn)

Reason(R, ph, cn, ag, q, dt, lv0, sn) ==
  LET a == AdjReason(R.adj, ph, cn, ag, q, dt, lv0) IN
  IF a # "ok" THEN a
  ELSE LET e == EvReason(R.evs, R.adj, LiveSet(ph, cn), lv0, dt) IN
       IF e # "ok" THEN e
       ELSE FloodReasonM(R.adj, cn, R.nf, nf, sn)

----------------------------------------------------------------------------
(* What a flooded frame does (the "so ..." clause): it enters switch s on   *)
(* port p; every switch sends it out of every port except the one it came   *)
(* in on and those with NO_FLOOD; wires that are up carry it.               *)

OutWires(s, inp) == {l \in phys : l[1] = s /\ l[2] # inp /\ <<s, l[2]>> \notin nf}

RECURSIVE SumOver(_, _, _, _)
RECURSIVE Arrivals(_, _, _, _)
\* arrivals at switch t downstream of a frame that entered s on inp, <= k hops
Arrivals(s, inp, t, k) == IF k = 0 THEN 0 ELSE SumOver(OutWires(s, inp), t, k, 0)
SumOver(W, t, k, acc) ==
  IF W = {} THEN acc
  ELSE LET l == CHOOSE x \in W : TRUE
       IN SumOver(W \ {l}, t, k,
                  acc + (IF l[3] = t THEN 1 ELSE 0) + Arrivals(l[3], l[4], t, k - 1))

RECURSIVE Deep(_, _, _)
Deep(s, inp, k) == IF k = 0 THEN TRUE ELSE \E l \in OutWires(s, inp) : Deep(l[3], l[4], k - 1)

Hops == net.n * net.np + 1           \* a longer walk repeats a (switch, in-port): a loop
Storm(s, p)    == Deep(s, p, Hops)
Delivered(s, p) == [t \in Switches |-> Arrivals(s, p, t, Hops)]

HostPorts(s) == {p \in PortsOf(s) : \A l \in net.wires : ~(l[1] = s /\ l[2] = p) /\ ~(l[3] = s /\ l[4] = p)}
Settled   == MaybeYoung(conn, since) = {}
Converged == conn = Switches /\ adj = LiveSet(phys, conn) /\ Settled

----------------------------------------------------------------------------
NoObs == [a |-> "Init", args |-> [x |-> 0], exp |-> [x |-> 0]]

Init == /\ net \in Nets
        /\ cfg \in {c \in Configs : CfgFits(c, net)}
        /\ phys \in SUBSET net.wires
        /\ conn = {}
        /\ adj = {}
        /\ nf = {}
        /\ age = [l \in net.wires |-> Cap]
        /\ quiet = Cap
        /\ since = [s \in Switches |-> HoldCap]
        /\ flight = {}
        /\ last = NoObs
        /\ hist = <<>>

Log(a, args, exp) ==
  /\ last' = [a |-> a, args |-> args, exp |-> exp]
  /\ hist' = IF D = 0 THEN hist              \* D = 0: no export, keep states small
             ELSE Append(hist, [a |-> a, args |-> args, exp |-> exp])

NewAge(ph, cn, dt) ==
  [l \in net.wires |-> IF IsLive(l, ph, cn) # IsLive(l, phys, conn) THEN 0
                       ELSE Lesser(age[l] + dt, Cap)]
\* (kept constant when no spanning_tree option is set: no clause reads it then)
NewSince(cn, dt) ==
  IF ~Modal THEN since
  ELSE [s \in Switches |-> IF s \in cn \ conn THEN 0 ELSE Lesser(since[s] + dt, HoldCap)]

\* wires go up and down silently: no controller code runs, nothing may change
Cut(l) ==
  /\ l \in phys
  /\ phys' = phys \ {l}
  /\ age' = NewAge(phys', conn, 0)
  /\ UNCHANGED <<net, cfg, conn, adj, nf, quiet, since, flight>>
  /\ Log("Cut", [l |-> l], [adj |-> adj, evs |-> <<>>, nf |-> nf])

Restore(l) ==
  /\ l \in net.wires \ phys
  /\ phys' = phys \cup {l}
  /\ age' = NewAge(phys', conn, 0)
  /\ UNCHANGED <<net, cfg, conn, adj, nf, quiet, since, flight>>
  /\ Log("Restore", [l |-> l], [adj |-> adj, evs |-> <<>>, nf |-> nf])

\* environment assumption: the set of connected switches changes in batches
\* that are at least one probe cycle apart (each change restarts the probe
\* timer; see notes/C19.md)
MembershipMayChange == quiet = 0 \/ quiet >= Detect

Permitted(R, ph, cn, dt, q) ==
  Reason(R, ph, cn, NewAge(ph, cn, dt), q, dt, LiveSet(phys, conn), NewSince(cn, dt)) = "ok"

Apply(a, args, ph, cn, dt, q, R) ==
  /\ phys' = ph /\ conn' = cn /\ age' = NewAge(ph, cn, dt) /\ quiet' = q
  /\ adj' = R.adj /\ nf' = R.nf /\ since' = NewSince(cn, dt)
  /\ UNCHANGED <<net, cfg, flight>>
  /\ Log(a, args, [adj |-> R.adj, evs |-> R.evs, nf |-> R.nf])


\* each controller step = environment guard /\ response permitted /\ effect
UpEnv(s)   == s \in Switches \ conn /\ MembershipMayChange
DownEnv(s) == s \in conn /\ MembershipMayChange
AdvEnv(d)  == d >= 1
UpDo(s, R)   == Apply("SwitchUp", [s |-> s], phys, conn \cup {s}, 0, 0, R)
DownDo(s, R) == Apply("SwitchDown", [s |-> s], phys, conn \ {s}, 0, 0, R)
AdvDo(d, R)  == Apply("Advance", [d |-> d], phys, conn, d, Lesser(quiet + d, Cap), R)

SwitchUp(s, R)   == UpEnv(s) /\ Permitted(R, phys, conn \cup {s}, 0, 0) /\ UpDo(s, R)
SwitchDown(s, R) == DownEnv(s) /\ Permitted(R, phys, conn \ {s}, 0, 0) /\ DownDo(s, R)
Advance(d, R)    == AdvEnv(d) /\ Permitted(R, phys, conn, d, Lesser(quiet + d, Cap)) /\ AdvDo(d, R)

\* ---- probes in flight (round 8).  The network between two switches and the
\* control channel of the receiving switch take time: a probe that travelled
\* over wire w may reach the controller (as a packet-in of switch w[3]) any
\* time later - after the wire was cut, after its sender w[1] disconnected.
\* `flight` = wires of which a (copy of a) probe is still on its way.
\*   Delay(w): a probe travelling over the known live wire w is delayed (silent).
\*   Late(w, R): it reaches the controller now, in a 0-second step of its own.
\* What the property says about the response: w itself may (re)appear iff both
\* its ends are connected - a probe DID travel over it, the controller cannot
\* know that it was cut meanwhile, so the step is judged as if w were up and w's
\* silence counts from now (LateAge) -; no other link appears, nothing live is
\* dropped, and above all NO link of a disconnected switch comes back.
LateLive(w) == w[1] \in conn /\ w[3] \in conn
LatePhys(w) == phys \cup {w}
LateAge(w)  == IF w \notin phys /\ LateLive(w) THEN [age EXCEPT ![w] = 0] ELSE age

Delay(w) ==
  /\ Cardinality(flight) < MaxFlight
  /\ w \in adj /\ IsLive(w, phys, conn) /\ w \notin flight
  /\ flight' = flight \cup {w}
  /\ UNCHANGED <<net, cfg, phys, conn, adj, nf, age, quiet, since>>
  /\ Log("Delay", [l |-> w], [adj |-> adj, evs |-> <<>>, nf |-> nf])

LateEnv(w) == w \in flight /\ w[3] \in conn
LateReason(R, w) == Reason(R, LatePhys(w), conn, LateAge(w), quiet, 0, LiveSet(phys, conn), since)
LateDo(w, R) ==
  /\ flight' = flight \ {w}
  /\ adj' = R.adj /\ nf' = R.nf /\ age' = LateAge(w)
  /\ UNCHANGED <<net, cfg, phys, conn, quiet, since>>
  /\ Log("Late", [l |-> w], [adj |-> R.adj, evs |-> R.evs, nf |-> R.nf])
Late(w, R) == LateEnv(w) /\ LateReason(R, w) = "ok" /\ LateDo(w, R)

\* a frame from a host is flooded through the converged network
Flood(s, p) ==
  /\ Converged
  /\ s \in Switches /\ p \in HostPorts(s)
  /\ UNCHANGED <<net, cfg, phys, conn, adj, nf, age, quiet, since, flight>>
  /\ Log("Flood", [s |-> s, p |-> p],
         [rx |-> Delivered(s, p), storm |-> Storm(s, p)])

----------------------------------------------------------------------------
(* Model checking: the controller's response ranges over EVERYTHING the    *)
(* property permits.                                                        *)

RECURSIVE AsSeq(_)
AsSeq(S) == IF S = {} THEN <<>> ELSE LET x == CHOOSE y \in S : TRUE IN <<x>> \o AsSeq(S \ {x})
CanonEvs(A) == AsSeq({<<0, l[1], l[2], l[3], l[4]>> : l \in adj \ A})
               \o AsSeq({<<1, l[1], l[2], l[3], l[4]>> : l \in A \ adj})

AdjChoices(ph, cn, dt, q) ==
  LET ag == NewAge(ph, cn, dt)
      lv0 == LiveSet(phys, conn)
  IN {A \in SUBSET (adj \cup LiveSet(ph, cn)) : AdjReason(A, ph, cn, ag, q, dt, lv0) = "ok"}
\* (with a spanning_tree option set, host-facing ports of young switches may be blocked too)
NFChoices(A, cn, sn) ==
  LET cp == PortsIn(cn)
      fr == IF Modal THEN cp ELSE Ends(A) \cap cp
  IN {N \in {(nf \ cp) \cup X : X \in SUBSET fr} : FloodReasonM(A, cn, N, nf, sn) = "ok"}
\* announcements: the canonical ones, and every permitted variant in which ONE
\* link that stays known is withdrawn and announced again inside the step
EvChoices(A, ph, cn, dt) ==
  LET lv == LiveSet(ph, cn)
      lv0 == LiveSet(phys, conn)
  IN {CanonEvs(A)} \cup
     {es \in {<<<<0, l[1], l[2], l[3], l[4]>>, <<1, l[1], l[2], l[3], l[4]>>>> \o CanonEvs(A) : l \in adj \cap A} :
        EvReason(es, A, lv, lv0, dt) = "ok"}
Responses(ph, cn, dt, q) ==
  UNION {{[adj |-> A, evs |-> es, nf |-> N] : N \in NFChoices(A, cn, NewSince(cn, dt)), es \in EvChoices(A, ph, cn, dt)}
         : A \in AdjChoices(ph, cn, dt, q)}

\* (every R in Responses() is Permitted: the guard of SwitchUp/SwitchDown/
\* Advance is not evaluated a second time here)
UpNext(s)      == UpEnv(s) /\ \E R \in Responses(phys, conn \cup {s}, 0, 0) : UpDo(s, R)
DownNext(s)    == DownEnv(s) /\ \E R \in Responses(phys, conn \ {s}, 0, 0) : DownDo(s, R)
AdvanceNext(d) == AdvEnv(d) /\ \E R \in Responses(phys, conn, d, Lesser(quiet + d, Cap)) : AdvDo(d, R)
CutNext        == \E l \in phys : Cut(l)
RestoreNext    == \E l \in net.wires \ phys : Restore(l)
FloodNext      == \E s \in Switches : \E p \in HostPorts(s) : Flood(s, p)

\* a late probe: every permitted response
LateAdjChoices(w) ==
  LET cand == adj \cup (IF LateLive(w) THEN {w} ELSE {})
  IN {A \in SUBSET cand : AdjReason(A, LatePhys(w), conn, LateAge(w), quiet, 0, LiveSet(phys, conn)) = "ok"}
LateResponses(w) ==
  UNION {{[adj |-> A, evs |-> es, nf |-> N] : N \in NFChoices(A, conn, since), es \in EvChoices(A, LatePhys(w), conn, 0)}
         : A \in LateAdjChoices(w)}
DelayNext == \E w \in adj : Delay(w)
LateOne(w) == LateEnv(w) /\ \E R \in LateResponses(w) : LateDo(w, R)
LateNext == \E w \in flight : LateOne(w)

UpAny      == \E s \in Switches : UpNext(s)
DownAny    == \E s \in Switches : DownNext(s)
AdvanceAny == \E d \in DurSet : AdvanceNext(d)

Next == \/ UpAny
        \/ DownAny
        \/ AdvanceAny
        \/ CutNext
        \/ RestoreNext
        \/ FloodNext
        \/ DelayNext
        \/ LateNext

Spec == Init /\ [][Next]_vars

(* Reference controller: one fixed permitted response per environment step  *)
(* (eager discovery, lazy expiry, some forest).  Used to let TLC generate   *)
(* environment histories; NextRef => Next by construction (RefR is drawn    *)
(* from Responses).                                                         *)
RefR(ph, cn, dt, q) ==
  LET RS == Responses(ph, cn, dt, q)
      mx == CHOOSE R \in RS : /\ R.evs = CanonEvs(R.adj)
                               /\ \A Q \in RS : Cardinality(Q.adj) <= Cardinality(R.adj)
  IN mx
\* (the reference controller believes a late probe whenever it may)
LateRefR(w) ==
  LET RS == LateResponses(w)
  IN CHOOSE R \in RS : /\ R.evs = CanonEvs(R.adj)
                        /\ \A Q \in RS : Cardinality(Q.adj) <= Cardinality(R.adj)
NextRef == \/ \E s \in Switches \ conn : SwitchUp(s, RefR(phys, conn \cup {s}, 0, 0))
           \/ \E s \in conn : SwitchDown(s, RefR(phys, conn \ {s}, 0, 0))
           \/ \E d \in DurSet : Advance(d, RefR(phys, conn, d, Lesser(quiet + d, Cap)))
           \/ CutNext
           \/ RestoreNext
           \/ FloodNext
           \/ DelayNext
           \/ \E w \in flight : Late(w, LateRefR(w))

----------------------------------------------------------------------------
(* Properties checked by TLC on the specification itself.                  *)

TypeOK == /\ net \in Nets /\ cfg \in Configs /\ CfgFits(cfg, net)
          /\ phys \subseteq net.wires /\ conn \subseteq Switches
          /\ adj \subseteq net.wires /\ nf \subseteq PortsIn(Switches)
          /\ age \in [net.wires -> 0..Cap] /\ quiet \in 0..Cap
          /\ since \in [Switches -> 0..HoldCap]
          /\ (~Modal => since = [s \in Switches |-> HoldCap])
          /\ flight \subseteq net.wires /\ Cardinality(flight) <= MaxFlight

\* the adjacency never names a link of a disconnected switch ...
WithdrawnOnDisconnect == \A l \in adj : l[1] \in conn /\ l[3] \in conn
\* ... nor one over which no probe has travelled for a timeout (silent switch, cut wire)
WithdrawnWhenSilent == \A l \in adj : IsLive(l, phys, conn) \/ age[l] < Expire
\* every link probes have been travelling over for a full undisturbed cycle is known
Discovered == quiet >= Detect =>
                \A l \in LiveSet(phys, conn) : age[l] >= Detect => l \in adj
\* so once the environment has been still long enough the adjacency is exact
ExactWhenSettled == (quiet >= Detect /\ \A l \in net.wires : age[l] >= Expire)
                      => adj = LiveSet(phys, conn)

\* flooding: host-facing ports flood; the enabled inter-switch ports are the
\* two ends of links forming a forest that spans the bidirectional components
\* (with a spanning_tree option set: for the switches that are not young / once no switch is young)
HostPortsFlood == \A sp \in PortsIn(conn \ MaybeYoung(conn, since)) \ Ends(adj) : sp \notin nf
ForestOK       == FloodReasonM(adj, conn, nf, nf, since) = "ok"
Acyclic        == Settled => LET T == TreeLinks(adj, nf) IN Cardinality(T) = 2 * (net.n - NComp(Switches, T))
Spanning       == Settled => \A s \in Switches : Comp(s, TreeLinks(adj, nf)) = Comp(s, Bi(adj))
\* hold-down ends: Hold + Slack after the last connect every clause is back in force
HoldDownEnds   == (\A s \in conn : since[s] >= HoldCap) => FloodReason(adj, conn, nf, nf) = "ok"

\* "so a flooded frame reaches every switch exactly once"
ExactlyOnce ==
  Converged =>
    \A s \in Switches : \A p \in HostPorts(s) :
       /\ ~Storm(s, p)
       /\ \A t \in Switches :
            Delivered(s, p)[t] = IF t # s /\ t \in Comp(s, Bi(adj)) THEN 1 ELSE 0

\* the property can always be met (the spec never corners the controller)
Responsive ==
  /\ \A s \in Switches \ conn : \E A \in AdjChoices(phys, conn \cup {s}, 0, 0) :
        NFChoices(A, conn \cup {s}, NewSince(conn \cup {s}, 0)) # {}
  /\ \A s \in conn : \E A \in AdjChoices(phys, conn \ {s}, 0, 0) : NFChoices(A, conn \ {s}, NewSince(conn \ {s}, 0)) # {}
  /\ \A d \in DurSet : \E A \in AdjChoices(phys, conn, d, Lesser(quiet + d, Cap)) : NFChoices(A, conn, NewSince(conn, d)) # {}
  /\ \A w \in flight : w[3] \in conn => LateResponses(w) # {}

\* announcements: per link they alternate, starting with "added", and the
\* adjacency is what has been announced
Announced == [][last'.a \in {"SwitchUp", "SwitchDown", "Advance", "Cut", "Restore", "Delay", "Late"} =>
                  LET r == EvFinal(adj, last'.exp.evs) IN r.ok /\ r.set = adj']_vars
\* nothing changes on the controller side when only a wire changes
SilentWires == [][last'.a \in {"Cut", "Restore", "Delay"} => adj' = adj /\ nf' = nf]_vars
\* a live link that is known is never withdrawn while the network is undisturbed
NeverDropsLive ==
  [][\A l \in adj : (IsLive(l, phys, conn) /\ IsLive(l, phys', conn')
                      /\ quiet' >= Detect /\ age'[l] >= Detect) => l \in adj']_vars

\* a link that is known, stays live and has been undisturbed for a full probe
\* cycle is not announced as removed (not even to be announced again at once)
NoSpuriousWithdrawal ==
  [][last'.a \in {"SwitchUp", "SwitchDown", "Advance", "Late"} =>
       \A l \in EvLinks(last'.exp.evs, 0) :
          ~(l \in adj /\ IsLive(l, phys, conn) /\ IsLive(l, phys', conn')
            /\ quiet >= Detect /\ age[l] >= Detect)]_vars
\* a probe that arrives late brings back at most the wire it travelled over, and
\* only between connected switches: the links of a switch that has gone stay gone
LateNeverResurrects ==
  [][last'.a = "Late" =>
       /\ \A l \in adj' \ adj : l = last'.args.l /\ l[1] \in conn /\ l[3] \in conn
       /\ \A l \in EvLinks(last'.exp.evs, 1) : l[1] \in conn /\ l[3] \in conn
       /\ adj \cap LiveSet(phys, conn) \subseteq adj']_vars
\* the options are those the components were launched with: they never change
ConfigConstant == [][cfg' = cfg]_vars

\* ---- export for the scenario generator
Bound   == Len(hist) <= D
\* (the scenario generator needs the net and the wires that were up at the start:
\* the latter is recovered from the final `phys` by undoing the Cut/Restore steps)
Export  == (Len(hist) = D) => PrintT(<<"H", ToJson([net |-> net, cfg |-> cfg, phys |-> phys, h |-> hist])>>)
ExportT == PrintT(<<"T", ToJson([net |-> net', cfg |-> cfg', phys |-> phys', h |-> hist'])>>)
=============================================================================
