CONSTANTS
  Nets <- MCNetsGen
  Durations <- MCDurSim
  Configs <- MCCfgSim
  CheckPeriod = 5
  SendsPerSec = 15
  Slack = 1
  MaxFlight = 2
  D = 24
INIT Init
NEXT NextRefFlight
INVARIANT Export
CHECK_DEADLOCK FALSE
