CONSTANTS
  Nets <- MCNetsMin
  Durations <- MCDurRelQ
  Configs <- MCCfgQuick
  CheckPeriod = 5
  SendsPerSec = 15
  Slack = 1
  MaxFlight = 1
  D = 0
INIT Init
NEXT NextCfgs
VIEW viewE
INVARIANT TypeOK
INVARIANT WithdrawnOnDisconnect
INVARIANT WithdrawnWhenSilent
INVARIANT Discovered
INVARIANT ExactWhenSettled
INVARIANT HostPortsFlood
INVARIANT ForestOK
INVARIANT Acyclic
INVARIANT Spanning
INVARIANT ExactlyOnce
INVARIANT Responsive
PROPERTY Announced
PROPERTY SilentWires
PROPERTY NeverDropsLive
PROPERTY NoSpuriousWithdrawal
PROPERTY ConfigConstant
PROPERTY LateNeverResurrects
INVARIANT HoldDownEnds
CHECK_DEADLOCK FALSE
