CONSTANTS
  Nets <- MCNetsGen
  Durations <- MCDurSmall
  Configs <- MCCfgDefault
  CheckPeriod = 5
  SendsPerSec = 15
  Slack = 1
  MaxFlight = 0
  D = 0
INIT InitConverged
NEXT NextFlood
VIEW viewE
INVARIANT ForestOK
INVARIANT Acyclic
INVARIANT Spanning
INVARIANT HostPortsFlood
INVARIANT ExactlyOnce
CHECK_DEADLOCK FALSE
