CONSTANTS
  Nets <- MCNetsChain
  Durations <- MCDurSmall
  Cycle = 5
  Timeout = 10
  CheckPeriod = 5
  Slack = 1
  D = 0
INIT Init
NEXT Next
VIEW viewE
INVARIANT TypeOK
INVARIANT WithdrawnOnDisconnect
INVARIANT WithdrawnWhenSilent
INVARIANT Discovered
INVARIANT ExactWhenSettled
INVARIANT HostPortsFlood
INVARIANT ForestOK
INVARIANT Acyclic
INVARIANT Spanning
INVARIANT ExactlyOnce
INVARIANT Responsive
PROPERTY Announced
PROPERTY SilentWires
PROPERTY NeverDropsLive
CHECK_DEADLOCK FALSE
