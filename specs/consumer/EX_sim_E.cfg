CONSTANTS NE = 2
  MaxEv = 40
  MaxST = 3
  Hows <- HowsPO
  Ops <- OpsLive
  Gets <- GetsAll
  Thrs <- ThrAll
  WithOther = TRUE
  Strict = FALSE
  KeepHist = TRUE
  D = 40
INIT Init
NEXT Next
INVARIANT Export
CHECK_DEADLOCK FALSE
