---------------------------- MODULE EventWaiter ----------------------------
(* X18 (part 2): a recoco task that waits for revent events -                 *)
(* pox/lib/recoco/events.py (ReventWaiter / WaitOnEvents) on the recoco       *)
(* Scheduler.                                                                 *)
(*                                                                            *)
(* What the code offers (settled after reading it - there is no documentation *)
(* saying otherwise): a ReventWaiter subscribes to event types of a source    *)
(* and QUEUES every such event.  `yield waiter.waitOne()` blocks the task     *)
(* until the queue is not empty and resumes it with the OLDEST queued event;  *)
(* `yield waiter.waitAll()` resumes it with ALL queued events (not "after all *)
(* registered event types have fired").  `yield WaitOnEvents(waiter)` resumes *)
(* it with the waiter itself, for getEvent()/getEvents() calls.  Events       *)
(* raised before the wait are not lost: WaitOnEvents.execute() re-checks the  *)
(* queue after arming.                                                        *)
(*                                                                            *)
(* Abstract state: the waiter's subscriptions, its event queue, its arming    *)
(* flag; the task (suspended / inside its body / gone) and the return         *)
(* function the scheduler will call when it resumes it; the ready deque (the  *)
(* task, and ScheduleTasks queued by foreign threads that raised an event).   *)
(*                                                                            *)
(* Actions:                                                                   *)
(*   Register   registerForEvent / registerForEventByName (once, weak)        *)
(*   Other      somebody else subscribes to the same event type               *)
(*   Raise      source.raiseEvent(...) from the cooperative thread (also by   *)
(*              the task itself) or a foreign thread: _eventHandler + _check  *)
(*   FSched     second half of a Raise by a foreign thread that was pre-empted *)
(*              in _check between "_wakeable = False" and schedule(task)      *)
(*   Start      the task is created and started                               *)
(*   Cycle      Scheduler.cycle(): ScheduleTask wakes the task (RunST) / the  *)
(*              task is resumed: task.rf is evaluated (getEvent / getEvents)  *)
(*              and its value sent into the generator (Resume)                *)
(*   Yield      the task's body yields: waitOne / waitAll / WaitOnEvents      *)
(*              (execute: rf, _task, _scheduler, _reset, _check), 0, or ends  *)
(*   Get        the task calls getEvent() / getEvents() itself                *)
(*                                                                            *)
(* Named deviations (Strict = FALSE; notes/X18.md "Defects observed"):        *)
(*   DefaultRfKillsTask     WaitOnEvents with the default return function:    *)
(*                          resuming raises TypeError, the task is lost       *)
(*   RegisterHalfDone       registering (default priority=None) where another *)
(*                          listener exists raises TypeError - after the      *)
(*                          listener was installed                            *)
(*   OtherListenerRejected  ... and from then on so does every addListener    *)
(*                          of anybody else for that event type               *)
(*   WeakRegisterRaises     weak=True raises AttributeError                   *)
EXTENDS Naturals, Sequences, FiniteSets, TLC, Json, SequencesExt

CONSTANTS NE,        \* event types 1..NE of one source
          MaxEv,     \* events raised (bound)
          MaxST,     \* ScheduleTasks in the deque at one time
          Hows,      \* ways to register: "perm", "once", "weak"
          Ops,       \* what the task's body may yield: "one", "all", "def", "resched", "exit"
          Gets,      \* direct calls by the task: "one" (getEvent), "all" (getEvents)
          Thrs,      \* "coop", "foreign", "fsplit" (a foreign thread pre-empted inside _check between disarming the
                     \* waiter and Scheduler.schedule(task): FSched finishes it)
          WithOther, \* may another listener subscribe
          Strict,
          KeepHist,  \* FALSE: hist is not recorded (liveness runs, which cannot use a VIEW)
          D

ES == 1..NE
T == 1
STT == 11                       \* a ScheduleTask for the task
Waits == {"one", "all", "def"}

VARIABLES reg,       \* [ES -> "none" | "perm" | "once"]     the waiter's listener for type e
          oth,       \* [ES -> 0..1]                         another listener for type e
          prio,      \* [ES -> BOOLEAN]                      the source sorts the listeners of type e by priority
          pend,      \* waiter._events: Seq(event id)
          acc,       \* every event that was raised while the waiter was subscribed to its type, in order
          nev,       \* events raised so far (event ids are 1, 2, ...)
          wakeable,  \* waiter._wakeable
          bound,     \* waiter._task / _scheduler are set
          tst,       \* "new" | "susp" | "body" | "dead" | "zombie" (suspended, never to be resumed)
          rf,        \* task.rf: "none" | "one" | "all" | "def"
          ready,     \* Scheduler._ready
          got,       \* what the task received so far: Seq([m |-> mode, ev |-> Seq(event id)]) (non-empty ones)
          spurious,  \* the task was resumed from a wait with nothing
          failed,    \* a public call raised an exception
          fwake,     \* a foreign thread has disarmed the waiter and is about to call schedule(task)
          pinged,
          last, hist
vars == <<reg, oth, prio, pend, acc, nev, wakeable, bound, tst, rf, ready, got, spurious, failed, fwake, pinged, last, hist>>
view == <<reg, oth, prio, pend, acc, nev, wakeable, bound, tst, rf, ready, got, spurious, failed, fwake, pinged>>

Rng(s) == {s[i] : i \in DOMAIN s}
Count(s, x) == Cardinality({i \in DOMAIN s : s[i] = x})
NumST(s) == Count(s, STT)
RECURSIVE Flat(_)
Flat(s) == IF s = <<>> THEN <<>> ELSE Head(s).ev \o Flat(Tail(s))

ObsTst(s) == IF s = "zombie" THEN "susp" ELSE s
ObsF(rd, rg, ot, pd, wk, bd, ts, r, dl, seen, pg, err, fw) ==
  [ready |-> rd, fwake |-> fw,
   reg |-> [e \in ES |-> rg[e]], oth |-> [e \in ES |-> ot[e]],
   pend |-> pd, wakeable |-> wk, bound |-> bd, tst |-> ObsTst(ts), rf |-> r,
   got |-> dl,            \* what the task was handed in this step: <<>> or <<[m, ev]>>
   seen |-> seen,         \* events the other listener received in this step
   pinged |-> pg, err |-> err]
Obs(rd, rg, ot, pd, wk, bd, ts, r, dl, seen, pg, err) == ObsF(rd, rg, ot, pd, wk, bd, ts, r, dl, seen, pg, err, fwake)

Log(a, args, exp) ==
  /\ last' = [a |-> a, args |-> args, exp |-> exp]
  /\ hist' = IF KeepHist THEN Append(hist, [a |-> a, args |-> args, exp |-> exp]) ELSE hist

Init ==
  /\ reg = [e \in ES |-> "none"] /\ oth = [e \in ES |-> 0] /\ prio = [e \in ES |-> FALSE]
  /\ pend = <<>> /\ acc = <<>> /\ nev = 0
  /\ wakeable = FALSE /\ bound = FALSE
  /\ tst = "new" /\ rf = "none" /\ ready = <<>> /\ got = <<>>
  /\ spurious = FALSE /\ failed = FALSE /\ fwake = FALSE /\ pinged = FALSE
  /\ last = [a |-> "Init", args |-> [x |-> 0], exp |-> [x |-> 0]]
  /\ hist = <<>>

ThrOK(thr) == thr = "foreign" => NumST(ready) < MaxST
\* Scheduler.schedule(task) by thread thr: <<new deque, pinged>>
Wake(thr, rd) ==
  IF thr = "foreign" THEN <<Append(rd, STT), TRUE>>
  ELSE IF thr = "fsplit" THEN <<rd, FALSE>>           \* not yet: FSched
  ELSE IF T \in Rng(rd) THEN <<rd, FALSE>>
  ELSE <<Append(rd, T), TRUE>>

\* ---- subscriptions.  addListener appends the entry, then - when a priority was given or the type is already
\* "prioritized" - sorts the entries by priority.  ReventWaiter passes priority=None (revent's default is 0), so
\* the type becomes prioritized and the sort compares None with the other entries: TypeError under Python 3 as
\* soon as there are two entries.
Register(e, how) ==
  /\ reg[e] = "none" /\ how \in Hows
  /\ IF how = "weak" /\ ~Strict
     THEN \* WeakRegisterRaises: CallProxy wants a bound method, the waiter hands it a functools.partial
          /\ failed' = TRUE
          /\ UNCHANGED <<reg, oth, prio, pend, acc, nev, wakeable, bound, tst, rf, ready, got, spurious, pinged, fwake>>
          /\ Log("Register", [e |-> e, how |-> how, br |-> "WeakRegisterRaises"],
                 Obs(ready, reg, oth, pend, wakeable, bound, tst, rf, <<>>, <<>>, pinged, "AttributeError"))
     ELSE LET halfdone == ~Strict /\ oth[e] = 1 IN       \* RegisterHalfDone
          /\ reg' = [reg EXCEPT ![e] = IF how = "once" THEN "once" ELSE "perm"]
          /\ prio' = [prio EXCEPT ![e] = TRUE]
          /\ failed' = (failed \/ halfdone)
          /\ UNCHANGED <<oth, pend, acc, nev, wakeable, bound, tst, rf, ready, got, spurious, pinged, fwake>>
          /\ Log("Register", [e |-> e, how |-> how, br |-> IF halfdone THEN "RegisterHalfDone" ELSE "Registered"],
                 Obs(ready, reg', oth, pend, wakeable, bound, tst, rf, <<>>, <<>>, pinged,
                     IF halfdone THEN "TypeError" ELSE "-"))

Other(e) ==
  /\ WithOther /\ oth[e] = 0
  /\ LET rejected == ~Strict /\ prio[e] /\ reg[e] # "none" IN     \* OtherListenerRejected (installed all the same)
     /\ oth' = [oth EXCEPT ![e] = 1]
     /\ failed' = (failed \/ rejected)
     /\ UNCHANGED <<reg, prio, pend, acc, nev, wakeable, bound, tst, rf, ready, got, spurious, pinged, fwake>>
     /\ Log("Other", [e |-> e, br |-> IF rejected THEN "OtherListenerRejected" ELSE "Added"],
            Obs(ready, reg, oth', pend, wakeable, bound, tst, rf, <<>>, <<>>, pinged,
                IF rejected THEN "TypeError" ELSE "-"))

\* ---- an event of type e is raised by thread thr (coop while the task is inside its body = by the task itself)
Raise(e, thr) ==
  /\ nev < MaxEv /\ ThrOK(thr)
  \* (a split raise: one at a time, and only where the rest of revent's delivery loop - other listeners, the
  \* removal of a once-listener, which happen after the waiter's handler returns - has nothing left to do)
  /\ thr = "fsplit" => (~fwake /\ reg[e] = "perm" /\ oth[e] = 0)
  /\ LET id == nev + 1
         mine == reg[e] # "none"
         wake == mine /\ bound /\ wakeable                 \* _check: only an armed waiter schedules its task
         w == IF wake THEN Wake(thr, ready) ELSE <<ready, FALSE>> IN
     /\ nev' = id
     /\ pend' = IF mine THEN Append(pend, id) ELSE pend
     /\ acc' = IF mine THEN Append(acc, id) ELSE acc
     /\ reg' = [reg EXCEPT ![e] = IF @ = "once" THEN "none" ELSE @]
     /\ wakeable' = (wakeable /\ ~wake)
     /\ ready' = w[1] /\ pinged' = (pinged \/ w[2])
     /\ fwake' = (fwake \/ (wake /\ thr = "fsplit"))
     /\ UNCHANGED <<oth, prio, bound, tst, rf, got, spurious, failed>>
     /\ Log("Raise", [e |-> e, thr |-> thr,
                       br |-> IF ~mine THEN "NotSubscribed" ELSE IF ~wake THEN "Queued"
                              ELSE IF thr = "foreign" THEN "WakesViaScheduleTask"
                              ELSE IF thr = "fsplit" THEN "DisarmedNotYetScheduled" ELSE "Wakes"],
            ObsF(w[1], reg', oth, pend', wakeable', bound, tst, rf, <<>>,
                 IF oth[e] = 1 THEN <<id>> ELSE <<>>, pinged', "-", fwake'))

\* the pre-empted foreign thread goes on: self._scheduler.schedule(self._task) -> a ScheduleTask is queued
FSched ==
  /\ fwake /\ NumST(ready) < MaxST
  /\ fwake' = FALSE /\ ready' = Append(ready, STT) /\ pinged' = TRUE
  /\ UNCHANGED <<reg, oth, prio, pend, acc, nev, wakeable, bound, tst, rf, got, spurious, failed>>
  /\ Log("FSched", [x |-> 0, br |-> "-"], ObsF(ready', reg, oth, pend, wakeable, bound, tst, rf, <<>>, <<>>, TRUE, "-", FALSE))

Start ==
  /\ tst = "new"
  /\ tst' = "susp" /\ ready' = Append(ready, T) /\ pinged' = TRUE
  /\ UNCHANGED <<reg, oth, prio, pend, acc, nev, wakeable, bound, rf, got, spurious, failed, fwake>>
  /\ Log("Start", [x |-> 0, br |-> "-"], Obs(ready', reg, oth, pend, wakeable, bound, tst', rf, <<>>, <<>>, TRUE, "-"))

\* ---- Scheduler.cycle()
RunST(rest) ==
  LET rd == IF T \in Rng(rest) THEN rest ELSE <<T>> \o rest IN
  /\ ready' = rd /\ pinged' = (pinged \/ T \notin Rng(rest))
  /\ UNCHANGED <<reg, oth, prio, pend, acc, nev, wakeable, bound, tst, rf, got, spurious, failed, fwake>>
  /\ Log("Cycle", [t |-> STT, br |-> "RunST"], Obs(rd, reg, oth, pend, wakeable, bound, tst, rf, <<>>, <<>>, pinged', "-"))

Deliver(m, ev) == [m |-> m, ev |-> ev]
\* Task.execute(): "if self.rf is not None: v = self.rf(self) ... return self.gen.send(v)"
Resume(rest) ==
  LET ev == CASE rf = "one" -> IF pend = <<>> THEN <<>> ELSE <<Head(pend)>>       \* getEvent()
              [] rf = "all" -> pend                                                \* getEvents()
              [] OTHER      -> <<>>
      pd == CASE rf = "one" -> IF pend = <<>> THEN <<>> ELSE Tail(pend)
              [] rf = "all" -> <<>>
              [] OTHER      -> pend IN
  /\ ready' = rest /\ tst' = "body" /\ rf' = "none" /\ pend' = pd
  /\ got' = IF ev # <<>> THEN Append(got, Deliver(rf, ev)) ELSE got
  /\ spurious' = (spurious \/ (rf \in {"one", "all"} /\ ev = <<>>))
  /\ UNCHANGED <<reg, oth, prio, acc, nev, wakeable, bound, failed, pinged, fwake>>
  /\ Log("Cycle", [t |-> T, br |-> "Resume-" \o rf],
         Obs(rest, reg, oth, pd, wakeable, bound, "body", "none", <<Deliver(rf, ev)>>, <<>>, pinged, "-"))
\* deviation: the default return function is declared without the task parameter; Task.execute() raises
\* TypeError before the generator is touched, Scheduler.cycle() prints it and forgets the task
DefaultRfKillsTask(rest) ==
  /\ ready' = rest /\ tst' = "zombie"
  /\ UNCHANGED <<reg, oth, prio, pend, acc, nev, wakeable, bound, rf, got, spurious, failed, pinged, fwake>>
  /\ Log("Cycle", [t |-> T, br |-> "DefaultRfKillsTask"], Obs(rest, reg, oth, pend, wakeable, bound, "zombie", rf, <<>>, <<>>, pinged, "-"))
DropDead(rest) ==
  /\ ready' = rest
  /\ UNCHANGED <<reg, oth, prio, pend, acc, nev, wakeable, bound, tst, rf, got, spurious, failed, pinged, fwake>>
  /\ Log("Cycle", [t |-> T, br |-> "DropDead"], Obs(rest, reg, oth, pend, wakeable, bound, tst, rf, <<>>, <<>>, pinged, "-"))

Cycle ==
  /\ tst # "body" /\ ready # <<>>
  /\ LET x == Head(ready)
         rest == Tail(ready) IN
     IF x = STT THEN RunST(rest)
     ELSE IF tst = "susp" THEN (IF rf = "def" /\ ~Strict THEN DefaultRfKillsTask(rest) ELSE Resume(rest))
     ELSE DropDead(rest)

\* ---- the task's body yields
\* WaitOnEvents.execute(): task.rf = ...; waiter._task = task; waiter._scheduler = scheduler; _reset(); _check()
YieldWait(op) ==
  LET now == pend # <<>> IN               \* events are already queued: the task is scheduled again at once
  /\ rf' = op /\ bound' = TRUE /\ tst' = "susp"
  /\ wakeable' = ~now
  /\ ready' = IF now THEN Wake("coop", ready)[1] ELSE ready
  /\ pinged' = (pinged \/ (now /\ Wake("coop", ready)[2]))
  /\ UNCHANGED <<reg, oth, prio, pend, acc, nev, got, spurious, failed, fwake>>
  /\ Log("Yield", [op |-> op, br |-> IF now THEN "WaitFindsEvents" ELSE "WaitBlocks"], Obs(ready', reg, oth, pend, wakeable', TRUE, "susp", op, <<>>, <<>>, pinged', "-"))
YieldOther(op) ==
  /\ tst' = IF op = "exit" THEN "dead" ELSE "susp"
  /\ ready' = IF op = "exit" THEN ready ELSE Append(ready, T)      \* yield 0: cycle() re-queues the task itself
  /\ UNCHANGED <<reg, oth, prio, pend, acc, nev, wakeable, bound, rf, got, spurious, failed, pinged, fwake>>
  /\ Log("Yield", [op |-> op, br |-> op], Obs(ready', reg, oth, pend, wakeable, bound, tst', rf, <<>>, <<>>, pinged, "-"))
Yield(op) ==
  /\ tst = "body" /\ op \in Ops
  /\ IF op \in Waits THEN YieldWait(op) ELSE YieldOther(op)

\* ---- the task calls waiter.getEvent() / waiter.getEvents() itself
Get(m) ==
  /\ tst = "body" /\ m \in Gets
  /\ LET ev == IF m = "one" THEN (IF pend = <<>> THEN <<>> ELSE <<Head(pend)>>) ELSE pend
         pd == IF m = "one" THEN (IF pend = <<>> THEN <<>> ELSE Tail(pend)) ELSE <<>> IN
     /\ pend' = pd
     /\ got' = IF ev # <<>> THEN Append(got, Deliver(m, ev)) ELSE got
     /\ UNCHANGED <<reg, oth, prio, acc, nev, wakeable, bound, tst, rf, ready, spurious, failed, pinged, fwake>>
     /\ Log("Get", [m |-> m, br |-> IF ev = <<>> THEN "Nothing" ELSE "Events"], Obs(ready, reg, oth, pd, wakeable, bound, tst, rf, <<Deliver(m, ev)>>, <<>>, pinged, "-"))

NextRegister == \E e \in ES, h \in Hows : Register(e, h)
NextOther    == \E e \in ES : Other(e)
NextRaise    == \E e \in ES, t \in Thrs : Raise(e, t)
NextYield    == \E op \in Ops : Yield(op)
NextGet      == \E m \in Gets : Get(m)
Next == NextRegister \/ NextOther \/ NextRaise \/ FSched \/ Start \/ Cycle \/ NextYield \/ NextGet

Spec == Init /\ [][Next]_vars
FairSpec == Spec /\ WF_vars(Cycle) /\ WF_vars(FSched)

----------------------------------------------------------------------------
(* The properties, over the real variables.                                   *)

TypeOK ==
  /\ reg \in [ES -> {"none", "perm", "once"}] /\ oth \in [ES -> 0..1] /\ prio \in [ES -> BOOLEAN]
  /\ nev \in 0..MaxEv /\ Len(pend) <= MaxEv /\ Len(acc) <= MaxEv
  /\ tst \in {"new", "susp", "body", "dead", "zombie"} /\ rf \in {"none", "one", "all", "def"}
  /\ \A i \in DOMAIN ready : ready[i] \in {T, STT}
  /\ wakeable \in BOOLEAN /\ bound \in BOOLEAN /\ spurious \in BOOLEAN /\ failed \in BOOLEAN /\ fwake \in BOOLEAN

\* the task receives exactly the events raised while the waiter was subscribed to their type: each once, in
\* the order raised, none lost (what it has not received yet is still queued)
ExactlyThoseEvents == Flat(got) \o pend = acc
\* a wait hands over something: waitOne exactly one event, waitAll at least one
NeverResumedEmpty == ~spurious
Waiting == tst = "susp" /\ rf \in Waits
Scheduled == T \in Rng(ready) \/ STT \in Rng(ready) \/ fwake
\* events raised before the wait, or between the wake-up and the resumption, are not lost: a waiting task with
\* queued events is on its way
NoLostWakeup == (Waiting /\ pend # <<>>) => Scheduled
\* only after an event: a waiting task is not scheduled while nothing is queued
NoSpuriousWake == (Waiting /\ Scheduled) => pend # <<>>
\* resumed exactly once per wait: at most one entry for the task, and once it is on its way the waiter is disarmed
AtMostOnceReady == Count(ready, T) + Count(ready, STT) + (IF fwake THEN 1 ELSE 0) <= 1
ArmedOnlyWhileWaiting == wakeable => (Waiting /\ pend = <<>> /\ ~Scheduled)
\* waitOne hands over the oldest queued event and leaves the rest queued; waitAll hands over all
OneTakesOne == [][(rf = "one" /\ tst = "susp" /\ tst' = "body") => (pend # <<>> /\ pend' = Tail(pend))]_vars
AllTakesAll == [][(rf = "all" /\ tst = "susp" /\ tst' = "body") => (pend # <<>> /\ pend' = <<>>)]_vars
\* the task's body runs only when the scheduler resumed it
ResumedBySchedulerOnly == [][(tst # "body" /\ tst' = "body") => (ready # <<>> /\ Head(ready) = T /\ ready' = Tail(ready))]_vars
\* intended design only
TaskSurvives == tst # "zombie"
NoApiError == ~failed
EventuallyResumed == (Waiting /\ pend # <<>>) ~> (tst = "body")

Bound   == Len(hist) <= D
Export  == (Len(hist) = D) => PrintT(<<"H", ToJson(hist)>>)
ExportT == PrintT(<<"T", ToJson(hist')>>)
=============================================================================
