---- MODULE MCEventWaiter ----
EXTENDS EventWaiter
HowsAll == {"perm", "once", "weak"}
HowsPO == {"perm", "once"}
HowsP == {"perm"}
OpsAll == {"one", "all", "def", "resched", "exit"}
OpsLive == {"one", "all", "resched"}
OpsW == {"one", "all", "def"}
OpsNoDef == {"one", "all", "resched", "exit"}
OpsOneAll == {"one", "all"}
GetsAll == {"one", "all"}
GetsNone == {}
ThrBoth == {"coop", "foreign"}
ThrCoop == {"coop"}
ThrAll == {"coop", "foreign", "fsplit"}
ThrSplit == {"coop", "fsplit"}
====
