---- MODULE TraceWorkConsumer ----
(* Code -> spec: traces recorded from the real consumers under a seeded random driver must be behaviours of  *)
(* WorkConsumer.tla: every recorded step must be the spec action with the recorded arguments AND yield exactly *)
(* the recorded observation (deque, queues, states, item in progress, items that ended, wake-up byte, hub     *)
(* registrations, error); every invariant is evaluated at each matched step.                                  *)
EXTENDS MCWorkConsumer, IOUtils, TLCExt

Traces == JsonDeserialize(IOEnv.TRACE_FILE)
NT == Len(Traces)
VARIABLES tid, l
tvars == <<vars, tid, l>>

TrInit == Init /\ tid \in 1..NT /\ l = 1 /\ TLCSet(tid, 0)
Ev == Traces[tid][l]
IsEvent(e) == l <= Len(Traces[tid]) /\ Ev.a = e /\ l' = l + 1 /\ UNCHANGED tid
Same == Ev.wf /\ last'.exp = Ev.obs

TrNew     == IsEvent("New") /\ New(Ev.args.c, Ev.args.start, Ev.args.thr) /\ Same
TrAddWork == IsEvent("AddWork") /\ AddWork(Ev.args.c, Ev.args.thr, Ev.args.form) /\ Same
TrStop    == IsEvent("Stop") /\ Stop(Ev.args.c) /\ Same
TrCycle   == IsEvent("Cycle") /\ Cycle(Ev.args.k) /\ last'.args.t = Ev.args.t /\ Same
TrFinish  == IsEvent("Finish") /\ Finish(Ev.args.o) /\ Same
TrIdle    == IsEvent("Idle") /\ Idle /\ Same
TrFSched  == IsEvent("FSched") /\ FSched(Ev.args.c) /\ Same

TrNext == TrNew \/ TrAddWork \/ TrFSched \/ TrStop \/ TrCycle \/ TrFinish \/ TrIdle
TrSpec == TrInit /\ [][TrNext]_tvars

Progress == TLCSet(tid, IF TLCGet(tid) < l - 1 THEN l - 1 ELSE TLCGet(tid))
Ok(t) == TLCGet(t) = Len(Traces[t]) \/ (PrintT(<<"REJECT", t, TLCGet(t)>>) /\ FALSE)
Accepted == /\ PrintT(<<"TRACES-CHECKED", NT>>)
            /\ Cardinality({t \in 1..NT : ~Ok(t)}) = 0
====
