CONSTANTS NE = 1
  MaxEv = 3
  MaxST = 1
  Hows <- HowsAll
  Ops <- OpsAll
  Gets <- GetsAll
  Thrs <- ThrBoth
  WithOther = TRUE
  Strict = TRUE
  KeepHist = TRUE
  D = 0
INIT Init
NEXT Next
VIEW view
ACTION_CONSTRAINT ExportT
CHECK_DEADLOCK FALSE
