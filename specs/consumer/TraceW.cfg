CONSTANTS NC = 2
  Batch <- B23
  Lo <- C1
  Flex <- C2
  MaxSub = 99
  MaxST = 99
  MaxSkip = 9
  MaxPend = 1
  Outcomes <- OutAll
  Thrs <- ThrAll
  Strict = FALSE
  KeepHist = TRUE
  D = 0
INIT TrInit
NEXT TrNext
CONSTRAINT Progress
POSTCONDITION Accepted
INVARIANT TypeOK
INVARIANT ExactlyOnceInOrder
INVARIANT NothingLost
INVARIANT BatchBound
INVARIANT WorkImpliesScheduled
INVARIANT NoLostWakeup
INVARIANT AtMostTwiceReady
CHECK_DEADLOCK FALSE
