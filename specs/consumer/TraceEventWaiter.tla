---- MODULE TraceEventWaiter ----
(* Code -> spec: traces recorded from a real task waiting on a real ReventWaiter under a seeded random driver *)
(* must be behaviours of EventWaiter.tla (same recipe as TraceWorkConsumer).                                  *)
EXTENDS MCEventWaiter, IOUtils, TLCExt

Traces == JsonDeserialize(IOEnv.TRACE_FILE)
NT == Len(Traces)
VARIABLES tid, l
tvars == <<vars, tid, l>>

TrInit == Init /\ tid \in 1..NT /\ l = 1 /\ TLCSet(tid, 0)
Ev == Traces[tid][l]
IsEvent(e) == l <= Len(Traces[tid]) /\ Ev.a = e /\ l' = l + 1 /\ UNCHANGED tid
Same == Ev.wf /\ last'.exp = Ev.obs

TrRegister == IsEvent("Register") /\ Register(Ev.args.e, Ev.args.how) /\ Same
TrOther    == IsEvent("Other") /\ Other(Ev.args.e) /\ Same
TrRaise    == IsEvent("Raise") /\ Raise(Ev.args.e, Ev.args.thr) /\ Same
TrStart    == IsEvent("Start") /\ Start /\ Same
TrCycle    == IsEvent("Cycle") /\ Cycle /\ last'.args.t = Ev.args.t /\ Same
TrYield    == IsEvent("Yield") /\ Yield(Ev.args.op) /\ Same
TrGet      == IsEvent("Get") /\ Get(Ev.args.m) /\ Same
TrFSched   == IsEvent("FSched") /\ FSched /\ Same

TrNext == TrRegister \/ TrOther \/ TrRaise \/ TrFSched \/ TrStart \/ TrCycle \/ TrYield \/ TrGet
TrSpec == TrInit /\ [][TrNext]_tvars

Progress == TLCSet(tid, IF TLCGet(tid) < l - 1 THEN l - 1 ELSE TLCGet(tid))
Ok(t) == TLCGet(t) = Len(Traces[t]) \/ (PrintT(<<"REJECT", t, TLCGet(t)>>) /\ FALSE)
Accepted == /\ PrintT(<<"TRACES-CHECKED", NT>>)
            /\ Cardinality({t \in 1..NT : ~Ok(t)}) = 0
====
