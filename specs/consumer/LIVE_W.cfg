CONSTANTS NC = 2
  Batch <- B12
  Lo <- C2
  Flex <- C2
  MaxSub = 2
  MaxST = 1
  MaxSkip = 1
  MaxPend = 1
  Outcomes <- OutAll
  Thrs <- ThrAll
  Strict = TRUE
  KeepHist = FALSE
  D = 0
SPECIFICATION FairSpec
PROPERTY EveryItemExecuted
CHECK_DEADLOCK FALSE
