CONSTANTS NC = 2
  Batch <- B23
  Lo <- C1
  Flex <- C2
  MaxSub = 12
  MaxST = 3
  MaxSkip = 2
  MaxPend = 1
  Outcomes <- OutAll
  Thrs <- ThrAll
  Strict = FALSE
  KeepHist = TRUE
  D = 40
INIT Init
NEXT Next
INVARIANT Export
CHECK_DEADLOCK FALSE
