---------------------------- MODULE WorkConsumer ----------------------------
(* X18 (part 1): recoco work consumers - pox/lib/recoco/consumer.py           *)
(* (BaseConsumer / FlexConsumer) on the recoco Scheduler.                     *)
(*                                                                            *)
(* Abstract state: per consumer its life-cycle state, its work queue and the  *)
(* sequence of items it has executed; the scheduler's ready deque (consumer   *)
(* tasks and the ScheduleTasks that foreign threads queue to wake them); the  *)
(* work item being executed right now (the cooperative thread is inside       *)
(* _do_work); the wake-up byte of the select hub.                             *)
(*                                                                            *)
(* One action per operation / linearisation point of the code:                *)
(*   New        BaseConsumer.__init__  (start=True schedules the task)         *)
(*   AddWork    add_work: queue.appendleft + Scheduler.schedule(self); from    *)
(*              the cooperative thread (also from inside a running work item) *)
(*              or from a foreign thread (a ScheduleTask is queued)           *)
(*   Cycle      Scheduler.cycle(): picks the head of the deque (priority rule *)
(*              with scripted draws) and resumes it.  A ScheduleTask wakes    *)
(*              its consumer (RunST).  A consumer computes                    *)
(*              n = min(batch_size, len(queue)); n = 0: yields False          *)
(*              (EmptyStep); else pops the first item and enters _do_work     *)
(*              (BeginBatch) - the step is multi-step: one Finish per item    *)
(*   Finish     _do_work returns / raises: next item of the batch, or the end *)
(*              of the step (yield False when the queue is empty, yield 0     *)
(*              otherwise)                                                    *)
(*   FSched     second half of an add_work by a foreign thread that was       *)
(*              pre-empted between queue.appendleft and schedule()            *)
(*   Stop       consumer.running = False ("Set to false to stop")             *)
(*   Idle       the scheduler finds nothing ready and waits in the hub        *)
(* Foreign-thread actions (AddWork/New "foreign", Stop) can happen between    *)
(* any two of these, in particular while an item is being executed.           *)
(*                                                                            *)
(* Named deviations of the code from its documented intent (Strict = FALSE    *)
(* turns them on; see notes/X18.md "Defects observed"):                       *)
(*   FlexAddWorkRaises        FlexConsumer.add_work always raises TypeError   *)
(*   SelfAddDoubleSchedules   add_work from inside the consumer's own work    *)
(*                            item puts the consumer into the deque a second  *)
(*                            time                                            *)
(*   KilledByBaseException    a work item raising outside the Exception       *)
(*                            hierarchy kills the consumer, queued work stays *)
(*                            unexecuted for ever                             *)
EXTENDS Naturals, Sequences, FiniteSets, TLC, Json, SequencesExt

CONSTANTS NC,        \* consumers 1..NC
          Batch,     \* <<batch_size of consumer c>>
          Lo,        \* consumers created with priority < 1
          Flex,      \* consumers that are FlexConsumers
          MaxSub,    \* work items submitted per consumer (bound)
          MaxST,     \* ScheduleTasks in the deque at one time (bound on the foreign threads)
          MaxSkip,   \* tasks sent to the back by one cycle() (scripted draws)
          MaxPend,   \* foreign threads per consumer that are between queue.appendleft and schedule()
          Outcomes,  \* how a work item may end: "ok", "raise", "halt", "base"
          Thrs,      \* who calls: "coop", "foreign" (the whole add_work at once), "fsplit" (a foreign thread that
                     \* is pre-empted between queue.appendleft(work) and Scheduler.schedule(self): FSched finishes it)
          Strict,    \* TRUE: the documented intent; FALSE: with the named deviations (as built)
          KeepHist,  \* FALSE: hist is not recorded (liveness runs, which cannot use a VIEW)
          D          \* export depth

CS == 1..NC
ST(c) == 10 + c                    \* the ScheduleTask a foreign thread queued for consumer c
NoCur == [c |-> 0, item |-> 0, left |-> 0, n |-> 0]

VARIABLES cst,       \* [CS -> "none" | "live" | "stopping" (running = False, generator not yet ended) | "dead"]
          queue,     \* [CS -> Seq(item)]       head = next to execute
          ready,     \* Scheduler._ready: Seq(c | ST(c))
          cur,       \* the item inside _do_work: consumer, item, items left in this batch, n-th of the batch
          sub,       \* [CS -> number of items submitted]     (items are numbered in submission order)
          exe,       \* [CS -> Seq(item)]       items whose _do_work has been called and has ended
          pinged,    \* the hub's wake-up byte is pending
          blocked,   \* the scheduler sits in SelectHub.idle() waiting for that byte
          failed,    \* a public call raised an exception
          fpend,     \* [CS -> number of foreign threads that have queued their item but not yet called schedule()]
          last, hist
vars  == <<cst, queue, ready, cur, sub, exe, pinged, blocked, failed, fpend, last, hist>>
view  == <<cst, queue, ready, cur, sub, exe, pinged, blocked, failed, fpend>>

Rng(s) == {s[i] : i \in DOMAIN s}
Count(s, x) == Cardinality({i \in DOMAIN s : s[i] = x})
Lesser(a, b) == IF a < b THEN a ELSE b
Rot(s, k) == [i \in 1..Len(s) |-> s[((i - 1 + k) % Len(s)) + 1]]
NumST(s) == Cardinality({i \in DOMAIN s : s[i] > 10})
UpTo(n) == [i \in 1..n |-> i]

\* ---- what an observer of the real objects sees after every step
StName(s) == s
ObsF(rd, q, cu, st, pg, ran, err, wait, fp) ==
  [ready |-> rd,
   fp    |-> [c \in CS |-> fp[c]],     \* foreign threads stopped between appendleft and schedule
   q     |-> [c \in CS |-> q[c]],
   st    |-> [c \in CS |-> st[c]],
   cur   |-> IF cu.c = 0 THEN <<>> ELSE <<cu.c, cu.item>>,
   ran   |-> ran,
   pinged |-> pg, err |-> err, wait |-> wait,
   hub   |-> 0]              \* a consumer never registers a timer or a select: it sleeps, it does not poll
Obs(rd, q, cu, st, pg, ran, err, wait) == ObsF(rd, q, cu, st, pg, ran, err, wait, fpend)

Log(a, args, exp) ==
  /\ last' = [a |-> a, args |-> args, exp |-> exp]
  /\ hist' = IF KeepHist THEN Append(hist, [a |-> a, args |-> args, exp |-> exp]) ELSE hist

Init ==
  /\ cst = [c \in CS |-> "none"]
  /\ queue = [c \in CS |-> <<>>]
  /\ ready = <<>>
  /\ cur = NoCur
  /\ sub = [c \in CS |-> 0]
  /\ exe = [c \in CS |-> <<>>]
  /\ pinged = FALSE /\ blocked = FALSE /\ failed = FALSE
  /\ fpend = [c \in CS |-> 0]
  /\ last = [a |-> "Init", args |-> [x |-> 0], exp |-> [x |-> 0]]
  /\ hist = <<>>

\* ---- Scheduler.schedule(task) as called by thread thr; result: <<new deque, did fast_schedule ping the hub>>
\* coop  (the scheduler's own thread): "if task in self._ready: return False" else fast_schedule
\* foreign: a new ScheduleTask is fast_scheduled; it does the test later, on the scheduler's thread
\* Intended design (Strict): a consumer that adds work to ITSELF while it runs does not queue itself - the end
\* of its step does that (yield 0).  As built the running task is not in the deque, so schedule() appends it,
\* and the end of the step appends it again: SelfAddDoubleSchedules.
SelfAdd(c, thr) == thr = "coop" /\ cur.c = c
Wake(c, thr, rd) ==
  IF thr = "foreign" THEN <<Append(rd, ST(c)), TRUE>>
  ELSE IF c \in Rng(rd) THEN <<rd, FALSE>>
  ELSE IF Strict /\ cur.c = c THEN <<rd, FALSE>>
  ELSE <<Append(rd, c), TRUE>>
ThrOK(thr) == thr = "foreign" => NumST(ready) < MaxST
Ping(did) == /\ pinged' = (pinged \/ did)
             /\ blocked' = (blocked /\ ~did)

New(c, start, thr) ==
  /\ cst[c] = "none" /\ ThrOK(thr) /\ thr # "fsplit"
  /\ cst' = [cst EXCEPT ![c] = "live"]
  /\ LET w == IF start THEN Wake(c, thr, ready) ELSE <<ready, FALSE>> IN
     /\ ready' = w[1] /\ Ping(w[2])
     /\ UNCHANGED <<queue, cur, sub, exe, failed, fpend>>
     /\ Log("New", [c |-> c, start |-> start, thr |-> thr, br |-> IF start THEN "started" ELSE "idle"],
            Obs(w[1], queue, cur, cst', pinged', <<>>, "-", FALSE))

\* form: how the item is handed over.  "base": BaseConsumer.add_work(work).  For a FlexConsumer: "flex" =
\* FlexConsumer.add_work(callable, *args, **kw) (the documented way), "raw" = BaseConsumer.add_work(c, (callable,
\* args, kw)) (the super-class method called explicitly - what a user has to do as built).
Forms(c) == IF c \in Flex THEN {"flex", "raw"} ELSE {"base"}
\* first half of a foreign add_work: the item is in the queue, nobody has been told yet
AddWorkSplit(c, thr, form) ==
  /\ queue' = [queue EXCEPT ![c] = Append(@, sub[c] + 1)]
  /\ sub' = [sub EXCEPT ![c] = @ + 1]
  /\ fpend' = [fpend EXCEPT ![c] = @ + 1]
  /\ UNCHANGED <<cst, ready, cur, exe, pinged, blocked, failed>>
  /\ Log("AddWork", [c |-> c, thr |-> thr, form |-> form, br |-> "ForeignAppended"],
         ObsF(ready, queue', cur, cst, pinged, <<>>, "-", FALSE, fpend'))
AddWorkOK(c, thr, form) ==
  /\ queue' = [queue EXCEPT ![c] = Append(@, sub[c] + 1)]
  /\ sub' = [sub EXCEPT ![c] = @ + 1]
  /\ LET w == Wake(c, thr, ready) IN
     /\ ready' = w[1] /\ Ping(w[2])
     /\ UNCHANGED <<cst, cur, exe, failed, fpend>>
     /\ Log("AddWork", [c |-> c, thr |-> thr, form |-> form,
                         br |-> IF thr = "foreign" THEN "ScheduleTask"
                                ELSE IF c \in Rng(ready) THEN "AlreadyReady"
                                ELSE IF cur.c = c THEN (IF Strict THEN "SelfAdd" ELSE "SelfAddDoubleSchedules")
                                ELSE "Scheduled"],
            Obs(w[1], queue', cur, cst, pinged', <<>>, "-", FALSE))
\* deviation: FlexConsumer.add_work passes three positional arguments to BaseConsumer.add_work(self, work)
FlexAddWorkRaises(c, thr, form) ==
  /\ failed' = TRUE
  /\ UNCHANGED <<cst, queue, ready, cur, sub, exe, pinged, blocked, fpend>>
  /\ Log("AddWork", [c |-> c, thr |-> thr, form |-> form, br |-> "FlexAddWorkRaises"],
         Obs(ready, queue, cur, cst, pinged, <<>>, "TypeError", FALSE))
AddWork(c, thr, form) ==
  /\ cst[c] # "none" /\ sub[c] < MaxSub /\ ThrOK(thr) /\ form \in Forms(c)
  /\ thr = "fsplit" => fpend[c] < MaxPend
  /\ IF form = "flex" /\ ~Strict THEN FlexAddWorkRaises(c, thr, form)
     ELSE IF thr = "fsplit" THEN AddWorkSplit(c, thr, form)
     ELSE AddWorkOK(c, thr, form)

\* second half: the foreign thread goes on and calls core.scheduler.schedule(self) -> a ScheduleTask is queued
FSched(c) ==
  /\ fpend[c] > 0 /\ NumST(ready) < MaxST
  /\ fpend' = [fpend EXCEPT ![c] = @ - 1]
  /\ ready' = Append(ready, ST(c)) /\ Ping(TRUE)
  /\ UNCHANGED <<cst, queue, cur, sub, exe, failed>>
  /\ Log("FSched", [c |-> c, br |-> "-"], ObsF(ready', queue, cur, cst, TRUE, <<>>, "-", FALSE, fpend'))

\* consumer.running = False: takes effect when the generator next tests its loop condition, i.e. at its next
\* resumption - a batch in progress is completed (the for loop does not look at the flag)
Stop(c) ==
  /\ cst[c] = "live"
  /\ cst' = [cst EXCEPT ![c] = "stopping"]
  /\ UNCHANGED <<queue, ready, cur, sub, exe, pinged, blocked, failed, fpend>>
  /\ Log("Stop", [c |-> c, br |-> "-"], Obs(ready, queue, cur, cst', pinged, <<>>, "-", FALSE))

\* ---- one Scheduler.cycle(): k tasks sent to the back (priority < 1 and an unlucky draw), then one resumed
IsLo(x) == x \in Lo                      \* a ScheduleTask has the default priority 1
SkipOK(k) == k = 0 \/ (Len(ready) > 1 /\ \A i \in 0..(k - 1) : IsLo(Rot(ready, i)[1]))

\* ScheduleTask.run(): "if self._task in self._scheduler._ready: (nothing) else fast_schedule(task, first=True)"
RunST(c, rest, k) ==
  LET rd == IF c \in Rng(rest) THEN rest ELSE <<c>> \o rest IN
  /\ ready' = rd /\ Ping(c \notin Rng(rest))
  /\ UNCHANGED <<cst, queue, cur, sub, exe, failed, fpend>>
  /\ Log("Cycle", [k |-> k, t |-> ST(c), br |-> IF c \in Rng(rest) THEN "RunSTNoop" ELSE "RunSTWakes"], Obs(rd, queue, cur, cst, pinged', <<>>, "-", FALSE))
\* the consumer finds nothing to do: "yield False" - it sleeps until add_work schedules it
EmptyStep(c, rest, k) ==
  /\ ready' = rest
  /\ UNCHANGED <<cst, queue, cur, sub, exe, pinged, blocked, failed, fpend>>
  /\ Log("Cycle", [k |-> k, t |-> c, br |-> "EmptyStep"], Obs(rest, queue, cur, cst, pinged, <<>>, "-", FALSE))
\* n = min(batch_size, len(queue)) items will be executed in this step; the first one is popped and _do_work entered
BeginBatch(c, rest, k) ==
  LET n == Lesser(Batch[c], Len(queue[c])) IN
  /\ ready' = rest
  /\ cur' = [c |-> c, item |-> Head(queue[c]), left |-> n - 1, n |-> 1]
  /\ queue' = [queue EXCEPT ![c] = Tail(@)]
  /\ UNCHANGED <<cst, sub, exe, pinged, blocked, failed, fpend>>
  /\ Log("Cycle", [k |-> k, t |-> c, br |-> "BeginBatch"], Obs(rest, queue', cur', cst, pinged, <<>>, "-", FALSE))
\* resumed with running = False: the while loop ends, the generator is finished
EndTask(c, rest, k) ==
  /\ ready' = rest
  /\ cst' = [cst EXCEPT ![c] = "dead"]
  /\ UNCHANGED <<queue, cur, sub, exe, pinged, blocked, failed, fpend>>
  /\ Log("Cycle", [k |-> k, t |-> c, br |-> "EndTask"], Obs(rest, queue, cur, cst', pinged, <<>>, "-", FALSE))
\* a finished generator is resumed: StopIteration, the scheduler drops it
DropDead(c, rest, k) ==
  /\ ready' = rest
  /\ UNCHANGED <<cst, queue, cur, sub, exe, pinged, blocked, failed, fpend>>
  /\ Log("Cycle", [k |-> k, t |-> c, br |-> "DropDead"], Obs(rest, queue, cur, cst, pinged, <<>>, "-", FALSE))

CycleAt(rq, k) ==
  LET x == Head(rq)
      rest == Tail(rq) IN
  IF x > 10 THEN RunST(x - 10, rest, k)
  ELSE IF cst[x] = "live" THEN (IF queue[x] = <<>> THEN EmptyStep(x, rest, k) ELSE BeginBatch(x, rest, k))
  ELSE IF cst[x] = "stopping" THEN EndTask(x, rest, k)
  ELSE DropDead(x, rest, k)

Cycle(k) ==
  /\ cur.c = 0 /\ ~blocked /\ ready # <<>> /\ SkipOK(k)
  /\ CycleAt(Rot(ready, k), k)

\* ---- the work item in progress ends with outcome o:
\*   "ok"    _do_work returns
\*   "raise" _do_work raises an Exception, _on_exception returns True: the batch goes on
\*   "halt"  _do_work raises an Exception, _on_exception does not return True: running = False, the batch is
\*           abandoned ("break"), the generator ends at its next resumption
\*   "base"  _do_work raises something that is not an Exception (what SystemExit / KeyboardInterrupt /
\*           GeneratorExit are).  Intended (Strict): contained like "raise".  As built: KilledByBaseException.
EndOfStep(c, st2, o) ==
  LET rd == IF queue[c] = <<>> THEN ready ELSE Append(ready, c) IN      \* yield False / yield 0
  /\ cur' = NoCur /\ cst' = st2 /\ ready' = rd
  /\ UNCHANGED <<queue, sub, pinged, blocked, failed, fpend>>
  /\ Log("Finish", [o |-> o, br |-> IF queue[c] = <<>> THEN "EndOfStepSleep" ELSE "EndOfStepRequeue"],
         Obs(rd, queue, NoCur, st2, pinged, <<[c |-> c, i |-> cur.item, o |-> o]>>, "-", FALSE))
NextItem(c, o) ==
  /\ cur' = [c |-> c, item |-> Head(queue[c]), left |-> cur.left - 1, n |-> cur.n + 1]
  /\ queue' = [queue EXCEPT ![c] = Tail(@)]
  /\ UNCHANGED <<cst, ready, sub, pinged, blocked, failed, fpend>>
  /\ Log("Finish", [o |-> o, br |-> "NextItem"],
         Obs(ready, queue', cur', cst, pinged, <<[c |-> c, i |-> cur.item, o |-> o]>>, "-", FALSE))
\* deviation: the exception leaves run(); Scheduler.cycle() de-schedules the task; what is queued stays queued
KilledByBaseException(c, o) ==
  /\ cur' = NoCur /\ cst' = [cst EXCEPT ![c] = "dead"]
  /\ UNCHANGED <<queue, ready, sub, pinged, blocked, failed, fpend>>
  /\ Log("Finish", [o |-> o, br |-> "KilledByBaseException"],
         Obs(ready, queue, NoCur, cst', pinged, <<[c |-> c, i |-> cur.item, o |-> o]>>, "-", FALSE))
Finish(o) ==
  /\ cur.c # 0
  /\ LET c == cur.c IN
     /\ exe' = [exe EXCEPT ![c] = Append(@, cur.item)]
     /\ IF o = "base" /\ ~Strict THEN KilledByBaseException(c, o)
        ELSE IF o = "halt" THEN EndOfStep(c, [cst EXCEPT ![c] = "stopping"], o)
        ELSE IF cur.left > 0 THEN NextItem(c, o)
        ELSE EndOfStep(c, cst, o)

\* ---- Scheduler.run(): "if len(self._ready) == 0: self._selectHub.idle()" - one pass of the hub.  The wake-up
\* byte written by fast_schedule() makes select() return at once; without it the scheduler waits.
Idle ==
  /\ cur.c = 0 /\ ready = <<>> /\ ~blocked
  /\ pinged' = FALSE /\ blocked' = ~pinged
  /\ UNCHANGED <<cst, queue, ready, cur, sub, exe, failed, fpend>>
  /\ Log("Idle", [x |-> 0, br |-> IF pinged THEN "Woken" ELSE "Waits"], Obs(ready, queue, cur, cst, FALSE, <<>>, "-", ~pinged))

NextNew     == \E c \in CS, s \in BOOLEAN, t \in Thrs : New(c, s, t)
NextAddWork == \E c \in CS, t \in Thrs, f \in {"base", "flex", "raw"} : AddWork(c, t, f)
NextStop    == \E c \in CS : Stop(c)
NextFSched  == \E c \in CS : FSched(c)
NextCycle   == \E k \in 0..MaxSkip : Cycle(k)
NextFinish  == \E o \in Outcomes : Finish(o)
Next == NextNew \/ NextAddWork \/ NextFSched \/ NextStop \/ NextCycle \/ NextFinish \/ Idle

Spec == Init /\ [][Next]_vars
\* liveness: the scheduler keeps cycling and work items end; nothing is assumed about the environment
FairSpec == Spec /\ WF_vars(NextCycle) /\ WF_vars(NextFinish) /\ WF_vars(NextFSched)     \* (a thread that was pre-empted goes on)

----------------------------------------------------------------------------
(* The properties, over the real variables.                                   *)

States == {"none", "live", "stopping", "dead"}
TypeOK ==
  /\ cst \in [CS -> States]
  /\ \A c \in CS : sub[c] \in 0..MaxSub /\ Len(queue[c]) <= MaxSub /\ Len(exe[c]) <= MaxSub
  /\ \A i \in DOMAIN ready : ready[i] \in CS \cup {ST(c) : c \in CS}
  /\ cur.c \in {0} \cup CS
  /\ pinged \in BOOLEAN /\ blocked \in BOOLEAN /\ failed \in BOOLEAN
  /\ fpend \in [CS -> 0..MaxPend]

\* every item is executed at most once and in submission order (items are numbered in submission order)
ExactlyOnceInOrder == \A c \in CS : exe[c] = UpTo(Len(exe[c]))
\* conservation: whatever was submitted is executed, in progress, or still queued, in that order - also when
\* items raised, when the batch was abandoned, and after the consumer stopped
Pending(c) == (IF cur.c = c THEN <<cur.item>> ELSE <<>>) \o queue[c]
NothingLost == \A c \in CS : exe[c] \o Pending(c) = UpTo(sub[c])
\* at most batch_size items per scheduling
BatchBound == cur.c # 0 => cur.n <= Batch[cur.c] /\ cur.n + cur.left <= Batch[cur.c]
\* no lost wake-up: a live consumer with work is running, in the deque, a ScheduleTask for it is, or the foreign
\* thread that queued the work is just about to call schedule()
WorkImpliesScheduled ==
  \A c \in CS : (cst[c] = "live" /\ queue[c] # <<>>) =>
     (cur.c = c \/ c \in Rng(ready) \/ ST(c) \in Rng(ready) \/ fpend[c] > 0)
\* ... and the scheduler is not asleep while something is ready (the wake-up byte was written)
NoLostWakeup == ~(blocked /\ ready # <<>>)
\* a task is in the deque at most once (intended design only: see SelfAddDoubleSchedules)
AtMostOnceReady == \A c \in CS : Count(ready, c) <= 1
\* as built the damage is bounded: never more than twice
AtMostTwiceReady == \A c \in CS : Count(ready, c) <= 2
\* a consumer whose step found or left the queue empty sleeps: it is not put back into the deque (no polling)
SleepsWhenIdle ==
  [][\A c \in CS :
       (/\ cur'.c = 0 /\ queue'[c] = <<>>
        /\ \/ (cur.c = c)                                               \* its step ends here
           \/ (cur.c = 0 /\ ready # <<>> /\ Len(ready') < Len(ready)))  \* a cycle that resumed and finished someone
       => Count(ready', c) <= Count(ready, c)]_vars
\* a stopped / dead consumer starts no new batch
StoppedStartsNothing ==
  [][\A c \in CS : (cur.c = 0 /\ cur'.c = c) => cst[c] = "live"]_vars
\* items start only through the scheduler: one at a time
OneAtATime == [][(cur.c # 0 /\ cur'.c # 0) => cur'.c = cur.c]_vars
\* whoever makes the deque longer has written the wake-up byte - except the scheduler itself when it re-queues
\* the task it has just run
WakeSignalled ==
  [][(Len(ready') > Len(ready) /\ ~(cur.c # 0 /\ cur'.c = 0)) => pinged']_vars
\* intended design only: what is queued at a live consumer gets executed
EveryItemExecuted ==
  \A c \in CS : (cst[c] = "live" /\ queue[c] # <<>>) ~> (queue[c] = <<>> \/ cst[c] = "stopping")
\* intended design only: a consumer only ever stops because it was told to (Stop, _on_exception)
DiesOnlyWhenStopped == [][\A c \in CS : cst'[c] = "dead" => cst[c] \in {"stopping", "dead"}]_vars

\* intended design only: no public call fails
NoApiError == ~failed

\* ---- export for the replay harness
Bound   == Len(hist) <= D
Export  == (Len(hist) = D) => PrintT(<<"H", ToJson(hist)>>)
ExportT == PrintT(<<"T", ToJson(hist')>>)
=============================================================================
