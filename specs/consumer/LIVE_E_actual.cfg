CONSTANTS NE = 1
  MaxEv = 3
  MaxST = 1
  Hows <- HowsPO
  Ops <- OpsAll
  Gets <- GetsAll
  Thrs <- ThrAll
  WithOther = FALSE
  Strict = FALSE
  KeepHist = FALSE
  D = 0
SPECIFICATION FairSpec
PROPERTY EventuallyResumed
CHECK_DEADLOCK FALSE
