CONSTANTS NC = 1
  Batch <- B2
  Lo <- None
  Flex <- None
  MaxSub = 3
  MaxST = 1
  MaxSkip = 0
  MaxPend = 1
  Outcomes <- OutAll
  Thrs <- ThrAll
  Strict = TRUE
  KeepHist = FALSE
  D = 0
SPECIFICATION FairSpec
PROPERTY EveryItemExecuted
CHECK_DEADLOCK FALSE
