CONSTANTS NE = 2
  MaxEv = 3
  MaxST = 2
  Hows <- HowsPO
  Ops <- OpsAll
  Gets <- GetsAll
  Thrs <- ThrAll
  WithOther = FALSE
  Strict = FALSE
  KeepHist = TRUE
  D = 0
INIT Init
NEXT Next
VIEW view
ACTION_CONSTRAINT ExportT
CHECK_DEADLOCK FALSE
