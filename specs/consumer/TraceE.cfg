CONSTANTS NE = 2
  MaxEv = 99
  MaxST = 99
  Hows <- HowsAll
  Ops <- OpsAll
  Gets <- GetsAll
  Thrs <- ThrAll
  WithOther = TRUE
  Strict = FALSE
  KeepHist = TRUE
  D = 0
INIT TrInit
NEXT TrNext
CONSTRAINT Progress
POSTCONDITION Accepted
INVARIANT TypeOK
INVARIANT ExactlyThoseEvents
INVARIANT NeverResumedEmpty
INVARIANT NoLostWakeup
INVARIANT NoSpuriousWake
INVARIANT AtMostOnceReady
INVARIANT ArmedOnlyWhileWaiting
CHECK_DEADLOCK FALSE
