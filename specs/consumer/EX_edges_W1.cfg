CONSTANTS NC = 1
  Batch <- B2
  Lo <- None
  Flex <- None
  MaxSub = 4
  MaxST = 2
  MaxSkip = 0
  MaxPend = 1
  Outcomes <- OutAll
  Thrs <- ThrAll
  Strict = FALSE
  KeepHist = TRUE
  D = 0
INIT Init
NEXT Next
VIEW view
ACTION_CONSTRAINT ExportT
CHECK_DEADLOCK FALSE
