CONSTANTS NC = 2
  Batch <- B12
  Lo <- C2
  Flex <- C2
  MaxSub = 3
  MaxST = 1
  MaxSkip = 2
  MaxPend = 1
  Outcomes <- OutAll
  Thrs <- ThrSplit
  Strict = FALSE
  KeepHist = TRUE
  D = 0
INIT Init
NEXT Next
VIEW view
INVARIANT TypeOK
INVARIANT ExactlyOnceInOrder
INVARIANT NothingLost
INVARIANT BatchBound
INVARIANT WorkImpliesScheduled
INVARIANT NoLostWakeup
INVARIANT AtMostTwiceReady
PROPERTY SleepsWhenIdle
PROPERTY StoppedStartsNothing
PROPERTY OneAtATime
PROPERTY WakeSignalled
CHECK_DEADLOCK FALSE
