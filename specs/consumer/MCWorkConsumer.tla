---- MODULE MCWorkConsumer ----
EXTENDS WorkConsumer
B2 == <<2>>
B1 == <<1>>
B3 == <<3>>
B12 == <<1, 2>>
B21 == <<2, 1>>
B23 == <<2, 3>>
None == {}
C1 == {1}
C2 == {2}
C12 == {1, 2}
OutAll == {"ok", "raise", "halt", "base"}
OutNoBase == {"ok", "raise", "halt"}
OutOkRaise == {"ok", "raise"}
OutOk == {"ok"}
OutOkBase == {"ok", "base"}
ThrBoth == {"coop", "foreign"}
ThrCoop == {"coop"}
ThrForeign == {"foreign"}
ThrAll == {"coop", "foreign", "fsplit"}
ThrSplit == {"coop", "fsplit"}
====
