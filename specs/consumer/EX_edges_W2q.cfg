CONSTANTS NC = 2
  Batch <- B12
  Lo <- C2
  Flex <- C2
  MaxSub = 2
  MaxST = 1
  MaxSkip = 1
  MaxPend = 1
  Outcomes <- OutAll
  Thrs <- ThrBoth
  Strict = FALSE
  KeepHist = TRUE
  D = 0
INIT Init
NEXT Next
VIEW view
ACTION_CONSTRAINT ExportT
CHECK_DEADLOCK FALSE
