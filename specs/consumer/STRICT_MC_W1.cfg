CONSTANTS NC = 1
  Batch <- B2
  Lo <- None
  Flex <- None
  MaxSub = 4
  MaxST = 2
  MaxSkip = 0
  MaxPend = 1
  Outcomes <- OutAll
  Thrs <- ThrAll
  Strict = TRUE
  KeepHist = TRUE
  D = 0
INIT Init
NEXT Next
VIEW view
INVARIANT TypeOK
INVARIANT ExactlyOnceInOrder
INVARIANT NothingLost
INVARIANT BatchBound
INVARIANT WorkImpliesScheduled
INVARIANT NoLostWakeup
INVARIANT AtMostTwiceReady
PROPERTY SleepsWhenIdle
PROPERTY StoppedStartsNothing
PROPERTY OneAtATime
PROPERTY WakeSignalled
CHECK_DEADLOCK FALSE
INVARIANT AtMostOnceReady
INVARIANT NoApiError
PROPERTY DiesOnlyWhenStopped
