CONSTANTS NE = 2
  MaxEv = 4
  MaxST = 2
  Hows <- HowsAll
  Ops <- OpsAll
  Gets <- GetsAll
  Thrs <- ThrAll
  WithOther = TRUE
  Strict = TRUE
  KeepHist = TRUE
  D = 0
INIT Init
NEXT Next
VIEW view
INVARIANT TypeOK
INVARIANT ExactlyThoseEvents
INVARIANT NeverResumedEmpty
INVARIANT NoLostWakeup
INVARIANT NoSpuriousWake
INVARIANT AtMostOnceReady
INVARIANT ArmedOnlyWhileWaiting
PROPERTY OneTakesOne
PROPERTY AllTakesAll
PROPERTY ResumedBySchedulerOnly
CHECK_DEADLOCK FALSE
INVARIANT TaskSurvives
INVARIANT NoApiError
