CONSTANTS N = 2
  FrameLen <- LFrameLen
  Ports <- LPorts
  MissLens <- LMissLens
  MaxLens <- LMaxLens
  ListsPO <- MCListsPO
  ListsFM <- MCListsFM
  D = 3
INIT Init
NEXT Next
VIEW viewE
ACTION_CONSTRAINT ExportT
CHECK_DEADLOCK FALSE
