CONSTANTS N = 3
  FrameLen <- MCFrameLen
  Ports <- MCPorts
  MissLens <- MCMissLens
  MaxLens <- MCMaxLens
  ListsPO <- MCListsPO
  ListsFM <- MCListsFM
  D = 0
INIT TrInit
NEXT TrNext
CONSTRAINT Progress
POSTCONDITION Accepted
INVARIANT TypeOK
INVARIANT Bounded
INVARIANT PacketInOK
CHECK_DEADLOCK FALSE
