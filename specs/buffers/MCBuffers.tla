---- MODULE MCBuffers ----
EXTENDS Buffers
MCFrameLen == [a |-> 60, b |-> 200]
MCPorts == 1..3
MCMissLens == {0, 128, 65535}
MCMaxLens == {64, 65535}
NoLists == {}
MCListsPO == { <<"ctl">>, <<"table">>, <<"ctl", "rw", "out2">>, <<"rw", "ctl", "flood">>,
               <<"table", "rw", "inport">>, <<"rw", "table">>, <<"ctl", "ctl">>, <<"out2", "rw", "out2">>,
               <<"ctl", "table">> }
MCListsFM == { <<"ctl">>, <<"ctl", "rw", "out2">>, <<"rw", "ctl", "flood">>, <<"ctl", "ctl">>,
               <<"out2", "rw", "all">>, <<"inport", "ctl">> }
\* reduced constants for the edge cover with lists
LFrameLen == [b |-> 200]
LPorts == 1..2
LMissLens == {128}
L2MissLens == {0, 128}
LMaxLens == {64}
====
