---- MODULE MCBuffers ----
EXTENDS Buffers
MCFrameLen == [a |-> 60, b |-> 200]
MCPorts == 1..3
MCMissLens == {0, 128, 65535}
MCMaxLens == {64, 65535}
====
