CONSTANTS N = 2
  FrameLen <- LFrameLen
  Ports <- MCPorts
  MissLens <- L2MissLens
  MaxLens <- LMaxLens
  ListsPO <- MCListsPO
  ListsFM <- MCListsFM
  D = 3
INIT Init
NEXT Next
VIEW view
INVARIANT TypeOK
INVARIANT Bounded
INVARIANT PacketInOK
PROPERTY NeverOverwritten
PROPERTY NoBufferIffFull
PROPERTY UsedExactlyOnce
CHECK_DEADLOCK FALSE
