CONSTANTS N = 4
  FrameLen <- MCFrameLen
  Ports <- MCPorts
  MissLens <- MCMissLens
  MaxLens <- MCMaxLens
  ListsPO <- MCListsPO
  ListsFM <- MCListsFM
  D = 60
INIT Init
NEXT Next
INVARIANT Export
CHECK_DEADLOCK FALSE
