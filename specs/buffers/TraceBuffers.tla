---- MODULE TraceBuffers ----
(* Code -> spec: traces recorded from the real switch (random driver) must  *)
(* be behaviours of Buffers.tla; every invariant is evaluated at each step. *)
EXTENDS MCBuffers, IOUtils, TLCExt, SequencesExt

Traces == JsonDeserialize(IOEnv.TRACE_FILE)
NT == Len(Traces)
VARIABLES tid, l
tvars == <<vars, tid, l>>

TrInit == Init /\ tid \in 1..NT /\ l = 1 /\ TLCSet(tid, 0)
Ev == Traces[tid][l]
IsEvent(e) == l <= Len(Traces[tid]) /\ Ev.a = e /\ l' = l + 1 /\ UNCHANGED tid

TrToController ==
  /\ IsEvent("ToController")
  /\ IF Ev.args.reason = "miss" THEN Miss(Ev.args.f, Ev.args.p)
     ELSE CtrlAction(Ev.args.f, Ev.args.p, Ev.args.maxLen)
  /\ Ev.wf
  /\ last'.exp = [buf |-> Ev.obs.buf, total |-> Ev.obs.total, dataLen |-> Ev.obs.dataLen,
                  inport |-> Ev.obs.inport, reason |-> Ev.obs.reason]
TrUse(k) ==
  /\ IsEvent(k)
  /\ Use(k, Ev.args.buf, Ev.args.act, Ev.args.how)
  /\ Ev.wf
  /\ last'.exp.emitted = ToSet(Ev.obs.emitted)
TrPacketOutData ==
  /\ IsEvent("PacketOutData")
  /\ PacketOutData(Ev.args.f, Ev.args.p, Ev.args.act)
  /\ Ev.wf
  /\ last'.exp.emitted = ToSet(Ev.obs.emitted)
TrMissViaTable ==
  /\ IsEvent("MissViaTable")
  /\ MissViaTable(Ev.args.f, Ev.args.p)
  /\ Ev.wf
  /\ last'.exp = [buf |-> Ev.obs.buf, total |-> Ev.obs.total, dataLen |-> Ev.obs.dataLen,
                  inport |-> Ev.obs.inport, reason |-> Ev.obs.reason, emitted |-> ToSet(Ev.obs.emitted)]
\* a packet-in with fewer than 14 octets of data does not say which frame it is (logged as tag "?")
PinsMatch(ps, os) ==
  /\ Len(ps) = Len(os)
  /\ \A i \in DOMAIN ps :
        /\ ps[i].buf = os[i].buf /\ ps[i].total = os[i].total /\ ps[i].dataLen = os[i].dataLen
        /\ ps[i].inport = os[i].inport /\ ps[i].reason = os[i].reason
        /\ (os[i].tag # "?" => ps[i].tag = os[i].tag /\ ps[i].k = os[i].k)
TrUseL(k) ==
  /\ IsEvent(k \o "L")
  /\ UseL(k, Ev.args.buf, Ev.args.acts, Ev.args.how)
  /\ Ev.wf
  /\ last'.exp.emitted = ToSet(Ev.obs.emitted) /\ PinsMatch(last'.exp.pins, Ev.obs.pins)
TrPacketOutDataL ==
  /\ IsEvent("PacketOutDataL")
  /\ PacketOutDataL(Ev.args.f, Ev.args.p, Ev.args.acts)
  /\ Ev.wf
  /\ last'.exp.emitted = ToSet(Ev.obs.emitted) /\ PinsMatch(last'.exp.pins, Ev.obs.pins)
TrRxL ==
  /\ IsEvent("RxL")
  /\ RxL(Ev.args.f, Ev.args.p, Ev.args.acts)
  /\ Ev.wf
  /\ last'.exp.emitted = ToSet(Ev.obs.emitted) /\ PinsMatch(last'.exp.pins, Ev.obs.pins)
TrSetConfig ==
  /\ IsEvent("SetConfig") /\ SetConfig(Ev.args.missLen) /\ Ev.wf

TrFeatures ==
  /\ IsEvent("Features") /\ Features /\ Ev.wf /\ last'.exp.nbuf = Ev.obs.nbuf

TrNext == TrFeatures \/ TrMissViaTable \/ TrToController \/ TrUse("PacketOut") \/ TrUse("FlowMod") \/ TrPacketOutData \/ TrSetConfig
          \/ TrUseL("PacketOut") \/ TrUseL("FlowMod") \/ TrPacketOutDataL \/ TrRxL
TrSpec == TrInit /\ [][TrNext]_tvars

Progress == TLCSet(tid, IF TLCGet(tid) < l - 1 THEN l - 1 ELSE TLCGet(tid))
Ok(t) == TLCGet(t) = Len(Traces[t]) \/ (PrintT(<<"REJECT", t, TLCGet(t)>>) /\ FALSE)
Accepted == /\ PrintT(<<"TRACES-CHECKED", NT>>)
            /\ Cardinality({t \in 1..NT : ~Ok(t)}) = 0
====
