---------------------------- MODULE Buffers ----------------------------
(* C18: packet buffers of the OpenFlow 1.0 software switch.                 *)
(*                                                                          *)
(* Abstract state: a pool of N slots, each free or holding (frame, ingress  *)
(* port); the configured miss_send_len.  One action per way the pool is     *)
(* touched: a frame reaching the controller (table miss / output:CONTROLLER *)
(* action), PACKET_OUT or FLOW_MOD naming a buffer id, PACKET_OUT carrying  *)
(* its own data, SET_CONFIG.  Every action logs what an observer on the     *)
(* OpenFlow channel and on the ports must see (`last`, appended to `hist`   *)
(* for export to the replay harness).                                       *)
(*                                                                          *)
(* Buffer ids are symmetric: the spec allocates the lowest free slot, the   *)
(* replay adapter binds whatever id the code hands out to that slot.        *)
EXTENDS Naturals, Sequences, FiniteSets, TLC, Json

CONSTANTS N,          \* advertised number of buffers (max_buffers)
          FrameLen,   \* [frame id -> length in bytes]
          Ports,      \* physical ports of the switch
          MissLens,   \* values SET_CONFIG may install
          MaxLens,    \* max_len values of output:CONTROLLER flows
          D           \* export depth

Frames == DOMAIN FrameLen
Free == [f |-> "free", p |-> 0]
Slot(f, p) == [f |-> f, p |-> p]
Slots == {Free} \cup {Slot(f, p) : f \in Frames, p \in Ports}

\* what a buffer user asks the switch to do with the stored frame
Acts == {"none", "out2", "flood", "inport", "all"}
BogusIds == {0, N + 1, N + 7}

VARIABLES pool,      \* [1..N -> Slots]
          missLen,   \* configured miss_send_len
          last,      \* observation of the last action
          hist       \* all observations (export only; hidden by VIEW)
vars == <<pool, missLen, last, hist>>
view == <<pool, missLen, last>>
viewE == <<pool, missLen>>

Occupied == {s \in 1..N : pool[s] # Free}
FreeSlots == (1..N) \ Occupied
MinOf(S) == CHOOSE x \in S : \A y \in S : x <= y
Lesser(a, b) == IF a < b THEN a ELSE b

\* ports a frame that came in on p leaves through, for a buffer user's action
Emit(act, p) ==
  CASE act = "none"   -> {}
    [] act = "out2"   -> IF p = 2 THEN {} ELSE {2}       \* never back out the ingress port
    [] act = "flood"  -> Ports \ {p}
    [] act = "all"    -> Ports \ {p}
    [] act = "inport" -> {p}

NoObs == [a |-> "Init", args |-> [x |-> 0], exp |-> [x |-> 0]]

Init == /\ pool = [s \in 1..N |-> Free]
        /\ missLen = 128
        /\ last = NoObs
        /\ hist = <<>>

Log(a, args, exp) ==
  /\ last' = [a |-> a, args |-> args, exp |-> exp]
  /\ hist' = Append(hist, [a |-> a, args |-> args, exp |-> exp])

\* A frame is handed to the controller.
ToController(f, p, reason, maxLen) ==
  IF FreeSlots = {}
  THEN /\ UNCHANGED pool
       /\ Log("ToController",
              [f |-> f, p |-> p, reason |-> reason, maxLen |-> maxLen],
              [buf |-> 0, total |-> FrameLen[f], dataLen |-> FrameLen[f],
               inport |-> p, reason |-> reason])
  ELSE LET s == MinOf(FreeSlots) IN
       /\ pool' = [pool EXCEPT ![s] = Slot(f, p)]
       /\ Log("ToController",
              [f |-> f, p |-> p, reason |-> reason, maxLen |-> maxLen],
              [buf |-> s, total |-> FrameLen[f],
               dataLen |-> Lesser(FrameLen[f], maxLen),
               inport |-> p, reason |-> reason])

Miss(f, p)           == ToController(f, p, "miss", missLen) /\ UNCHANGED missLen
CtrlAction(f, p, ml) == ToController(f, p, "action", ml) /\ UNCHANGED missLen

\* PACKET_OUT / FLOW_MOD naming buffer s.  Occupied: the stored frame leaves
\* through act (relative to ITS ingress port) and the slot is freed.
\* Free / never issued: nothing is emitted and nothing changes.
Use(kind, s, act) ==
  /\ UNCHANGED missLen
  /\ IF s \in 1..N /\ pool[s] # Free
     THEN /\ pool' = [pool EXCEPT ![s] = Free]
          /\ Log(kind, [buf |-> s, act |-> act],
                 [emitted |-> {<<q, pool[s].f>> : q \in Emit(act, pool[s].p)}])
     ELSE /\ UNCHANGED pool
          /\ Log(kind, [buf |-> s, act |-> act], [emitted |-> {}])

\* PACKET_OUT carrying its own data and no buffer id: pool untouched.
PacketOutData(f, p, act) ==
  /\ UNCHANGED <<pool, missLen>>
  /\ Log("PacketOutData", [f |-> f, p |-> p, act |-> act],
         [emitted |-> {<<q, f>> : q \in Emit(act, p)}])

\* PACKET_OUT carrying its own data with actions [output:TABLE, set_dl_dst(Z), output:2]: the table lookup
\* misses, so the frame goes to the controller (and is buffered) AS IT IS AT THAT POINT; the later rewrite
\* and output act on the packet being processed, not on the stored one.
MissViaTable(f, p) ==
  /\ UNCHANGED missLen
  /\ LET out2 == IF p = 2 THEN {} ELSE {<<2, "Z" \o f>>} IN
     IF FreeSlots = {}
     THEN /\ UNCHANGED pool
          /\ Log("MissViaTable", [f |-> f, p |-> p],
                 [buf |-> 0, total |-> FrameLen[f], dataLen |-> FrameLen[f], inport |-> p,
                  reason |-> "miss", emitted |-> out2])
     ELSE LET s == MinOf(FreeSlots) IN
          /\ pool' = [pool EXCEPT ![s] = Slot(f, p)]
          /\ Log("MissViaTable", [f |-> f, p |-> p],
                 [buf |-> s, total |-> FrameLen[f], dataLen |-> Lesser(FrameLen[f], missLen), inport |-> p,
                  reason |-> "miss", emitted |-> out2])

SetConfig(ml) ==
  /\ missLen' = ml /\ UNCHANGED pool
  /\ Log("SetConfig", [missLen |-> ml], [x |-> 0])

Next == \/ \E f \in Frames, p \in Ports : Miss(f, p)
        \/ \E f \in Frames, p \in Ports, ml \in MaxLens : CtrlAction(f, p, ml)
        \/ \E k \in {"PacketOut", "FlowMod"}, s \in (1..N) \cup BogusIds,
              a \in Acts : Use(k, s, a)
        \/ \E f \in Frames, p \in Ports, a \in Acts : PacketOutData(f, p, a)
        \/ \E f \in Frames, p \in Ports : MissViaTable(f, p)
        \/ \E ml \in MissLens : SetConfig(ml)

Spec == Init /\ [][Next]_vars

----------------------------------------------------------------------------
(* The property, over the real variables.                                   *)

TypeOK  == pool \in [1..N -> Slots] /\ missLen \in MissLens \cup {128}
Bounded == Cardinality(Occupied) <= N

\* a packet-in always carries the true total length; the whole frame when not
\* buffered, at most maxLen bytes when buffered
PacketInOK ==
  last.a \in {"ToController", "MissViaTable"} =>
    /\ last.exp.total = FrameLen[last.args.f]
    /\ (last.exp.buf = 0 => last.exp.dataLen = last.exp.total)
    /\ (last.exp.buf # 0 => /\ (last.a = "ToController" => last.exp.dataLen <= last.args.maxLen)
                            /\ last.exp.dataLen <= last.exp.total
                            /\ pool[last.exp.buf] = Slot(last.args.f, last.args.p))

\* an id is handed out only for a slot that was free: an outstanding id keeps
\* identifying the same stored packet until it is used
NeverOverwritten ==
  [][\A s \in 1..N : pool[s] # Free => pool'[s] \in {pool[s], Free}]_vars

\* no buffer id <=> pool was full
NoBufferIffFull ==
  [][last'.a \in {"ToController", "MissViaTable"} =>
       ((last'.exp.buf = 0) <=> (FreeSlots = {}))]_vars

\* using an id emits iff it was outstanding, emits exactly the stored frame,
\* and frees exactly that slot
UsedExactlyOnce ==
  [][(last'.a \in {"PacketOut", "FlowMod"}) =>
       LET s == last'.args.buf IN
       IF s \in 1..N /\ pool[s] # Free
       THEN /\ pool'[s] = Free
            /\ \A t \in (1..N) \ {s} : pool'[t] = pool[t]
            /\ \A e \in last'.exp.emitted : e[2] = pool[s].f /\ e[1] \in Ports
            /\ (last'.args.act \in {"flood", "all"} =>
                  {e[1] : e \in last'.exp.emitted} = Ports \ {pool[s].p})
       ELSE /\ last'.exp.emitted = {} /\ pool' = pool]_vars

\* ---- export for the replay harness
Bound   == Len(hist) <= D
Export  == (Len(hist) = D) => PrintT(<<"H", ToJson(hist)>>)
ExportT == PrintT(<<"T", ToJson(hist')>>)
=============================================================================
