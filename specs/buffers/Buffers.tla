---------------------------- MODULE Buffers ----------------------------
(* C18: packet buffers of the OpenFlow 1.0 software switch.                 *)
(*                                                                          *)
(* Abstract state: a pool of N slots, each free or holding (frame, ingress  *)
(* port); the configured miss_send_len.  One action per way the pool is     *)
(* touched: a frame reaching the controller (table miss / output:CONTROLLER *)
(* action), PACKET_OUT or FLOW_MOD naming a buffer id, PACKET_OUT carrying  *)
(* its own data, SET_CONFIG.  Every action logs what an observer on the     *)
(* OpenFlow channel and on the ports must see (`last`, appended to `hist`   *)
(* for export to the replay harness).                                       *)
(*                                                                          *)
(* Buffer ids are symmetric: the spec allocates the lowest free slot, the   *)
(* replay adapter binds whatever id the code hands out to that slot.        *)
EXTENDS Naturals, Sequences, FiniteSets, TLC, Json, SequencesExt

CONSTANTS N,          \* advertised number of buffers (max_buffers)
          FrameLen,   \* [frame id -> length in bytes]
          Ports,      \* physical ports of the switch
          MissLens,   \* values SET_CONFIG may install
          MaxLens,    \* max_len values of output:CONTROLLER flows
          ListsPO,    \* action lists a PACKET_OUT may carry (sequences over Prims)
          ListsFM,    \* action lists of flows / FLOW_MODs (no output:TABLE)
          D           \* export depth

Frames == DOMAIN FrameLen
\* What a frame on the wire is, as far as this property can tell frames apart: which test frame (f), whether
\* its destination address has been rewritten by a set_dl_dst action (z), and its class k, which decides what
\* the flow table does with it: 0 = no entry matches, 1 = matched only by the entry an RxL step installs for
\* itself, ml \in MaxLens = matched by the standing entry "output:CONTROLLER(max_len = ml)".
Classes == {0, 1} \cup MaxLens
Content(f, z, k) == [f |-> f, z |-> z, k |-> k]
Contents == [f : Frames, z : BOOLEAN, k : Classes]
Tag(c) == IF c.z THEN "Z" \o c.f ELSE c.f
CLen(c) == FrameLen[c.f]          \* rewriting an address does not change the length
Free == [c |-> Content("free", FALSE, 0), p |-> 0]
Slot(c, p) == [c |-> c, p |-> p]
Slots == {Free} \cup {Slot(c, p) : c \in Contents, p \in Ports}
\* primitive actions of an action list
Prims == {"out2", "flood", "inport", "all", "ctl", "table", "rw"}
CtlLen == 96                      \* max_len of an output:CONTROLLER action inside a list

\* what a buffer user asks the switch to do with the stored frame
Acts == {"none", "out2", "flood", "inport", "all"}
BogusIds == {0, N + 1, N + 7}

VARIABLES pool,      \* [1..N -> Slots]
          missLen,   \* configured miss_send_len
          last,      \* observation of the last action
          hist       \* all observations (export only; hidden by VIEW)
vars == <<pool, missLen, last, hist>>
view == <<pool, missLen, last>>
viewE == <<pool, missLen>>

Occupied == {s \in 1..N : pool[s] # Free}
FreeSlots == (1..N) \ Occupied
MinOf(S) == CHOOSE x \in S : \A y \in S : x <= y
Lesser(a, b) == IF a < b THEN a ELSE b

\* ports a frame that came in on p leaves through, for a buffer user's action
Emit(act, p) ==
  CASE act = "none"   -> {}
    [] act = "out2"   -> IF p = 2 THEN {} ELSE {2}       \* never back out the ingress port
    [] act = "flood"  -> Ports \ {p}
    [] act = "all"    -> Ports \ {p}
    [] act = "inport" -> {p}
\* an emission as an observer on the ports sees it: port, which frame, its class
Em(q, c) == <<q, Tag(c), c.k>>

NoObs == [a |-> "Init", args |-> [x |-> 0], exp |-> [x |-> 0]]

Init == /\ pool = [s \in 1..N |-> Free]
        /\ missLen = 128
        /\ last = NoObs
        /\ hist = <<>>

Log(a, args, exp) ==
  /\ last' = [a |-> a, args |-> args, exp |-> exp]
  /\ hist' = Append(hist, [a |-> a, args |-> args, exp |-> exp])

\* A frame is handed to the controller.
ToController(f, p, reason, maxLen) ==
  LET c == Content(f, FALSE, IF reason = "miss" THEN 0 ELSE maxLen) IN
  IF FreeSlots = {}
  THEN /\ UNCHANGED pool
       /\ Log("ToController",
              [f |-> f, p |-> p, reason |-> reason, maxLen |-> maxLen],
              [buf |-> 0, total |-> FrameLen[f], dataLen |-> FrameLen[f],
               inport |-> p, reason |-> reason])
  ELSE LET s == MinOf(FreeSlots) IN
       /\ pool' = [pool EXCEPT ![s] = Slot(c, p)]
       /\ Log("ToController",
              [f |-> f, p |-> p, reason |-> reason, maxLen |-> maxLen],
              [buf |-> s, total |-> FrameLen[f],
               dataLen |-> Lesser(FrameLen[f], maxLen),
               inport |-> p, reason |-> reason])

Miss(f, p)           == ToController(f, p, "miss", missLen) /\ UNCHANGED missLen
CtrlAction(f, p, ml) == ToController(f, p, "action", ml) /\ UNCHANGED missLen

\* PACKET_OUT / FLOW_MOD naming buffer s.  Occupied: the stored frame leaves
\* through act (relative to ITS ingress port) and the slot is freed.
\* Free / never issued: nothing is emitted and nothing changes.
\* how: the form of the message that names the buffer.  For a FLOW_MOD the buffered packet is handled the
\* same way whatever the command does to the table (OpenFlow 1.0 5.3.3: buffer_id is meaningful for ADD and
\* both MODIFY commands): "add" a new entry, "addsame" replace an identical one, "mod" / "modstrict" rewrite
\* an existing entry, "modnew" / "modstrictnew" find none and add.  A PACKET_OUT has one form ("-").
FmHows == {"add", "addsame", "mod", "modnew", "modstrict", "modstrictnew"}
Hows(kind) == IF kind = "FlowMod" THEN FmHows ELSE {"-"}
\* The form does not change the outcome, so exploring all six at every step would only multiply the graph.
\* Next uses ONE form per step, picked by a function of the state that runs through all of them (a
\* concretisation defined here, in the spec, so that the exported behaviours carry it); the trace spec
\* accepts whatever form the recorded step used.
HowSeq == <<"add", "addsame", "mod", "modnew", "modstrict", "modstrictnew">>
PickHow(kind, s, n) ==
  IF kind = "FlowMod" THEN HowSeq[((s + n + Cardinality(FreeSlots) + (missLen % 7)) % 6) + 1] ELSE "-"
Use(kind, s, act, how) ==
  /\ UNCHANGED missLen
  /\ IF s \in 1..N /\ pool[s] # Free
     THEN /\ pool' = [pool EXCEPT ![s] = Free]
          /\ Log(kind, [buf |-> s, act |-> act, how |-> how],
                 [emitted |-> {Em(q, pool[s].c) : q \in Emit(act, pool[s].p)}])
     ELSE /\ UNCHANGED pool
          /\ Log(kind, [buf |-> s, act |-> act, how |-> how], [emitted |-> {}])

\* PACKET_OUT carrying its own data and no buffer id: pool untouched.
PacketOutData(f, p, act) ==
  /\ UNCHANGED <<pool, missLen>>
  /\ Log("PacketOutData", [f |-> f, p |-> p, act |-> act],
         [emitted |-> {Em(q, Content(f, FALSE, 0)) : q \in Emit(act, p)}])

\* PACKET_OUT carrying its own data with actions [output:TABLE, set_dl_dst(Z), output:2]: the table lookup
\* misses, so the frame goes to the controller (and is buffered) AS IT IS AT THAT POINT; the later rewrite
\* and output act on the packet being processed, not on the stored one.
MissViaTable(f, p) ==
  /\ UNCHANGED missLen
  /\ LET out2 == IF p = 2 THEN {} ELSE {Em(2, Content(f, TRUE, 0))} IN
     IF FreeSlots = {}
     THEN /\ UNCHANGED pool
          /\ Log("MissViaTable", [f |-> f, p |-> p],
                 [buf |-> 0, total |-> FrameLen[f], dataLen |-> FrameLen[f], inport |-> p,
                  reason |-> "miss", emitted |-> out2])
     ELSE LET s == MinOf(FreeSlots) IN
          /\ pool' = [pool EXCEPT ![s] = Slot(Content(f, FALSE, 0), p)]
          /\ Log("MissViaTable", [f |-> f, p |-> p],
                 [buf |-> s, total |-> FrameLen[f], dataLen |-> Lesser(FrameLen[f], missLen), inport |-> p,
                  reason |-> "miss", emitted |-> out2])

\* FEATURES_REQUEST at any time: the advertised buffer count is the size of the pool, however many packets it
\* holds just now ("the number of stored packets never exceeds the advertised buffer count")
Features ==
  /\ UNCHANGED <<pool, missLen>>
  /\ Log("Features", [x |-> 0], [nbuf |-> N])

SetConfig(ml) ==
  /\ missLen' = ml /\ UNCHANGED pool
  /\ Log("SetConfig", [missLen |-> ml], [x |-> 0])

----------------------------------------------------------------------------
(* Action LISTS.  The switch applies the actions of a list in order to the   *)
(* packet as modified so far.  An output:CONTROLLER, or an output:TABLE that *)
(* leads to the controller, hands over - and stores - the packet AS IT IS AT *)
(* THAT POINT of the list; the rest of the list goes on with the packet      *)
(* being processed.  So one step may emit several frames, send several       *)
(* packet-ins and take several slots.                                        *)
Pin(b, c, dl, p, r) == [buf |-> b, total |-> CLen(c), dataLen |-> dl, inport |-> p, reason |-> r,
                        tag |-> Tag(c), k |-> c.k]
St0(c, pl) == [c |-> c, pool |-> pl, em |-> <<>>, pins |-> <<>>]
ToCtl(st, p, reason, ml) ==
  LET free == {s \in 1..N : st.pool[s] = Free} IN
  IF free = {}
  THEN [st EXCEPT !.pins = Append(@, Pin(0, st.c, CLen(st.c), p, reason))]
  ELSE LET s == MinOf(free) IN
       [st EXCEPT !.pool = [@ EXCEPT ![s] = Slot(st.c, p)],
                  !.pins = Append(@, Pin(s, st.c, Lesser(CLen(st.c), ml), p, reason))]
StepL(st, a, p, ml) ==
  CASE a = "rw"    -> [st EXCEPT !.c = [@ EXCEPT !.z = TRUE]]
    [] a = "ctl"   -> ToCtl(st, p, "action", CtlLen)
    [] a = "table" -> IF st.c.k \in MaxLens THEN ToCtl(st, p, "action", st.c.k)   \* the standing entry
                                            ELSE ToCtl(st, p, "miss", ml)
    [] OTHER       -> [st EXCEPT !.em = @ \o SetToSeq({Em(q, st.c) : q \in Emit(a, p)})]
RECURSIVE RunL(_, _, _, _)
RunL(acts, st, p, ml) ==
  IF acts = <<>> THEN st ELSE RunL(Tail(acts), StepL(st, Head(acts), p, ml), p, ml)
\* emissions as a bag: {<<port, tag, class, how many>>}
Bag(em) == {<<em[i][1], em[i][2], em[i][3], Cardinality({j \in DOMAIN em : em[j] = em[i]})>> : i \in DOMAIN em}
NBuf(acts) == Cardinality({i \in DOMAIN acts : acts[i] \in {"ctl", "table"}})

\* PACKET_OUT / FLOW_MOD naming buffer s, with an action list.  The slot is given back when the list is done.
\* Whether a packet which the list itself sends to the controller may already take the slot being used is
\* not something the property settles, so the step is left out where that would make a visible difference
\* (fewer free slots than the list needs).
UseL(kind, s, acts, how) ==
  /\ UNCHANGED missLen
  /\ IF s \in 1..N /\ pool[s] # Free
     THEN /\ NBuf(acts) <= Cardinality(FreeSlots)
          /\ LET st == RunL(acts, St0(pool[s].c, pool), pool[s].p, missLen) IN
             /\ pool' = [st.pool EXCEPT ![s] = Free]
             /\ Log(kind \o "L", [buf |-> s, acts |-> acts, how |-> how], [emitted |-> Bag(st.em), pins |-> st.pins])
     ELSE /\ UNCHANGED pool
          /\ Log(kind \o "L", [buf |-> s, acts |-> acts, how |-> how], [emitted |-> {}, pins |-> <<>>])

\* PACKET_OUT carrying its own data, with an action list
PacketOutDataL(f, p, acts) ==
  /\ UNCHANGED missLen
  /\ LET st == RunL(acts, St0(Content(f, FALSE, 0), pool), p, missLen) IN
     /\ pool' = st.pool
     /\ Log("PacketOutDataL", [f |-> f, p |-> p, acts |-> acts], [emitted |-> Bag(st.em), pins |-> st.pins])

\* a frame arrives on port p and matches a flow entry whose actions are the list
RxL(f, p, acts) ==
  /\ UNCHANGED missLen
  /\ LET st == RunL(acts, St0(Content(f, FALSE, 1), pool), p, missLen) IN
     /\ pool' = st.pool
     /\ Log("RxL", [f |-> f, p |-> p, acts |-> acts], [emitted |-> Bag(st.em), pins |-> st.pins])

NextL == \/ \E s \in (1..N) \cup BogusIds, a \in ListsPO : UseL("PacketOut", s, a, "-")
         \/ \E s \in (1..N) \cup BogusIds, a \in ListsFM : UseL("FlowMod", s, a, PickHow("FlowMod", s, Len(a)))
         \/ \E f \in Frames, p \in Ports, a \in ListsPO : PacketOutDataL(f, p, a)
         \/ \E f \in Frames, p \in Ports, a \in ListsFM : RxL(f, p, a)

Next1 == \/ \E f \in Frames, p \in Ports : Miss(f, p)
         \/ \E f \in Frames, p \in Ports, ml \in MaxLens : CtrlAction(f, p, ml)
         \/ \E k \in {"PacketOut", "FlowMod"}, s \in (1..N) \cup BogusIds,
               a \in Acts : Use(k, s, a, PickHow(k, s, Len(a)))
         \/ \E f \in Frames, p \in Ports, a \in Acts : PacketOutData(f, p, a)
         \/ \E f \in Frames, p \in Ports : MissViaTable(f, p)
         \/ \E ml \in MissLens : SetConfig(ml)
         \/ Features
Next == Next1 \/ NextL

Spec == Init /\ [][Next]_vars

----------------------------------------------------------------------------
(* The property, over the real variables.                                   *)

TypeOK  == pool \in [1..N -> Slots] /\ missLen \in MissLens \cup {128}
Bounded == Cardinality(Occupied) <= N
ListKinds == {"PacketOutL", "FlowModL", "PacketOutDataL", "RxL"}

\* a packet-in always carries the true total length; the whole frame when not
\* buffered, at most maxLen bytes when buffered
PacketInOK ==
  /\ last.a \in {"ToController", "MissViaTable"} =>
       /\ last.exp.total = FrameLen[last.args.f]
       /\ (last.exp.buf = 0 => last.exp.dataLen = last.exp.total)
       /\ (last.exp.buf # 0 => /\ (last.a = "ToController" => last.exp.dataLen <= last.args.maxLen)
                               /\ last.exp.dataLen <= last.exp.total
                               /\ pool[last.exp.buf].c.f = last.args.f /\ ~pool[last.exp.buf].c.z
                               /\ pool[last.exp.buf].p = last.args.p)
  /\ last.a \in ListKinds => \A i \in DOMAIN last.exp.pins : LET pi == last.exp.pins[i] IN
       /\ \E f \in Frames : pi.total = FrameLen[f] /\ pi.tag \in {f, "Z" \o f}
       /\ (pi.buf = 0 => pi.dataLen = pi.total)
       /\ (pi.buf # 0 => /\ pi.dataLen <= pi.total
                         /\ (pi.reason = "miss" => pi.dataLen <= missLen)
                         \* what the id stands for is the packet that was announced, as it was announced
                         /\ pool[pi.buf] # Free /\ Tag(pool[pi.buf].c) = pi.tag /\ pool[pi.buf].p = pi.inport)
  \* ids announced by one step are distinct
  /\ last.a \in ListKinds => \A i, j \in DOMAIN last.exp.pins :
       (i # j /\ last.exp.pins[i].buf # 0) => last.exp.pins[i].buf # last.exp.pins[j].buf

\* an id is handed out only for a slot that was free: an outstanding id keeps
\* identifying the same stored packet until it is used
NeverOverwritten ==
  [][\A s \in 1..N : pool[s] # Free => pool'[s] \in {pool[s], Free}]_vars

\* no buffer id <=> pool was full
NoBufferIffFull ==
  [][last'.a \in {"ToController", "MissViaTable"} =>
       ((last'.exp.buf = 0) <=> (FreeSlots = {}))]_vars

\* using an id emits iff it was outstanding, emits exactly the stored frame,
\* and frees exactly that slot
UsedExactlyOnce ==
  [][/\ (last'.a \in {"PacketOut", "FlowMod"}) =>
       LET s == last'.args.buf IN
       IF s \in 1..N /\ pool[s] # Free
       THEN /\ pool'[s] = Free
            /\ \A t \in (1..N) \ {s} : pool'[t] = pool[t]
            /\ \A e \in last'.exp.emitted : e[2] = Tag(pool[s].c) /\ e[1] \in Ports
            /\ (last'.args.act \in {"flood", "all"} =>
                  {e[1] : e \in last'.exp.emitted} = Ports \ {pool[s].p})
       ELSE /\ last'.exp.emitted = {} /\ pool' = pool
     /\ (last'.a \in {"PacketOutL", "FlowModL"}) =>
       LET s == last'.args.buf IN
       IF s \in 1..N /\ pool[s] # Free
       THEN /\ pool'[s] = Free
            /\ \A t \in (1..N) \ {s} : pool[t] # Free => pool'[t] = pool[t]
            /\ \A e \in last'.exp.emitted : e[2] \in {pool[s].c.f, "Z" \o pool[s].c.f} /\ e[1] \in Ports
            /\ \A i \in DOMAIN last'.exp.pins : last'.exp.pins[i].buf # s
       ELSE /\ last'.exp.emitted = {} /\ last'.exp.pins = <<>> /\ pool' = pool]_vars

\* ---- export for the replay harness
Bound   == Len(hist) <= D
Export  == (Len(hist) = D) => PrintT(<<"H", ToJson(hist)>>)
ExportT == PrintT(<<"T", ToJson(hist')>>)
=============================================================================
