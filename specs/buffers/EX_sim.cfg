CONSTANTS N = 3
  FrameLen <- MCFrameLen
  Ports <- MCPorts
  MissLens <- MCMissLens
  MaxLens <- MCMaxLens
  ListsPO <- MCListsPO
  ListsFM <- MCListsFM
  D = 40
INIT Init
NEXT Next
INVARIANT Export
CHECK_DEADLOCK FALSE
