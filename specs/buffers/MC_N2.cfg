CONSTANTS N = 2
  FrameLen <- MCFrameLen
  Ports <- MCPorts
  MissLens <- MCMissLens
  MaxLens <- MCMaxLens
  ListsPO <- NoLists
  ListsFM <- NoLists
  D = 3
INIT Init
NEXT Next
VIEW view
INVARIANT TypeOK
INVARIANT Bounded
INVARIANT PacketInOK
PROPERTY NeverOverwritten
PROPERTY NoBufferIffFull
PROPERTY UsedExactlyOnce
CHECK_DEADLOCK FALSE
