CONSTANTS N = 4
  FrameLen <- MCFrameLen
  Ports <- MCPorts
  MissLens <- MCMissLens
  MaxLens <- MCMaxLens
  ListsPO <- NoLists
  ListsFM <- NoLists
  D = 3
INIT Init
NEXT Next
VIEW viewE
ACTION_CONSTRAINT ExportT
CHECK_DEADLOCK FALSE
