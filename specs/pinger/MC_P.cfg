CONSTANTS Chunk = 1024
  Bursts <- BurstsAll
  MaxUnread = 4100
  D = 6
INIT Init
NEXT Next
VIEW view
INVARIANT TypeOK
PROPERTY PongReturns
PROPERTY NoLostPing
PROPERTY ReadableIffUnread
CHECK_DEADLOCK FALSE
