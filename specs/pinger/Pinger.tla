------------------------------- MODULE Pinger -------------------------------
(* The wake-up channel of the scheduler (pox.lib.util.makePinger): foreign   *)
(* threads ping, the scheduler thread selects on it and pongs.  C07's        *)
(* "a wake-up is noticed without relying on the polling timeout" and "each   *)
(* function handed over runs" rest on three facts about this object, which   *)
(* Threads.tla takes for granted (it models the pipe as a counter that a     *)
(* pong empties):                                                            *)
(*   - it is readable (select reports it) exactly while pings are unread;    *)
(*   - pong_all() on a readable pinger returns - it runs on the scheduler    *)
(*     thread, so a pong that blocks stops every cooperative task;           *)
(*   - a ping is never lost: after a pong_all() the pinger is still readable *)
(*     unless everything pinged before it has been consumed.                 *)
(* The implementation consumes at most Chunk pings per pong_all() (one read  *)
(* of 1024 bytes); what is left keeps the pinger readable, which is all the  *)
(* callers need.  The number of pings that may pile up is unbounded in       *)
(* principle (a burst of call_later from a busy thread), so the counts       *)
(* around the chunk size are the interesting ones.                           *)
EXTENDS Naturals, Sequences, TLC, Json

CONSTANTS Chunk,      \* pings consumed by one pong_all at most
          Bursts,     \* sizes of ping bursts the environment performs
          MaxUnread,  \* model bound
          D

VARIABLES unread, last, hist
vars == <<unread, last, hist>>
view == <<unread, last>>
viewE == unread

Init == unread = 0 /\ last = [a |-> "Init", args |-> [n |-> 0], exp |-> [readable |-> FALSE, ret |-> "-"]] /\ hist = <<>>
\* alts: every observation the spec permits at this step (the replay follows the exported one; another
\* permitted one ends the replay of that behaviour as "diverted", not as a mismatch)
LogA(a, n, ret, alts) == LET r == [a |-> a, args |-> [n |-> n], exp |-> [readable |-> unread' > 0, ret |-> ret]] IN
                  last' = r /\ hist' = Append(hist, [a |-> a, args |-> [n |-> n], exp |-> r.exp, alts |-> alts])
Log(a, n, ret) == LogA(a, n, ret, {})

\* n pings in a row (from any threads: a ping is one atomic write)
Ping(n) == /\ unread + n <= MaxUnread /\ unread' = unread + n /\ Log("Ping", n, "-")
\* pong_all on a readable pinger: returns, having consumed one chunk of the unread pings (what the
\* implementation does: min(unread, Chunk)) or all of them (what its TODO asks for) - both serve the callers
PongAll == /\ unread > 0
           /\ unread' \in {0, IF unread > Chunk THEN unread - Chunk ELSE 0}     \* one chunk, or really all
           /\ LogA("PongAll", 0, "returned",
                   {[readable |-> FALSE, ret |-> "returned"], [readable |-> unread > Chunk, ret |-> "returned"]})
\* pong: exactly one ping consumed
Pong == /\ unread > 0 /\ unread' = unread - 1 /\ Log("Pong", 0, "returned")

Next == (\E n \in Bursts : Ping(n)) \/ PongAll \/ Pong
Spec == Init /\ [][Next]_vars

\* ---- properties
TypeOK == unread \in 0..MaxUnread
\* a pong never blocks and never loses a wake-up that it did not consume
PongReturns == [][last'.a \in {"PongAll", "Pong"} => last'.exp.ret = "returned"]_vars
NoLostPing == [][(last'.a = "PongAll" /\ unread' > 0) => last'.exp.readable]_vars
ReadableIffUnread == [][last'.exp.readable <=> unread' > 0]_vars

Bound == Len(hist) <= D
ExportT == PrintT(<<"T", ToJson(hist')>>)
=============================================================================
