CONSTANTS Chunk = 1024
  Bursts <- BurstsQ
  MaxUnread = 2100
  D = 6
INIT Init
NEXT Next
VIEW viewE
CONSTRAINT Bound
ACTION_CONSTRAINT ExportT
CHECK_DEADLOCK FALSE
