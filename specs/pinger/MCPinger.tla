---- MODULE MCPinger ----
EXTENDS Pinger
BurstsAll == {1, 2, 1022, 1023, 1024, 1025, 2048}
BurstsQ == {1, 1023, 1024, 1025}
====
