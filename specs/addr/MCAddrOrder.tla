---------------------------- MODULE MCAddrOrder ----------------------------
EXTENDS AddrOrder
R(k, v, f) == [k |-> k, v |-> v, form |-> f]
\* values whose order differs between "signed little-endian word" and
\* "bytes left to right" readings; one value twice, built differently; one
\* register of another type
MCRegs4 == <<R("v4", <<0, 0, 0, 1>>, "text"), R("v4", <<0, 0, 0, 128>>, "raw"), R("v4", <<128, 0, 0, 0>>, "int_n"),
             R("v4", <<0, 0, 0, 1>>, "int_h"), R("mac", <<0, 0, 0, 1, 0, 0>>, "text")>>
MCRegs6 == <<R("v6", <<0, 0, 0, 0, 0, 0, 0, 1>>, "text"), R("v6", <<65535, 0, 0, 0, 0, 0, 0, 0>>, "raw"),
             R("v6", <<1, 0, 0, 0, 0, 0, 0, 65535>>, "bytearray"),
             R("v6", <<0, 0, 0, 0, 0, 0, 0, 1>>, "from_raw"), R("mac", <<0, 0, 0, 0, 0, 1>>, "raw")>>
MCRegsMac == <<R("mac", <<0, 0, 0, 0, 0, 1>>, "text"), R("mac", <<128, 0, 0, 0, 0, 0>>, "raw"),
               R("mac", <<1, 0, 0, 0, 0, 255>>, "list"),
               R("mac", <<0, 0, 0, 0, 0, 1>>, "tuple"), R("v4", <<0, 0, 0, 1>>, "text"),
               R("v6", <<0, 0, 0, 0, 0, 0, 0, 1>>, "text")>>
=============================================================================
