----------------------------- MODULE AddrOrder -----------------------------
(* C16: "equality, hashing and ordering are mutually consistent".           *)
(*                                                                          *)
(* The property fixes equality (two addresses are equal iff they hold the   *)
(* same value, however they were built; equal addresses hash alike) but NOT *)
(* which of two different addresses is the smaller one - only that <, <=,   *)
(* >, >=, ==, != answer as one strict total order would, consistently over  *)
(* time.  So the specification keeps the order facts observed so far (`lt`, *)
(* transitively closed) and lets a comparison of two different values go    *)
(* either way unless the facts already decide it.  Comparing a MAC address  *)
(* with an IP address must answer "different" (== False, != True); the      *)
(* ordering operators may answer anything or raise.                         *)
EXTENDS AddrLib, Json

CONSTANTS Regs,   \* sequence of [k |-> kind, v |-> value, form |-> how it is built]
          D
VARIABLES lt, last, hist
vars == <<lt, last, hist>>
view == <<lt>>

Octets6(h) == [i \in 1..16 |-> IF i % 2 = 1 THEN h[(i + 1) \div 2] \div 256 ELSE h[i \div 2] % 256]
TextOf(r) == IF r.k = "v4" THEN Str(V4Text(r.v)) ELSE IF r.k = "v6" THEN Str(V6Canon(r.v))
             ELSE Str(MacText(r.v, <<":">>, FALSE))
\* what the harness needs to build register i
Desc(i) == [r |-> i, k |-> Regs[i].k, form |-> Regs[i].form, text |-> TextOf(Regs[i]),
            v |-> IF Regs[i].k = "v6" THEN Octets6(Regs[i].v) ELSE Regs[i].v]
Val(i) == <<Regs[i].k, Regs[i].v>>

EqObs == [eq |-> "T", ne |-> "F", lt |-> "F", le |-> "T", gt |-> "F", ge |-> "T", heq |-> "eq"]
LtObs == [eq |-> "F", ne |-> "T", lt |-> "T", le |-> "T", gt |-> "F", ge |-> "F", heq |-> "any"]
GtObs == [eq |-> "F", ne |-> "T", lt |-> "F", le |-> "F", gt |-> "T", ge |-> "T", heq |-> "any"]
CrossObs == [eq |-> "F", ne |-> "T", lt |-> "any", le |-> "any", gt |-> "any", ge |-> "any", heq |-> "any"]

NoObs == [a |-> "Init", args |-> [x |-> 0], exp |-> [x |-> 0]]
Init == lt = {} /\ last = NoObs /\ hist = <<>>
Log(a, args, exp) ==
  /\ last' = [a |-> a, args |-> args, exp |-> exp]
  /\ hist' = Append(hist, [a |-> a, args |-> args, exp |-> exp])

Pred(x) == {p[1] : p \in {q \in lt : q[2] = x}}
Succ(y) == {p[2] : p \in {q \in lt : q[1] = y}}

\* the six comparison operators and hash on values a, b = <<kind, value>>
CmpV(a, b, args) ==
  IF a[1] = b[1] THEN
    IF a = b THEN UNCHANGED lt /\ Log("Cmp", args, EqObs)
    ELSE \E d \in {"lt", "gt"} :
           LET x == IF d = "lt" THEN a ELSE b
               y == IF d = "lt" THEN b ELSE a
           IN /\ <<y, x>> \notin lt
              /\ lt' = lt \cup {<<p, q>> : p \in {x} \cup Pred(x), q \in {y} \cup Succ(y)}
              /\ Log("Cmp", args, IF d = "lt" THEN LtObs ELSE GtObs)
  ELSE /\ {a[1], b[1]} # {"v4", "v6"}     \* IPv4 against IPv6 compares by conversion: not constrained here
       /\ UNCHANGED lt
       /\ Log("Cmp", args, CrossObs)

Cmp(i, j) == CmpV(Val(i), Val(j), [i |-> i, j |-> j, a |-> Desc(i), b |-> Desc(j)])

Next == \E i \in 1..Len(Regs), j \in 1..Len(Regs) : Cmp(i, j)
Spec == Init /\ [][Next]_vars

-----------------------------------------------------------------------------
\* the recorded facts always form a strict partial order ...
StrictOrder ==
  /\ \A p \in lt : p[1] # p[2] /\ <<p[2], p[1]>> \notin lt
  /\ \A p \in lt, q \in lt : p[2] = q[1] => <<p[1], q[2]>> \in lt
\* ... that only grows: an answer once given is never taken back
Monotone == [][lt \subseteq lt']_vars
\* every answer is one of the three a total order can give, and it is the one
\* the facts demand when they decide it
Tri(e) == /\ Cardinality({f \in {"eq", "lt", "gt"} : e[f] = "T"}) = 1
          /\ e.le = (IF e.lt = "T" \/ e.eq = "T" THEN "T" ELSE "F")
          /\ e.ge = (IF e.gt = "T" \/ e.eq = "T" THEN "T" ELSE "F")
          /\ e.ne = (IF e.eq = "T" THEN "F" ELSE "T")
Answers ==
  [][LET e == last'.exp
         a == <<last'.args.a.k, Regs[last'.args.i].v>>
         b == <<last'.args.b.k, Regs[last'.args.j].v>>
     IN IF a[1] = b[1]
        THEN /\ Tri(e)
             /\ (e.eq = "T") <=> (a = b)
             /\ e.eq = "T" => e.heq = "eq"
             /\ <<a, b>> \in lt => e.lt = "T"
             /\ <<b, a>> \in lt => e.gt = "T"
             /\ e.lt = "T" => <<a, b>> \in lt'
             /\ e.gt = "T" => <<b, a>> \in lt'
        ELSE e.eq = "F" /\ e.ne = "T"]_vars

Bound   == Len(hist) <= D
Export  == (Len(hist) = D) => PrintT(<<"H", ToJson(hist)>>)
ExportT == PrintT(<<"T", ToJson(hist')>>)
=============================================================================
