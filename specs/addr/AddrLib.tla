------------------------------ MODULE AddrLib ------------------------------
(* C16: the address "standards" as pure TLA+ definitions.                   *)
(*                                                                          *)
(* Values: IPv4 = 4 octets, IPv6 = 8 hextets, MAC = 6 octets, dpid = 8      *)
(* octets (no integer above 2^16 is ever built, TLC integers are 32 bit).   *)
(* Texts are sequences of one-character strings so that the parsers below   *)
(* work character by character (RFC 4291 2.2 / RFC 5952 for IPv6, strict    *)
(* dotted quad for IPv4, the usual MAC notations, POX's dpid notation).     *)
(* A parser yields  Ok(v)  (the text denotes v),  Rej  (malformed: must be  *)
(* refused) or  Grey  (the standards and long-standing practice disagree -  *)
(* e.g. inet_aton short forms - so the property does not constrain it).    *)
EXTENDS Integers, Sequences, FiniteSets, TLC

Dec  == <<"0","1","2","3","4","5","6","7","8","9">>
HexL == Dec \o <<"a","b","c","d","e","f">>
HexU == Dec \o <<"A","B","C","D","E","F">>
DecSet == {Dec[i] : i \in 1..10}
HexVal == [c \in {HexL[i] : i \in 1..16} \cup {HexU[i] : i \in 1..16} |->
             CHOOSE v \in 0..15 : HexL[v + 1] = c \/ HexU[v + 1] = c]
HexSet == DOMAIN HexVal
WS == {" "}
\* decorations int() tolerates (sign, blank, underscore, 0x): a reader that
\* accepts them and one that refuses them are both within the standards
IntDialect == {"+", "-", "_", "x", "X", " "}
\* number of leading "0" characters
LeadZeros(f) == LET RECURSIVE Z(_)
                    Z(i) == IF i > Len(f) THEN 0 ELSE IF f[i] # "0" THEN 0 ELSE 1 + Z(i + 1)
                IN Z(1)

Rej   == [k |-> "reject", v |-> <<>>]
Grey  == [k |-> "grey", v |-> <<>>]
Ok(v) == [k |-> "ok", v |-> v]

RangeOf(f) == {f[i] : i \in 1..Len(f)}
AllIn(f, S) == \A i \in 1..Len(f) : f[i] \in S
Clamp(x, lo, hi) == IF x < lo THEN lo ELSE IF x > hi THEN hi ELSE x
Zeros(n) == [i \in 1..n |-> 0]

RECURSIVE StrFrom(_, _)
StrFrom(cs, i) == IF i > Len(cs) THEN "" ELSE cs[i] \o StrFrom(cs, i + 1)
Str(cs) == StrFrom(cs, 1)

Split(cs, sep) ==
  LET RECURSIVE F(_, _, _)
      F(i, acc, cur) == IF i > Len(cs) THEN Append(acc, cur)
                        ELSE IF cs[i] = sep THEN F(i + 1, Append(acc, cur), <<>>)
                        ELSE F(i + 1, acc, Append(cur, cs[i]))
  IN F(1, <<>>, <<>>)

RECURSIVE JoinFrom(_, _, _)
JoinFrom(ss, sep, i) == IF i > Len(ss) THEN <<>>
                        ELSE IF i = Len(ss) THEN ss[i]
                        ELSE ss[i] \o sep \o JoinFrom(ss, sep, i + 1)
Join(ss, sep) == JoinFrom(ss, sep, 1)

RECURSIVE DecChars(_)
DecChars(n) == IF n < 10 THEN <<Dec[n + 1]>> ELSE DecChars(n \div 10) \o <<Dec[(n % 10) + 1]>>
RECURSIVE HexMin(_, _)
HexMin(n, T) == IF n < 16 THEN <<T[n + 1]>> ELSE HexMin(n \div 16, T) \o <<T[(n % 16) + 1]>>
HexPad(n, w, T) == [i \in 1..w |-> T[((n \div (16 ^ (w - i))) % 16) + 1]]

DecVal(f) == LET RECURSIVE V(_, _)
                 V(i, acc) == IF i > Len(f) THEN acc ELSE V(i + 1, acc * 10 + HexVal[f[i]])
             IN V(1, 0)
HexValue(f) == LET RECURSIVE V(_, _)
                   V(i, acc) == IF i > Len(f) THEN acc ELSE V(i + 1, acc * 16 + HexVal[f[i]])
               IN V(1, 0)

-----------------------------------------------------------------------------
(* Masks and membership, for units of w bits (8: IPv4 octets, 16: hextets). *)

KeepTop(x, k, w) == (x \div (2 ^ (w - k))) * (2 ^ (w - k))        \* top k of w bits
UnitBits(b, i, w) == Clamp(b - w * (i - 1), 0, w)                \* prefix bits falling into unit i
MaskSeq(v, b, w) == [i \in 1..Len(v) |-> KeepTop(v[i], UnitBits(b, i, w), w)]
HostSeq(v, b, w) == [i \in 1..Len(v) |-> v[i] - KeepTop(v[i], UnitBits(b, i, w), w)]
NetMask(b, n, w) == [i \in 1..n |-> (2 ^ w) - (2 ^ (w - UnitBits(b, i, w)))]

\* independent, bit-level formulation (used by the model's own invariants)
Bit(v, j, w) == (v[((j - 1) \div w) + 1] \div (2 ^ (w - 1 - ((j - 1) % w)))) % 2
SamePrefix(a, n, b, w) == \A j \in 1..b : Bit(a, j, w) = Bit(n, j, w)
LeadingOnes(m, w) == LET T == Len(m) * w
                         RECURSIVE C(_)
                         C(j) == IF j > T \/ Bit(m, j, w) = 0 THEN 0 ELSE 1 + C(j + 1)
                     IN C(1)
\* prefix length of a netmask, -1 when the mask has holes
MaskToCidr(m, w) == LET c == LeadingOnes(m, w)
                    IN IF \A j \in (c + 1)..(Len(m) * w) : Bit(m, j, w) = 0 THEN c ELSE -1

\* POX's documented classful inference for a bare IPv4 address
InferBits(o) ==
  IF o = <<0, 0, 0, 0>> THEN 0
  ELSE LET cls == IF o[1] < 128 THEN 8 ELSE IF o[1] < 192 THEN 16 ELSE IF o[1] < 224 THEN 24 ELSE 32
       IN IF MaskSeq(o, cls, 8) = o THEN cls ELSE 32

-----------------------------------------------------------------------------
(* IPv4 text *)

V4Text(o) == Join([i \in 1..4 |-> DecChars(o[i])], <<".">>)

\* >= 0 value; -1 malformed; -2 octal/hex/leading-zero (inet_aton dialect);
\* -3 decimal but above 255
V4Field(f) ==
  IF f = <<>> THEN -1
  ELSE IF AllIn(f, DecSet) THEN
         IF Len(f) > 1 /\ f[1] = "0" THEN -2
         ELSE IF Len(f) > 3 THEN -3
         ELSE IF DecVal(f) > 255 THEN -3 ELSE DecVal(f)
  ELSE IF Len(f) > 2 /\ f[1] = "0" /\ f[2] \in {"x", "X"} /\ AllIn(SubSeq(f, 3, Len(f)), HexSet) THEN -2
  ELSE IF AllIn(f, DecSet \cup {"+", "_"}) /\ \E i \in 1..Len(f) : f[i] \in DecSet THEN -2     \* int() dialect
  ELSE -1

V4Parse(cs) ==
  IF \E i \in 1..Len(cs) : cs[i] \in WS THEN Grey       \* inet_aton stops at white space
  ELSE LET fs == Split(cs, ".")
           n == Len(fs)
           c == [i \in 1..n |-> V4Field(fs[i])]
       IN IF n > 4 \/ \E i \in 1..n : c[i] = -1 THEN Rej
          ELSE IF n = 4 THEN IF \E i \in 1..n : c[i] = -3 THEN Rej
                             ELSE IF \E i \in 1..n : c[i] = -2 THEN Grey
                             ELSE Ok(c)
          ELSE Grey                                      \* 1-3 numbers: BSD short forms

-----------------------------------------------------------------------------
(* IPv6 text *)

HexGroup(n, pad, up) == IF pad THEN HexPad(n, 4, IF up THEN HexU ELSE HexL)
                        ELSE HexMin(n, IF up THEN HexU ELSE HexL)
Tail4(h) == <<h[7] \div 256, h[7] % 256, h[8] \div 256, h[8] % 256>>
Mapped(h) == h[1] = 0 /\ h[2] = 0 /\ h[3] = 0 /\ h[4] = 0 /\ h[5] = 0 /\ h[6] = 65535

\* Text of h with groups cp..cp+cl-1 (all zero, cl >= 1) replaced by "::"
\* (cl = 0: nothing compressed), 4-digit padding, upper case, and the last
\* two groups as a dotted quad.
V6Render(h, cp, cl, pad, up, t4) ==
  LET lim == IF t4 THEN 6 ELSE 8
      G(i) == HexGroup(h[i], pad, up)
      tl == IF t4 THEN <<V4Text(Tail4(h))>> ELSE <<>>
      L == [i \in 1..(cp - 1) |-> G(i)]
      R == [i \in 1..(lim - (cp + cl) + 1) |-> G(cp + cl + i - 1)] \o tl
  IN IF cl = 0 THEN Join([i \in 1..lim |-> G(i)] \o tl, <<":">>)
     ELSE Join(L, <<":">>) \o <<":", ":">> \o Join(R, <<":">>)

\* RFC 5952 4.2: the longest run of >= 2 zero groups among groups 1..lim, the
\* leftmost on a tie; <<position, length>>, length 0 when there is none
BestRun(h, lim) ==
  LET RECURSIVE R(_, _, _, _, _)
      R(i, bp, bl, cp, cl) ==
        IF i > lim THEN (IF bl < 2 THEN <<1, 0>> ELSE <<bp, bl>>)
        ELSE IF h[i] # 0 THEN R(i + 1, bp, bl, cp, 0)
        ELSE LET ncp == IF cl = 0 THEN i ELSE cp
             IN IF cl + 1 > bl THEN R(i + 1, ncp, cl + 1, ncp, cl + 1)
                ELSE R(i + 1, bp, bl, ncp, cl + 1)
  IN R(1, 1, 0, 1, 0)

\* to_str(zero_drop, section_drop, ipv4 in {"auto","yes","no"})
V6ToStr(h, zd, sd, v4) ==
  LET t4 == (v4 = "yes") \/ (v4 = "auto" /\ Mapped(h))
      br == IF sd THEN BestRun(h, IF t4 THEN 6 ELSE 8) ELSE <<1, 0>>
  IN V6Render(h, br[1], br[2], ~zd, FALSE, t4)
V6Canon(h) == V6ToStr(h, TRUE, TRUE, "auto")      \* RFC 5952 (incl. section 5 for ::ffff:0:0/96)

V6Parse(cs) ==
  IF cs # <<>> /\ (cs[1] \in WS \/ cs[Len(cs)] \in WS) THEN Grey
  ELSE IF ~AllIn(cs, HexSet \cup {":", "."} \cup IntDialect) THEN Rej
  ELSE IF ~AllIn(cs, HexSet \cup {":", "."}) THEN Grey
  ELSE
  LET f0 == Split(cs, ":")
      n0 == Len(f0)
  IN IF n0 < 3 THEN Rej
     ELSE IF (f0[1] = <<>> /\ f0[2] # <<>>) \/ (f0[n0] = <<>> /\ f0[n0 - 1] # <<>>) THEN Rej
     ELSE
     LET fs == SubSeq(f0, IF f0[1] = <<>> THEN 2 ELSE 1, IF f0[n0] = <<>> THEN n0 - 1 ELSE n0)
         n == Len(fs)
         empt == {i \in 1..n : fs[i] = <<>>}
         hasTail == "." \in RangeOf(fs[n])
         nh == IF hasTail THEN n - 1 ELSE n
         badHex == \E i \in 1..nh : fs[i] # <<>> /\ (Len(fs[i]) - LeadZeros(fs[i]) > 4 \/ ~AllIn(fs[i], HexSet))
         longHex == \E i \in 1..nh : Len(fs[i]) > 4          \* more than four digits, the extra ones zeros
         tail == IF hasTail THEN V4Parse(fs[n]) ELSE Ok(<<>>)
         ng == (nh - Cardinality(empt)) + (IF hasTail THEN 2 ELSE 0)
     IN IF Cardinality(empt) > 1 \/ badHex \/ tail.k = "reject" THEN Rej
        ELSE IF (empt = {} /\ ng # 8) \/ (empt # {} /\ ng > 7) THEN Rej
        ELSE IF tail.k = "grey" \/ longHex THEN Grey
        ELSE
        LET e == IF empt = {} THEN nh + 1 ELSE CHOOSE i \in empt : TRUE
            left == [i \in 1..(e - 1) |-> HexValue(fs[i])]
            right == [i \in 1..(nh - e) |-> HexValue(fs[e + i])]
            tg == IF hasTail THEN <<tail.v[1] * 256 + tail.v[2], tail.v[3] * 256 + tail.v[4]>> ELSE <<>>
        IN Ok(left \o Zeros(8 - ng) \o right \o tg)

-----------------------------------------------------------------------------
(* MAC text *)

MacText(o, sep, up) == Join([i \in 1..6 |-> HexPad(o[i], 2, IF up THEN HexU ELSE HexL)], sep)
\* groups whose index is in short are written without their leading zero
MacTextVar(o, short, up) ==
  Join([i \in 1..6 |-> IF i \in short /\ o[i] < 16 THEN HexMin(o[i], IF up THEN HexU ELSE HexL)
                        ELSE HexPad(o[i], 2, IF up THEN HexU ELSE HexL)], <<":">>)

MacParse(cs) ==
  IF Len(cs) = 6 THEN Grey                    \* six characters are taken as six raw bytes
  ELSE IF cs # <<>> /\ (cs[1] \in WS \/ cs[Len(cs)] \in WS) THEN Grey
  ELSE IF AllIn(cs, HexSet) THEN
         IF Len(cs) = 12 THEN Ok([i \in 1..6 |-> HexValue(SubSeq(cs, 2 * i - 1, 2 * i))]) ELSE Rej
  ELSE LET seps == {c \in RangeOf(cs) : c \notin HexSet}
       IN IF seps \cap (IntDialect \ {"-"}) # {} THEN
            (IF seps \subseteq IntDialect \cup {":"} THEN Grey ELSE Rej)     \* +f:.., 0x0f:.., 1_0:..
          ELSE IF seps = {":"} \/ seps = {"-"} THEN
            LET sep == CHOOSE c \in seps : TRUE
                fs == Split(cs, sep)
            IN IF Len(fs) # 6 \/ \E i \in 1..Len(fs) : fs[i] = <<>> \/ Len(fs[i]) - LeadZeros(fs[i]) > 2 THEN Rej
               ELSE IF \E i \in 1..6 : Len(fs[i]) > 2 THEN Grey          \* 00f: extra leading zeros
               ELSE IF sep = "-" /\ \E i \in 1..6 : Len(fs[i]) # 2 THEN Grey
               ELSE Ok([i \in 1..6 |-> HexValue(fs[i])])
          ELSE IF seps = {"."} THEN Grey       \* xxxx.xxxx.xxxx dialect
          ELSE IF seps = {":", "-"} THEN       \* a minus sign inside colon-separated groups: "-0" is 0 for int()
            LET fs == Split(cs, ":")
            IN IF Len(fs) = 6 /\ \A i \in 1..6 :
                    /\ fs[i] # <<>>
                    /\ IF fs[i][1] = "-"
                       THEN Len(fs[i]) > 1 /\ AllIn(Tail(fs[i]), {"0"})       \* only "minus zero"
                       ELSE AllIn(fs[i], HexSet)
               THEN Grey ELSE Rej
          ELSE Rej

-----------------------------------------------------------------------------
(* Datapath ids: xx-xx-xx-xx-xx-xx for the low 48 bits, |N (decimal) for the *)
(* high 16 bits when they are non-zero (or always, alwaysLong).              *)

DpidText(d, long) ==
  Join([i \in 1..6 |-> HexPad(d[i + 2], 2, HexL)], <<"-">>)
    \o (IF long \/ d[1] # 0 \/ d[2] # 0 THEN <<"|">> \o DecChars(d[1] * 256 + d[2]) ELSE <<>>)

DpidLenient == IntDialect \ {"-"}
DpidParse(cs) ==
  LET ps == Split(cs, "|")
      m == ps[1]
      fs == Split(m, "-")
      canon == Len(fs) = 6 /\ \A i \in 1..6 : Len(fs[i]) = 2 /\ AllIn(fs[i], HexSet)
      low == [i \in 1..6 |-> HexValue(fs[i])]
  IN IF Len(ps) > 2 THEN Rej
     ELSE IF ~AllIn(m, HexSet \cup {"-"} \cup DpidLenient) THEN Rej
     ELSE IF \A i \in 1..Len(m) : m[i] \notin HexSet THEN Rej          \* no digit at all
     ELSE IF Len(ps) = 1 THEN (IF canon THEN Ok(<<0, 0>> \o low) ELSE Grey)
     ELSE LET s == ps[2]
          IN IF s = <<>> THEN Rej
             ELSE IF ~AllIn(s, DecSet \cup DpidLenient \cup {"-"}) THEN Rej
             ELSE IF ~AllIn(s, DecSet) \/ ~canon THEN Grey
             ELSE IF Len(s) > 1 /\ s[1] = "0" THEN Grey
             ELSE IF Len(s) > 5 THEN Rej
             ELSE IF DecVal(s) > 65535 THEN Rej
             ELSE Ok(<<DecVal(s) \div 256, DecVal(s) % 256>> \o low)

-----------------------------------------------------------------------------
(* CIDR texts:  addr | addr/bits | addr/netmask                              *)
(* result [k, v (address), b (prefix length)]                                *)

CidrRej  == [k |-> "reject", v |-> <<>>, b |-> 0]
CidrGrey == [k |-> "grey", v |-> <<>>, b |-> 0]

\* kind-generic helpers: w = unit width, n = number of units
CidrFinish(addr, bits, w, allowHost) ==
  IF ~allowHost /\ HostSeq(addr, bits, w) # Zeros(Len(addr)) THEN CidrRej
  ELSE [k |-> "ok", v |-> addr, b |-> bits]

CidrSuffix(s, w, n) ==       \* -1 reject, -2 grey, else bits
  IF s = <<>> THEN -1
  ELSE IF AllIn(s, DecSet) THEN
         IF Len(s) > 1 /\ s[1] = "0" THEN -2
         ELSE IF Len(s) > 3 THEN -1
         ELSE IF DecVal(s) > w * n THEN -1 ELSE DecVal(s)
  ELSE IF AllIn(s, HexSet \cup {":", "."}) /\ (w = 16 \/ AllIn(s, DecSet \cup {"."})) THEN
         LET m == IF w = 8 THEN V4Parse(s) ELSE V6Parse(s)
         IN IF m.k = "reject" THEN -1
            ELSE IF m.k = "grey" THEN -2
            ELSE MaskToCidr(m.v, w)             \* -1 when it has holes
  ELSE -2                                       \* signs, blanks, 0x..: int() dialect

ParseCidr4(cs, infer, allowHost) ==
  LET ps == Split(cs, "/")
      a == V4Parse(ps[1])
  IN IF Len(ps) > 2 \/ a.k = "reject" THEN CidrRej
     ELSE IF Len(ps) = 1 THEN
            IF a.k = "grey" THEN CidrGrey
            ELSE CidrFinish(a.v, IF infer THEN InferBits(a.v) ELSE 32, 8, allowHost)
     ELSE LET b == CidrSuffix(ps[2], 8, 4)
          IN IF b = -1 THEN CidrRej
             ELSE IF b = -2 \/ a.k = "grey" THEN CidrGrey
             ELSE CidrFinish(a.v, b, 8, allowHost)

ParseCidr6(cs, allowHost) ==
  LET ps == Split(cs, "/")
      a == V6Parse(ps[1])
  IN IF Len(ps) > 2 \/ a.k = "reject" THEN CidrRej
     ELSE IF Len(ps) = 1 THEN
            IF a.k = "grey" THEN CidrGrey ELSE CidrFinish(a.v, 128, 16, allowHost)
     ELSE LET b == CidrSuffix(ps[2], 16, 8)
          IN IF b = -1 THEN CidrRej
             ELSE IF b = -2 \/ a.k = "grey" THEN CidrGrey
             ELSE CidrFinish(a.v, b, 16, allowHost)

-----------------------------------------------------------------------------
(* Classification *)

MacFlags(o) == [mc |-> (o[1] % 2) = 1, local |-> ((o[1] \div 2) % 2) = 1,
                bf |-> o[1] = 1 /\ o[2] = 128 /\ o[3] = 194 /\ o[4] = 0 /\ o[5] = 0 /\ o[6] <= 15,
                bc |-> o = <<255, 255, 255, 255, 255, 255>>]
V6In(h, net, b) == MaskSeq(h, b, 16) = net
V6Class(h) == [mc |-> V6In(h, <<65280, 0, 0, 0, 0, 0, 0, 0>>, 8),          \* ff00::/8
               gu |-> V6In(h, <<8192, 0, 0, 0, 0, 0, 0, 0>>, 3),            \* 2000::/3
               ul |-> V6In(h, <<64512, 0, 0, 0, 0, 0, 0, 0>>, 7),           \* fc00::/7
               ll |-> V6In(h, <<65152, 0, 0, 0, 0, 0, 0, 0>>, 10),          \* fe80::/10
               compat |-> V6In(h, Zeros(8), 96),                           \* ::/96
               mapped |-> Mapped(h)]                                       \* ::ffff:0:0/96
\* modified EUI-64 interface id (RFC 4291 appendix A)
SetMac(h, m) ==
  LET f == IF ((m[1] \div 2) % 2) = 1 THEN m[1] - 2 ELSE m[1] + 2
  IN <<h[1], h[2], h[3], h[4], f * 256 + m[2], m[3] * 256 + 255, 254 * 256 + m[4], m[5] * 256 + m[6]>>
=============================================================================
