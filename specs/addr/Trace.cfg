CONSTANTS
  Areas <- AllAreas
  Wide4 <- MCEmpty
  Sweep4 <- MCMicro4
  Base4 <- MCMicro4
  Net4 <- MCMicro4
  Flip4 <- MCMicroFlip
  Cidr4B <- MCMicro4
  Sweep6 <- MCMicro6
  Base6 <- MCMicro6
  Net6 <- MCMicro6
  Flip6 <- MCMicroFlip
  Cidr6B <- MCMicro6
  Rich6 <- MCMicro6
  Macs <- MCMicroMac
  RichMacs <- MCMicroMac
  Dpids <- MCMicroDpid
  DpidsRT <- MCMicroDpid
  Remake = TRUE
  D = 0
INIT TrInit
NEXT TrNext
CONSTRAINT Progress
POSTCONDITION Accepted
INVARIANT TypeOK
INVARIANT CanonRoundTrip
PROPERTY MembershipOK
PROPERTY Immutable
CHECK_DEADLOCK FALSE
