CONSTANTS
  Areas <- OnlyV6
  Wide4 <- MCEmpty
  Sweep4 <- MCEmpty
  Base4 <- MCEmpty
  Net4 <- MCEmpty
  Flip4 <- MCEmpty
  Cidr4B <- MCEmpty
  Sweep6 <- MCEmpty
  Base6 <- MCNet6Q
  Net6 <- MCNet6Q
  Flip6 <- MCFlip6T
  Cidr6B <- MCEmpty
  Rich6 <- MCEmpty
  Macs <- MCMicroMac
  RichMacs <- MCEmpty
  Dpids <- MCEmpty
  DpidsRT <- MCEmpty
  Remake = FALSE
  D = 2
INIT Init
NEXT Next
VIEW view
ACTION_CONSTRAINT ExportT
INVARIANT TypeOK
INVARIANT CanonRoundTrip
PROPERTY ConstructOK
PROPERTY TextRulesOK
PROPERTY MembershipOK
PROPERTY CidrRulesOK
PROPERTY Immutable
CHECK_DEADLOCK FALSE
