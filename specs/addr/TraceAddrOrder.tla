--------------------------- MODULE TraceAddrOrder ---------------------------
(* Code -> spec for AddrOrder.tla: recorded comparisons between objects     *)
(* holding random values must be answers one strict total order can give.   *)
EXTENDS MCAddrOrder, IOUtils, TLCExt, SequencesExt

Traces == JsonDeserialize(IOEnv.TRACE_FILE)
NT == Len(Traces)
VARIABLES tid, l
tvars == <<vars, tid, l>>

TrInit == Init /\ tid \in 1..NT /\ l = 1 /\ TLCSet(tid, 0)
Ev == Traces[tid][l]
IsEvent(e) == l <= Len(Traces[tid]) /\ Ev.a = e /\ Ev.wf /\ l' = l + 1 /\ UNCHANGED tid
Fields == {"eq", "ne", "lt", "le", "gt", "ge", "heq"}
Match(exp, obs) == \A f \in Fields : exp[f] = "any" \/ exp[f] = obs[f]

TrCmp == /\ IsEvent("Cmp")
         /\ CmpV(<<Ev.args.a.k, Ev.args.a.v>>, <<Ev.args.b.k, Ev.args.b.v>>, [x |-> 0])
         /\ Match(last'.exp, Ev.obs)
TrNext == TrCmp
Progress == TLCSet(tid, IF TLCGet(tid) < l - 1 THEN l - 1 ELSE TLCGet(tid))
TraceOk(t) == TLCGet(t) = Len(Traces[t]) \/ (PrintT(<<"REJECT", t, TLCGet(t)>>) /\ FALSE)
Accepted == /\ PrintT(<<"TRACES-CHECKED", NT>>)
            /\ Cardinality({t \in 1..NT : ~TraceOk(t)}) = 0
=============================================================================
