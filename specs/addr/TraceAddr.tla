----------------------------- MODULE TraceAddr -----------------------------
(* Code -> spec: operation sequences recorded from the real address classes *)
(* (random values, random textual styles, randomly damaged texts) must be   *)
(* behaviours of Addr.tla: each event's observation has to be the one the   *)
(* specification computes for the logged arguments.  Texts arrive as lists  *)
(* of characters (`cs`) so that the specification's own parsers decide what *)
(* they mean; a text in the grey class constrains nothing.                  *)
EXTENDS MCAddr, IOUtils, TLCExt, SequencesExt

Traces == JsonDeserialize(IOEnv.TRACE_FILE)
NT == Len(Traces)
VARIABLES tid, l
tvars == <<vars, tid, l>>

TrInit == Init /\ tid \in 1..NT /\ l = 1 /\ TLCSet(tid, 0)
Ev == Traces[tid][l]
IsEvent(e) == l <= Len(Traces[tid]) /\ Ev.a = e /\ Ev.wf /\ l' = l + 1 /\ UNCHANGED tid
Same == last'.exp = Ev.obs

Hextets(o) == [i \in 1..8 |-> o[2 * i - 1] * 256 + o[2 * i]]
FromRaw(k, raw) == IF k = "v6" THEN Hextets(raw) ELSE raw
Units(k, v) == IF k = "v6" THEN Hextets(v) ELSE v      \* binary arguments are logged as octets
TCase(cs) == [r |-> "trace", cs |-> cs]

TrMakeText ==
  /\ IsEvent("MakeText")
  /\ LET k == Ev.args.k
         p == Parse(k, Ev.args.cs)
     IN IF p.k = "grey"
        THEN /\ obj' = IF Ev.obs.ok = "T" /\ Len(Ev.obs.raw) = (IF k = "v4" THEN 4 ELSE IF k = "v6" THEN 16 ELSE 6)
                        THEN Obj(k, FromRaw(k, Ev.obs.raw), FALSE) ELSE None
             /\ Log("MakeText", [k |-> k, form |-> Ev.args.form, rule |-> "grey", text |-> ""], Ev.obs)
        ELSE MakeText(k, Ev.args.form, TCase(Ev.args.cs)) /\ Same
TrMakeBin ==
  /\ IsEvent("MakeBin")
  /\ MakeBin(Ev.args.k, Ev.args.form, Units(Ev.args.k, Ev.args.v), Ev.args.adj) /\ Same
TrReparse == IsEvent("Reparse") /\ Reparse /\ Same
TrProps == IsEvent("Props") /\ Props /\ Same
TrMutate == IsEvent("Mutate") /\ Mutate(Ev.args.attr) /\ Same
TrMutateSource == IsEvent("MutateSource") /\ MutateSource /\ Same
TrInNet ==
  /\ IsEvent("InNet")
  /\ InNet(Ev.args.style, [i \in 1..Len(Ev.args.nets) |->
                             [n |-> Ev.args.nets[i].n, b |-> Ev.args.nets[i].b, t |-> "", m |-> ""]])
  /\ Same
TrToStr6 == IsEvent("ToStr6") /\ ToStr6(Ev.args.zd, Ev.args.sd, Ev.args.v4) /\ Same
TrSetMac6 == IsEvent("SetMac6") /\ SetMac6(Ev.args.m) /\ Same
TrCidrToMask == IsEvent("CidrToMask") /\ CidrToMask(Ev.args.k, Ev.args.b) /\ Same
TrMaskToCidr == IsEvent("MaskToCidr") /\ MaskToCidrA(Ev.args.k, Ev.args.form, Ev.args.m) /\ Same
TrParseCidr ==
  /\ IsEvent("ParseCidr")
  /\ LET k == Ev.args.k
         p == IF k = "v4" THEN ParseCidr4(Ev.args.cs, Ev.args.infer, Ev.args.allowHost)
              ELSE ParseCidr6(Ev.args.cs, Ev.args.allowHost)
     IN IF p.k = "grey"
        THEN UNCHANGED obj /\ Log("ParseCidr", [k |-> k, rule |-> "grey"], Ev.obs)
        ELSE ParseCidr(k, TCase(Ev.args.cs), Ev.args.infer, Ev.args.allowHost) /\ Same
TrDpidToStr == IsEvent("DpidToStr") /\ DpidToStr(Ev.args.form, Ev.args.d, Ev.args.long) /\ Same
TrStrToDpid ==
  /\ IsEvent("StrToDpid")
  /\ IF DpidParse(Ev.args.cs).k = "grey"
     THEN UNCHANGED obj /\ Log("StrToDpid", [rule |-> "grey"], Ev.obs)
     ELSE StrToDpid(TCase(Ev.args.cs)) /\ Same
TrDpidRound == IsEvent("DpidRound") /\ DpidRound(Ev.args.d, Ev.args.long) /\ Same

TrNext == \/ TrMakeText \/ TrMakeBin \/ TrReparse \/ TrProps \/ TrMutate \/ TrMutateSource
          \/ TrInNet \/ TrToStr6 \/ TrSetMac6 \/ TrCidrToMask \/ TrMaskToCidr \/ TrParseCidr
          \/ TrDpidToStr \/ TrStrToDpid \/ TrDpidRound
TrSpec == TrInit /\ [][TrNext]_tvars

Progress == TLCSet(tid, IF TLCGet(tid) < l - 1 THEN l - 1 ELSE TLCGet(tid))
TraceOk(t) == TLCGet(t) = Len(Traces[t]) \/ (PrintT(<<"REJECT", t, TLCGet(t)>>) /\ FALSE)
Accepted == /\ PrintT(<<"TRACES-CHECKED", NT>>)
            /\ Cardinality({t \in 1..NT : ~TraceOk(t)}) = 0
=============================================================================
