CONSTANTS
  Areas <- AllAreas
  Wide4 <- MCEmpty
  Sweep4 <- MCMicro4
  Base4 <- MCMicro4
  Net4 <- MCMicro4
  Flip4 <- MCMicroFlip
  Cidr4B <- MCEmpty
  Sweep6 <- MCMicro6
  Base6 <- MCMicro6
  Net6 <- MCMicro6
  Flip6 <- MCMicroFlip
  Cidr6B <- MCEmpty
  Rich6 <- MCEmpty
  Macs <- MCMicroMac
  RichMacs <- MCEmpty
  Dpids <- MCMicroDpid
  DpidsRT <- MCMicroDpid
  Remake = TRUE
  D = 7
INIT Init
NEXT Next
INVARIANT Export
CHECK_DEADLOCK FALSE
