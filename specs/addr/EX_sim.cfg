CONSTANTS
  Areas <- AllAreas
  Wide4 <- MCEmpty
  Sweep4 <- MCSim4
  Base4 <- MCSim4
  Net4 <- MCSim4
  Flip4 <- MCMicroFlip
  Cidr4B <- MCMicro4
  Sweep6 <- MCSim6
  Base6 <- MCSim6
  Net6 <- MCMicro6
  Flip6 <- MCMicroFlip
  Cidr6B <- MCMicro6
  Rich6 <- MCSim6
  Macs <- MCMicroMac
  RichMacs <- MCMicroMac
  Dpids <- MCMicroDpid
  DpidsRT <- MCMicroDpid
  Remake = TRUE
  D = 12
INIT Init
NEXT Next
INVARIANT Export
CHECK_DEADLOCK FALSE
