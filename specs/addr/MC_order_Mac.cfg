CONSTANTS
  Regs <- MCRegsMac
  D = 3
INIT Init
NEXT Next
VIEW view
INVARIANT StrictOrder
PROPERTY Monotone
PROPERTY Answers
CHECK_DEADLOCK FALSE
