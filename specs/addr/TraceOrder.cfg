CONSTANTS
  Regs <- MCRegs4
  D = 0
INIT TrInit
NEXT TrNext
CONSTRAINT Progress
POSTCONDITION Accepted
INVARIANT StrictOrder
PROPERTY Monotone
CHECK_DEADLOCK FALSE
