-------------------------------- MODULE Addr --------------------------------
(* C16: address types (pox/lib/addresses.py, pox/lib/util.py dpid helpers).  *)
(*                                                                          *)
(* State: one object under test (`obj`): none, or an IPv4 / IPv6 / MAC      *)
(* value together with whether it was built from a mutable container.       *)
(* Actions: one per public entry point - construct from a text, construct   *)
(* from a binary/structured form, re-parse the printed text, numeric and    *)
(* classification accessors, attempted mutation, network membership,        *)
(* get_network, to_str options, set_mac; and the stateless helpers          *)
(* (cidr<->netmask, parse_cidr, dpid<->string).  Every action logs what the *)
(* caller must observe (`last`, `hist`) - computed only from AddrLib, which *)
(* never looks at the code.  Constructors decide acceptance with the        *)
(* character-level parsers of AddrLib: Ok -> the object holds that value,   *)
(* Rej -> the constructor must refuse and no object exists; Grey texts are  *)
(* not part of the model's alphabet (the property does not constrain them). *)
EXTENDS AddrLib, Json

CONSTANTS Areas,    \* which groups of actions are enabled: subset of {"v4","v6","mac","dpid"}
          Wide4,    \* IPv4 values: text / raw / network-order int constructors, accessors, re-parse
          Sweep4,   \* IPv4 values: every constructor form, accessors, re-parse, mutation
          Base4,    \* IPv4 values: additionally get_network, malformed texts
          Net4,     \* IPv4 values (subset of Base4): membership against Net4 and bit-flipped partners
          Flip4,    \* bit positions (1..32): partner networks differ from the base in that bit
          Cidr4B,   \* IPv4 values from which CIDR texts are built
          Sweep6, Base6, Net6, Flip6, Cidr6B,
          Rich6,    \* IPv6 values: additionally every "::" placement and malformed texts
          Macs,     \* MAC values: every form and flag
          RichMacs, \* MAC values: additionally every short-group pattern and malformed texts
          Dpids,    \* datapath ids (8 octets): every helper, malformed texts
          DpidsRT,  \* datapath ids: string round trip only (large set)
          Remake,   \* TRUE: a new object may replace the current one (long behaviours)
          D         \* export depth

VARIABLES obj, last, hist
vars  == <<obj, last, hist>>
\* `last`/`hist` are observations, not state: every property about an
\* observation is an action property (checked on every transition), so the
\* state graph is explored modulo the object only
view  == <<obj>>
viewE == <<obj>>

None == [k |-> "none", v |-> <<>>, m |-> FALSE]
Obj(k, v, m) == [k |-> k, v |-> v, m |-> m]
W(k)  == IF k = "v6" THEN 16 ELSE 8
NU(k) == IF k = "v4" THEN 4 ELSE IF k = "v6" THEN 8 ELSE 6
Octets6(h) == [i \in 1..16 |-> IF i % 2 = 1 THEN h[(i + 1) \div 2] \div 256 ELSE h[i \div 2] % 256]
RawOf(k, v) == IF k = "v6" THEN Octets6(v) ELSE v
Canon(k, v) == IF k = "v4" THEN V4Text(v) ELSE IF k = "v6" THEN V6Canon(v) ELSE MacText(v, <<":">>, FALSE)
Parse(k, cs) == IF k = "v4" THEN V4Parse(cs) ELSE IF k = "v6" THEN V6Parse(cs) ELSE MacParse(cs)
ClassName(k) == IF k = "v4" THEN "IPAddr" ELSE IF k = "v6" THEN "IPAddr6" ELSE "EthAddr"

\* what any observer sees of an object holding v: str(), repr(), .raw, len()
View(k, v) == [ok |-> "T", str |-> Str(Canon(k, v)),
               repr |-> ClassName(k) \o "('" \o Str(Canon(k, v)) \o "')",
               raw |-> RawOf(k, v), n |-> Len(RawOf(k, v))]
NoView == [ok |-> "F", str |-> "", repr |-> "", raw |-> <<>>, n |-> 0]
ViewOf(p, k) == IF p.k = "ok" THEN View(k, p.v) ELSE NoView

NoObs == [a |-> "Init", args |-> [x |-> 0], exp |-> [x |-> 0]]
Init == obj = None /\ last = NoObs /\ hist = <<>>
Log(a, args, exp) ==
  /\ last' = [a |-> a, args |-> args, exp |-> exp]
  /\ hist' = Append(hist, [a |-> a, args |-> args, exp |-> exp])
\* Without Remake a behaviour is: one constructor then one operation, or one
\* stateless helper (every transition of the graph is still explored and
\* exported); with Remake operations and constructors chain freely.
Fresh == last.a = "Init"
MayMake == Remake \/ (obj = None /\ Fresh)
MayOp == Remake \/ last.a \in {"MakeText", "MakeBin"}

-----------------------------------------------------------------------------
(* The alphabet: texts.  A case is [r |-> rule name, cs |-> characters].     *)

Case(r, cs) == [r |-> r, cs |-> cs]
JoinC(gs) == Join(gs, <<":">>)

ValidText4(o) == {Case("canon", V4Text(o))}
BadText4(o) ==
  LET t == V4Text(o)
      P(i) == DecChars(o[i])
      Dot(gs) == Join(gs, <<".">>)
  IN {Case("five_parts", t \o <<".">> \o P(1)),
      Case("empty_part", Dot(<<P(1), <<>>, P(3), P(4)>>)),
      Case("trailing_dot", t \o <<".">>),
      Case("leading_dot", <<".">> \o Dot(<<P(1), P(2), P(3)>>)),
      Case("part_256", Dot(<<P(1), P(2), P(3), <<"2", "5", "6">>>>)),
      Case("part_999", Dot(<<<<"9", "9", "9">>, P(2), P(3), P(4)>>)),
      Case("negative_part", Dot(<<P(1), P(2), P(3), <<"-">> \o P(4)>>)),
      Case("letters", Dot(<<<<"a">>, P(2), P(3), P(4)>>)),
      Case("trailing_letter", t \o <<"x">>),
      Case("slash_bits", t \o <<"/", "8">>),
      Case("commas", Join(<<P(1), P(2), P(3), P(4)>>, <<",">>)),
      Case("colons", Join(<<P(1), P(2), P(3), P(4)>>, <<":">>)),
      Case("empty", <<>>)}

Groups6(h) == [i \in 1..8 |-> HexMin(h[i], HexL)]
\* every way to write a run of zero groups (or part of one) as "::"
SubRuns(h, lim) == {pl \in (1..lim) \X (1..lim) :
                      pl[1] + pl[2] - 1 <= lim /\ \A i \in pl[1]..(pl[1] + pl[2] - 1) : h[i] = 0}
BasicText6(h) ==
  {Case("canon", V6Canon(h)),
   Case("full", V6Render(h, 1, 0, FALSE, FALSE, FALSE)),
   Case("padded_upper", V6Render(h, 1, 0, TRUE, TRUE, FALSE)),
   Case("padded", V6Render(h, 1, 0, TRUE, FALSE, FALSE)),
   Case("canon_upper", LET br == BestRun(h, 8) IN V6Render(h, br[1], br[2], FALSE, TRUE, FALSE))}
RichText6(h) ==
  {Case("compress_" \o ToString(pl[1]) \o "_" \o ToString(pl[2]),
        V6Render(h, pl[1], pl[2], FALSE, FALSE, FALSE)) : pl \in SubRuns(h, 8)}
  \cup {Case("mixed_compress_" \o ToString(pl[1]) \o "_" \o ToString(pl[2]),
             V6Render(h, pl[1], pl[2], FALSE, FALSE, TRUE)) : pl \in SubRuns(h, 6)}
  \cup {Case("mixed_full", V6Render(h, 1, 0, FALSE, FALSE, TRUE)),
        Case("mixed_padded_upper", V6Render(h, 1, 0, TRUE, TRUE, TRUE))}
BadText6(h) ==
  LET G == Groups6(h)
      t4 == V4Text(Tail4(h))
      full == JoinC(G)
      With4(x) == JoinC([G EXCEPT ![4] = x])
  IN {Case("seven_groups", JoinC(SubSeq(G, 1, 7))),
      Case("three_groups", JoinC(SubSeq(G, 1, 3))),
      Case("nine_groups", full \o <<":">> \o G[1]),
      Case("leading_colon", <<":">> \o full),
      Case("trailing_colon", full \o <<":">>),
      Case("leading_colon_7", <<":">> \o JoinC(SubSeq(G, 2, 8))),
      Case("trailing_colon_7", JoinC(SubSeq(G, 1, 7)) \o <<":">>),
      Case("eight_groups_and_gap_end", full \o <<":", ":">>),
      Case("eight_groups_and_gap_start", <<":", ":">> \o full),
      Case("eight_groups_and_gap_mid", JoinC(SubSeq(G, 1, 4)) \o <<":", ":">> \o JoinC(SubSeq(G, 5, 8))),
      Case("triple_colon", G[1] \o <<":", ":", ":">> \o G[8]),
      Case("only_triple_colon", <<":", ":", ":">>),
      Case("two_gaps", G[1] \o <<":", ":">> \o G[2] \o <<":", ":">> \o G[3]),
      Case("group_10000", With4(<<"1", "0", "0", "0", "0">>)),
      Case("bad_letter", With4(<<"g">>)),
      Case("mixed_seven_groups", JoinC(SubSeq(G, 1, 7)) \o <<":">> \o t4),
      Case("mixed_five_groups", JoinC(SubSeq(G, 1, 5)) \o <<":">> \o t4),
      Case("mixed_six_groups_and_gap", JoinC(SubSeq(G, 1, 6)) \o <<":", ":">> \o t4),
      Case("mixed_not_last", t4 \o <<":", ":">>),
      Case("mixed_five_parts", JoinC(SubSeq(G, 1, 6)) \o <<":">> \o t4 \o <<".", "5">>),
      Case("mixed_part_256", JoinC(SubSeq(G, 1, 6)) \o <<":", "1", ".", "2", ".", "3", ".", "2", "5", "6">>),
      Case("empty", <<>>),
      Case("one_colon", <<":">>),
      Case("one_group", G[1]),
      Case("two_groups", G[1] \o <<":">> \o G[2]),
      Case("ipv4_only", t4),
      Case("zone_suffix", full \o <<"%", "e", "0">>),
      Case("prefix_suffix", full \o <<"/", "6", "4">>)}

BasicTextMac(o) ==
  {Case("colon", MacText(o, <<":">>, FALSE)), Case("dash", MacText(o, <<"-">>, FALSE)),
   Case("hex12", MacText(o, <<>>, FALSE)), Case("colon_upper", MacText(o, <<":">>, TRUE)),
   Case("dash_upper", MacText(o, <<"-">>, TRUE)), Case("hex12_upper", MacText(o, <<>>, TRUE)),
   Case("short_groups", MacTextVar(o, 1..6, FALSE))}
RichTextMac(o) ==
  {Case("short_groups_" \o ToString(Cardinality(s)), MacTextVar(o, s, FALSE)) : s \in SUBSET (1..6)}
  \cup {Case("short_groups_upper", MacTextVar(o, 1..6, TRUE))}
BadTextMac(o) ==
  LET G == [i \in 1..6 |-> HexPad(o[i], 2, HexL)]
      full == JoinC(G)
      With6(x) == JoinC([G EXCEPT ![6] = x])
  IN {Case("five_groups", JoinC(SubSeq(G, 1, 5))),
      Case("seven_groups", full \o <<":">> \o G[1]),
      Case("mixed_separators", G[1] \o <<":">> \o G[2] \o <<"-">> \o JoinC(SubSeq(G, 3, 6))),
      Case("eleven_digits", SubSeq(MacText(o, <<>>, FALSE), 1, 11)),
      Case("thirteen_digits", MacText(o, <<>>, FALSE) \o <<"0">>),
      Case("bad_letter_12", SubSeq(MacText(o, <<>>, FALSE), 1, 11) \o <<"g">>),
      Case("bad_letter", With6(<<"0", "g">>)),
      Case("group_100", JoinC([G EXCEPT ![1] = <<"1", "0", "0">>])),
      Case("group_256_last", JoinC([i \in 1..5 |-> HexMin(o[i], HexL)]) \o <<":", "2", "5", "6">>),
      Case("empty_group", JoinC(SubSeq(G, 1, 5)) \o <<":">>),
      Case("empty_first_group", <<":">> \o JoinC(SubSeq(G, 2, 6))),
      Case("minus_sign", With6(<<"-", "1">>)),
      Case("trailing_colon", full \o <<":">>),
      Case("empty", <<>>)}

ValidTextDpid(d) == {Case("canon", DpidText(d, FALSE)), Case("always_long", DpidText(d, TRUE))}
BadTextDpid(d) ==
  LET t == DpidText(d, TRUE)
      m == DpidText([d EXCEPT ![1] = 0, ![2] = 0], FALSE)
  IN {Case("empty", <<>>),
      Case("bad_letter", <<"z", "z">> \o SubSeq(m, 3, Len(m))),
      Case("colons", MacText(SubSeq(d, 3, 8), <<":">>, FALSE)),
      Case("two_bars", t \o <<"|", "7">>),
      Case("bar_letter", m \o <<"|", "q">>),
      Case("bar_empty", m \o <<"|">>),
      Case("empty_main", <<"|", "5">>),
      Case("high_65536", m \o <<"|", "6", "5", "5", "3", "6">>),
      Case("high_99999", m \o <<"|", "9", "9", "9", "9", "9">>),
      Case("high_100000", m \o <<"|", "1", "0", "0", "0", "0", "0">>)}

-----------------------------------------------------------------------------
(* Constructors *)

KindTexts(k) ==
  IF k = "v4" THEN UNION {ValidText4(o) : o \in Wide4 \cup Sweep4 \cup Base4} \cup UNION {BadText4(o) : o \in Base4}
  ELSE IF k = "v6" THEN UNION {BasicText6(h) : h \in Sweep6 \cup Base6 \cup Rich6}
                          \cup UNION {RichText6(h) \cup BadText6(h) : h \in Rich6}
  ELSE UNION {BasicTextMac(o) : o \in Macs \cup RichMacs}
         \cup UNION {RichTextMac(o) \cup BadTextMac(o) : o \in RichMacs}
TextForms(k) == IF k = "v6" THEN {"str"} ELSE {"str", "bytes"}
NarrowSet == Wide4 \ (Sweep4 \cup Base4)
Narrow(k, v) == k = "v4" /\ v \in NarrowSet     \* reduced set of forms and operations

\* Cls(text): accepted iff the text denotes an address; then the object holds it
MakeText(k, form, c) ==
  LET p == Parse(k, c.cs) IN
  /\ MayMake
  /\ p.k # "grey"
  /\ (p.k = "ok" /\ Narrow(k, p.v)) => form = "str"
  /\ obj' = IF p.k = "ok" THEN Obj(k, p.v, FALSE) ELSE None
  /\ Log("MakeText", [k |-> k, form |-> form, rule |-> c.r, text |-> Str(c.cs)],
         ViewOf(p, k))

BinForms(k, v) ==
  IF Narrow(k, v) THEN {"raw", "int_n"}
  ELSE IF k = "v4" THEN {"raw", "bytearray", "int_h", "int_hs", "int_n", "copy"}
  ELSE IF k = "v6" THEN {"raw", "rawkw", "bytearray", "from_raw", "copy", "from_num"}
                          \cup (IF v = Zeros(8) THEN {"none"} ELSE {})
                          \cup (IF Mapped(v) THEN {"from_v4"} ELSE {})
  ELSE {"raw", "list", "tuple", "bytearray", "copy"}
         \cup (IF v = Zeros(6) THEN {"none"} ELSE {})
Mutable(form) == form \in {"bytearray", "list"}
Sized(form) == form \in {"raw", "rawkw", "bytearray", "from_raw", "list", "tuple"}

\* Cls(<binary or structured form of v>), adj = octets added (+1) or dropped
\* (-1) at the end: accepted iff the length is right
MakeBin(k, form, v, adj) ==
  /\ MayMake
  /\ adj # 0 => Sized(form)
  /\ obj' = IF adj = 0 THEN Obj(k, v, Mutable(form)) ELSE None
  /\ Log("MakeBin", [k |-> k, form |-> form, v |-> RawOf(k, v), adj |-> adj],
         IF adj = 0 THEN View(k, v) ELSE NoView)

-----------------------------------------------------------------------------
(* Operations on the object *)

Has(k) == obj.k = k /\ ~obj.m /\ MayOp
Keep == UNCHANGED obj

\* type(x)(str(x)): equal, same hash, same text
Reparse ==
  /\ obj.k # "none" /\ ~obj.m /\ MayOp /\ Keep
  /\ Log("Reparse", [k |-> obj.k], [eq |-> "T", ne |-> "F", heq |-> "T", view |-> View(obj.k, obj.v)])

\* numeric / structural accessors
Props ==
  /\ obj.k # "none" /\ ~obj.m /\ MayOp /\ Keep
  /\ Log("Props", [k |-> obj.k],
         IF obj.k = "v4" THEN
           \* host order = the number whose big-endian bytes are the address;
           \* network order = the number whose in-memory (native) bytes are the address
           [uh |-> obj.v, un |-> obj.v, sh |-> obj.v, sn |-> obj.v]
         ELSE IF obj.k = "v6" THEN
           [num |-> Octets6(obj.v), ipv4 |-> Str(V4Text(Tail4(obj.v))), class |-> V6Class(obj.v)]
         ELSE
           [tuple |-> obj.v, dash |-> Str(MacText(obj.v, <<"-">>, FALSE)), flags |-> MacFlags(obj.v)])

\* x.<attr> = something: refused, nothing changes
Mutate(attr) ==
  /\ obj.k # "none" /\ MayOp /\ ~Narrow(obj.k, obj.v) /\ Keep
  /\ Log("Mutate", [attr |-> attr], [refused |-> "T", view |-> View(obj.k, obj.v)])
\* the container the object was built from is overwritten afterwards
MutateSource ==
  /\ obj.k # "none" /\ obj.m /\ MayOp /\ Keep
  /\ Log("MutateSource", [x |-> 0], [view |-> View(obj.k, obj.v)])

FlipBit(v, j, w) == LET u == ((j - 1) \div w) + 1
                        p == 2 ^ (w - 1 - ((j - 1) % w))
                    IN [v EXCEPT ![u] = IF Bit(v, j, w) = 1 THEN v[u] - p ELSE v[u] + p]
Partners(k, v) == IF k = "v4" THEN Net4 \cup {FlipBit(v, j, 8) : j \in Flip4}
                  ELSE Net6 \cup {FlipBit(v, j, 16) : j \in Flip6}
AddrText(k, v) == IF k = "v4" THEN V4Text(v) ELSE V6Canon(v)
NetStyles == {"cidr", "mask", "tuple_text", "tuple_obj", "sep_bits", "sep_mask", "sep_obj"}
\* netmask texts per prefix length (constant, evaluated once)
MaskTexts4 == [i \in 1..33 |-> Str(V4Text(NetMask(i - 1, 4, 8)))]
MaskTexts6 == [i \in 1..129 |-> Str(V6Canon(NetMask(i - 1, 8, 16)))]
MaskText(k, b) == IF k = "v4" THEN MaskTexts4[b + 1] ELSE MaskTexts6[b + 1]
\* n0 cut to every prefix length: [n |-> network, b |-> bits, t |-> its text, m |-> netmask text]
AllNets(k, n0) == [i \in 1..(W(k) * NU(k) + 1) |->
                     LET n == MaskSeq(n0, i - 1, W(k))
                     IN [n |-> n, b |-> i - 1, t |-> Str(AddrText(k, n)), m |-> MaskText(k, i - 1)]]

\* x.in_network(...) for a list of networks; `last` keeps the numeric network
\* (for the properties), the exported history only the texts
InNet(style, nets) ==
  LET k == obj.k
      r == [i \in 1..Len(nets) |-> MaskSeq(obj.v, nets[i].b, W(k)) = nets[i].n]
      targs == [k |-> k, style |-> style,
                nets |-> [i \in 1..Len(nets) |->
                            [t |-> nets[i].t, b |-> nets[i].b,
                             m |-> IF style \in {"mask", "sep_mask"} THEN nets[i].m ELSE ""]]]
  IN
  /\ k \in {"v4", "v6"} /\ ~obj.m /\ MayOp /\ Keep
  /\ last' = [a |-> "InNet", args |-> [k |-> k, style |-> style, nets |-> nets], exp |-> [r |-> r]]
  /\ hist' = Append(hist, [a |-> "InNet", args |-> targs, exp |-> [r |-> r]])

\* IPv4 only: x.inNetwork("a.b.c.d") - prefix length inferred from the class
InNetInfer(n) ==
  /\ Has("v4") /\ Keep
  /\ Log("InNetInfer", [t |-> Str(V4Text(n))],
         [r |-> MaskSeq(obj.v, InferBits(n), 8) = n])

\* IPv4 only: x.get_network(bits | "bits" | "netmask" | IPAddr(netmask)) for every prefix length
GetNetwork(style) ==
  /\ Has("v4") /\ Keep
  /\ Log("GetNetwork",
         [style |-> style, bs |-> [i \in 1..33 |-> [b |-> i - 1, m |-> Str(V4Text(NetMask(i - 1, 4, 8)))]]],
         [r |-> [i \in 1..33 |-> [net |-> Str(V4Text(MaskSeq(obj.v, i - 1, 8))), b |-> i - 1]]])

\* IPv6 only: to_str(zero_drop, section_drop, ipv4)
ToStr6(zd, sd, v4) ==
  /\ Has("v6") /\ Keep
  /\ Log("ToStr6", [zd |-> zd, sd |-> sd, v4 |-> v4], [s |-> Str(V6ToStr(obj.v, zd, sd, v4))])

\* IPv6 only: set_mac(mac)
SetMac6(mac) ==
  /\ Has("v6") /\ Keep
  /\ Log("SetMac6", [mac |-> Str(MacText(mac, <<":">>, FALSE))],
         [s |-> Str(V6Canon(SetMac(obj.v, mac)))])

-----------------------------------------------------------------------------
(* Stateless helpers *)

Pure == MayMake /\ UNCHANGED obj

\* cidr_to_netmask(bits)
CidrToMask(k, b) ==
  /\ Pure
  /\ Log("CidrToMask", [k |-> k, b |-> b],
         IF b >= 0 /\ b <= W(k) * NU(k) THEN View(k, NetMask(b, NU(k), W(k))) ELSE NoView)

\* netmask_to_cidr("mask" | Cls("mask"))
MaskToCidrA(k, form, m) ==
  /\ Pure
  /\ Log("MaskToCidr", [k |-> k, form |-> form, t |-> Str(AddrText(k, m))],
         IF MaskToCidr(m, W(k)) >= 0 THEN [ok |-> "T", b |-> MaskToCidr(m, W(k))] ELSE [ok |-> "F", b |-> 0])

CidrView(k, p) == IF p.k = "ok" THEN [ok |-> "T", str |-> Str(AddrText(k, p.v)), b |-> p.b]
                  ELSE [ok |-> "F", str |-> "", b |-> 0]
\* parse_cidr(text, infer, allow_host)
ParseCidr(k, c, infer, allowHost) ==
  LET p == IF k = "v4" THEN ParseCidr4(c.cs, infer, allowHost) ELSE ParseCidr6(c.cs, allowHost) IN
  /\ Pure
  /\ p.k # "grey"
  /\ Log("ParseCidr", [k |-> k, rule |-> c.r, text |-> Str(c.cs), infer |-> infer, allowHost |-> allowHost],
         CidrView(k, p))

\* The helpers are functions of their arguments: the answer to parse_cidr(text, infer, allow_host) is the same
\* whatever was asked about the same text before.  (Only texts on which the two sets of flags disagree are
\* worth the step.)
ParseCidrAgain(k, c, infer0, allowHost0, infer, allowHost) ==
  LET q == IF k = "v4" THEN ParseCidr4(c.cs, infer0, allowHost0) ELSE ParseCidr6(c.cs, allowHost0)
      p == IF k = "v4" THEN ParseCidr4(c.cs, infer, allowHost) ELSE ParseCidr6(c.cs, allowHost) IN
  /\ Pure
  /\ p.k # "grey" /\ q.k # "grey" /\ CidrView(k, p) # CidrView(k, q)
  /\ Log("ParseCidrAgain", [k |-> k, rule |-> c.r, text |-> Str(c.cs), infer |-> infer, allowHost |-> allowHost,
                             infer0 |-> infer0, allowHost0 |-> allowHost0],
         CidrView(k, p))

CidrTexts(k) ==
  LET N == W(k) * NU(k)
      Bases == IF k = "v4" THEN Cidr4B ELSE Cidr6B
      A(v) == AddrText(k, v)
      Holes == IF k = "v4" THEN {<<255, 0, 255, 0>>, <<0, 0, 0, 1>>, <<127, 255, 255, 255>>, <<255, 255, 255, 253>>}
               ELSE {<<65535, 0, 65535, 0, 0, 0, 0, 0>>, <<0, 0, 0, 0, 0, 0, 0, 1>>,
                     <<32767, 65535, 65535, 65535, 65535, 65535, 65535, 65535>>}
  IN UNION {
       {Case("bare", A(v)), Case("bare_network", A(MaskSeq(v, W(k), W(k)))),
        Case("three_parts", A(MaskSeq(v, 8, W(k))) \o <<"/", "8", "/", "5">>),
        Case("empty_suffix", A(v) \o <<"/">>),
        Case("empty_address", <<"/", "8">>),
        Case("bits_too_large", A(v) \o <<"/">> \o DecChars(N + 1)),
        Case("bits_999", A(v) \o <<"/", "9", "9", "9">>),
        Case("bits_1000", A(v) \o <<"/", "1", "0", "0", "0">>)}
       \cup {Case("bits", A(MaskSeq(v, b, W(k))) \o <<"/">> \o DecChars(b)) : b \in 0..N}
       \cup {Case("bits_host", A(v) \o <<"/">> \o DecChars(b)) : b \in 0..N}
       \cup {Case("netmask", A(MaskSeq(v, b, W(k))) \o <<"/">> \o A(NetMask(b, NU(k), W(k)))) : b \in 0..N}
       \cup {Case("netmask_host", A(v) \o <<"/">> \o A(NetMask(b, NU(k), W(k)))) : b \in {0, 1, W(k), N - 1, N}}
       \cup {Case("netmask_holes", A(Zeros(NU(k))) \o <<"/">> \o A(m)) : m \in Holes}
       : v \in Bases}

\* dpid_to_str(dpid as int | 8 raw bytes, alwaysLong)
DpidToStr(form, d, long) ==
  /\ Pure
  /\ Log("DpidToStr", [form |-> form, d |-> d, long |-> long], [s |-> Str(DpidText(d, long))])
\* str_to_dpid(text)
StrToDpid(c) ==
  LET p == DpidParse(c.cs) IN
  /\ Pure
  /\ p.k # "grey"
  /\ Log("StrToDpid", [rule |-> c.r, text |-> Str(c.cs)],
         IF p.k = "ok" THEN [ok |-> "T", d |-> p.v] ELSE [ok |-> "F", d |-> <<>>])
\* str_to_dpid(dpid_to_str(d, alwaysLong)) = d
DpidRound(d, long) ==
  /\ Pure
  /\ Log("DpidRound", [d |-> d, long |-> long], [d |-> d])

-----------------------------------------------------------------------------
On(a) == a \in Areas
MaskHoles(k) == IF k = "v4" THEN {<<255, 0, 255, 0>>, <<0, 0, 0, 1>>, <<127, 255, 255, 255>>, <<255, 255, 255, 253>>, <<254, 255, 255, 255>>}
                ELSE {<<65535, 0, 65535, 0, 0, 0, 0, 0>>, <<0, 0, 0, 0, 0, 0, 0, 1>>,
                      <<32767, 65535, 65535, 65535, 65535, 65535, 65535, 65535>>,
                      <<65535, 65535, 65535, 65535, 65535, 65535, 65535, 65533>>}
BinVals4 == Wide4 \cup Sweep4 \cup Base4
BinVals6 == Sweep6 \cup Base6 \cup Rich6
BinValsMac == Macs \cup RichMacs
BinVals(k) == IF k = "v4" THEN BinVals4 ELSE IF k = "v6" THEN BinVals6 ELSE BinValsMac
SizedVals(k) == IF k = "v4" THEN {<<0, 0, 0, 0>>, <<255, 255, 255, 255>>}
                ELSE IF k = "v6" THEN Base6 ELSE Macs \cup RichMacs

\* constant-level alphabets (zero-arity, so TLC evaluates each once)
Texts4 == KindTexts("v4")
Texts6 == KindTexts("v6")
TextsMac == KindTexts("mac")
TextsOf(k) == IF k = "v4" THEN Texts4 ELSE IF k = "v6" THEN Texts6 ELSE TextsMac
Canon4 == {c \in Texts4 : c.r = "canon"}
Canon6 == {c \in Texts6 : c.r = "canon"}
CanonMac == {c \in TextsMac : c.r = "colon"}
CanonOf(k) == IF k = "v4" THEN Canon4 ELSE IF k = "v6" THEN Canon6 ELSE CanonMac
Cidr4 == CidrTexts("v4")
Cidr6 == CidrTexts("v6")
DpidTexts == IF On("dpid") THEN UNION {ValidTextDpid(d) \cup BadTextDpid(d) : d \in Dpids} ELSE {}
KindsOn == {k \in {"v4", "v6", "mac"} : On(k)}
NetKindsOn == {k \in {"v4", "v6"} : On(k)}
CidrOf(k) == IF k = "v4" THEN Cidr4 ELSE Cidr6
InferFlags(k) == IF k = "v4" THEN BOOLEAN ELSE {TRUE}
Mask4 == {NetMask(b, 4, 8) : b \in 0..32} \cup MaskHoles("v4")
Mask6 == {NetMask(b, 8, 16) : b \in 0..128} \cup MaskHoles("v6")
MaskDomain(k) == IF k = "v4" THEN Mask4 ELSE Mask6
DpidsOn == IF On("dpid") THEN Dpids ELSE {}
DpidsRTOn == IF On("dpid") THEN DpidsRT ELSE {}
\* state-dependent domains of the operations (empty when the operation does not apply)
NetPartners == IF (obj.k = "v4" /\ obj.v \in Net4) \/ (obj.k = "v6" /\ obj.v \in Net6)
               THEN Partners(obj.k, obj.v) ELSE {}
InferPartners == IF obj.k = "v4" /\ obj.v \in Base4
                 THEN Base4 \cup {MaskSeq(obj.v, b, 8) : b \in {0, 8, 16, 24}} ELSE {}

Force(q) == SubSeq(q, 1, Len(q))     \* evaluate a lazily defined sequence once
InNetAll == \E n0 \in NetPartners : LET nets == Force(AllNets(obj.k, n0)) IN \E s \in NetStyles : InNet(s, nets)
InNetInferAll == \E n \in InferPartners : InNetInfer(n)

\* The canonical-text constructor comes first so that the breadth-first search
\* reaches every value through it: the exported behaviour of an operation is
\* then "construct from canonical text; operate".  The leading guards only
\* spare TLC the enumeration of alphabets whose actions are disabled anyway.
OpOK == obj.k # "none" /\ MayOp
Next ==
  \/ MayMake /\ \E k \in KindsOn : \E c \in CanonOf(k) : MakeText(k, "str", c)
  \/ MayMake /\ \E k \in KindsOn : \E f \in TextForms(k), c \in TextsOf(k) :
        IF f = "str" /\ c \in CanonOf(k) THEN FALSE ELSE MakeText(k, f, c)
  \/ MayMake /\ \E k \in KindsOn : \E v \in BinVals(k) : \E f \in BinForms(k, v) : MakeBin(k, f, v, 0)
  \/ MayMake /\ \E k \in KindsOn : \E v \in SizedVals(k) :
        \E f \in {g \in BinForms(k, v) : Sized(g)}, adj \in {-1, 1} : MakeBin(k, f, v, adj)
  \/ OpOK /\ Reparse
  \/ OpOK /\ Props
  \/ OpOK /\ \E attr \in {"_value", "raw"} : Mutate(attr)
  \/ OpOK /\ MutateSource
  \/ OpOK /\ InNetAll
  \/ OpOK /\ InNetInferAll
  \/ OpOK /\ obj.v \in Base4 /\ \E s \in {"int", "str", "mask", "mask_obj"} : GetNetwork(s)
  \/ OpOK /\ obj.v \in Base6 \cup Rich6 /\
        \E zd \in BOOLEAN, sd \in BOOLEAN, v4 \in {"auto", "yes", "no"} : ToStr6(zd, sd, v4)
  \/ OpOK /\ obj.v \in Base6 /\ \E m \in Macs : SetMac6(m)
  \/ MayMake /\ \E k \in NetKindsOn : \E b \in (-1)..(W(k) * NU(k) + 1) : CidrToMask(k, b)
  \/ MayMake /\ \E k \in NetKindsOn : \E f \in {"str", "obj"}, m \in MaskDomain(k) : MaskToCidrA(k, f, m)
  \/ MayMake /\ \E k \in NetKindsOn : \E c \in CidrOf(k), inf \in InferFlags(k), ah \in BOOLEAN : ParseCidr(k, c, inf, ah)
  \/ MayMake /\ \E k \in NetKindsOn : \E c \in CidrOf(k), inf0 \in InferFlags(k), ah0 \in BOOLEAN, inf \in InferFlags(k), ah \in BOOLEAN :
        ParseCidrAgain(k, c, inf0, ah0, inf, ah)
  \/ MayMake /\ \E d \in DpidsOn, f \in {"int", "raw"}, l \in BOOLEAN : DpidToStr(f, d, l)
  \/ MayMake /\ \E c \in DpidTexts : StrToDpid(c)
  \/ MayMake /\ \E d \in DpidsOn \cup DpidsRTOn, l \in BOOLEAN : DpidRound(d, l)

Spec == Init /\ [][Next]_vars

-----------------------------------------------------------------------------
(* The property on the model.                                               *)

Kinds == {"none", "v4", "v6", "mac"}
TypeOK ==
  /\ obj.k \in Kinds /\ obj.m \in BOOLEAN
  /\ obj.k = "none" => obj = None
  /\ obj.k = "v4" => Len(obj.v) = 4 /\ \A i \in 1..4 : obj.v[i] \in 0..255
  /\ obj.k = "v6" => Len(obj.v) = 8 /\ \A i \in 1..8 : obj.v[i] \in 0..65535
  /\ obj.k = "mac" => Len(obj.v) = 6 /\ \A i \in 1..6 : obj.v[i] \in 0..255

\* printing then parsing is the identity: the canonical text of every value
\* that can exist is accepted by the grammar and denotes that value
CanonRoundTrip == obj.k # "none" => Parse(obj.k, Canon(obj.k, obj.v)) = Ok(obj.v)

\* a constructor that accepted produced an object printing the canonical text
\* of the denoted value; one that refused left nothing behind
ConstructOKAt(l, o) ==
  l.a \in {"MakeText", "MakeBin"} =>
    IF l.exp.ok = "T"
    THEN o.k = l.args.k /\ l.exp.str = Str(Canon(o.k, o.v)) /\ l.exp.raw = RawOf(o.k, o.v)
    ELSE o = None
ConstructOK == [][ConstructOKAt(last', obj')]_vars
\* every alternative text form of a value denotes that value, every malformed
\* text is refused (names the rule sets of the alphabet)
GoodRules == {"canon", "full", "padded", "padded_upper", "canon_upper", "mixed_full", "mixed_padded_upper",
              "colon", "dash", "hex12", "colon_upper", "dash_upper", "hex12_upper", "short_groups",
              "short_groups_upper", "always_long"}
IsGoodRule(r) == r \in GoodRules \/ \E n \in 0..8, m \in 0..8 :
                   r \in {"compress_" \o ToString(n) \o "_" \o ToString(m),
                          "mixed_compress_" \o ToString(n) \o "_" \o ToString(m),
                          "short_groups_" \o ToString(n)}
TextRulesOK ==
  [][last'.a \in {"MakeText", "StrToDpid"} => (IsGoodRule(last'.args.rule) <=> last'.exp.ok = "T")]_vars

\* membership computed with unit arithmetic agrees with the bit-level definition:
\* x is in n/b iff n has no host bits and the first b bits of x and n coincide
MembershipOKAt(l, o) ==
  l.a = "InNet" =>
    \A i \in 1..Len(l.exp.r) :
      LET e == l.args.nets[i]
          w == W(l.args.k)
      IN l.exp.r[i] = (SamePrefix(o.v, e.n, e.b, w) /\ HostSeq(e.n, e.b, w) = Zeros(Len(e.n)))
MembershipOK == [][MembershipOKAt(last', obj')]_vars

\* CIDR texts: a network written with its own prefix length or netmask is
\* accepted and keeps both; structural garbage is refused; host bits are
\* tolerated exactly when allow_host says so
CidrGood == {"bits", "netmask", "bare", "bare_network"}
CidrBad  == {"three_parts", "empty_suffix", "empty_address", "bits_too_large", "bits_999", "bits_1000",
             "netmask_holes"}
CidrRulesOKAt(l) ==
  l.a = "ParseCidr" =>
    /\ l.args.rule \in CidrGood => l.exp.ok = "T"
    /\ l.args.rule \in CidrBad => l.exp.ok = "F"
    /\ l.args.allowHost /\ l.args.rule \notin CidrBad => l.exp.ok = "T"
CidrRulesOK == [][CidrRulesOKAt(last')]_vars

\* only a constructor changes the object: values are immutable
Immutable == [][last'.a \notin {"MakeText", "MakeBin"} => obj' = obj]_vars

\* ---- export for the replay harness
Bound   == Len(hist) <= D
\* simulation: TLC evaluates invariants on every candidate successor of the
\* action it picked; printing only after a single-successor operation gives
\* one line per walk position instead of one per candidate
Export  == (Len(hist) >= D /\ last.a \in {"Reparse", "Props", "MutateSource"}) => PrintT(<<"H", ToJson(hist)>>)
ExportT == PrintT(<<"T", ToJson(hist')>>)
=============================================================================
