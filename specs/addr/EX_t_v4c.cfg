CONSTANTS
  Areas <- OnlyV4
  Wide4 <- MCEmpty
  Sweep4 <- MCEmpty
  Base4 <- MCBase4
  Net4 <- MCBase4
  Flip4 <- MCFlip4T
  Cidr4B <- MCBase4
  Sweep6 <- MCEmpty
  Base6 <- MCEmpty
  Net6 <- MCEmpty
  Flip6 <- MCEmpty
  Cidr6B <- MCEmpty
  Rich6 <- MCEmpty
  Macs <- MCEmpty
  RichMacs <- MCEmpty
  Dpids <- MCEmpty
  DpidsRT <- MCEmpty
  Remake = FALSE
  D = 2
INIT Init
NEXT Next
VIEW view
ACTION_CONSTRAINT ExportT
INVARIANT TypeOK
INVARIANT CanonRoundTrip
PROPERTY ConstructOK
PROPERTY TextRulesOK
PROPERTY MembershipOK
PROPERTY CidrRulesOK
PROPERTY Immutable
CHECK_DEADLOCK FALSE
