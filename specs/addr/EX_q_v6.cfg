CONSTANTS
  Areas <- OnlyV6
  Wide4 <- MCEmpty
  Sweep4 <- MCEmpty
  Base4 <- MCEmpty
  Net4 <- MCEmpty
  Flip4 <- MCEmpty
  Cidr4B <- MCEmpty
  Sweep6 <- MCSweep6Q
  Base6 <- MCBase6
  Net6 <- MCNet6Q
  Flip6 <- MCFlip6QQ
  Cidr6B <- MCCidr6Q
  Rich6 <- MCRich6
  Macs <- MCMicroMac
  RichMacs <- MCEmpty
  Dpids <- MCEmpty
  DpidsRT <- MCEmpty
  Remake = FALSE
  D = 2
INIT Init
NEXT Next
VIEW view
ACTION_CONSTRAINT ExportT
INVARIANT TypeOK
INVARIANT CanonRoundTrip
PROPERTY ConstructOK
PROPERTY TextRulesOK
PROPERTY MembershipOK
PROPERTY CidrRulesOK
PROPERTY Immutable
CHECK_DEADLOCK FALSE
