CONSTANTS
  Areas <- OnlyV6
  Wide4 <- MCEmpty
  Sweep4 <- MCEmpty
  Base4 <- MCEmpty
  Net4 <- MCEmpty
  Flip4 <- MCEmpty
  Cidr4B <- MCEmpty
  Sweep6 <- MCSweep6T
  Base6 <- MCEmpty
  Net6 <- MCEmpty
  Flip6 <- MCEmpty
  Cidr6B <- MCEmpty
  Rich6 <- MCEmpty
  Macs <- MCMicroMac
  RichMacs <- MCEmpty
  Dpids <- MCEmpty
  DpidsRT <- MCEmpty
  Remake = FALSE
  D = 2
INIT Init
NEXT Next
VIEW view
ACTION_CONSTRAINT ExportT
INVARIANT TypeOK
INVARIANT CanonRoundTrip
PROPERTY ConstructOK
PROPERTY TextRulesOK
PROPERTY MembershipOK
PROPERTY CidrRulesOK
PROPERTY Immutable
CHECK_DEADLOCK FALSE
