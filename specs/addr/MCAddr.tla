------------------------------ MODULE MCAddr ------------------------------
(* Finite alphabets for Addr.tla (cfg files cannot contain tuples).          *)
EXTENDS Addr

AllAreas == {"v4", "v6", "mac", "dpid"}
OnlyV4 == {"v4"}
OnlyV6 == {"v6"}
OnlyMacDpid == {"mac", "dpid"}

\* IPv4: every value of each octet position, the other octets all 0 or all 255
OctetSweep(X, Fill) == {[i \in 1..4 |-> IF i = p THEN x ELSE f] : p \in 1..4, x \in X, f \in Fill}
Edge8 == {0, 1, 2, 9, 10, 99, 100, 126, 127, 128, 129, 191, 192, 223, 224, 239, 240, 254, 255}
MCSweep4Tiny == OctetSweep({0, 127, 128, 255}, {0})
MCSweep4Q == OctetSweep(0..255, {0}) \cup OctetSweep(Edge8, {255})
MCSweep4T == OctetSweep(0..255, {0, 255})
MCBase4 == {<<0, 0, 0, 0>>, <<255, 255, 255, 255>>, <<10, 1, 2, 3>>, <<192, 168, 1, 77>>, <<128, 0, 0, 1>>,
            <<127, 255, 255, 254>>, <<224, 0, 0, 251>>, <<239, 129, 2, 3>>, <<240, 0, 0, 1>>, <<172, 16, 254, 0>>,
            <<1, 0, 0, 0>>, <<223, 255, 255, 255>>}
MCBase4Tiny == {<<0, 0, 0, 0>>, <<10, 1, 2, 3>>, <<224, 0, 0, 251>>}
MCFlip4Q == {1, 2, 8, 9, 16, 17, 24, 25, 31, 32}
MCFlip4T == 1..32

\* IPv6: every zero / non-zero pattern of the eight groups
Pattern(mask, Val(_)) == [i \in 1..8 |-> IF (mask \div (2 ^ (8 - i))) % 2 = 1 THEN Val(i) ELSE 0]
ValA(i) == 1
ValB(i) == 65535
ValC(i) == 2571 + 4096 * i        \* 0x0a0b + i * 0x1000: four digits, all different
ValD(i) == 16 * i                 \* two digits
MCSweep6Tiny == {Pattern(m, ValC) : m \in {0, 1, 37, 128, 255}}
MCSweep6Q == {Pattern(m, ValC) : m \in 0..255}
MCSweep6T == {Pattern(m, ValA) : m \in 0..255} \cup {Pattern(m, ValB) : m \in 0..255}
               \cup {Pattern(m, ValC) : m \in 0..255} \cup {Pattern(m, ValD) : m \in 0..255}
MCBase6 == {Zeros(8), [i \in 1..8 |-> 65535],
            <<8193, 3512, 0, 0, 0, 0, 0, 1>>,                         \* 2001:db8::1
            <<65152, 0, 0, 0, 514, 46079, 65054, 33577>>,             \* fe80::202:b3ff:fe1e:8329
            <<0, 0, 0, 0, 0, 65535, 258, 772>>,                       \* ::ffff:1.2.3.4
            <<0, 0, 0, 0, 0, 0, 258, 772>>,                           \* ::1.2.3.4
            <<65282, 0, 0, 0, 0, 0, 0, 1>>,                           \* ff02::1
            <<64768, 0, 0, 0, 0, 0, 0, 1>>,                           \* fd00::1
            <<32768, 0, 0, 0, 0, 0, 0, 0>>,                           \* 8000::
            <<32767, 65535, 65535, 65535, 65535, 65535, 65535, 65534>>}
MCBase6Tiny == {Zeros(8), <<8193, 3512, 0, 0, 0, 0, 0, 1>>, <<0, 0, 0, 0, 0, 65535, 258, 772>>}
MCFlip6Q == {1, 2, 3, 7, 8, 10, 16, 17, 32, 33, 64, 65, 96, 97, 127, 128}
MCFlip6T == 1..128
MCRich6 == {Zeros(8), <<1, 0, 0, 0, 0, 0, 0, 0>>, <<0, 0, 0, 0, 0, 0, 0, 1>>,
            <<1, 0, 0, 2, 0, 0, 0, 3>>, <<0, 0, 1, 0, 0, 1, 0, 0>>,
            <<0, 0, 0, 0, 0, 65535, 258, 772>>, <<1, 2, 3, 4, 5, 6, 7, 8>>,
            <<0, 2, 3, 4, 5, 6, 7, 0>>, <<0, 0, 0, 0, 0, 0, 258, 772>>,
            <<43981, 0, 0, 0, 0, 0, 4660, 0>>}
MCRich6Tiny == {<<1, 0, 0, 2, 0, 0, 0, 3>>, <<1, 2, 3, 4, 5, 6, 7, 8>>}

MCMacs == {Zeros(6), [i \in 1..6 |-> 255], <<1, 128, 194, 0, 0, 14>>, <<1, 128, 194, 0, 0, 15>>, <<1, 128, 194, 0, 0, 16>>,
           <<2, 0, 0, 0, 0, 1>>, <<10, 11, 12, 13, 14, 15>>, <<18, 52, 86, 120, 154, 188>>,
           <<1, 0, 94, 0, 0, 1>>, <<0, 16, 250, 194, 191, 213>>, <<3, 128, 194, 0, 0, 0>>,
           <<1, 128, 194, 0, 1, 0>>,
           \* octets that read as text: five / six colons, dashes, "1:2:3:", hexadecimal digits - a 6-byte
           \* binary address is an address whatever its bytes spell
           <<58, 58, 58, 58, 58, 1>>, <<58, 58, 58, 58, 58, 58>>, <<45, 45, 45, 45, 45, 7>>, <<49, 58, 50, 58, 51, 58>>,
           <<97, 97, 98, 98, 99, 99>>}
MCRichMacs == {<<10, 11, 12, 13, 14, 15>>, <<18, 52, 86, 120, 154, 188>>, Zeros(6), <<1, 2, 3, 4, 5, 171>>,
               <<160, 0, 11, 192, 13, 14>>}
MCMacsTiny == {Zeros(6), <<1, 128, 194, 0, 0, 14>>}
MCRichMacsTiny == {<<10, 11, 12, 13, 14, 15>>}

DpidSweep(X, Fill) == {[i \in 1..8 |-> IF i = p THEN x ELSE f] : p \in 1..8, x \in X, f \in Fill}
MCDpidsQ == DpidSweep({0, 1, 128, 255}, {0, 255}) \cup {<<0, 0, 0, 0, 0, 0, 0, 0>>, <<18, 52, 86, 120, 154, 188, 222, 240>>}
MCDpidsTiny == {<<0, 0, 0, 0, 0, 0, 0, 1>>, <<255, 255, 0, 0, 0, 0, 0, 0>>}
MCDpidsRTQ == DpidSweep(0..255, {0})
MCDpidsRTT == [1..8 -> {0, 1, 128, 255}]
MCNoDpids == {}
MCEmpty == {}

\* ---- domains per tier
MCWide4Q == OctetSweep(0..255, {0})
MCWide4T == OctetSweep(0..255, {0, 255, 170, 85})
MCSweep4QQ == OctetSweep(Edge8, {0, 255})
MCNet4Q == {<<0, 0, 0, 0>>, <<255, 255, 255, 255>>, <<10, 1, 2, 3>>, <<192, 168, 1, 77>>, <<128, 0, 0, 1>>, <<127, 255, 255, 254>>}
MCCidr4Q == {<<0, 0, 0, 0>>, <<255, 255, 255, 255>>, <<10, 1, 2, 3>>, <<172, 16, 254, 0>>}
MCNet6Q == {Zeros(8), <<8193, 3512, 0, 0, 0, 0, 0, 1>>, <<65152, 0, 0, 0, 514, 46079, 65054, 33577>>,
            <<0, 0, 0, 0, 0, 65535, 258, 772>>}
MCFlip6QQ == {1, 8, 9, 16, 17, 64, 65, 128}
MCCidr6Q == {Zeros(8), <<8193, 3512, 0, 0, 0, 0, 0, 1>>, <<65152, 0, 0, 0, 514, 46079, 65054, 33577>>}
\* micro domain of the coverage (vacuity) run
MCMicro4 == {<<10, 1, 2, 3>>, <<0, 0, 0, 0>>}
MCMicro6 == {<<8193, 3512, 0, 0, 0, 0, 0, 1>>, <<0, 0, 0, 0, 0, 65535, 258, 772>>, Zeros(8)}
MCMicroFlip == {1, 9}
MCMicroMac == {<<1, 128, 194, 0, 0, 14>>, Zeros(6)}
MCMicroDpid == {<<0, 1, 0, 0, 0, 0, 0, 2>>}
\* moderate domain for long random behaviours
MCSim4 == {<<10, 1, 2, 3>>, <<255, 255, 255, 255>>, <<128, 0, 0, 1>>, <<0, 0, 0, 128>>}
MCSim6 == {<<8193, 3512, 0, 0, 0, 0, 0, 1>>, <<0, 0, 0, 0, 0, 65535, 258, 772>>, Zeros(8),
           <<1, 0, 0, 2, 0, 0, 0, 3>>}

\* the alphabet must not silently lose a text to the "grey" class
AlphabetOK ==
  /\ \A k \in {"v4", "v6", "mac"} : k \in Areas => \A c \in KindTexts(k) : Parse(k, c.cs).k # "grey"
  /\ "dpid" \in Areas => \A d \in Dpids : \A c \in ValidTextDpid(d) \cup BadTextDpid(d) : DpidParse(c.cs).k # "grey"

ASSUME AlphabetOK
\* prefix length <-> netmask are inverse, for every prefix length
ASSUME \A b \in 0..32 : MaskToCidr(NetMask(b, 4, 8), 8) = b
ASSUME \A b \in 0..128 : MaskToCidr(NetMask(b, 8, 16), 16) = b
=============================================================================
