CONSTANTS
  Regs <- MCRegs6
  D = 3
INIT Init
NEXT Next
VIEW view
ACTION_CONSTRAINT ExportT
CHECK_DEADLOCK FALSE
