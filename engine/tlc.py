"""Run TLC and parse what it prints.

Everything the checks learn from TLC (state counts, per-action coverage,
exported behaviours, invariant violations) is parsed from TLC's own output.
"""
import json
import os
import re
import shutil
import subprocess
import tempfile
import time

VERIF = os.path.dirname(os.path.dirname(os.path.abspath(__file__)))
SPECS = os.path.join(VERIF, "specs")
WORK = os.path.join(VERIF, ".work")
JAR = "/opt/veriftools/tla/tla2tools.jar"
CP = JAR + ":/opt/veriftools/tla/CommunityModules-deps.jar"


class TLCError(Exception):
  """Machinery failure (parse error, TLC crash, timeout) - exit code 2."""


class TLCResult(object):
  def __init__(self):
    self.rc = None
    self.stdout = ""
    self.generated = 0
    self.distinct = 0
    self.depth = 0
    self.coverage = {}      # action name -> (distinct, generated)
    self.prints = []        # raw PrintT lines  <<"TAG", ...>>
    self.violated = None    # name of violated invariant / property, if any
    self.error_trace = ""
    self.wall = 0.0

  def tagged(self, tag):
    """JSON payloads of PrintT(<<tag, ToJson(x)>>) lines, decoded."""
    out = []
    pre = '<<"%s", ' % tag
    for ln in self.prints:
      if ln.startswith(pre) and ln.endswith(">>"):
        body = ln[len(pre):-2]
        out.append(json.loads(json.loads(body)))
    return out

  def tagged_raw(self, tag):
    pre = '<<"%s", ' % tag
    return [ln[len(pre):-2] for ln in self.prints
            if ln.startswith(pre) and ln.endswith(">>")]


_cov_re = re.compile(r"^<(\w+) line \d+, col \d+ to line \d+, col \d+ of module (\w+)(?: \([\d ]+\))?>: (\d+):(\d+)")
_states_re = re.compile(r"^(\d+) states generated, (\d+) distinct states found")
_depth_re = re.compile(r"depth of the complete state graph search is (\d+)")
_inv_re = re.compile(r"Invariant (\S+) is violated")
_prop_re = re.compile(r"(?:Temporal properties were violated|Action property (\S+) is violated|property (\S+) is violated)")


def workdir(tag):
  d = os.path.join(WORK, tag)
  os.makedirs(d, exist_ok=True)
  return tempfile.mkdtemp(prefix="tlc-", dir=d)


def run(spec_dir, module, cfg, workers=None, simulate=None, depth=None,
        seed=None, coverage=True, env=None, timeout=900, extra=(), tag="misc",
        deque=False, expect_violation=False, dfid=None):
  """Run TLC on specs/<spec_dir>/<module>.tla with <cfg>.

  simulate: None or dict(num=N[, file=prefix]) -> -simulate mode.
  Returns TLCResult.  Raises TLCError on a machinery failure.
  """
  d = os.path.join(SPECS, spec_dir)
  meta = workdir(tag)
  # a modest heap: the largest model here has a few million states; many TLC runs execute concurrently
  cmd = ["java", "-XX:+UseParallelGC", "-XX:ParallelGCThreads=4", "-Xmx" + os.environ.get("VERIF_TLC_XMX", "3g")]
  if deque:
    cmd.append("-Dtlc2.tool.queue.IStateQueue=StateDeque")
  cmd += ["-cp", CP, "tlc2.TLC", "-metadir", meta, "-noGenerateSpecTE"]
  if workers is None:
    workers = "auto"
  cmd += ["-workers", str(workers)]
  if coverage and not simulate:
    cmd += ["-coverage", "1"]
  if simulate:
    s = "num=%d" % simulate["num"]
    if "file" in simulate:
      s = "file=%s,%s" % (simulate["file"], s)
    cmd += ["-simulate", s]
  if depth is not None:
    cmd += ["-depth", str(depth)]
  if dfid is not None:
    cmd += ["-dfid", str(dfid)]
  if seed is not None:
    cmd += ["-seed", str(seed)]
  cmd += list(extra)
  cmd += ["-config", cfg, module + ".tla"]
  e = dict(os.environ)
  e.pop("JAVA_TOOL_OPTIONS", None)
  if env:
    e.update(env)
  t0 = time.time()
  for attempt in range(3):
    try:
      p = subprocess.run(cmd, cwd=d, env=e, stdout=subprocess.PIPE,
                         stderr=subprocess.STDOUT, timeout=timeout)
    except subprocess.TimeoutExpired:
      shutil.rmtree(meta, ignore_errors=True)
      raise TLCError("TLC timed out after %ss: %s %s" % (timeout, module, cfg))
    if p.returncode not in (-9, 137):
      break
    # killed from outside (the kernel's out-of-memory killer on a crowded machine): not a verdict, try again
    time.sleep(10 * (attempt + 1))
    shutil.rmtree(meta, ignore_errors=True)
    os.makedirs(meta, exist_ok=True)
  shutil.rmtree(meta, ignore_errors=True)
  r = TLCResult()
  r.wall = time.time() - t0
  r.rc = p.returncode
  r.stdout = p.stdout.decode("utf-8", "replace")
  in_err = False
  errl = []
  for ln in r.stdout.splitlines():
    if ln.startswith("<<\""):
      r.prints.append(ln)
      continue
    m = _cov_re.match(ln)
    if m:
      name = m.group(1)
      a, b = int(m.group(3)), int(m.group(4))
      old = r.coverage.get(name, (0, 0))
      r.coverage[name] = (old[0] + a, old[1] + b)
      continue
    m = _states_re.match(ln)
    if m:
      r.generated, r.distinct = int(m.group(1)), int(m.group(2))
      continue
    m = _depth_re.search(ln)
    if m:
      r.depth = int(m.group(1))
    m = _inv_re.search(ln)
    if m:
      r.violated = m.group(1)
      in_err = True
    m = _prop_re.search(ln)
    if m:
      r.violated = m.group(1) or m.group(2) or "temporal"
      in_err = True
    if ln.startswith("Error:"):
      in_err = True
    if in_err:
      errl.append(ln)
  r.error_trace = "\n".join(errl[:400])
  if r.violated is None and r.rc != 0 and not expect_violation:
    raise TLCError("TLC failed rc=%s on %s/%s %s:\n%s" %
                   (r.rc, spec_dir, module, cfg, r.stdout[-3000:]))
  return r


def require_coverage(res, actions, what=""):
  """Vacuity guard: every named action must have been taken at least once."""
  missing = [a for a in actions if res.coverage.get(a, (0, 0))[1] == 0]
  if missing:
    raise TLCError("vacuous model run %s: actions never taken: %s" %
                   (what, missing))


def run_many(jobs, parallel=6):
  """Run several independent TLC invocations concurrently.  jobs: list of dicts of run() keyword
  arguments (plus positional spec_dir, module, cfg).  Returns results in order; the first failure
  is re-raised after all have finished."""
  import concurrent.futures
  out = [None] * len(jobs)
  errs = []

  def one(i):
    j = dict(jobs[i])
    try:
      out[i] = run(j.pop("spec_dir"), j.pop("module"), j.pop("cfg"), **j)
    except Exception as e:      # noqa
      errs.append(e)
  with concurrent.futures.ThreadPoolExecutor(parallel) as ex:
    list(ex.map(one, range(len(jobs))))
  if errs:
    raise errs[0]
  return out
