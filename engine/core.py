"""Check context: verdicts, known findings, evidence, replay of behaviours."""
import hashlib
import json
import multiprocessing
import os
import sys
import time
import traceback

VERIF = os.path.dirname(os.path.dirname(os.path.abspath(__file__)))
REPO = os.environ.get("VERIF_REPO", "/repo")
EVIDENCE = os.path.join(VERIF, "evidence")
REPLAYS = os.path.join(VERIF, "replays")
KNOWN = os.path.join(VERIF, "KNOWN_FINDINGS.json")


class Machinery(Exception):
  """Harness/engine failure: exit 2, never a VIOLATION."""


class StepTimeout(BaseException):
  """Raised inside the code under test by the watchdog timer: the step did not return.  A BaseException so that
  `except Exception` in the code under test does not swallow it; the timer re-fires every second until the
  exception has propagated out of code that catches everything."""


STEP_TIMEOUT = float(os.environ.get("VERIF_STEP_TIMEOUT", "180"))     # one replayed step
ITEM_TIMEOUT = float(os.environ.get("VERIF_ITEM_TIMEOUT", "600"))     # one driver item


_WD = [0]


def _alarm(_sig, _frm):
  if _WD[0]:
    raise StepTimeout()


class watchdog(object):
  """with watchdog(seconds): ...  - SIGALRM based, main thread of a worker process only; no-op elsewhere."""
  def __init__(self, seconds):
    self.s = seconds
    self.on = False

  def __enter__(self):
    import signal, threading
    if self.s and threading.current_thread() is threading.main_thread():
      try:
        self.old = signal.signal(signal.SIGALRM, _alarm)
        _WD[0] += 1
        signal.setitimer(signal.ITIMER_REAL, self.s, 1.0)
        self.on = True
      except (ValueError, OSError):
        self.on = False
    return self

  def __exit__(self, *a):
    if self.on:
      import signal
      _WD[0] -= 1
      signal.setitimer(signal.ITIMER_REAL, 0)
      # never restore the default action: a SIGALRM already on its way must not kill this worker
      if callable(self.old) and self.old is not _alarm:
        signal.signal(signal.SIGALRM, self.old)
    return False


def canon(x):
  return json.dumps(x, sort_keys=True, separators=(",", ":"))


def fp(x):
  return hashlib.sha1(canon(x).encode()).hexdigest()[:16]


def load_known(pid):
  import glob
  ents = []
  files = [KNOWN] + sorted(glob.glob(os.path.join(VERIF, "findings.d", "*.json")))
  for f in files:
    if os.path.exists(f):
      ents.extend(json.load(open(f)).get("findings", []))
  return [e for e in ents
          if e.get("property") == pid and e.get("status") == "open"]


def sig_matches(entry_sig, sig):
  """Known-finding entry matches if every key it names has that value."""
  for k, v in entry_sig.items():
    if k not in sig:
      return False
    if isinstance(v, list) and not isinstance(sig[k], list):
      if sig[k] not in v:
        return False
    elif sig[k] != v:
      return False
  return True


class Context(object):
  def __init__(self, pid, tier, seed, level, clear=None):
    self.pid = pid
    self.tier = tier
    self.seed = seed
    self.level = level
    self.t0 = time.time()
    self.states = 0
    self.transitions = 0
    self.evaluations = 0
    self.traces = 0
    self.distinct = set()
    self.samples = []
    self.violations = []       # (signature, replay dict)
    self._per_sig = {}
    self.known_hits = {}       # what -> count
    self.known = load_known(pid)
    self.notes = {}
    self.assumptions = []
    self.rule = ""
    self.models = []
    self.exhaustive = False
    import glob
    if clear is None:
      clear = "--replay" not in sys.argv
    for f in (glob.glob(os.path.join(REPLAYS, "%s-*.json" % pid)) if clear else []):   # earlier runs' files are stale
      try:
        os.remove(f)
      except OSError:
        pass

  # ---- TLC bookkeeping
  def add_model(self, name, res, **kw):
    self.states += res.distinct
    self.transitions += res.generated
    d = dict(model=name, distinct_states=res.distinct,
             states_generated=res.generated, depth=res.depth,
             wall_s=round(res.wall, 2))
    d.update(kw)
    self.models.append(d)

  # ---- cases
  def case(self, key, nontrivial=True, sample=None):
    self.evaluations += 1
    if nontrivial:
      self.distinct.add(key if isinstance(key, str) else fp(key))
    if sample is not None and len(self.samples) < 5:
      self.samples.append(sample)

  # ---- verdicts
  def report(self, sig, replay):
    """A conformance failure.  Known finding -> recorded, else violation."""
    for e in self.known:
      if sig_matches(e["signature"], sig):
        w = e["what"]
        self.known_hits[w] = self.known_hits.get(w, 0) + 1
        return "known"
    # keep replay data for the first few failures of every distinct signature
    k = canon(sig)
    n = self._per_sig.get(k, 0)
    self._per_sig[k] = n + 1
    self.violations.append((sig, replay if n < 2 else None))
    return "violation"

  def finish(self):
    edir = EVIDENCE if not self.pid.startswith("X") else os.path.join(VERIF, "evidence_extra")
    if os.path.realpath(REPO) != "/repo" or os.environ.get("VERIF_EVIDENCE_DIR"):
      # a run against a scratch copy (self-tests, seeded changes) is not evidence about /repo
      edir = os.environ.get("VERIF_EVIDENCE_DIR") or os.path.join(VERIF, ".work", "evidence-scratch")
    os.makedirs(edir, exist_ok=True)
    rc = 0
    for w, n in sorted(self.known_hits.items()):
      print("KNOWN-FINDING: property=%s %s (hit %d times)" % (self.pid, w, n))
    if self.violations:
      rc = 1
      os.makedirs(REPLAYS, exist_ok=True)
      seen = set()
      k = 0
      for sig, rep in self.violations:
        s = canon(sig)
        if s in seen or rep is None:
          continue
        seen.add(s)
        k += 1
        if k > 25:
          break
        path = os.path.join(REPLAYS, "%s-%s.json" % (self.pid, fp(sig)))
        with open(path, "w") as f:
          json.dump(dict(property=self.pid, signature=sig, replay=rep,
                         seed=self.seed, tier=self.tier), f, indent=1,
                    default=str)
        print("VIOLATION property=%s replay=%s" % (self.pid, path))
        print("  signature: %s" % canon(sig))
    cov = dict(states=self.states, transitions=self.transitions,
               traces_validated_against_impl=self.traces,
               evaluations=self.evaluations,
               distinct_nontrivial=len(self.distinct),
               rule=self.rule, samples=self.samples[:5],
               exhaustive=self.exhaustive, models=self.models,
               known_findings_hit=self.known_hits)
    if self.violations:
      sc = {}
      for sig, _ in self.violations:
        sc[canon(sig)] = sc.get(canon(sig), 0) + 1
      cov["violation_signatures"] = sc
    cov.update(self.notes)
    ev = dict(property_id=self.pid, tier=self.tier, seed=self.seed,
              level=self.level, coverage=cov, assumptions=self.assumptions,
              wall_s=round(time.time() - self.t0, 2),
              violations=len(self.violations))
    with open(os.path.join(edir, self.pid + ".json"), "w") as f:
      json.dump(ev, f, indent=1, default=str)
    print("%s tier=%s: states=%d transitions=%d impl_traces=%d evaluations=%d "
          "distinct=%d violations=%d known=%d wall=%.1fs" %
          (self.pid, self.tier, self.states, self.transitions, self.traces,
           self.evaluations, len(self.distinct), len(self.violations),
           sum(self.known_hits.values()), time.time() - self.t0))
    return rc


# --------------------------------------------------------------------------
# Spec -> code replay

def _prefix_keys(beh):
  """key_i identifies (actions+args up to i, expectations before i)."""
  h = hashlib.sha1()
  keys = []
  for st in beh:
    h2 = h.copy()
    h2.update(canon([st["a"], st.get("args")]).encode())
    keys.append(h2.hexdigest())
    h = h2
    h.update(canon(st.get("exp")).encode())
  return keys


_ADAPTER = None


def _get_adapter(spec):
  global _ADAPTER
  if _ADAPTER is None or _ADAPTER[0] != spec:
    modname, clsname = spec.split(":")
    if REPO not in sys.path:
      sys.path.insert(0, REPO)
    if VERIF not in sys.path:
      sys.path.insert(0, VERIF)
    mod = __import__(modname, fromlist=[clsname])
    _ADAPTER = (spec, getattr(mod, clsname))
  return _ADAPTER[1]


def _replay_chunk(arg):
  spec, params, behs, allowed = arg
  try:
    cls = _get_adapter(spec)
    out = []
    for bi, beh in behs:
      keys = _prefix_keys(beh)
      try:
        ad = cls(**params)
      except Exception:
        return ("machinery", traceback.format_exc())
      res = ("ok", bi, len(beh), None)
      for i, st in enumerate(beh):
        try:
          with watchdog(STEP_TIMEOUT):
            obs = ad.step(st["a"], st.get("args"))
        except Machinery:
          return ("machinery", traceback.format_exc())
        except BaseException as e:
          # BaseException: a SystemExit / KeyboardInterrupt / StepTimeout escaping the code under test is an
          # observation (and must not kill the worker, which would hang the pool)
          obs = {"EXC": type(e).__name__, "msg": str(e)[:200],
                 "tb": traceback.format_exc()[-1500:]}
        obs = json.loads(canon(obs))
        exp = st.get("exp")
        if hasattr(ad, "normalize"):
          obs = ad.normalize(obs, exp)
        if canon(obs) != canon(exp) and hasattr(ad, "accept_alt") and ad.accept_alt(obs, st):
          # a permitted alternative outcome of a nondeterministic spec step
          res = ("diverted", bi, i, None)
          break
        if canon(obs) == canon(exp):
          continue
        ok_set = allowed.get(keys[i], ())
        cobs = canon(obs)
        if isinstance(obs, dict) and "EXC" in obs:
          cobs = None
        if cobs is not None and cobs in ok_set:
          res = ("diverted", bi, i, None)
        else:
          sig = ad.signature(st, obs) if hasattr(ad, "signature") else \
              {"action": st["a"]}
          res = ("mismatch", bi, i, dict(sig=sig, obs=obs, exp=exp))
        break
      try:
        if hasattr(ad, "close"):
          with watchdog(STEP_TIMEOUT):
            ad.close()
      except BaseException:
        pass
      out.append(res)
    return ("done", out)
  except BaseException:
    return ("machinery", traceback.format_exc())


def _pool_map(fn, args, procs):
  """map over worker processes (fork); a worker that dies (os._exit, signal, OOM) is a machinery failure
  instead of an endless wait."""
  from concurrent.futures import ProcessPoolExecutor
  from concurrent.futures.process import BrokenProcessPool
  mp = multiprocessing.get_context("fork")
  out = []
  try:
    with ProcessPoolExecutor(max_workers=procs, mp_context=mp) as ex:
      for r in ex.map(fn, args):
        out.append(r)
  except BrokenProcessPool:
    raise Machinery("a worker process died while running the code under test")
  return out


def replay(ctx, adapter_spec, behaviours, params=None, procs=None,
           nontrivial=lambda b: len(b) > 0, chunk=200):
  """Replay exported behaviours (lists of {a,args,exp}) into the real code."""
  params = params or {}
  behs = list(behaviours)
  # allowed observations per prefix (spec nondeterminism)
  allowed = {}
  for b in behs:
    for k, st in zip(_prefix_keys(b), b):
      allowed.setdefault(k, set()).add(canon(st.get("exp")))
  multi = {k: v for k, v in allowed.items() if len(v) > 1}
  idx = list(enumerate(behs))
  chunks = [idx[i:i + chunk] for i in range(0, len(idx), chunk)]
  args = [(adapter_spec, params, c, multi) for c in chunks]
  procs = procs or min(16, max(1, len(chunks)))
  results = []
  if procs == 1 or len(chunks) == 1:
    for a in args:
      results.append(_replay_chunk(a))
  else:
    results = _pool_map(_replay_chunk, args, procs)
  stats = dict(ok=0, diverted=0, mismatch=0)
  ok_idx = []
  for r in results:
    if r[0] == "machinery":
      raise Machinery("adapter failure:\n" + r[1])
    for kind, bi, i, info in r[1]:
      stats[kind] += 1
      if kind == "ok":
        ok_idx.append(bi)
      beh = behs[bi]
      ctx.traces += 1
      ctx.case(fp([[s["a"], s.get("args")] for s in beh]),
               nontrivial=nontrivial(beh),
               sample=beh if len(beh) <= 8 else beh[:8])
      if kind == "mismatch":
        ctx.report(info["sig"], dict(adapter=adapter_spec, params=params,
                                     behaviour=beh, failing_step=i,
                                     observed=info["obs"],
                                     expected=info["exp"]))
  replay.last_ok = sorted(ok_idx)       # indexes of behaviours replayed to the end (for negative controls)
  return stats


# --------------------------------------------------------------------------
# Code -> spec drivers (run in worker processes, return recorded traces)

def _drive_chunk(arg):
  spec, items = arg
  try:
    modname, fn = spec.split(":")
    if REPO not in sys.path:
      sys.path.insert(0, REPO)
    if VERIF not in sys.path:
      sys.path.insert(0, VERIF)
    f = getattr(__import__(modname, fromlist=[fn]), fn)
    out = []
    for x in items:
      with watchdog(ITEM_TIMEOUT):
        out.append(f(x))
    return ("done", out)
  except BaseException:
    return ("machinery", traceback.format_exc())


def run_driver(spec, items, procs=16, chunk=None):
  """Run driver function `module:function` over items in worker processes."""
  items = list(items)
  chunk = chunk or max(1, min(200, len(items) // (procs * 2) or 1))
  chunks = [(spec, items[i:i + chunk]) for i in range(0, len(items), chunk)]
  out = []
  for r in _pool_map(_drive_chunk, chunks, min(procs, len(chunks))):
    if r[0] == "machinery":
      raise Machinery("driver failure:\n" + r[1])
    out.extend(r[1])
  return out


def _drive_one(spec, item, q):
  r = _drive_chunk((spec, [item]))
  q.put(r)


def run_driver_guarded(spec, items, hung, procs=16, chunk=20, total_timeout=120, item_timeout=15, max_hung=4):
  """Like run_driver, but survives drivers that never return (code under test spinning in a way no
  in-process budget can interrupt).  If the pool has not finished within total_timeout it is torn down and
  the items of the unfinished chunks are re-run, one per process, under item_timeout; an item that still does
  not return yields hung(item).  After max_hung hung items the remaining unfinished items are not evaluated."""
  items = list(items)
  # wall-clock limits are scaled by how crowded the machine is: on a machine with a load average far above
  # its core count a healthy item may take many times its usual time, and that must never become a verdict
  try:
    crowd = max(1.0, os.getloadavg()[0] / (os.cpu_count() or 1))
  except OSError:
    crowd = 1.0
  total_timeout *= crowd
  item_timeout = item_timeout * crowd * 2
  chunks = [items[i:i + chunk] for i in range(0, len(items), chunk)]
  results = [None] * len(chunks)
  mp = multiprocessing.get_context("fork")
  pool = mp.Pool(min(procs, max(1, len(chunks))))
  pending = {i: pool.apply_async(_drive_chunk, ((spec, c),)) for i, c in enumerate(chunks)}
  deadline = time.time() + total_timeout
  stuck = []
  try:
    for i, ar in pending.items():
      try:
        results[i] = ar.get(max(0.5, deadline - time.time()))
      except multiprocessing.TimeoutError:
        stuck.append(i)
  finally:
    pool.terminate()
    pool.join()
  nhung = 0
  for i in stuck:
    out = []
    todo = list(chunks[i])
    while todo and nhung < max_hung:
      batch, todo = todo[:procs], todo[procs:]
      running = []
      for it in batch:
        q = mp.Queue()
        p = mp.Process(target=_drive_one, args=(spec, it, q))
        p.start()
        running.append((it, q, p))
      t_end = time.time() + item_timeout
      for it, q, p in running:
        try:
          r = q.get(timeout=max(0.5, t_end - time.time()))
          if r[0] != "done":
            raise Machinery("driver failure:\n" + r[1])
          out.append(r[1][0])
        except Machinery:
          raise
        except Exception:      # queue.Empty: the item hangs
          nhung += 1
          out.append(hung(it))
        finally:
          p.terminate()
          p.join()
    results[i] = ("done", out)
  flat = []
  for r in results:
    if r[0] == "machinery":
      raise Machinery("driver failure:\n" + r[1])
    flat.extend(r[1])
  return flat
