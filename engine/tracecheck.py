"""Code -> spec: validate recorded traces against a TLA+ trace specification.

Batch idiom: one JVM validates thousands of traces.  The trace spec has
variables tid (which trace) and l (position); CONSTRAINT Progress records the
longest matched prefix per trace in TLC registers; POSTCONDITION Accepted
prints <<"REJECT", tid, matched>> for every trace not matched to its end.
Runs with -workers 1 (registers are per worker) and CHECK_DEADLOCK FALSE.
"""
import json
import os
import re
import tempfile

from engine import tlc

_rej = re.compile(r'^<<"REJECT", (\d+), (\d+)>>')


def validate(spec_dir, module, cfg, traces, tag="trace", timeout=1800, extra_env=None, deque=True):
  """traces: list of lists of event dicts.  Returns (result, rejects) where
  rejects = [(trace index (0-based), matched prefix length)]."""
  if not traces:
    raise tlc.TLCError("no traces to validate")
  d = os.path.join(tlc.WORK, tag)
  os.makedirs(d, exist_ok=True)
  fd, path = tempfile.mkstemp(prefix="traces-", suffix=".json", dir=d)
  with os.fdopen(fd, "w") as f:
    json.dump(traces, f)
  env = {"TRACE_FILE": path}
  if extra_env:
    env.update(extra_env)
  try:
    r = tlc.run(spec_dir, module, cfg, workers=1, coverage=False, env=env,
                timeout=timeout, tag=tag, deque=deque, expect_violation=True)
  finally:
    os.unlink(path)
  rejects = []
  for ln in r.prints:
    m = _rej.match(ln)
    if m:
      rejects.append((int(m.group(1)) - 1, int(m.group(2))))
  ok_line = any(ln.startswith('<<"TRACES-CHECKED", %d>>' % len(traces)) for ln in r.prints)
  if not ok_line:
    raise tlc.TLCError("trace validation did not complete (%s %s):\n%s" %
                       (module, cfg, r.stdout[-3000:]))
  if r.violated and r.violated not in ("Accepted",):
    raise tlc.TLCError("trace validation: spec invariant %s violated on an implementation trace:\n%s"
                       % (r.violated, r.error_trace))
  return r, rejects
