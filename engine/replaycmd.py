"""Re-run one recorded replay file against the current tree."""
import json
from engine import core


def main(pid, path):
  d = json.load(open(path))
  rep = d["replay"]
  ctx = core.Context(pid, "quick", d.get("seed", 0), "model_checking")
  ctx.known = []
  if "behaviour" in rep:
    core.replay(ctx, rep["adapter"], [rep["behaviour"]], params=rep.get("params"), procs=1)
  else:
    print("replay file has no behaviour (trace-validation finding): rerun the check")
    return 2
  if ctx.violations:
    sig, r = ctx.violations[0]
    print("VIOLATION property=%s replay=%s" % (pid, path))
    print("  step %s expected %s observed %s" % (r["failing_step"], r["expected"], r["observed"]))
    return 1
  print("replay passes on the current tree")
  return 0
