"""Re-run one recorded replay file against the current tree."""
import importlib
import json

from engine import core


def main(pid, path):
  d = json.load(open(path))
  rep = d["replay"]
  ctx = core.Context(pid, "quick", d.get("seed", 0), "model_checking")
  ctx.known = []
  mod = importlib.import_module("props." + pid)
  if hasattr(mod, "replay_one"):
    mod.replay_one(ctx, rep)        # property-specific (trace-validation findings)
  elif "behaviour" in rep:
    core.replay(ctx, rep["adapter"], [rep["behaviour"]], params=rep.get("params"), procs=1)
  else:
    print("replay file has no behaviour and props.%s has no replay_one(): rerun the check" % pid)
    return 2
  if ctx.violations:
    sig, r = ctx.violations[0]
    print("VIOLATION property=%s replay=%s" % (pid, path))
    print("  signature: %s" % core.canon(sig))
    return 1
  print("replay passes on the current tree")
  return 0
