#!/usr/bin/env python3
"""tools/trydiff.py ID patch.diff [tier] : apply a patch to a scratch worktree of /repo HEAD, run ./check ID
against it (VERIF_REPO), remove the worktree.  /repo itself is never touched."""
import os, subprocess, sys, tempfile
pid, patch = sys.argv[1], os.path.abspath(sys.argv[2])
tier = sys.argv[3] if len(sys.argv) > 3 else "quick"
wt = tempfile.mkdtemp(prefix="seedrepo-", dir="/tmp"); os.rmdir(wt)
subprocess.run(["git", "-C", "/repo", "worktree", "add", "--detach", "-q", wt, "HEAD"], check=True)
try:
  a = subprocess.run(["git", "-C", wt, "apply", "--3way", patch], stdout=subprocess.PIPE, stderr=subprocess.STDOUT, text=True)
  if a.returncode:
    a = subprocess.run(["patch", "-p1", "-d", wt, "-i", patch], stdout=subprocess.PIPE, stderr=subprocess.STDOUT, text=True)
    if a.returncode:
      sys.exit("patch does not apply:\n" + a.stdout)
  env = dict(os.environ, VERIF_REPO=wt)
  r = subprocess.run(["./check", pid, "--tier", tier], cwd="/verif", stdout=subprocess.PIPE, stderr=subprocess.STDOUT, text=True, env=env)
finally:
  subprocess.run(["git", "-C", "/repo", "worktree", "remove", "--force", wt])
lines = [l for l in r.stdout.splitlines() if any(k in l for k in ("VIOLATION", "KNOWN", "MACHINERY", "tier=", "signature"))]
print("\n".join(lines[:8])); print("exit=%d" % r.returncode)
if r.returncode == 2:
  print(r.stdout[-1500:])
  open("/tmp/trydiff-%s-%s.log" % (pid, os.path.basename(os.path.dirname(patch))), "w").write(r.stdout)
sys.exit(r.returncode)
