#!/usr/bin/env python3
import json, sys
pid = sys.argv[1]
extra = sys.argv[2] if len(sys.argv) > 2 else ""
p = [json.loads(l) for l in open("/verif/properties.jsonl") if json.loads(l)["id"] == pid][0]
print(f"""You are building one verification check in an existing framework. Work carefully and autonomously; do not ask questions. You have several hours; depth and soundness matter more than speed.

## Context
/repo is noxrepo/pox (pure-Python OpenFlow 1.0 controller + software switch) at a pinned commit. /verif is a model-based verification framework: an explicit TLA+ specification per subsystem, model-checked with TLC, and BOUND to the real code by conformance checks (behaviours exported from TLC replayed into the real code; traces recorded from the real code validated by TLC against the spec). The sandbox is offline. Tools: tlc / pcal / tla-sany on PATH (TLA+ CommunityModules available), python = /venv/bin/python (3.12, can import the repo).

FIRST read /verif/BUILDING.md completely, then the files it lists (the C18 check is the worked template: specs/buffers/*, harness/adapters_c18.py, props/C18.py, engine/*.py, harness/*.py), then /verif/DESIGN.md sections 2, 2.8, the "### {pid}" subsection of section 3, and section 6 (defects already noticed). Then read the anchored source files of the property thoroughly before writing the spec.

## The property you own: {pid} - {p['title']}
Statement: {p['statement']}
Quantifier: {json.dumps(p['quantifier'])}
Why tests can't settle it: {p['why_tests_cant']}
Anchors: {json.dumps(p['anchors'])}

## Deliverables (write ONLY these paths; other agents work in parallel on other properties)
- /verif/specs/<area>/*.tla + *.cfg        the TLA+ spec(s), MC configs, export configs, trace spec (area name as in DESIGN.md section 0 for {pid}; create the directory)
- /verif/harness/adapters_{pid.lower()}.py  (plus harness/{pid.lower()}_*.py helpers if needed)
- /verif/props/{pid}.py                     run(ctx) for tiers quick and thorough
- /verif/tools/checks.d/{pid}.json          {{"{pid}": {{"level": "model_checking"|"fault_enumeration"|"exploration", "technique": "...", "text": "...", "note": "..."}}}} (same shape as the C18 entry in tools/checks.json; honest about bounds and what is NOT covered)
- /verif/findings.d/{pid}.json              {{"findings": [ ... ]}} entries (property, status open|fixed, signature, what) for genuine defects of /repo (see below)
- /verif/proposed_fixes/{pid}/NN-short-name.patch (+ NN-short-name.msg with a commit message whose first line starts "fix:") for each genuine defect with a small, safe, maintainer-quality repair
- /verif/notes/{pid}.md                     what the spec models, bounds, which code paths are bound, false alarms you hit and how you corrected the spec/harness, mutations you tried and whether they were caught, anything NOT covered
You may read but must NOT edit: engine/*, harness/poxenv.py, harness/rawbytes.py, harness/swharness.py, check, MANIFEST.json, KNOWN_FINDINGS.json, DESIGN.md, properties.jsonl, other properties' files. If you need a helper that those lack, put it in your own harness/{pid.lower()}_*.py. If you believe an engine file has a bug, describe it in your notes file and work around it locally.
Do NOT run `git commit`/`git add` anywhere, and NEVER modify /repo itself.

## Working copy of the code under test
Create a scratch copy for your experiments: `git -C /repo worktree add --detach /tmp/build-{pid}/repo HEAD` and run your check against it with `VERIF_REPO=/tmp/build-{pid}/repo ./check {pid}` (the framework reads VERIF_REPO; default /repo). Apply your proposed fixes there (and only there) to confirm that (a) the check fails/prints the finding without the fix, (b) passes with it, and (c) the repository's own tests still pass: `cd /tmp/build-{pid}/repo && /venv/bin/python -m pytest -q -p no:cacheprovider tests/unit 2>&1 | tail -3` must still show the same 46 passing tests as /repo does (19 failures/errors pre-exist). Patches must be generated with `git -C /tmp/build-{pid}/repo diff` (one patch per defect, applying cleanly to /repo HEAD independently where possible; say so in the .msg if a patch depends on another). When finished remove the worktree: `git -C /repo worktree remove --force /tmp/build-{pid}/repo`. Other agents may propose fixes to the same files; keep patches minimal.
Also run the final check once against /repo itself (unpatched for your fixes): every failure there must then be either covered by a patch in proposed_fixes (tell me which) or by an open finding.

## Rules that decide success
1. The TLA+ spec is the main deliverable and the oracle. Every verdict must come from comparing the real code's behaviour with the spec (replay of TLC-exported behaviours, or TLC validating recorded traces). Do not write a plain Python property test and call it a check. TLC must also model-check the property on the spec itself (invariants / action properties; liveness where the property says "eventually"), with the vacuity guard (tlc.require_coverage).
2. No false alarms: the spec must be exactly as permissive as the property statement (DESIGN 2.8). A legitimate refactoring of the code that keeps the property must still pass. When the check rejects something on the unchanged tree, read the code and decide: genuine defect of the code (=> proposed fix or open finding with a SPECIFIC signature), or spec/harness too strict (=> correct it and record in notes). Never weaken a check that is right.
3. Detection power: drive the real code through its real entry points (bytes through real decoders, real events), compare after every step, cover every action of the spec (coverage), include boundary values. Then try at least 5 realistic mutations of the anchored code in your scratch worktree (off-by-one, dropped call, swapped order, wrong comparison, stale state; subtle ones that the existing unit tests do not catch) and make sure the quick tier catches each; strengthen the check where it misses. Record them in notes.
4. Determinism and budget: quick tier <= ~90 s wall, thorough <= ~15 min on 16 cores (other agents share the machine now, so measure with `time` and leave margin). Use ctx.seed for all randomness. Exit codes per BUILDING.md. TLC scratch under /verif/.work only (the engine does this). Nothing the check needs may live under /tmp.
5. Evidence: `./check {pid}` must write /verif/evidence/{pid}.json that validates against /root/.vp/EVIDENCE.schema.json (the engine does this if you use ctx properly: add_model for TLC runs, ctx.case / core.replay for implementation runs, ctx.rule, ctx.assumptions, samples). Validate with: /opt/veriftools/pyvenv/bin/python -c "import json,jsonschema; jsonschema.validate(json.load(open('/verif/evidence/{pid}.json')), json.load(open('/root/.vp/EVIDENCE.schema.json')))".
{extra}
## Final report (your last message)
Summarise: spec files and what they model; TLC state counts; how many behaviours/traces are replayed/validated per tier and wall time; each genuine defect found (failing input/history, patch file or open finding); mutations tried and caught/missed; known limits. Be precise and honest; unverified claims are worse than stated gaps.
""")
