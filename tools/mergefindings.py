#!/usr/bin/env python3
"""Merge findings.d/<ID>.json into KNOWN_FINDINGS.json: 'fixed' entries that name a proposed patch get the
commit hash of the fix: commit whose subject equals the first line of the patch's .msg."""
import json, os, subprocess, sys
V = "/verif"
log = subprocess.run(["git", "-C", "/repo", "log", "--format=%h\t%s"], stdout=subprocess.PIPE, text=True).stdout.splitlines()
subj = {l.split("\t", 1)[1]: l.split("\t", 1)[0] for l in log}
k = json.load(open(V + "/KNOWN_FINDINGS.json"))
for pid in sys.argv[1:]:
  f = "%s/findings.d/%s.json" % (V, pid)
  for e in json.load(open(f))["findings"]:
    e = dict(e)
    if e.get("status") == "fixed":
      patch = e.pop("patch", None)
      commit = None
      if patch:
        msg = open(os.path.join(V, patch.replace(".patch", ".msg"))).readline().strip()
        commit = subj.get(msg)
      if not commit:
        print("no commit for", pid, patch); continue
      e["commit"] = commit
      w = e["what"]
      for pre in ("fixed-by-patch: property=%s " % pid, "fixed: property=%s " % pid):
        if w.startswith(pre): w = w[len(pre):]
      e["what"] = "fixed: property=%s %s %s" % (pid, commit, w)
    k["findings"].append(e)
  os.remove(f)
json.dump(k, open(V + "/KNOWN_FINDINGS.json", "w"), indent=1)
print(len(k["findings"]), "entries")
