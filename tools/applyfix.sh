#!/bin/bash
# tools/applyfix.sh <ID> <NN-name> : apply proposed_fixes/<ID>/<NN-name>.patch to /repo, run the baseline, commit with the .msg
set -e
ID=$1; N=$2; P=/verif/proposed_fixes/$ID/$N.patch; M=/verif/proposed_fixes/$ID/$N.msg
cd /repo
git diff --quiet || { echo "/repo dirty"; exit 2; }
git apply --3way "$P" || { echo "PATCH FAILED: $P"; git checkout -- . ; exit 1; }
if ! /verif/tools/baseline.py; then echo "BASELINE BROKEN by $P"; git checkout -- .; git reset -q; exit 1; fi
head -1 "$M" | grep -q '^fix:' || { echo "message must start with fix:"; git checkout -- .; exit 1; }
# strip verification-framework chatter from the commit message
python3 - "$M" > /tmp/fixmsg.$$ <<'PY'
import sys, re
t = open(sys.argv[1]).read()
paras = t.strip().split("\n\n")
keep = [p for p in paras if not re.search(r"/verif|Found by|Independent of|\.tla|DESIGN defect|property C\d\d", p)]
print("\n\n".join(keep))
PY
git add -A && git commit -q -F /tmp/fixmsg.$$ && rm -f /tmp/fixmsg.$$
git log --oneline | head -1
