#!/usr/bin/env python3
"""Regenerate MANIFEST.json and levels.json from tools/checks.json (single source)."""
import json, os
V = os.path.dirname(os.path.dirname(os.path.abspath(__file__)))
props = [json.loads(l) for l in open(os.path.join(V, "properties.jsonl"))]
checks = json.load(open(os.path.join(V, "tools", "checks.json")))
import glob
enabled = set(checks.get("_enabled", []))
for f in sorted(glob.glob(os.path.join(V, "tools", "checks.d", "*.json"))):
  for k, v in json.load(open(f)).items():
    if k in enabled:          # fragments are merged only once integrated
      checks[k] = v
repo_commits = checks.get("_hook_commits", [])
m = {"version": 1,
     "setup_cmd": "cd /verif && /venv/bin/python tools/setup_check.py",
     "hooks": {"guard": "NOXREPO_POX_VERIF",
               "enable": "checks export NOXREPO_POX_VERIF=1 and import /repo's working tree directly (pure Python, nothing to build); all observation is by in-process monkeypatching from /verif/harness",
               "baseline_off_cmd": "/verif/tools/baseline.py",
               "source_commits": repo_commits, "add_only": True},
     "engines": [{"name": "tlc-conformance", "path": "/verif/check",
                  "serves_properties": sorted(k for k in checks if not k.startswith("_")),
                  "kind_free_text": "TLA+ specs under specs/ model-checked with TLC; behaviours exported from TLC replayed into the real code (spec->code) and traces recorded from the real code validated by TLC (code->spec)"}],
     "checks": [], "not_applicable": [],
     "notes": "See DESIGN.md. ./check <ID> --tier quick|thorough; exit 2 = machinery failure. KNOWN_FINDINGS.json lists open/fixed defects."}
levels = {}
for p in props:
  c = checks.get(p["id"])
  if not c:
    m["not_applicable"].append({"property_id": p["id"], "reason": checks.get("_na", {}).get(p["id"], "check not built yet (work in progress; DESIGN.md section 3 has the plan)")})
    continue
  levels[p["id"]] = c["level"]
  m["checks"].append({
    "property_id": p["id"],
    "quick_cmd": "./check %s --tier quick" % p["id"],
    "thorough_cmd": "./check %s --tier thorough" % p["id"],
    "evidence_file": "/verif/evidence/%s.json" % p["id"],
    "replay_cmd_template": "./check %s --replay {path}" % p["id"],
    "engine": "tlc-conformance",
    "level_claimed": {"category": c["level"], "text": c["text"], "design_ref": c.get("design_ref", "DESIGN.md section 3, " + p["id"])},
    "level_note": c["note"],
    "technique": c["technique"]})
json.dump(m, open(os.path.join(V, "MANIFEST.json"), "w"), indent=1)
json.dump(levels, open(os.path.join(V, "levels.json"), "w"), indent=1)
print("manifest: %d checks, %d not_applicable" % (len(m["checks"]), len(m["not_applicable"])))
