#!/usr/bin/env python3
"""Run the repository's baseline suite (guard OFF) and compare with BASELINE.json."""
import json, os, subprocess, sys, tempfile
import xml.etree.ElementTree as ET
base = json.load(open("/root/.vp/BASELINE.json"))
repo = os.environ.get("VERIF_REPO", "/repo")
extra = [a for a in sys.argv[1:] if not a.startswith("--junitxml")]
keep = [a.split("=", 1)[1] for a in sys.argv[1:] if a.startswith("--junitxml=")]
out = keep[0] if keep else tempfile.mktemp(suffix=".xml")
env = dict(os.environ); env.pop("NOXREPO_POX_VERIF", None)
env["PYTHONDONTWRITEBYTECODE"] = "1"
subprocess.run(["/venv/bin/python", "-m", "pytest", "-ra", "-q", "-p", "no:cacheprovider", "--timeout=900",
                "--continue-on-collection-errors", "--junitxml=" + out] + extra, cwd=repo, env=env,
               stdout=subprocess.DEVNULL, stderr=subprocess.DEVNULL)
passed = set()
for tc in ET.parse(out).getroot().iter("testcase"):
  if not list(tc):
    passed.add("%s::%s" % (tc.get("classname"), tc.get("name")))
if not keep:
  os.unlink(out)
missing = [t for t in base["stable_pass"] if t not in passed]
print("baseline: %d/%d stable tests pass" % (len(base["stable_pass"]) - len(missing), len(base["stable_pass"])))
for m in missing: print("  MISSING", m)
sys.exit(1 if missing else 0)
