#!/usr/bin/env python3
"""tools/adv_prompt_hist.py <ID> <round> : adversary brief (tools/adv_prompt.py) plus the list of changes earlier adversaries
already produced for the property (seeded/<ID>-*/meta.json), written to /tmp/prompts/adv-<ID>-<round>.txt"""
import os; os.makedirs("/tmp/prompts", exist_ok=True)
import json,glob,subprocess,sys
pid=sys.argv[1]; k=sys.argv[2]
base=subprocess.run(["python3","/verif/tools/adv_prompt.py",pid,k],capture_output=True,text=True).stdout
prev=[]
for d in sorted(glob.glob(f"/verif/seeded/{pid}-*/meta.json")):
    m=json.load(open(d)); prev.append("  - ("+",".join(m.get("files",[]))+") "+m.get("summary","")[:260].replace("\n"," "))
extra="\n\nChanges that earlier adversaries already produced for this property (do NOT repeat these; choose different functions, mechanisms, options, message types or code paths - the property's quantifier is wide, explore corners of it that these do not touch, including less obvious anchored files and cooperating sites):\n"+"\n".join(prev)+"\n"
open(f"/tmp/prompts/adv-{pid}-{k}.txt","w").write(base+extra)
