#!/usr/bin/env python3
"""tools/seedmatrix.py [ID ...] : run every kept seeded change (seeded/<ID>-<n>/patch.diff) against its check
in a scratch worktree of /repo HEAD and write seeded/MATRIX.md + update each meta.json (detected_by_check)."""
import glob, json, os, subprocess, sys, time
V = "/verif"
want = set(sys.argv[1:])
rows = []
for d in sorted(glob.glob(V + "/seeded/*/")):
  name = os.path.basename(d.rstrip("/"))
  pid = name.split("-")[0]
  if want and pid not in want:
    continue
  meta = json.load(open(d + "meta.json"))
  t0 = time.time()
  r = subprocess.run([V + "/tools/trydiff.py", pid, d + "patch.diff"], stdout=subprocess.PIPE, stderr=subprocess.STDOUT, text=True)
  out = r.stdout.strip().splitlines()
  sig = [l.strip() for l in out if "signature" in l][:1]
  det = r.returncode == 1
  meta["detected_by_check"] = det
  meta["check_output"] = sig
  meta["checked_at_repo_head"] = subprocess.run(["git", "-C", "/repo", "rev-parse", "--short", "HEAD"], stdout=subprocess.PIPE, text=True).stdout.strip()
  json.dump(meta, open(d + "meta.json", "w"), indent=1)
  rows.append((name, pid, "detected" if det else ("NOT APPLICABLE (patch no longer applies)" if "does not apply" in r.stdout else "MISSED (exit %d)" % r.returncode),
               meta.get("summary", "")[:110].replace("|", "/"), sig[0][:120] if sig else "", round(time.time() - t0)))
  print(rows[-1], flush=True)
with open(V + "/seeded/MATRIX.md", "a" if want else "w") as f:
  if not want:
    f.write("# Seeded changes vs checks\n\nEach row: an independently produced change that breaks the property and passes the repository's tests, "
            "re-run against `./check <ID> --tier quick` in a scratch worktree of /repo HEAD.\n\n| seed | property | result | what the change does | first reported signature | s |\n|---|---|---|---|---|---|\n")
  for r in rows:
    f.write("| %s | %s | %s | %s | `%s` | %s |\n" % r)
