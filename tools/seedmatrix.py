#!/usr/bin/env python3
"""tools/seedmatrix.py [-j N] [--missed] [ID | ID-n ...] : run kept seeded changes (seeded/<ID>-<n>/patch.diff) against
their check in scratch worktrees of /repo HEAD, update each meta.json (detected_by_check) and regenerate
seeded/MATRIX.md from all meta.json files."""
import glob, json, os, subprocess, sys, time
from concurrent.futures import ThreadPoolExecutor
V = "/verif"
args = sys.argv[1:]
jobs = 1
only_missed = False
if "-j" in args:
  i = args.index("-j"); jobs = int(args[i + 1]); del args[i:i + 2]
if "--missed" in args:
  args.remove("--missed"); only_missed = True
want = set(args)
head = subprocess.run(["git", "-C", "/repo", "rev-parse", "--short", "HEAD"], stdout=subprocess.PIPE, text=True).stdout.strip()


def one(d):
  name = os.path.basename(d.rstrip("/"))
  pid = name.split("-")[0]
  meta = json.load(open(d + "meta.json"))
  t0 = time.time()
  r = subprocess.run([V + "/tools/trydiff.py", pid, d + "patch.diff"], stdout=subprocess.PIPE, stderr=subprocess.STDOUT, text=True)
  out = r.stdout.strip().splitlines()
  sig = [l.strip() for l in out if "signature" in l][:1]
  det = r.returncode == 1
  meta["detected_by_check"] = det
  meta["check_output"] = sig
  meta["check_result"] = "detected" if det else ("NOT APPLICABLE (patch no longer applies)" if "does not apply" in r.stdout else "MISSED (exit %d)" % r.returncode)
  meta["check_seconds"] = round(time.time() - t0)
  meta["checked_at_repo_head"] = head
  json.dump(meta, open(d + "meta.json", "w"), indent=1)
  print(name, meta["check_result"], sig[0][:140] if sig else "", meta["check_seconds"], flush=True)


todo = []
for d in sorted(glob.glob(V + "/seeded/*/")):
  name = os.path.basename(d.rstrip("/"))
  pid = name.split("-")[0]
  if want and pid not in want and name not in want:
    continue
  if only_missed and json.load(open(d + "meta.json")).get("detected_by_check"):
    continue
  todo.append(d)
with ThreadPoolExecutor(jobs) as ex:
  list(ex.map(one, todo))

with open(V + "/seeded/MATRIX.md", "w") as f:
  f.write("# Seeded changes vs checks\n\nEach row: an independently produced change that breaks the property and passes the repository's tests, "
          "re-run against `./check <ID> --tier quick` in a scratch worktree of /repo HEAD.\n\n| seed | property | result | at | what the change does | first reported signature | s |\n|---|---|---|---|---|---|---|\n")
  for d in sorted(glob.glob(V + "/seeded/*/")):
    name = os.path.basename(d.rstrip("/"))
    m = json.load(open(d + "meta.json"))
    sig = m.get("check_output") or []
    res = m.get("check_result") or ("detected" if m.get("detected_by_check") else "MISSED")
    f.write("| %s | %s | %s | %s | %s | `%s` | %s |\n" % (name, name.split("-")[0], res, m.get("checked_at_repo_head", m.get("repo_head_when_confirmed", "")),
                                                       str(m.get("summary", ""))[:110].replace("|", "/"), sig[0][:120] if sig else "", m.get("check_seconds", "")))
