#!/usr/bin/env python3
"""print a markdown table of what each check is and what its last quick run covered (from MANIFEST + evidence)"""
import json, glob, os
V = "/verif"
m = json.load(open(V + "/MANIFEST.json"))
import re
print("| id | level | specs | TLC states / transitions | impl. executions | wall s (quick) |")
print("|---|---|---|---|---|---|")
for c in m["checks"]:
  pid = c["property_id"]
  ev = json.load(open("%s/evidence/%s.json" % (V, pid)))
  cov = ev["coverage"]
  specs = sorted(set(re.findall(r"specs/[\w/]+\.tla|\b\w+\.tla", c["technique"] + " " + c["level_claimed"]["text"])))
  print("| %s | %s | %s | %s / %s | %s | %s |" % (pid, ev["level"], ", ".join(s.split("/")[-1] for s in specs)[:80], cov.get("states"), cov.get("transitions"),
        cov.get("traces_validated_against_impl") or cov.get("evaluations"), ev["wall_s"]))
