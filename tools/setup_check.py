#!/venv/bin/python
"""Offline setup: nothing to build; verify the toolchain the checks need is present."""
import os, shutil, subprocess, sys
ok = True
for tool in ("java",):
  if not shutil.which(tool):
    print("missing", tool); ok = False
if not os.path.exists("/opt/veriftools/tla/tla2tools.jar"):
  print("missing tla2tools.jar"); ok = False
os.makedirs("/verif/.work", exist_ok=True)
os.makedirs("/verif/evidence", exist_ok=True)
os.makedirs("/verif/replays", exist_ok=True)
print("setup ok" if ok else "setup FAILED")
sys.exit(0 if ok else 1)
