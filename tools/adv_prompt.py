#!/usr/bin/env python3
import json, sys
pid = sys.argv[1]; k = sys.argv[2] if len(sys.argv) > 2 else "1"
p = [json.loads(l) for l in open("/verif/properties.jsonl") if json.loads(l)["id"] == pid][0]
wt = f"/tmp/adv-{pid}-{k}"
print(f"""You are a careful software engineer acting as an adversary for a verification effort. Do NOT read anything under /verif (you have no need to, and it would invalidate the exercise). Work only inside your own scratch git worktree of the repository.

Setup (run first):
  git -C /repo worktree add --detach {wt}/repo HEAD
  mkdir -p {wt}/out
The repository is noxrepo/pox (a pure-Python OpenFlow 1.0 controller and software switch). Python is /venv/bin/python. The existing test suite is run with:
  cd {wt}/repo && /venv/bin/python -m pytest -q -p no:cacheprovider --timeout=900 --continue-on-collection-errors 2>&1 | tail -5
On the unmodified tree it reports 46 passed and 19 failed/errors (those failures pre-exist and are not your concern; the SAME 46 tests must still pass after your change).

The property (a semantic property of the code base that should always hold):
  {pid} - {p['title']}
  Statement: {p['statement']}
  Scope of the quantifier: {p['quantifier']['text']}
  Code it is anchored in: {', '.join(p['anchors']['files'])}
  Mechanisms that make it hold: {json.dumps(p['anchors']['mechanism'])}

Your task: produce {3 if k=='1' else 2} DIFFERENT, independent changes to the source under {wt}/repo/pox (not tests) each of which
  (a) breaks the property above (a realistic regression a developer could plausibly introduce: an off-by-one, a reordered pair of statements, a dropped or misplaced call, a wrong comparison, stale state, a missed case - NOT sabotage like raising exceptions unconditionally, and not a syntax/import error),
  (b) still lets the whole existing test suite pass exactly as before (the same 46 tests pass), and the code still imports and runs normally,
  (c) needs something SPECIFIC to manifest - a particular interleaving or ordering, a fault at a particular point, a multi-step sequence of operations, an unusual but legal input, or two cooperating sites that each look fine alone - i.e. ordinary simple use would not expose it at once.
For each change i (1, 2, ...) write into {wt}/out/:
  change<i>.diff    - `git -C {wt}/repo diff` of that change ALONE relative to HEAD (reset the tree between changes with `git -C {wt}/repo checkout -- .`)
  demo<i>.py        - a small standalone program (run as `/venv/bin/python demo<i>.py <path-to-repo-root>`; it must put that path first on sys.path and use only the repo and the standard library) that exits 0 on the unmodified repository and exits 1 (printing what went wrong) when the change is applied. It must demonstrate a violation of the PROPERTY as stated, through public behaviour, not merely detect that the source text changed. Note: `import pox.core` leaves `pox.core.core` as None unless 'unittest' is already imported or you call `pox.core.initialize(...)`; logging noise can be silenced with the logging module.
  meta<i>.json      - {{"property": "{pid}", "summary": "...", "needs_to_manifest": "...", "files": [...], "why_tests_still_pass": "..."}}
Never use `git stash` (stashes are shared between worktrees and other people work in sibling worktrees): save with `git diff > file`, reset with `git checkout -- .`, re-apply with `git apply file`. Verify each change yourself: tests still pass with it (same 46), demo exits 1 with it and 0 without it (run the demo against a clean checkout, e.g. after `git checkout -- .`). Prefer changes in different functions/mechanisms from each other, and subtle ones over blatant ones.
When done, remove the worktree but keep the out directory: `git -C /repo worktree remove --force {wt}/repo`.
Final message: list the changes with one line each and confirm the verification you performed. Do not commit anything anywhere, and never modify /repo itself.""")
