#!/usr/bin/env python3
"""tools/extra_prompt.py <XID> : brief for a builder agent that extends the specification to a subsystem
outside the 20 listed properties (specs grow to cover the system's behaviour).  Areas are defined below."""
import sys
AREAS = {
 "X01": ("dhcpd", "DHCP server lease state machine",
         "pox/proto/dhcpd.py (DHCPD, SimpleAddressPool, offers/leases, lease expiry, DISCOVER/REQUEST/RELEASE/DECLINE/INFORM handling over real DHCP packets in real packet-ins, through a real SoftwareSwitch or a recorded connection)",
         "an address is leased to at most one client at a time; an OFFER/ACK is only for an address in the pool and not leased to someone else; a REQUEST for an address not offered/leased to that client is NAKed or ignored, never ACKed; expiry/release return the address to the pool exactly once; the pool never hands out more addresses than it has; replies carry the client's xid/chaddr and the configured options"),
 "X02": ("flowsync", "Controller-side flow-table mirror (topology OFSyncFlowTable / SwitchFlowTable)",
         "pox/openflow/topology.py (OFSyncFlowTable: pending/installed entries, barrier-confirmed installation and removal, FlowTableModification events, reconnect handling) and pox/openflow/flow_table.py (SwitchFlowTable / FlowTable used by it), driven against a real SoftwareSwitch over OpenFlow bytes",
         "after every barrier reply the mirror's installed set equals the switch's real table for the operations issued through it; an entry is reported installed only after the barrier that follows its flow-mod; removals (strict and non-strict) remove exactly the matching entries on both sides; pending operations are never lost or applied twice, also across connection down/up"),
 "X03": ("forwarding", "Other forwarding components behave like their ideal bridge",
         "pox/forwarding/hub.py, pox/forwarding/l2_pairs.py, pox/forwarding/l2_multi.py (with openflow.discovery) and pox/forwarding/l2_nx.py / l2_nx_self_learning.py if the switch supports what they need - in a network of real SoftwareSwitches over the real OpenFlow encoding (see specs/learning/LearningNet.tla, harness/adapters_c11.py and notes/C11.md for how C11 does this for l2_learning; reuse that substrate, do not edit it)",
         "hub: every frame leaves every other port exactly once; l2_pairs / l2_multi: a frame to a known address is delivered to that host and only there (once the path is installed), unknown/broadcast are flooded without loops or duplicates, nothing goes back out the ingress port, buffers are released; l2_multi: installed paths follow links that exist, are loop-free, and are re-computed after a link goes down"),
 "X04": ("keepalive", "Echo keepalive and recoco Timer",
         "pox/openflow/keepalive.py (periodic echo requests, disconnect of connections that stay idle past the timeout) and pox/lib/recoco/recoco.py Timer (one-shot/recurring, absolute time, cancel, started/selfStoppable, handler returning False) under the harness's virtual clock (see specs/recoco/Sched.tla, harness/adapters_c06.py and harness/poxenv.py for the scheduler substrate; reuse, do not edit)",
         "a recurring Timer fires once per interval, never after cancel(), never twice for one expiry; a one-shot fires exactly once at its time; keepalive: a connection that answers echo requests is never disconnected, a silent one is disconnected within interval+timeout and only that one; no echo is sent on a closed connection"),
 "X05": ("l3", "l3_learning / arp_responder ARP and buffer bookkeeping",
         "pox/forwarding/l3_learning.py (arpTable with timeouts, lost_buffers: packets waiting for ARP with expiry, outstanding_arps, fakeways) and pox/proto/arp_responder.py (ARP table with static/learned entries and expiry, answers, eat_packets) over real packets through a real SoftwareSwitch",
         "an ARP request for a known address is answered with the right MAC and only then; entries expire exactly after their timeout (virtual time) and static ones never; every packet buffered while waiting for ARP is either forwarded when the reply arrives or its buffer released when it expires - never both, never leaked; the number of waiting buffers per destination is bounded as the code documents; learned (ip -> mac, port) follows the most recent packet"),
 "X06": ("nat", "NAT translation table",
         "pox/misc/nat.py (NAT: outside/inside ports, Record objects, port allocation, expiry of idle mappings, flow installation for both directions, ICMP/TCP/UDP handling) over real packets through a real SoftwareSwitch",
         "no two live mappings share an outside port; a mapping's forward and reverse flows are inverse to each other; replies from outside reach exactly the inside host/port that opened the mapping; a mapping is removed only after it has been idle for the timeout and its port becomes reusable only then; ports are allocated within the configured range"),
 "X07": ("lb", "ip_loadbalancer server liveness and flow memory",
         "pox/misc/ip_loadbalancer.py (iplb: live_servers via ARP probing with timeouts, MemoryEntry flow memory with expiry/refresh, server selection, forward/reverse flow installation) over real packets through a real SoftwareSwitch under the virtual clock",
         "traffic of one client flow always goes to the same live server while its memory entry is live; a server that stops answering probes is removed within the probe timeout and gets no NEW flows; reverse traffic is rewritten back to the service address; expired memory entries are dropped exactly once; with no live server nothing is forwarded"),
}
xid = sys.argv[1]
area, title, code, props = AREAS[xid]
lo = xid.lower()
print(f"""You are extending an existing model-based verification framework to one more subsystem. Work carefully and autonomously; do not ask questions. You have a few hours; soundness and a faithful, implementation-shaped specification matter more than breadth.

## Context
/repo is noxrepo/pox (pure-Python OpenFlow 1.0 controller + software switch). /verif is a model-based verification framework: an explicit TLA+ specification per subsystem, model-checked with TLC, and BOUND to the real code by conformance checks (behaviours exported from TLC replayed into the real code; traces recorded from the real code validated by TLC against the spec). 20 listed properties (C01..C20) are done. Your job is an EXTRA area ({xid}): the specification should keep growing to cover the system's behaviour beyond the listed properties. The sandbox is offline. Tools: tlc / pcal / tla-sany on PATH (TLA+ CommunityModules available), python = /venv/bin/python (3.12, can import the repo).

FIRST read /verif/BUILDING.md completely, then the files it lists (the C18 check is the worked template: specs/buffers/*, harness/adapters_c18.py, props/C18.py, engine/*.py, harness/poxenv.py, harness/rawbytes.py, harness/swharness.py), and /verif/DESIGN.md sections 2 and 2.8. Then read the source of your area thoroughly before writing the spec.

## Your area: {xid} - {title}
Code: {code}
What the specification should state and the checks should decide (refine these after reading the code - state precisely what you settled on in your notes; where the code documents a different intent, follow the documented intent and say so):
  {props}

## Deliverables (write ONLY these paths; other agents work in parallel)
- /verif/specs/{area}/*.tla + *.cfg          the TLA+ spec (variables = abstract state, one named action per operation / linearization point of the code, properties as invariants / action properties / liveness), MC configs (small exhaustive constants, VIEW hiding history), export configs, trace spec
- /verif/harness/adapters_{lo}.py  (plus harness/{lo}_*.py helpers if needed)
- /verif/props/{xid}.py                      run(ctx) for tiers quick and thorough (`./check {xid} --tier quick|thorough`; evidence goes to /verif/evidence_extra/{xid}.json automatically)
- /verif/notes/{xid}.md                      what the spec models, bounds, which code paths are bound, false alarms you hit and how you corrected the spec/harness, mutations you tried and whether they were caught, anything NOT covered; and a section "Defects observed" (see below)
You may read but must NOT edit anything else (engine/*, other harness files, other specs, check, MANIFEST.json, KNOWN_FINDINGS.json, DESIGN.md, properties.jsonl). Do NOT run git commit/add anywhere, and NEVER modify /repo itself.

## Working copy
For mutation experiments create a scratch copy: `git -C /repo worktree add --detach /tmp/build-{xid}/repo HEAD`, run your check against it with `VERIF_REPO=/tmp/build-{xid}/repo ./check {xid}`; remove it when finished: `git -C /repo worktree remove --force /tmp/build-{xid}/repo`. Never `pkill` (other agents run TLC too); kill only PIDs you started. Never use git stash.

## Rules that decide success
1. The TLA+ spec is the deliverable and the oracle. Every verdict comes from comparing the real code's behaviour with the spec (replay of TLC-exported behaviours into the real code with comparison after EVERY step, and/or TLC validating recorded traces with all invariants evaluated at each step, plus a corrupted trace as negative control). TLC must also model-check the properties on the spec itself with the vacuity guard (tlc.require_coverage).
2. Structure the spec like the implementation (multi-step things as several actions; model what the code does, name deliberate deviations). Time is virtual: use the harness clock (poxenv) - never sleep.
3. Drive the real code through its real entry points: real packets (built with pox.lib.packet or harness/rawbytes.py) arriving as packet-ins from a real SoftwareSwitch (harness/swharness.py) or a recording connection; observe real OpenFlow messages / emitted frames.
4. The check must PASS (exit 0) on /repo as it is. If the code genuinely violates what its own documentation/intent says (reproducible, with the failing history), do NOT edit /repo and do not make the check fail: model the actual behaviour as a NAMED deviation action in the spec, list it under "Defects observed" in your notes with the failing history and the one-line repair you would propose, and keep a spec constant (e.g. Strict = TRUE/FALSE) that turns the deviation off so that the strict run demonstrably rejects it (run that in your notes, not in run(ctx)).
5. Detection power: try at least 4 realistic mutations of the area's code in your scratch worktree (off-by-one, dropped call, swapped order, wrong comparison, stale state) and make sure the quick tier catches each; strengthen the check where it misses; record them.
6. Determinism and budget: quick tier <= ~60 s wall, thorough <= ~8 min on 16 cores (others share the machine: measure with `time`, leave margin). Use ctx.seed for all randomness. Exit codes per BUILDING.md. TLC scratch under /verif/.work only (the engine does that). Nothing the check needs may live under /tmp.

## Final report (your last message)
Spec files and what they model; TLC state counts; behaviours/traces replayed/validated per tier and wall time; defects observed; mutations tried and caught/missed; limits. Be precise and honest.
""")
