#!/usr/bin/env python3
"""tools/keepround.py <round> <ID> : confirm and keep every change in /tmp/adv-<ID>-<round>/out (tools/keepseed.py),
numbering them after the existing seeded/<ID>-<n> directories."""
import glob, os, re, subprocess, sys
rnd, pid = sys.argv[1:3]
out = "/tmp/adv-%s-%s/out" % (pid, rnd)
ns = [int(re.search(r"-(\d+)$", d.rstrip("/")).group(1)) for d in glob.glob("/verif/seeded/%s-*/" % pid)]
n = max(ns or [0])
for f in sorted(glob.glob(out + "/change*.diff")):
  i = re.search(r"change(\d+)\.diff", f).group(1)
  if not (os.path.exists(out + "/demo%s.py" % i) and os.path.exists(out + "/meta%s.json" % i)):
    print(pid, i, "incomplete"); continue
  n += 1
  r = subprocess.run(["python3", "/verif/tools/keepseed.py", out, i, pid, "%s-%d" % (pid, n)], stdout=subprocess.PIPE, stderr=subprocess.STDOUT, text=True)
  tail = [l for l in r.stdout.splitlines() if "kept as" in l or "NOT KEPT" in l or "check_exit" in l or "signature" in l]
  print(pid, i, "->", "%s-%d" % (pid, n), " | ".join(t.strip() for t in tail)[:400], flush=True)
  if "NOT KEPT" in r.stdout:
    n -= 1
    print(r.stdout[-1200:])
