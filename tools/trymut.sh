#!/bin/bash
# usage: tools/trymut.sh <patch.diff> <ID> [tier]   -- apply patch to /repo, run check, revert
set -u
P=$(readlink -f "$1"); ID=$2; TIER=${3:-quick}
cd /repo || exit 2
if ! git diff --quiet; then echo "/repo has uncommitted changes"; exit 2; fi
git apply "$P" || { echo "patch does not apply"; exit 2; }
cd /verif && ./check "$ID" --tier "$TIER" > /tmp/trymut.$$.log 2>&1; rc=$?
git -C /repo checkout -- . 
grep -E "VIOLATION|KNOWN-FINDING|MACHINERY|tier=" /tmp/trymut.$$.log | head -8
rm -f /tmp/trymut.$$.log
echo "exit=$rc"
exit $rc
