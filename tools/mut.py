#!/usr/bin/env python3
"""tools/mut.py ID file old new [tier] : in-place mutate /repo/<file>, run ./check ID, revert.  For self-tests."""
import subprocess, sys
pid, f, old, new = sys.argv[1:5]
tier = sys.argv[5] if len(sys.argv) > 5 else "quick"
path = "/repo/" + f
if subprocess.run(["git", "-C", "/repo", "diff", "--quiet"]).returncode:
  sys.exit("/repo dirty")
s = open(path).read()
old = old.encode().decode("unicode_escape"); new = new.encode().decode("unicode_escape")
if s.count(old) != 1:
  sys.exit("pattern occurs %d times" % s.count(old))
open(path, "w").write(s.replace(old, new))
try:
  r = subprocess.run(["./check", pid, "--tier", tier], cwd="/verif", stdout=subprocess.PIPE, stderr=subprocess.STDOUT, text=True)
finally:
  subprocess.run(["git", "-C", "/repo", "checkout", "--", "."])
lines = [l for l in r.stdout.splitlines() if any(k in l for k in ("VIOLATION", "KNOWN", "MACHINERY", "tier=", "signature"))]
print("\n".join(lines[:10])); print("exit=%d" % r.returncode)
