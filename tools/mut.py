#!/usr/bin/env python3
"""tools/mut.py ID file old new [tier] : mutate a scratch worktree of /repo, run ./check ID against it
(VERIF_REPO), remove the worktree.  Self-test helper: /repo itself is never touched."""
import os, subprocess, sys, tempfile, shutil
pid, f, old, new = sys.argv[1:5]
tier = sys.argv[5] if len(sys.argv) > 5 else "quick"
wt = tempfile.mkdtemp(prefix="mutrepo-", dir="/tmp")
os.rmdir(wt)
subprocess.run(["git", "-C", "/repo", "worktree", "add", "--detach", "-q", wt, "HEAD"], check=True)
try:
  path = os.path.join(wt, f)
  s = open(path).read()
  old = old.encode().decode("unicode_escape"); new = new.encode().decode("unicode_escape")
  if s.count(old) != 1:
    sys.exit("pattern occurs %d times" % s.count(old))
  open(path, "w").write(s.replace(old, new))
  env = dict(os.environ, VERIF_REPO=wt)
  # evidence/replays of a mutation run must not overwrite the real ones
  r = subprocess.run(["./check", pid, "--tier", tier], cwd="/verif", stdout=subprocess.PIPE, stderr=subprocess.STDOUT, text=True, env=env)
finally:
  subprocess.run(["git", "-C", "/repo", "worktree", "remove", "--force", wt])
lines = [l for l in r.stdout.splitlines() if any(k in l for k in ("VIOLATION", "KNOWN", "MACHINERY", "tier=", "signature"))]
print("\n".join(lines[:8])); print("exit=%d" % r.returncode)
if r.returncode == 2: print(r.stdout[-1500:])
