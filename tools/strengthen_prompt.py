#!/usr/bin/env python3
"""tools/strengthen_prompt.py <ID> <seed> [<seed> ...] : brief for an agent that extends the specification and the
conformance binding of one property so that the named seeded changes (seeded/<seed>/), which the current check
misses, are detected - by modelling the behaviour they touch, not by special-casing them."""
import json, sys
pid = sys.argv[1]; seeds = sys.argv[2:]
p = [json.loads(l) for l in open("/verif/properties.jsonl") if json.loads(l)["id"] == pid][0]
lo = pid.lower()
sd = "\n".join("  /verif/seeded/%s/  (patch.diff = the change, demo.py = a program that exits 1 with the change and 0 without, meta.json = what it needs to manifest)" % s for s in seeds)
print(f"""You are strengthening one verification check in an existing model-based verification framework. Work carefully and autonomously; do not ask questions. Soundness (no false alarm on correct code) matters more than anything else; detection power comes second; speed third.

## Context
/repo is noxrepo/pox (pure-Python OpenFlow 1.0 controller + software switch). /verif is a model-based verification framework: an explicit TLA+ specification per property, model-checked with TLC, and BOUND to the real code by conformance checks (behaviours exported from TLC replayed into the real code; traces recorded from the real code validated by TLC against the spec). The sandbox is offline. Tools: tlc / pcal / tla-sany on PATH (TLA+ CommunityModules available), python = /venv/bin/python (3.12, can import the repo). The machine is shared with other agents: use at most 8 TLC workers in your own experiments, wrap long commands in `timeout`, never `pkill` by pattern (kill only PIDs you started), never use git stash.

FIRST read /verif/BUILDING.md completely. Then read the check you own: /verif/props/{pid}.py, /verif/harness/adapters_{lo}.py and the other harness/{lo}_*.py files, the spec directory it uses under /verif/specs/, /verif/notes/{pid}.md (if present), and the "### {pid}" subsection of /verif/DESIGN.md section 3 plus section 2.8 (where specs must stay permissive).

## The property: {pid} - {p['title']}
Statement: {p['statement']}
Quantifier: {json.dumps(p['quantifier'])}
Anchors: {json.dumps(p['anchors'])}

## The gap
Independent adversaries produced changes to /repo that break this property while the repository's tests still pass. `./check {pid} --tier quick` does NOT detect these (it exits 0 on a tree with the change applied):
{sd}
Each of them is a symptom that the specification / the conformance binding does not yet cover some behaviour the property statement quantifies over. Your job is to EXTEND THE SPECIFICATION AND ITS BINDING to cover that behaviour class in general (new actions / new dimensions of existing actions / new value classes in the TLA+ spec, exported by TLC and replayed into the real code, or recorded from the real code and validated by TLC) - so that these changes, and their obvious siblings (the same kind of mistake at a neighbouring site, option or message type), are detected by the QUICK tier. Do not special-case the particular inputs of the demos, do not add plain Python assertions that bypass the spec: the verdict must keep coming from the comparison of the real code with the TLA+ spec. Read the seeds, understand which dimension of the property's quantifier is unexplored, then think about what ELSE in that dimension is unexplored and cover that too.

## How to work
1. Scratch copy of the code: `git -C /repo worktree add --detach /tmp/str-{pid}/repo HEAD`; run the check against it with `cd /verif && VERIF_REPO=/tmp/str-{pid}/repo ./check {pid} --tier quick`. Apply a seed with `git -C /tmp/str-{pid}/repo apply /verif/seeded/<seed>/patch.diff`, undo with `git -C /tmp/str-{pid}/repo checkout -- .`. NEVER modify /repo itself. Remove the worktree when finished: `git -C /repo worktree remove --force /tmp/str-{pid}/repo`.
2. Edit ONLY: /verif/props/{pid}.py, /verif/harness/adapters_{lo}.py, /verif/harness/{lo}_*.py, the spec directory/directories that props/{pid}.py already uses under /verif/specs/ (new .tla/.cfg files there are fine), /verif/notes/{pid}.md, and the "{pid}" entry of /verif/tools/checks.d/{pid}.json if it exists (its "text"/"note"/"technique" describe what the check covers - keep them truthful after your extension; if the file does not exist, put the updated description into your final report instead). Do not touch engine/*, other properties' files, MANIFEST.json, KNOWN_FINDINGS.json, DESIGN.md, properties.jsonl. Do NOT run git add / git commit.
3. Acceptance (all must hold; report the evidence):
   a. `./check {pid} --tier quick` exits 0 on the UNCHANGED tree (/repo) for VERIF_SEED=0, 1, 2 and 7 (run all four), prints no VIOLATION line, and the TLC model checking of the extended spec still passes with the vacuity guard (every new action covered).
   b. With each listed seed applied to the scratch worktree the quick tier exits 1 with a VIOLATION line whose signature points at the behaviour concerned. All previously detected seeds of this property (the other /verif/seeded/{pid}-*/ directories with "detected_by_check": true in meta.json) must still be detected - re-run at least three of them.
   c. `./check {pid} --tier thorough` still exits 0 on /repo.
   d. Quick tier wall time stays <= ~90 s measured on an otherwise idle machine (the machine is busy now: compare with the time of the unmodified check measured under the same load, and keep the increase below ~30%); thorough <= ~15 min.
   e. If your extension makes the check reject something on the UNCHANGED tree, triage it by reading the code: if the code genuinely violates the property statement (reproducible through public behaviour), do NOT hide it and do NOT edit /repo: write a minimal maintainer-quality patch to /verif/proposed_fixes/{pid}/NN-name.patch (+ .msg, first line starting "fix:") verified in your scratch worktree (check passes with it, the repository's tests `cd /tmp/str-{pid}/repo && /venv/bin/python -m pytest -q -p no:cacheprovider tests/unit 2>&1 | tail -3` keep the same passing set), add an entry to /verif/findings.d/{pid}.json ({{"findings":[{{"property":"{pid}","status":"open","patch":"proposed_fixes/{pid}/NN-name.patch","signature":{{...specific...}},"what":"open: property={pid} ..."}}]}}) so the check exits 0 with a KNOWN-FINDING line until I apply the patch, and tell me. If instead the spec/harness demands more than the property states, correct the spec/harness (DESIGN 2.8) and note it.
4. Add a section "Round-4 strengthening" to /verif/notes/{pid}.md: what was missing, what the spec now models, new TLC state counts, which seeds are now caught and by which signature, false alarms met and how they were resolved, what is still not covered.

## Final report (your last message)
Files changed; what the spec now models that it did not; results of acceptance steps a-e with numbers (exit codes, wall times, TLC states); any proposed fix / finding; remaining gaps. Be precise and honest; an unverified claim is worse than a stated gap.
""")
