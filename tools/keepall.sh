#!/bin/bash
# tools/keepall.sh <round> ID... : confirm and keep every change<i> of /tmp/adv-<ID>-<round>/out (next free seeded/<ID>-<n>)
R=$1; shift
for ID in "$@"; do
  out=/tmp/adv-$ID-$R/out
  for i in 1 2 3; do
    [ -f $out/change$i.diff ] || continue
    [ -f $out/kept$i ] && continue
    n=1; while [ -d /verif/seeded/$ID-$n ]; do n=$((n+1)); done
    echo "== $ID change$i -> $ID-$n"
    python3 /verif/tools/keepseed.py $out $i $ID $ID-$n 2>&1 | grep -E "kept as|NOT KEPT|check_exit|demo_|baseline_ok|signature" | head -12
    touch $out/kept$i
  done
done
