#!/usr/bin/env python3
"""tools/keepseed.py <adv_out_dir> <i> <ID> <seed-name> : confirm an adversary change myself and keep it.
Checks in a scratch worktree of /repo HEAD: demo exits 0 on the clean tree, patch applies, demo exits 1 with
it, the 46 baseline tests still pass with it; then runs ./check ID (quick) against the patched scratch tree.
Stores patch.diff, demo.py, meta.json under /verif/seeded/<seed-name>/ ."""
import json, os, shutil, subprocess, sys, tempfile
out, i, pid, name = sys.argv[1:5]
diff = os.path.join(out, "change%s.diff" % i); demo = os.path.join(out, "demo%s.py" % i)
meta = json.load(open(os.path.join(out, "meta%s.json" % i)))
wt = tempfile.mkdtemp(prefix="keep-", dir="/tmp"); os.rmdir(wt)
subprocess.run(["git", "-C", "/repo", "worktree", "add", "--detach", "-q", wt, "HEAD"], check=True)
res = {}
try:
  def rundemo():
    return subprocess.run(["/venv/bin/python", demo, wt], stdout=subprocess.PIPE, stderr=subprocess.STDOUT, text=True, timeout=600)
  r0 = rundemo(); res["demo_clean_exit"] = r0.returncode
  a = subprocess.run(["git", "-C", wt, "apply", "--3way", diff], stdout=subprocess.PIPE, stderr=subprocess.STDOUT, text=True)
  res["applies"] = a.returncode == 0
  if a.returncode: print(a.stdout)
  r1 = rundemo(); res["demo_patched_exit"] = r1.returncode; res["demo_patched_tail"] = r1.stdout[-400:]
  b = subprocess.run(["/verif/tools/baseline.py"], env=dict(os.environ, VERIF_REPO=wt), stdout=subprocess.PIPE, text=True)
  res["baseline_with_change"] = b.stdout.strip().splitlines()[0] if b.stdout else "?"
  res["baseline_ok"] = b.returncode == 0
  c = subprocess.run(["./check", pid, "--tier", "quick"], cwd="/verif", env=dict(os.environ, VERIF_REPO=wt), stdout=subprocess.PIPE, stderr=subprocess.STDOUT, text=True)
  res["check_exit"] = c.returncode
  res["check_lines"] = [l for l in c.stdout.splitlines() if "VIOLATION" in l or "signature" in l][:4]
finally:
  subprocess.run(["git", "-C", "/repo", "worktree", "remove", "--force", wt])
ok = res.get("demo_clean_exit") == 0 and res.get("applies") and res.get("demo_patched_exit") == 1 and res.get("baseline_ok")
print(json.dumps(res, indent=1))
if not ok:
  sys.exit("NOT KEPT: confirmation failed")
d = os.path.join("/verif/seeded", name); os.makedirs(d, exist_ok=True)
shutil.copy(diff, os.path.join(d, "patch.diff")); shutil.copy(demo, os.path.join(d, "demo.py"))
meta.update({"breaks_property": pid, "confirmed": {"demo_on_clean_tree_exit": 0, "demo_with_change_exit": 1,
             "baseline_46_pass_with_change": True,
             "commands": ["/venv/bin/python demo.py <scratch worktree> (clean, then with patch.diff applied)",
                          "VERIF_REPO=<scratch> /verif/tools/baseline.py", "VERIF_REPO=<scratch> ./check %s --tier quick" % pid]},
             "detected_by_check": res["check_exit"] == 1, "check_output": res["check_lines"],
             "repo_head_when_confirmed": subprocess.run(["git", "-C", "/repo", "rev-parse", "--short", "HEAD"], stdout=subprocess.PIPE, text=True).stdout.strip()})
json.dump(meta, open(os.path.join(d, "meta.json"), "w"), indent=1)
print("kept as", d, "detected:", res["check_exit"] == 1)
