"""X01 - DHCP server lease state machine (pox/proto/dhcpd.py).

1. TLC model-checks specs/dhcpd/Dhcpd.tla: the INTENDED design (Strict = TRUE) satisfies the property
   (an address is held by at most one client, grants only of own-or-free usable addresses, NAK for foreign
   addresses, release/expiry return an address exactly once, nothing leaks, no handler faults, replies carry
   xid / chaddr / options); the model that also admits the code's three named deviations (Strict = FALSE)
   satisfies the weaker invariants.  Every named action must be taken (vacuity guard).
2. spec -> code: one behaviour per transition of the state graph of the model of the code AS BUILT (Both =
   FALSE, pool[0] as implemented), and long random walks, replayed on the real DHCPD behind a real
   SoftwareSwitch and a real of_01.Connection (harness/x01_net.py): client frames built with struct, replies
   decoded with struct, comparison after every step (reply, DHCPLease event, handler fault, offers/leases/pool).
   Where the spec leaves a choice (which free address a fresh OFFER names; intended outcome instead of a
   deviation) the behaviour carries the alternatives and the replay accepts them (counted as diverted).
3. code -> spec: seeded random client populations drive the real server; TLC validates every recorded trace
   against the permissive model (Both = TRUE, any free address), invariants evaluated at every step; two
   corrupted traces are negative controls.

`python -m props.X01 strict` (not part of the check) shows that the intended design rejects the code as built.
"""
import copy
import json
import random
import sys
import time

from engine import tlc, core, tracecheck

ADAPTER = "harness.adapters_x01:Adapter"

INTENDED = ["ConnUp", "DiscoverLeased", "DiscoverOffered", "DiscoverExhausted", "DiscoverWanted", "DiscoverPick",
            "RequestNoOpt", "RequestNak", "RequestAckLease", "RequestAckOffer", "RequestAckFree",
            "RequestVetoAborts", "ReleaseBadChaddr", "ReleaseUnleased", "ReleaseOk", "DeclineIgnored",
            "InformIgnored", "JunkIgnored", "NotServed"]
DEVIATIONS = ["RequestAckKeepsOffer", "RequestVetoKeepsLease", "TickNoExpiry"]
FAULTS = ["RequestFault", "ReleaseFault"]          # SimpleAddressPool only

# (cfg, label, actions that must be covered)
MODELS = {
    "quick": [
        ("MC_strict_c3n2.cfg", "intended design, 3 clients, 2 addresses", INTENDED + ["TickExpire"]),
        ("MC_strict_c3n3s.cfg", "intended design, 3 clients, range of 3 incl. the server's address, 3 ports",
         INTENDED + ["TickExpire"]),
        ("MC_strict_list_c3n2.cfg", "intended design, list pool", INTENDED + ["TickExpire"]),
        ("MC_asbuilt_c3n2.cfg", "with the code's deviations, 3 clients, 2 addresses", INTENDED + DEVIATIONS + FAULTS),
        ("MC_asbuilt_list_c2n2.cfg", "with the code's deviations, list pool, 2 clients",
         [a for a in INTENDED if a != "DiscoverExhausted"] + DEVIATIONS),
        ("LIVE_strict_c2n2.cfg", "intended design, liveness (LeaseEnds, AddressReturns under WF(TickExpire)), 2 clients",
         ["TickExpire", "DiscoverPick", "RequestAckOffer", "RequestAckFree", "ReleaseOk"]),
    ],
    "thorough": [
        ("MC_strict_c3n2.cfg", "intended design, 3 clients, 2 addresses", INTENDED + ["TickExpire"]),
        ("MC_strict_c3n3s.cfg", "intended design, 3 clients, range of 3 incl. the server's address, 3 ports",
         INTENDED + ["TickExpire"]),
        ("MC_strict_c3n3.cfg", "intended design, 3 clients, 3 addresses, 3 ports",
         [a for a in INTENDED if a != "DiscoverExhausted"] + ["TickExpire"]),
        ("MC_strict_list_c3n2.cfg", "intended design, list pool", INTENDED + ["TickExpire"]),
        ("MC_asbuilt_c3n2.cfg", "with the code's deviations, 3 clients, 2 addresses", INTENDED + DEVIATIONS + FAULTS),
        ("MC_asbuilt_c3n3.cfg", "with the code's deviations, 3 clients, 3 addresses",
         [a for a in INTENDED if a != "DiscoverExhausted"] + DEVIATIONS + FAULTS),
        ("MC_asbuilt_list_c3n2.cfg", "with the code's deviations, list pool, 3 clients", INTENDED + DEVIATIONS),
        ("LIVE_strict_c2n2.cfg", "intended design, liveness (LeaseEnds, AddressReturns under WF(TickExpire)), 2 clients",
         ["TickExpire", "DiscoverPick", "RequestAckOffer", "RequestAckFree", "ReleaseOk"]),
        ("LIVE_strict_c3n2.cfg", "intended design, liveness (LeaseEnds, AddressReturns under WF(TickExpire)), 3 clients",
         ["TickExpire", "DiscoverPick", "DiscoverExhausted", "RequestAckOffer", "RequestAckFree", "ReleaseOk"]),
    ],
}

P_C2N2 = dict(clients=["c1", "c2"], N=2, srv=0, nports=2, served=[1], veto=[["c2", 1]])
P_C3N2 = dict(clients=["c1", "c2", "c3"], N=2, srv=0, nports=2, served=[1], veto=[["c3", 1]])
P_C3N2S = dict(clients=["c1", "c2", "c3"], N=2, srv=2, nports=2, served=[1], veto=[["c3", 1]])
P_C3N3S = dict(clients=["c1", "c2", "c3"], N=3, srv=2, nports=2, served=[1], veto=[["c3", 1]])
P_SIM = dict(clients=["c1", "c2", "c3"], N=3, srv=2, nports=3, served=[1, 2], veto=[["c3", 1]])
P_SIM_LIST = dict(clients=["c1", "c2", "c3"], N=2, srv=0, nports=3, served=[1, 2], veto=[["c3", 1]], kind="list",
                  has_router=False)
P_SIM_NOR = dict(clients=["c1", "c2", "c3"], N=2, srv=0, nports=3, served=[1, 2], veto=[], has_router=False,
                 has_dns=False)
# (cfg, adapter params, keep every k-th behaviour (None = all))
EDGES = {
    "quick": [("EX_edges_c2n2.cfg", P_C2N2, None),
              ("EX_edges_list_c2n2.cfg", dict(P_C2N2, kind="list"), 10),
              ("EX_edges_c3n2s.cfg", P_C3N2S, 4)],
    "thorough": [("EX_edges_c2n2.cfg", P_C2N2, None),
                 ("EX_edges_list_c2n2.cfg", dict(P_C2N2, kind="list"), None),
                 ("EX_edges_c3n2s.cfg", P_C3N2S, None),
                 ("EX_edges_c3n2.cfg", P_C3N2, 2),
                 ("EX_edges_c3n3s.cfg", P_C3N3S, 6)],
}
# (cfg, adapter params, number of walks, depth)
SIMS = {
    "quick": [("EX_sim.cfg", P_SIM, 60, 40), ("EX_sim_list.cfg", P_SIM_LIST, 30, 40),
              ("EX_sim_norouter.cfg", P_SIM_NOR, 30, 40)],
    "thorough": [("EX_sim60.cfg", P_SIM, 1500, 60), ("EX_sim_list60.cfg", P_SIM_LIST, 600, 60),
                 ("EX_sim_norouter60.cfg", P_SIM_NOR, 400, 60)],
}
NVARIANTS = 6


def _nontrivial(b):
  return any(s["a"] in ("Discover", "Request", "Release") for s in b)


def _replay(ctx, behs, params, label, base=0):
  """Replay under NVARIANTS concretisations (networks, MAC families, dpids, xids): behaviour i runs under variant
  base + i mod NVARIANTS, named in its ConnUp step (arguments are not compared)."""
  for i, b in enumerate(behs):
    if b and b[0]["a"] == "ConnUp":
      b[0]["args"]["variant"] = base + i % NVARIANTS
  st = core.replay(ctx, ADAPTER, behs, params=dict(params, seed=ctx.seed), nontrivial=_nontrivial, chunk=100)
  ctx.notes["replay_" + label] = dict(behaviours=len(behs), **st)
  return st


def _decode(r, tag, kind, keep=None, offset=0):
  """Decode every keep-th exported behaviour only (decoding all of a large export is the cost)."""
  from harness.adapters_x01 import canon_exp, canon_free
  raw = r.tagged_raw(tag)
  r.stdout, r.prints = "", []          # a large export is hundreds of MB of text: let go of it
  total = len(raw)
  if keep:
    raw = raw[offset % keep::keep]
  return [canon_free(canon_exp(json.loads(json.loads(x))), kind) for x in raw], total


def run(ctx):
  quick = ctx.tier == "quick"
  ctx.rule = ("behaviours exported by TLC from Dhcpd.tla (model of the server as built: one behaviour per transition "
              "of its state graph = shortest path to every state + each outgoing transition; plus -simulate walks) "
              "replayed on the real DHCPD behind a real SoftwareSwitch and of_01.Connection, comparison of reply "
              "frame / DHCPLease event / handler fault / offers, leases, pool after every step; traces of seeded "
              "random client populations validated by TLC against the permissive model; distinct = distinct "
              "action/argument sequences; non-trivial = contains a DISCOVER, REQUEST or RELEASE")
  ctx.assumptions = [
      "bounds: <= 3 clients, address range <= 3 (server's own address inside or outside), 3 ports, 5 xids, "
      "SimpleAddressPool and python-list pools, one DHCPLease listener vetoing one (client, address) pair",
      "a client is its Ethernet source address (the key the server uses); chaddr may differ",
      "client frames built and server frames decoded with struct only (harness/x01_net.py); the switch gets the DHCP "
      "frames to the controller through the flow DHCPD installs at ConnectionUp",
      "offers/leases/pool are read from the DHCPD object's public attributes after every step",
      "the code deviates from the intended design in three named ways (notes/X01.md, Defects observed): the check "
      "accepts the intended behaviour and those deviations, nothing else",
  ]
  # ---- all TLC runs of the model side, concurrently: properties (multi-worker), exports (one worker each)
  jobs = [dict(spec_dir="dhcpd", module="MCDhcpd", cfg=cfg, tag="X01", timeout=1500, workers=4)
          for cfg, _, _ in MODELS[ctx.tier]]
  jobs += [dict(spec_dir="dhcpd", module="MCDhcpd", cfg=cfg, tag="X01", timeout=1500, workers=1, coverage=False)
           for cfg, _, _ in EDGES[ctx.tier]]
  jobs += [dict(spec_dir="dhcpd", module="MCDhcpd", cfg=cfg, tag="X01", timeout=1500, workers=1, coverage=False,
                simulate=dict(num=num), depth=depth + 1, seed=ctx.seed + 1)
           for cfg, _, num, depth in SIMS[ctx.tier]]
  t0 = time.time()
  phase = ctx.notes.setdefault("phase_wall_s", {})
  results = tlc.run_many(jobs, parallel=6 if quick else 5)
  phase["tlc_models_and_exports"] = round(time.time() - t0, 1)
  t0 = time.time()
  nm, ne = len(MODELS[ctx.tier]), len(EDGES[ctx.tier])
  # ---- 1. the properties on the model
  for (cfg, label, acts), r in zip(MODELS[ctx.tier], results[:nm]):
    if r.violated:
      raise tlc.TLCError("spec violates its own property %s (%s):\n%s" % (r.violated, cfg, r.error_trace))
    tlc.require_coverage(r, acts, cfg)
    if "strict" in cfg and r.generated < 1000:
      raise tlc.TLCError("suspiciously small model run %s: %d states generated" % (cfg, r.generated))
    if "strict" in cfg:
      # the deviations must be OFF in the intended design
      on = [a for a in DEVIATIONS + FAULTS if r.coverage.get(a, (0, 0))[1] != 0]
      if on:
        raise tlc.TLCError("deviation actions enabled in the intended design %s: %s" % (cfg, on))
    ctx.add_model("Dhcpd %s (%s)" % (label, cfg), r)
  # ---- 2. spec -> code
  for k, (cfg, params, keep) in enumerate(EDGES[ctx.tier]):
    r, results[nm + k] = results[nm + k], None
    behs, total = _decode(r, "T", params.get("kind", "simple"), keep=keep, offset=ctx.seed)
    del r
    if not behs:
      raise tlc.TLCError("no behaviours exported by %s" % cfg)
    _replay(ctx, behs, params, cfg[:-4], base=ctx.seed % 5)
    ctx.notes["replay_" + cfg[:-4]]["exported"] = total
    del behs
  neg = None
  for (cfg, params, num, depth), r in zip(SIMS[ctx.tier], results[nm + ne:]):
    behs, total = _decode(r, "H", params.get("kind", "simple"))
    if len(behs) < num // 2:
      raise tlc.TLCError("simulation %s exported %d behaviours" % (cfg, len(behs)))
    _replay(ctx, behs, params, cfg[:-4], base=ctx.seed % 7)
    if neg is None:
      neg = (behs, params)
  # negative control for the replay: one expectation of one accepted behaviour corrupted -> must mismatch
  _replay_negative_control(ctx, *neg)
  phase["replay"] = round(time.time() - t0, 1)
  t0 = time.time()
  # ---- 3. code -> spec
  ntr = 240 if quick else 3000
  batches = []
  for kind, cfg, share in (("simple", "Trace_simple.cfg", 2), ("list", "Trace_list.cfg", 1)):
    n = ntr * share // 3
    items = [(ctx.seed * 100003 + i, 40 if quick else 60, kind) for i in range(n)]
    traces = core.run_driver("props.X01:drive", items)
    bad1, bad2 = _corrupt(traces)
    if (bad1 is None or bad2 is None) and not ctx.violations:
      raise tlc.TLCError("no trace suitable for the negative controls (no OFFER/ACK or no effective RELEASE recorded)")
    batches.append((kind, cfg, traces, [b for b in (bad1, bad2) if b is not None], items))
  phase["trace_drivers"] = round(time.time() - t0, 1)
  t0 = time.time()
  from concurrent.futures import ThreadPoolExecutor
  with ThreadPoolExecutor(2) as ex:
    vals = list(ex.map(lambda b: tracecheck.validate("dhcpd", "TraceDhcpd", b[1], b[2] + b[3], tag="X01"), batches))
  for (kind, cfg, traces, bads, items), (r, rej) in zip(batches, vals):
    n = len(traces)
    ctx.add_model("TraceDhcpd %s (validation of %d implementation traces)" % (kind, n), r)
    rejected = {t for t, _ in rej}
    if any(len(traces) + i not in rejected for i in range(len(bads))):
      raise tlc.TLCError("negative control (corrupted yiaddr / corrupted pool) was accepted by the trace spec")
    nrej = 0
    for t, matched in rej:
      if t >= len(traces):
        continue
      nrej += 1
      ev = traces[t][matched]
      ctx.report(dict(action=ev["a"], via="trace", kind=kind, reply=str(ev["obs"].get("reply", {}).get("t")),
                      fault=bool(ev["obs"].get("fault")), wf=ev["wf"]),
                 dict(trace=traces[t], failing_step=matched, config=cfg, driver_arg=list(items[t]),
                      note="TLC rejected the trace at this event"))
    ctx.traces += len(traces)
    for t in traces[:2000]:
      ctx.case(core.fp([[e["a"], e["args"]] for e in t]), sample=None)
    ctx.notes["trace_validation_" + kind] = dict(traces=len(traces), events=sum(len(t) for t in traces),
                                                  rejected=nrej, negative_controls_rejected=len(bads),
                                                  acks=sum(1 for t in traces for e in t
                                                           if e["a"] == "Request" and e["obs"]["reply"]["t"] == "ACK"),
                                                  faults=sum(1 for t in traces for e in t if e["obs"].get("fault")))
  phase["trace_validation"] = round(time.time() - t0, 1)
  ctx.exhaustive = True


def _replay_negative_control(ctx, behs, params):
  """Corrupt the expected yiaddr of one OFFER of a behaviour that replays cleanly: the replay must mismatch.
  (When the code under test already fails those behaviours there is nothing to control: the verdict stands.)"""
  scratch = core.Context(ctx.pid, ctx.tier, ctx.seed, ctx.level, clear=False)
  tried = 0
  for b in behs[:40]:
    idx = [i for i, s in enumerate(b) if s["a"] == "Discover" and s["exp"]["reply"]["t"] == "OFFER"]
    if not idx:
      continue
    tried += 1
    good = core.replay(scratch, ADAPTER, [b], params=dict(params, seed=ctx.seed), procs=1)
    if good["ok"] != 1:
      continue
    bad = copy.deepcopy(b)
    s = bad[idx[-1]]
    s["exp"]["reply"]["yi"] = s["exp"]["reply"]["yi"] % 3 + 1
    s["args"].pop("alts", None)
    res = core.replay(scratch, ADAPTER, [bad], params=dict(params, seed=ctx.seed), procs=1)
    if res["mismatch"] != 1:
      raise core.Machinery("negative control: a corrupted expectation replayed without mismatch")
    ctx.notes["replay_negative_control"] = "corrupted OFFER address rejected"
    return
  if ctx.violations and tried:
    ctx.notes["replay_negative_control"] = "skipped: no behaviour replays cleanly on this tree (violations reported)"
    return
  raise core.Machinery("negative control: no cleanly replaying behaviour with an OFFER found")


def _corrupt(traces):
  bad1 = bad2 = None
  for tr in traces:
    if bad1 is None:
      for i, e in enumerate(tr):
        if e["a"] in ("Discover", "Request") and e["obs"]["reply"]["t"] in ("OFFER", "ACK"):
          bad1 = copy.deepcopy(tr)
          bad1[i]["obs"]["reply"]["yi"] = bad1[i]["obs"]["reply"]["yi"] % 3 + 1     # another address
          break
    if bad2 is None:
      for i, e in enumerate(tr):
        if e["a"] == "Release" and e["obs"]["free"] and i > 0 and tr[i - 1]["obs"].get("free") != e["obs"]["free"]:
          bad2 = copy.deepcopy(tr)
          bad2[i]["obs"]["free"] = bad2[i]["obs"]["free"][:-1]                      # the address never came back
          break
    if bad1 is not None and bad2 is not None:
      return bad1, bad2
  return bad1, bad2


# --------------------------------------------------------------------------
# code -> spec driver

PRL4 = [[], [1, 3, 6, 15], [6], [1, 3]]
JUNK = ["bootreply", "notype", "offer", "type9", "otherdst", "ports", "magic", "short"]
TRACE_PARAMS = {
    "simple": dict(clients=["c1", "c2", "c3"], N=3, srv=2, kind="simple", nports=3, served=[1, 2],
                   veto=[["c3", 1]], has_router=True, has_dns=True, lease_ticks=2),
    "list": dict(clients=["c1", "c2", "c3"], N=2, srv=0, kind="list", nports=3, served=[1, 2],
                 veto=[["c3", 1]], has_router=False, has_dns=True, lease_ticks=2),
}
REPLY_KEYS = {"t", "yi", "x", "to", "port", "ch", "opts"}
OBS_KEYS = {"reply", "ev", "fault", "offers", "leases", "free"}
DUMMY_REPLY = {"t": "bad", "yi": -1, "x": -1, "to": "bad", "port": -1, "ch": "bad", "opts": []}


def _wf(obs, clients):
  if not isinstance(obs, dict) or set(obs) != OBS_KEYS:
    return False
  r = obs["reply"]
  if not isinstance(r, dict) or set(r) != REPLY_KEYS:
    return False
  if not (isinstance(r["t"], str) and isinstance(r["to"], str) and isinstance(r["ch"], str)):
    return False
  if not all(isinstance(r[k], int) and not isinstance(r[k], bool) for k in ("yi", "x", "port")):
    return False
  if not (isinstance(r["opts"], list) and all(isinstance(o, int) for o in r["opts"])):
    return False
  e = obs["ev"]
  if not (isinstance(e, dict) and set(e) == {"c", "a"} and isinstance(e["c"], str) and isinstance(e["a"], int)):
    return False
  if not isinstance(obs["fault"], bool):
    return False
  for k in ("offers", "leases"):
    if not (isinstance(obs[k], dict) and set(obs[k]) == set(clients) and all(isinstance(v, int) for v in obs[k].values())):
      return False
  return isinstance(obs["free"], list) and all(isinstance(v, int) for v in obs["free"])


def drive(arg):
  """Random client population against the real server; returns the recorded trace."""
  seed, n, kind = arg
  from harness.adapters_x01 import Adapter
  rnd = random.Random(seed)
  params = TRACE_PARAMS[kind]
  ad = Adapter(variant=seed % 30, seed=seed, **params)
  clients = params["clients"]
  N = params["N"]
  blank = dict(c="", w=0, p=0, x=0, bc=False, prl=[], ch="", k="")
  tr = []
  try:
    obs = ad.step("ConnUp", {})
  except core.Machinery:
    raise
  except Exception as e:          # noqa - the server / pool could not even be built: recorded, rejected by TLC
    obs = {"exc": "%s: %s" % (type(e).__name__, e)}
  ok = set(obs) == {"flows"}
  tr.append(dict(a="ConnUp", args=dict(blank), obs=obs if ok else {"flows": -1, "raw": json.dumps(obs, default=str)[:300]},
                 wf=ok))
  if not ok:
    return tr
  hint = {c: 0 for c in clients}          # the address the client was last offered / acknowledged
  for _ in range(n - 1):
    k = rnd.random()
    c = rnd.choice(clients)
    args = dict(blank, c=c, p=rnd.choice(params["served"]), x=rnd.randint(1, 5), bc=rnd.random() < 0.3,
                prl=rnd.choice(PRL4), ch=c if rnd.random() < 0.85 else rnd.choice(clients))
    want = hint[c] if (hint[c] and rnd.random() < 0.6) else rnd.randint(0, N + 1)
    if k < 0.27:
      a = "Discover"
      args["w"] = rnd.choice([0, 0, want, rnd.randint(0, N + 1)])
    elif k < 0.60:
      a = "Request"
      args["w"] = want
    elif k < 0.78:
      a = "Release"
      args["w"] = want
    elif k < 0.82:
      a = "Decline"
      args["w"] = want
    elif k < 0.85:
      a = "Inform"
      args["w"] = want
    elif k < 0.91:
      a = "Junk"
      args["k"] = rnd.choice(JUNK)
    elif k < 0.94:
      a = "NotServed"
      args["p"] = 3
    else:
      a = "Tick"
      args = dict(blank)
    try:
      obs = ad.step(a, args)
      wf = _wf(obs, clients)
    except Exception as e:          # noqa - adapter crash: recorded, rejected by the trace spec (wf = FALSE)
      obs, wf = {"exc": "%s: %s" % (type(e).__name__, e)}, False
    if not wf:
      obs = dict(reply=dict(DUMMY_REPLY), ev={"c": "bad", "a": -1}, fault=False, offers={c2: -1 for c2 in clients},
                 leases={c2: -1 for c2 in clients}, free=[], raw=json.dumps(obs, default=str)[:600])
    elif a in ("Discover", "Request") and obs["reply"]["t"] in ("OFFER", "ACK"):
      hint[c] = obs["reply"]["yi"]
    tr.append(dict(a=a, args=args, obs=obs, wf=wf))
  return tr


def replay_one(ctx, rep):
  """`./check X01 --replay FILE`: re-run one recorded failure against the current tree."""
  if "behaviour" in rep:
    core.replay(ctx, rep["adapter"], [rep["behaviour"]], params=rep.get("params"), procs=1)
    return
  arg = tuple(rep["driver_arg"])
  tr = drive(arg)                    # the same seeded client population, on the current tree
  r, rej = tracecheck.validate("dhcpd", "TraceDhcpd", rep["config"], [tr], tag="X01")
  for t, matched in rej:
    ev = tr[matched]
    ctx.report(dict(action=ev["a"], via="trace", kind=arg[2], reply=str(ev["obs"].get("reply", {}).get("t")),
                    fault=bool(ev["obs"].get("fault")), wf=ev["wf"]),
               dict(trace=tr, failing_step=matched, config=rep["config"], driver_arg=list(arg)))


# --------------------------------------------------------------------------
# not part of the check: the intended design rejects the code as built

def strict_demo(n=200):
  """Validate traces of the real server against the INTENDED design (Trace_strict.cfg)."""
  traces = core.run_driver("props.X01:drive", [(424242 + i, 40, "simple") for i in range(n)])
  r, rej = tracecheck.validate("dhcpd", "TraceDhcpd", "Trace_strict.cfg", traces, tag="X01demo")
  print("traces: %d   rejected by the intended design: %d" % (len(traces), len(rej)))
  kinds = {}
  for t, matched in rej:
    ev = traces[t][matched]
    k = (ev["a"], ev["obs"]["reply"]["t"], "fault" if ev["obs"]["fault"] else "")
    kinds[k] = kinds.get(k, 0) + 1
  for k, v in sorted(kinds.items(), key=lambda kv: -kv[1]):
    print("  first rejected event %-40s x %d" % (k, v))
  if rej:
    t, matched = min(rej, key=lambda x: x[1])
    print("shortest rejected prefix (trace %d, event %d):" % (t, matched))
    for e in traces[t][:matched + 1]:
      print("  ", e["a"], {k: v for k, v in e["args"].items() if k in ("c", "w", "ch")},
            "->", e["obs"].get("reply", {}).get("t"), "offers", e["obs"].get("offers"), "leases", e["obs"].get("leases"),
            "free", e["obs"].get("free"))
  return len(rej)


if __name__ == "__main__":
  if len(sys.argv) > 1 and sys.argv[1] == "strict":
    strict_demo()
