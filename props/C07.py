"""C07 - thread hand-off and cooperative locks.

Part 1 (threads): specs/recoco/Threads.tla (PlusCal, one label per shared-state
operation) is model-checked by TLC - safety and, with no poll timeout in the
model, liveness.  The real recoco code is run on real threads under a
deterministic controller (harness/threadctl.py) for many schedules; each run's
trace of shared-state operations is validated by TLC against the spec
(specs/recoco/TraceThreads.tla), including the final "nothing is pending" check.

Part 2 (cooperative Lock): Sched.tla with lock programs, model-checked and
replayed on the real Lock/Scheduler (same adapter as C06).
"""
import copy
import concurrent.futures

from engine import tlc, core, tracecheck
from props import C06

PROGS = {
    "P": {1: ["call"], 2: ["call"]},
    "Q": {1: ["sched"], 2: ["sched"]},
    "R": {1: ["sync"], 2: ["sync"]},
    "A": {1: ["call", "sync"], 2: ["call", "sched"]},
    "B": {1: ["sched", "sched"], 2: ["sched", "sync"]},
    "C": {1: ["call", "call"], 2: ["sync", "call"]},
    "D": {1: ["call", "sched", "sync"]},
    "E": {1: ["call", "call", "sync"], 2: ["sync", "call", "sched"]},
}
END = {"th": "-", "op": "end", "arg": ["-", "", 0, 0], "res": "-"}


def drive(arg):
  """run one schedule of one scenario on the real code; returns (trace, choices)"""
  p, threaded, mode, x = arg
  from harness.c07_scenario import run_scenario
  if mode == "prefix":
    r = run_scenario(PROGS[p], threaded, policy="nonpreemptive", schedule=x)
  else:
    r = run_scenario(PROGS[p], threaded, seed=x, policy=mode)
  ok = (not r["errors"]) and r["end"] == "quiescent"
  ev = r["events"] + [dict(END, op="end" if ok else "error")]
  return ev, r["choices"], r["errors"]


def explore(p, threaded, bound, budget):
  """all schedules with <= bound preemptions (DFS over schedule prefixes), up to budget runs"""
  seen = set()
  out = []
  frontier = [[]]
  while frontier and len(out) < budget:
    batch = frontier[:64]
    frontier = frontier[64:]
    res = core.run_driver("props.C07:drive", [(p, threaded, "prefix", pre) for pre in batch], chunk=4)
    for pre, (ev, choices, errs) in zip(batch, res):
      key = core.fp([[e["th"], e["op"]] for e in ev])
      if key not in seen:
        seen.add(key)
        out.append(ev)
      # preemptions used by this run so far
      pcount = 0
      for i, (chosen, names, last) in enumerate(choices):
        if i >= len(pre):
          if pcount < bound or last is None:
            for alt in names:
              if alt != chosen:
                cost = 1 if (last is not None) else 0
                if pcount + cost <= bound:
                  frontier.append([c[0] for c in choices[:i]] + [alt])
        if last is not None and chosen != last:
          pcount += 1
  return out


def validate(ctx, p, m, traces):
  r, rej = tracecheck.validate("recoco", "TraceThreads", "TR_%s%s.cfg" % (p, m), traces,
                               tag="C07-%s%s" % (p, m))
  return p, m, r, rej


def run(ctx):
  quick = ctx.tier == "quick"
  ctx.rule = ("threads: every run = one schedule of a scenario (2 foreign threads x 1-3 operations over "
              "callLater/raiseLater, schedule(T), synchronized{}; threaded and inline hub) on the real recoco code "
              "under a deterministic thread controller that serialises all shared-state operations and never "
              "fires a poll timeout; each recorded trace is validated by TLC against Threads.tla; distinct = "
              "distinct (thread, operation) sequences.  locks: TLC-exported behaviours of Sched.tla with lock "
              "programs replayed on the real cooperative Lock")
  ctx.assumptions = [
      "interleaving granularity = operations on shared objects (deque, pinger pipes, Event, Queue, Lock, select); "
      "CPython executes each atomically under the GIL; thread-private code between them is not preempted",
      "poll timeouts (CYCLE_MAXIMUM) never fire in the controller and do not exist in the model",
      "scenarios: <=2 foreign threads, <=3 operations each, at most one synchronized{} per thread",
      "pinger: bursts of 1, 1023, 1024, 1025 pings (up to 2100 unread), pong_all / pong; a pong that has not "
      "returned after 12 s counts as blocking the scheduler thread"]
  # ---- 1a. the design: TLC on Threads.tla (safety + liveness, fair processes, no timeouts)
  mcs = ["MCT_Pt", "MCT_Pi", "MCT_Qt", "MCT_Qi", "MCT_Rt", "MCT_Ri", "MCT_Dt", "MCT_Di"]
  if not quick:
    mcs += ["MCT_Ai", "MCT_At", "MCT_Bi", "MCT_Bt", "MCT_Ci", "MCT_Ct"]
  res = tlc.run_many([dict(spec_dir="recoco", module="MCThreads", cfg=c + ".cfg", tag="C07", timeout=3000,
                           coverage=False, workers=4) for c in mcs], parallel=4)
  for c, r in zip(mcs, res):
    if r.violated:
      raise tlc.TLCError("Threads.tla violates %s in %s:\n%s" % (r.violated, c, r.error_trace[:3000]))
    if r.distinct < 1000:
      raise tlc.TLCError("suspiciously small state space for %s: %d" % (c, r.distinct))
    ctx.add_model("Threads " + c, r)
  # ---- 1b. code -> spec
  groups = {}
  nrand = 40 if quick else 400
  for p in PROGS:
    for m in ("t", "i"):
      thr = m == "t"
      items = [(p, thr, "random" if s % 2 else "sticky", ctx.seed * 7919 + s) for s in range(nrand)]
      tr = [e for e, _, _ in core.run_driver("props.C07:drive", items, chunk=5)]
      if p in ("P", "Q", "R"):
        tr += explore(p, thr, 1 if quick else 2, 150 if quick else 3000)
      groups[(p, m)] = tr
  # negative controls: (1) drop one wake-up signal, (2) a callback run by a foreign thread
  base = groups[("A", "t")][0]
  bad1 = [e for e in copy.deepcopy(base)]
  ks = [i for i, e in enumerate(bad1) if e["op"] in ("ev.set", "hubpipe.ping", "ready.append", "calls.append")]
  del bad1[ks[-1] if ks else 0]
  bad2 = copy.deepcopy(base)
  for e in bad2:
    if e["op"] == "run" and e["arg"][0] == "F":
      e["th"] = "F1"
      break
  else:
    bad2[0]["th"] = "H" if bad2[0]["th"] != "H" else "S"
  groups[("A", "t")] = groups[("A", "t")] + [bad1, bad2]
  nneg = 2
  total = 0
  with concurrent.futures.ThreadPoolExecutor(4) as ex:
    futs = [ex.submit(validate, ctx, p, m, tr) for (p, m), tr in groups.items()]
    for f in futs:
      p, m, r, rej = f.result()
      tr = groups[(p, m)]
      ctx.add_model("TraceThreads %s%s (%d traces)" % (p, m, len(tr)), r)
      rejected = dict(rej)
      if (p, m) == ("A", "t"):
        n = len(tr)
        if (n - 1) not in rejected or (n - 2) not in rejected:
          raise tlc.TLCError("negative control trace was accepted by TraceThreads")
        rejected.pop(n - 1)
        rejected.pop(n - 2)
        tr = tr[:-nneg]
      for t, matched in sorted(rejected.items()):
        ev = tr[t][matched]
        sig = dict(part="threads", scenario=p, mode=m, op=ev["op"], th=ev["th"][:1])
        ctx.report(sig, dict(trace=tr[t], failing_event=matched, scenario=PROGS[p], prog=p, threaded=(m == "t"),
                             schedule=[e["th"] for e in tr[t] if e["th"] != "-"],
                             note="TLC rejected the recorded trace at this event (index from 0)"))
      total += len(tr)
      ctx.traces += len(tr)
      for t in tr:
        ctx.case(core.fp([[e["th"], e["op"], e["arg"]] for e in t]),
                 sample=[[e["th"], e["op"], e["arg"], e["res"]] for e in t[:12]])
  ctx.notes["thread_traces"] = dict(total=total, per_group={"%s%s" % k: len(v) for k, v in groups.items()},
                                    negative_controls_rejected=nneg)
  # ---- 1c. the wake-up channel itself (pox.lib.util.makePinger): Threads.tla models it as a counter that a pong
  # empties; Pinger.tla states what that rests on (readable iff pings are unread, a pong on a readable pinger
  # returns, nothing pinged is lost) for bursts around the 1024-byte read of pong_all
  r = tlc.run("pinger", "MCPinger", "MC_P.cfg", tag="C07", timeout=600, workers=4)
  if r.violated:
    raise tlc.TLCError("Pinger.tla violates %s:\n%s" % (r.violated, r.error_trace[:2000]))
  tlc.require_coverage(r, ["Ping", "PongAll", "Pong"], "MC_P.cfg")
  ctx.add_model("Pinger MC_P.cfg", r)
  r = tlc.run("pinger", "MCPinger", "EX_P.cfg", tag="C07", timeout=600, workers=1, coverage=False)
  behs = r.tagged("T")
  if len(behs) < 100 or not any(s["a"] == "PongAll" and s["args"]["n"] == 0 for b in behs for s in b):
    raise tlc.TLCError("pinger behaviours: %d exported, or no PongAll among them" % len(behs))
  st = core.replay(ctx, "harness.adapters_c07p:Adapter", behs, params={}, chunk=10)
  ctx.notes["replay pinger EX_P.cfg"] = dict(behaviours=len(behs), **st)
  okb = [behs[i] for i in core.replay.last_ok if behs[i][-1]["a"] == "PongAll"]
  if okb:        # negative control: a pong that is expected to block must be reported
    bad = copy.deepcopy(okb[0])
    bad[-1]["exp"]["ret"] = "blocked"
    bad[-1]["alts"] = []
    c2 = core.Context(ctx.pid, ctx.tier, ctx.seed, ctx.level)
    c2.known = []
    core.replay(c2, "harness.adapters_c07p:Adapter", [bad], params={}, procs=1)
    if not c2.violations:
      raise core.Machinery("negative control (pinger) not reported")
  # ---- 2. cooperative locks on Sched.tla
  C06.model_check(ctx, "MC_L1i.cfg", ["Cycle", "HubSelect", "WakeST"])
  C06.model_check(ctx, "MC_L2q.cfg", ["Cycle"])
  pl = dict(threaded=False, nlocks=2)
  C06.export_edges(ctx, "EX_L1i.cfg", pl, cap=4000 if quick else None)
  C06.simulate(ctx, "SIM_L2i.cfg", 150 if quick else 3000, 14, pl)
  if not quick:
    C06.export_edges(ctx, "EX_L2q.cfg", pl, cap=60000)
  ctx.exhaustive = False


def replay_one(ctx, rep):
  """re-run the scenario under the recorded schedule (thread per shared operation) and let TLC judge it"""
  if "behaviour" in rep:
    return core.replay(ctx, rep["adapter"], [rep["behaviour"]], params=rep.get("params"), procs=1)
  p, thr = rep["prog"], rep["threaded"]
  ev, _, _ = drive((p, thr, "prefix", list(rep["schedule"])))
  m = "t" if thr else "i"
  r, rej = tracecheck.validate("recoco", "TraceThreads", "TR_%s%s.cfg" % (p, m), [ev], tag="C07-replay")
  for t, matched in rej:
    e = ev[matched]
    ctx.report(dict(part="threads", scenario=p, mode=m, op=e["op"], th=e["th"][:1]), dict(trace=ev, failing_event=matched))
